//! C32 JSON -> JSONB round trip: parse_json, JsonValue::to_jsonb_bytes, JsonbBuilder::build, a full
//! read-back through JsonbView and lookups through OwnedValue::{jsonb_get, jsonb_array_get, jsonb_get_path}.
//! Replay lines:  `doc <hex of the UTF-8 text>`   or   `rep <hex pre> <hex unit> <count> <hex post>`
//! (text = pre ++ unit*count ++ post).  Everything else of a case is a function of the text.
use tvh::*;
use turdb::parsing::{parse_json, JsonValue};
use turdb::records::jsonb::{JsonbBuilder, JsonbBuilderValue, JsonbValue, JsonbView};
use turdb::types::OwnedValue;

// ------------------------------------------------------------------ trees as the harness sees them
#[derive(Clone, Debug, PartialEq)]
enum T { Null, Bool(bool), Num(u64), Str(Vec<u8>), Arr(Vec<T>), Obj(Vec<(Vec<u8>, T)>) }

/// a byte string as the Coq term (B n [chunks]%uint63), seven bytes per primitive integer; decoded by Corr/C32.v
fn hb(b: &[u8]) -> String {
    if b.is_empty() { return "(B 0 [])".to_string(); }
    let mut s = format!("(B {} [", b.len());
    for (i, c) in b.chunks(7).enumerate() {
        if i > 0 { s.push(';'); }
        let mut v: u64 = 0;
        for x in c { v = (v << 8) | *x as u64; }
        s.push_str(&v.to_string());
    }
    s.push_str("]%uint63)");
    s
}
fn q64(x: u64) -> String { format!("{} {}", x >> 32, x & 0xFFFF_FFFF) }
fn t_term(t: &T) -> String {
    match t {
        T::Null => "JNull".into(),
        T::Bool(b) => format!("(JBool {})", cbool(*b)),
        T::Num(x) => format!("(N {})", q64(*x)),
        T::Str(s) => format!("(JStr {})", hb(s)),
        T::Arr(v) => format!("(JArr {})", clist(&v.iter().map(t_term).collect::<Vec<_>>())),
        T::Obj(v) => format!("(JObj {})", clist(&v.iter().map(|(k, e)| format!("({},{})", hb(k), t_term(e))).collect::<Vec<_>>())),
    }
}
fn t_nodes(t: &T) -> usize {
    match t { T::Arr(v) => 1 + v.iter().map(t_nodes).sum::<usize>(), T::Obj(v) => 1 + v.iter().map(|(_, e)| t_nodes(e)).sum::<usize>(), _ => 1 }
}
fn t_depth(t: &T) -> usize {
    match t { T::Arr(v) => 1 + v.iter().map(t_depth).max().unwrap_or(0), T::Obj(v) => 1 + v.iter().map(|(_, e)| t_depth(e)).max().unwrap_or(0), _ => 0 }
}
fn from_jv(v: &JsonValue) -> T {
    match v {
        JsonValue::Null => T::Null,
        JsonValue::Bool(b) => T::Bool(*b),
        JsonValue::Number(n) => T::Num(n.to_bits()),
        JsonValue::String(s) => T::Str(s.as_bytes().to_vec()),
        JsonValue::Array(a) => T::Arr(a.iter().map(from_jv).collect()),
        JsonValue::Object(o) => T::Obj(o.iter().map(|(k, e)| (k.as_bytes().to_vec(), from_jv(e))).collect()),
    }
}
fn to_builder_value(v: &JsonValue) -> JsonbBuilderValue {
    match v {
        JsonValue::Null => JsonbBuilderValue::Null,
        JsonValue::Bool(b) => JsonbBuilderValue::Bool(*b),
        JsonValue::Number(n) => JsonbBuilderValue::Number(*n),
        JsonValue::String(s) => JsonbBuilderValue::String(s.clone()),
        JsonValue::Array(a) => JsonbBuilderValue::Array(a.iter().map(to_builder_value).collect()),
        JsonValue::Object(o) => JsonbBuilderValue::Object(o.iter().map(|(k, e)| (k.clone(), to_builder_value(e))).collect()),
    }
}
/// the builder of records/jsonb.rs, driven the way database/convert.rs drives it
fn make_builder(v: &JsonValue) -> JsonbBuilder {
    match v {
        JsonValue::Null => JsonbBuilder::new_null(),
        JsonValue::Bool(b) => JsonbBuilder::new_bool(*b),
        JsonValue::Number(n) => JsonbBuilder::new_number(*n),
        JsonValue::String(s) => JsonbBuilder::new_string(s.clone()),
        JsonValue::Array(a) => { let mut b = JsonbBuilder::new_array(); for e in a { b.push(to_builder_value(e)); } b }
        JsonValue::Object(o) => { let mut b = JsonbBuilder::new_object(); for (k, e) in o { b.set(k.clone(), to_builder_value(e)); } b }
    }
}
fn build_with_builder(v: &JsonValue) -> Vec<u8> { make_builder(v).build() }
/// JsonbBuilder::try_build, the checked entry point the SQL conversion path uses
fn try_build_with_builder(v: &JsonValue) -> Caught<Option<Vec<u8>>> {
    let v = v.clone();
    catch(move || make_builder(&v).try_build().ok())
}
fn beyond_format(t: &T, bytes: &[u8]) -> bool {
    fn long(t: &T, nested: bool) -> bool {
        match t {
            T::Str(s) => if nested { s.len() >= 1 << 16 } else { s.len() >= 1 << 28 },
            T::Arr(a) => a.iter().any(|e| long(e, true)),
            T::Obj(o) => o.iter().any(|(k, e)| k.len() >= 1 << 16 || long(e, true)),
            _ => false,
        }
    }
    long(t, false) || (!matches!(t, T::Str(_)) && bytes.len() > 1 << 24)
}

// ------------------------------------------------------------------ reading back through the view
fn walk_value(v: JsonbValue<'_>) -> eyre::Result<T> {
    Ok(match v {
        JsonbValue::Null => T::Null,
        JsonbValue::Bool(b) => T::Bool(b),
        JsonbValue::Number(n) => T::Num(n.to_bits()),
        JsonbValue::String(s) => T::Str(s.as_bytes().to_vec()),
        JsonbValue::Array(view) => {
            let mut out = vec![];
            for item in view.iter_array()? { out.push(walk_value(item?)?); }
            T::Arr(out)
        }
        JsonbValue::Object(view) => {
            let mut out = vec![];
            for item in view.iter_object()? { let (k, e) = item?; out.push((k.as_bytes().to_vec(), walk_value(e)?)); }
            T::Obj(out)
        }
    })
}
fn walk_bytes(data: &[u8]) -> eyre::Result<T> {
    let view = JsonbView::new(data)?;
    walk_value(view.as_value()?)
}
fn rres_tree(data: &[u8]) -> String {
    let d = data.to_vec();
    match catch(move || walk_bytes(&d)) {
        Caught::Done(Ok(t)) => format!("(RVal {})", t_term(&t)),
        Caught::Done(Err(_)) => "RErr".into(),
        Caught::Panicked(_) => "RPanic".into(),
    }
}
fn ov_tree(o: &OwnedValue) -> Option<T> {
    match o {
        OwnedValue::Null => Some(T::Null),
        OwnedValue::Bool(b) => Some(T::Bool(*b)),
        OwnedValue::Float(f) => Some(T::Num(f.to_bits())),
        OwnedValue::Text(s) => Some(T::Str(s.as_bytes().to_vec())),
        OwnedValue::Jsonb(d) => { let d = d.clone(); match catch(move || walk_bytes(&d)) { Caught::Done(Ok(t)) => Some(t), _ => None } }
        _ => None,
    }
}
fn rres_lookup(r: Caught<eyre::Result<Option<OwnedValue>>>) -> (String, Option<T>) {
    match r {
        Caught::Done(Ok(None)) => ("RNone".into(), None),
        Caught::Done(Ok(Some(o))) => match ov_tree(&o) { Some(t) => (format!("(RVal {})", t_term(&t)), Some(t)), None => ("RBad".into(), None) },
        Caught::Done(Err(_)) => ("RErr".into(), None),
        Caught::Panicked(_) => ("RPanic".into(), None),
    }
}

#[derive(Clone, Debug)]
enum Step { Key(Vec<u8>), Idx(usize) }
fn step_term(s: &Step) -> String { match s { Step::Key(k) => format!("SKey {}", hb(k)), Step::Idx(i) => format!("SIdx {}", i) } }

fn stepwise(root: &[u8], steps: &[Step]) -> Caught<eyre::Result<Option<OwnedValue>>> {
    let root = root.to_vec();
    let steps = steps.to_vec();
    catch(move || {
        let mut cur = Some(OwnedValue::Jsonb(root));
        for s in &steps {
            cur = match cur {
                None => return Ok(None),
                Some(o) => match s {
                    Step::Key(k) => o.jsonb_get(std::str::from_utf8(k).unwrap())?,
                    Step::Idx(i) => o.jsonb_array_get(*i)?,
                },
            };
        }
        Ok(cur)
    })
}
fn by_path(root: &[u8], keys: &[Vec<u8>]) -> Caught<eyre::Result<Option<OwnedValue>>> {
    let root = root.to_vec();
    let keys = keys.to_vec();
    catch(move || {
        let ks: Vec<&str> = keys.iter().map(|k| std::str::from_utf8(k).unwrap()).collect();
        OwnedValue::Jsonb(root).jsonb_get_path(&ks)
    })
}

/// the lookups of a case: a deterministic function of the parsed value (every member key and every
/// array index of every container reached, one absent key / one index past the end per container,
/// kind mismatches), capped.
fn plan_probes(v: &T, cap: usize) -> Vec<Vec<Step>> {
    fn absent_key(o: &[(Vec<u8>, T)]) -> Vec<u8> {
        let mut k: Vec<u8> = o.first().map(|(k, _)| k.clone()).unwrap_or_else(|| b"k".to_vec());
        loop { k.push(b'~'); if !o.iter().any(|(x, _)| *x == k) { return k; } }
    }
    fn go(v: &T, prefix: &mut Vec<Step>, out: &mut Vec<Vec<Step>>, cap: usize) {
        if out.len() >= cap { return; }
        match v {
            T::Obj(o) => {
                let mut seen: Vec<&Vec<u8>> = vec![];
                for (k, e) in o {
                    if seen.contains(&k) { continue; }
                    seen.push(k);
                    prefix.push(Step::Key(k.clone()));
                    out.push(prefix.clone());
                    go(e, prefix, out, cap);
                    prefix.pop();
                }
                prefix.push(Step::Key(absent_key(o))); out.push(prefix.clone()); prefix.pop();
                prefix.push(Step::Idx(0)); out.push(prefix.clone()); prefix.pop();
            }
            T::Arr(a) => {
                for (i, e) in a.iter().enumerate() {
                    prefix.push(Step::Idx(i));
                    out.push(prefix.clone());
                    go(e, prefix, out, cap);
                    prefix.pop();
                }
                prefix.push(Step::Idx(a.len())); out.push(prefix.clone()); prefix.pop();
                prefix.push(Step::Key(b"a".to_vec())); out.push(prefix.clone()); prefix.pop();
            }
            _ => {
                // a step below a scalar
                prefix.push(Step::Key(b"a".to_vec())); out.push(prefix.clone()); prefix.pop();
            }
        }
    }
    let mut out = vec![vec![]];
    go(v, &mut vec![], &mut out, cap);
    out.truncate(cap);
    out
}

// ------------------------------------------------------------------ reference reader (strict RFC 8259)
// Independent of the code under test: decides whether a text is a JSON document and which value it
// denotes (numbers through str::parse::<f64>, the same std function the implementation relies on).
struct Ref<'a> { s: &'a [u8], i: usize, depth: usize }
impl<'a> Ref<'a> {
    fn ws(&mut self) { while self.i < self.s.len() && matches!(self.s[self.i], b' ' | b'\t' | b'\n' | b'\r') { self.i += 1; } }
    fn eat(&mut self, c: u8) -> bool { if self.i < self.s.len() && self.s[self.i] == c { self.i += 1; true } else { false } }
    fn lit(&mut self, w: &[u8]) -> bool { if self.s[self.i..].starts_with(w) { self.i += w.len(); true } else { false } }
    fn value(&mut self) -> Option<T> {
        self.ws();
        if self.i >= self.s.len() { return None; }
        match self.s[self.i] {
            b'n' => if self.lit(b"null") { Some(T::Null) } else { None },
            b't' => if self.lit(b"true") { Some(T::Bool(true)) } else { None },
            b'f' => if self.lit(b"false") { Some(T::Bool(false)) } else { None },
            b'"' => self.string().map(T::Str),
            b'[' => {
                self.i += 1; self.depth += 1; if self.depth > 200 { return None; }
                let mut out = vec![];
                self.ws();
                if self.eat(b']') { self.depth -= 1; return Some(T::Arr(out)); }
                loop {
                    out.push(self.value()?);
                    self.ws();
                    if self.eat(b',') { continue; }
                    if self.eat(b']') { self.depth -= 1; return Some(T::Arr(out)); }
                    return None;
                }
            }
            b'{' => {
                self.i += 1; self.depth += 1; if self.depth > 200 { return None; }
                let mut out = vec![];
                self.ws();
                if self.eat(b'}') { self.depth -= 1; return Some(T::Obj(out)); }
                loop {
                    self.ws();
                    if self.i >= self.s.len() || self.s[self.i] != b'"' { return None; }
                    let k = self.string()?;
                    self.ws();
                    if !self.eat(b':') { return None; }
                    let v = self.value()?;
                    out.push((k, v));
                    self.ws();
                    if self.eat(b',') { continue; }
                    if self.eat(b'}') { self.depth -= 1; return Some(T::Obj(out)); }
                    return None;
                }
            }
            b'-' | b'0'..=b'9' => self.number(),
            _ => None,
        }
    }
    fn number(&mut self) -> Option<T> {
        let st = self.i;
        self.eat(b'-');
        if self.eat(b'0') {} else {
            if !(self.i < self.s.len() && (b'1'..=b'9').contains(&self.s[self.i])) { return None; }
            while self.i < self.s.len() && self.s[self.i].is_ascii_digit() { self.i += 1; }
        }
        if self.i < self.s.len() && self.s[self.i] == b'.' {
            self.i += 1;
            let d = self.i;
            while self.i < self.s.len() && self.s[self.i].is_ascii_digit() { self.i += 1; }
            if self.i == d { return None; }
        }
        if self.i < self.s.len() && (self.s[self.i] == b'e' || self.s[self.i] == b'E') {
            self.i += 1;
            if self.i < self.s.len() && (self.s[self.i] == b'+' || self.s[self.i] == b'-') { self.i += 1; }
            let d = self.i;
            while self.i < self.s.len() && self.s[self.i].is_ascii_digit() { self.i += 1; }
            if self.i == d { return None; }
        }
        let txt = std::str::from_utf8(&self.s[st..self.i]).ok()?;
        txt.parse::<f64>().ok().map(|f| T::Num(f.to_bits()))
    }
    fn hex4(&mut self) -> Option<u32> {
        if self.i + 4 > self.s.len() { return None; }
        let mut v = 0u32;
        for k in 0..4 { v = v * 16 + (self.s[self.i + k] as char).to_digit(16)?; }
        self.i += 4;
        Some(v)
    }
    fn string(&mut self) -> Option<Vec<u8>> {
        self.i += 1;
        let mut out = vec![];
        loop {
            if self.i >= self.s.len() { return None; }
            let c = self.s[self.i];
            self.i += 1;
            match c {
                b'"' => return Some(out),
                b'\\' => {
                    if self.i >= self.s.len() { return None; }
                    let e = self.s[self.i];
                    self.i += 1;
                    match e {
                        b'"' => out.push(b'"'), b'\\' => out.push(b'\\'), b'/' => out.push(b'/'),
                        b'b' => out.push(8), b'f' => out.push(12), b'n' => out.push(10), b'r' => out.push(13), b't' => out.push(9),
                        b'u' => {
                            let hi = self.hex4()?;
                            let cp = if (0xD800..0xDC00).contains(&hi) {
                                if !(self.eat(b'\\') && self.eat(b'u')) { return None; }
                                let lo = self.hex4()?;
                                if !(0xDC00..0xE000).contains(&lo) { return None; }
                                0x10000 + ((hi - 0xD800) << 10) + (lo - 0xDC00)
                            } else if (0xDC00..0xE000).contains(&hi) { return None; } else { hi };
                            let ch = char::from_u32(cp)?;
                            let mut b = [0u8; 4];
                            out.extend_from_slice(ch.encode_utf8(&mut b).as_bytes());
                        }
                        _ => return None,
                    }
                }
                c if c < 0x20 => return None,
                c => out.push(c),
            }
        }
    }
}
fn ref_parse(text: &str) -> Option<T> {
    let mut r = Ref { s: text.as_bytes(), i: 0, depth: 0 };
    let v = r.value()?;
    r.ws();
    if r.i == r.s.len() { Some(v) } else { None }
}

// ------------------------------------------------------------------ number oracle
fn is_numch(c: u8) -> bool { c.is_ascii_digit() || matches!(c, b'.' | b'e' | b'E' | b'+' | b'-') }
fn number_oracle(text: &str) -> Vec<(Vec<u8>, Option<u64>)> {
    let s = text.as_bytes();
    let mut out: Vec<(Vec<u8>, Option<u64>)> = vec![];
    for p in 0..s.len() {
        if !(s[p] == b'-' || s[p].is_ascii_digit()) { continue; }
        if p > 0 && (s[p - 1].is_ascii_digit() || matches!(s[p - 1], b'.' | b'E' | b'+' | b'-')) { continue; }
        let mut q = p + 1;
        while q < s.len() && is_numch(s[q]) { q += 1; }
        let tok = &s[p..q];
        if out.iter().any(|(t, _)| t == tok) { continue; }
        let r = std::str::from_utf8(tok).ok().and_then(|t| t.parse::<f64>().ok()).map(|f| f.to_bits());
        out.push((tok.to_vec(), r));
    }
    out
}

// ------------------------------------------------------------------ one case
#[allow(dead_code)]
struct Ran { term: String, nontrivial: bool, spec_fail: bool }

fn run_case(text: &str, probe_cap: usize) -> Ran {
    let want = ref_parse(text);
    let oracle = number_oracle(text);
    let oracle_term = clist(&oracle.iter().map(|(t, r)| format!("({},{})", hb(t), copt(r.map(|b| format!("(Q {})", q64(b)))))).collect::<Vec<_>>());
    let txt = text.to_string();
    let parsed = catch(move || parse_json(&txt).ok().map(|r| (r.value, r.consumed)));
    let mut spec_fail = false;
    let mut parsed_tree: Option<T> = None;
    let (pterm, rest, nontrivial) = match parsed {
        Caught::Panicked(_) => { if want.is_some() { spec_fail = true; } ("PPanic".to_string(), "(B 0 []) true TBErr RNone []".to_string(), false) }
        Caught::Done(None) => { if want.is_some() { spec_fail = true; } ("PErr".to_string(), "(B 0 []) true TBErr RNone []".to_string(), false) }
        Caught::Done(Some((v, consumed))) => {
            let t = from_jv(&v);
            parsed_tree = Some(t.clone());
            if let Some(w) = &want { if *w != t { spec_fail = true; } }
            let v2 = v.clone();
            let bytes = match catch(move || v2.to_jsonb_bytes()) { Caught::Done(b) => b, Caught::Panicked(_) => vec![] };
            let v3 = v.clone();
            let same = matches!(catch(move || build_with_builder(&v3)), Caught::Done(b) if b == bytes);
            if !same { spec_fail = true; }
            let tb = match try_build_with_builder(&v) {
                Caught::Done(Some(b)) => format!("(TBOk {})", cbool(b == bytes)),
                Caught::Done(None) => "TBErr".to_string(),
                Caught::Panicked(_) => "TBPanic".to_string(),
            };
            let back = rres_tree(&bytes);
            let mut probes = vec![];
            for steps in plan_probes(&t, probe_cap) {
                let keys_only = steps.iter().all(|s| matches!(s, Step::Key(_)));
                if keys_only {
                    let keys: Vec<Vec<u8>> = steps.iter().map(|s| match s { Step::Key(k) => k.clone(), _ => vec![] }).collect();
                    let (rp, _) = rres_lookup(by_path(&bytes, &keys));
                    let (rs, _) = rres_lookup(stepwise(&bytes, &steps));
                    let kl = clist(&keys.iter().map(|k| hb(k)).collect::<Vec<_>>());
                    if rp == rs { probes.push(format!("PPathEq {} {}", kl, rp)); } else { probes.push(format!("PPath {} {} {}", kl, rp, rs)); }
                } else {
                    let (r, _) = rres_lookup(stepwise(&bytes, &steps));
                    probes.push(format!("PSteps {} {}", clist(&steps.iter().map(step_term).collect::<Vec<_>>()), r));
                }
            }
            let nontrivial = t_nodes(&t) >= 4;
            (format!("(POk {} {})", t_term(&t), consumed),
             format!("{} {} {} {} {}", hb(&bytes), cbool(same), tb, back, clist(&probes)), nontrivial)
        }
    };
    let want_term = match (&want, &parsed_tree) {
        (None, _) => "WNone".to_string(),
        (Some(w), Some(t)) if w == t => "WSame".to_string(),
        (Some(w), _) => format!("(WVal {})", t_term(w)),
    };
    Ran { term: format!("Doc {} {} {} {} {}", hb(text.as_bytes()), oracle_term, want_term, pterm, rest), nontrivial, spec_fail }
}

// ------------------------------------------------------------------ generators
const KEY_POOL: [&str; 14] = ["a", "b", "ab", "abc", "b\u{e9}", "k", "key", "", "A", "a\"q", "z\u{1F600}", "\u{20AC}", "aa", "x y"];
const NUM_POOL: [&str; 30] = ["0", "-0", "1", "-1", "10", "123456789", "0.5", "-0.25", "1e5", "1E5", "1e+5", "1e-5", "2.5e10", "-1.25E-3",
    "1e308", "1e-320", "5e-324", "1.7976931348623157e308", "9007199254740993", "0.1", "0.30000000000000004", "123.456e78", "1e999", "-1e999",
    "0e0", "0.0", "-0.0e-0", "4.9e-324", "18446744073709551616", "3.141592653589793"];
const CHAR_POOL: [char; 24] = ['a', 'b', 'Z', '0', ' ', '"', '\\', '/', '\n', '\t', '\r', '\u{8}', '\u{c}', '\u{e9}', '\u{20AC}', '\u{1F600}', '\u{7f}', '\u{80}', '\u{7ff}', '\u{800}', '\u{ffff}', '\u{10000}', '\u{10ffff}', '\u{d7ff}'];

#[derive(Clone, Debug)]
enum G { Null, Bool(bool), Num(String), Str(String), Arr(Vec<G>), Obj(Vec<(String, G)>) }

fn gen_string(rng: &mut Rng) -> String {
    let n = match rng.below(10) { 0 => 0, 1..=6 => 1 + rng.below(4) as usize, 7 | 8 => 4 + rng.below(12) as usize, _ => 20 + rng.below(60) as usize };
    let mut s = String::new();
    for _ in 0..n {
        if rng.chance(3, 4) { s.push(*rng.pick(&CHAR_POOL)); }
        else {
            let cp = match rng.below(4) { 0 => rng.below(0x80) as u32, 1 => 0x80 + rng.below(0x780) as u32, 2 => 0x800 + rng.below(0xF800) as u32, _ => 0x10000 + rng.below(0x100000) as u32 };
            if let Some(c) = char::from_u32(cp) { if cp >= 0x20 { s.push(c); } }
        }
    }
    s
}
fn gen_key(rng: &mut Rng) -> String {
    if rng.chance(2, 3) { rng.pick(&KEY_POOL).to_string() } else { gen_string(rng) }
}
fn gen_num(rng: &mut Rng) -> String {
    if rng.chance(1, 2) { return rng.pick(&NUM_POOL).to_string(); }
    let mut s = String::new();
    if rng.chance(1, 3) { s.push('-'); }
    if rng.chance(1, 5) { s.push('0'); } else { s.push((b'1' + rng.below(9) as u8) as char); for _ in 0..rng.below(18) { s.push((b'0' + rng.below(10) as u8) as char); } }
    if rng.chance(1, 2) { s.push('.'); for _ in 0..1 + rng.below(17) { s.push((b'0' + rng.below(10) as u8) as char); } }
    if rng.chance(1, 3) { s.push(*rng.pick(&['e', 'E'])); if rng.chance(1, 2) { s.push(*rng.pick(&['+', '-'])); } for _ in 0..1 + rng.below(3) { s.push((b'0' + rng.below(10) as u8) as char); } }
    s
}
fn gen_tree(rng: &mut Rng, depth: usize, budget: &mut i64, top: bool) -> G {
    *budget -= 1;
    let leaf = depth == 0 || *budget <= 0 || rng.chance(2, 5);
    let leaf = if top && depth > 0 { rng.chance(1, 12) } else { leaf };
    if leaf {
        return match rng.below(6) { 0 => G::Null, 1 => G::Bool(rng.chance(1, 2)), 2 | 3 => G::Num(gen_num(rng)), _ => G::Str(gen_string(rng)) };
    }
    let n = match rng.below(8) { 0 => 0, 1..=4 => 1 + rng.below(3) as usize, 5 | 6 => 3 + rng.below(5) as usize, _ => 6 + rng.below(14) as usize };
    if rng.chance(1, 2) {
        G::Arr((0..n).map(|_| gen_tree(rng, depth - 1, budget, false)).collect())
    } else {
        let mut kv: Vec<(String, G)> = vec![];
        for _ in 0..n {
            // duplicate keys on purpose now and then
            let k = if !kv.is_empty() && rng.chance(1, 6) { kv[rng.below(kv.len() as u64) as usize].0.clone() } else { gen_key(rng) };
            kv.push((k, gen_tree(rng, depth - 1, budget, false)));
        }
        G::Obj(kv)
    }
}
fn ws(rng: &mut Rng, out: &mut String, on: bool) {
    if !on { return; }
    for _ in 0..rng.below(3) { out.push(*rng.pick(&[' ', ' ', '\n', '\t', '\r'])); }
}
/// `pairs`: allow \uD83D\uDE00-style escapes for characters outside the BMP
fn print_string(rng: &mut Rng, s: &str, out: &mut String, esc: u64, pairs: bool) {
    out.push('"');
    for c in s.chars() {
        let cp = c as u32;
        let simple = match c { '"' => Some("\\\""), '\\' => Some("\\\\"), '/' => Some("\\/"), '\u{8}' => Some("\\b"), '\u{c}' => Some("\\f"), '\n' => Some("\\n"), '\r' => Some("\\r"), '\t' => Some("\\t"), _ => None };
        let must = c == '"' || c == '\\' || cp < 0x20;
        let want_esc = must || rng.below(100) < esc;
        if !want_esc { out.push(c); continue; }
        if let (Some(e), true) = (simple, rng.chance(2, 3)) { out.push_str(e); continue; }
        if cp < 0x10000 {
            let h = if rng.chance(1, 2) { format!("\\u{:04x}", cp) } else { format!("\\u{:04X}", cp) };
            out.push_str(&h);
        } else if pairs {
            let v = cp - 0x10000;
            out.push_str(&format!("\\u{:04x}\\u{:04X}", 0xD800 + (v >> 10), 0xDC00 + (v & 0x3FF)));
        } else { out.push(c); }
    }
    out.push('"');
}
fn print_tree(rng: &mut Rng, g: &G, out: &mut String, w: bool, esc: u64, pairs: bool) {
    match g {
        G::Null => out.push_str("null"),
        G::Bool(b) => out.push_str(if *b { "true" } else { "false" }),
        G::Num(t) => out.push_str(t),
        G::Str(s) => print_string(rng, s, out, esc, pairs),
        G::Arr(a) => {
            out.push('['); ws(rng, out, w);
            for (i, e) in a.iter().enumerate() { if i > 0 { out.push(','); ws(rng, out, w); } print_tree(rng, e, out, w, esc, pairs); ws(rng, out, w); }
            out.push(']');
        }
        G::Obj(o) => {
            out.push('{'); ws(rng, out, w);
            for (i, (k, e)) in o.iter().enumerate() {
                if i > 0 { out.push(','); ws(rng, out, w); }
                print_string(rng, k, out, esc, pairs); ws(rng, out, w); out.push(':'); ws(rng, out, w);
                print_tree(rng, e, out, w, esc, pairs); ws(rng, out, w);
            }
            out.push('}');
        }
    }
}
fn g_to_t(g: &G) -> T {
    match g {
        G::Null => T::Null, G::Bool(b) => T::Bool(*b),
        G::Num(t) => T::Num(t.parse::<f64>().map(|f| f.to_bits()).unwrap_or(0)),
        G::Str(s) => T::Str(s.as_bytes().to_vec()),
        G::Arr(a) => T::Arr(a.iter().map(g_to_t).collect()),
        G::Obj(o) => T::Obj(o.iter().map(|(k, e)| (k.as_bytes().to_vec(), g_to_t(e))).collect()),
    }
}
fn gen_valid(rng: &mut Rng, max_depth: usize, size: i64, pairs: bool) -> (String, T) {
    let mut budget = size;
    let g = gen_tree(rng, max_depth, &mut budget, true);
    let mut out = String::new();
    let w = rng.chance(2, 3);
    let esc = *rng.pick(&[0u64, 0, 5, 25, 100]);
    ws(rng, &mut out, w);
    print_tree(rng, &g, &mut out, w, esc, pairs);
    ws(rng, &mut out, w);
    (out, g_to_t(&g))
}

const BOUNDARY: &[&str] = &[
    "null", "true", "false", "0", "-0", "\"\"", "[]", "{}", " [ ] ", "{ }", "[[]]", "[{}]", "{\"a\":{}}", "{\"a\":[]}",
    "[[[[[[[[1]]]]]]]]", "{\"a\":{\"a\":{\"a\":{\"a\":{\"a\":{\"a\":{\"a\":{\"a\":1}}}}}}}}",
    "{\"a\":1,\"a\":2}", "{\"a\":1,\"a\":2,\"a\":3}", "{\"b\":1,\"a\":2,\"b\":3,\"a\":4}", "{\"a\":{\"x\":1},\"a\":{\"y\":2}}",
    "{\"b\":1,\"a\":2}", "{\"\":0}", "{\"a\":null,\"ab\":true,\"abc\":false,\"b\":\"s\"}",
    "{\"k1\":1,\"k2\":2,\"k3\":3,\"k4\":4,\"k5\":5,\"k6\":6,\"k7\":7,\"k8\":8,\"k9\":9}",
    "[1,2,3]", "[1,[2,[3,[4]]]]", "[null,true,false,\"x\",1.5,[],{}]", "\"\\u00e9\"", "\"\\u00E9\"", "\"\\ud83d\\ude00\"", "\"\\uD83D\\uDE00\"",
    "[\"\\ud83d\\ude00\"]", "{\"\\ud83d\\ude00\":1}", "\"\\ud800\"", "\"\\udc00\"", "\"\\ud800\\u0041\"", "\"\\u0000\"", "\"\\u001f\"", "\"\\u+041\"", "\"\\u-041\"", "\"\\u 041\"",
    "\"\\u00\"", "\"\\u\"", "\"\\u00g0\"", "\"\\u\u{e9}000\"", "\"\\x41\"", "\"\\\u{e9}\"", "\"a\\", "\"a\\\"", "\"abc", "\"\\/\\b\\f\\n\\r\\t\\\\\\\"\"",
    "\"\u{1F600}\"", "\"\u{e9}\u{20AC}\"", "\"tab\there\"", "[1 2]", "[1,,2]", "[,]", "[1,]", "{\"a\":1 \"b\":2}", "{\"a\":1,}", "{,}", "{\"a\" 1}", "{\"a\":}", "{a:1}", "{\"a\":1",
    "[1", "[", "{", "]", "}", ":", ",", "", " ", "nul", "tru", "truex", "true1", "01", "1.", "-", "1e", "--1",
];
const BOUNDARY2: &[&str] = &["-.5", "1.e5", "1e5e5", "1+1", "1 2", "null null", "[1]x", "{\"a\":1}  ", "\n\t [1] \r\n", "+1", ".5", "1e999", "-1e999", "[1e400,-1e400]"];

fn mutate(rng: &mut Rng, text: &str) -> String {
    let mut cs: Vec<char> = text.chars().collect();
    let alphabet = ['{', '}', '[', ']', ':', ',', '"', '\\', 'u', 'e', '-', '+', '.', '0', '1', ' ', 't', 'n', 'f', 'a', '\u{e9}', 'd', '8'];
    for _ in 0..1 + rng.below(3) {
        if cs.is_empty() { cs.push(*rng.pick(&alphabet)); continue; }
        let p = rng.below(cs.len() as u64) as usize;
        match rng.below(4) {
            0 => { cs.remove(p); }
            1 => { cs.insert(p, *rng.pick(&alphabet)); }
            2 => { cs[p] = *rng.pick(&alphabet); }
            _ => { cs.truncate(p); }
        }
    }
    cs.into_iter().collect()
}

fn parse_replay(l: &str) -> Option<String> {
    let l = match l.find(" #") { Some(i) => l[..i].trim(), None => l.trim() };
    if let Some(h) = l.strip_prefix("doc ") { return String::from_utf8(unhex(h.trim())).ok(); }
    if l == "doc" { return Some(String::new()); }
    if let Some(r) = l.strip_prefix("rep ") {
        let p: Vec<&str> = r.split(' ').collect();
        if p.len() != 4 { return None; }
        let mut b = unhex(p[0].trim_matches('-'));
        let unit = unhex(p[1].trim_matches('-'));
        for _ in 0..p[2].parse::<usize>().ok()? { b.extend_from_slice(&unit); }
        b.extend_from_slice(&unhex(p[3].trim_matches('-')));
        return String::from_utf8(b).ok();
    }
    None
}
fn replay_of(text: &str) -> String { format!("doc {}", hex(text.as_bytes())) }

fn main() {
    let a = Args::parse();
    match a.mode.as_str() {
        "gen" => gen(&a),
        "search" => search(&a),
        "probe24" => probe24(),
        _ => { eprintln!("c32: unknown mode"); std::process::exit(2); }
    }
}

fn gen(a: &Args) {
    let mut rng = Rng::new(a.seed);
    let mut w = CaseWriter::new(&a.out, "C32", "Corr.C32", 60);
    let mut mismatch = 0u64;
    if let Some(lines) = a.replay_lines() {
        for l in lines {
            if let Some(text) = parse_replay(&l) {
                let r = run_case(&text, 400);
                w.push(r.term, l.clone(), r.nontrivial, "replay");
            }
        }
        w.finish(&[]);
        return;
    }
    let thorough = a.thorough();
    for t in BOUNDARY.iter().chain(BOUNDARY2.iter()) {
        let r = run_case(t, 40);
        w.push(r.term, replay_of(t), r.nontrivial, "boundary");
    }
    let n_valid = if thorough { 9_000 } else { 700 };
    for i in 0..n_valid {
        // one document in four may spell characters outside the BMP as surrogate-pair escapes
        let pairs = rng.chance(1, 4);
        let (depth, size) = match i % 10 { 0 => (0, 1), 1 | 2 => (2, 6), 3..=6 => (4, 12), 7 | 8 => (8, 24), _ => (8, 48) };
        let (text, intended) = gen_valid(&mut rng, depth, size, pairs);
        // the generator's tree and the independent reference reader must agree on what the text denotes
        if ref_parse(&text).as_ref() != Some(&intended) { mismatch += 1; }
        let r = run_case(&text, if thorough { 32 } else { 20 });
        let kind = if pairs { "valid_pairs_allowed" } else if t_depth(&intended) == 0 { "valid_scalar" } else if t_depth(&intended) >= 4 { "valid_deep" } else { "valid_structured" };
        w.push(r.term, replay_of(&text), r.nontrivial, kind);
    }
    let n_mut = if thorough { 3_000 } else { 250 };
    for _ in 0..n_mut {
        let pairs = rng.chance(1, 4);
        let (text, _) = gen_valid(&mut rng, 3, 10, pairs);
        let m = mutate(&mut rng, &text);
        let r = run_case(&m, 30);
        w.push(r.term, replay_of(&m), r.nontrivial, "mutated");
    }
    w.finish(&[("reference_reader_vs_generator_mismatches".to_string(), mismatch.to_string())]);
    if mismatch > 0 { eprintln!("c32: reference reader disagrees with the generator on {} documents", mismatch); std::process::exit(3); }
}

/// Oracle only (no model): reference reader vs parse_json, read-back equality up to member order,
/// lookups against the parsed tree.
fn search(a: &Args) {
    let mut rng = Rng::new(a.seed ^ 0xC32C32);
    let mut fails: Vec<String> = vec![];
    let mut tried = 0u64;
    let mut texts: Vec<String> = BOUNDARY.iter().chain(BOUNDARY2.iter()).map(|s| s.to_string()).collect();
    while (texts.len() as u64) < a.budget.min(400_000) {
        let (depth, size) = match texts.len() % 4 { 0 => (2, 8), 1 => (4, 20), 2 => (8, 40), _ => (8, 120) };
        let pairs = texts.len() % 3 == 0;
        let (t, _) = gen_valid(&mut rng, depth, size, pairs);
        texts.push(t);
    }
    for t in &texts {
        tried += 1;
        if !oracle_ok(t) && fails.len() < 20 { fails.push(replay_of(t)); }
    }
    let mut out = format!("tried={}\n", tried);
    for f in &fails { out.push_str("FAIL "); out.push_str(f); out.push('\n'); }
    std::fs::write(&a.out, out).expect("write search output");
}

fn eqv(a: &T, b: &T) -> bool {
    match (a, b) {
        (T::Arr(x), T::Arr(y)) => x.len() == y.len() && x.iter().zip(y).all(|(p, q)| eqv(p, q)),
        (T::Obj(x), T::Obj(y)) => {
            if x.len() != y.len() { return false; }
            let mut used = vec![false; y.len()];
            for (k, v) in x {
                let mut hit = false;
                for (j, (k2, v2)) in y.iter().enumerate() { if !used[j] && k == k2 && eqv(v, v2) { used[j] = true; hit = true; break; } }
                if !hit { return false; }
            }
            true
        }
        _ => a == b,
    }
}
fn outcomes(v: &T, steps: &[Step]) -> Vec<Option<T>> {
    if steps.is_empty() { return vec![Some(v.clone())]; }
    match (&steps[0], v) {
        (Step::Key(k), T::Obj(o)) => {
            let ms: Vec<&(Vec<u8>, T)> = o.iter().filter(|(x, _)| x == k).collect();
            if ms.is_empty() { vec![None] } else { ms.iter().flat_map(|(_, e)| outcomes(e, &steps[1..])).collect() }
        }
        (Step::Idx(i), T::Arr(a)) => if *i < a.len() { outcomes(&a[*i], &steps[1..]) } else { vec![None] },
        _ => vec![None],
    }
}
fn oracle_ok(text: &str) -> bool {
    let want = ref_parse(text);
    let txt = text.to_string();
    let parsed = catch(move || parse_json(&txt).ok().map(|r| (r.value, r.consumed)));
    let (v, consumed) = match parsed {
        Caught::Done(Some(x)) => x,
        _ => return want.is_none(),
    };
    let t = from_jv(&v);
    if let Some(w) = &want {
        if *w != t || consumed > text.len() || !text.as_bytes()[consumed..].iter().all(|c| matches!(c, b' ' | b'\t' | b'\n' | b'\r')) { return false; }
    }
    let v2 = v.clone();
    let bytes = match catch(move || v2.to_jsonb_bytes()) { Caught::Done(b) => b, _ => return false };
    let v3 = v.clone();
    if !matches!(catch(move || build_with_builder(&v3)), Caught::Done(b) if b == bytes) { return false; }
    match try_build_with_builder(&v) {
        Caught::Done(Some(b)) => if b != bytes { return false; },
        Caught::Done(None) => return beyond_format(&t, &bytes),   // a refusal must be justified by the format limits
        Caught::Panicked(_) => return false,
    }
    let d = bytes.clone();
    match catch(move || walk_bytes(&d)) { Caught::Done(Ok(b)) => if !eqv(&b, &t) { return false; }, _ => return false }
    for steps in plan_probes(&t, 200) {
        let outs = outcomes(&t, &steps);
        let judge = |r: Caught<eyre::Result<Option<OwnedValue>>>| -> Option<Option<T>> {
            match r {
                Caught::Done(Ok(None)) | Caught::Done(Err(_)) => if outs.iter().any(|o| o.is_none()) { Some(None) } else { None },
                Caught::Done(Ok(Some(o))) => { let t = ov_tree(&o)?; if outs.iter().any(|x| matches!(x, Some(e) if eqv(e, &t))) { Some(Some(t)) } else { None } }
                Caught::Panicked(_) => None,
            }
        };
        let rs = match judge(stepwise(&bytes, &steps)) { Some(x) => x, None => return false };
        if steps.iter().all(|s| matches!(s, Step::Key(_))) {
            let keys: Vec<Vec<u8>> = steps.iter().map(|s| match s { Step::Key(k) => k.clone(), _ => vec![] }).collect();
            let rp = match judge(by_path(&bytes, &keys)) { Some(x) => x, None => return false };
            let same = match (&rp, &rs) { (Some(x), Some(y)) => eqv(x, y), (None, None) => true, _ => false };
            if !same { return false; }
        }
    }
    true
}

/// One-off check (not part of ./check): a document whose data buffer passes 2^24 bytes.  The offset
/// field of an entry is 24 bits wide and the builder masks it silently, so elements stored beyond
/// 16 MiB are read from the wrong place.  Too large to be judged inside Coq; the theorems exclude it
/// through `fits` (encoding at most 2^24 bytes).
fn probe24() {
    let n = 300usize;
    let mut text = String::from("[");
    for i in 0..n { if i > 0 { text.push(','); } text.push('"'); text.push_str(&format!("{:05}", i)); for _ in 0..59_995 { text.push('x'); } text.push('"'); }
    text.push_str(",\"tail\"]");
    let v = parse_json(&text).expect("parse").value;
    let bytes = v.to_jsonb_bytes();
    println!("text {} bytes, jsonb {} bytes", text.len(), bytes.len());
    let root = OwnedValue::Jsonb(bytes);
    let mut bad = 0;
    let mut first_bad = None;
    for i in 0..=n {
        let want: Vec<u8> = match &v { JsonValue::Array(a) => match &a[i] { JsonValue::String(s) => s.as_bytes().to_vec(), _ => vec![] }, _ => vec![] };
        let got = catch(|| root.jsonb_array_get(i));
        let ok = matches!(&got, Caught::Done(Ok(Some(OwnedValue::Text(s)))) if s.as_bytes() == &want[..]);
        if !ok { bad += 1; if first_bad.is_none() { first_bad = Some((i, match got { Caught::Done(Ok(Some(OwnedValue::Text(s)))) => format!("Text starting {:?} (len {})", &s[..s.len().min(8)], s.len()), Caught::Done(Ok(o)) => format!("{:?}", o.is_some()), Caught::Done(Err(e)) => format!("Err {}", e), Caught::Panicked(m) => format!("panic {}", m) })); } }
    }
    println!("elements read back wrongly: {} of {}; first: {:?}", bad, n + 1, first_bad);
}
