(* C16: an expression of the reference semantics depends only on the row positions it mentions
   (used for HAVING: the implementation resolves only the aggregates that HAVING refers to). *)
From Coq Require Import ZArith List Bool.
From TV Require Import Model.SqlSpec Model.SqlSpecAgg Model.AggClass Proof.SqlSpecLaws.
Import ListNotations.
Open Scope Z_scope.

Lemma eval_ext : forall e r1 r2,
  (forall i, In i (cols_of e) -> nth_error r1 i = nth_error r2 i) -> eval e r1 = eval e r2.
Proof.
  intros e r1 r2. induction e using expr_ind'; intros Hx; cbn [cols_of] in Hx; cbn [eval].
  - apply Hx. now left.
  - reflexivity.
  - rewrite IHe1, IHe2; [reflexivity| |]; intros j Hj; apply Hx; apply in_or_app; auto.
  - rewrite IHe1, IHe2; [reflexivity| |]; intros j Hj; apply Hx; apply in_or_app; auto.
  - rewrite IHe1, IHe2; [reflexivity| |]; intros j Hj; apply Hx; apply in_or_app; auto.
  - rewrite IHe1, IHe2; [reflexivity| |]; intros j Hj; apply Hx; apply in_or_app; auto.
  - rewrite IHe; [reflexivity|]. exact Hx.
  - match goal with F : Forall _ l |- _ => rename F into HF end.
    rewrite IHe by (intros j Hj; apply Hx; apply in_or_app; auto).
    destruct (eval e r2) as [x|]; [|reflexivity]. do 2 f_equal.
    assert (Hl : forall j, In j (flat_map cols_of l) -> nth_error r1 j = nth_error r2 j)
      by (intros j Hj; apply Hx; apply in_or_app; auto).
    clear Hx IHe. induction l as [|y t IHt]; [reflexivity|].
    inversion HF as [|? ? Hy Ht]; subst. cbn [flat_map] in Hl.
    rewrite Hy by (intros j Hj; apply Hl; apply in_or_app; auto).
    destruct (eval y r2); [|reflexivity]. f_equal. apply IHt; [exact Ht|].
    intros j Hj; apply Hl; apply in_or_app; auto.
  - rewrite IHe1, IHe2, IHe3; [reflexivity| | |]; intros j Hj; apply Hx; apply in_or_app; auto;
      right; apply in_or_app; auto.
  - rewrite IHe1, IHe2; [reflexivity| |]; intros j Hj; apply Hx; apply in_or_app; auto.
  - rewrite IHe; [reflexivity|]. exact Hx.
Qed.

Lemma sem3_ext : forall e r1 r2,
  (forall i, In i (cols_of e) -> nth_error r1 i = nth_error r2 i) -> sem3 e r1 = sem3 e r2.
Proof. intros; unfold sem3; now rewrite (eval_ext e r1 r2). Qed.
