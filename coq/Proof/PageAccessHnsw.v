(* C23 proofs, part 4: HNSW node-page readers on arbitrary page bytes (code since 4d4f2e6: checked `get`).
   For every page accepted by HnswPageRef::from_bytes and every u16 slot index, slot_count, free_space, get_slot
   and read_node_data return a value or an error, and the returned node data is a slice of the page.
   (Before 4d4f2e6 they panicked on a slot_count above 4080 and on an entry with offset + size beyond the
   page: findings F-C23-4 and F-C23-5.) *)
From Coq Require Import ZArith List Bool Lia ZifyBool.
From TV Require Import Lib.MachInt Lib.MachIntFacts Gen.PageConsts Gen.HnswLayout
  Model.StoredBytes Model.PageAccess Proof.StoredBytes Proof.PageAccessLeaf.
Import ListNotations.
Open Scope Z_scope.
Ltac Zify.zify_post_hook ::= Z.to_euclidean_division_equations.
Arguments Z.div : simpl never.
Arguments Z.modulo : simpl never.
Arguments Z.mul : simpl never.
Arguments Z.add : simpl never.
Arguments Z.sub : simpl never.
Arguments Z.pow : simpl never.
Arguments Z.of_nat : simpl never.
Arguments Z.to_nat : simpl never.

Lemma hnsw_off i : hnsw_slot_offset i = 64 + 4 * i.
Proof. cbv [hnsw_slot_offset HNSW_PAGE_HEADER_SIZE HNSW_SLOT_SIZE]. lia. Qed.
Lemma hnsw_off_safe i : 0 <= i < 65536 -> hnsw_slot_offset_safe i = true.
Proof.
  intros H. cbv [hnsw_slot_offset_safe HNSW_PAGE_HEADER_SIZE HNSW_SLOT_SIZE in_u].
  change (2 ^ 64) with 18446744073709551616. lia.
Qed.

Lemma hnsw_hdr_ok d : blen d = PAGE_SIZE -> hnsw_hdr d = Ok (bslice d 16 68).
Proof.
  intros Hl. unfold hnsw_hdr, PH_SIZE, HNSW_HDR_SIZE. change (16 + 52) with 68.
  apply sub_ok. apply bslice_ok_true. rewrite Hl. unfold PAGE_SIZE. lia.
Qed.
Lemma hnsw_slot_count_ok d : blen d = PAGE_SIZE -> bytes_ok d = true ->
  exists sc, hnsw_slot_count d = Ok sc /\ 0 <= sc < 65536.
Proof.
  intros Hl Hb. unfold hnsw_slot_count. rewrite (hnsw_hdr_ok d Hl). cbn [bind].
  eexists. split; [reflexivity|].
  set (h := bslice d 16 68).
  assert (Hh : bytes_ok h = true) by (apply bytes_ok_bslice; exact Hb).
  assert (Hhl : blen h = 52).
  { unfold h. rewrite blen_bslice by (apply bslice_ok_true; rewrite Hl; unfold PAGE_SIZE; lia). lia. }
  pose proof (le_bound h 0 2 Hh) as H. change (256 ^ 2) with 65536 in H. apply H; lia.
Qed.

Lemma hnsw_total_l : forall d, hnsw_from_bytes d = Ok tt ->
  value_or_error (hnsw_slot_count d) /\ value_or_error (hnsw_free_space d).
Proof.
  intros d Hp. apply node_from_page_len in Hp. unfold hnsw_slot_count, hnsw_free_space.
  rewrite (hnsw_hdr_ok d Hp). cbn [bind]. split; exact I.
Qed.

Lemma hnsw_get_slot_cases d i : blen d = PAGE_SIZE -> bytes_ok d = true -> 0 <= i < 65536 ->
  hnsw_get_slot d i = Ok None \/
  exists off st sz, hnsw_get_slot d i = Ok (Some (off, st, sz)) /\ 0 <= off < 16384 /\ 0 <= sz < 65536.
Proof.
  intros Hl Hb Hi. unfold hnsw_get_slot.
  destruct (hnsw_slot_count_ok d Hl Hb) as (sc & -> & Hsc). cbn [bind].
  destruct (Z.geb_spec i sc) as [Ge|L]; [left; reflexivity|].
  rewrite hnsw_off_safe by lia. rewrite hnsw_off. unfold HNSW_SLOT_SIZE, PAGE_SIZE in *.
  destruct (bslice_ok d (64 + 4 * i) (64 + 4 * i + 4)) eqn:E; [|left; reflexivity].
  right. apply bslice_ok_true in E.
  set (b := bslice d (64 + 4 * i) (64 + 4 * i + 4)).
  assert (Hs : bytes_ok b = true) by (apply bytes_ok_bslice; exact Hb).
  assert (Hsl : blen b = 4) by (unfold b; rewrite blen_bslice by (apply bslice_ok_true; lia); lia).
  unfold slot_decode. eexists _, _, _. split; [reflexivity|].
  pose proof (le_bound b 2 2 Hs) as H2. pose proof (le_bound b 0 2 Hs) as H0. change (256 ^ 2) with 65536 in *.
  split; [specialize (H0 ltac:(lia) ltac:(lia) ltac:(lia)); lia | apply H2; lia].
Qed.

Lemma hnsw_read_node_data_cases d i : blen d = PAGE_SIZE -> bytes_ok d = true -> 0 <= i < 65536 ->
  hnsw_read_node_data d i = Err \/
  exists off sz, 0 <= off /\ 0 <= sz /\ off + sz <= PAGE_SIZE /\ hnsw_read_node_data d i = Ok (bslice d off (off + sz)).
Proof.
  intros Hl Hb Hi. unfold hnsw_read_node_data.
  destruct (hnsw_get_slot_cases d i Hl Hb Hi) as [R|(off & st & sz & R & Ho & Hs)]; rewrite R; cbn [bind].
  - left. reflexivity.
  - destruct (st =? 1); [|left; reflexivity].
    destruct (bslice_ok d off (off + sz)) eqn:E; [|left; reflexivity].
    right. apply bslice_ok_true in E. exists off, sz. rewrite Hl in E. repeat split; lia.
Qed.

Lemma hnsw_readers_total_l : forall d i, hnsw_from_bytes d = Ok tt -> bytes_ok d = true -> 0 <= i < 65536 ->
  value_or_error (hnsw_slot_count d) /\ value_or_error (hnsw_free_space d) /\
  value_or_error (hnsw_get_slot d i) /\ value_or_error (hnsw_read_node_data d i).
Proof.
  intros d i Hp Hb Hi. destruct (hnsw_total_l d Hp) as (H1 & H2). apply node_from_page_len in Hp.
  repeat split; [exact H1 | exact H2 | |].
  - destruct (hnsw_get_slot_cases d i Hp Hb Hi) as [R|(off & st & sz & R & _)]; rewrite R; exact I.
  - destruct (hnsw_read_node_data_cases d i Hp Hb Hi) as [R|(off & sz & _ & _ & _ & R)]; rewrite R; exact I.
Qed.

Lemma hnsw_node_data_inside_l : forall d i v, blen d = PAGE_SIZE -> bytes_ok d = true -> 0 <= i < 65536 ->
  hnsw_read_node_data d i = Ok v ->
  exists off sz, 0 <= off /\ 0 <= sz /\ off + sz <= PAGE_SIZE /\ v = bslice d off (off + sz).
Proof.
  intros d i v Hl Hb Hi Hv.
  destruct (hnsw_read_node_data_cases d i Hl Hb Hi) as [R|(off & sz & H1 & H2 & H3 & R)]; rewrite R in Hv;
    [discriminate|]. inversion Hv. subst. exists off, sz. auto.
Qed.

(* ------------------------------------------------------------------ the former witnesses *)
(* F-C23-4: type byte 0x10, slot_count 4081 - slot 4080 would start at byte 16384: now None / Err.
   F-C23-5: one active slot entry with offset 8191 and size 8194 - ends at byte 16385: now Err. *)
Definition hnsw_witness_slot : list Z := image 16384 0 [(0, [16]); (16, [241; 15])].
Definition hnsw_witness_node : list Z := image 16384 0 [(0, [16]); (16, [1; 0]); (64, [255; 63; 2; 32])].

Lemma hnsw_former_witnesses_l :
  hnsw_from_bytes hnsw_witness_slot = Ok tt /\ bytes_ok hnsw_witness_slot = true /\
  hnsw_get_slot hnsw_witness_slot 4080 = Ok None /\ hnsw_read_node_data hnsw_witness_slot 4080 = Err /\
  hnsw_from_bytes hnsw_witness_node = Ok tt /\ bytes_ok hnsw_witness_node = true /\
  hnsw_get_slot hnsw_witness_node 0 = Ok (Some (8191, 1, 8194)) /\ hnsw_read_node_data hnsw_witness_node 0 = Err.
Proof. vm_compute. repeat split. Qed.
