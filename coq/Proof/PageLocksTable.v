(* C36 proofs, part 7: table intent locks.  `exclusive` is never set by any code path, so an intent
   lock is always granted at once; the table map counts the guards exactly and is empty when all
   guards are dropped. *)
From Coq Require Import ZArith List Bool Arith Lia.
From TV Require Import Lib.Interleave Model.PageLocks Proof.PageLocksBase Proof.PageLocksStep Proof.PageLocksShape Proof.PageLocksInv Proof.PageLocks.
Import ListNotations.
Open Scope Z_scope.

Definition tg_is (x : bool) (tb : Z) (g : Z * bool) : bool := (fst g =? tb) && Bool.eqb (snd g) x.
Definition tcnt (x : bool) (tb : Z) (th : thread) : nat := length (filter (tg_is x tb) (th_tg th)).

Definition TInv (s : St) : Prop :=
  forall tb,
    match tget tb (s_tbl (sh s)) with
    | Some st => t_excl st = false /\
                 t_is st = Z.of_nat (tsum (tcnt false tb) (ths s)) /\
                 t_ix st = Z.of_nat (tsum (tcnt true tb) (ths s)) /\
                 0 < t_is st + t_ix st
    | None => tsum (tcnt false tb) (ths s) = 0%nat /\ tsum (tcnt true tb) (ths s) = 0%nat
    end.

Lemma tget_trem_same tb m : tget tb (trem tb m) = None.
Proof.
  induction m as [|[k v] r IH]; cbn [trem tget]; auto.
  destruct (k =? tb) eqn:E; auto. cbn [tget]. rewrite E. exact IH.
Qed.
Lemma tget_trem_other tb tb' m : tb' <> tb -> tget tb' (trem tb m) = tget tb' m.
Proof.
  intros H. induction m as [|[k v] r IH]; cbn [trem tget]; auto.
  destruct (k =? tb) eqn:E.
  - apply Z.eqb_eq in E. subst k. destruct (tb =? tb') eqn:E2; [apply Z.eqb_eq in E2; congruence | exact IH].
  - cbn [tget]. rewrite IH. reflexivity.
Qed.
Lemma tget_tput_same tb v m : tget tb (tput tb v m) = Some v.
Proof. unfold tput. cbn [tget]. rewrite Z.eqb_refl. reflexivity. Qed.
Lemma tget_tput_other tb tb' v m : tb' <> tb -> tget tb' (tput tb v m) = tget tb' m.
Proof.
  intros H. unfold tput. cbn [tget]. destruct (tb =? tb') eqn:E; [apply Z.eqb_eq in E; congruence|].
  apply tget_trem_other; auto.
Qed.
Lemma tget_none_nil m : (forall tb, tget tb m = None) -> m = [].
Proof.
  destruct m as [|[k v] r]; auto. intros H. specialize (H k). cbn [tget] in H. rewrite Z.eqb_refl in H. discriminate.
Qed.

Lemma fcount_app {A} (P : A -> bool) l g : length (filter P (l ++ [g])) = (length (filter P l) + b2n (P g))%nat.
Proof. rewrite filter_app, app_length. cbn [filter]. destruct (P g); cbn [length b2n]; lia. Qed.
Lemma fcount_remove_nth {A} (P : A -> bool) l i g : nth_error l i = Some g ->
  length (filter P l) = (length (filter P (remove_nth i l)) + b2n (P g))%nat.
Proof.
  revert i; induction l as [|x r IH]; intros [|i] H; cbn [nth_error] in H; try discriminate.
  - inversion H; subst. cbn [remove_nth filter]. destruct (P g); cbn [length b2n]; lia.
  - cbn [remove_nth filter]. specialize (IH _ H). destruct (P x); cbn [length]; lia.
Qed.

(* what a step does to the table map and to the table guards of the thread *)
Inductive tbl_effect (s : shared) (th : thread) (s' : shared) (th' : thread) : Prop :=
| TSame : s_tbl s' = s_tbl s -> th_tg th' = th_tg th -> tbl_effect s th s' th'
| TSpin tb st : tget tb (s_tbl s) = Some st -> t_excl st = true -> tbl_effect s th s' th'
| TAcq x tb r :
    (th_pc th = PIdle \/ exists n, th_pc th = PPark n) -> next_op th = Some (OTAcq x tb, r) ->
    let st := match tget tb (s_tbl s) with Some v => v | None => mkT 0 0 false end in
    s_tbl s' = tput tb (if x then mkT (t_is st) (t_ix st + 1) false else mkT (t_is st + 1) (t_ix st) false) (s_tbl s) ->
    th' = mkTh r PIdle (th_pg th) (th_tg th ++ [(tb, x)]) -> s_tacq s' = s_tacq s + 1 ->
    tbl_effect s th s' th'
| TRel j tb x :
    nth_error (th_tg th) j = Some (tb, x) -> th_tg th' = remove_nth j (th_tg th) ->
    s_tbl s' = match tget tb (s_tbl s) with
               | None => s_tbl s
               | Some st =>
                   let st' := if x then mkT (t_is st) (Z.max 0 (t_ix st - 1)) (t_excl st)
                              else mkT (Z.max 0 (t_is st - 1)) (t_ix st) (t_excl st) in
                   if (t_is st' =? 0) && (t_ix st' =? 0) && negb (t_excl st') then trem tb (s_tbl s)
                   else tput tb st' (s_tbl s)
               end ->
    tbl_effect s th s' th'.

Lemma step_tbl_effect fx s th s' th' : tstep fx s th = Some (s', th') -> tbl_effect s th s' th'.
Proof.
  intros Hstep. unfold tstep in Hstep.
  assert (Hstart : forall o r, (th_pc th = PIdle \/ exists n, th_pc th = PPark n) -> next_op th = Some (o, r) ->
            start_op s th o r = Some (s', th') -> tbl_effect s th s' th').
  { intros o r Hp Hn Hs. unfold start_op in Hs.
    destruct o as [w k|j|x tb|j].
    - destruct (mget k (s_map s)); inversion Hs; subst; apply TSame; auto.
    - destruct (nth_error (th_pg th) j); inversion Hs; subst; apply TSame; auto.
    - destruct (tget tb (s_tbl s)) as [st|] eqn:Ht.
      + destruct (t_excl st) eqn:Ex; inversion Hs; subst.
        * eapply TSpin; eauto.
        * eapply (TAcq _ _ _ _ x tb r); eauto; rewrite Ht; reflexivity.
      + cbn [t_excl] in Hs. inversion Hs; subst. eapply (TAcq _ _ _ _ x tb r); eauto; rewrite Ht; reflexivity.
    - destruct (nth_error (th_tg th) j) as [[tb x]|] eqn:Hj; inversion Hs; subst; [|apply TSame; auto].
      eapply TRel; eauto. }
  destruct (th_pc th) as [|site|w k e|w k e|w k e c|k e c|w k e c|k e|k e] eqn:Hpc.
  - destruct (next_op th) as [[o r]|] eqn:Hn; [|discriminate]. eapply Hstart; eauto.
  - destruct (next_op th) as [[o r]|] eqn:Hn; [eapply Hstart; eauto|]. inversion Hstep; subst; apply TSame; auto.
  - destruct (try_ok _ _); inversion Hstep; subst; apply TSame; auto.
  - inversion Hstep; subst; apply TSame; auto.
  - destruct (e_w _); [discriminate|]. destruct w; inversion Hstep; subst; apply TSame; auto.
  - destruct (_ =? 0); [|discriminate]. inversion Hstep; subst; apply TSame; auto.
  - inversion Hstep; subst; apply TSame; auto.
  - inversion Hstep; subst; apply TSame; auto.
  - inversion Hstep; subst; apply TSame; auto. unfold cleanup.
    destruct (_ =? 0); auto. destruct fx; auto. destruct (mget k (s_map s)); auto. destruct (Nat.eqb n e); auto.
Qed.

Lemma tinv_init progs : TInv (init progs).
Proof.
  intros tb. unfold init. cbn [sh ths sh0 s_tbl tget].
  assert (Hz : forall x, tsum (tcnt x tb) (init_ths 0 progs) = 0%nat).
  { intros x. apply tsum_zero. intros t v Hin. destruct (init_ths_shape _ _ _ _ Hin) as (_ & _ & H).
    unfold tcnt. rewrite H. reflexivity. }
  split; apply Hz.
Qed.

Lemma tcnt_same_tg x tb th th' : th_tg th' = th_tg th -> tcnt x tb th' = tcnt x tb th.
Proof. unfold tcnt. intros ->. reflexivity. Qed.

Lemma step_tinv fx t s s' : TInv s -> step fx t s = Some s' -> TInv s'.
Proof.
  intros I Hs. unfold step in Hs.
  destruct (lget (ths s) t) as [th|] eqn:Hget; [|discriminate].
  destruct (tstep fx (sh s) th) as [[sh' th']|] eqn:Hstep; [|discriminate].
  inversion Hs; subst s'; clear Hs.
  assert (Hsum := fun f => tsum_lset f (ths s) t th' th Hget).
  assert (Hle := fun f => tsum_In_le f (ths s) t th (lget_In _ _ _ Hget)).
  destruct (step_tbl_effect _ _ _ _ _ Hstep) as [Htbl Htg | tb0 st0 Ht0 Hex | x tb0 r _ _ st0 Htbl Hth' _ | j tb0 x Hj Htg Htbl].
  - intros tb. cbn [sh ths]. rewrite Htbl.
    assert (E : forall x, tsum (tcnt x tb) (lset (ths s) t th') = tsum (tcnt x tb) (ths s)).
    { intros x. specialize (Hsum (tcnt x tb)). rewrite (tcnt_same_tg x tb _ _ Htg) in Hsum. lia. }
    rewrite !E. apply I.
  - exfalso. specialize (I tb0). rewrite Ht0 in I. destruct I as (I1 & _). congruence.
  - intros tb. cbn [sh ths]. rewrite Htbl.
    assert (Hc : forall y, tcnt y tb th' = (tcnt y tb th + b2n (tg_is y tb (tb0, x)))%nat).
    { intros y. unfold tcnt. rewrite Hth'. cbn [th_tg]. apply fcount_app. }
    assert (E : forall y, tsum (tcnt y tb) (lset (ths s) t th') = (tsum (tcnt y tb) (ths s) + b2n (tg_is y tb (tb0, x)))%nat).
    { intros y. specialize (Hsum (tcnt y tb)). rewrite Hc in Hsum. lia. }
    rewrite !E. unfold tg_is. cbn [fst snd].
    destruct (Z.eq_dec tb tb0) as [->|Hne].
    + rewrite tget_tput_same, Z.eqb_refl. cbn [andb].
      assert (I0 := I tb0). subst st0. destruct (tget tb0 (s_tbl (sh s))) as [st|].
      * destruct I0 as (I1 & I2 & I3 & I4). destruct x; cbn [t_excl t_is t_ix Bool.eqb b2n]; repeat split; try lia.
      * destruct I0 as (I2 & I3). destruct x; cbn [t_excl t_is t_ix Bool.eqb b2n]; repeat split; try lia.
    + rewrite (tget_tput_other _ _ _ _ Hne).
      assert (Eb : (tb0 =? tb) = false) by (apply Z.eqb_neq; congruence). rewrite Eb. cbn [andb b2n].
      rewrite !Nat.add_0_r. apply I.
  - intros tb. cbn [sh ths]. rewrite Htbl.
    assert (Hc : forall y, tcnt y tb th = (tcnt y tb th' + b2n (tg_is y tb (tb0, x)))%nat).
    { intros y. unfold tcnt. rewrite Htg. apply fcount_remove_nth; auto. }
    assert (E : forall y, (tsum (tcnt y tb) (lset (ths s) t th') + b2n (tg_is y tb (tb0, x)) = tsum (tcnt y tb) (ths s))%nat).
    { intros y. specialize (Hsum (tcnt y tb)). rewrite Hc in Hsum. lia. }
    assert (Hown : forall y, (b2n (tg_is y tb (tb0, x)) <= tsum (tcnt y tb) (ths s))%nat).
    { intros y. specialize (Hle (tcnt y tb)). rewrite Hc in Hle. lia. }
    assert (Ef := E false). assert (Et := E true). assert (Of := Hown false). assert (Ot := Hown true).
    clear E Hown. unfold tg_is in *. cbn [fst snd] in *.
    destruct (Z.eq_dec tb tb0) as [->|Hne].
    + rewrite Z.eqb_refl in *. cbn [andb] in *.
      assert (I0 := I tb0). destruct (tget tb0 (s_tbl (sh s))) as [st|] eqn:Ht.
      * destruct I0 as (I1 & I2 & I3 & I4). rewrite I1.
        destruct x; cbn [Bool.eqb b2n t_is t_ix t_excl negb andb] in *.
        -- destruct ((t_is st =? 0) && (Z.max 0 (t_ix st - 1) =? 0)) eqn:Ez; cbn [andb].
           ++ rewrite tget_trem_same. apply andb_prop in Ez. destruct Ez as [Ez1 Ez2].
              apply Z.eqb_eq in Ez1. apply Z.eqb_eq in Ez2. split; lia.
           ++ rewrite andb_false_r || idtac. rewrite tget_tput_same. cbn [t_is t_ix t_excl].
              apply andb_false_iff in Ez. destruct Ez as [Ez|Ez]; apply Z.eqb_neq in Ez; repeat split; lia.
        -- destruct ((Z.max 0 (t_is st - 1) =? 0) && (t_ix st =? 0)) eqn:Ez; cbn [andb].
           ++ rewrite tget_trem_same. apply andb_prop in Ez. destruct Ez as [Ez1 Ez2].
              apply Z.eqb_eq in Ez1. apply Z.eqb_eq in Ez2. split; lia.
           ++ rewrite tget_tput_same. cbn [t_is t_ix t_excl].
              apply andb_false_iff in Ez. destruct Ez as [Ez|Ez]; apply Z.eqb_neq in Ez; repeat split; lia.
      * rewrite Ht. destruct I0 as (I2 & I3). destruct x; cbn [Bool.eqb b2n] in *; lia.
    + assert (Eb : (tb0 =? tb) = false) by (apply Z.eqb_neq; congruence). rewrite Eb in *. cbn [andb b2n] in *.
      match goal with |- match tget tb ?m with _ => _ end =>
        assert (Hsame : tget tb m = tget tb (s_tbl (sh s))) end.
      { destruct (tget tb0 (s_tbl (sh s))); auto. cbv zeta.
        destruct (_ && _); [apply tget_trem_other | apply tget_tput_other]; auto. }
      rewrite Hsame. rewrite !Nat.add_0_r in *. rewrite Ef, Et. apply I.
Qed.

Theorem tinv_reachable fx progs sched : TInv (run (step fx) sched (init progs)).
Proof.
  apply (invariant_rule St (step fx) TInv); [apply tinv_init | intros t s s' I H; eapply step_tinv; eauto].
Qed.

(* table_intent_shared / table_intent_exclusive never wait: one step, guard obtained *)
Lemma table_intent_granted_l : forall fx progs sched t th x tb r,
  let s := run (step fx) sched (init progs) in
  lget (ths s) t = Some th -> (th_pc th = PIdle \/ exists n, th_pc th = PPark n) ->
  next_op th = Some (OTAcq x tb, r) ->
  exists s', step fx t s = Some s' /\
             lget (ths s') t = Some (mkTh r PIdle (th_pg th) (th_tg th ++ [(tb, x)])) /\
             s_tacq (sh s') = s_tacq (sh s) + 1.
Proof.
  intros fx progs sched t th x tb r s Hg Hp Hn.
  assert (I := tinv_reachable fx progs sched). fold s in I.
  assert (Hex : t_excl (match tget tb (s_tbl (sh s)) with Some v => v | None => mkT 0 0 false end) = false).
  { specialize (I tb). destruct (tget tb (s_tbl (sh s))); [destruct I as (I1 & _); exact I1 | reflexivity]. }
  assert (Hts : tstep fx (sh s) th = start_op (sh s) th (OTAcq x tb) r).
  { unfold tstep. destruct Hp as [Hp|[n Hp]]; rewrite Hp, Hn; reflexivity. }
  unfold step. rewrite Hg, Hts. unfold start_op. rewrite Hex.
  eexists; split; [reflexivity|]. cbn [ths sh s_tacq]. rewrite lget_lset_same. split; reflexivity.
Qed.

(* the table map is empty again when every thread has dropped everything *)
Lemma table_map_empty_when_done_l : forall fx progs sched,
  all_done (run (step fx) sched (init progs)) -> s_tbl (sh (run (step fx) sched (init progs))) = [].
Proof.
  intros fx progs sched Hd. assert (I := tinv_reachable fx progs sched).
  apply tget_none_nil. intros tb. specialize (I tb).
  destruct (tget tb (s_tbl (sh (run (step fx) sched (init progs))))) as [st|]; auto. exfalso.
  destruct I as (_ & I2 & I3 & I4).
  rewrite !tsum_zero in *; [cbn in *; lia | |]; intros t v Hin;
    destruct (finished_no_refs _ (Hd _ _ Hin)) as (_ & _ & H); unfold tcnt; rewrite H; reflexivity.
Qed.
