(* C28 proofs, part 11: every operation of the handle, and every history, refines the ordered map. *)
From Coq Require Import ZArith List Bool Lia Sorting.Permutation Sorting.Sorted.
From TV Require Import Lib.MachInt Gen.Varint Model.BTree Model.BTreeSpec Model.BTreeInv
  Proof.BTreeOrder Proof.BTreeInv Proof.BTreeLeaf Proof.BTreeLeafIns Proof.BTreeNode Proof.BTreeIns
  Proof.BTreeDel Proof.BTreeScan Proof.BTreeBwd Proof.BTreeTop.
Import ListNotations.
Open Scope Z_scope.
Arguments Z.sub : simpl never.
Arguments Z.add : simpl never.
Arguments Z.mul : simpl never.
Arguments Z.of_nat : simpl never.

Section M.
Variable V : Type.
Variable vlen : V -> Z.
Variable veqb : V -> V -> bool.
Hypothesis vlen_nonneg : forall v, 0 <= vlen v.
Hypothesis veqb_refl : forall v, veqb v v = true.
Notation entry := (entry V).
Notation tree := (tree V).
Notation state := (state V).
Notation op := (op V).
Notation out := (out V).
Notation bounded := (bounded V vlen).
Notation Inv := (Inv V vlen).
Notation abs := (abs V).
Notation abs_of := (abs_of V).
Notation keys := (keys V).
Notation step := (step V vlen).
Notation run := (run V vlen).
Notation spec_check := (spec_check V vlen veqb).
Notation expect := (expect V veqb).

Lemma entries_eqb_refl (l : list entry) : entries_eqb V veqb l l = true.
Proof.
  induction l as [|x l IH]; [reflexivity|]. cbn [entries_eqb]. rewrite IH. unfold entry_eqb, keqb.
  rewrite kcmp_refl, veqb_refl. reflexivity.
Qed.
Lemma out_eqb_refl (r : out) : out_eqb V veqb r r = true.
Proof.
  destruct r as [| b | b | o | l | |]; cbn [out_eqb]; try reflexivity; try (destruct b; reflexivity).
  - destruct o; cbn; [apply veqb_refl | reflexivity].
  - apply entries_eqb_refl.
Qed.
Lemma expect_same (r : out) m' : expect r r m' = SOk m'.
Proof. unfold BTreeSpec.expect. rewrite out_eqb_refl. reflexivity. Qed.

Lemma Inv_sorted (s : state) : Inv s -> ssorted V (abs_of s).
Proof. intros H. exact (abs_sorted V vlen _ _ _ _ H). Qed.

Definition step_post (s : state) (o : op) : Prop :=
  match spec_check (abs_of s) o (snd (fst (step s o))) with
  | SOk m' => m' = abs_of (fst (fst (step s o))) /\ Inv (fst (fst (step s o)))
  | SBad => False
  | SOut => True
  end.

Lemma ins_post_spec m (s : state) (e : entry) res :
  Inv s -> ins_post V vlen m s e res ->
  match om_get V (fst e) (abs_of s) with
  | Some _ => expect (snd (fst res)) (dup_out V m) (abs_of s)
  | None => expect (snd (fst res)) (ok_out V m) (om_ins V e (abs_of s))
  end = SOk (abs_of (fst (fst res))) /\ Inv (fst (fst res)).
Proof.
  intros HI [HI' Hc]. split; [|exact HI']. pose proof (Inv_sorted s HI) as Hs. pose proof (Inv_sorted _ HI') as Hs'.
  destruct Hc as [(Hin & Ha & Hr) | (Hp & Hr)].
  - destruct (om_get V (fst e) (abs_of s)) eqn:E; [|apply om_get_none in E; contradiction].
    rewrite Hr, Ha. apply expect_same.
  - destruct (om_ins_unique V e _ _ Hs Hs' Hp) as [Hu Hn]. apply om_get_none in Hn. rewrite Hn, Hr, Hu. apply expect_same.
Qed.

Ltac norm s := change (BTree.abs V (depth V (root s)) (root s)) with (BTree.abs_of V s) in *.

Lemma step_ok (s : state) (o : op) : Inv s -> snd (step s o) = 0 -> step_post s o.
Proof.
  intros HI Hf. pose proof (Inv_sorted s HI) as Hs. assert (HB : bounded (depth V (root s)) None None (root s)) by exact HI.
  unfold step_post. destruct o as [k v | k v | k v | k v | k | k | lim | lim | k lim | hh].
  - (* insert *)
    cbn [BTree.step BTreeSpec.spec_check] in *. destruct (negb (fits_page V vlen (k, v))); [exact I|].
    destruct (ins_post_spec MInsert s (k, v) _ HI (op_insert_ok V vlen vlen_nonneg MInsert s (k, v) HI ltac:(discriminate) Hf)) as [H1 H2].
    cbn [fst dup_out ok_out] in H1. rewrite H1. split; [reflexivity | exact H2].
  - (* insert_if_not_exists *)
    cbn [BTree.step BTreeSpec.spec_check] in *. destruct (negb (fits_page V vlen (k, v))); [exact I|].
    destruct (ins_post_spec MIine s (k, v) _ HI (op_insert_ok V vlen vlen_nonneg MIine s (k, v) HI ltac:(discriminate) Hf)) as [H1 H2].
    cbn [fst dup_out ok_out] in H1. rewrite H1. split; [reflexivity | exact H2].
  - (* insert_append *)
    cbn [BTree.step BTreeSpec.spec_check] in *. destruct (negb (fits_page V vlen (k, v))); [exact I|]. cbn [orb].
    destruct (om_all_lt V k (abs_of s)) eqn:Eall; [|exact I]. cbn [negb].
    pose proof (proj1 (om_all_lt_spec V _ _) Eall) as Hall.
    destruct (ins_post_spec MAppend s (k, v) _ HI (op_insert_ok V vlen vlen_nonneg MAppend s (k, v) HI (fun _ => Hall) Hf)) as [H1 H2].
    cbn [fst dup_out ok_out] in H1. destruct (om_get V k (abs_of s)) as [old|] eqn:Eg.
    + exfalso. apply om_get_some_key in Eg. apply in_map_iff in Eg as (x & Hx & Hxin). specialize (Hall _ Hxin). rewrite Hx in Hall. exact (klt_irrefl _ Hall).
    + rewrite H1. split; [reflexivity | exact H2].
  - (* update *)
    cbn [BTree.step BTreeSpec.spec_check] in *. destruct (negb (fits_page V vlen (k, v))); [exact I|].
    pose proof (upd_ok V vlen vlen_nonneg _ (root s) k v None None HB I I) as Hu.
    destruct (upd V vlen (depth V (root s)) (root s) k v) as [t b | t | er]; cbn [fst snd BTreeDel.ures_ok] in *.
    + destruct b.
      * destruct Hu as [Hb (old & rest & P1 & P2)].
        pose proof (abs_sorted V vlen _ _ _ _ Hb) as Hs'.
        destruct (om_upd_unique V _ _ _ k v old Hs Hs' P1 P2) as [Hu1 Hu2]. rewrite Hu2.
        split; [rewrite (abs_of_bounded V vlen _ _ _ _ Hb); symmetry; exact Hu1 | eapply Inv_of_bounded; exact Hb].
      * destruct Hu as (Hb & P & Hgrow). pose proof (abs_sorted V vlen _ _ _ _ Hb) as Hs'.
        assert (Ha : abs_of (mkState t (npages s) (hint s)) = abs_of s).
        { rewrite (abs_of_bounded V vlen _ _ _ _ Hb). apply ssorted_perm_eq; assumption. }
        destruct (om_get V k (abs_of s)) as [old|] eqn:Eg.
        -- apply om_get_in in Eg; [|exact Hs]. specialize (Hgrow _ Eg). destruct (Z.ltb_spec (vlen old) (vlen v)); [|lia].
           split; [symmetry; exact Ha | eapply Inv_of_bounded; exact Hb].
        -- rewrite expect_same. split; [symmetry; exact Ha | eapply Inv_of_bounded; exact Hb].
    + discriminate.
    + exfalso. exact (err_flag_nonzero _ Hf).
  - (* delete *)
    cbn [BTree.step BTreeSpec.spec_check] in *.
    pose proof (del_ok V vlen vlen_nonneg _ (root s) k None None HB I I) as Hd.
    destruct (del V vlen (depth V (root s)) (root s) k) as [t | | er]; cbn [fst snd BTreeDel.dres_ok] in *.
    + destruct Hd as [Hb (v & P)]. pose proof (abs_sorted V vlen _ _ _ _ Hb) as Hs'.
      destruct (om_del_unique V _ _ k v Hs Hs' P) as [H1 H2]. norm s. rewrite H2, expect_same.
      split; [rewrite (abs_of_bounded V vlen _ _ _ _ Hb); symmetry; exact H1 | eapply Inv_of_bounded; exact Hb].
    + apply om_get_none in Hd. norm s. rewrite Hd, expect_same. split; [reflexivity | exact HI].
    + exfalso. exact (err_flag_nonzero _ Hf).
  - (* get *)
    cbn [BTree.step BTreeSpec.spec_check] in *.
    destruct (get_ok V vlen _ None None (root s) k HB I I) as (l & Hr & Hg). rewrite Hr in *. cbn [fst snd].
    rewrite Hg. norm s. rewrite expect_same. split; [reflexivity | exact HI].
  - (* forward scan *)
    cbn [BTree.step BTreeSpec.spec_check] in *.
    pose proof (fwd_ok V (depth V (root s)) (root s)) as Hfw.
    destruct (scan_from V (leaves V (depth V (root s)) (root s)) 0) as [es rest]. cbn [fst snd] in *.
    destruct (nonempty_left V rest); [discriminate|]. rewrite (Hfw eq_refl). norm s. rewrite expect_same.
    split; [reflexivity | exact HI].
  - (* backward scan *)
    cbn [BTree.step BTreeSpec.spec_check] in *. destruct (lempty V (last_leaf V (root s))) eqn:El.
    + cbn [fst snd] in *. destruct (nonempty_left V (leaves V (depth V (root s)) (root s))) eqn:En; [discriminate|].
      assert (Ha : abs_of s = []) by exact (nonempty_left_false V _ En).
      rewrite Ha. cbn [rev]. rewrite firstn_nil, expect_same. split; [reflexivity | exact HI].
    + pose proof (bwd_ok V vlen _ None None (root s) HB El) as Hbw. cbv zeta in Hbw.
      destruct (bwd_walk V (length (leaves V (depth V (root s)) (root s))) (depth V (root s)) (root s) (last_leaf V (root s))) as [es st].
      cbn [fst snd] in *. destruct (Z.eqb_spec st 0) as [E0 | Hn0]; [subst st|].
      * cbn. rewrite (Hbw (or_introl eq_refl)). norm s. rewrite expect_same. split; [reflexivity | exact HI].
      * destruct (Z.eqb_spec st 1) as [E1 | Hn1]; [subst st|].
        -- destruct (Nat.ltb (length es) (length (abs (depth V (root s)) (root s)))) eqn:Elen; [discriminate|].
           cbn. rewrite (Hbw (or_intror (conj eq_refl eq_refl))). norm s. rewrite expect_same. split; [reflexivity | exact HI].
        -- destruct (st =? 2); discriminate.
  - (* seek scan *)
    cbn [BTree.step BTreeSpec.spec_check] in *.
    pose proof (seek_ok V vlen _ None None (root s) k HB I I) as Hsk. cbv zeta in Hsk.
    destruct (scan_from V (seek_leaves V (depth V (root s)) (root s) k)
               match seek_leaves V (depth V (root s)) (root s) k with l :: _ => snd (lfind V k (lcells l)) | [] => 0%nat end) as [es rest].
    cbn [fst snd] in *. destruct (nonempty_left V rest); [discriminate|]. rewrite (Hsk eq_refl). norm s. rewrite expect_same.
    split; [reflexivity | exact HI].
  - (* reopen *)
    cbn [BTree.step BTreeSpec.spec_check fst snd]. rewrite expect_same. split; [reflexivity | exact HI].
Qed.

Lemma run_refines_l : forall (ops : list op) (s : state), Inv s -> all_clear V (fst (run s ops)) = true ->
  spec_run V vlen veqb (abs_of s) (combine ops (map fst (fst (run s ops)))) = true.
Proof.
  induction ops as [|o r IH]; intros s HI Hc; [reflexivity|]. cbn [BTree.run] in *.
  pose proof (step_ok s o HI) as Hst. unfold step_post in Hst.
  destruct (step s o) as [[s' ot] f] eqn:Es. destruct (run s' r) as [res sf] eqn:Er. cbn [fst snd map combine all_clear forallb BTreeSpec.spec_run] in *.
  apply andb_true_iff in Hc as [Hf Hc]. apply Z.eqb_eq in Hf. specialize (Hst Hf).
  destruct (spec_check (abs_of s) o ot) as [m' | |]; [|contradiction | reflexivity].
  destruct Hst as [-> HI']. specialize (IH s' HI'). rewrite Er in IH. cbn [fst] in IH. apply IH. exact Hc.
Qed.

Lemma run_final_l : forall (ops : list op) (s : state) mf, Inv s -> all_clear V (fst (run s ops)) = true ->
  spec_final V vlen veqb (abs_of s) (combine ops (map fst (fst (run s ops)))) = Some mf ->
  Inv (snd (run s ops)) /\ abs_of (snd (run s ops)) = mf.
Proof.
  induction ops as [|o r IH]; intros s mf HI Hc Hfin.
  - cbn in *. injection Hfin as <-. split; [exact HI | reflexivity].
  - cbn [BTree.run] in *. pose proof (step_ok s o HI) as Hst. unfold step_post in Hst.
    destruct (step s o) as [[s' ot] f] eqn:Es. destruct (run s' r) as [res sf] eqn:Er. cbn [fst snd map combine all_clear forallb BTreeSpec.spec_final] in *.
    apply andb_true_iff in Hc as [Hf Hc]. apply Z.eqb_eq in Hf. specialize (Hst Hf).
    destruct (spec_check (abs_of s) o ot) as [m' | |]; [|contradiction | discriminate].
    destruct Hst as [-> HI']. specialize (IH s' mf HI'). rewrite Er in IH. cbn [fst snd] in IH. apply IH; assumption.
Qed.

(* the empty tree BTree::create makes *)
Lemma init_inv rootpg np : Inv (init_state V rootpg np) /\ abs_of (init_state V rootpg np) = [].
Proof.
  split; [|reflexivity]. unfold BTreeInv.Inv, init_state. cbn [root depth BTreeInv.bounded]. unfold BTreeInv.leaf_ok. cbn [lcells].
  split; [constructor|]. split; [constructor|]. unfold leaf_sizes, BTree.lcount. cbn [lcells lfe lfrag length map]. unfold sumz, LEAF_START, SLOT, PAGE. cbn. lia.
Qed.

End M.
