(* C38: the coverage theorem restated on the comparer's cases (Corr/C38.v). *)
From Coq Require Import ZArith List Bool Lia.
From TV Require Import Lib.Interleave Model.GroupCommit Model.CommitOrder Corr.C38 Proof.CommitOrder.
Import ListNotations.
Open Scope Z_scope.

Lemma coarse38_is_run fx t s : exists fine, coarse38 fx t s = run (step38 fx) fine s.
Proof. apply run_until_is_run. Qed.

Lemma settle38_is_run fx s : exists fine, settle38 fx s = run (step38 fx) fine s.
Proof.
  unfold settle38. generalize (lthrs s) as l. intros l. revert s.
  induction l as [|e l IH]; intros s; cbn [fold_left]; [exists []; reflexivity|].
  destruct (woken38 (fst e) s).
  - destruct (coarse38_is_run fx (fst e) s) as [f1 H1]. destruct (IH (coarse38 fx (fst e) s)) as [f2 H2].
    exists (f1 ++ f2). rewrite run_app, <- H1. exact H2.
  - apply IH.
Qed.

Lemma sched_step38_is_run fx t s : exists fine, sched_step38 fx t s = run (step38 fx) fine s.
Proof.
  unfold sched_step38. destruct (blocked38 t s); [exists []; reflexivity|].
  destruct (coarse38_is_run fx t s) as [f1 H1]. destruct (settle38_is_run fx (coarse38 fx t s)) as [f2 H2].
  exists (f1 ++ f2). rewrite run_app, <- H1. exact H2.
Qed.

Lemma exec_obs38_is_run fx sched s : exists fine, fst (exec_obs38 fx sched s) = run (step38 fx) fine s.
Proof.
  revert s. induction sched as [|t r IH]; intros s; cbn [exec_obs38]; [exists []; reflexivity|].
  destruct (sched_step38_is_run fx t s) as [f1 H1]. destruct (IH (sched_step38 fx t s)) as [f2 H2].
  destruct (exec_obs38 fx r (sched_step38 fx t s)) as [sf os] eqn:E. cbn [fst] in *.
  exists (f1 ++ f2). rewrite run_app, <- H1. exact H2.
Qed.

Lemma to_progs_wf p : wf_progs (to_progs p).
Proof.
  intros pr x q u Hp Hx Hin. unfold to_progs in Hp. apply in_map_iff in Hp. destruct Hp as [pr0 [<- _]].
  apply in_map_iff in Hx. destruct Hx as [x0 [<- _]]. apply in_map_iff in Hin. destruct Hin as [w [Hw _]].
  unfold to_write in Hw. injection Hw as _ <-. apply Z.mod_pos_bound. lia.
Qed.

(* for every case (programs + schedule, as the harness runs them on the real database) outside
   the two known classes, the model's run acknowledges only transactions whose writes are all in
   frames that were in the log at the return *)
Lemma case_outside_known_classes_l :
  forall c, known_class c = 0 ->
    let s := fst (final_and_obs c) in
    forall a, In a (lacks s) -> covered (frames s) a = true.
Proof.
  intros c Hk s. unfold known_class in Hk. fold s in Hk.
  destruct (inverted s) eqn:E1; [discriminate|]. destruct (borrowed s) eqn:E2; [discriminate|].
  destruct c as [progs steps fr res dr]. unfold s in *. cbn [final_and_obs] in *.
  destruct (exec_obs38_is_run true (sched_of steps) (init38 (to_progs progs))) as [fine Hr].
  rewrite Hr in *. apply coverage_outside_known_class_l; [apply to_progs_wf | assumption].
Qed.
