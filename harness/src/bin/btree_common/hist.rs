//! Histories of B-tree operations: text form (replay lines), generators, the ordered-map oracle.
#![allow(dead_code)]
use super::*;
use std::collections::{BTreeMap, HashMap};

#[derive(Clone, Debug, PartialEq, Eq)]
pub struct KeySpec { pub pfx: Vec<u8>, pub fill: u8, pub n: usize, pub sfx: Vec<u8> }
impl KeySpec {
    pub fn plain(b: &[u8]) -> KeySpec { KeySpec { pfx: b.to_vec(), fill: 0, n: 0, sfx: vec![] } }
    pub fn bytes(&self) -> Vec<u8> {
        let mut v = self.pfx.clone();
        v.extend(std::iter::repeat(self.fill).take(self.n));
        v.extend_from_slice(&self.sfx);
        v
    }
    pub fn text(&self) -> String { format!("{}/{}/{}/{}", hex(&self.pfx), self.fill, self.n, hex(&self.sfx)) }
    pub fn parse(s: &str) -> Option<KeySpec> {
        let p: Vec<&str> = s.split('/').collect();
        if p.len() != 4 { return None; }
        Some(KeySpec { pfx: unhex(p[0]), fill: p[1].parse().ok()?, n: p[2].parse().ok()?, sfx: unhex(p[3]) })
    }
    pub fn coq(&self) -> String { format!("K {} {} {} {}", cbytes(&self.pfx), self.fill, self.n, cbytes(&self.sfx)) }
}

#[derive(Clone, Copy, Debug, PartialEq, Eq, Hash)]
pub struct Val { pub len: u32, pub tag: u32 }
pub fn value_bytes(v: Val) -> Vec<u8> {
    let mut x: u32 = v.tag.wrapping_mul(2654435761).wrapping_add(v.len).wrapping_add(0x9E37);
    (0..v.len).map(|_| { x = x.wrapping_mul(1664525).wrapping_add(1013904223); (x >> 24) as u8 }).collect()
}

#[derive(Clone, Debug, PartialEq, Eq)]
pub enum Op {
    Ins(usize, Val), Iine(usize, Val), App(usize, Val), Upd(usize, Val),
    Del(usize), Get(usize), Fwd(usize), Bwd(usize), Seek(usize, usize), Reopen(i64),
}
impl Op {
    pub fn text(&self) -> String {
        match self {
            Op::Ins(k, v) => format!("I{}.{}.{}", k, v.len, v.tag),
            Op::Iine(k, v) => format!("N{}.{}.{}", k, v.len, v.tag),
            Op::App(k, v) => format!("A{}.{}.{}", k, v.len, v.tag),
            Op::Upd(k, v) => format!("U{}.{}.{}", k, v.len, v.tag),
            Op::Del(k) => format!("D{}", k),
            Op::Get(k) => format!("G{}", k),
            Op::Fwd(l) => format!("F{}", l),
            Op::Bwd(l) => format!("B{}", l),
            Op::Seek(k, l) => format!("S{}.{}", k, l),
            Op::Reopen(h) => format!("R{}", h),
        }
    }
    pub fn parse(s: &str) -> Option<Op> {
        if s.is_empty() { return None; }
        let (c, r) = s.split_at(1);
        let n: Vec<i64> = r.split('.').map(|x| x.parse::<i64>()).collect::<Result<_, _>>().ok()?;
        let kv = |n: &Vec<i64>| -> Option<(usize, Val)> {
            if n.len() != 3 { return None; }
            Some((n[0] as usize, Val { len: n[1] as u32, tag: n[2] as u32 }))
        };
        Some(match c {
            "I" => { let (k, v) = kv(&n)?; Op::Ins(k, v) }
            "N" => { let (k, v) = kv(&n)?; Op::Iine(k, v) }
            "A" => { let (k, v) = kv(&n)?; Op::App(k, v) }
            "U" => { let (k, v) = kv(&n)?; Op::Upd(k, v) }
            "D" => Op::Del(*n.first()? as usize),
            "G" => Op::Get(*n.first()? as usize),
            "F" => Op::Fwd(*n.first()? as usize),
            "B" => Op::Bwd(*n.first()? as usize),
            "S" => { if n.len() != 2 { return None; } Op::Seek(n[0] as usize, n[1] as usize) }
            "R" => Op::Reopen(*n.first()?),
            _ => return None,
        })
    }
    pub fn coq(&self) -> String {
        match self {
            Op::Ins(k, v) => format!("CI {} {} {}", k, v.len, v.tag),
            Op::Iine(k, v) => format!("CN {} {} {}", k, v.len, v.tag),
            Op::App(k, v) => format!("CA {} {} {}", k, v.len, v.tag),
            Op::Upd(k, v) => format!("CU {} {} {}", k, v.len, v.tag),
            Op::Del(k) => format!("CD {}", k),
            Op::Get(k) => format!("CG {}", k),
            Op::Fwd(l) => format!("CF {}", l),
            Op::Bwd(l) => format!("CB {}", l),
            Op::Seek(k, l) => format!("CS {} {}", k, l),
            Op::Reopen(h) => format!("CR {}", if *h < 0 { "(-1)".to_string() } else { h.to_string() }),
        }
    }
}

#[derive(Clone, Debug)]
pub struct History { pub kind: String, pub keys: Vec<KeySpec>, pub ops: Vec<Op> }
/// named key tables: "@num:N" = k00001, k00004, ... (N keys), "@k2:N" = k00 .. k(N-1)
pub fn named_keys(name: &str, n: usize) -> Option<Vec<KeySpec>> {
    match name {
        "num" => Some((0..n).map(|i| KeySpec::plain(format!("k{:05}", i * 3 + 1).as_bytes())).collect()),
        "k2" => Some((0..n).map(|i| KeySpec::plain(format!("k{:02}", i).as_bytes())).collect()),
        _ => None,
    }
}
fn keys_text(keys: &[KeySpec]) -> String {
    for name in ["num", "k2"] {
        if let Some(k) = named_keys(name, keys.len()) { if !keys.is_empty() && k == keys { return format!("@{}:{}", name, keys.len()); } }
    }
    keys.iter().map(|k| k.text()).collect::<Vec<_>>().join(",")
}
impl History {
    pub fn line(&self) -> String {
        format!("h kind={} keys={} ops={}", self.kind,
            keys_text(&self.keys),
            self.ops.iter().map(|o| o.text()).collect::<Vec<_>>().join(";"))
    }
    pub fn parse(l: &str) -> Option<History> {
        let l = l.trim();
        let l = l.split(" !").next().unwrap_or(l);          // trailing " !symptom" notes are ignored
        let r = l.strip_prefix("h kind=")?;
        let (kind, r) = r.split_once(" keys=")?;
        let (ks, os) = r.split_once(" ops=")?;
        let keys: Vec<KeySpec> = if ks.is_empty() { vec![] }
            else if let Some(r) = ks.strip_prefix('@') { let (name, n) = r.split_once(':')?; named_keys(name, n.parse().ok()?)? }
            else { ks.split(',').map(KeySpec::parse).collect::<Option<_>>()? };
        let ops: Vec<Op> = if os.is_empty() { vec![] } else { os.split(';').map(Op::parse).collect::<Option<_>>()? };
        for o in &ops {
            let k = match o { Op::Ins(k, _) | Op::Iine(k, _) | Op::App(k, _) | Op::Upd(k, _) | Op::Del(k) | Op::Get(k) | Op::Seek(k, _) => *k, _ => 0 };
            if k >= keys.len().max(1) && !keys.is_empty() { return None; }
            if keys.is_empty() && !matches!(o, Op::Fwd(_) | Op::Bwd(_) | Op::Reopen(_)) { return None; }
        }
        Some(History { kind: kind.to_string(), keys, ops })
    }
}

/// The ordered map the property compares against, plus the judgement of one result.
pub struct Oracle { pub map: BTreeMap<Vec<u8>, Val> }
pub const LEAF_CAP: usize = 16384 - 24;
pub fn varint_len(v: usize) -> usize { if v <= 240 { 1 } else if v <= 2287 { 2 } else if v <= 67823 { 3 } else if v <= 16777215 { 4 } else { 5 } }
pub fn cell_size(klen: usize, vlen: usize) -> usize { klen + varint_len(vlen) + vlen }
pub fn fits_page(klen: usize, vlen: usize) -> bool { cell_size(klen, vlen) + 8 <= LEAF_CAP }
pub fn half_ok(klen: usize, vlen: usize) -> bool { 2 * (cell_size(klen, vlen) + 8) <= LEAF_CAP }

#[derive(Debug, PartialEq, Eq, Clone, Copy)]
pub enum Verdict { Accept, Reject, OutOfScope }

/// Observed result with values mapped back to (len, tag) and keys to table indices
#[derive(Clone, Debug, PartialEq, Eq)]
pub enum Obs { Unit, Bool(bool), Uniq(bool), Opt(Option<(i64, i64)>), List(Vec<(i64, i64, i64)>), Err, Panic }
impl Obs {
    pub fn coq(&self) -> String {
        match self {
            Obs::Unit => "U".into(),
            Obs::Bool(b) => format!("B {}", b),
            Obs::Uniq(b) => format!("Q {}", b),
            Obs::Opt(None) => "GN".into(),
            Obs::Opt(Some((l, t))) => format!("GS {} {}", z(*l as i128), z(*t as i128)),
            Obs::List(es) => {
                let mut s = String::from("L [");
                for (i, (k, l, t)) in es.iter().enumerate() {
                    if i > 0 { s.push(';'); }
                    s.push_str(&format!("({},{},{})", z(*k as i128), z(*l as i128), z(*t as i128)));
                }
                s.push(']');
                s
            }
            Obs::Err => "E".into(),
            Obs::Panic => "P".into(),
        }
    }
}

impl Oracle {
    pub fn new() -> Oracle { Oracle { map: BTreeMap::new() } }
    /// an insert may be refused (Err, map unchanged) only when an entry over half a page is involved
    pub fn refusal_ok(&self, klen: usize, v: &Val) -> bool {
        !half_ok(klen, v.len as usize) || self.map.iter().any(|(k, x)| !half_ok(k.len(), x.len as usize))
    }
    /// judge `obs` for `op` and advance the map
    pub fn judge(&mut self, keys: &[Vec<u8>], op: &Op, obs: &Obs) -> Verdict {
        let vobs = |v: &Val| (v.len as i64, v.tag as i64);
        match op {
            Op::Ins(k, v) => {
                if !fits_page(keys[*k].len(), v.len as usize) { return Verdict::OutOfScope; }
                if self.map.contains_key(&keys[*k]) { if *obs == Obs::Err { Verdict::Accept } else { Verdict::Reject } }
                else if *obs == Obs::Unit { self.map.insert(keys[*k].clone(), *v); Verdict::Accept }
                else if *obs == Obs::Err && self.refusal_ok(keys[*k].len(), v) { Verdict::Accept } else { Verdict::Reject }
            }
            Op::Iine(k, v) => {
                if !fits_page(keys[*k].len(), v.len as usize) { return Verdict::OutOfScope; }
                if self.map.contains_key(&keys[*k]) { if *obs == Obs::Uniq(false) { Verdict::Accept } else { Verdict::Reject } }
                else if *obs == Obs::Uniq(true) { self.map.insert(keys[*k].clone(), *v); Verdict::Accept }
                else if *obs == Obs::Err && self.refusal_ok(keys[*k].len(), v) { Verdict::Accept } else { Verdict::Reject }
            }
            Op::App(k, v) => {
                if !fits_page(keys[*k].len(), v.len as usize) { return Verdict::OutOfScope; }
                if let Some((last, _)) = self.map.iter().next_back() { if *last >= keys[*k] { return Verdict::OutOfScope; } }
                if *obs == Obs::Unit { self.map.insert(keys[*k].clone(), *v); Verdict::Accept }
                else if *obs == Obs::Err && self.refusal_ok(keys[*k].len(), v) { Verdict::Accept } else { Verdict::Reject }
            }
            Op::Upd(k, v) => {
                if !fits_page(keys[*k].len(), v.len as usize) { return Verdict::OutOfScope; }
                match self.map.get(&keys[*k]).copied() {
                    None => if *obs == Obs::Bool(false) { Verdict::Accept } else { Verdict::Reject },
                    Some(old) => match obs {
                        Obs::Bool(true) => { self.map.insert(keys[*k].clone(), *v); Verdict::Accept }
                        Obs::Bool(false) => if old.len < v.len { Verdict::Accept } else { Verdict::Reject },
                        _ => Verdict::Reject,
                    },
                }
            }
            Op::Del(k) => {
                if self.map.contains_key(&keys[*k]) {
                    if *obs == Obs::Bool(true) { self.map.remove(&keys[*k]); Verdict::Accept } else { Verdict::Reject }
                } else if *obs == Obs::Bool(false) { Verdict::Accept } else { Verdict::Reject }
            }
            Op::Get(k) => {
                let e = Obs::Opt(self.map.get(&keys[*k]).map(vobs));
                if *obs == e { Verdict::Accept } else { Verdict::Reject }
            }
            Op::Fwd(lim) | Op::Bwd(lim) | Op::Seek(_, lim) => {
                let idx: HashMap<&Vec<u8>, i64> = keys.iter().enumerate().map(|(i, k)| (k, i as i64)).collect();
                let all: Vec<(i64, i64, i64)> = match op {
                    Op::Fwd(_) => self.map.iter().map(|(k, v)| (*idx.get(k).unwrap_or(&-1), v.len as i64, v.tag as i64)).collect(),
                    Op::Bwd(_) => self.map.iter().rev().map(|(k, v)| (*idx.get(k).unwrap_or(&-1), v.len as i64, v.tag as i64)).collect(),
                    Op::Seek(k, _) => self.map.range(keys[*k].clone()..).map(|(k, v)| (*idx.get(k).unwrap_or(&-1), v.len as i64, v.tag as i64)).collect(),
                    _ => vec![],
                };
                let e = Obs::List(all.into_iter().take(*lim).collect());
                if *obs == e { Verdict::Accept } else { Verdict::Reject }
            }
            Op::Reopen(_) => if *obs == Obs::Unit { Verdict::Accept } else { Verdict::Reject },
        }
    }
}

/// Executes histories on the real tree, mapping results back to table indices / (len, tag).
pub struct Exec {
    pub real: Real,
    pub keys: Vec<Vec<u8>>,
    pub key_idx: HashMap<Vec<u8>, i64>,
    pub vals: HashMap<Vec<u8>, (i64, i64)>,
}
impl Exec {
    pub fn new(tag: &str, keys: &[KeySpec]) -> Exec {
        let kb: Vec<Vec<u8>> = keys.iter().map(|k| k.bytes()).collect();
        let mut key_idx = HashMap::new();
        for (i, k) in kb.iter().enumerate() { key_idx.entry(k.clone()).or_insert(i as i64); }
        Exec { real: Real::new(tag), keys: kb, key_idx, vals: HashMap::new() }
    }
    pub fn add_key(&mut self, k: &KeySpec) -> usize {
        let b = k.bytes();
        let i = self.keys.len();
        self.key_idx.entry(b.clone()).or_insert(i as i64);
        self.keys.push(b);
        i
    }
    fn val(&mut self, v: Val) -> Vec<u8> {
        let b = value_bytes(v);
        self.vals.entry(b.clone()).or_insert((v.len as i64, v.tag as i64));
        b
    }
    /// two values with the same bytes are the same value: use the first (len, tag) seen for those bytes
    pub fn canon(&mut self, op: Op) -> Op {
        let mut c = |v: Val| -> Val { let b = value_bytes(v); let e = self.vals.entry(b).or_insert((v.len as i64, v.tag as i64)); Val { len: e.0 as u32, tag: e.1 as u32 } };
        match op {
            Op::Ins(k, v) => Op::Ins(k, c(v)), Op::Iine(k, v) => Op::Iine(k, c(v)),
            Op::App(k, v) => Op::App(k, c(v)), Op::Upd(k, v) => Op::Upd(k, c(v)), o => o,
        }
    }
    fn vback(&self, b: &[u8]) -> (i64, i64) { self.vals.get(b).copied().unwrap_or((b.len() as i64, -1)) }
    fn conv(&self, o: Out) -> Obs {
        match o {
            Out::Unit => Obs::Unit,
            Out::Bool(b) => Obs::Bool(b),
            Out::Uniq(b) => Obs::Uniq(b),
            Out::Opt(None) => Obs::Opt(None),
            Out::Opt(Some(v)) => Obs::Opt(Some(self.vback(&v))),
            Out::List(l) => Obs::List(l.iter().map(|(k, v)| { let (a, b) = self.vback(v); (*self.key_idx.get(k).unwrap_or(&-1), a, b) }).collect()),
            Out::Err(_) => Obs::Err,
            Out::Panic(_) => Obs::Panic,
        }
    }
    pub fn run(&mut self, op: &Op) -> (Obs, Option<String>) {
        let raw = match op {
            Op::Ins(k, v) => { let b = self.val(*v); let key = self.keys[*k].clone(); self.real.insert(&key, &b) }
            Op::Iine(k, v) => { let b = self.val(*v); let key = self.keys[*k].clone(); self.real.iine(&key, &b) }
            Op::App(k, v) => { let b = self.val(*v); let key = self.keys[*k].clone(); self.real.append(&key, &b) }
            Op::Upd(k, v) => { let b = self.val(*v); let key = self.keys[*k].clone(); self.real.update(&key, &b) }
            Op::Del(k) => { let key = self.keys[*k].clone(); self.real.delete(&key) }
            Op::Get(k) => { let key = self.keys[*k].clone(); self.real.get(&key) }
            Op::Fwd(l) => self.real.scan_fwd(*l),
            Op::Bwd(l) => self.real.scan_bwd(*l),
            Op::Seek(k, l) => { let key = self.keys[*k].clone(); self.real.scan_seek(&key, *l) }
            Op::Reopen(h) => { self.real.hint = if *h < 0 { None } else { Some(*h as u32) }; Out::Unit }
        };
        let msg = match &raw { Out::Err(m) => Some(m.clone()), Out::Panic(m) => Some(format!("panic: {}", m)), _ => None };
        (self.conv(raw), msg)
    }
}
