(* C02 correspondence: same crash harness, same cases and same model judgement as C01
   (Corr/C01.v); the property judged on the reopened real database is prefix consistency:
   reopening works, every table is readable, key probes agree with the scans, and the rows are
   those of the acknowledged operations plus a prefix of the statements in flight (the single
   in-flight statement, or the statements submitted so far in the open transaction - each
   statement completely or not at all, later ones never without earlier ones).
   Evaluated by vm_compute; definitions only. *)
From Coq Require Import ZArith List Bool.
From TV Require Export Corr.C01.
Import ListNotations.
Open Scope Z_scope.

Definition rows_eqb (a b : list (Z * Z)) : bool := list_eqb zz_eqb a b.

Definition universe (lops : list lop) : list Z := flat_map lop_creates lops.

(* the observed tables are exactly the state `st` *)
Definition state_is (u : list Z) (tables : list (Z * option (list (Z * Z)))) (st : ltabs) : bool :=
  forallb (fun t =>
    match tget st t, obs_table tables t with
    | Some want, Some got => rows_eqb want got
    | None, None => true
    | _, _ => false
    end) u.

Fixpoint prefixes {A} (l : list A) : list (list A) :=
  match l with [] => [[]] | a :: r => [] :: map (cons a) (prefixes r) end.

Definition c02_ok (lops : list lop) (o : cobs) : bool :=
  match o with
  | CObs i j _ open tables0 probe_ok _ _ =>
      let tables := map of_ctab tables0 in
      let '(a, infl) := split_at lops (Z.to_nat i) (j <? 0) in
      let acked := lrun [] (firstn a lops) in
      (open =? 0) && probe_ok
      && existsb (fun p => state_is (universe lops) tables (lrun acked p)) (prefixes infl)
  end.

Definition spec_ok (c : case) : bool :=
  match c with Case steps _ imgs pts => forallb (c02_ok (lops_of (map of_cstep steps))) (map (obs_of imgs) pts) end.

Definition known_class (c : case) : Z :=
  match judge c02_ok c with [] => 0 | x :: _ => snd x end.

Fixpoint failures_from (i : Z) (cs : list case) : list (Z * bool * bool * Z) :=
  match cs with
  | [] => []
  | c :: t => map (fun x => (i, fst (fst x), snd (fst x), snd x)) (judge c02_ok c) ++ failures_from (i + 1) t
  end.
Definition failures := failures_from 0.
