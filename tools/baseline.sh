#!/bin/sh
# run /repo's pinned baseline (hooks guard OFF) and compare with /root/.vp/BASELINE.json stable_pass
cd /repo || exit 2
mkdir -p /verif/build/baseline
cargo nextest run --workspace --no-fail-fast --tool-config-file pb:/w/lib/nextest.toml --profile pb --test-threads 8 --offline > /verif/build/baseline/out.txt 2>&1
J=$(find target/nextest -name junit.xml | head -1)
python3 - "$J" <<'PY'
import json, sys, xml.etree.ElementTree as ET
base = set(json.load(open('/root/.vp/BASELINE.json'))['stable_pass'])
t = ET.parse(sys.argv[1])
passed, failed = set(), set()
for tc in t.iter('testcase'):
    cls = tc.get('classname') or ''
    name = tc.get('name')
    full = (cls + '::' + name) if not name.startswith(cls) else name
    # nextest: classname = binary id (e.g. turdb or turdb::integration_sql), name = test path
    ok = not any(ch.tag in ('failure', 'error') for ch in tc)
    (passed if ok else failed).add(full)
missing = sorted(b for b in base if b not in passed)
print('passed', len(passed), 'failed', len(failed), 'baseline', len(base), 'baseline_not_passing', len(missing))
for m in missing[:40]: print('  MISSING', m)
PY
