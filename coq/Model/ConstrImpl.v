(* C09 -- IMPLEMENTATION model of the constraint mechanisms of TurDB's INSERT / UPDATE / DELETE
   (src/database/dml/insert.rs, update.rs, delete.rs, src/constraints/mod.rs, CHECK evaluation in
   Model/CheckStr.v) on the two-table family of Model/ConstrSpec.v.  Definitions only;
   hand-written (the code is far outside tools/rs2v.py), tied to the code by the correspondence
   run.  The model follows the code AS IT IS (HEAD 8d427ad: tombstones are skipped by the DML scans
   and the foreign-key checks, NULL never matches in the parent-delete check, ON DELETE CASCADE
   removes the children's unique-index entries, UPDATE checks uniqueness among its own rows and
   maintains the unique indexes once, with the row key as stored value):

   state of a table      ents: the B-tree of the table file, row id -> (DELETE_BIT, row),
                         ascending row ids (one global counter next_row_id: INSERT appends);
                         idxs: per column the unique index `<col>_pkey` / `<col>_key`
                         (key value -> 8 stored bytes, read as a row key), empty and unused for
                         columns that are neither PRIMARY KEY nor UNIQUE.
   INSERT (insert.rs:547)  row by row: NOT NULL, CHECK (string evaluator), FOREIGN KEY
                         (probe of the parent column's unique index if it has one, else a scan
                         of ALL parent entries, tombstones included -- fk_table_scan_check),
                         probe of every unique index; then the row and its index entries
                         (value -> row id) are written.  A failing row leaves the earlier rows of
                         the statement in place.
   DELETE (delete.rs)    rows are selected by a cursor over ALL entries (no DELETE_BIT test), or
                         through the primary-key index for `WHERE pk = literal`; every child
                         entry (tombstones included) whose foreign-key value `==` the referenced
                         value of a selected row (NULL == NULL) blocks the delete, or -- CASCADE --
                         is removed from the child B-tree physically, without touching the child's
                         indexes; the selected rows' values are removed from the unique indexes
                         BY VALUE; the rows get DELETE_BIT.
   UPDATE (update.rs)    `WHERE pk = literal` without assignment to a key column: one-pass path
                         through the index (no fall-back scan); otherwise rows are collected as
                         in DELETE.  New rows are validated (NOT NULL, CHECK); for assigned key
                         columns the index is probed per row (a hit whose stored row key differs
                         from the row's own key is a violation); then, per assigned key column
                         and row, the old value is removed from the index and the new value
                         inserted with the PRIMARY KEY VALUE of the row (not its row id) as stored
                         key -- only when the table has an integer primary key, and ignoring
                         "key already exists" --, twice (unique_columns loop, secondary_indexes
                         loop); rows are rewritten with a fresh header (DELETE_BIT cleared).
                         FOREIGN KEYs are not looked at (no ON UPDATE action is declared in this
                         family). *)
From Coq Require Import ZArith List Bool.
From TV Require Import Model.SqlSpec Model.CheckStr Model.ConstrSpec.
Import ListNotations.
Open Scope Z_scope.

Record entry := mkEnt { e_id : Z; e_del : bool; e_row : row }.
Definition index := list (value * Z).
Record tstate := mkT { ents : list entry; idxs : list index }.
Record dstate := mkD { d_p : tstate; d_c : tstate; d_next : Z }.

Definition t_empty (n : nat) : tstate := mkT [] (repeat [] n).
Definition d_empty (sch : schema) : dstate :=
  mkD (t_empty (length (s_p sch))) (t_empty (length (s_c sch))) 1.

Definition live (e : entry) : bool := negb (e_del e).
Definition visible (t : tstate) : table := map e_row (filter live (ents t)).
Definition abs_db (st : dstate) : db := (visible (d_p st), visible (d_c st)).
Definition ts_of (st : dstate) (t : tid) : tstate := match t with TP => d_p st | TC => d_c st end.
Definition set_ts (st : dstate) (t : tid) (x : tstate) : dstate :=
  match t with TP => mkD x (d_c st) (d_next st) | TC => mkD (d_p st) x (d_next st) end.

(* column names x0 .. x9 (both tables) *)
Definition cname (i : nat) : list Z := [120; 48 + Z.of_nat i].
Definition cnames (n : nat) : list (list Z) := map cname (seq 0 n).

(* ------------------------------------------------------------------ unique indexes *)
Definition idx_find (v : value) (ix : index) : option Z :=
  match find (fun p => value_eqb (fst p) v) ix with Some p => Some (snd p) | None => None end.
Definition idx_mem (v : value) (ix : index) : bool :=
  match idx_find v ix with Some _ => true | None => false end.
Definition idx_del (v : value) (ix : index) : index := filter (fun p => negb (value_eqb (fst p) v)) ix.
(* BTree::insert fails with "key already exists"; callers that ignore the error keep the old entry *)
Definition idx_ins (v : value) (k : Z) (ix : index) : index := if idx_mem v ix then ix else ix ++ [(v, k)].
Definition get_idx (t : tstate) (i : nat) : index := nth i (idxs t) [].
Fixpoint set_nth {A} (i : nat) (x : A) (l : list A) : list A :=
  match l, i with
  | [], _ => []
  | _ :: l', O => x :: l'
  | y :: l', S i' => y :: set_nth i' x l'
  end.
Definition set_idx (t : tstate) (i : nat) (ix : index) : tstate := mkT (ents t) (set_nth i ix (idxs t)).
Definition find_ent (k : Z) (es : list entry) : option entry := find (fun e => e_id e =? k) es.

Fixpoint pk_pos_from (ds : list cdecl) (i : nat) : option nat :=
  match ds with
  | [] => None
  | d :: ds' => if c_key d =? 1 then Some i else pk_pos_from ds' (S i)
  end.
Definition pk_pos (ds : list cdecl) : option nat := pk_pos_from ds 0.

(* ------------------------------------------------------------------ per-row checks *)
(* NOT NULL (validate_not_null; PRIMARY KEY columns also carry NotNull) *)
Fixpoint nn_from (ds : list cdecl) (vs : list value) : bool :=
  match ds, vs with
  | d :: ds', v :: vs' => (negb (must_nn d) || negb (is_null v)) && nn_from ds' vs'
  | _, _ => true
  end.
(* CHECK, column by column: None = outside the modelled fragment *)
Fixpoint chk_from (names : list (list Z)) (ds : list cdecl) (i : nat) (vs : list value) : option bool :=
  match ds, vs with
  | d :: ds', v :: vs' =>
      match (match c_chk d with Some e => impl_check names i e v | None => COk true end) with
      | COk true => chk_from names ds' (S i) vs'
      | COk false | CErr => Some false
      | CUnmod => None
      end
  | _, _ => Some true
  end.
Definition chk_row (ds : list cdecl) (r : row) : option bool := chk_from (cnames (length ds)) ds 0 r.

(* FOREIGN KEY of a child row against the parent table state *)
Definition fk_probe (pds : list cdecl) (p : tstate) (f : fkref) (v : value) : bool :=
  match nth_error pds (fk_col f) with
  | Some pd =>
      if is_key pd then idx_mem v (get_idx p (fk_col f))
      else existsb (fun e => live e && negb (is_null (col_val (fk_col f) (e_row e))) && value_eqb (col_val (fk_col f) (e_row e)) v) (ents p)
  | None => false
  end.
Fixpoint fk_from (pds : list cdecl) (p : tstate) (ds : list cdecl) (vs : list value) : bool :=
  match ds, vs with
  | d :: ds', v :: vs' =>
      match c_fk d with
      | Some f => is_null v || fk_probe pds p f v
      | None => true
      end && fk_from pds p ds' vs'
  | _, _ => true
  end.
(* probes of the table's own unique indexes *)
Fixpoint uq_from (t : tstate) (ds : list cdecl) (i : nat) (vs : list value) : bool :=
  match ds, vs with
  | d :: ds', v :: vs' =>
      (negb (is_key d) || is_null v || negb (idx_mem v (get_idx t i))) && uq_from t ds' (S i) vs'
  | _, _ => true
  end.

(* ------------------------------------------------------------------ INSERT *)
Definition ins_row_ok (sch : schema) (t : tid) (st : dstate) (r : row) : option bool :=
  let ds := cols_of sch t in
  if negb (nn_from ds r) then Some false
  else match chk_row ds r with
       | None => None
       | Some false => Some false
       | Some true =>
           Some ((match t with TC => fk_from (s_p sch) (d_p st) ds r | TP => true end) &&
                 uq_from (ts_of st t) ds 0 r)
       end.
Fixpoint idx_add_from (ixs : list index) (ds : list cdecl) (vs : list value) (k : Z) : list index :=
  match ixs, ds, vs with
  | ix :: ixs', d :: ds', v :: vs' =>
      (if is_key d && negb (is_null v) then idx_ins v k ix else ix) :: idx_add_from ixs' ds' vs' k
  | _, _, _ => ixs
  end.
Definition ins_write (sch : schema) (t : tid) (st : dstate) (r : row) : dstate :=
  let ts := ts_of st t in
  let ts' := mkT (ents ts ++ [mkEnt (d_next st) false r]) (idx_add_from (idxs ts) (cols_of sch t) r (d_next st)) in
  let st' := set_ts st t ts' in
  mkD (d_p st') (d_c st') (d_next st + 1).
(* the per-row loop: (None = unmodelled | Some all-rows-written?, state) *)
Fixpoint ins_loop (sch : schema) (t : tid) (st : dstate) (rows : list row) : option bool * dstate :=
  match rows with
  | [] => (Some true, st)
  | r :: rs =>
      match ins_row_ok sch t st r with
      | None => (None, st)
      | Some false => (Some false, st)
      | Some true => ins_loop sch t (ins_write sch t st r) rs
      end
  end.

(* ------------------------------------------------------------------ row selection *)
(* `WHERE pk = literal` (either operand order) *)
Definition pk_lit (ds : list cdecl) (w : option expr) : option value :=
  match pk_pos ds, w with
  | Some i, Some (ECmp CEq (ECol j) (ELit v)) => if Nat.eqb i j then Some v else None
  | Some i, Some (ECmp CEq (ELit v) (ECol j)) => if Nat.eqb i j then Some v else None
  | _, _ => None
  end.
Definition pk_val (ds : list cdecl) (r : row) : value :=
  match pk_pos ds with Some i => col_val i r | None => VNull end.
(* pk_analysis: the stored row key of the index entry, if the probe hits *)
Definition pk_probe (ds : list cdecl) (t : tstate) (w : option expr) : option (Z * value) :=
  match pk_lit ds w, pk_pos ds with
  | Some v, Some i => match idx_find v (get_idx t i) with Some k => Some (k, v) | None => None end
  | _, _ => None
  end.
(* cursor_seek(row key) ... `key != target => break`, `row[pk] == target value` *)
Definition seek_row (ds : list cdecl) (t : tstate) (k : Z) (v : value) : list entry :=
  match find_ent k (ents t) with
  | Some e => if live e && value_eqb (pk_val ds (e_row e)) v then [e] else []
  | None => []
  end.
Definition scan_rows (t : tstate) (w : option expr) : list entry :=
  filter (fun e => live e && wpass w (e_row e)) (ents t).
(* DELETE and the multi-pass UPDATE: index path with fall-back to the scan *)
Definition select_rows (ds : list cdecl) (t : tstate) (w : option expr) : list entry :=
  match pk_probe ds t w with
  | Some (k, v) => match seek_row ds t k v with [] => scan_rows t w | l => l end
  | None => scan_rows t w
  end.

(* ------------------------------------------------------------------ DELETE *)
(* the foreign-key columns of c: (column of c, referenced column of p, action) *)
Fixpoint fk_cols_from (ds : list cdecl) (i : nat) : list (nat * nat * Z) :=
  match ds with
  | [] => []
  | d :: ds' => match c_fk d with
                | Some f => (i, fk_col f, fk_act f) :: fk_cols_from ds' (S i)
                | None => fk_cols_from ds' (S i)
                end
  end.
Definition fk_cols (sch : schema) : list (nat * nat * Z) := fk_cols_from (s_c sch) 0.
(* values_to_check: per selected row, per reference, the row's value in the referenced column *)
Definition del_vals (sch : schema) (sel : list entry) : list value :=
  flat_map (fun e => map (fun f => col_val (snd (fst f)) (e_row e)) (fk_cols sch)) sel.
(* one foreign-key column of c against the child entries: None = blocked, Some ids = to cascade *)
(* a live child entry whose foreign-key value is not NULL and equals a value to check *)
Definition chit (vals : list value) (j : nat) (e : entry) : bool :=
  live e && negb (is_null (col_val j (e_row e))) && vmem (col_val j (e_row e)) vals.
Fixpoint child_scan (j : nat) (act : Z) (vals : list value) (es : list entry) : option (list Z) :=
  match es with
  | [] => Some []
  | e :: es' =>
      let hit := chit vals j e in
      if hit && negb (act =? 2) then None
      else match child_scan j act vals es' with
           | Some ids => Some (if hit then e_id e :: ids else ids)
           | None => None
           end
  end.
Fixpoint child_scans (fks : list (nat * nat * Z)) (vals : list value) (es : list entry) : option (list Z) :=
  match fks with
  | [] => Some []
  | (j, _, act) :: fks' =>
      match child_scan j act vals es with
      | None => None
      | Some ids => match child_scans fks' vals es with Some ids' => Some (ids ++ ids') | None => None end
      end
  end.
Definition drop_ids (ids : list Z) (es : list entry) : list entry :=
  filter (fun e => negb (existsb (Z.eqb (e_id e)) ids)) es.

(* index entries of the selected rows, removed by value *)
Fixpoint idx_del_from (ixs : list index) (ds : list cdecl) (i : nat) (sel : list entry) : list index :=
  match ixs, ds with
  | ix :: ixs', d :: ds' =>
      (if is_key d
       then fold_left (fun a e => let v := col_val i (e_row e) in if is_null v then a else idx_del v a) sel ix
       else ix) :: idx_del_from ixs' ds' (S i) sel
  | _, _ => ixs
  end.
Definition in_sel (sel : list entry) (e : entry) : bool := existsb (fun x => e_id x =? e_id e) sel.
Definition tombstone (sel : list entry) (es : list entry) : list entry :=
  map (fun e => if in_sel sel e then mkEnt (e_id e) true (e_row e) else e) es.

Definition do_delete (sch : schema) (t : tid) (st : dstate) (w : option expr) : bool * dstate :=
  let ds := cols_of sch t in
  let ts := ts_of st t in
  let sel := select_rows ds ts w in
  let casc := match t with
              | TP => if match del_vals sch sel with [] => true | _ => false end then Some []
                      else child_scans (fk_cols sch) (del_vals sch sel) (ents (d_c st))
              | TC => Some []
              end in
  match casc with
  | None => (false, st)
  | Some ids =>
      let st1 := match t with
                 | TP => mkD (d_p st) (mkT (drop_ids ids (ents (d_c st)))
                                           (idx_del_from (idxs (d_c st)) (s_c sch) 0
                                              (filter (fun e => existsb (Z.eqb (e_id e)) ids) (ents (d_c st)))))
                             (d_next st)
                 | TC => st
                 end in
      let ts1 := ts_of st1 t in
      (true, set_ts st1 t (mkT (tombstone sel (ents ts1)) (idx_del_from (idxs ts1) ds 0 sel)))
  end.

(* ------------------------------------------------------------------ UPDATE *)
Definition validate_new (ds : list cdecl) (r : row) : option bool :=
  if negb (nn_from ds r) then Some false else chk_row ds r.
Fixpoint validate_all (ds : list cdecl) (rows : list row) : option bool :=
  match rows with
  | [] => Some true
  | r :: rs => match validate_new ds r with
               | Some true => validate_all ds rs
               | o => o
               end
  end.
Definition modified (sets : list (nat * value)) (i : nat) : bool := existsb (fun p => Nat.eqb (fst p) i) sets.
Fixpoint key_mod_from (ds : list cdecl) (i : nat) (sets : list (nat * value)) : bool :=
  match ds with
  | [] => false
  | d :: ds' => (is_key d && modified sets i) || key_mod_from ds' (S i) sets
  end.
(* unique check of one updated row: for every assigned key column, a hit on another row key *)
Fixpoint uq_upd_from (t : tstate) (ds : list cdecl) (i : nat) (sets : list (nat * value)) (k : Z) (nr : row) : bool :=
  match ds with
  | [] => true
  | d :: ds' =>
      (if is_key d && modified sets i && negb (is_null (col_val i nr))
       then match idx_find (col_val i nr) (get_idx t i) with Some k' => k' =? k | None => true end
       else true) && uq_upd_from t ds' (S i) sets k nr
  end.
(* two rows of the statement must not receive the same non-NULL value in an assigned key column
   (all rows receive the same literals: two rows and one such column suffice) *)
Fixpoint dup_in_stmt (ds : list cdecl) (i : nat) (sets : list (nat * value)) : bool :=
  match ds with
  | [] => false
  | d :: ds' =>
      (is_key d && match assoc_set i sets with Some nv => negb (is_null nv) | None => false end) ||
      dup_in_stmt ds' (S i) sets
  end.
(* the maintenance pass of one index over the updated rows (row id, old row, new row) in order *)
Definition idx_upd_pass (i : nat) (trips : list (Z * row * row)) (ix : index) : index :=
  fold_left (fun a p =>
    let ov := col_val i (snd (fst p)) in let nv := col_val i (snd p) in
    let a1 := if is_null ov then a else idx_del ov a in
    if is_null nv then a1 else idx_ins nv (fst (fst p)) a1) trips ix.
Fixpoint idx_upd_from (ixs : list index) (ds : list cdecl) (i : nat)
         (sets : list (nat * value)) (trips : list (Z * row * row)) : list index :=
  match ixs, ds with
  | ix :: ixs', d :: ds' =>
      (if is_key d && modified sets i then idx_upd_pass i trips ix else ix)
      :: idx_upd_from ixs' ds' (S i) sets trips
  | _, _ => ixs
  end.
Definition rewrite_rows (sel : list entry) (sets : list (nat * value)) (es : list entry) : list entry :=
  map (fun e => if in_sel sel e then mkEnt (e_id e) false (upd_row sets (e_row e)) else e) es.

Definition do_update (sch : schema) (t : tid) (st : dstate) (sets : list (nat * value)) (w : option expr)
  : option bool * dstate :=
  let ds := cols_of sch t in
  let ts := ts_of st t in
  let keymod := key_mod_from ds 0 sets in
  match pk_probe ds ts w, keymod with
  | Some (k, v), false =>
      (* one-pass path *)
      match seek_row ds ts k v with
      | e :: _ =>
          match validate_new ds (upd_row sets (e_row e)) with
          | None => (None, st)
          | Some false => (Some false, st)
          | Some true => (Some true, set_ts st t (mkT (rewrite_rows [e] sets (ents ts)) (idxs ts)))
          end
      | [] => (Some true, st)
      end
  | _, _ =>
      let sel := select_rows ds ts w in
      let news := map (fun e => upd_row sets (e_row e)) sel in
      match validate_all ds news with
      | None => (None, st)
      | Some false => (Some false, st)
      | Some true =>
          if forallb (fun e => uq_upd_from ts ds 0 sets (e_id e) (upd_row sets (e_row e))) sel &&
             negb (match sel with _ :: _ :: _ => dup_in_stmt ds 0 sets | _ => false end)
          then
            let trips := map (fun e => (e_id e, e_row e, upd_row sets (e_row e))) sel in
            (Some true, set_ts st t (mkT (rewrite_rows sel sets (ents ts))
                                         (idx_upd_from (idxs ts) ds 0 sets trips)))
          else (Some false, st)
      end
  end.

(* ------------------------------------------------------------------ UPDATE SET column = expression *)
(* update.rs with a `deferred` assignment: never the one-pass path; rows collected in row-key order
   (primary-key seek with fall-back, or scan), the expression evaluated on the row as it was, every
   new row validated (NOT NULL, CHECK) while collecting; then, for a PRIMARY KEY / UNIQUE column,
   row by row: a non-NULL new value must not equal the new value of an EARLIER row of the statement
   and the index probe must not find it under another row key -- also when that other row is
   updated by the same statement and gives the value up (`tol` = false is the code as it is;
   `tol` = true, used by the class function only, forgives exactly those hits); no FOREIGN KEY
   check; then the rows are rewritten and the index maintained in one pass (delete old, insert
   new, row by row).
   trips = (row id, old row, new row) of the selected rows *)
Fixpoint e_trips (c : nat) (e : expr) (sel : list entry) : option (list (Z * row * row)) :=
  match sel with
  | [] => Some []
  | en :: sel' =>
      match eval e (e_row en), e_trips c e sel' with
      | Some v, Some l => if val_fits v then Some ((e_id en, e_row en, set_nth c v (e_row en)) :: l) else None
      | _, _ => None
      end
  end.
Definition moves_away (c : nat) (all : list (Z * row * row)) (k : Z) (v : value) : bool :=
  existsb (fun q => (fst (fst q) =? k) && negb (value_eqb (col_val c (snd q)) v)) all.
Fixpoint uq_e_all (tol : bool) (ix : index) (c : nat) (all trips : list (Z * row * row)) (earlier : list value) : bool :=
  match trips with
  | [] => true
  | p :: rest =>
      let nv := col_val c (snd p) in
      (is_null nv ||
       (negb (vmem nv earlier) &&
        match idx_find nv ix with
        | Some k' => (k' =? fst (fst p)) || (tol && moves_away c all k' nv)
        | None => true
        end)) &&
      uq_e_all tol ix c all rest (nv :: earlier)
  end.
Fixpoint idx_upd_at (ixs : list index) (k c : nat) (trips : list (Z * row * row)) : list index :=
  match ixs with
  | [] => []
  | ix :: r => match k with O => idx_upd_pass c trips ix :: r | S k' => ix :: idx_upd_at r k' c trips end
  end.
Definition rewrite_rows_e (trips : list (Z * row * row)) (es : list entry) : list entry :=
  map (fun en => match find (fun p => fst (fst p) =? e_id en) trips with
                 | Some p => mkEnt (e_id en) false (snd p)
                 | None => en
                 end) es.
Definition col_is_key (ds : list cdecl) (c : nat) : bool :=
  match nth_error ds c with Some d => is_key d | None => false end.

Definition do_update_e (sch : schema) (t : tid) (st : dstate) (c : nat) (e : expr) (w : option expr)
  : option bool * dstate :=
  let ds := cols_of sch t in
  let ts := ts_of st t in
  let sel := select_rows ds ts w in
  match e_trips c e sel with
  | None => (None, st)
  | Some trips =>
      match validate_all ds (map snd trips) with
      | None => (None, st)
      | Some false => (Some false, st)
      | Some true =>
          if negb (col_is_key ds c) then
            (Some true, set_ts st t (mkT (rewrite_rows_e trips (ents ts)) (idxs ts)))
          else if uq_e_all false (get_idx ts c) c trips trips [] then
            (Some true, set_ts st t (mkT (rewrite_rows_e trips (ents ts)) (idx_upd_at (idxs ts) c c trips)))
          else (Some false, st)
      end
  end.

(* ------------------------------------------------------------------ one statement *)
(* (None = outside the modelled fragment | Some accepted?, state after) *)
Definition impl_step (sch : schema) (st : dstate) (s : stmt) : option bool * dstate :=
  match s with
  | SIns t rows =>
      if forallb (row_fits (length (cols_of sch t))) rows then ins_loop sch t st rows else (None, st)
  | SUpd t sets w =>
      if sets_ok (length (cols_of sch t)) sets then do_update sch t st sets w else (None, st)
  | SDel t w => let '(ok, st') := do_delete sch t st w in (Some ok, st')
  | SUpdE t c e w =>
      if Nat.ltb c (length (cols_of sch t)) then do_update_e sch t st c e w else (None, st)
  end.

Fixpoint impl_run (sch : schema) (st : dstate) (h : list stmt) : dstate :=
  match h with
  | [] => st
  | s :: h' => impl_run sch (snd (impl_step sch st s)) h'
  end.
