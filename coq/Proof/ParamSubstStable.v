(* C13 proofs, part 4: substitution keeps the token structure of the statement.
   If every placeholder of a statement stands as a token of its own -- the byte before it is
   whitespace, `(` or `,` (or it starts the statement) and the byte after it is whitespace, `)`, `,`
   or `;` (or it ends the statement) -- then, for all NULL / boolean / integer / text / blob values,
   the lexer reads the substituted statement as the original token sequence with every placeholder
   replaced by the token(s) of its literal and nothing else changed (subst_keeps_tokens_l).
   Strings, comments, quoted identifiers, numbers, operators around the placeholders are arbitrary. *)
From Coq Require Import ZArith List Bool Lia Arith.
From TV Require Import Model.ParamSubst Proof.ParamSubstLex Proof.ParamSubstLit Proof.ParamSubstLocal.
Import ListNotations.
Open Scope Z_scope.

(* ---------------------------------------------------------------- the token loop as a relation *)
Inductive lexes : list Z -> list item -> Prop :=
| lexes_nil : lexes [] []
| lexes_cons : forall b r k n t,
    scan b r = (k, n) -> lexes (skipn n r) t -> lexes (b :: r) ((k, b :: firstn n r) :: t).

Lemma lexes_of_loop : forall f l its, lex_loop f l = Some its -> lexes l its.
Proof.
  induction f as [|f IH]; intros l its E.
  - destruct l; [|discriminate]. cbn in E. inversion E. constructor.
  - destruct l as [|b r]; [rewrite lex_loop_nil in E; inversion E; constructor|].
    rewrite lex_loop_cons in E. destruct (scan b r) as [k n] eqn:Es.
    destruct (lex_loop f (skipn n r)) as [t|] eqn:Et; [|discriminate]. inversion E.
    apply lexes_cons; [exact Es|apply IH; exact Et].
Qed.

Lemma loop_of_lexes : forall l its, lexes l its -> forall f, (length l <= f)%nat -> lex_loop f l = Some its.
Proof.
  intros l its H. induction H as [|b r k n t Hs Ht IH]; intros f Hf.
  - apply lex_loop_nil.
  - destruct f as [|f]; [cbn [length] in Hf; lia|].
    rewrite lex_loop_cons, Hs, IH; [reflexivity|].
    cbn [length] in Hf. pose proof (skipn_length_le n r). lia.
Qed.

Lemma lexes_text : forall l its, lexes l its -> concat (map snd its) = l.
Proof.
  intros l its H. induction H as [|b r k n t Hs Ht IH]; [reflexivity|].
  cbn [map snd concat]. rewrite IH. cbn [app]. f_equal. apply firstn_skipn.
Qed.

Lemma lexes_lex l its : lexes l its -> lex l = Some its.
Proof. intros H. unfold lex. apply (loop_of_lexes l its H). lia. Qed.

(* a lex_loop equation about a prefix gives the corresponding lexes step *)
Lemma lexes_bridge pre rest its w :
  (forall f, lex_loop (S (S f)) (pre ++ rest) = option_map (app its) (lex_loop f rest)) ->
  lexes rest w -> lexes (pre ++ rest) (its ++ w).
Proof.
  intros H Hw. apply (lexes_of_loop (S (S (length rest)))).
  rewrite H, (loop_of_lexes rest w Hw) by lia. reflexivity.
Qed.

(* ---------------------------------------------------------------- literals in context *)
Definition follow_ok (rest : list Z) : bool :=
  match rest with [] => true | c :: _ => is_sep_after c end.

Lemma sep_after_bytes c : is_sep_after c = true -> c = 32 \/ c = 9 \/ c = 13 \/ c = 10 \/ c = 41 \/ c = 44 \/ c = 59.
Proof.
  unfold is_sep_after, is_ws. intros H.
  repeat (apply orb_true_iff in H; destruct H as [H|H]); apply Z.eqb_eq in H; subst c; auto 10.
Qed.

Lemma follow_facts rest :
  follow_ok rest = true ->
  starts_with 39 rest = false /\ num_follow_ok rest = true /\
  match rest with [] => true | c :: _ => negb (is_ident_char c) end = true.
Proof.
  destruct rest as [|c t]; [intros _; repeat split; reflexivity|].
  cbn [follow_ok]. intros H.
  destruct (sep_after_bytes c H) as [E|[E|[E|[E|[E|[E|E]]]]]]; subst c; repeat split; reflexivity.
Qed.

Lemma scan_word b w rest :
  is_ws b = false -> is_ident_start b = true -> (b =? 120) || (b =? 88) = false ->
  forallb is_ident_char w = true -> follow_ok rest = true ->
  scan b (w ++ rest) = (KId, length w).
Proof.
  intros Hw Hi Hx Hall Hf. unfold scan. rewrite Hw, Hi. unfold scan_ident. rewrite Hx. cbn [andb].
  rewrite count_while_app_stop; [reflexivity|exact Hall|].
  destruct (follow_facts rest Hf) as [_ [_ H3]]. exact H3.
Qed.

Lemma lexes_word b w rest its :
  is_ws b = false -> is_ident_start b = true -> (b =? 120) || (b =? 88) = false ->
  forallb is_ident_char w = true -> follow_ok rest = true ->
  lexes rest its -> lexes ((b :: w) ++ rest) ((KId, b :: w) :: its).
Proof.
  intros Hw Hi Hx Hall Hf Hl. cbn [app].
  pose proof (scan_word b w rest Hw Hi Hx Hall Hf) as Hs.
  pose proof (lexes_cons b (w ++ rest) KId (length w) its Hs) as H.
  rewrite firstn_len_app, skipn_len_app in H. apply H. exact Hl.
Qed.

Lemma lexes_lit v rest w :
  simple_val v = true -> follow_ok rest = true -> lexes rest w ->
  lexes (emit v ++ rest) (lit_items v ++ w).
Proof.
  intros Hv Hf Hw. destruct (follow_facts rest Hf) as [F1 [F2 F3]].
  unfold simple_val in Hv. apply andb_true_iff in Hv. destruct Hv as [Hok Hfl].
  destruct v as [|b|z|s|bl|bits shown]; cbn [is_float negb] in Hfl; try discriminate.
  - (* NULL *) change (emit VNull) with (render VNull). cbn [render lit_items app]. apply (lexes_word 78 [85; 76; 76] rest w); try reflexivity; assumption.
  - destruct b; [change (emit (VBool true)) with (render (VBool true))|change (emit (VBool false)) with (render (VBool false))];
      cbn [render lit_items app].
    + apply (lexes_word 84 [82; 85; 69] rest w); try reflexivity; assumption.
    + apply (lexes_word 70 [65; 76; 83; 69] rest w); try reflexivity; assumption.
  - (* integer *)
    cbn [val_ok] in Hok. apply andb_true_iff in Hok. destruct Hok as [H1 H2].
    apply Z.leb_le in H1. apply Z.leb_le in H2.
    cbn [lit_items]. destruct (z <? 0) eqn:Ez.
    + assert (He : emit (VInt z) = 32 :: render (VInt z)).
      { unfold emit. cbn [render]. unfold show_int. rewrite Ez. reflexivity. }
      rewrite He. cbn [app].
      pose proof (lexes_cons 32 (render (VInt z) ++ rest) KWs O) as Hc. cbn [firstn skipn] in Hc.
      apply Hc; [reflexivity|].
      apply (lexes_bridge (render (VInt z)) rest [(KMinus, [45]); (KInt, show_nat (- z))] w); [|exact Hw].
      intros f. rewrite (int_tokens_l z rest f (conj H1 H2) F2), Ez. destruct (lex_loop f rest); reflexivity.
    + assert (He : emit (VInt z) = render (VInt z)).
      { unfold emit. cbn [render]. unfold show_int. rewrite Ez.
        destruct (show_nat_spec z) as [d [ds [E1 [E2 _]]]]; [unfold i64_min, i64_max in *; lia|].
        rewrite E1. cbn [starts_with]. cbn [forallb] in E2. apply andb_true_iff in E2. destruct E2 as [E2 _].
        unfold is_digit in E2. destruct (d =? 45) eqn:Ed; [apply Z.eqb_eq in Ed; subst d; discriminate|reflexivity]. }
      rewrite He. apply (lexes_of_loop (S (S (length rest)))).
      rewrite (int_tokens_l z rest (length rest) (conj H1 H2) F2), Ez.
      rewrite (loop_of_lexes rest w Hw) by lia. reflexivity.
  - (* text *)
    change (emit (VText s)) with (render (VText s)).
    cbn [lit_items]. apply (lexes_of_loop (S (length rest))).
    rewrite (text_one_token_l s rest (length rest) F1), (loop_of_lexes rest w Hw) by lia. reflexivity.
  - (* blob *)
    change (emit (VBlob bl)) with (render (VBlob bl)).
    cbn [lit_items]. cbn [val_ok] in Hok. apply (lexes_of_loop (S (length rest))).
    rewrite (blob_one_token_l bl rest (length rest) Hok), (loop_of_lexes rest w Hw) by lia. reflexivity.
Qed.

Lemma lex_render v : simple_val v = true -> lex (emit v) = Some (lit_items v).
Proof.
  intros Hv. pose proof (lexes_lit v [] [] Hv eq_refl lexes_nil) as H.
  rewrite !app_nil_r in H. apply lexes_lex. exact H.
Qed.

(* ---------------------------------------------------------------- the main induction *)
Lemma lexes_item_nonempty l k txt t : lexes l ((k, txt) :: t) -> exists b T, txt = b :: T.
Proof. intros H. inversion H; subst. eauto. Qed.

Lemma lexes_item2_nonempty l i1 k txt t : lexes l (i1 :: (k, txt) :: t) -> exists b T, txt = b :: T.
Proof. intros H. inversion H; subst. eapply lexes_item_nonempty. eassumption. Qed.

Lemma nth_simple ps idx v : forallb simple_val ps = true -> nth_error ps idx = Some v -> simple_val v = true.
Proof.
  intros H E. apply nth_error_In in E. rewrite forallb_forall in H. apply H. exact E.
Qed.

Lemma subst_np (k : tk) (txt : list Z) (t : list item) ps i :
  is_param k = false ->
  subst_items (((k, txt) : item) :: t) ps i = option_map (app txt) (subst_items t ps i).
Proof. apply subst_copies_nonparam_l. Qed.

Lemma scan_sep b r : is_sep_before b = true -> scan b r = (if is_ws b then KWs else KOp, O).
Proof.
  intros H. destruct (sep_bytes b H) as [E|[E|[E|[E|[E|E]]]]]; subst b; reflexivity.
Qed.

Section Main.
Variable ps : list val.
Hypothesis Hps : forallb simple_val ps = true.

Lemma stable_main :
  forall l its, lexes l its -> forall prev pidx out,
    isolated prev its = true -> subst_items its ps pidx = Some out ->
    exists want, expand_items its ps pidx = Some want /\ lexes out want.
Proof.
  intros l its H. induction H as [|b r k n t Hs Ht IH]; intros prev pidx out Hiso Hsub.
  - cbn in Hsub. inversion Hsub. exists []. split; [reflexivity|constructor].
  - set (txt := b :: firstn n r) in *.
    destruct (is_param k) eqn:Ek.
    + (* a parameter token: replaced by the tokens of its literal *)
      cbn [isolated] in Hiso. rewrite Ek in Hiso.
      apply andb_true_iff in Hiso. destruct Hiso as [Hiso Hrest].
      apply andb_true_iff in Hiso. destruct Hiso as [Hprev Hnext].
      assert (Hgo : exists idx next,
                 subst_items ((k, txt) :: t) ps pidx =
                   match nth_error ps idx with
                   | Some v => match subst_items t ps next with Some o => Some (emit v ++ o) | None => None end
                   | None => None end /\
                 expand_items ((k, txt) :: t) ps pidx =
                   match nth_error ps idx, expand_items t ps next with
                   | Some v, Some r => match lex (emit v) with Some li => Some (li ++ r) | None => None end
                   | _, _ => None end).
      { destruct k; try discriminate.
        - exists pidx, (S pidx). split; reflexivity.
        - exists (Z.to_nat (n0 - 1)), pidx. split; reflexivity.
        - exists pidx, (S pidx). split; reflexivity. }
      destruct Hgo as [idx [next [Gs Ge]]]. rewrite Gs in Hsub.
      destruct (nth_error ps idx) as [v|] eqn:Ev; [|discriminate].
      destruct (subst_items t ps next) as [o|] eqn:Eo; [|discriminate]. inversion Hsub; subst out.
      destruct (IH false next o Hrest Eo) as [want_t [Ew Hl]].
      pose proof (nth_simple ps idx v Hps Ev) as Hv.
      exists (lit_items v ++ want_t). split.
      * rewrite Ge, Ew, (lex_render v Hv). reflexivity.
      * apply lexes_lit; [exact Hv| |exact Hl].
        (* what follows the literal starts with a separator *)
        destruct t as [|[k2 txt2] t2]; [cbn in Eo; inversion Eo; reflexivity|].
        destruct txt2 as [|c T2]; [discriminate|].
        apply andb_true_iff in Hnext. destruct Hnext as [Hk2 Hc].
        apply negb_true_iff in Hk2.
        pose proof (eq_trans (eq_sym (subst_np k2 (c :: T2) t2 ps next Hk2)) Eo) as Eo'.
        destruct (subst_items t2 ps next); [|discriminate]. cbn [option_map] in Eo'. inversion Eo'.
        cbn [app follow_ok]. exact Hc.
    + (* any other token: found again unchanged *)
      cbn [isolated] in Hiso. rewrite Ek in Hiso.
      pose proof (eq_trans (eq_sym (subst_np k txt t ps pidx Ek)) Hsub) as Hsub'.
      destruct (subst_items t ps pidx) as [o|] eqn:Eo; [|discriminate].
      cbn [option_map] in Hsub'. inversion Hsub'; subst out.
      destruct (IH _ pidx o Hiso Eo) as [want_t [Ew Hl]].
      exists ((k, txt) :: want_t). split.
      * assert (He : expand_items ((k, txt) :: t) ps pidx = option_map (cons (k, txt)) (expand_items t ps pidx)).
        { destruct k; try discriminate; reflexivity. }
        rewrite He, Ew. reflexivity.
      * (* the scanner gives the same token on the substituted text *)
        destruct t as [|[k2 txt2] t2].
        { (* last token: the text is unchanged *)
          inversion Ht as [Hnil|]; subst. cbn in Eo. inversion Eo; subst o.
          inversion Hl; subst. rewrite app_nil_r.
          pose proof (lexes_cons b r k n [] Hs) as Hc. rewrite <- Hnil in Hc. specialize (Hc lexes_nil).
          pose proof (firstn_skipn n r) as Hr. rewrite <- Hnil, app_nil_r in Hr.
          unfold txt. rewrite Hr in *. exact Hc. }
        destruct (is_param k2) eqn:Ek2.
        { (* the next token is a parameter: this one is a one-byte separator, whose scan does not
             look at what follows *)
          cbn [isolated] in Hiso. rewrite Ek2 in Hiso.
          apply andb_true_iff in Hiso. destruct Hiso as [Hiso _].
          apply andb_true_iff in Hiso. destruct Hiso as [Hprev _].
          unfold txt in Hprev. destruct (firstn n r) as [|x1 xs] eqn:Ef; [|discriminate].
          pose proof (scan_sep b r Hprev) as Hsep. rewrite Hs in Hsep. inversion Hsep as [[Hk Hn]].
          unfold txt. cbn [app].
          pose proof (scan_sep b o Hprev) as Hs2.
          pose proof (lexes_cons b o _ O want_t Hs2) as Hc. cbn [firstn skipn] in Hc. apply Hc. exact Hl. }
        pose proof (lexes_text _ _ Ht) as Htext.
        destruct (lexes_item_nonempty _ _ _ _ Ht) as [c [T2 E2]]. subst txt2.
        (* the original input after b is T ++ c :: X with T = firstn n r *)
        set (T := firstn n r) in *.
        assert (Hr : r = T ++ skipn n r) by (symmetry; apply firstn_skipn).
        cbn [map snd concat app] in Htext.
        set (X := T2 ++ concat (map snd t2)) in *.
        assert (HlenT : length T = n).
        { unfold T. apply firstn_length_le.
          assert (Hne : length (skipn n r) <> O) by (rewrite <- Htext; cbn [length]; lia).
          rewrite skipn_length in Hne. lia. }
        assert (Hs' : scan b (T ++ c :: X) = (k, length T)).
        { rewrite HlenT, Htext, <- Hr. exact Hs. }
        (* the substituted text after the token is c :: Y *)
        pose proof (eq_trans (eq_sym (subst_np k2 (c :: T2) t2 ps pidx Ek2)) Eo) as Eo'.
        destruct (subst_items t2 ps pidx) as [o2|] eqn:Eo2; [|discriminate].
        cbn [option_map app] in Eo'. inversion Eo'; subst o.
        assert (HL : look2 c X (T2 ++ o2)).
        { destruct T2 as [|c2 T3]; [|right; unfold X; reflexivity].
          (* a one-byte token c: compare what follows it *)
          cbn [app] in *. unfold X.
          destruct t2 as [|[k3 txt3] t3]; [cbn in Eo2; inversion Eo2; right; reflexivity|].
          destruct (is_param k3) eqn:Ek3.
          - left. cbn [isolated] in Hiso. rewrite Ek2 in Hiso. cbn [isolated] in Hiso.
            rewrite Ek3 in Hiso. apply andb_true_iff in Hiso. destruct Hiso as [Hiso _].
            apply andb_true_iff in Hiso. destruct Hiso as [Hprev _]. exact Hprev.
          - right.
            destruct (lexes_item2_nonempty _ _ _ _ _ Ht) as [c3 [T4 E4]]. rewrite E4 in *.
            pose proof (eq_trans (eq_sym (subst_np k3 (c3 :: T4) t3 ps pidx Ek3)) Eo2) as Eo2'.
            destruct (subst_items t3 ps pidx); [|discriminate]. cbn [option_map] in Eo2'.
            inversion Eo2'. reflexivity. }
        pose proof (scan_local_l b T c X (T2 ++ o2) k Hs' HL) as Hs2.
        pose proof (lexes_cons b (T ++ c :: T2 ++ o2) k (length T) want_t Hs2) as Hc.
        rewrite firstn_len_app, skipn_len_app in Hc. unfold txt. cbn [app]. apply Hc. exact Hl.
Qed.

End Main.

Lemma zl_eqb_refl l : zl_eqb l l = true.
Proof. unfold zl_eqb. induction l as [|x l IH]; [reflexivity|]. rewrite Z.eqb_refl. exact IH. Qed.

Lemma tk_eqb_refl k : tk_eqb k k = true.
Proof. destruct k; try reflexivity. cbn [tk_eqb]. apply Z.eqb_refl. Qed.

Lemma items_eqb_refl l : items_eqb l l = true.
Proof.
  induction l as [|[k t] l IH]; [reflexivity|].
  cbn [items_eqb]. unfold item_eqb. cbn [fst snd]. rewrite tk_eqb_refl, zl_eqb_refl, IH. reflexivity.
Qed.

(* the statement-level theorem *)
Lemma subst_keeps_tokens_l :
  forall sql ps items out,
    lex sql = Some items -> isolated true items = true -> forallb simple_val ps = true ->
    subst_items items ps O = Some out ->
    exists want, expand_items items ps O = Some want /\ lex out = Some want.
Proof.
  intros sql ps items out El Hiso Hps Hsub.
  pose proof (lexes_of_loop _ _ _ El) as Hl.
  destruct (stable_main ps Hps sql items Hl true O out Hiso Hsub) as [want [Ew Hw]].
  exists want. split; [exact Ew|apply lexes_lex; exact Hw].
Qed.

Lemma subst_stable_l :
  forall sql ps items out,
    lex sql = Some items -> isolated true items = true -> forallb simple_val ps = true ->
    subst_items items ps O = Some out -> subst_stable sql ps = true.
Proof.
  intros sql ps items out El Hiso Hps Hsub.
  destruct (subst_keeps_tokens_l sql ps items out El Hiso Hps Hsub) as [want [Ew Hw]].
  unfold subst_stable. rewrite El, Hsub, Ew, Hw. apply items_eqb_refl.
Qed.
