(* C20 model, part 4: CAST between integers, text and booleans (CompiledPredicate::eval_cast, src/sql/predicate.rs):
     CAST(x AS INTEGER|BIGINT|SMALLINT|TINYINT): Int n -> n;  Text s -> s.parse::<i64>().ok() (None shows NULL);  NULL -> NULL
     CAST(x AS TEXT|VARCHAR|CHAR)              : Int n -> n.to_string();  Text s -> s;  NULL -> NULL
     CAST(x AS BOOLEAN)                        : Int n -> (n != 0) as 0 / 1;  NULL -> NULL
   i64::to_string and i64::from_str are Rust std: their meaning is stated here ([to_string_i64], [parse_i64]).
   Definitions only. *)
From Coq Require Import ZArith List Bool.
From TV Require Import Lib.MachInt Model.Arith Model.StrFun Model.DateFun.
Import ListNotations.
Open Scope Z_scope.

(* n.to_string() *)
Definition to_string_i64 (n : Z) : list Z := if n <? 0 then 45 :: digits (- n) else digits n.

Definition is_digit (c : Z) : bool := (48 <=? c) && (c <=? 57).
Fixpoint parse_digits (s : list Z) (acc : Z) : option Z :=
  match s with
  | [] => Some acc
  | c :: t => if is_digit c then parse_digits t (acc * 10 + (c - 48)) else None
  end.
(* <i64 as FromStr>::from_str: optional '+' / '-', at least one ASCII digit, nothing else, value inside i64 *)
Definition parse_i64 (s : list Z) : option Z :=
  match s with
  | [] => None
  | c :: t =>
      if (c =? 45) || (c =? 43) then
        match t with
        | [] => None
        | _ => match parse_digits t 0 with
               | Some v => let r := if c =? 45 then - v else v in if in_i64 r then Some r else None
               | None => None
               end
        end
      else match parse_digits s 0 with
           | Some v => if in_i64 v then Some v else None
           | None => None
           end
  end.

Inductive castk := KInt | KText | KBool | KIntOfText.     (* KIntOfText: CAST(CAST(x AS TEXT) AS INTEGER) *)

Definition eval_cast (k : castk) (v : val) : out :=
  match k, v with
  | _, VNull => OVal VNull
  | KInt, VInt n => OVal (VInt n)
  | KInt, VText s => match parse_i64 s with Some n => OVal (VInt n) | None => ONone end
  | KText, VInt n => OVal (VText (to_string_i64 n))
  | KText, VText s => OVal (VText s)
  | KBool, VInt n => OVal (VInt (if n =? 0 then 0 else 1))
  | KIntOfText, VInt n => match parse_i64 (to_string_i64 n) with Some m => OVal (VInt m) | None => ONone end
  | KIntOfText, VText s => match parse_i64 s with Some n => OVal (VInt n) | None => ONone end
  | _, _ => OUnmod
  end.

(* Spec: the decimal numeral of an integer is its text; a text that is the canonical numeral of an i64 casts to it;
   any other text is not judged (NULL, an error and a partial parse all occur in SQL dialects) *)
Definition cast_exact (k : castk) (v : val) : sres :=
  match k, v with
  | _, VNull => SNull
  | KInt, VInt n | KIntOfText, VInt n => SInt n
  | KText, VInt n => SText (to_string_i64 n)
  | KText, VText s => match Utf8.decode_utf8 s with Some cs => SText cs | None => SAny end
  | KBool, VInt n => SInt (if n =? 0 then 0 else 1)
  | (KInt | KIntOfText), VText s =>
      match parse_i64 s with
      | Some n => if zlist_eqb (to_string_i64 n) s then SInt n else SAny
      | None => SAny
      end
  | _, _ => SAny
  end.
