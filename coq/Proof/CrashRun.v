(* C01 / C02 - the invariants hold at every event boundary of every well-formed workload:
   phase lemmas (marks, in-place stores, buffering, msyncs, checkpoint) and the per-operation
   lemma op_inv; Proof/CrashMain.v lifts them to whole workloads. *)
From Coq Require Import ZArith List Bool Lia.
From TV Require Import Model.Crash Proof.CrashBase Proof.CrashStep.
Import ListNotations.
Open Scope Z_scope.

Definition Inv (pw : bool) (s : st) (g : ghost) : Prop := InvK s /\ (pw = true -> InvP s g).

(* the invariant at every prefix of an event list *)
Definition Inv_all (pw : bool) (s : st) (g : ghost) (es : list ev) : Prop :=
  forall n, Inv pw (run_evs s (firstn n es)) (ghost_evs s g (firstn n es)).

(* what is claimed at EVERY crash position: the kill invariant, and for power loss that the recoverable
   pages are the ghost view - with the whole of InvP wherever the current segment is synced (it is not,
   only between the truncation of Database::checkpoint() and the sync that follows it) *)
Definition InvPos (pw : bool) (s : st) (g : ghost) : Prop :=
  InvK s /\ (pw = true -> (forall k, ~ In k (g_unl g) -> recP s k = g_view g k)
                          /\ (cur_du s = cur_fl s -> InvP s g)).
Definition Pos_all (pw : bool) (s : st) (g : ghost) (es : list ev) : Prop :=
  forall n, InvPos pw (run_evs s (firstn n es)) (ghost_evs s g (firstn n es)).

Lemma Inv_InvPos : forall pw s g, Inv pw s g -> InvPos pw s g.
Proof. intros pw s g [HK HP]. split; [exact HK |]. intros E. split; [exact (p1 s g (HP E)) | intros _; exact (HP E)]. Qed.

Lemma Inv_all_nil : forall pw s g, Inv pw s g -> Inv_all pw s g [].
Proof. intros pw s g H n. destruct n; exact H. Qed.

Lemma Inv_all_cons : forall pw s g e r,
  Inv pw s g -> Inv_all pw (apply_ev s e) (ghost_ev s g e) r -> Inv_all pw s g (e :: r).
Proof. intros pw s g e r H HA n. destruct n as [| n]; [exact H | exact (HA n)]. Qed.

Lemma Inv_step : forall pw s g e, Inv pw s g -> scK s e -> (pw = true -> scP s g e) ->
  Inv pw (apply_ev s e) (ghost_ev s g e).
Proof.
  intros pw s g e [HK HP] SK SP. split.
  - apply stepK; assumption.
  - intros E. apply stepP; auto.
Qed.

Lemma run_evs_app : forall a b s, run_evs s (a ++ b) = run_evs (run_evs s a) b.
Proof. intros. unfold run_evs. apply fold_left_app. Qed.
Lemma ghost_evs_app : forall a b s g, ghost_evs s g (a ++ b) = ghost_evs (run_evs s a) (ghost_evs s g a) b.
Proof. induction a as [| e r IH]; intros; cbn [app ghost_evs]; [reflexivity | apply IH]. Qed.

Lemma Inv_all_end : forall pw s g es, Inv_all pw s g es -> Inv pw (run_evs s es) (ghost_evs s g es).
Proof. intros pw s g es H. specialize (H (length es)). rewrite firstn_all in H. exact H. Qed.

Lemma Inv_all_app : forall pw s g a b,
  Inv_all pw s g a -> Inv_all pw (run_evs s a) (ghost_evs s g a) b -> Inv_all pw s g (a ++ b).
Proof.
  intros pw s g a b HA HB n. rewrite firstn_app, run_evs_app, ghost_evs_app.
  destruct (Nat.le_gt_cases (length a) n) as [L | L].
  - rewrite (firstn_all2 a) by exact L. exact (HB (n - length a)%nat).
  - replace (n - length a)%nat with O by lia. cbn [firstn]. exact (HA n).
Qed.

Lemma Inv_all_one : forall pw s g e, Inv pw s g -> scK s e -> (pw = true -> scP s g e) -> Inv_all pw s g [e].
Proof. intros. apply Inv_all_cons; [assumption |]. apply Inv_all_nil. apply Inv_step; assumption. Qed.

Lemma Inv_all_Pos : forall pw s g es, Inv_all pw s g es -> Pos_all pw s g es.
Proof. intros pw s g es H n. apply Inv_InvPos. exact (H n). Qed.

Lemma Pos_all_app : forall pw s g a b,
  Pos_all pw s g a -> Pos_all pw (run_evs s a) (ghost_evs s g a) b -> Pos_all pw s g (a ++ b).
Proof.
  intros pw s g a b HA HB n. rewrite firstn_app, run_evs_app, ghost_evs_app.
  destruct (Nat.le_gt_cases (length a) n) as [L | L].
  - rewrite (firstn_all2 a) by exact L. exact (HB (n - length a)%nat).
  - replace (n - length a)%nat with O by lia. cbn [firstn]. exact (HA n).
Qed.
Lemma Pos_all_cons : forall pw s g e r,
  InvPos pw s g -> Pos_all pw (apply_ev s e) (ghost_ev s g e) r -> Pos_all pw s g (e :: r).
Proof. intros pw s g e r H HA n. destruct n as [| n]; [exact H | exact (HA n)]. Qed.
Lemma Pos_all_nil : forall pw s g, InvPos pw s g -> Pos_all pw s g [].
Proof. intros pw s g H n. destruct n; exact H. Qed.

(* ------------------------------------------------------------------ fields that a list of events leaves alone *)
Lemma run_pres : forall {A} (pi : st -> A) es,
  (forall e, In e es -> forall s, pi (apply_ev s e) = pi s) -> forall s, pi (run_evs s es) = pi s.
Proof.
  intros A pi. induction es as [| e r IH]; intros H s; [reflexivity |].
  cbn [run_evs fold_left]. fold (run_evs (apply_ev s e) r). rewrite IH.
  - apply H. left. reflexivity.
  - intros e' He. apply H. right. exact He.
Qed.

Ltac pres_map :=
  apply run_pres; let e := fresh "e" in let H := fresh "H" in let x := fresh "x" in
  intros e H; apply in_map_iff in H; destruct H as [x [<- _]]; intros;
  try (destruct x); cbn [apply_ev body_ev]; try reflexivity;
  match goal with |- context [if ?c then _ else _] => destruct c; reflexivity end.

Lemma dirty_marks : forall ms s, dirty (run_evs s (map EMark ms)) = marks_into (dirty s) ms.
Proof. induction ms as [| m r IH]; intros; [reflexivity |]. cbn [map run_evs fold_left marks_into]. fold (run_evs (apply_ev s (EMark m)) (map EMark r)). rewrite IH. reflexivity. Qed.

Fixpoint dels (ks : list key) (d : list key) : list key :=
  match ks with [] => d | k :: r => dels r (del_key k d) end.
Lemma In_dels : forall ks d k, In k (dels ks d) <-> In k d /\ ~ In k ks.
Proof.
  induction ks as [| a r IH]; intros; cbn [dels].
  - cbn. tauto.
  - rewrite IH, In_del_key. cbn. intuition congruence.
Qed.
Lemma dirty_bufs : forall ks s, dirty (run_evs s (map EBuf ks)) = dels ks (dirty s).
Proof. induction ks as [| a r IH]; intros; [reflexivity |]. cbn [map run_evs fold_left dels]. fold (run_evs (apply_ev s (EBuf a)) (map EBuf r)). rewrite IH. reflexivity. Qed.
Lemma vol_bufs : forall ks s, vol (run_evs s (map EBuf ks)) = vol s.
Proof. intros. pres_map. Qed.
Lemma buf_bufs : forall ks s, buf (run_evs s (map EBuf ks)) = buf s ++ map (fun k => (k, vol s k)) ks.
Proof.
  induction ks as [| a r IH]; intros; [cbn; rewrite app_nil_r; reflexivity |].
  cbn [map run_evs fold_left]. fold (run_evs (apply_ev s (EBuf a)) (map EBuf r)). rewrite IH.
  cbn [apply_ev]. sproj. rewrite <- app_assoc. reflexivity.
Qed.
Lemma dels_self : forall d, dels d d = [].
Proof.
  intros. destruct (dels d d) as [| k r] eqn:E; [reflexivity |].
  assert (In k (dels d d)) by (rewrite E; left; reflexivity).
  apply In_dels in H. tauto.
Qed.

(* ------------------------------------------------------------------ phase: tracker marks *)
Lemma marks_phase : forall pw ms s g, Inv pw s g ->
  (pw = true -> forall k, In k ms -> mem (fst k) (dfiles s) = true) ->
  Inv_all pw s g (map EMark ms).
Proof.
  induction ms as [| m r IH]; intros s g HI HD; cbn [map]; [apply Inv_all_nil; exact HI |].
  apply Inv_all_cons; [exact HI |]. apply IH.
  - apply Inv_step; [exact HI | exact I |]. intros E. cbn. apply HD; [exact E | left; reflexivity].
  - intros E k Hk. cbn [apply_ev]. sproj. apply HD; [exact E | right; exact Hk].
Qed.

(* ------------------------------------------------------------------ phase: in-place stores (and grows) *)
Definition store_ok (s : st) (k : key) : Prop :=
  (In k (dirty s) \/ lastk (wfl s) k = None) /\ lastk (buf s) k = None.

Lemma body_phase : forall pw b s g, Inv pw s g ->
  (forall k, In k (store_keys b) -> store_ok s k) ->
  Inv_all pw s g (map body_ev b).
Proof.
  induction b as [| x r IH]; intros s g HI HS; cbn [map]; [apply Inv_all_nil; exact HI |].
  apply Inv_all_cons; [exact HI |]. apply IH.
  - apply Inv_step; [exact HI | |].
    + destruct x as [f p i | f]; cbn [body_ev scK]; [| exact I].
      apply (HS (f, p)). cbn. left. reflexivity.
    + intros _. destruct x; exact I.
  - intros k Hk. assert (Hk' : In k (store_keys (x :: r))) by (unfold store_keys; cbn [flat_map]; apply in_or_app; right; exact Hk).
    specialize (HS k Hk'). destruct x; cbn [body_ev apply_ev]; unfold store_ok, wfl in *; sproj; exact HS.
Qed.

(* ------------------------------------------------------------------ phase: frames into the BufWriter *)
Lemma bufs_phase : forall pw ks s g, Inv pw s g ->
  (pw = true -> forall k, In k ks -> mem (fst k) (dfiles s) = true) ->
  Inv_all pw s g (map EBuf ks).
Proof.
  induction ks as [| a r IH]; intros s g HI HD; cbn [map]; [apply Inv_all_nil; exact HI |].
  apply Inv_all_cons; [exact HI |]. apply IH.
  - apply Inv_step; [exact HI | exact I |]. intros E. cbn. apply HD; [exact E | left; reflexivity].
  - intros E k Hk. cbn [apply_ev]. sproj. apply HD; [exact E | right; exact Hk].
Qed.

(* ------------------------------------------------------------------ phase: msyncs at a quiet, synced point *)
Lemma msync_phase : forall pw ts s g, Inv pw s g ->
  buf s = [] -> dirty s = [] -> (pw = true -> cur_du s = cur_fl s) ->
  Inv_all pw s g (map EMsync ts).
Proof.
  induction ts as [| t r IH]; intros s g HI Hb Hd Hc; cbn [map]; [apply Inv_all_nil; exact HI |].
  apply Inv_all_cons; [exact HI |]. apply IH.
  - apply Inv_step; [exact HI | exact I |]. intros E. cbn. split; [exact Hb |]. split.
    + unfold pendf. rewrite (Hc E). apply skipn_all.
    + intros k Hk. rewrite Hd in Hk. destruct Hk.
  - cbn [apply_ev]. destruct (mem t (files s)); [sproj |]; exact Hb.
  - cbn [apply_ev]. destruct (mem t (files s)); [sproj |]; exact Hd.
  - intros E. cbn [apply_ev]. destruct (mem t (files s)); [sproj |]; exact (Hc E).
Qed.

(* ------------------------------------------------------------------ phase: checkpoint (rotate, copy + msync per table, remove) *)
Lemma In_tables_of : forall l t, In t (tables_of l) <-> In t l.
Proof.
  induction l as [| a r IH]; intros; cbn [tables_of]; [tauto |].
  rewrite In_add_z, IH. cbn. intuition.
Qed.
Lemma In_key_tables : forall ks t, In t (key_tables ks) <-> exists k, In k ks /\ fst k = t.
Proof.
  intros. unfold key_tables. rewrite In_tables_of, in_map_iff. split; intros [k [A B]]; exists k; tauto.
Qed.
Lemma In_arrange : forall ord l t, In t (arrange ord l) <-> In t l.
Proof.
  intros. unfold arrange. destruct (same_set ord l) eqn:E; [| tauto].
  unfold same_set in E. apply andb_true_iff in E. destruct E as [E _]. apply andb_true_iff in E. destruct E as [E1 E2].
  rewrite forallb_forall in E1, E2. split; intros H.
  - apply mem_In. apply E1. exact H.
  - apply mem_In. apply E2. exact H.
Qed.

Definition loop_evs (ts : list Z) : list ev := flat_map (fun t => [EApply t; EMsync t]) ts.

Lemma loop_pres : forall {A} (pi : st -> A),
  (forall s t, pi (apply_ev s (EApply t)) = pi s) -> (forall s t, pi (apply_ev s (EMsync t)) = pi s) ->
  forall ts s, pi (run_evs s (loop_evs ts)) = pi s.
Proof.
  intros A pi H1 H2 ts. apply run_pres. intros e He. unfold loop_evs in He. apply in_flat_map in He.
  destruct He as [t [_ [<- | [<- | []]]]]; intros; [apply H1 | apply H2].
Qed.
Ltac loop_field := apply loop_pres; intros; cbn [apply_ev]; try reflexivity;
  match goal with |- context [if ?c then _ else _] => destruct c; reflexivity end.

Lemma ckpt_loop : forall pw ts s g dn,
  Inv pw s g -> cur_fl s = [] -> buf s = [] -> dirty s = [] -> (pw = true -> cur_du s = []) ->
  (forall t, In t ts -> mem t (files s) = true) ->
  (pw = true -> forall k, In (fst k) dn -> dfl s k = g_view g k) ->
  Inv_all pw s g (loop_evs ts) /\
  (pw = true -> forall k, In (fst k) (dn ++ ts) ->
     dfl (run_evs s (loop_evs ts)) k = g_view (ghost_evs s g (loop_evs ts)) k).
Proof.
  induction ts as [| t r IH]; intros s g dn HI Hc Hb Hd Hu Hf Hdn.
  - cbn [loop_evs flat_map]. split; [apply Inv_all_nil; exact HI |]. rewrite app_nil_r. exact Hdn.
  - unfold loop_evs. cbn [flat_map app]. fold (loop_evs r).
    assert (S1 : Inv pw (apply_ev s (EApply t)) (ghost_ev s g (EApply t))).
    { apply Inv_step; [exact HI | cbn; auto | intros; exact I]. }
    set (s1 := apply_ev s (EApply t)) in *. cbn [ghost_ev] in S1.
    assert (F1 : mem t (files s1) = true) by (apply Hf; left; reflexivity).
    assert (S2 : Inv pw (apply_ev s1 (EMsync t)) (ghost_ev s1 g (EMsync t))).
    { apply Inv_step; [exact S1 | exact I |]. intros E. cbn. subst s1. cbn [apply_ev]. sproj. split; [exact Hb |]. split.
      - unfold pendf. sproj. rewrite Hc. apply skipn_nil.
      - intros k Hk. rewrite Hd in Hk. destruct Hk. }
    set (s2 := apply_ev s1 (EMsync t)) in *. set (g2 := ghost_ev s1 g (EMsync t)) in *.
    destruct (IH s2 g2 (dn ++ [t])) as [IA ID].
    + exact S2.
    + subst s2 s1. cbn [apply_ev]. cbn [apply_ev] in F1. sproj. rewrite F1. sproj. exact Hc.
    + subst s2 s1. cbn [apply_ev]. cbn [apply_ev] in F1. sproj. rewrite F1. sproj. exact Hb.
    + subst s2 s1. cbn [apply_ev]. cbn [apply_ev] in F1. sproj. rewrite F1. sproj. exact Hd.
    + intros E. subst s2 s1. cbn [apply_ev]. cbn [apply_ev] in F1. sproj. rewrite F1. sproj. exact (Hu E).
    + intros t' Ht'. subst s2 s1. cbn [apply_ev]. cbn [apply_ev] in F1. sproj. rewrite F1. sproj. apply Hf. right. exact Ht'.
    + intros E k Hk. subst g2 s2. cbn [ghost_ev apply_ev]. rewrite F1. unfold dfl. sproj. rewrite mem_add_z.
      destruct (fst k =? t) eqn:Et; [cbn [orb]; reflexivity |].
      cbn [orb]. apply in_app_iff in Hk. destruct Hk as [Hk | [Hk | []]].
      * specialize (Hdn E k Hk). unfold dfl in Hdn. subst s1. cbn [apply_ev]. sproj. exact Hdn.
      * apply Z.eqb_neq in Et. congruence.
    + split.
      * apply Inv_all_cons; [exact HI |]. apply Inv_all_cons; [exact S1 |]. exact IA.
      * intros E k Hk. apply (ID E). rewrite <- app_assoc. exact Hk.
Qed.

Lemma frame_tables_in : forall fl fr k, In k (map fst fr) -> mem (fst k) fl = true -> In (fst k) (frame_tables fl fr).
Proof.
  intros. unfold frame_tables. apply filter_In. split; [| exact H0].
  apply In_key_tables. exists k. split; [exact H | reflexivity].
Qed.
Lemma frame_tables_files : forall fl fr t, In t (frame_tables fl fr) -> mem t fl = true.
Proof. intros. unfold frame_tables in H. apply filter_In in H. tauto. Qed.

Lemma ckpt_phase : forall pw s g ord,
  Inv pw s g -> buf s = [] -> dirty s = [] -> closed_fl s = [] -> closed_du s = [] ->
  (pw = true -> cur_du s = cur_fl s) ->
  Inv_all pw s g (ckpt_evs s ord).
Proof.
  intros pw s g ord HI Hb Hd Hcf Hcd Hc. unfold ckpt_evs.
  rewrite Hcf, Hb, app_nil_r. cbn [app].
  set (ts := arrange ord (frame_tables (files s) (cur_fl s))).
  fold (loop_evs ts).
  assert (S1 : Inv pw (apply_ev s ERotate) (ghost_ev s g ERotate)).
  { apply Inv_step; [exact HI | exact I |]. intros E. cbn. split; [exact Hb |]. unfold pendf. rewrite (Hc E). apply skipn_all. }
  set (s1 := apply_ev s ERotate) in *. cbn [ghost_ev] in S1.
  apply Inv_all_cons; [exact HI |].
  destruct (ckpt_loop pw ts s1 g []) as [IA ID].
  - exact S1.
  - reflexivity.
  - reflexivity.
  - exact Hd.
  - reflexivity.
  - intros t Ht. subst s1. cbn [apply_ev]. sproj. apply In_arrange in Ht. apply frame_tables_files in Ht. exact Ht.
  - intros _ k [].
  - apply Inv_all_app; [exact IA |]. apply Inv_all_one.
    + apply Inv_all_end. exact IA.
    + exact I.
    + intros E. cbn. split.
      * rewrite (loop_pres cur_fl) by (intros; cbn [apply_ev]; try reflexivity; match goal with |- context [if ?c then _ else _] => destruct c; reflexivity end). reflexivity.
      * intros k _ Hk.
        rewrite (loop_pres closed_du) in Hk by (intros; cbn [apply_ev]; try reflexivity; match goal with |- context [if ?c then _ else _] => destruct c; reflexivity end).
        subst s1. cbn [apply_ev] in Hk. sproj. rewrite Hcd in Hk. cbn [app] in Hk.
        apply (ID E). cbn [app]. apply In_arrange.
        destruct HI as [_ HP]. specialize (HP E).
        assert (Kin : In k (map fst (cur_du s))).
        { destruct (lastk (cur_du s) k) eqn:L; [| congruence]. eapply lastk_some_in. exact L. }
        rewrite (Hc E) in Kin.
        apply frame_tables_in; [exact Kin |].
        apply (p6 s g HP). apply (p5 s g HP). right. unfold wfl. apply in_map_fst_app. left. apply in_map_fst_app. right. exact Kin.
Qed.

Lemma ckpt_fields : forall s ord, buf s = [] -> closed_fl s = [] ->
  let s' := run_evs s (ckpt_evs s ord) in
  buf s' = [] /\ dirty s' = dirty s /\ closed_fl s' = [] /\ closed_du s' = [] /\ cur_fl s' = [] /\ cur_du s' = []
  /\ in_txn s' = in_txn s /\ tabs s' = tabs s /\ cat_v s' = cat_v s /\ cat_d s' = cat_d s /\ ever_dirty s' = ever_dirty s.
Proof.
  intros s ord Hb Hcf. unfold ckpt_evs. cbn zeta.
  set (ts := arrange ord _). fold (loop_evs ts).
  change (ERotate :: loop_evs ts ++ [ERemove]) with ([ERotate] ++ loop_evs ts ++ [ERemove]).
  rewrite !run_evs_app. cbn [run_evs fold_left].
  repeat split; cbn [apply_ev]; sproj; try reflexivity.
  all: try (match goal with |- ?pi (run_evs _ (loop_evs _)) = _ =>
         rewrite (loop_pres pi) by (intros; cbn [apply_ev]; try reflexivity; match goal with |- context [if ?c then _ else _] => destruct c; reflexivity end) end;
       cbn [apply_ev]; sproj; reflexivity).
Qed.

(* ------------------------------------------------------------------ phase: write_frames_batch of the whole tracker + sync *)
Lemma flush_phase : forall pw s g, Inv pw s g -> buf s = [] ->
  Inv_all pw s g (flush_evs (dirty s)).
Proof.
  intros pw s g HI Hb. unfold flush_evs. destruct (dirty s) as [| d0 dr] eqn:ED; [apply Inv_all_nil; exact HI |].
  rewrite <- ED. clear ED d0 dr.
  assert (A : Inv_all pw s g (map EBuf (dirty s))).
  { apply bufs_phase; [exact HI |]. intros E k Hk. destruct HI as [_ HP]. apply (p5 s g (HP E)). left. exact Hk. }
  apply Inv_all_app; [exact A |].
  set (s1 := run_evs s (map EBuf (dirty s))). set (g1 := ghost_evs s g (map EBuf (dirty s))).
  assert (I1 : Inv pw s1 g1) by (apply Inv_all_end; exact A).
  assert (D1 : dirty s1 = []) by (subst s1; rewrite dirty_bufs; apply dels_self).
  assert (I2 : Inv pw (apply_ev s1 EFlush) (ghost_ev s1 g1 EFlush)) by (apply Inv_step; [exact I1 | exact I | intros; exact I]).
  apply Inv_all_cons; [exact I1 |]. apply Inv_all_one; [exact I2 | exact I |].
  intros _. cbn. split; [exact D1 | reflexivity].
Qed.

Lemma flush_fields : forall s, buf s = [] ->
  let s' := run_evs s (flush_evs (dirty s)) in
  buf s' = [] /\ dirty s' = [] /\ closed_fl s' = closed_fl s /\ closed_du s' = closed_du s
  /\ (dirty s <> [] -> cur_du s' = cur_fl s') /\ (dirty s = [] -> cur_du s' = cur_du s /\ cur_fl s' = cur_fl s)
  /\ cur_fl s' = cur_fl s ++ match dirty s with [] => [] | _ => map (fun k => (k, vol s k)) (dirty s) end
  /\ in_txn s' = in_txn s /\ vol s' = vol s /\ files s' = files s /\ dfiles s' = dfiles s
  /\ tabs s' = tabs s /\ cat_v s' = cat_v s /\ cat_d s' = cat_d s /\ dur s' = dur s.
Proof.
  intros s Hb. unfold flush_evs. destruct (dirty s) as [| d0 dr] eqn:ED.
  - cbn. rewrite app_nil_r. repeat split; try assumption; try reflexivity. intros H; congruence.
  - rewrite <- ED. cbn zeta. rewrite run_evs_app. cbn [run_evs fold_left apply_ev]. sproj.
    rewrite buf_bufs, dirty_bufs, dels_self, Hb. cbn [app].
    rewrite !(run_pres closed_fl), !(run_pres closed_du), !(run_pres cur_fl), !(run_pres in_txn), vol_bufs,
            !(run_pres files), !(run_pres dfiles), !(run_pres tabs), !(run_pres cat_v), !(run_pres cat_d), !(run_pres dur);
      try (intros e He; apply in_map_iff in He; destruct He as [x [<- _]]; intros; reflexivity).
    repeat split; try reflexivity; try (intros H; congruence).
    all: try congruence.
Qed.

(* ------------------------------------------------------------------ shape of the state between operations *)
Definition Shape (pw : bool) (s : st) : Prop :=
  buf s = [] /\ closed_fl s = [] /\ closed_du s = [] /\ (in_txn s = false -> dirty s = [])
  /\ (pw = true -> cur_du s = cur_fl s).

Lemma no_frame_lastk : forall s k, kmem k (frame_keys s) = false -> lastk (wfl s) k = None.
Proof.
  intros s k H. apply lastk_none_iff. apply kmem_false in H. intros A. apply H.
  unfold frame_keys, wfl in *. rewrite !map_app in *. rewrite !in_app_iff in *. tauto.
Qed.

Lemma filter_all : forall {A} (p : A -> bool) l, forallb p l = true -> filter p l = l.
Proof.
  induction l as [| a r IH]; intros H; [reflexivity |]. cbn in *. apply andb_true_iff in H. destruct H as [H1 H2].
  rewrite H1, IH; auto.
Qed.
Lemma forallb_marks_into : forall (p : key -> bool) ms d, forallb p d = true -> forallb p ms = true -> forallb p (marks_into d ms) = true.
Proof.
  intros. apply forallb_forall. intros k Hk. apply In_marks_into in Hk. rewrite forallb_forall in H, H0. destruct Hk; auto.
Qed.

(* ------------------------------------------------------------------ per operation *)
Ltac pres_any := try (intros e He; apply in_map_iff in He; destruct He as [x [<- _]]; intros; try (destruct x); cbn [apply_ev body_ev]; try reflexivity;
                      match goal with |- context [if ?c then _ else _] => destruct c; reflexivity end).

Lemma op_dml : forall pw s g t marks body post,
  Inv pw s g -> Shape pw s -> wf_op s (ODml t marks body post) = true ->
  Inv_all pw s g (events s (ODml t marks body post)) /\ Shape pw (step s (ODml t marks body post)).
Proof.
  intros pw s g t marks body post HI [Hb [Hcf [Hcd [Htx Hsy]]]] WF.
  cbn [wf_op] in WF. repeat (apply andb_true_iff in WF; destruct WF as [WF ?]).
  rename WF into Wt, H2 into Wm, H1 into Wb, H0 into Wp, H into Wx.
  rewrite forallb_forall in Wb, Wp.
  set (D := marks_into (dirty s) marks).
  (* phase A: marks *)
  set (A := map EMark marks).
  assert (IA : Inv_all pw s g A).
  { apply marks_phase; [exact HI |]. intros _ k Hk. rewrite forallb_forall in Wm. specialize (Wm k Hk). apply Z.eqb_eq in Wm. rewrite Wm. exact Wt. }
  set (s1 := run_evs s A). set (g1 := ghost_evs s g A).
  assert (I1 : Inv pw s1 g1) by (apply Inv_all_end; exact IA).
  assert (D1 : dirty s1 = D) by (subst s1 A; apply dirty_marks).
  assert (B1 : buf s1 = []) by (subst s1 A; rewrite (run_pres buf); [exact Hb | pres_any]).
  assert (CF1 : closed_fl s1 = closed_fl s) by (subst s1 A; apply run_pres; pres_any).
  assert (CU1 : cur_fl s1 = cur_fl s) by (subst s1 A; apply run_pres; pres_any).
  (* phase B: in-place stores *)
  set (B := map body_ev body).
  assert (IB : Inv_all pw s1 g1 B).
  { apply body_phase; [exact I1 |]. intros k Hk. specialize (Wb k Hk). unfold store_ok. rewrite B1. split; [| reflexivity].
    rewrite D1. unfold wfl. rewrite CF1, CU1. fold (wfl s).
    apply orb_true_iff in Wb. destruct Wb as [Wb | Wb].
    - left. apply In_marks_into. apply orb_true_iff in Wb. destruct Wb as [Wb | Wb]; apply kmem_In in Wb; auto.
    - right. unfold untracked_ok in Wb. apply andb_true_iff in Wb. destruct Wb as [Wb _]. apply negb_true_iff in Wb. apply no_frame_lastk. exact Wb. }
  set (s2 := run_evs s1 B). set (g2 := ghost_evs s1 g1 B).
  assert (I2 : Inv pw s2 g2) by (apply Inv_all_end; exact IB).
  assert (D2 : dirty s2 = D) by (subst s2 B; rewrite (run_pres dirty); [exact D1 | pres_any]).
  assert (B2 : buf s2 = []) by (subst s2 B; rewrite (run_pres buf); [exact B1 | pres_any]).
  assert (CF2 : closed_fl s2 = closed_fl s) by (subst s2 B; rewrite (run_pres closed_fl); [exact CF1 | pres_any]).
  assert (CU2 : cur_fl s2 = cur_fl s) by (subst s2 B; rewrite (run_pres cur_fl); [exact CU1 | pres_any]).
  assert (CD2 : cur_du s2 = cur_du s) by (subst s2 B s1 A; rewrite !(run_pres cur_du); [reflexivity | pres_any | pres_any]).
  assert (CC2 : closed_du s2 = closed_du s) by (subst s2 B s1 A; rewrite !(run_pres closed_du); [reflexivity | pres_any | pres_any]).
  assert (TX2 : in_txn s2 = in_txn s) by (subst s2 B s1 A; rewrite !(run_pres in_txn); [reflexivity | pres_any | pres_any]).
  (* phase F: flush unless inside a transaction *)
  set (F := if in_txn s then [] else flush_evs (filter (fun k => fst k =? t) D)).
  assert (FE : in_txn s = false -> F = flush_evs (dirty s2)).
  { intros E. subst F. rewrite E, D2. f_equal. apply filter_all. subst D. apply forallb_marks_into; [| exact Wm].
    rewrite (Htx E). reflexivity. }
  assert (IF : Inv_all pw s2 g2 F).
  { destruct (in_txn s) eqn:E; [subst F; apply Inv_all_nil; exact I2 |]. rewrite (FE eq_refl). apply flush_phase; assumption. }
  set (s3 := run_evs s2 F). set (g3 := ghost_evs s2 g2 F).
  assert (I3 : Inv pw s3 g3) by (apply Inv_all_end; exact IF).
  assert (F3 : buf s3 = [] /\ closed_fl s3 = closed_fl s /\ closed_du s3 = closed_du s /\ in_txn s3 = in_txn s
               /\ (in_txn s = false -> dirty s3 = []) /\ (pw = true -> cur_du s3 = cur_fl s3)
               /\ (forall k, ~ In k (map fst (wfl s)) -> ~ In k D -> lastk (wfl s3) k = None)).
  { destruct (in_txn s) eqn:E.
    - subst s3 F. cbn [run_evs fold_left]. repeat split; try assumption; try congruence.
      + intros P. rewrite CD2, CU2. exact (Hsy P).
      + intros k H1 _. apply lastk_none_iff. unfold wfl. rewrite CF2, CU2. exact H1.
    - subst s3. rewrite (FE eq_refl). destruct (flush_fields s2 B2) as [Q1 [Q2 [Q3 [Q4 [Q5 [Q6 [Q7 [Q8 _]]]]]]]].
      repeat split; try congruence.
      + intros P. destruct (dirty s2) eqn:ED; [destruct (Q6 eq_refl) as [X Y]; rewrite X, Y, CD2, CU2; exact (Hsy P) | apply Q5; congruence].
      + intros k H1 H2. apply lastk_none_iff. unfold wfl. rewrite Q3, CF2, Q7, CU2. rewrite app_assoc.
        rewrite in_map_fst_app. intros [X | X]; [exact (H1 X) |].
        rewrite D2 in X. destruct D; [destruct X |]. rewrite map_map in X. cbn [fst] in X. rewrite map_id in X. exact (H2 X). }
  destruct F3 as [B3 [CF3 [CC3 [TX3 [DT3 [SY3 NF3]]]]]].
  (* phase P: stores after the flush *)
  set (P := map body_ev post).
  assert (IP : Inv_all pw s3 g3 P).
  { apply body_phase; [exact I3 |]. intros k Hk. specialize (Wp k Hk). apply andb_true_iff in Wp. destruct Wp as [Wp1 Wp2].
    unfold untracked_ok in Wp2. apply andb_true_iff in Wp2. destruct Wp2 as [Wp2 Wp3].
    apply negb_true_iff in Wp1, Wp2, Wp3. unfold store_ok. rewrite B3. split; [| reflexivity]. right. apply NF3.
    - apply lastk_none_iff. apply no_frame_lastk. exact Wp2.
    - subst D. rewrite In_marks_into. apply kmem_false in Wp1, Wp3. tauto. }
  set (s4 := run_evs s3 P). set (g4 := ghost_evs s3 g3 P).
  assert (I4 : Inv pw s4 g4) by (apply Inv_all_end; exact IP).
  assert (EV : events s (ODml t marks body post) = A ++ B ++ F ++ P ++ [EAck]) by reflexivity.
  split.
  - rewrite EV. apply Inv_all_app; [exact IA |]. apply Inv_all_app; [exact IB |]. apply Inv_all_app; [exact IF |].
    apply Inv_all_app; [exact IP |]. apply Inv_all_one; [exact I4 | exact I | intros; exact I].
  - unfold step. rewrite EV, !run_evs_app. fold s1 s2 s3 s4. cbn [run_evs fold_left apply_ev].
    unfold Shape. subst s4 P.
    rewrite !(run_pres buf), !(run_pres closed_fl), !(run_pres closed_du), !(run_pres in_txn), !(run_pres dirty), !(run_pres cur_du), !(run_pres cur_fl); pres_any.
    repeat split; try congruence; try exact SY3.
    intros E. apply DT3. congruence.
Qed.

Lemma op_begin : forall pw s g, Inv pw s g -> Shape pw s ->
  Inv_all pw s g (events s OBegin) /\ Shape pw (step s OBegin).
Proof.
  intros pw s g HI [Hb [Hcf [Hcd [Htx Hsy]]]]. cbn [events]. split.
  - apply Inv_all_cons; [exact HI |]. apply Inv_all_one; [apply Inv_step; [exact HI | exact I | intros; exact I] | exact I | intros; exact I].
  - unfold step, Shape. cbn [events run_evs fold_left apply_ev]. sproj. repeat split; try assumption. discriminate.
Qed.

Lemma op_commit : forall pw s g ord, Inv pw s g -> Shape pw s ->
  Inv_all pw s g (events s (OCommit ord)) /\ Shape pw (step s (OCommit ord)).
Proof.
  intros pw s g ord HI [Hb [Hcf [Hcd [Htx Hsy]]]]. cbn [events].
  set (F := flush_evs (dirty s)).
  set (M := match dirty s with [] => [] | _ => map EMsync (arrange ord (key_tables (dirty s))) end).
  assert (IF : Inv_all pw s g F) by (apply flush_phase; assumption).
  set (s1 := run_evs s F). set (g1 := ghost_evs s g F).
  assert (I1 : Inv pw s1 g1) by (apply Inv_all_end; exact IF).
  destruct (flush_fields s Hb) as [Q1 [Q2 [Q3 [Q4 [Q5 [Q6 [Q7 [Q8 _]]]]]]]]. fold F s1 in Q1, Q2, Q3, Q4, Q5, Q6, Q7, Q8.
  assert (SY1 : pw = true -> cur_du s1 = cur_fl s1).
  { intros P. destruct (dirty s) eqn:ED; [destruct (Q6 eq_refl) as [X Y]; rewrite X, Y; exact (Hsy P) | apply Q5; congruence]. }
  assert (IM : Inv_all pw s1 g1 M).
  { subst M. destruct (dirty s); [apply Inv_all_nil; exact I1 |]. apply msync_phase; assumption. }
  set (s2 := run_evs s1 M). set (g2 := ghost_evs s1 g1 M).
  assert (I2 : Inv pw s2 g2) by (apply Inv_all_end; exact IM).
  assert (PM : forall {A} (pi : st -> A), (forall s t, pi (apply_ev s (EMsync t)) = pi s) -> pi s2 = pi s1).
  { intros A pi H. subst s2 M. destruct (dirty s); [reflexivity |]. apply run_pres. intros e He. apply in_map_iff in He. destruct He as [x [<- _]]. intros. apply H. }
  assert (MS : forall {A} (pi : st -> A) s t, (forall s f, mem f (files s) = true -> pi (set_dur s (fun k => if fst k =? f then vol s k else dur s k) (add_z f (dfiles s))) = pi s) -> pi (apply_ev s (EMsync t)) = pi s).
  { intros A pi s0 t0 H. cbn [apply_ev]. destruct (mem t0 (files s0)) eqn:E; [apply H; exact E | reflexivity]. }
  split.
  - apply Inv_all_app; [exact IF |]. apply Inv_all_app; [exact IM |].
    apply Inv_all_cons; [exact I2 |]. apply Inv_all_one; [apply Inv_step; [exact I2 | exact I | intros; exact I] | exact I | intros; exact I].
  - unfold step. cbn [events]. fold F M. rewrite !run_evs_app. fold s1 s2. cbn [run_evs fold_left apply_ev]. unfold Shape. sproj.
    rewrite (PM _ buf), (PM _ closed_fl), (PM _ closed_du), (PM _ dirty), (PM _ cur_du), (PM _ cur_fl);
      try (intros; apply MS; intros; reflexivity).
    repeat split; try congruence. exact SY1.
Qed.

Lemma op_ckpt : forall pw s g ord, Inv pw s g -> Shape pw s -> wf_op s (OCkpt ord) = true ->
  Inv_all pw s g (events s (OCkpt ord)) /\ Shape pw (step s (OCkpt ord)).
Proof.
  intros pw s g ord HI [Hb [Hcf [Hcd [Htx Hsy]]]] WF. cbn [wf_op] in WF. apply andb_true_iff in WF. destruct WF as [W1 W2].
  apply negb_true_iff in W1. assert (Hd : dirty s = []) by (destruct (dirty s); [reflexivity | discriminate]).
  cbn [events].
  assert (IC : Inv_all pw s g (ckpt_evs s ord)) by (apply ckpt_phase; assumption).
  destruct (ckpt_fields s ord Hb Hcf) as [Q1 [Q2 [Q3 [Q4 [Q5 [Q6 [Q7 _]]]]]]].
  split.
  - apply Inv_all_app; [exact IC |]. apply Inv_all_one; [apply Inv_all_end; exact IC | exact I | intros; exact I].
  - unfold step. cbn [events]. rewrite run_evs_app. cbn [run_evs fold_left apply_ev]. unfold Shape.
    repeat split; try assumption; try congruence.
Qed.

Lemma Inv_all_step : forall pw s g e r,
  Inv pw s g -> scK s e -> (pw = true -> scP s g e) ->
  (Inv pw (apply_ev s e) (ghost_ev s g e) -> Inv_all pw (apply_ev s e) (ghost_ev s g e) r) ->
  Inv_all pw s g (e :: r).
Proof. intros. apply Inv_all_cons; [assumption |]. apply H2. apply Inv_step; assumption. Qed.

(* after msyncing the files of ts: their pages are durable and in the view *)
Lemma msync_done : forall ts s g k,
  (In (fst k) ts \/ (dfl s k = vol s k /\ g_view g k = vol s k)) -> mem (fst k) (files s) = true ->
  dfl (run_evs s (map EMsync ts)) k = vol s k /\ g_view (ghost_evs s g (map EMsync ts)) k = vol s k.
Proof.
  induction ts as [| t r IH]; intros s g k H F; cbn [map run_evs fold_left ghost_evs].
  - destruct H as [[] | H]. exact H.
  - fold (run_evs (apply_ev s (EMsync t)) (map EMsync r)).
    assert (V : vol (apply_ev s (EMsync t)) = vol s) by (cbn [apply_ev]; destruct (mem t (files s)); reflexivity).
    assert (FL : files (apply_ev s (EMsync t)) = files s) by (cbn [apply_ev]; destruct (mem t (files s)); reflexivity).
    rewrite <- V. apply IH; [| rewrite FL; exact F].
    destruct (Z.eq_dec (fst k) t) as [E | E].
    + right. subst t. cbn [apply_ev ghost_ev]. rewrite F. unfold dfl. sproj. rewrite mem_add_z, Z.eqb_refl. cbn [orb]. split; reflexivity.
    + destruct H as [[H | H] | H]; [congruence | left; exact H |].
      right. cbn [apply_ev ghost_ev]. destruct (mem t (files s)); [| exact H].
      unfold dfl in *. sproj. rewrite mem_add_z. apply Z.eqb_neq in E. rewrite E. cbn [orb]. exact H.
Qed.

Lemma op_api : forall pw s g ord, Inv pw s g -> Shape pw s -> wf_op s (OApiCkpt ord) = true ->
  Pos_all pw s g (events s (OApiCkpt ord))
  /\ Inv pw (step s (OApiCkpt ord)) (ghost_evs s g (events s (OApiCkpt ord)))
  /\ Shape pw (step s (OApiCkpt ord)).
Proof.
  intros pw s g ord HI [Hb [Hcf [Hcd [Htx Hsy]]]] WF. cbn [wf_op] in WF.
  apply andb_true_iff in WF. destruct WF as [WF W3]. apply andb_true_iff in WF. destruct WF as [W1 W2].
  assert (Hd : dirty s = []) by (destruct (dirty s); [reflexivity | discriminate]).
  unfold step. cbn [events]. rewrite Hd, Hb. cbn [key_tables map tables_of flat_map app]. rewrite app_nil_r.
  assert (TRIV : Pos_all pw s g [EAck] /\ Inv pw (run_evs s [EAck]) (ghost_evs s g [EAck]) /\ Shape pw (run_evs s [EAck])).
  { split; [apply Inv_all_Pos; apply Inv_all_one; [exact HI | exact I | intros; exact I] |].
    split; [cbn; exact HI | cbn; unfold Shape; repeat split; assumption]. }
  destruct (ever_dirty s); [| exact TRIV].
  destruct (cur_fl s) as [| f0 fr] eqn:EC; cbn [app]; [exact TRIV |]. clear TRIV.
  set (M := map EMsync ord).
  assert (IM : Inv_all pw s g M) by (apply msync_phase; [exact HI | exact Hb | exact Hd | intros E; rewrite EC; exact (Hsy E)]).
  set (s1 := run_evs s M). set (g1 := ghost_evs s g M).
  assert (I1 : Inv pw s1 g1) by (apply Inv_all_end; exact IM).
  assert (PM : forall {A} (pi : st -> A), (forall s t, pi (apply_ev s (EMsync t)) = pi s) -> pi s1 = pi s).
  { intros A pi H. subst s1 M. apply run_pres. intros e He. apply in_map_iff in He. destruct He as [x [<- _]]. intros. apply H. }
  assert (MS : forall {A} (pi : st -> A) s t, (forall s f, pi (set_dur s (fun k => if fst k =? f then vol s k else dur s k) (add_z f (dfiles s))) = pi s) -> pi (apply_ev s (EMsync t)) = pi s).
  { intros A pi s0 t0 H. cbn [apply_ev]. destruct (mem t0 (files s0)) eqn:E; [apply H | reflexivity]. }
  assert (B1 : buf s1 = []) by (rewrite (PM _ buf); [exact Hb | intros; apply MS; intros; reflexivity]).
  assert (D1 : dirty s1 = []) by (rewrite (PM _ dirty); [exact Hd | intros; apply MS; intros; reflexivity]).
  assert (CF1 : cur_fl s1 = f0 :: fr) by (rewrite (PM _ cur_fl); [exact EC | intros; apply MS; intros; reflexivity]).
  assert (CD1 : cur_du s1 = cur_du s) by (apply PM; intros; apply MS; intros; reflexivity).
  assert (CL1 : closed_fl s1 = []) by (rewrite (PM _ closed_fl); [exact Hcf | intros; apply MS; intros; reflexivity]).
  assert (CM1 : closed_du s1 = []) by (rewrite (PM _ closed_du); [exact Hcd | intros; apply MS; intros; reflexivity]).
  assert (TX1 : in_txn s1 = in_txn s) by (apply PM; intros; apply MS; intros; reflexivity).
  assert (V1 : vol s1 = vol s) by (apply PM; intros; apply MS; intros; reflexivity).
  assert (FL1 : files s1 = files s) by (apply PM; intros; apply MS; intros; reflexivity).
  destruct I1 as [K1 P1].
  (* the four states of the tail *)
  set (s2 := apply_ev s1 ETrunc). set (s3 := apply_ev s2 EFlush). set (s4 := apply_ev s3 ESync).
  assert (K2 : InvK s2) by (apply stepK; [exact K1 | exact I]).
  assert (K3 : InvK s3) by (apply stepK; [exact K2 | exact I]).
  assert (K4 : InvK s4) by (apply stepK; [exact K3 | exact I]).
  assert (R2 : forall k, recP s2 k = recP s1 k).
  { intros k. rewrite !recP_unfold. subst s2. cbn [apply_ev]. sproj. rewrite CM1. reflexivity. }
  assert (R3 : forall k, recP s3 k = recP s1 k).
  { intros k. rewrite <- R2, !recP_unfold. subst s3 s2. cbn [apply_ev]. sproj. reflexivity. }
  set (g4 := ghost_ev s3 g1 ESync).
  assert (POS2 : InvPos pw s2 g1).
  { split; [exact K2 |]. intros E. split.
    - intros k Hk. rewrite R2. exact (p1 _ _ (P1 E) k Hk).
    - intros C. exfalso. subst s2. cbn [apply_ev] in C. sproj. rewrite CD1, (Hsy E) in C. discriminate. }
  assert (POS3 : InvPos pw s3 g1).
  { split; [exact K3 |]. intros E. split.
    - intros k Hk. rewrite R3. exact (p1 _ _ (P1 E) k Hk).
    - intros C. exfalso. subst s3 s2. cbn [apply_ev] in C. sproj. cbn [app] in C. rewrite CD1, (Hsy E) in C. discriminate. }
  assert (I4 : Inv pw s4 g4).
  { split; [exact K4 |]. intros E. specialize (P1 E). specialize (Hsy E).
    assert (DF : forall k, ~ In k (g_unl g1) -> dfl s1 k = vol s1 k).
    { intros k Hk.
      assert (VW : g_view g1 k = vol s1 k).
      { apply (p2 _ _ P1 k Hk).
        - rewrite D1. intros [].
        - unfold pendf. rewrite CD1, Hsy, CF1. rewrite skipn_all. reflexivity.
        - rewrite B1. reflexivity. }
      pose proof (p1 _ _ P1 k Hk) as R. rewrite recP_unfold in R. unfold dfl.
      destruct (mem (fst k) (dfiles s1)) eqn:MD; [| rewrite <- VW; exact R].
      rewrite CM1 in R. cbn [app] in R. destruct (lastk (cur_du s1) k) eqn:L; [| rewrite <- VW; exact R].
      (* the page has a frame: its table is open, hence msynced *)
      assert (Kin : In k (map fst (f0 :: fr))) by (rewrite <- Hsy, <- CD1; eapply lastk_some_in; exact L).
      assert (MF : mem (fst k) (files s) = true).
      { destruct HI as [_ HP]. specialize (HP E). apply (p6 _ _ HP). apply (p5 _ _ HP). right.
        unfold wfl. rewrite Hcf, EC. apply in_map_fst_app. left. apply in_map_fst_app. right. exact Kin. }
      assert (IO : In (fst k) ord).
      { rewrite forallb_forall in W3. apply mem_In. apply W3. apply frame_tables_in; assumption. }
      destruct (msync_done ord s g k (or_introl IO) MF) as [X _]. fold M s1 in X. unfold dfl in X. rewrite MD in X.
      rewrite X, V1. reflexivity. }
    subst g4. constructor.
    - subst s4 s3 s2. cbn [apply_ev]. sproj. reflexivity.
    - subst s4 s3 s2. cbn [apply_ev]. unfold pendf. sproj. reflexivity.
    - intros k Hk. cbn [ghost_ev g_view g_unl] in *. rewrite recP_unfold. subst s4 s3 s2. cbn [apply_ev]. sproj. cbn [app lastk].
      specialize (DF k Hk). unfold dfl in DF. exact DF.
    - intros k _ _ _ _. subst s4 s3 s2. cbn [ghost_ev g_view apply_ev]. sproj. reflexivity.
    - intros k [H | H]; subst s4 s3 s2; cbn [apply_ev] in H; unfold wfl in H; sproj; cbn [app map] in H; [rewrite D1 in H |]; destruct H.
    - intros f Hf. subst s4 s3 s2. cbn [apply_ev] in *. sproj. apply (p6 _ _ P1). exact Hf. }
  split; [| split].
  - rewrite <- app_assoc. apply Pos_all_app; [apply Inv_all_Pos; exact IM |]. fold s1 g1. cbn [app].
    apply Pos_all_cons; [apply Inv_InvPos; split; assumption |].
    apply Pos_all_cons; [exact POS2 |].
    apply Pos_all_cons; [exact POS3 |].
    apply Pos_all_cons; [apply Inv_InvPos; exact I4 |].
    apply Pos_all_nil. apply Inv_InvPos. exact I4.
  - rewrite <- app_assoc, run_evs_app, ghost_evs_app. fold M s1 g1. cbn [app run_evs fold_left ghost_evs]. exact I4.
  - rewrite <- app_assoc, run_evs_app. fold M s1. cbn [app run_evs fold_left apply_ev].
    unfold Shape. sproj. repeat split; try reflexivity. rewrite TX1, D1. intros _. reflexivity.
Qed.

Lemma op_reopen : forall pw s g ord1 ord2, Inv pw s g -> Shape pw s -> wf_op s (OReopen ord1 ord2) = true ->
  Inv_all pw s g (events s (OReopen ord1 ord2)) /\ Shape pw (step s (OReopen ord1 ord2)).
Proof.
  intros pw s g ord1 ord2 HI [Hb [Hcf [Hcd [Htx Hsy]]]] WF. cbn [wf_op] in WF. apply andb_true_iff in WF. destruct WF as [W1 W2].
  assert (Hd : dirty s = []) by (destruct (dirty s); [reflexivity | discriminate]).
  cbn [events].
  set (C := ckpt_evs s ord1). set (M := map EMsync (arrange ord2 (files s))).
  assert (IC : Inv_all pw s g C) by (apply ckpt_phase; assumption).
  destruct (ckpt_fields s ord1 Hb Hcf) as [Q1 [Q2 [Q3 [Q4 [Q5 [Q6 [Q7 _]]]]]]]. fold C in Q1, Q2, Q3, Q4, Q5, Q6, Q7.
  set (s1 := run_evs s C) in *. set (g1 := ghost_evs s g C).
  assert (I1 : Inv pw s1 g1) by (apply Inv_all_end; exact IC).
  assert (IS : Inv_all pw s1 g1 cat_save).
  { unfold cat_save. repeat (apply Inv_all_step; [assumption | exact I | intros; exact I | clear I1; intros I1]). apply Inv_all_nil. exact I1. }
  set (s2 := run_evs s1 cat_save). set (g2 := ghost_evs s1 g1 cat_save).
  assert (I2 : Inv pw s2 g2) by (apply Inv_all_end; exact IS).
  assert (B2 : buf s2 = []) by (subst s2; cbn [cat_save run_evs fold_left apply_ev]; sproj; exact Q1).
  assert (D2 : dirty s2 = []) by (subst s2; cbn [cat_save run_evs fold_left apply_ev]; sproj; congruence).
  assert (C2 : cur_du s2 = cur_fl s2) by (subst s2; cbn [cat_save run_evs fold_left apply_ev]; sproj; congruence).
  assert (IM : Inv_all pw s2 g2 M) by (apply msync_phase; auto).
  set (s3 := run_evs s2 M). set (g3 := ghost_evs s2 g2 M).
  assert (I3 : Inv pw s3 g3) by (apply Inv_all_end; exact IM).
  assert (PM : forall {A} (pi : st -> A), (forall s t, pi (apply_ev s (EMsync t)) = pi s) -> pi s3 = pi s2).
  { intros A pi H. subst s3 M. apply run_pres. intros e He. apply in_map_iff in He. destruct He as [x [<- _]]. intros. apply H. }
  assert (MS : forall {A} (pi : st -> A) s t, (forall s f, pi (set_dur s (fun k => if fst k =? f then vol s k else dur s k) (add_z f (dfiles s))) = pi s) -> pi (apply_ev s (EMsync t)) = pi s).
  { intros A pi s0 t0 H. cbn [apply_ev]. destruct (mem t0 (files s0)) eqn:E; [apply H | reflexivity]. }
  assert (D3 : dirty s3 = []) by (rewrite (PM _ dirty); [exact D2 | intros; apply MS; intros; reflexivity]).
  split.
  - apply Inv_all_app; [exact IC |]. apply Inv_all_app; [exact IS |]. apply Inv_all_app; [exact IM |].
    apply Inv_all_step; [exact I3 | exact D3 | intros; exact I | intros I4].
    apply Inv_all_step; [exact I4 | exact I | intros; exact I | intros I5].
    apply Inv_all_one; [exact I5 | exact I | intros; exact I].
  - unfold step. cbn [events]. fold C M. rewrite !run_evs_app. fold s1 s2 s3. cbn [run_evs fold_left apply_ev]. unfold Shape. sproj.
    rewrite (PM _ buf), (PM _ closed_fl), (PM _ closed_du), (PM _ cur_du), (PM _ cur_fl);
      try (intros; apply MS; intros; reflexivity).
    subst s2. cbn [cat_save run_evs fold_left apply_ev]. sproj. repeat split; try congruence.
Qed.

(* events that leave the log, the tracker and the transaction flag alone *)
Definition walinert (e : ev) : bool :=
  match e with
  | ECreate _ | EStore _ _ _ | EMsync _ | EGrow _ | EAddTab _ | ECatTrunc | ECatHdr | ECatBody | ECatSync | ECatRename
  | EMetaW | EMetaSync | EAck => true
  | _ => false
  end.

Lemma op_create : forall pw s g t h r hi ri, Inv pw s g -> Shape pw s -> wf_op s (OCreate t h r hi ri) = true ->
  Inv_all pw s g (events s (OCreate t h r hi ri)) /\ Shape pw (step s (OCreate t h r hi ri)).
Proof.
  intros pw s g t h r hi ri HI [Hb [Hcf [Hcd [Htx Hsy]]]] WF. cbn [wf_op] in WF.
  repeat (apply andb_true_iff in WF; destruct WF as [WF ?]).
  rename H into WX, H0 into WN. apply negb_true_iff in WX.
  assert (NK : forall k, fst k = t \/ fst k = idx_file t -> ~ In k (frame_keys s) /\ ~ In k (dirty s)).
  { intros k Hk.
    assert (T : ((fst k =? t) || (fst k =? idx_file t)) = true)
      by (apply orb_true_iff; destruct Hk as [-> | ->]; [left | right]; apply Z.eqb_refl).
    split; intros A;
      (assert (X : existsb (fun k => (fst k =? t) || (fst k =? idx_file t)) (frame_keys s ++ dirty s) = true)
         by (apply existsb_exists; exists k; split; [apply in_or_app; auto | exact T]); congruence). }
  assert (NF : forall p f, f = t \/ f = idx_file t -> lastk (wfl s) (f, p) = None).
  { intros p f Hf. apply no_frame_lastk. apply kmem_false. apply (NK (f, p)). exact Hf. }
  assert (ND : forall k f, f = t \/ f = idx_file t -> In k (dirty s) -> fst k <> f).
  { intros k f Hf Hk E. subst f. apply (proj2 (NK k Hf)). exact Hk. }
  assert (PF : pw = true -> pendf s = []) by (intros P; unfold pendf; rewrite (Hsy P); apply skipn_all).
  assert (M1 : forall l, mem t (add_z t l) = true) by (intros; rewrite mem_add_z, Z.eqb_refl; reflexivity).
  assert (M2 : forall l, mem (idx_file t) (add_z (idx_file t) l) = true) by (intros; rewrite mem_add_z, Z.eqb_refl; reflexivity).
  split.
  - cbn [events app cat_save].
    apply Inv_all_step; [exact HI | exact I | intros; exact I | clear HI; intros HI].
    apply Inv_all_step; [exact HI | | intros; exact I | clear HI; intros HI].
    { cbn [apply_ev scK]. unfold wfl. sproj. fold (wfl s). rewrite Hb. split; [right; apply NF; auto | reflexivity]. }
    apply Inv_all_step; [exact HI | exact I | | clear HI; intros HI].
    { intros P. cbn [apply_ev scP]. unfold pendf. sproj. fold (pendf s). rewrite (PF P). repeat split; [exact Hb |]. intros k Hk. apply (ND k t); auto. }
    apply Inv_all_step; [exact HI | exact I | intros; exact I | clear HI; intros HI].
    apply Inv_all_step; [exact HI | | intros; exact I | clear HI; intros HI].
    { cbn [apply_ev scK]. sproj. rewrite M1. unfold wfl. sproj. fold (wfl s). rewrite Hb. split; [right; apply NF; auto | reflexivity]. }
    apply Inv_all_step; [exact HI | exact I | | clear HI; intros HI].
    { intros P. cbn [apply_ev scP]. sproj. rewrite M1. unfold pendf. sproj. fold (pendf s). rewrite (PF P). repeat split; [exact Hb |]. intros k Hk. apply (ND k t); auto. }
    apply Inv_all_step; [exact HI | exact I | intros; exact I | clear HI; intros HI].
    apply Inv_all_step; [exact HI | | intros; exact I | clear HI; intros HI].
    { cbn [apply_ev scK]. sproj. rewrite M1. sproj. rewrite M1. unfold wfl. sproj. fold (wfl s). rewrite Hb. split; [right; apply NF; auto | reflexivity]. }
    apply Inv_all_step; [exact HI | exact I | | clear HI; intros HI].
    { intros P. cbn [apply_ev scP]. sproj. rewrite M1. sproj. rewrite M1. unfold pendf. sproj. fold (pendf s). rewrite (PF P). repeat split; [exact Hb |]. intros k Hk. apply (ND k (idx_file t)); auto. }
    apply Inv_all_step; [exact HI | exact I | intros; exact I | clear HI; intros HI].
    apply Inv_all_step; [exact HI | | intros; exact I | clear HI; intros HI].
    { cbn [apply_ev scK]. sproj. rewrite M1. sproj. rewrite M1. sproj. rewrite M2. unfold wfl. sproj. fold (wfl s). rewrite Hb. split; [right; apply NF; auto | reflexivity]. }
    apply Inv_all_step; [exact HI | exact I | | clear HI; intros HI].
    { intros P. cbn [apply_ev scP]. sproj. rewrite M1. sproj. rewrite M1. sproj. rewrite M2. unfold pendf. sproj. fold (pendf s). rewrite (PF P). repeat split; [exact Hb |]. intros k Hk. apply (ND k (idx_file t)); auto. }
    repeat (apply Inv_all_step; [exact HI | exact I | intros; exact I | clear HI; intros HI]).
    apply Inv_all_nil. exact HI.
  - unfold step, Shape.
    assert (PR : forall {A} (pi : st -> A),
               (forall s e, walinert e = true -> pi (apply_ev s e) = pi s) ->
               pi (run_evs s (events s (OCreate t h r hi ri))) = pi s).
    { intros A pi H. apply run_pres. intros e He s0. apply H.
      cbn [events app cat_save] in He. repeat (destruct He as [<- | He]; [reflexivity |]). destruct He. }
    rewrite (PR _ buf), (PR _ closed_fl), (PR _ closed_du), (PR _ in_txn), (PR _ dirty), (PR _ cur_du), (PR _ cur_fl);
      try (intros s0 e He; destruct e; try discriminate; cbn [apply_ev]; try reflexivity;
           match goal with |- context [if ?c then _ else _] => destruct c; reflexivity end).
    repeat split; assumption.
Qed.

Lemma op_inv : forall pw s g o,
  Inv pw s g -> Shape pw s -> wf_op s o = true ->
  Pos_all pw s g (events s o) /\ Inv pw (step s o) (ghost_evs s g (events s o)) /\ Shape pw (step s o).
Proof.
  intros pw s g o HI HS WF.
  assert (L : Inv_all pw s g (events s o) /\ Shape pw (step s o) ->
              Pos_all pw s g (events s o) /\ Inv pw (step s o) (ghost_evs s g (events s o)) /\ Shape pw (step s o)).
  { intros [A B]. split; [apply Inv_all_Pos; exact A |]. split; [apply Inv_all_end; exact A | exact B]. }
  destruct o.
  - apply L. apply op_create; assumption.
  - apply L. apply op_dml; assumption.
  - apply L. apply op_begin; assumption.
  - apply L. apply op_commit; assumption.
  - apply L. apply op_ckpt; assumption.
  - apply op_api; assumption.
  - apply L. apply op_reopen; assumption.
Qed.
