//! Deterministic scheduler for the concurrency properties.
//!
//! Each logical thread runs on its own OS thread, but only the thread that currently holds
//! the scheduler's grant makes progress; every other registered thread is parked inside
//! `turdb::verif_hooks::sched_point` (hook sites are placed at the boundaries between the
//! atomic steps of the protocol models, never inside a mutex critical section).
//!
//! A schedule is a list of logical thread ids.  Entry `t` lets thread `t` run from the site
//! where it is parked to its next site (one *coarse step*, `run_until` in coq/Lib/Interleave.v).
//! If the thread does not reach a site within `block_timeout` it is blocked in the
//! implementation (lock, condvar): the step is recorded as `Blocked` and the scheduler moves
//! on; the thread stays "running" and reports its arrival whenever it gets unblocked.
//! Scheduling a finished, blocked or not-yet-arrived thread is a no-op, like in the model.
use std::cell::Cell;
use std::sync::{Arc, Condvar, Mutex};
use std::time::{Duration, Instant};

#[derive(Clone, Copy, Debug, PartialEq, Eq)]
pub enum TState {
    /// thread function not started yet (parked before its first instruction)
    NotStarted,
    /// parked at hook site
    AtSite(u32),
    /// granted and not yet arrived at the next site (executing or blocked)
    Running,
    Finished,
}

#[derive(Clone, Debug, PartialEq, Eq)]
pub enum StepOutcome {
    /// the thread ran to its next site
    Reached(u32),
    /// the thread ran to the end of its function
    Finished,
    /// the thread did not reach a site within the timeout: blocked in the implementation
    Blocked,
    /// the thread could not be scheduled (finished earlier, or still blocked from before)
    Skipped,
}

struct Inner {
    states: Vec<TState>,
    /// has the thread picked up its current grant (left its park loop)?  A thread that has not
    /// been scheduled by the OS yet is not "blocked in the implementation".
    picked: Vec<bool>,
    /// which thread may run (None = nobody)
    grant: Option<usize>,
}

pub struct Scheduler {
    inner: Mutex<Inner>,
    cv: Condvar,
    pub block_timeout: Duration,
}

thread_local! {
    static LOGICAL_ID: Cell<Option<usize>> = Cell::new(None);
}

impl Scheduler {
    pub fn new(n: usize) -> Arc<Scheduler> {
        Arc::new(Scheduler {
            inner: Mutex::new(Inner { states: vec![TState::NotStarted; n], picked: vec![false; n], grant: None }),
            cv: Condvar::new(),
            block_timeout: Duration::from_millis(60),
        })
    }

    /// Install the process-global hook.  Threads that are not registered pass straight through.
    pub fn install(self: &Arc<Self>) {
        let me = Arc::clone(self);
        turdb::verif_hooks::set_sched_hook(Some(Arc::new(move |site: u32| me.arrive(site))));
    }
    pub fn uninstall() {
        turdb::verif_hooks::set_sched_hook(None);
    }

    fn arrive(&self, site: u32) {
        let Some(id) = LOGICAL_ID.with(|c| c.get()) else { return };
        let mut g = self.inner.lock().unwrap();
        g.states[id] = TState::AtSite(site);
        if g.grant == Some(id) { g.grant = None; }
        self.cv.notify_all();
        // park until granted again
        while g.grant != Some(id) {
            g = self.cv.wait(g).unwrap();
        }
        g.states[id] = TState::Running;
        g.picked[id] = true;
    }

    /// Spawn logical thread `id`.  The thread parks before running `f` until first scheduled.
    pub fn spawn<F: FnOnce() + Send + 'static>(self: &Arc<Self>, id: usize, f: F) -> std::thread::JoinHandle<()> {
        let me = Arc::clone(self);
        std::thread::spawn(move || {
            LOGICAL_ID.with(|c| c.set(Some(id)));
            {
                let mut g = me.inner.lock().unwrap();
                g.states[id] = TState::AtSite(0);
                me.cv.notify_all();
                while g.grant != Some(id) { g = me.cv.wait(g).unwrap(); }
                g.states[id] = TState::Running;
                g.picked[id] = true;
            }
            let r = std::panic::catch_unwind(std::panic::AssertUnwindSafe(f));
            let mut g = me.inner.lock().unwrap();
            g.states[id] = TState::Finished;
            if g.grant == Some(id) { g.grant = None; }
            me.cv.notify_all();
            drop(g);
            let _ = r;
        })
    }

    /// wait until every spawned thread is parked at its start site
    pub fn wait_all_started(&self) {
        let mut g = self.inner.lock().unwrap();
        while g.states.iter().any(|s| *s == TState::NotStarted) {
            g = self.cv.wait(g).unwrap();
        }
    }

    pub fn state(&self, id: usize) -> TState { self.inner.lock().unwrap().states[id] }
    pub fn all_finished(&self) -> bool { self.inner.lock().unwrap().states.iter().all(|s| *s == TState::Finished) }

    /// One coarse step of thread `id`.
    pub fn step(&self, id: usize) -> StepOutcome {
        let mut g = self.inner.lock().unwrap();
        match g.states[id] {
            TState::AtSite(_) => {}
            _ => return StepOutcome::Skipped,
        }
        g.grant = Some(id);
        g.states[id] = TState::Running;
        g.picked[id] = false;
        self.cv.notify_all();
        let mut deadline = Instant::now() + self.block_timeout;
        loop {
            match g.states[id] {
                TState::AtSite(s) if g.grant != Some(id) => return StepOutcome::Reached(s),
                TState::Finished => return StepOutcome::Finished,
                _ => {}
            }
            let now = Instant::now();
            if !g.picked[id] {
                // the OS has not run the thread yet: its grant must not be overwritten, and the
                // blocking timeout only starts once the thread has actually resumed
                deadline = now + self.block_timeout;
                let (ng, _) = self.cv.wait_timeout(g, self.block_timeout).unwrap();
                g = ng;
                continue;
            }
            if now >= deadline {
                // leave the grant with the thread: it keeps running when it gets unblocked,
                // and parks at its next site
                return StepOutcome::Blocked;
            }
            let (ng, _) = self.cv.wait_timeout(g, deadline - now).unwrap();
            g = ng;
        }
    }

    /// After the schedule: let every thread run to completion (round robin), so that the
    /// final state can be observed.  Returns false if some thread never finishes (deadlock).
    pub fn drain(&self, max_rounds: usize) -> bool {
        for _ in 0..max_rounds {
            if self.all_finished() { return true; }
            let n = self.inner.lock().unwrap().states.len();
            let mut progressed = false;
            for id in 0..n {
                match self.step(id) {
                    StepOutcome::Reached(_) | StepOutcome::Finished => progressed = true,
                    _ => {}
                }
            }
            if !progressed {
                // threads that are Running-but-blocked may have been released by the others
                std::thread::sleep(self.block_timeout);
                let g = self.inner.lock().unwrap();
                if g.states.iter().all(|s| matches!(s, TState::Running | TState::Finished)) && !g.states.iter().all(|s| *s == TState::Finished) {
                    // everybody left is blocked: give them one more timeout, then report
                    drop(g);
                    std::thread::sleep(self.block_timeout * 3);
                    let g = self.inner.lock().unwrap();
                    if g.states.iter().all(|s| matches!(s, TState::Running | TState::Finished)) && !g.states.iter().all(|s| *s == TState::Finished) {
                        return false;
                    }
                }
            }
        }
        self.all_finished()
    }
}
