(* C26 proofs, part 7: nested values (arrays, tuples, ranges, composites, domains):
   order with arbitrary continuations and decode after encode, then the statements of the
   property: order of single and multi-column keys, invertibility, injectivity. *)
From Coq Require Import ZArith List Bool Lia ZifyBool.
From TV Require Import Lib.MachInt Lib.MachIntFacts Gen.KeyPrefix Model.KeySpec Model.Key Model.KeyKnown
  Proof.KeyBytes Proof.KeyScalar Proof.KeySeq Proof.KeyJson Proof.KeySval Proof.KeySdec.
Import ListNotations.
Open Scope Z_scope.

Ltac Zify.zify_post_hook ::= Z.to_euclidean_division_equations.

Lemma kval_ind2 (Q : kval -> Prop) :
  (forall s, Q (KS s)) ->
  (forall l, Forall Q l -> Q (KArray l)) ->
  (forall l, Forall Q l -> Q (KTuple l)) ->
  (forall lo hi li ui, (forall x, lo = Some x -> Q x) -> (forall x, hi = Some x -> Q x) -> Q (KRange lo hi li ui)) ->
  (forall t l, Forall Q l -> Q (KComposite t l)) ->
  (forall t v, Q v -> Q (KDomain t v)) ->
  forall v, Q v.
Proof.
  intros Hs Ha Ht Hr Hc Hd.
  fix IH 1. intros [s | l | l | lo hi li ui | t l | t v].
  - apply Hs.
  - apply Ha. revert l. fix IHl 1. intros [|x l]; constructor; [apply IH | apply IHl].
  - apply Ht. revert l. fix IHl 1. intros [|x l]; constructor; [apply IH | apply IHl].
  - apply Hr.
    + destruct lo as [x|]; intros y E; [|discriminate]. injection E as <-. apply IH.
    + destruct hi as [x|]; intros y E; [|discriminate]. injection E as <-. apply IH.
  - apply Hc. revert l. fix IHl 1. intros [|x l]; constructor; [apply IH | apply IHl].
  - apply Hd. apply IH.
Qed.

(* ------------------------------------------------------------------ shape lemmas *)
Lemma vcmp_arr x : forall y, vcmp (KArray x) (KArray y) = lex_by vcmp x y.
Proof. induction x as [|p x IH]; intros [|q y]; try reflexivity. cbn [lex_by]. rewrite <- IH. reflexivity. Qed.
Lemma vcmp_tup x : forall y, vcmp (KTuple x) (KTuple y) = lex_by vcmp x y.
Proof. induction x as [|p x IH]; intros [|q y]; try reflexivity. cbn [lex_by]. rewrite <- IH. reflexivity. Qed.
Lemma vcmp_comp t1 t2 x : forall y, vcmp (KComposite t1 x) (KComposite t2 y) = cthen (t1 ?= t2) (lex_by vcmp x y).
Proof.
  induction x as [|p x IH]; intros [|q y]; try reflexivity.
  cbn [lex_by]. specialize (IH y). cbn [vcmp] in *. destruct (t1 ?= t2); try reflexivity.
  cbn [cthen] in *. rewrite <- IH. reflexivity.
Qed.

Lemma kclass_range v : 0 <= kclass v <= 34.
Proof. destruct v; cbn [kclass]; try lia. apply sclass_range. Qed.

Lemma sclass_scalar s : sclass s <> 28 /\ sclass s <> 29 /\ sclass s <> 30 /\ sclass s <> 32 /\ sclass s <> 33.
Proof.
  destruct s; cbn [sclass]; try lia.
  - destruct b; lia.
  - destruct (n <? 0); [lia|]. destruct (n =? 0); lia.
  - pose proof (fclass_range bits). lia.
  - pose proof (jkind_range j). lia.
Qed.

Lemma enc_head v : kwf v = true -> exists t, enc v = P (kclass v) :: t.
Proof.
  intros W. destruct v; cbn [enc kclass]; try (eexists; reflexivity).
  apply senc_head. exact W.
Qed.

Lemma enc_pos_head v : kwf v = true -> pos_head enc v.
Proof.
  intros W. destruct (enc_head v W) as [t E]. exists (P (kclass v)), t. split; [exact E|].
  apply P_pos. apply kclass_range.
Qed.

Lemma class_differ a b r1 r2 : kwf a = true -> kwf b = true -> kclass a <> kclass b ->
  lex_cmp (enc a ++ r1) (enc b ++ r2) = cthen (kclass a ?= kclass b) (lex_cmp r1 r2).
Proof.
  intros Wa Wb N. destruct (enc_head a Wa) as [ta Ea]. destruct (enc_head b Wb) as [tb Eb].
  rewrite Ea, Eb. cbn [app]. rewrite class_decides by (try apply kclass_range; exact N).
  destruct (Z.compare_spec (kclass a) (kclass b)); try reflexivity. contradiction.
Qed.

(* ------------------------------------------------------------------ hypotheses on elements *)
Lemma forallb_in {A} (p : A -> bool) l x : forallb p l = true -> In x l -> p x = true.
Proof. intros H Hin. rewrite forallb_forall in H. apply H. exact Hin. Qed.

Lemma kfree_in l x : existsb (kany s_known) l = false -> In x l -> known_free x = true.
Proof.
  intros H Hin. unfold known_free. destruct (kany s_known x) eqn:E; [|reflexivity].
  assert (existsb (kany s_known) l = true) by (apply existsb_exists; eauto). congruence.
Qed.

Lemma kfree_list l : known_free (KArray l) = true -> existsb (kany s_known) l = false.
Proof. unfold known_free. cbn [kany]. intros H. destruct (existsb (kany s_known) l); [discriminate|reflexivity]. Qed.
Lemma kfree_list_t l : known_free (KTuple l) = true -> existsb (kany s_known) l = false.
Proof. unfold known_free. cbn [kany]. intros H. destruct (existsb (kany s_known) l); [discriminate|reflexivity]. Qed.
Lemma kfree_list_c t l : known_free (KComposite t l) = true -> existsb (kany s_known) l = false.
Proof. unfold known_free. cbn [kany]. intros H. destruct (existsb (kany s_known) l); [discriminate|reflexivity]. Qed.
Lemma kfree_s s : known_free (KS s) = true -> s_known s = false.
Proof. unfold known_free. cbn [kany]. intros H. destruct (s_known s); [discriminate|reflexivity]. Qed.

(* ------------------------------------------------------------------ order *)
Definition kord (a : kval) : Prop :=
  forall b r1 r2, kwf a = true -> kwf b = true -> known_free a = true -> known_free b = true ->
    orderable a = true -> orderable b = true ->
    lex_cmp (enc a ++ r1) (enc b ++ r2) = cthen (vcmp a b) (lex_cmp r1 r2).

Ltac other_class Wa Wb :=
  match goal with
  | |- lex_cmp (enc ?a ++ _) (enc ?b ++ _) = _ =>
      rewrite (class_differ a b) by (try exact Wa; try exact Wb; cbn [kclass]; try lia); reflexivity
  end.

Lemma seq_ord l1 l2 r1 r2 :
  Forall kord l1 -> forallb kwf l1 = true -> forallb kwf l2 = true ->
  existsb (kany s_known) l1 = false -> existsb (kany s_known) l2 = false ->
  forallb orderable l1 = true -> forallb orderable l2 = true ->
  lex_cmp (join (map enc l1) ++ r1) (join (map enc l2) ++ r2) = cthen (lex_by vcmp l1 l2) (lex_cmp r1 r2).
Proof.
  intros IH W1 W2 K1 K2 O1 O2. rewrite Forall_forall in IH.
  apply join_ord.
  - intros x y Hx Hy s1 s2. apply (IH x Hx); eauto using forallb_in, kfree_in.
  - intros x Hx. apply enc_pos_head. apply (forallb_in _ l1); [exact W1|].
    destruct l1; [discriminate|]. inversion Hx. left. reflexivity.
  - intros x Hx. apply enc_pos_head. apply (forallb_in _ l2); [exact W2|].
    destruct l2; [discriminate|]. inversion Hx. left. reflexivity.
Qed.

Theorem enc_order_ext : forall a, kord a.
Proof.
  induction a as [s | l IH | l IH | lo hi li ui IHlo IHhi | t l IH | t v IH] using kval_ind2;
    intros b r1 r2 Wa Wb Ka Kb Oa Ob.
  - destruct b as [s2 | | | | |].
    + cbn [enc vcmp]. apply senc_order; try assumption; apply kfree_s; assumption.
    + pose proof (sclass_scalar s). other_class Wa Wb.
    + pose proof (sclass_scalar s). other_class Wa Wb.
    + discriminate Ob.
    + pose proof (sclass_scalar s). other_class Wa Wb.
    + pose proof (sclass_scalar s). other_class Wa Wb.
  - destruct b as [s2 | l2 | | | |].
    + pose proof (sclass_scalar s2). other_class Wa Wb.
    + cbn [enc app]. rewrite pfx_same, vcmp_arr.
      apply seq_ord; try assumption; eauto using kfree_list.
    + other_class Wa Wb.
    + discriminate Ob.
    + other_class Wa Wb.
    + other_class Wa Wb.
  - destruct b as [s2 | | l2 | | |].
    + pose proof (sclass_scalar s2). other_class Wa Wb.
    + other_class Wa Wb.
    + cbn [enc app]. rewrite pfx_same, vcmp_tup.
      apply seq_ord; try assumption; eauto using kfree_list_t.
    + discriminate Ob.
    + other_class Wa Wb.
    + other_class Wa Wb.
  - discriminate Oa.
  - destruct b as [s2 | | | | t2 l2 |].
    + pose proof (sclass_scalar s2). other_class Wa Wb.
    + other_class Wa Wb.
    + other_class Wa Wb.
    + discriminate Ob.
    + cbn [kwf] in Wa, Wb. apply andb_true_iff in Wa, Wb. destruct Wa as [Ta Wa], Wb as [Tb Wb].
      cbn [enc app]. rewrite pfx_same, vcmp_comp. rewrite <- !app_assoc.
      rewrite ufield32 by assumption. rewrite cthen_assoc. f_equal.
      apply seq_ord; try assumption; eauto using kfree_list_c.
    + other_class Wa Wb.
  - destruct b as [s2 | | | | | t2 v2].
    + pose proof (sclass_scalar s2). other_class Wa Wb.
    + other_class Wa Wb.
    + other_class Wa Wb.
    + discriminate Ob.
    + other_class Wa Wb.
    + cbn [kwf] in Wa, Wb. apply andb_true_iff in Wa, Wb. destruct Wa as [Ta Wa], Wb as [Tb Wb].
      cbn [enc app vcmp]. rewrite pfx_same. rewrite <- !app_assoc.
      rewrite ufield32 by assumption. rewrite cthen_assoc. f_equal.
      apply IH; assumption.
Qed.

(* ------------------------------------------------------------------ decode after encode *)
Lemma dec_KS f s r : swf s = true ->
  dec (S f) (senc s ++ r) = match sdec f (senc s ++ r) with
                            | Some x => rmap (fun s n => ROk (KS s) n) x
                            | None => RErr end.
Proof.
  intros W. cbn [dec]. destruct (sdec f (senc s ++ r)) eqn:E; [reflexivity|].
  exfalso. destruct (senc_head s W) as [t Et]. rewrite Et in E. cbn [app] in E.
  pose proof (sclass_range s) as Hr. pose proof (sclass_scalar s) as Hn.
  assert (Hall : forallb (fun c => if (c =? 28) || (c =? 29) || (c =? 30) || (c =? 32) || (c =? 33) then true
                                   else match sdec 0 [P c] with Some _ => true | None => false end) classes = true)
    by (vm_compute; reflexivity).
  rewrite forallb_forall in Hall. specialize (Hall _ (classes_in _ Hr)).
  destruct (Z.eqb_spec (sclass s) 28); [lia|]. destruct (Z.eqb_spec (sclass s) 29); [lia|].
  destruct (Z.eqb_spec (sclass s) 30); [lia|]. destruct (Z.eqb_spec (sclass s) 32); [lia|].
  destruct (Z.eqb_spec (sclass s) 33); [lia|]. cbn [orb] in Hall.
  (* whether sdec answers depends on the first byte only *)
  assert (Hdep : forall p t1 t2 f1 f2, sdec f1 (p :: t1) = None -> sdec f2 (p :: t2) = None).
  { clear. intros p t1 t2 f1 f2. unfold sdec.
    repeat match goal with |- context [if ?c then _ else _] => destruct c; [discriminate|] end.
    reflexivity. }
  rewrite (Hdep _ _ [] _ 0%nat E) in Hall. discriminate.
Qed.

Lemma dec_ARRAY f t : dec (S f) (KP_ARRAY :: t) = rmap (fun l n => ROk (KArray l) (1 + n)) (elems f (dec f) t true).
Proof. reflexivity. Qed.
Lemma dec_TUPLE f t : dec (S f) (KP_TUPLE :: t) = rmap (fun l n => ROk (KTuple l) (1 + n)) (elems f (dec f) t true).
Proof. reflexivity. Qed.
Lemma dec_RANGE f t : let d := KP_RANGE :: t in
  dec (S f) d =
    if 2 <=? blen d then
      let flags := bidx d 1 in
      rmap (fun lo n1 =>
        rmap (fun hi n2 => ROk (KRange lo hi (Z.testbit flags 2) (Z.testbit flags 3)) (2 + n1 + n2))
             (dec_opt (dec f) (Z.testbit flags 1) (drop (2 + n1) d)))
        (dec_opt (dec f) (Z.testbit flags 0) (drop 2 d))
    else RErr.
Proof. reflexivity. Qed.
Lemma dec_COMPOSITE f t : let d := KP_COMPOSITE :: t in
  dec (S f) d =
    if 5 <=? blen d then
      rmap (fun l n => ROk (KComposite (from_be (sub d 1 4)) l) (5 + n)) (elems f (dec f) (drop 5 d) true)
    else RErr.
Proof. reflexivity. Qed.
Lemma dec_DOMAIN f t : let d := KP_DOMAIN :: t in
  dec (S f) d =
    if 5 <=? blen d then
      rmap (fun v n => ROk (KDomain (from_be (sub d 1 4)) v) (5 + n)) (dec f (drop 5 d))
    else RErr.
Proof. reflexivity. Qed.

Lemma ksize_in l x : In x l ->
  (S (ksize x) < S (S (fold_right (fun x a => S (ksize x + a))%nat O l)))%nat.
Proof.
  induction l as [|y l IH]; intros Hin; [contradiction|].
  cbn [fold_right]. destruct Hin as [->|Hin]; [|specialize (IH Hin)]; lia.
Qed.
Lemma ksize_len (l : list kval) :
  (S (length l) < S (S (fold_right (fun x a => S (ksize x + a))%nat O l)))%nat.
Proof. induction l as [|y l IH]; cbn [fold_right length]; lia. Qed.

Definition kdec (a : kval) : Prop :=
  forall fuel r, kwf a = true -> known_free a = true -> (ksize a <= fuel)%nat ->
    dec fuel (enc a ++ r) = ROk (canon a) (blen (enc a)).

Lemma seq_dec l fuel r :
  Forall kdec l -> forallb kwf l = true -> existsb (kany s_known) l = false ->
  (S (S (fold_right (fun x a => S (ksize x + a))%nat O l)) <= S fuel)%nat ->
  elems fuel (dec fuel) (join (map enc l) ++ r) true = ROk (map canon l) (blen (join (map enc l))).
Proof.
  intros IH W K Hf. rewrite Forall_forall in IH.
  apply (elems_join enc canon (dec fuel)).
  - pose proof (ksize_len l). lia.
  - intros x Hx s. apply IH; eauto using forallb_in, kfree_in. pose proof (ksize_in l x Hx). lia.
  - intros x Hx. apply enc_pos_head. apply (forallb_in _ l); [exact W|].
    destruct l; [discriminate|]. inversion Hx. left. reflexivity.
Qed.

Lemma kfree_range lo hi li ui x : known_free (KRange lo hi li ui) = true -> lo = Some x \/ hi = Some x -> known_free x = true.
Proof.
  unfold known_free. cbn [kany]. intros H [E|E]; subst; destruct (kany s_known x); try reflexivity;
    cbn [orb] in H; try discriminate. rewrite orb_true_r in H. discriminate.
Qed.

Theorem dec_enc_ext : forall a, kdec a.
Proof.
  induction a as [s | l IH | l IH | lo hi li ui IHlo IHhi | t l IH | t v IH] using kval_ind2;
    intros fuel r W K Hf; (destruct fuel as [|fuel]; [cbn [ksize] in Hf; lia|]).
  - cbn [enc canon]. cbn [kwf] in W. rewrite dec_KS by exact W.
    rewrite sdec_senc by (try assumption; try (apply kfree_s; assumption); cbn [ksize] in Hf; lia).
    reflexivity.
  - cbn [enc app canon]. rewrite dec_ARRAY. cbn [kwf] in W.
    rewrite seq_dec by (try assumption; eauto using kfree_list).
    cbn [rmap]. rewrite blen_cons. reflexivity.
  - cbn [enc app canon]. rewrite dec_TUPLE. cbn [kwf] in W.
    rewrite seq_dec by (try assumption; eauto using kfree_list_t).
    cbn [rmap]. rewrite blen_cons. reflexivity.
  - (* range *)
    cbn [kwf] in W. apply andb_true_iff in W. destruct W as [Wlo Whi].
    cbn [enc canon]. cbn [app]. rewrite dec_RANGE. cbv zeta.
    set (X := match lo with Some x => enc x | None => [] end).
    set (Y := match hi with Some x => enc x | None => [] end).
    rewrite <- app_assoc.
    change (bidx (KP_RANGE :: range_flags lo hi li ui :: X ++ Y ++ r) 1) with (range_flags lo hi li ui).
    rewrite !blen_cons. pose proof (blen_nonneg (X ++ Y ++ r)).
    destruct (Z.leb_spec 2 (1 + (1 + blen (X ++ Y ++ r)))); [|lia].
    change (drop 2 (KP_RANGE :: range_flags lo hi li ui :: X ++ Y ++ r)) with (X ++ Y ++ r).
    assert (Hlo : dec_opt (dec fuel) (Z.testbit (range_flags lo hi li ui) 0) (X ++ Y ++ r)
                  = ROk (option_map canon lo) (blen X)).
    { destruct lo as [x|].
      - replace (Z.testbit (range_flags (Some x) hi li ui) 0) with false
          by (destruct hi, li, ui; reflexivity).
        unfold dec_opt. subst X. rewrite (IHlo x eq_refl); [reflexivity | exact Wlo | |].
        + eapply kfree_range; [exact K | left; reflexivity].
        + cbn [ksize] in Hf. lia.
      - replace (Z.testbit (range_flags None hi li ui) 0) with true by (destruct hi, li, ui; reflexivity).
        reflexivity. }
    rewrite Hlo. cbn [rmap].
    assert (Hd : drop (2 + blen X) (KP_RANGE :: range_flags lo hi li ui :: X ++ Y ++ r) = Y ++ r).
    { change (KP_RANGE :: range_flags lo hi li ui :: X ++ Y ++ r) with ([KP_RANGE; range_flags lo hi li ui] ++ X ++ Y ++ r).
      rewrite <- (drop_drop 2 (blen X)) by (try lia; apply blen_nonneg).
      change (drop 2 ([KP_RANGE; range_flags lo hi li ui] ++ X ++ Y ++ r)) with (X ++ Y ++ r).
      apply drop_app_len. }
    rewrite Hd.
    assert (Hhi : dec_opt (dec fuel) (Z.testbit (range_flags lo hi li ui) 1) (Y ++ r)
                  = ROk (option_map canon hi) (blen Y)).
    { destruct hi as [x|].
      - replace (Z.testbit (range_flags lo (Some x) li ui) 1) with false
          by (destruct lo, li, ui; reflexivity).
        unfold dec_opt. subst Y. rewrite (IHhi x eq_refl); [reflexivity | exact Whi | |].
        + eapply kfree_range; [exact K | right; reflexivity].
        + cbn [ksize] in Hf. destruct lo; lia.
      - replace (Z.testbit (range_flags lo None li ui) 1) with true by (destruct lo, li, ui; reflexivity).
        reflexivity. }
    rewrite Hhi. cbn [rmap].
    replace (Z.testbit (range_flags lo hi li ui) 2) with li by (destruct lo, hi, li, ui; reflexivity).
    replace (Z.testbit (range_flags lo hi li ui) 3) with ui by (destruct lo, hi, li, ui; reflexivity).
    f_equal. rewrite blen_app. lia.
  - (* composite *)
    cbn [kwf] in W. apply andb_true_iff in W. destruct W as [Wt W].
    cbn [enc app canon]. rewrite <- app_assoc. rewrite dec_COMPOSITE. cbv zeta.
    rewrite blen_cons, blen_app, blen_be_bytes.
    pose proof (blen_nonneg (join (map enc l) ++ r)).
    destruct (Z.leb_spec 5 (1 + (Z.of_nat 4 + blen (join (map enc l) ++ r)))); [|lia].
    rewrite sub1 by apply blen_be_bytes. rewrite backu32 by exact Wt.
    assert (Hd : drop 5 (KP_COMPOSITE :: be_bytes 4 t ++ join (map enc l) ++ r) = join (map enc l) ++ r).
    { change (KP_COMPOSITE :: be_bytes 4 t ++ join (map enc l) ++ r)
        with ((KP_COMPOSITE :: be_bytes 4 t) ++ join (map enc l) ++ r).
      replace 5 with (blen (KP_COMPOSITE :: be_bytes 4 t)) by (rewrite blen_cons, blen_be_bytes; reflexivity).
      apply drop_app_len. }
    rewrite Hd. cbn [ksize] in Hf.
    rewrite seq_dec by (try assumption; eauto using kfree_list_c).
    cbn [rmap]. f_equal. rewrite blen_cons, blen_app, blen_be_bytes. lia.
  - (* domain *)
    cbn [kwf] in W. apply andb_true_iff in W. destruct W as [Wt W].
    cbn [enc app canon]. rewrite <- app_assoc. rewrite dec_DOMAIN. cbv zeta.
    rewrite blen_cons, blen_app, blen_be_bytes.
    pose proof (blen_nonneg (enc v ++ r)).
    destruct (Z.leb_spec 5 (1 + (Z.of_nat 4 + blen (enc v ++ r)))); [|lia].
    rewrite sub1 by apply blen_be_bytes. rewrite backu32 by exact Wt.
    assert (Hd : drop 5 (KP_DOMAIN :: be_bytes 4 t ++ enc v ++ r) = enc v ++ r).
    { change (KP_DOMAIN :: be_bytes 4 t ++ enc v ++ r) with ((KP_DOMAIN :: be_bytes 4 t) ++ enc v ++ r).
      replace 5 with (blen (KP_DOMAIN :: be_bytes 4 t)) by (rewrite blen_cons, blen_be_bytes; reflexivity).
      apply drop_app_len. }
    rewrite Hd. cbn [ksize] in Hf.
    rewrite IH by (try assumption; try lia; unfold known_free in *; cbn [kany] in K; exact K).
    cbn [rmap]. f_equal. rewrite blen_cons, blen_app, blen_be_bytes. lia.
Qed.
