(* C16: the classes of Value::encode_to_key (Model/AggImpl.v gk) coincide with the reference's
   "same group" relation (Model/SqlSpecAgg.v key_same: both NULL, or equal by value) on key columns
   that hold values of one kind -- so NULL keys form one group, 0.0 and -0.0 one group, and
   different values different groups. *)
From Coq Require Import ZArith List Bool Lia ZifyBool.
From TV Require Import Model.SqlSpecAgg Model.AggImpl.
Import ListNotations.
Open Scope Z_scope.

Ltac Zify.zify_post_hook ::= Z.to_euclidean_division_equations.

(* ------------------------------------------------------------------ text *)
Lemma bytes_cmp_eq : forall a b, bytes_cmp a b = Eq <-> a = b.
Proof.
  induction a as [|x a IH]; intros [|y b]; cbn [bytes_cmp]; try (split; intros H; (discriminate || reflexivity)).
  destruct (x ?= y) eqn:E.
  - apply Z.compare_eq in E; subst y. rewrite IH. split; intros H; [now subst|now injection H].
  - split; intros H; [discriminate|]. injection H as -> _. rewrite Z.compare_refl in E; discriminate.
  - split; intros H; [discriminate|]. injection H as -> _. rewrite Z.compare_refl in E; discriminate.
Qed.
Lemma zlist_eqb'_eq : forall a b, zlist_eqb' a b = true <-> a = b.
Proof.
  induction a as [|x a IH]; intros [|y b]; cbn [zlist_eqb']; try (split; intros H; (discriminate || reflexivity)).
  rewrite andb_true_iff, IH, Z.eqb_eq. split; [intros [-> ->]; reflexivity|intros H; injection H; auto].
Qed.

(* ------------------------------------------------------------------ doubles *)
Lemma f_key_eq : forall a b, f_ok a = true -> f_ok b = true ->
  (f_key a = f_key b <-> (f_is_zero a = true /\ f_is_zero b = true) \/ a = b).
Proof.
  intros a b A B. unfold f_ok in A, B. unfold f_key, f_sign, f_is_zero.
  change (2 ^ 64) with 18446744073709551616 in *. change (2 ^ 63) with 9223372036854775808 in *.
  destruct (a / 9223372036854775808 =? 0) eqn:SA; destruct (b / 9223372036854775808 =? 0) eqn:SB; lia.
Qed.

(* ------------------------------------------------------------------ one value against another *)
(* two values that may meet in one key column: NULL, or of the same kind *)
Definition compat1 (a b : value) : bool :=
  match a, b with
  | VNull, _ | _, VNull => true
  | VInt _, VInt _ => true
  | VFloat x, VFloat y => f_okn x && f_okn y
  | VText _, VText _ => true
  | _, _ => false
  end.

Lemma same1_gk : forall a b, compat1 a b = true -> key_same1 a b = gk_eqb (gk_of a) (gk_of b).
Proof.
  intros a b C. destruct a as [|x|x|x|x]; destruct b as [|y|y|y|y]; cbn [compat1] in C; try discriminate;
    cbn [key_same1 gk_of cmp_values].
  - reflexivity.
  - destruct (y =? 0); reflexivity.
  - destruct (f_is_nan y); [reflexivity|]. destruct (f_is_zero y); reflexivity.
  - reflexivity.
  - reflexivity.
  - destruct (x =? 0); reflexivity.
  - destruct (x ?= y) eqn:E; destruct (x =? 0) eqn:X; destruct (y =? 0) eqn:Y; cbn [gk_eqb];
      try (apply Z.compare_eq in E); try (rewrite Z.compare_lt_iff in E); try (rewrite Z.compare_gt_iff in E);
      try reflexivity; try lia.
  - destruct (f_is_nan x); [reflexivity|]. destruct (f_is_zero x); reflexivity.
  - apply andb_true_iff in C as [X Y]. unfold f_okn in X, Y.
    apply andb_true_iff in X as [X1 X2]. apply andb_true_iff in Y as [Y1 Y2]. apply negb_true_iff in X2, Y2.
    rewrite X2, Y2. unfold fcmp. rewrite X1, Y1, X2, Y2. cbn [andb negb option_map].
    pose proof (f_key_eq x y X1 Y1) as K.
    destruct (f_key x ?= f_key y) eqn:E.
    + apply Z.compare_eq in E. apply K in E as [[Zx Zy]| ->].
      * rewrite Zx, Zy. reflexivity.
      * destruct (f_is_zero y); cbn [gk_eqb]; [reflexivity|]. symmetry; apply Z.eqb_refl.
    + rewrite Z.compare_lt_iff in E.
      destruct (f_is_zero x) eqn:Zx; destruct (f_is_zero y) eqn:Zy; cbn [gk_eqb]; try reflexivity.
      * exfalso. assert (f_key x = f_key y) by (apply K; left; auto). lia.
      * destruct (x =? y) eqn:Q; [|reflexivity]. exfalso. assert (f_key x = f_key y) by (apply K; right; lia). lia.
    + rewrite Z.compare_gt_iff in E.
      destruct (f_is_zero x) eqn:Zx; destruct (f_is_zero y) eqn:Zy; cbn [gk_eqb]; try reflexivity.
      * exfalso. assert (f_key x = f_key y) by (apply K; left; auto). lia.
      * destruct (x =? y) eqn:Q; [|reflexivity]. exfalso. assert (f_key x = f_key y) by (apply K; right; lia). lia.
  - reflexivity.
  - cbn [gk_eqb]. destruct (bytes_cmp x y) eqn:E.
    + apply bytes_cmp_eq in E; subst. symmetry; now apply zlist_eqb'_eq.
    + destruct (zlist_eqb' x y) eqn:Q; [|reflexivity]. apply zlist_eqb'_eq in Q; subst.
      assert (bytes_cmp y y = Eq) by now apply bytes_cmp_eq. congruence.
    + destruct (zlist_eqb' x y) eqn:Q; [|reflexivity]. apply zlist_eqb'_eq in Q; subst.
      assert (bytes_cmp y y = Eq) by now apply bytes_cmp_eq. congruence.
  - reflexivity.
Qed.

(* gk_eqb decides equality of classes *)
Lemma gk_eqb_eq : forall a b, gk_eqb a b = true <-> a = b.
Proof.
  intros a b; destruct a; destruct b; cbn [gk_eqb]; try (split; intros H; (discriminate || reflexivity)).
  - rewrite Z.eqb_eq. split; [intros ->; reflexivity|intros H; now injection H].
  - rewrite Z.eqb_eq. split; [intros ->; reflexivity|intros H; now injection H].
  - rewrite zlist_eqb'_eq. split; [intros ->; reflexivity|intros H; now injection H].
  - rewrite Bool.eqb_true_iff. split; [intros ->; reflexivity|intros H; now injection H].
Qed.
Lemma gkl_eqb_eq : forall a b, gkl_eqb a b = true <-> a = b.
Proof.
  induction a as [|x a IH]; intros [|y b]; cbn [gkl_eqb]; try (split; intros H; (discriminate || reflexivity)).
  rewrite andb_true_iff, gk_eqb_eq, IH. split; [intros [-> ->]; reflexivity|intros H; injection H; auto].
Qed.

(* ------------------------------------------------------------------ whole keys *)
Definition cls (k : list value) : list gk := map gk_of k.

Fixpoint compat (a b : list value) : bool :=
  match a, b with
  | [], [] => true
  | x :: a', y :: b' => compat1 x y && compat a' b'
  | _, _ => false
  end.

Lemma same_cls : forall a b, compat a b = true -> key_same a b = gkl_eqb (cls a) (cls b).
Proof.
  induction a as [|x a IH]; intros [|y b] C; cbn [compat] in C; try discriminate; cbn [key_same cls map gkl_eqb]; [reflexivity|].
  apply andb_true_iff in C as [C1 C2]. rewrite (same1_gk x y C1). fold (cls a) (cls b). now rewrite (IH b C2).
Qed.

(* ------------------------------------------------------------------ key columns of one kind are compatible *)
Lemma ints_of_in : forall l zs, ints_of l = Some zs -> forall v, In v l -> exists z, v = VInt z.
Proof.
  induction l as [|v t IH]; intros zs I w Hw; [destruct Hw|]. cbn [ints_of] in I.
  destruct v; try discriminate. destruct (ints_of t) eqn:E; [|discriminate].
  destruct Hw as [<-|Hw]; [eauto|eapply IH; eauto].
Qed.
Lemma texts_of_in : forall l ts, texts_of l = Some ts -> forall v, In v l -> exists s, v = VText s.
Proof.
  induction l as [|v t IH]; intros ts I w Hw; [destruct Hw|]. cbn [texts_of] in I.
  destruct v; try discriminate. destruct (texts_of t) eqn:E; [|discriminate].
  destruct Hw as [<-|Hw]; [eauto|eapply IH; eauto].
Qed.
Lemma floats_of_in : forall l fs, floats_of l = Some fs -> forallb (fun b => f_ok b && negb (f_is_nan b)) fs = true ->
  forall v, In v l -> exists x, v = VFloat x /\ f_okn x = true.
Proof.
  induction l as [|v t IH]; intros fs F K w Hw; [destruct Hw|]. cbn [floats_of] in F.
  destruct v; try discriminate. destruct (floats_of t) eqn:E; [|discriminate]. injection F as <-.
  cbn [forallb] in K. apply andb_true_iff in K as [K1 K2].
  destruct Hw as [<-|Hw]; [eauto|eapply IH; eauto].
Qed.

Lemma one_kind_compat1 : forall vs a b, one_kind (nonnull vs) = true -> In a vs -> In b vs -> compat1 a b = true.
Proof.
  intros vs a b K Ia Ib.
  assert (Na : a = VNull \/ In a (nonnull vs)).
  { destruct a; [left; reflexivity|right..]; unfold nonnull; apply filter_In; split; auto. }
  assert (Nb : b = VNull \/ In b (nonnull vs)).
  { destruct b; [left; reflexivity|right..]; unfold nonnull; apply filter_In; split; auto. }
  destruct Na as [->|Na]; [reflexivity|]. destruct Nb as [->|Nb]; [destruct a; reflexivity|].
  unfold one_kind in K. set (l := nonnull vs) in *. clearbody l.
  destruct (ints_of l) as [zs|] eqn:I.
  - destruct (ints_of_in _ _ I a Na) as [x ->]. destruct (ints_of_in _ _ I b Nb) as [y ->]. reflexivity.
  - destruct (floats_of l) as [fs|] eqn:F.
    + destruct (floats_of_in _ _ F K a Na) as [x [-> X]]. destruct (floats_of_in _ _ F K b Nb) as [y [-> Y]].
      cbn [compat1]. now rewrite X, Y.
    + destruct (texts_of l) as [ts|] eqn:T; [|discriminate].
      destruct (texts_of_in _ _ T a Na) as [x ->]. destruct (texts_of_in _ _ T b Nb) as [y ->]. reflexivity.
Qed.

(* cutting the keys down to their first n components does not change the first n columns *)
Lemma nth_firstn_lt : forall (k : list value) (m n : nat) d, (m < n)%nat -> nth m (firstn n k) d = nth m k d.
Proof.
  induction k as [|v k IH]; intros m n d H.
  - rewrite firstn_nil. reflexivity.
  - destruct n as [|n]; [lia|]. cbn [firstn]. destruct m as [|m]; [reflexivity|]. cbn [nth]. apply IH. lia.
Qed.
Lemma key_cols_ok_firstn : forall m n ks, (m <= n)%nat -> key_cols_ok m ks = true -> key_cols_ok m (map (firstn n) ks) = true.
Proof.
  induction m as [|m IH]; intros n ks H K; [reflexivity|]. cbn [key_cols_ok] in *.
  apply andb_true_iff in K as [A B]. apply andb_true_iff; split; [|apply IH; [lia|exact B]].
  rewrite map_map. erewrite map_ext; [exact A|]. intros k; cbn beta. apply nth_firstn_lt. lia.
Qed.

(* keys of n components each, every column of one kind: any two of them are compatible *)
Lemma key_cols_compat : forall n ks a b,
  key_cols_ok n ks = true -> In a ks -> In b ks -> length a = n -> length b = n -> compat a b = true.
Proof.
  induction n as [|n IH]; intros ks a b K Ia Ib La Lb.
  - destruct a; destruct b; try discriminate; reflexivity.
  - cbn [key_cols_ok] in K. apply andb_true_iff in K as [K1 K2].
    (* split off the LAST component *)
    destruct (@exists_last _ a) as [a' [x ->]]; [intro; subst; discriminate|].
    destruct (@exists_last _ b) as [b' [y ->]]; [intro; subst; discriminate|].
    rewrite app_length in La, Lb; cbn [length] in La, Lb.
    assert (La' : length a' = n) by lia. assert (Lb' : length b' = n) by lia.
    assert (Cxy : compat1 x y = true).
    { apply (one_kind_compat1 _ x y K1).
      - apply in_map_iff. exists (a' ++ [x]). split; [|exact Ia]. rewrite app_nth2, La', Nat.sub_diag; [reflexivity|lia].
      - apply in_map_iff. exists (b' ++ [y]). split; [|exact Ib]. rewrite app_nth2, Lb', Nat.sub_diag; [reflexivity|lia]. }
    (* the first n columns: the same keys with the last component cut off *)
    assert (K2' : key_cols_ok n (map (firstn n) ks) = true) by (apply key_cols_ok_firstn; [lia|exact K2]).
    assert (Cab : compat a' b' = true).
    { apply (IH (map (firstn n) ks) a' b' K2'); auto.
      - apply in_map_iff. exists (a' ++ [x]). split; [|exact Ia]. rewrite firstn_app, La', Nat.sub_diag, firstn_O, app_nil_r. rewrite <- La'. apply firstn_all.
      - apply in_map_iff. exists (b' ++ [y]). split; [|exact Ib]. rewrite firstn_app, Lb', Nat.sub_diag, firstn_O, app_nil_r. rewrite <- Lb'. apply firstn_all. }
    clear -Cab Cxy La' Lb'. revert b' Lb' Cab. subst n.
    induction a' as [|p a' IHa]; intros [|q b'] Lb' Cab; cbn [length] in Lb'; try discriminate; cbn [app compat] in *.
    + now rewrite Cxy.
    + apply andb_true_iff in Cab as [C1 C2]. rewrite C1; cbn [andb]. apply IHa; [lia|exact C2].
Qed.
