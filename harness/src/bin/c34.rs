//! C34 freelist: drives the real `Freelist` (allocate / release / free_count / head_page) over an
//! in-memory `Storage` or an `MmapStorage` through generated histories of release / allocate /
//! client-write calls and prints what it observed, per call, as Coq terms.
//!
//! replay line:  np=<pages> st=<mem|mmap> ops=<tok> <tok> ...
//!   r<p>        release(p)            r<a>..<b>   release(a), release(a+1), ..., release(b)
//!   a           allocate()            a*<n>       n times allocate()
//!   w<p>:<i>=<v>   the client writes the u32 v (little endian) at byte offset 4*i of page p
//! (a trailing " ;class=<k>", written by `search` of earlier versions, is ignored)
use std::collections::{HashMap, HashSet};
use std::panic::AssertUnwindSafe;
use tvh::*;
use turdb::storage::{Freelist, MmapStorage, Storage, PAGE_SIZE, TRUNK_MAX_ENTRIES};

const WORDS: u32 = (PAGE_SIZE / 4) as u32;
const TME: u32 = TRUNK_MAX_ENTRIES as u32;

// ------------------------------------------------------------------ storages
/// sparse zero-initialised in-memory store; pages are 8-byte aligned (TrunkHeader is read in place)
struct MemStorage { pages: HashMap<u32, Vec<u64>>, count: u32, zero: Vec<u64> }
impl MemStorage {
    fn new(count: u32) -> Self { MemStorage { pages: HashMap::new(), count, zero: vec![0u64; PAGE_SIZE / 8] } }
}
fn as_bytes(v: &[u64]) -> &[u8] { unsafe { std::slice::from_raw_parts(v.as_ptr() as *const u8, v.len() * 8) } }
fn as_bytes_mut(v: &mut [u64]) -> &mut [u8] { unsafe { std::slice::from_raw_parts_mut(v.as_mut_ptr() as *mut u8, v.len() * 8) } }
impl Storage for MemStorage {
    fn page(&self, n: u32) -> eyre::Result<&[u8]> {
        eyre::ensure!(n < self.count, "page {} out of bounds", n);
        Ok(as_bytes(self.pages.get(&n).unwrap_or(&self.zero)))
    }
    fn page_mut(&mut self, n: u32) -> eyre::Result<&mut [u8]> {
        eyre::ensure!(n < self.count, "page {} out of bounds", n);
        Ok(as_bytes_mut(self.pages.entry(n).or_insert_with(|| vec![0u64; PAGE_SIZE / 8])))
    }
    fn grow(&mut self, n: u32) -> eyre::Result<()> { if n > self.count { self.count = n; } Ok(()) }
    fn page_count(&self) -> u32 { self.count }
    fn sync(&self) -> eyre::Result<()> { Ok(()) }
}
enum AnyStorage { Mem(MemStorage), Mmap(MmapStorage, std::path::PathBuf) }
impl Storage for AnyStorage {
    fn page(&self, n: u32) -> eyre::Result<&[u8]> { match self { AnyStorage::Mem(s) => s.page(n), AnyStorage::Mmap(s, _) => Storage::page(s, n) } }
    fn page_mut(&mut self, n: u32) -> eyre::Result<&mut [u8]> { match self { AnyStorage::Mem(s) => s.page_mut(n), AnyStorage::Mmap(s, _) => Storage::page_mut(s, n) } }
    fn grow(&mut self, n: u32) -> eyre::Result<()> { match self { AnyStorage::Mem(s) => s.grow(n), AnyStorage::Mmap(s, _) => Storage::grow(s, n) } }
    fn page_count(&self) -> u32 { match self { AnyStorage::Mem(s) => s.page_count(), AnyStorage::Mmap(s, _) => Storage::page_count(s) } }
    fn sync(&self) -> eyre::Result<()> { Ok(()) }
}
impl Drop for AnyStorage {
    fn drop(&mut self) { if let AnyStorage::Mmap(_, p) = self { let _ = std::fs::remove_file(p); } }
}
fn tmp_dir() -> std::path::PathBuf {
    let d = std::path::PathBuf::from(format!("/verif/build/tmp/c34-{}", std::process::id()));
    std::fs::create_dir_all(&d).expect("tmp dir");
    d
}
fn make_storage(kind: &str, np: u32, serial: u64) -> AnyStorage {
    if kind == "mmap" {
        let p = tmp_dir().join(format!("fl{}.db", serial));
        AnyStorage::Mmap(MmapStorage::create(&p, np.max(1)).expect("mmap create"), p)
    } else {
        AnyStorage::Mem(MemStorage::new(np))
    }
}

// ------------------------------------------------------------------ histories
#[derive(Clone, Copy, PartialEq, Debug)]
enum Op { Rel(u32), Alloc, Poke(u32, u32, u32) }
#[derive(Clone, Copy, PartialEq, Debug)]
enum Out { Ok, Some(u32), None, Err, Panic }
struct Ev { op: Op, out: Out, hd: u32, fc: u32 }

struct Driver { fl: Freelist, st: AnyStorage, np: u32, kind: &'static str, evs: Vec<Ev> }
impl Driver {
    fn new(kind: &'static str, np: u32, serial: u64) -> Self {
        Driver { fl: Freelist::new(), st: make_storage(kind, np, serial), np, kind, evs: vec![] }
    }
    fn word(&self, p: u32, i: u32) -> Option<u32> {
        let pg = self.st.page(p).ok()?;
        let o = 4 * i as usize;
        Some(u32::from_le_bytes([pg[o], pg[o + 1], pg[o + 2], pg[o + 3]]))
    }
    fn record(&mut self, op: Op, out: Out) -> Out {
        self.evs.push(Ev { op, out, hd: self.fl.head_page(), fc: self.fl.free_count() });
        out
    }
    fn rel(&mut self, p: u32) -> Out {
        let (fl, st) = (&mut self.fl, &mut self.st);
        let out = match catch(AssertUnwindSafe(|| fl.release(st, p))) {
            Caught::Done(Ok(())) => Out::Ok,
            Caught::Done(Err(_)) => Out::Err,
            Caught::Panicked(_) => Out::Panic,
        };
        self.record(Op::Rel(p), out)
    }
    fn alloc(&mut self) -> Option<Out> {
        let (fl, st) = (&mut self.fl, &mut self.st);
        let out = match catch(AssertUnwindSafe(|| fl.allocate(st))) {
            Caught::Done(Ok(Some(p))) => Out::Some(p),
            Caught::Done(Ok(None)) => Out::None,
            Caught::Done(Err(_)) => Out::Err,
            Caught::Panicked(_) => Out::Panic,
        };
        Some(self.record(Op::Alloc, out))
    }
    fn poke(&mut self, p: u32, i: u32, v: u32) -> Out {
        let out = if i < WORDS {
            match self.st.page_mut(p) {
                Ok(pg) => { let o = 4 * i as usize; pg[o..o + 4].copy_from_slice(&v.to_le_bytes()); Out::Ok }
                Err(_) => Out::Err,
            }
        } else { Out::Err };
        self.record(Op::Poke(p, i, v), out)
    }
    /// allocate until something other than Some comes back (at most `limit` calls)
    fn drain(&mut self, limit: u32) -> Vec<u32> {
        let mut got = vec![];
        for _ in 0..limit {
            match self.alloc() { Some(Out::Some(p)) => got.push(p), _ => break }
        }
        got
    }
}

fn replay_line(d: &Driver) -> String {
    let mut s = format!("np={} st={} ops=", d.np, d.kind);
    let mut i = 0;
    let mut first = true;
    let evs = &d.evs;
    while i < evs.len() {
        if !first { s.push(' '); }
        first = false;
        match evs[i].op {
            Op::Alloc => {
                let mut j = i;
                while j < evs.len() && evs[j].op == Op::Alloc { j += 1; }
                if j - i == 1 { s.push('a'); } else { s.push_str(&format!("a*{}", j - i)); }
                i = j;
            }
            Op::Rel(p) => {
                let mut j = i + 1;
                while j < evs.len() && evs[j].op == Op::Rel(p.wrapping_add((j - i) as u32)) && p.checked_add((j - i) as u32).is_some() { j += 1; }
                if j - i == 1 { s.push_str(&format!("r{}", p)); } else { s.push_str(&format!("r{}..{}", p, p + (j - i - 1) as u32)); }
                i = j;
            }
            Op::Poke(p, w, v) => { s.push_str(&format!("w{}:{}={}", p, w, v)); i += 1; }
        }
    }
    s
}

fn parse_line(l: &str) -> Option<(u32, &'static str, Vec<Op>)> {
    let l = l.split(" ;class=").next().unwrap_or("").trim();
    let mut np = None;
    let mut kind: &'static str = "mem";
    let mut ops = vec![];
    let (head, opstr) = match l.find("ops=") { Some(k) => (&l[..k], &l[k + 4..]), None => return None };
    for t in head.split_whitespace() {
        if let Some(v) = t.strip_prefix("np=") { np = v.parse::<u32>().ok(); }
        if let Some(v) = t.strip_prefix("st=") { kind = if v == "mmap" { "mmap" } else { "mem" }; }
    }
    for t in opstr.split_whitespace() {
        if t == "a" { ops.push(Op::Alloc); }
        else if let Some(n) = t.strip_prefix("a*") { for _ in 0..n.parse::<u32>().ok()? { ops.push(Op::Alloc); } }
        else if let Some(r) = t.strip_prefix('r') {
            if let Some(k) = r.find("..") {
                let (a, b) = (r[..k].parse::<u32>().ok()?, r[k + 2..].parse::<u32>().ok()?);
                let mut p = a;
                while p <= b { ops.push(Op::Rel(p)); if p == u32::MAX { break; } p += 1; }
            } else { ops.push(Op::Rel(r.parse::<u32>().ok()?)); }
        } else if let Some(w) = t.strip_prefix('w') {
            let c = w.find(':')?;
            let e = w.find('=')?;
            ops.push(Op::Poke(w[..c].parse().ok()?, w[c + 1..e].parse().ok()?, w[e + 1..].parse().ok()?));
        } else { return None; }
    }
    Some((np?, kind, ops))
}

fn exec(np: u32, kind: &'static str, ops: &[Op], serial: u64) -> Driver {
    let mut d = Driver::new(kind, np, serial);
    for o in ops {
        match *o {
            Op::Rel(p) => { d.rel(p); }
            Op::Alloc => { d.alloc(); }
            Op::Poke(p, i, v) => { d.poke(p, i, v); }
        }
    }
    d
}

// ------------------------------------------------------------------ the property's oracle (Rust twin of
// Model/Freelist.v `property_ok` and `refines_bag`; used for `nontrivial`, statistics and `search`)
struct Verdict { disciplined: bool, safe: bool, exact: bool, complete: bool, count_is_bag: bool }
fn judge(np: u32, evs: &[Ev]) -> Verdict {
    let mut bag: HashSet<u32> = HashSet::new();
    let mut v = Verdict { disciplined: true, safe: true, exact: true, complete: true, count_is_bag: true };
    for e in evs {
        let disc = match e.op {
            Op::Rel(p) => p >= 1 && p < np && !bag.contains(&p),
            Op::Alloc => true,
            Op::Poke(p, i, _) => p < np && i < WORDS && !bag.contains(&p),
        };
        if !disc { v.disciplined = false; }
        let anomaly = match (e.op, e.out) {
            (Op::Alloc, Out::Some(p)) => !bag.contains(&p),
            (Op::Alloc, Out::None) => false,
            (Op::Alloc, _) => true,
            (_, Out::Ok) => false,
            _ => true,
        };
        if anomaly { v.safe = false; }
        if e.op == Op::Alloc && e.out == Out::None && !bag.is_empty() { v.complete = false; }
        match (e.op, e.out) {
            (Op::Rel(p), Out::Ok) => { bag.insert(p); }
            (Op::Alloc, Out::Some(p)) => { bag.remove(&p); }
            _ => {}
        }
        if e.fc as usize != bag.len() { v.count_is_bag = false; }
    }
    // reported free count vs what the following allocations returned, wherever the rest of the
    // trace only allocates until it sees None
    let mut d: Option<u64> = None;
    for k in (0..=evs.len()).rev() {
        if k < evs.len() {
            d = match (evs[k].op, evs[k].out) {
                (Op::Alloc, Out::Some(_)) => d.map(|x| x + 1),
                (Op::Alloc, Out::None) => Some(0),
                _ => None,
            };
        }
        let reported = if k == 0 { 0u64 } else { evs[k - 1].fc as u64 };
        if let Some(x) = d { if reported != x { v.exact = false; } }
    }
    v
}
/// the property (three clauses) fails on this history
fn property_fails(v: &Verdict) -> bool { v.disciplined && !(v.safe && v.exact) }
/// the stronger bag refinement (allocate None iff bag empty, free_count = |bag|) fails
fn refinement_fails(v: &Verdict) -> bool { v.disciplined && !(v.safe && v.complete && v.count_is_bag) }

// ------------------------------------------------------------------ Coq printing
fn op_term(o: Op) -> String {
    match o { Op::Rel(p) => format!("(Rel {})", p), Op::Alloc => "Alloc".into(), Op::Poke(p, i, v) => format!("(Poke {} {} {})", p, i, v) }
}
fn out_term(o: Out) -> String {
    match o { Out::Ok => "OOk".into(), Out::Some(p) => format!("(OSome {})", p), Out::None => "ONone".into(), Out::Err => "OErr".into(), Out::Panic => "OPanic".into() }
}
/// Lossless run-length form of the trace (expanded again inside Coq by Corr/C34.v `expand`):
///   RelRun p n hd c      = release(p+k) -> Ok,  head_page() = hd, free_count() = c+k      (k < n)
///   AllocRun q s n hd c  = allocate() -> Some(q+k*s), head_page() = hd, free_count() = c-k (k < n)
fn case_term(d: &Driver) -> String {
    let evs = &d.evs;
    let mut s = String::with_capacity(256);
    s.push_str(&format!("Case {} [", d.np));
    let mut i = 0;
    let mut first = true;
    while i < evs.len() {
        if !first { s.push(';'); }
        first = false;
        let e = &evs[i];
        let mut j = i + 1;
        match (e.op, e.out) {
            (Op::Rel(p), Out::Ok) => {
                while j < evs.len() {
                    let k = (j - i) as u64;
                    let f = &evs[j];
                    if f.op == Op::Rel((p as u64 + k) as u32) && p as u64 + k <= u32::MAX as u64 && f.out == Out::Ok && f.hd == e.hd && f.fc as u64 == e.fc as u64 + k { j += 1; } else { break; }
                }
                if j - i >= 4 { s.push_str(&format!("RelRun {} {} {} {}", p, j - i, e.hd, e.fc)); i = j; continue; }
            }
            (Op::Alloc, Out::Some(q)) => {
                let mut step: i64 = 0;
                while j < evs.len() {
                    let k = (j - i) as i64;
                    let f = &evs[j];
                    let ok = match (f.op, f.out) {
                        (Op::Alloc, Out::Some(r)) => {
                            if k == 1 { step = r as i64 - q as i64; }
                            (step == 1 || step == -1) && r as i64 == q as i64 + k * step && f.hd == e.hd && f.fc as i64 == e.fc as i64 - k
                        }
                        _ => false,
                    };
                    if ok { j += 1; } else { break; }
                }
                if j - i >= 4 { s.push_str(&format!("AllocRun {} {} {} {} {}", q, z(step), j - i, e.hd, e.fc)); i = j; continue; }
            }
            _ => {}
        }
        s.push_str(&format!("One (E {} {} {} {})", op_term(e.op), out_term(e.out), e.hd, e.fc));
        i += 1;
    }
    s.push(']');
    s
}

struct Stats { multi_trunk: u64, undisciplined: u64, holds: u64, fails: u64, refinement_fails: u64, mmap_cases: u64, max_chain_ops: usize, trunk_pages_handed_out: u64 }
fn heads_seen(evs: &[Ev]) -> (usize, bool) {
    // distinct non-zero head pages; whether create_new_trunk ran (a release moved a non-zero head)
    let mut hs = HashSet::new();
    let mut chained = false;
    let mut prev = 0u32;
    for e in evs {
        if e.hd != 0 { hs.insert(e.hd); }
        if let (Op::Rel(p), Out::Ok) = (e.op, e.out) { if prev != 0 && e.hd == p && p != prev { chained = true; } }
        prev = e.hd;
    }
    (hs.len(), chained)
}
/// allocations that returned the page that was head trunk at the time (the repaired behaviour)
fn trunk_pages_out(evs: &[Ev]) -> u64 {
    let mut prev = 0u32;
    let mut n = 0;
    for e in evs { if let (Op::Alloc, Out::Some(p)) = (e.op, e.out) { if p == prev && prev != 0 { n += 1; } } prev = e.hd; }
    n
}
fn emit(w: &mut CaseWriter, st: &mut Stats, d: &Driver, kind: &str) {
    let v = judge(d.np, &d.evs);
    let (nheads, chained) = heads_seen(&d.evs);
    let somes = d.evs.iter().filter(|e| matches!(e.out, Out::Some(_))).count();
    let nontrivial = somes >= 1 && nheads >= 2;
    if chained { st.multi_trunk += 1; st.max_chain_ops = st.max_chain_ops.max(d.evs.len()); }
    if !v.disciplined { st.undisciplined += 1 } else if property_fails(&v) { st.fails += 1 } else { st.holds += 1 }
    if refinement_fails(&v) { st.refinement_fails += 1; }
    st.trunk_pages_handed_out += trunk_pages_out(&d.evs);
    if d.kind == "mmap" { st.mmap_cases += 1; }
    w.push(case_term(d), replay_line(d), nontrivial, kind);
}

// ------------------------------------------------------------------ generators
/// a disciplined client: knows which pages it holds
struct Client { held: Vec<u32>, free: HashSet<u32> }
impl Client {
    fn new(np: u32) -> Self { Client { held: (1..np).collect(), free: HashSet::new() } }
    fn release_random(&mut self, rng: &mut Rng, d: &mut Driver) -> bool {
        if self.held.is_empty() { return false; }
        let k = rng.below(self.held.len() as u64) as usize;
        let p = self.held.swap_remove(k);
        self.release(d, p);
        true
    }
    fn release(&mut self, d: &mut Driver, p: u32) {
        if d.rel(p) == Out::Ok { self.free.insert(p); } else { self.held.push(p); }
    }
    fn take(&mut self, p: u32) { if let Some(k) = self.held.iter().position(|x| *x == p) { self.held.swap_remove(k); } }
    fn alloc(&mut self, d: &mut Driver) -> Option<Out> {
        let r = d.alloc();
        if let Some(Out::Some(p)) = r { if self.free.remove(&p) { self.held.push(p); } }
        r
    }
    fn drain(&mut self, d: &mut Driver) {
        let limit = d.fl.free_count().saturating_add(2);
        for _ in 0..limit { match self.alloc(d) { Some(Out::Some(_)) => {}, _ => break } }
    }
}
fn interesting_word(rng: &mut Rng) -> u32 {
    match rng.below(6) { 0 => 4, 1 => 5, 2 => 6, 3 => 7, 4 => 6 + rng.below(TME as u64) as u32, _ => rng.below(WORDS as u64) as u32 }
}
fn interesting_val(rng: &mut Rng, np: u32) -> u32 {
    match rng.below(7) { 0 => 0, 1 => 1, 2 => rng.below(np.max(1) as u64) as u32, 3 => TME, 4 => TME - 1, 5 => u32::MAX, _ => rng.next() as u32 }
}

fn gen_random_small(rng: &mut Rng, serial: u64, kind: &'static str, poke_held: bool) -> Driver {
    let np = 3 + rng.below(38) as u32;
    let mut d = Driver::new(kind, np, serial);
    let mut c = Client::new(np);
    let span = if rng.chance(1, 5) { 240 } else { 60 };
    let n = 4 + rng.below(span);
    let p_alloc = *rng.pick(&[25u64, 45, 60]);
    for _ in 0..n {
        let x = rng.below(100);
        if poke_held && x < 8 && !c.held.is_empty() {
            // scribble over a page the client holds (never page 0 here): stale trunk images, fake counts
            let p = *rng.pick(&c.held);
            let (i, v) = (interesting_word(rng), interesting_val(rng, np));
            d.poke(p, i, v);
        } else if x < 8 + p_alloc { c.alloc(&mut d); }
        else if !c.release_random(rng, &mut d) { c.alloc(&mut d); }
    }
    c.drain(&mut d);
    d
}

/// disciplined client whose page 0 holds data where a trunk header would be (as a real file header does)
fn gen_page0(rng: &mut Rng, serial: u64) -> Driver {
    let np = 6 + rng.below(30) as u32;
    let mut d = Driver::new("mem", np, serial);
    let mut c = Client::new(np);
    let mode = rng.below(5);
    // a page the client keeps for itself and may dress up as a trunk
    let keep = c.held.swap_remove(rng.below(c.held.len() as u64) as usize);
    match mode {
        0 => { // page 0 "next" -> kept page that looks like a trunk with entries
            d.poke(0, 4, keep);
            let cnt = 1 + rng.below(3) as u32;
            d.poke(keep, 5, cnt);
            for k in 0..cnt { let v = interesting_val(rng, np); d.poke(keep, 6 + k, v); }
        }
        1 => { // page 0 itself looks like a trunk with entries
            let cnt = 1 + rng.below(3) as u32;
            d.poke(0, 5, cnt);
            for k in 0..cnt { let v = 1 + rng.below(np as u64 + 3) as u32; d.poke(0, 6 + k, v); }
        }
        2 => { d.poke(0, 5, *rng.pick(&[TME + 1, u32::MAX, 70000])); }      // absurd count -> Err
        3 => { d.poke(0, 4, *rng.pick(&[np, np + 7, u32::MAX])); }           // next outside the store -> Err
        _ => { d.poke(0, 4, keep); }                                          // next -> kept page, all zero
    }
    let n = 4 + rng.below(50);
    for _ in 0..n {
        if rng.chance(55, 100) { c.alloc(&mut d); } else if !c.release_random(rng, &mut d) { c.alloc(&mut d); }
    }
    c.drain(&mut d);
    d
}

/// no discipline at all: double frees, page 0, pages outside the store, writes into trunks
fn gen_malformed(rng: &mut Rng, serial: u64) -> Driver {
    let np = 2 + rng.below(20) as u32;
    let mut d = Driver::new("mem", np, serial);
    let n = 3 + rng.below(70);
    for _ in 0..n {
        match rng.below(10) {
            0..=3 => { let p = rng.below(np as u64 + 3) as u32; d.rel(p); }
            4..=7 => { d.alloc(); }
            8 => { let p = rng.below(np as u64 + 1) as u32; let i = *rng.pick(&[4u32, 5, 6, 7, 8]); let v = rng.below(np as u64 + 2) as u32; d.poke(p, i, v); }
            _ => { let p = rng.below(np as u64) as u32; let (i, v) = (interesting_word(rng), interesting_val(rng, np)); d.poke(p, i, v); }
        }
    }
    let lim = d.fl.free_count().min(200) + 2;
    d.drain(lim);
    d
}

/// histories that fill whole trunks (TRUNK_MAX_ENTRIES entries each) so that the chain has 2..4 trunks
fn gen_trunk_span(rng: &mut Rng, serial: u64, kind: &'static str, trunks: u32, variant: u64) -> Driver {
    let np = trunks * (TME + 1) + 40 + rng.below(60) as u32;
    let mut d = Driver::new(kind, np, serial);
    let mut c = Client::new(np);
    // bulk: release pages 1.. in order; page 1 becomes the first trunk, page TME+2 the second, ...
    let delta = rng.below(7) as i64 - 3;
    let bulk = ((trunks as i64 - 1) * (TME as i64 + 1) + 1 + TME as i64 + delta).max(1) as u32;
    let bulk = bulk.min(np - 1);
    for p in 1..=bulk { c.take(p); c.release(&mut d, p); }
    match variant % 4 {
        0 => {}
        1 => {
            // oscillate around the trunk boundary
            for _ in 0..(3 + rng.below(6)) {
                let k = 1 + rng.below(9);
                for _ in 0..k { c.alloc(&mut d); }
                let k = 1 + rng.below(9);
                for _ in 0..k { if !c.release_random(rng, &mut d) { break; } }
            }
        }
        2 => {
            // allocate down through a whole trunk, then re-release part of what came back
            let k = TME as u64 - 4 + rng.below(9);
            for _ in 0..k { c.alloc(&mut d); }
            let back = rng.below(40);
            for _ in 0..back { if !c.release_random(rng, &mut d) { break; } }
            for _ in 0..rng.below(12) { c.alloc(&mut d); }
        }
        _ => {
            // random walk with the occasional long stride
            for _ in 0..(20 + rng.below(60)) {
                if rng.chance(1, 10) { for _ in 0..rng.below(300) { c.alloc(&mut d); } }
                else if rng.chance(1, 2) { c.alloc(&mut d); }
                else { c.release_random(rng, &mut d); }
            }
        }
    }
    c.drain(&mut d);
    d
}

/// Disciplined multi-trunk histories in which the client has WRITTEN into the pages it releases:
/// whenever the next release() is going to turn the released page into a trunk (head_page == 0 or
/// head trunk full), and now and then otherwise, the page released is one whose first 9 words
/// (page header words 0..3, the words a trunk header occupies: next = 4, count = 5, first entries
/// 6..8) the client has just filled with small / large values and plausible page numbers.
/// A release that does not rewrite the whole trunk header, or an allocate that trusts stale
/// entries, then hands out pages twice or miscounts.
fn gen_dirty_span(rng: &mut Rng, serial: u64, kind: &'static str, trunks: u32, variant: u64) -> Driver {
    let np = trunks * (TME + 1) + 60 + rng.below(40) as u32;
    let mut d = Driver::new(kind, np, serial);
    let mut c = Client::new(np);
    let dirty_then_release = |c: &mut Client, d: &mut Driver, rng: &mut Rng| -> bool {
        if c.held.is_empty() { return false; }
        // take the page from the top end of what the client holds (keeps the bulk runs ascending)
        let mut k = 0usize;
        for (i, x) in c.held.iter().enumerate() { if *x > c.held[k] { k = i; } }
        if rng.chance(1, 3) { k = rng.below(c.held.len() as u64) as usize; }
        let p = c.held.swap_remove(k);
        let some_free = c.free.iter().next().copied().unwrap_or(1);
        let some_held = c.held.first().copied().unwrap_or(1);
        for i in 0..9u32 {
            let v = match i {
                4 => *rng.pick(&[some_free, some_held, p, np + 5, u32::MAX, 1, 0]),
                5 => *rng.pick(&[1u32, 2, 3, 3, TME - 1, TME, TME + 1, u32::MAX, 7]),
                6..=8 => *rng.pick(&[some_free, some_held, p, 1, 2, np - 1, u32::MAX]),
                _ => *rng.pick(&[0u32, 1, 0x30, 0xFFFF, u32::MAX, 0x4000_0010]),
            };
            d.poke(p, i, v);
        }
        c.release(d, p);
        true
    };
    let refill = |c: &mut Client, d: &mut Driver, rng: &mut Rng, target: u32| {
        // release until `target` pages are free; ascending bulk, dirty pages at every trunk creation
        c.held.sort_unstable_by(|a, b| b.cmp(a));      // pop() gives the smallest held page
        while d.fl.free_count() < target && !c.held.is_empty() {
            let h = d.fl.head_page();
            let creates = h == 0 || d.word(h, 5) == Some(TME);
            if creates || rng.chance(1, 700) {
                dirty_then_release(c, d, rng);
                c.held.sort_unstable_by(|a, b| b.cmp(a));
            } else {
                let p = c.held.pop().unwrap();
                c.release(d, p);
            }
        }
    };
    let full = (trunks - 1) * (TME + 1) + 2 + rng.below(TME as u64 / 2) as u32;
    refill(&mut c, &mut d, rng, full.min(np - 2));
    match variant % 4 {
        0 => {}
        1 => {
            // drain completely (old trunk pages come back with their trunk image), refill, drain
            c.drain(&mut d);
            let t2 = (TME + 3 + rng.below(40) as u32).min(np - 2);
            refill(&mut c, &mut d, rng, t2);
        }
        2 => {
            // oscillate exactly at a trunk boundary: take the newest trunk's page back, dirty it, release it again
            let over = d.fl.free_count() % (TME + 1);
            for _ in 0..over { c.alloc(&mut d); }                       // head trunk now full, newer trunks gone
            for _ in 0..(3 + rng.below(5)) {
                dirty_then_release(&mut c, &mut d, rng);                // creates a trunk out of a dirty page
                if rng.chance(1, 2) { dirty_then_release(&mut c, &mut d, rng); }
                let k = 1 + rng.below(3);
                for _ in 0..k { c.alloc(&mut d); }
                while d.fl.free_count() % (TME + 1) != 0 && d.fl.free_count() > 0 { if d.fl.free_count() % (TME + 1) > 3 { break; } c.alloc(&mut d); }
            }
        }
        _ => {
            // allocate down through a whole trunk and refill over the boundary with dirty pages
            let k = TME as u64 + 2 + rng.below(20);
            for _ in 0..k { c.alloc(&mut d); }
            let t2 = (d.fl.free_count() + TME + 5).min(np - 2);
            refill(&mut c, &mut d, rng, t2);
        }
    }
    c.drain(&mut d);
    d
}

/// every disciplined release/allocate history of length <= max_len over pages 1..=pages
fn gen_exhaustive(pages: u32, max_len: usize, f: &mut dyn FnMut(Driver)) {
    let np = pages + 2;
    let mut stack: Vec<Vec<u8>> = vec![vec![]];
    let mut serial = 0u64;
    while let Some(seq) = stack.pop() {
        if !seq.is_empty() {
            // run it (with the discipline check) and emit it with a final drain
            let mut d = Driver::new("mem", np, serial);
            serial += 1;
            let mut c = Client::new(np);
            let mut ok = true;
            for &ch in &seq {
                if ch == 0 { c.alloc(&mut d); }
                else {
                    let p = ch as u32;
                    if c.held.contains(&p) { c.take(p); c.release(&mut d, p); } else { ok = false; break; }
                }
            }
            if !ok { continue; }
            if seq.len() < max_len { for ch in 0..=pages as u8 { let mut s = seq.clone(); s.push(ch); stack.push(s); } }
            c.drain(&mut d);
            f(d);
        } else {
            for ch in 0..=pages as u8 { stack.push(vec![ch]); }
        }
    }
}

fn main() {
    let a = Args::parse();
    match a.mode.as_str() {
        "gen" => gen(&a),
        "search" => search(&a),
        _ => { eprintln!("c34: unknown mode"); std::process::exit(2); }
    }
    let _ = std::fs::remove_dir_all(format!("/verif/build/tmp/c34-{}", std::process::id()));
}

fn gen(a: &Args) {
    let mut rng = Rng::new(a.seed);
    let mut w = CaseWriter::new(&a.out, "C34", "Corr.C34", 300);
    let mut st = Stats { multi_trunk: 0, undisciplined: 0, holds: 0, fails: 0, refinement_fails: 0, mmap_cases: 0, max_chain_ops: 0, trunk_pages_handed_out: 0 };
    let mut serial = 1u64 << 32;
    if let Some(lines) = a.replay_lines() {
        for l in lines {
            if let Some((np, kind, ops)) = parse_line(&l) {
                serial += 1;
                let d = exec(np, kind, &ops, serial);
                emit(&mut w, &mut st, &d, "replay");
            }
        }
    } else {
        let t = a.thorough();
        // the probe of the design round and its neighbours, always
        for l in ["np=8 st=mem ops=r3 a", "np=8 st=mmap ops=r3 r4 a*3", "np=8 st=mem ops=w0:5=1 w0:6=7 r3 r4 a a"] {
            let (np, kind, ops) = parse_line(l).unwrap();
            serial += 1;
            let d = exec(np, kind, &ops, serial);
            emit(&mut w, &mut st, &d, "fixed");
        }
        let (pages, len) = if t { (4, 7) } else { (3, 5) };
        gen_exhaustive(pages, len, &mut |d| emit(&mut w, &mut st, &d, "exhaustive"));
        for i in 0..(if t { 20_000 } else { 500 }) {
            serial += 1;
            let kind = if i % 10 == 0 { "mmap" } else { "mem" };
            let d = gen_random_small(&mut rng, serial, kind, i % 3 != 0);
            emit(&mut w, &mut st, &d, "random_small");
        }
        for _ in 0..(if t { 3_000 } else { 120 }) { serial += 1; let d = gen_page0(&mut rng, serial); emit(&mut w, &mut st, &d, "page0_data"); }
        for _ in 0..(if t { 6_000 } else { 250 }) { serial += 1; let d = gen_malformed(&mut rng, serial); emit(&mut w, &mut st, &d, "malformed"); }
        let spans = if t { 120 } else { 14 };
        for i in 0..spans {
            serial += 1;
            let trunks = if t { 2 + (i % 3) as u32 } else { [2u32, 2, 2, 3, 2, 2, 3][i as usize % 7] };
            let kind = if i % 4 == 3 { "mmap" } else { "mem" };
            let d = gen_trunk_span(&mut rng, serial, kind, trunks, i as u64);
            emit(&mut w, &mut st, &d, "trunk_span");
            if i % 3 == 2 { w.flush(); }      // long histories: a few per shard
        }
        let dirty = if t { 160 } else { 8 };
        for i in 0..dirty {
            serial += 1;
            let trunks = if t { 2 + (i % 3) as u32 } else { 2 + (i % 4 == 3) as u32 };
            let kind = if i % 5 == 4 { "mmap" } else { "mem" };
            let d = gen_dirty_span(&mut rng, serial, kind, trunks, i as u64);
            emit(&mut w, &mut st, &d, "dirty_trunk_span");
            if i % 3 == 2 { w.flush(); }
        }
    }
    let extra = vec![
        ("multi_trunk_chain_cases".to_string(), st.multi_trunk.to_string()),
        ("longest_multi_trunk_history_calls".to_string(), st.max_chain_ops.to_string()),
        ("cases_property_holds".to_string(), st.holds.to_string()),
        ("cases_property_fails_by_rust_twin".to_string(), st.fails.to_string()),
        ("cases_bag_refinement_fails_by_rust_twin".to_string(), st.refinement_fails.to_string()),
        ("allocations_returning_the_head_trunk_page".to_string(), st.trunk_pages_handed_out.to_string()),
        ("cases_undisciplined_client".to_string(), st.undisciplined.to_string()),
        ("cases_over_mmap_storage".to_string(), st.mmap_cases.to_string()),
    ];
    w.finish(&extra);
}

/// Oracle only (no model): safety, legal calls succeed, reported free count = what the following
/// allocations return; also the stronger bag refinement (None iff bag empty, free_count = |bag|).
/// Every failing history is printed.
fn search(a: &Args) {
    let mut rng = Rng::new(a.seed ^ 0xC34_5EA7);
    let mut fails: Vec<String> = vec![];
    let mut tried = 0u64;
    let t0 = std::time::Instant::now();
    let mut serial = 1u64 << 40;
    let mut consider = |d: Driver, fails: &mut Vec<String>| {
        let v = judge(d.np, &d.evs);
        if (property_fails(&v) || refinement_fails(&v)) && fails.len() < 40 { fails.push(replay_line(&d)); }
    };
    gen_exhaustive(4, 6, &mut |d| { tried += 1; consider(d, &mut fails); });
    for i in 0..8u64 { serial += 1; let d = gen_trunk_span(&mut rng, serial, "mem", 2 + (i % 3) as u32, i); tried += 1; consider(d, &mut fails); }
    // multi-trunk histories whose trunk pages were dirtied by the client (each ~10^4 calls)
    for i in 0..400u64 { serial += 1; let d = gen_dirty_span(&mut rng, serial, "mem", 2 + (i % 3 == 2) as u32, i); tried += 1; consider(d, &mut fails); }
    let budget = a.budget / 4;
    while tried < budget && t0.elapsed().as_secs() < 240 {
        serial += 1;
        let d = match tried % 4 { 0 | 1 => gen_random_small(&mut rng, serial, "mem", true), 2 => gen_page0(&mut rng, serial), _ => gen_random_small(&mut rng, serial, "mem", false) };
        tried += 1;
        consider(d, &mut fails);
    }
    let mut out = String::new();
    out.push_str(&format!("tried={}\n", tried));
    for f in &fails { out.push_str("FAIL "); out.push_str(f); out.push('\n'); }
    std::fs::write(&a.out, out).expect("write search output");
}
