(* Reference semantics of aggregate queries (C16), on top of the shared relational reference
   semantics Model/SqlSpec.v.  Definitions only (laws are in Proof/AggSpecLaws.v).
   This file says what SQL demands of

       SELECT <sel> FROM t [WHERE w] [GROUP BY k1, .., kn] [HAVING h]

   with COUNT( * ), COUNT(e), SUM(e), AVG(e), MIN(e), MAX(e); it is independent of TurDB's code
   (the implementation model is Model/AggImpl.v).

   * groups: one per distinct key (NULL keys form one class, numbers compare by value);
     without GROUP BY there is exactly one group, also over an empty input.
   * per group: COUNT( * ) = number of rows, COUNT(e) = number of non-NULL values of e,
     SUM / MIN / MAX range over the non-NULL values and are NULL when there is none,
     AVG(e) = SUM(e) / COUNT(e) as a double.
   * HAVING keeps a group iff its predicate is TRUE (sem3 = TT).
   * `ANoDemand` / `SNoDemand`: the reference does not say (expression undefined in SqlSpec,
     floating-point sums whose value depends on the order of addition, integer sums some
     partial sum of which leaves the i64 range, mixed kinds under MIN / MAX, NaN ...).
     Checks built on this file must treat it as "no demand", never as a value.
   * `AError` / `SError`: the exact integer SUM does not fit in 64 bits: an error is demanded
     (no value, and certainly no crash). *)
From Coq Require Import ZArith List Bool.
From TV Require Export Model.SqlSpec.
Import ListNotations.
Open Scope Z_scope.

(* ------------------------------------------------------------------ doubles *)
(* round_q num den (den > 0): the binary64 bit pattern nearest to the rational num / den, ties to
   even, gradual underflow, overflow to infinity; a zero result is +0.0 *)
Definition round_q (num den : Z) : Z :=
  if num =? 0 then 0 else
  let n := Z.abs num in
  let qat := fun e : Z => if 0 <=? e then n / (den * 2 ^ e) else (n * 2 ^ (- e)) / den in
  let eh := Z.log2 n - Z.log2 den - 52 in
  let e1 := if qat eh <? 2 ^ 52 then eh - 1 else eh in
  let e := Z.max e1 (- 1074) in
  let nn := if 0 <=? e then n else n * 2 ^ (- e) in
  let dd := if 0 <=? e then den * 2 ^ e else den in
  let q := nn / dd in
  let r := nn mod dd in
  let q' := if (dd <? 2 * r) || ((2 * r =? dd) && Z.odd q) then q + 1 else q in
  let bits := (e + 1074) * 2 ^ 52 + q' in
  let bits := if 2047 * 2 ^ 52 <=? bits then 2047 * 2 ^ 52 else bits in
  (if num <? 0 then 2 ^ 63 else 0) + bits.

(* (double) x for an integer x *)
Definition f_of_int (x : Z) : Z := round_q x 1.
(* a / b for finite doubles, b <> 0 (sign of a zero result: +0.0) *)
Definition f_div (a b : Z) : option Z :=
  if f_finite a && f_finite b && negb (f_scaled b =? 0) then
    Some (if 0 <? f_scaled b then round_q (f_scaled a) (f_scaled b)
          else round_q (- f_scaled a) (- f_scaled b))
  else None.
(* a + b for finite doubles (sign of a zero result: +0.0) *)
Definition f_add (a b : Z) : option Z :=
  if f_finite a && f_finite b then Some (round_q (f_scaled a + f_scaled b) (2 ^ 1074)) else None.

(* ------------------------------------------------------------------ aggregates *)
Inductive aggfn := FCountStar | FCount | FSum | FAvg | FMin | FMax.
Record agg := mkAgg { a_fn : aggfn; a_arg : expr }.   (* a_arg is not used by FCountStar *)

Inductive ares := ANoDemand | AError | AVal (v : value).

Definition is_null (v : value) : bool := match v with VNull => true | _ => false end.
Definition nonnull (vs : list value) : list value := filter (fun v => negb (is_null v)) vs.

Fixpoint ints_of (vs : list value) : option (list Z) :=
  match vs with
  | [] => Some []
  | VInt z :: t => option_map (cons z) (ints_of t)
  | _ => None
  end.
Fixpoint floats_of (vs : list value) : option (list Z) :=
  match vs with
  | [] => Some []
  | VFloat b :: t => option_map (cons b) (floats_of t)
  | _ => None
  end.
Fixpoint texts_of (vs : list value) : option (list (list Z)) :=
  match vs with
  | [] => Some []
  | VText s :: t => option_map (cons s) (texts_of t)
  | _ => None
  end.

Definition zsum (l : list Z) : Z := fold_right Z.add 0 l.
Definition zlen {A} (l : list A) : Z := Z.of_nat (length l).

(* the sum of the positive and the sum of the negative values both fit: then every partial sum
   in every order fits *)
Definition int_sum_safe (zs : list Z) : bool :=
  i64_ok (zsum (filter (fun z => 0 <? z) zs)) && i64_ok (zsum (filter (fun z => z <? 0) zs)).
Definition int_sum_res (zs : list Z) : ares :=
  if int_sum_safe zs then AVal (VInt (zsum zs))
  else if i64_ok (zsum zs) then ANoDemand else AError.

(* doubles whose sums are exact in every order: multiples of 2^-10 below 2^33, fewer than 1024 of
   them (every partial sum is a multiple of 2^-10 below 2^43, hence a double) *)
Definition f_safe (b : Z) : bool :=
  f_finite b && (f_scaled b mod 2 ^ 1064 =? 0) && (Z.abs (f_scaled b) <? 2 ^ 1107).
Definition float_sum_exact (fs : list Z) : option Z :=      (* scaled by 2^1074 *)
  if forallb f_safe fs && (zlen fs <? 1024) then Some (zsum (map f_scaled fs)) else None.

(* SUM as a double, where that double is the exact sum *)
Definition sum_double (nn : list value) : option Z :=
  match ints_of nn with
  | Some zs => if int_sum_safe zs && (Z.abs (zsum zs) <=? 2 ^ 53) then Some (f_of_int (zsum zs)) else None
  | None =>
      match floats_of nn with
      | Some fs => option_map (fun s => round_q s (2 ^ 1074)) (float_sum_exact fs)
      | None => None
      end
  end.

Definition sum_spec (vs : list value) : ares :=
  match nonnull vs with
  | [] => AVal VNull
  | nn =>
      match ints_of nn with
      | Some zs => int_sum_res zs
      | None => match sum_double nn with Some s => AVal (VFloat s) | None => ANoDemand end
      end
  end.

(* AVG(e) = (double) SUM(e) / (double) COUNT(e) *)
Definition avg_spec (vs : list value) : ares :=
  match nonnull vs with
  | [] => AVal VNull
  | nn =>
      match sum_double nn with
      | Some s => match f_div s (f_of_int (zlen nn)) with Some a => AVal (VFloat a) | None => ANoDemand end
      | None => ANoDemand
      end
  end.

(* all values of one kind (integers, non-NaN doubles or text): comparable by cmp_values *)
Definition one_kind (vs : list value) : bool :=
  match ints_of vs, floats_of vs, texts_of vs with
  | Some _, _, _ => true
  | _, Some fs, _ => forallb (fun b => f_ok b && negb (f_is_nan b)) fs
  | _, _, Some _ => true
  | _, _, _ => false
  end.

(* the extremum of cur :: vs, keeping the earlier of equal values; want = Lt for MIN, Gt for MAX *)
Fixpoint extremum (want : comparison) (cur : value) (vs : list value) : option value :=
  match vs with
  | [] => Some cur
  | v :: t =>
      match cmp_values v cur with
      | Some (Some c) =>
          if match c, want with Lt, Lt | Gt, Gt => true | _, _ => false end
          then extremum want v t else extremum want cur t
      | _ => None
      end
  end.
Definition ext_spec (want : comparison) (vs : list value) : ares :=
  match nonnull vs with
  | [] => AVal VNull
  | v :: t =>
      if one_kind (v :: t)
      then match extremum want v t with Some m => AVal m | None => ANoDemand end
      else ANoDemand
  end.

Fixpoint map_opt {A B} (f : A -> option B) (l : list A) : option (list B) :=
  match l with
  | [] => Some []
  | a :: t => match f a, map_opt f t with Some b, Some bs => Some (b :: bs) | _, _ => None end
  end.

(* the aggregate over the values of its argument *)
Definition agg_vals (f : aggfn) (vs : list value) : ares :=
  match f with
  | FCountStar => AVal (VInt (zlen vs))
  | FCount => AVal (VInt (zlen (nonnull vs)))
  | FSum => sum_spec vs
  | FAvg => avg_spec vs
  | FMin => ext_spec Lt vs
  | FMax => ext_spec Gt vs
  end.
(* the aggregate over the rows of a group *)
Definition agg_spec (a : agg) (rows : list row) : ares :=
  match a_fn a with
  | FCountStar => AVal (VInt (zlen rows))
  | f => match map_opt (eval (a_arg a)) rows with
         | Some vs => agg_vals f vs
         | None => ANoDemand
         end
  end.

(* ------------------------------------------------------------------ groups *)
(* two key values fall into the same group: both NULL, or equal *)
Definition key_same1 (a b : value) : bool :=
  match a, b with
  | VNull, VNull => true
  | VNull, _ | _, VNull => false
  | _, _ => match cmp_values a b with Some (Some Eq) => true | _ => false end
  end.
Fixpoint key_same (a b : list value) : bool :=
  match a, b with
  | [], [] => true
  | x :: a', y :: b' => key_same1 x y && key_same a' b'
  | _, _ => false
  end.
(* the distinct keys, each at its first occurrence *)
Fixpoint distinct_keys (seen : list (list value)) (ks : list (list value)) : list (list value) :=
  match ks with
  | [] => []
  | k :: t =>
      if existsb (key_same k) seen then distinct_keys seen t
      else k :: distinct_keys (k :: seen) t
  end.
(* rows with their keys -> groups (key, rows of that key in table order) *)
Definition groups_of (krs : list (list value * row)) : list (list value * list row) :=
  map (fun k => (k, map snd (filter (fun kr => key_same k (fst kr)) krs)))
      (distinct_keys [] (map fst krs)).

(* column j of the keys holds values of one kind (besides NULL) *)
Fixpoint key_cols_ok (n : nat) (ks : list (list value)) : bool :=
  match n with
  | O => true
  | S n' => one_kind (nonnull (map (fun k => nth n' k VNull) ks)) && key_cols_ok n' ks
  end.

(* ------------------------------------------------------------------ queries *)
(* The group environment of a query is the row  k1 .. kn, a1 .. am  (key values, then the values
   of the aggregates q_aggs); q_sel lists the positions of the environment that are selected,
   q_having is a predicate over the environment (ECol i = position i). *)
Record aquery := mkQ {
  q_where : option expr;        (* over the table row *)
  q_keys : list expr;           (* over the table row *)
  q_aggs : list agg;            (* arguments over the table row *)
  q_sel : list nat;             (* positions of the environment *)
  q_having : option expr        (* over the environment *)
}.

Inductive sres := SNoDemand | SError | SRows (rs : list row).

Definition where_rows (w : option expr) (t : table) : option table :=
  match w with
  | None => Some t
  | Some e => if defined_on e t then Some (filter_spec e t) else None
  end.

(* the environments of the groups: None = no demand, Some (inl tt) = an error is demanded *)
Fixpoint agg_row (aggs : list agg) (rows : list row) : option (option (list value)) :=
  match aggs with
  | [] => Some (Some [])
  | a :: t =>
      match agg_spec a rows, agg_row t rows with
      | ANoDemand, _ | _, None => None
      | AError, _ | _, Some None => Some None
      | AVal v, Some (Some vs) => Some (Some (v :: vs))
      end
  end.
Fixpoint group_envs (aggs : list agg) (gs : list (list value * list row)) : option (option (list row)) :=
  match gs with
  | [] => Some (Some [])
  | (k, rows) :: t =>
      match agg_row aggs rows, group_envs aggs t with
      | None, _ | _, None => None
      | Some None, _ | _, Some None => Some None
      | Some (Some vs), Some (Some es) => Some (Some ((k ++ vs) :: es))
      end
  end.

Definition having_ok (h : option expr) (envs : list row) : bool :=
  match h with None => true | Some e => defined_on e envs end.
Definition having_rows (h : option expr) (envs : list row) : list row :=
  match h with None => envs | Some e => filter_spec e envs end.
Definition project (sel : list nat) (env : row) : option row := map_opt (nth_error env) sel.

Definition spec_query (q : aquery) (t : table) : sres :=
  match where_rows (q_where q) t with
  | None => SNoDemand
  | Some rows =>
      match map_opt (fun r => map_opt (fun k => eval k r) (q_keys q)) rows with
      | None => SNoDemand
      | Some ks =>
          if negb (key_cols_ok (length (q_keys q)) ks) then SNoDemand else
          let gs := match q_keys q with
                    | [] => [([], rows)]
                    | _ => groups_of (combine ks rows)
                    end in
          match group_envs (q_aggs q) gs with
          | None => SNoDemand
          | Some None => SError
          | Some (Some envs) =>
              if negb (having_ok (q_having q) envs) then SNoDemand else
              match map_opt (project (q_sel q)) (having_rows (q_having q) envs) with
              | Some out => SRows out
              | None => SNoDemand
              end
          end
      end
  end.

(* ------------------------------------------------------------------ comparing results *)
(* equal as SQL values: both NULL, or equal by value (0 = 0.0 = -0.0) *)
Definition val_equiv (a b : value) : bool := key_same1 a b.
Fixpoint row_equiv (a b : row) : bool :=
  match a, b with
  | [], [] => true
  | x :: a', y :: b' => val_equiv x y && row_equiv a' b'
  | _, _ => false
  end.
(* remove the first row equivalent to r *)
Fixpoint remove_equiv (r : row) (l : list row) : option (list row) :=
  match l with
  | [] => None
  | x :: t => if row_equiv r x then Some t else option_map (cons x) (remove_equiv r t)
  end.
(* equal as bags of rows *)
Fixpoint bag_equiv (a b : list row) : bool :=
  match a with
  | [] => match b with [] => true | _ => false end
  | r :: a' => match remove_equiv r b with Some b' => bag_equiv a' b' | None => false end
  end.
