(* C26 proofs, part 8: the statements of the property, assembled from the
   order-with-continuation and decode-after-encode theorems. *)
From Coq Require Import ZArith List Bool Lia ZifyBool.
From TV Require Import Lib.MachInt Lib.MachIntFacts Gen.KeyPrefix Model.KeySpec Model.Key Model.KeyKnown
  Proof.KeyBytes Proof.KeyScalar Proof.KeySeq Proof.KeyJson Proof.KeySval Proof.KeySdec Proof.KeyNested.
Import ListNotations.
Open Scope Z_scope.

Ltac Zify.zify_post_hook ::= Z.to_euclidean_division_equations.

(* the hypotheses the theorems share: a well-formed input, outside the recorded defect classes *)
Definition good (v : kval) : bool := kwf v && known_free v.

Lemma good_wf v : good v = true -> kwf v = true.
Proof. unfold good. intros H. apply andb_true_iff in H. tauto. Qed.
Lemma good_free v : good v = true -> known_free v = true.
Proof. unfold good. intros H. apply andb_true_iff in H. tauto. Qed.

(* ------------------------------------------------------------------ order *)
Lemma enc_order_l : forall a b, good a = true -> good b = true -> orderable a = true -> orderable b = true ->
  lex_cmp (enc a) (enc b) = vcmp a b.
Proof.
  intros a b Ga Gb Oa Ob.
  pose proof (enc_order_ext a b [] [] (good_wf _ Ga) (good_wf _ Gb) (good_free _ Ga) (good_free _ Gb) Oa Ob) as H.
  rewrite !app_nil_r in H. rewrite H. cbn [lex_cmp]. apply cthen_Eq_r.
Qed.

Lemma enc_nonempty v : kwf v = true -> exists b t, enc v = b :: t.
Proof. intros W. destruct (enc_head v W) as [t E]. eauto. Qed.

Lemma enc_tuple_order_l : forall xs ys,
  forallb good xs = true -> forallb good ys = true ->
  forallb orderable xs = true -> forallb orderable ys = true ->
  lex_cmp (enc_tuple xs) (enc_tuple ys) = tcmp xs ys.
Proof.
  unfold tcmp, enc_tuple.
  induction xs as [|x xs IH]; intros [|y ys] Gx Gy Ox Oy; cbn [forallb] in *.
  - reflexivity.
  - apply andb_true_iff in Gy. destruct Gy as [Gy _].
    destruct (enc_nonempty y (good_wf _ Gy)) as (b & t & E). cbn [flat_map lex_by]. rewrite E. reflexivity.
  - apply andb_true_iff in Gx. destruct Gx as [Gx _].
    destruct (enc_nonempty x (good_wf _ Gx)) as (b & t & E). cbn [flat_map lex_by]. rewrite E. reflexivity.
  - apply andb_true_iff in Gx, Gy, Ox, Oy.
    destruct Gx as [Gx Gxs], Gy as [Gy Gys], Ox as [Ox Oxs], Oy as [Oy Oys].
    cbn [flat_map lex_by].
    rewrite (enc_order_ext x y _ _ (good_wf _ Gx) (good_wf _ Gy) (good_free _ Gx) (good_free _ Gy) Ox Oy).
    rewrite IH by assumption. reflexivity.
Qed.

(* ------------------------------------------------------------------ invertibility *)
Lemma dec_enc_l : forall a rest fuel, good a = true -> (ksize a <= fuel)%nat ->
  dec fuel (enc a ++ rest) = ROk (canon a) (blen (enc a)).
Proof. intros a rest fuel G Hf. apply dec_enc_ext; auto using good_wf, good_free. Qed.

Lemma dec_cols_enc_l : forall xs fuel, forallb good xs = true ->
  (forall x, In x xs -> (ksize x <= fuel)%nat) ->
  dec_cols (length xs) fuel (enc_tuple xs) = Some (map canon xs).
Proof.
  unfold enc_tuple. induction xs as [|x xs IH]; intros fuel G Hf.
  - reflexivity.
  - cbn [forallb] in G. apply andb_true_iff in G. destruct G as [Gx G].
    cbn [length flat_map dec_cols map].
    rewrite dec_enc_l by (try exact Gx; apply Hf; left; reflexivity).
    rewrite drop_app_len. rewrite IH by (try exact G; intros; apply Hf; right; assumption).
    reflexivity.
Qed.

Lemma app_eq_len (u1 : list Z) : forall u2 r1 r2, length u1 = length u2 -> u1 ++ r1 = u2 ++ r2 -> u1 = u2 /\ r1 = r2.
Proof.
  induction u1 as [|x u1 IH]; intros [|y u2] r1 r2 HL E; cbn [length] in HL; try discriminate.
  - split; [reflexivity|exact E].
  - cbn [app] in E. injection E as -> E. destruct (IH u2 r1 r2 ltac:(lia) E) as [-> ->]. split; reflexivity.
Qed.

(* no key is a proper prefix of another, and equal keys mean equal values *)
Lemma enc_prefix_free_l : forall a b r1 r2, good a = true -> good b = true ->
  enc a ++ r1 = enc b ++ r2 -> canon a = canon b /\ enc a = enc b /\ r1 = r2.
Proof.
  intros a b r1 r2 Ga Gb E.
  pose proof (dec_enc_l a r1 (ksize a + ksize b) Ga ltac:(lia)) as Da.
  pose proof (dec_enc_l b r2 (ksize a + ksize b) Gb ltac:(lia)) as Db.
  rewrite E in Da. rewrite Da in Db. injection Db as Ec El.
  assert (Hlen : length (enc a) = length (enc b)) by (unfold blen in El; lia).
  destruct (app_eq_len _ _ _ _ Hlen E) as [Henc Er].
  repeat split; assumption.
Qed.

(* canonical forms encode like the original *)
Lemma senc_scanon s : swf s = true -> senc (scanon s) = senc s.
Proof.
  intros W. destruct s; try reflexivity. cbn [swf] in W. cbn [scanon senc].
  destruct (float_cases bits W) as [Cf Ef Nf|Cf Ef Nf Mf Sf|Cf Ef Nf Vf|Cf Ef Nf Vf|Cf Ef Nf Vf Sf|Cf Ef Nf Vf Sf];
    rewrite Ef, Nf; try reflexivity.
  - destruct (split64 bits W) as [Hm Hb]. unfold SIGN64, INF64 in *.
    destruct (Z.eqb_spec bits (9223372036854775808 + 9218868437227405312)); [destruct (neg64 bits); lia|].
    destruct (Z.eqb_spec bits 9218868437227405312); [destruct (neg64 bits); lia|].
    rewrite Mf. reflexivity.
  - subst. reflexivity.
  - subst. reflexivity.
  - destruct (split64 bits W) as [Hm Hb]. unfold SIGN64, INF64 in *.
    destruct (Z.eqb_spec bits (9223372036854775808 + 9218868437227405312)); [lia|].
    destruct (Z.eqb_spec bits 9218868437227405312); [lia|].
    destruct (Z.eqb_spec (mag64 bits) 0); [destruct (neg64 bits); lia|].
    cbn [senc]. exact Ef.
  - destruct (split64 bits W) as [Hm Hb]. unfold SIGN64, INF64 in *.
    destruct (Z.eqb_spec bits (9223372036854775808 + 9218868437227405312)); [lia|].
    destruct (Z.eqb_spec bits 9218868437227405312); [lia|].
    destruct (Z.eqb_spec (mag64 bits) 0); [destruct (neg64 bits); lia|].
    cbn [senc]. exact Ef.
Qed.

Lemma map_enc_canon l : Forall (fun v => kwf v = true -> enc (canon v) = enc v) l -> forallb kwf l = true ->
  map enc (map canon l) = map enc l.
Proof.
  intros IH W. rewrite map_map. apply map_ext_in. intros x Hx.
  rewrite Forall_forall in IH. apply IH; [exact Hx|]. eapply forallb_in; eassumption.
Qed.

Lemma enc_canon : forall v, kwf v = true -> enc (canon v) = enc v.
Proof.
  induction v as [s | l IH | l IH | lo hi li ui IHlo IHhi | t l IH | t v IH] using kval_ind2; intros W;
    cbn [kwf] in W; cbn [canon enc].
  - apply senc_scanon. exact W.
  - rewrite map_enc_canon by assumption. reflexivity.
  - rewrite map_enc_canon by assumption. reflexivity.
  - apply andb_true_iff in W. destruct W as [Wlo Whi].
    assert (Hf : range_flags (option_map canon lo) (option_map canon hi) li ui = range_flags lo hi li ui)
      by (destruct lo, hi; reflexivity).
    rewrite Hf. do 2 f_equal. f_equal.
    + destruct lo as [x|]; [|reflexivity]. cbn [option_map]. apply IHlo; [reflexivity|exact Wlo].
    + destruct hi as [x|]; [|reflexivity]. cbn [option_map]. apply IHhi; [reflexivity|exact Whi].
  - apply andb_true_iff in W. destruct W as [_ W]. rewrite map_enc_canon by assumption. reflexivity.
  - apply andb_true_iff in W. destruct W as [_ W]. rewrite IH by exact W. reflexivity.
Qed.

(* distinct values <-> distinct keys, where "the same value" is canon (zero, NaN) *)
Lemma enc_injective_l : forall a b, good a = true -> good b = true ->
  (enc a = enc b <-> canon a = canon b).
Proof.
  intros a b Ga Gb. split.
  - intros E. apply (enc_prefix_free_l a b [] [] Ga Gb). rewrite E. reflexivity.
  - intros E. rewrite <- (enc_canon a (good_wf _ Ga)), <- (enc_canon b (good_wf _ Gb)), E. reflexivity.
Qed.

Lemma enc_tuple_injective_l : forall xs ys, forallb good xs = true -> forallb good ys = true ->
  enc_tuple xs = enc_tuple ys -> map canon xs = map canon ys.
Proof.
  unfold enc_tuple. induction xs as [|x xs IH]; intros [|y ys] Gx Gy E; cbn [forallb] in *.
  - reflexivity.
  - apply andb_true_iff in Gy. destruct Gy as [Gy _].
    destruct (enc_nonempty y (good_wf _ Gy)) as (b & t & Eb). cbn [flat_map] in E. rewrite Eb in E. discriminate.
  - apply andb_true_iff in Gx. destruct Gx as [Gx _].
    destruct (enc_nonempty x (good_wf _ Gx)) as (b & t & Eb). cbn [flat_map] in E. rewrite Eb in E. discriminate.
  - apply andb_true_iff in Gx, Gy. destruct Gx as [Gx Gxs], Gy as [Gy Gys].
    cbn [flat_map] in E. destruct (enc_prefix_free_l x y _ _ Gx Gy E) as (Ec & _ & Er).
    cbn [map]. rewrite Ec. f_equal. apply IH; assumption.
Qed.

(* ------------------------------------------------------------------ class 0 of the correspondence = known_free *)
Lemma existsb_orf {A} (p q : A -> bool) l : existsb (fun x => p x || q x) l = existsb p l || existsb q l.
Proof.
  induction l as [|x l IH]; [reflexivity|]. cbn [existsb]. rewrite IH.
  destruct (p x), (q x), (existsb p l), (existsb q l); reflexivity.
Qed.

Lemma existsb_ext_in {A} (f g : A -> bool) l : (forall x, In x l -> f x = g x) -> existsb f l = existsb g l.
Proof.
  induction l as [|x l IH]; intros H; [reflexivity|]. cbn [existsb].
  rewrite (H x (or_introl eq_refl)), IH by (intros; apply H; right; assumption). reflexivity.
Qed.

Lemma kany_or (p q : sval -> bool) : forall v, kany (fun s => p s || q s) v = kany p v || kany q v.
Proof.
  assert (HL : forall l, Forall (fun v => kany (fun s => p s || q s) v = kany p v || kany q v) l ->
               existsb (kany (fun s => p s || q s)) l = existsb (kany p) l || existsb (kany q) l).
  { intros l IH. rewrite Forall_forall in IH. rewrite <- existsb_orf. apply existsb_ext_in. exact IH. }
  induction v as [s | l IH | l IH | lo hi li ui IHlo IHhi | t l IH | t v IH] using kval_ind2; cbn [kany]; auto.
  destruct lo as [x|], hi as [y|]; rewrite ?(IHlo _ eq_refl), ?(IHhi _ eq_refl);
    repeat match goal with |- context [kany ?f ?z] => destruct (kany f z) end; reflexivity.
Qed.

Lemma kclass_of_zero_l : forall v, kclass_of v = 0 <-> known_free v = true.
Proof.
  intros v. unfold kclass_of, known_free, s_known.
  destruct (kany s_class3 v); cbn; split; intros H; try reflexivity; try discriminate.
Qed.

(* ------------------------------------------------------------------ the spec order means what it says *)
Lemma vcmp_int_l : forall x y, vcmp (KS (SInt x)) (KS (SInt y)) = (x ?= y).
Proof.
  intros x y. cbn [vcmp]. unfold scmp. cbn [sclass swithin].
  destruct (Z.ltb_spec x 0); destruct (Z.ltb_spec y 0);
    try (destruct (Z.eqb_spec x 0)); try (destruct (Z.eqb_spec y 0)); cbn [Z.compare cthen];
    try reflexivity; subst;
    symmetry; try (apply Z.compare_lt_iff; lia); try (apply Z.compare_gt_iff; lia).
Qed.

(* on non-NaN doubles: the order of the real numbers they denote (sign-magnitude, -0.0 = +0.0) *)
Lemma vcmp_float_l : forall x y, in_u 64 x = true -> in_u 64 y = true ->
  is_nan64 x = false -> is_nan64 y = false ->
  vcmp (KS (SFloat x)) (KS (SFloat y)) = (sm64 x ?= sm64 y).
Proof.
  intros x y Wx Wy Nx Ny. cbn [vcmp]. unfold scmp. cbn [sclass swithin]. rewrite Nx.
  destruct (float_cases x Wx) as [Cf Ef Nf|Cf Ef Nf Mf Sf|Cf Ef Nf Vf|Cf Ef Nf Vf|Cf Ef Nf Vf Sf|Cf Ef Nf Vf Sf];
    try congruence;
  destruct (float_cases y Wy) as [Cg Eg Ng|Cg Eg Ng Mg Sg|Cg Eg Ng Vg|Cg Eg Ng Vg|Cg Eg Ng Vg Sg|Cg Eg Ng Vg Sg];
    try congruence; rewrite Cf, Cg; cbn [Z.compare Pos.compare Pos.compare_cont cthen]; try reflexivity;
  destruct (split64 x Wx) as [Hmx Hbx]; destruct (split64 y Wy) as [Hmy Hby];
  unfold sm64, SIGN64, INF64 in *; destruct (neg64 x), (neg64 y);
  symmetry; try (apply Z.compare_lt_iff; lia); try (apply Z.compare_gt_iff; lia); try (apply Z.compare_eq_iff; lia).
Qed.

(* ------------------------------------------------------------------ vector components / JSON numbers:
   the order proved for them is IEEE-754 totalOrder on the bit patterns (tot32 / tot64).  It
   refines the numeric order (so -0.0 < +0.0 is the only place where it says more), puts every
   NaN with the sign bit below every non-NaN and every NaN without it above. *)
Lemma tot32_refines_l : forall x y, in_u 32 x = true -> in_u 32 y = true -> sm32 x < sm32 y -> tot32 x < tot32 y.
Proof.
  intros x y Wx Wy. destruct (split32 x Wx) as [Hx _]. destruct (split32 y Wy) as [Hy _].
  unfold sm32, tot32, SIGN32 in *. destruct (neg32 x), (neg32 y); lia.
Qed.
Lemma tot64_refines_l : forall x y, in_u 64 x = true -> in_u 64 y = true -> sm64 x < sm64 y -> tot64 x < tot64 y.
Proof.
  intros x y Wx Wy. destruct (split64 x Wx) as [Hx _]. destruct (split64 y Wy) as [Hy _].
  unfold sm64, tot64, SIGN64 in *. destruct (neg64 x), (neg64 y); lia.
Qed.
Lemma tot32_nan_l : forall x y, in_u 32 x = true -> in_u 32 y = true -> is_nan32 x = true -> is_nan32 y = false ->
  if neg32 x then tot32 x < tot32 y else tot32 y < tot32 x.
Proof.
  intros x y Wx Wy Nx Ny. destruct (split32 x Wx) as [Hx _]. destruct (split32 y Wy) as [Hy _].
  unfold is_nan32, tot32, SIGN32, INF32 in *. destruct (neg32 x), (neg32 y); lia.
Qed.
Lemma tot64_nan_l : forall x y, in_u 64 x = true -> in_u 64 y = true -> is_nan64 x = true -> is_nan64 y = false ->
  if neg64 x then tot64 x < tot64 y else tot64 y < tot64 x.
Proof.
  intros x y Wx Wy Nx Ny. destruct (split64 x Wx) as [Hx _]. destruct (split64 y Wy) as [Hy _].
  unfold is_nan64, tot64, SIGN64, INF64 in *. destruct (neg64 x), (neg64 y); lia.
Qed.

(* ------------------------------------------------------------------ the recorded defect is real in the model *)
(* class 3: {"": null} decodes as {} (2 bytes used), the key of {} is a proper prefix of its key,
   and a two-column key starting with it sorts on the wrong side *)
Lemma class3_refuted_l :
  exists a b c, kwf a = true /\ kwf b = true /\ kwf c = true
    /\ orderable a = true /\ orderable b = true /\ orderable c = true
    /\ kclass_of a = 3 /\ known_free b = true /\ known_free c = true
    /\ dec 10 (enc a) <> ROk (canon a) (blen (enc a))
    /\ (exists r, r <> [] /\ enc a = enc b ++ r)
    /\ lex_cmp (enc_tuple [b; c]) (enc_tuple [a; c]) <> tcmp [b; c] [a; c].
Proof.
  exists (KS (SJson (JObj [([], JNull)]))), (KS (SJson (JObj []))), (KS (SInt 7)).
  repeat split; try (vm_compute; reflexivity); try (vm_compute; discriminate).
  exists [0; 80; 0]. split; [discriminate | vm_compute; reflexivity].
Qed.
