//! C06 -- a failing statement has no effect.  Shares dml_common with C05 (same histories and
//! observations, a generator profile rich in failing statements); judged by coq/Corr/C06.v.
#[path = "sqlgen/mod.rs"]
mod sqlgen;
#[path = "dml_common/mod.rs"]
mod dml_common;
fn main() { dml_common::main_for("C06"); }
