//! C19 -- equivalent query formulations return identical results.
//! Every generated query is executed on the real `turdb::Database` together with its generated
//! rewrites (operand order of AND / OR, re-association, De Morgan, double negation, IN / BETWEEN
//! expansion, always-true conjuncts, select-item order, FROM order, ON <-> WHERE for inner joins,
//! surface syntax) and with its ternary-logic partition (WHERE p / NOT p / p IS NULL / no WHERE).
//! In addition the REAL optimizer rules ConstantFoldingRule and PredicatePushdownRule are applied
//! to the logical plan of generated queries and what they did is reported, for the rule models
//! coq/Model/ConstFold.v / Pushdown.v.  coq/Corr/C19.v judges everything.
//!   c19 gen    --seed S --tier T --out DIR [--lines FILE]
//!   c19 search --seed S --budget N --out FILE     (oracle only: results of equivalent formulations must agree)
//!   c19 sql FILE                                   (debug: run the statements of FILE, print results)
//!   c19 probe [--seed S] [--budget N]              (debug: print disagreeing formulations)
#[path = "sqlgen/mod.rs"]
mod sqlgen;
#[path = "sqlgen_c19/mod.rs"]
mod q19;
use q19::*;
use sqlgen::*;
use std::collections::HashMap;
use std::path::PathBuf;
use tvh::*;
use turdb::{Database, OwnedValue};

fn main() {
    let a = Args::parse();
    match a.mode.as_str() {
        "gen" => gen(&a),
        "search" => search(&a),
        "sql" => sql_mode(&a),
        "probe" => probe(&a),
        "explain" => explain(&a),
        _ => { eprintln!("c19: unknown mode"); std::process::exit(2); }
    }
}

// ------------------------------------------------------------------ the database under test
/// scratch directory of this process: /dev/shm/c19-<pid> (or <verif>/build/tmp/c19-<pid>), removed at the end
fn scratch_root() -> PathBuf {
    let shm = PathBuf::from("/dev/shm");
    if shm.is_dir() { return shm.join(format!("c19-{}", std::process::id())); }
    let exe = std::env::current_exe().ok();
    let base = exe.as_ref().and_then(|p| p.parent()).and_then(|p| p.parent()).and_then(|p| p.parent())
        .map(|p| p.join("tmp")).unwrap_or_else(|| PathBuf::from("/verif/build/tmp"));
    base.join(format!("c19-{}", std::process::id()))
}

struct Sut { db: Option<Database>, dir: PathBuf, seq: u64, loaded: Option<Vec<Table>> }

/// what a query returned: rows (in return order) / error / panic
#[derive(Clone, Debug, PartialEq)]
enum Res { Rows(Vec<Vec<Val>>), Err(String), Panic(String) }

fn to_val(o: &OwnedValue) -> Val {
    match o {
        OwnedValue::Null => Val::Null,
        OwnedValue::Int(i) => Val::Int(*i),
        OwnedValue::Float(f) => Val::Float(f.to_bits()),
        OwnedValue::Text(s) => Val::Text(s.as_bytes().to_vec()),
        OwnedValue::Bool(b) => Val::Bool(*b),
        o => Val::Text(format!("?{:?}", o).into_bytes()),
    }
}
fn same_value(v: &Val, o: &OwnedValue) -> bool { *v == to_val(o) }

impl Sut {
    fn new() -> Sut { Sut { db: None, dir: scratch_root(), seq: 0, loaded: None } }
    fn close(&mut self) { self.db = None; self.loaded = None; }
    fn cleanup(&mut self) { self.close(); let _ = std::fs::remove_dir_all(&self.dir); }
    /// fresh database holding exactly the tables `ts`; the stored rows are read back and compared
    fn load(&mut self, ts: &[Table]) -> Result<(), String> {
        self.close();
        self.seq += 1;
        let _ = std::fs::remove_dir_all(&self.dir);
        std::fs::create_dir_all(&self.dir).map_err(|e| format!("mkdir: {}", e))?;
        let path = self.dir.join(format!("db{}", self.seq));
        let t2: Vec<Table> = ts.to_vec();
        let res = catch(std::panic::AssertUnwindSafe(move || -> Result<Database, String> {
            let db = Database::create(&path).map_err(|e| format!("create: {:#}", e))?;
            for t in &t2 {
                db.execute(&t.create_sql()).map_err(|e| format!("ddl: {:#}", e))?;
                for r in 0..t.rows.len() { db.execute(&t.insert_sql(r)).map_err(|e| format!("insert: {:#}", e))?; }
                let back = db.query(&format!("SELECT * FROM {}", t.name)).map_err(|e| format!("readback: {:#}", e))?;
                if back.len() != t.rows.len() { return Err(format!("readback: {} rows, expected {}", back.len(), t.rows.len())); }
                for (row, got) in t.rows.iter().zip(back.iter()) {
                    if row.len() != got.values.len() || !row.iter().zip(got.values.iter()).all(|(v, o)| same_value(v, o)) {
                        return Err(format!("readback: stored row differs: {:?} vs {:?}", row, got.values));
                    }
                }
            }
            Ok(db)
        }));
        match res {
            Caught::Done(Ok(db)) => { self.db = Some(db); self.loaded = Some(ts.to_vec()); Ok(()) }
            Caught::Done(Err(e)) => Err(e),
            Caught::Panicked(m) => Err(format!("panic during setup: {}", m)),
        }
    }
    fn ensure(&mut self, ts: &[Table]) -> Result<(), String> {
        if self.db.is_some() && self.loaded.as_deref() == Some(ts) { Ok(()) } else { self.load(ts) }
    }
    fn run(&mut self, ts: &[Table], sql: &str) -> Res {
        if let Err(m) = self.ensure(ts) { return Res::Err(format!("setup: {}", m)); }
        let db = self.db.as_ref().expect("db");
        let r = catch(std::panic::AssertUnwindSafe(|| db.query(sql).map_err(|e| format!("{:#}", e))));
        match r {
            Caught::Panicked(m) => { self.close(); Res::Panic(m) }      // do not trust a database that panicked
            Caught::Done(Err(m)) => Res::Err(m),
            Caught::Done(Ok(rows)) => Res::Rows(rows.iter().map(|r| r.values.iter().map(to_val).collect()).collect()),
        }
    }
}

// ------------------------------------------------------------------ the real optimizer rules, applied in isolation
mod rules {
    use super::*;
    use turdb::records::types::DataType;
    use turdb::schema::{Catalog, ColumnDef};
    use turdb::sql::ast::{BinaryOperator, Expr as AExpr, Literal, UnaryOperator};
    use turdb::sql::optimizer::rules::{ConstantFoldingRule, PredicatePushdownRule};
    use turdb::sql::optimizer::OptimizationRule;
    use turdb::sql::planner::{LogicalOperator, Planner};
    use turdb::sql::Parser;

    #[derive(Clone, Debug, PartialEq)]
    pub enum FoldOut { NoChange, Removed, False, Simp(Expr), Other(String) }
    #[derive(Clone, Debug, PartialEq)]
    pub enum PushOut { Stay, Left, Right, Other(String) }

    impl FoldOut {
        pub fn coq(&self) -> String {
            match self { FoldOut::NoChange => "FNoChange".into(), FoldOut::Removed => "FRemoved".into(), FoldOut::False => "FFalse".into(),
                         FoldOut::Simp(e) => format!("(FSimp {})", e.to_coq()), FoldOut::Other(_) => "FOther".into() }
        }
        pub fn bucket(&self) -> &'static str {
            match self { FoldOut::NoChange => "fold:no_change", FoldOut::Removed => "fold:filter_removed", FoldOut::False => "fold:constant_false",
                         FoldOut::Simp(_) => "fold:simplified", FoldOut::Other(_) => "fold:other" }
        }
    }
    impl PushOut {
        pub fn coq(&self) -> String { match self { PushOut::Stay => "PStay".into(), PushOut::Left => "PLeft".into(), PushOut::Right => "PRight".into(), PushOut::Other(_) => "POther".into() } }
        pub fn bucket(&self) -> &'static str { match self { PushOut::Stay => "push:stays", PushOut::Left => "push:to_left_input", PushOut::Right => "push:to_right_input", PushOut::Other(_) => "push:other" } }
    }

    fn catalog_of(db: &[Table]) -> Result<Catalog, String> {
        let mut c = Catalog::new();
        for t in db {
            let cols: Vec<ColumnDef> = t.cols.iter().enumerate().map(|(j, ty)| ColumnDef::new(col_name(j), match ty { ColTy::Int => DataType::Int8, ColTy::Float => DataType::Float8, ColTy::Text => DataType::Text })).collect();
            c.create_table("", &t.name, cols).map_err(|e| format!("catalog: {:#}", e))?;
        }
        Ok(c)
    }

    /// turdb AST -> sqlgen expression (the fragment the generators print); names[i] = qualified name of column i
    fn conv(e: &AExpr, names: &[String]) -> Result<Expr, String> {
        let b = |x: &AExpr| -> Result<Box<Expr>, String> { Ok(Box::new(conv(x, names)?)) };
        match e {
            AExpr::Literal(Literal::Null) => Ok(Expr::Lit(Val::Null)),
            AExpr::Literal(Literal::Boolean(v)) => Ok(Expr::Lit(Val::Bool(*v))),
            AExpr::Literal(Literal::Integer(s)) => s.parse::<i64>().map(|i| Expr::Lit(Val::Int(i))).map_err(|_| format!("integer {}", s)),
            AExpr::Literal(Literal::Float(s)) => s.parse::<f64>().map(|f| Expr::Lit(Val::float(f))).map_err(|_| format!("float {}", s)),
            AExpr::Literal(Literal::String(s)) => Ok(Expr::Lit(Val::text(s))),
            AExpr::Column(c) => {
                let q = match c.table { Some(t) => format!("{}.{}", t, c.column), None => c.column.to_string() };
                names.iter().position(|n| *n == q || (c.table.is_none() && n.ends_with(&format!(".{}", c.column)))).map(Expr::Col).ok_or(format!("column {}", q))
            }
            AExpr::UnaryOp { op: UnaryOperator::Not, expr } => Ok(Expr::Not(b(expr)?)),
            AExpr::UnaryOp { op: UnaryOperator::Minus, expr } => match conv(expr, names)? {
                Expr::Lit(Val::Int(i)) => Ok(Expr::Lit(Val::Int(i.wrapping_neg()))),
                Expr::Lit(Val::Float(f)) => Ok(Expr::Lit(Val::float(-f64::from_bits(f)))),
                x => Err(format!("minus {:?}", x)),
            },
            AExpr::BinaryOp { left, op, right } => {
                let (l, r) = (b(left)?, b(right)?);
                Ok(match op {
                    BinaryOperator::And => Expr::And(l, r), BinaryOperator::Or => Expr::Or(l, r),
                    BinaryOperator::Eq => Expr::Cmp(CmpOp::Eq, l, r), BinaryOperator::NotEq => Expr::Cmp(CmpOp::Ne, l, r),
                    BinaryOperator::Lt => Expr::Cmp(CmpOp::Lt, l, r), BinaryOperator::LtEq => Expr::Cmp(CmpOp::Le, l, r),
                    BinaryOperator::Gt => Expr::Cmp(CmpOp::Gt, l, r), BinaryOperator::GtEq => Expr::Cmp(CmpOp::Ge, l, r),
                    BinaryOperator::Plus => Expr::Arith(ArithOp::Add, l, r), BinaryOperator::Minus => Expr::Arith(ArithOp::Sub, l, r),
                    BinaryOperator::Multiply => Expr::Arith(ArithOp::Mul, l, r),
                    o => return Err(format!("operator {:?}", o)),
                })
            }
            AExpr::Between { expr, negated, low, high } => Ok(Expr::Between(*negated, b(expr)?, b(low)?, b(high)?)),
            AExpr::InList { expr, negated, list } => { let mut l = vec![]; for x in list.iter() { l.push(conv(x, names)?); } Ok(Expr::In(*negated, b(expr)?, l)) }
            AExpr::Like { expr, negated, pattern, escape: None, case_insensitive: false } => Ok(Expr::Like(*negated, b(expr)?, b(pattern)?)),
            AExpr::IsNull { expr, negated } => Ok(Expr::IsNull(*negated, b(expr)?)),
            o => Err(format!("expression {:?}", o)),
        }
    }

    /// ConstantFoldingRule applied once to the logical plan of `SELECT .. FROM t WHERE e`
    pub fn observe_fold(db: &[Table], q: &Query) -> FoldOut {
        let sql = q.to_sql(db);
        let names = col_names(&q.from, db, false);
        let r = catch(std::panic::AssertUnwindSafe(|| -> Result<FoldOut, String> {
            let cat = catalog_of(db)?;
            let arena = Default::default();
            let mut parser = Parser::new(&sql, &arena);
            let stmt = parser.parse_statement().map_err(|e| format!("parse: {:#}", e))?;
            let planner = Planner::new(&cat, &arena);
            let plan = planner.create_logical_plan(&stmt).map_err(|e| format!("plan: {:#}", e))?;
            let before = match plan.root { LogicalOperator::Project(p) => p.input, _ => return Err("plan root is not a projection".into()) };
            if !matches!(before, LogicalOperator::Filter(_)) { return Err("no filter in the plan".into()); }
            let out = ConstantFoldingRule.apply(plan.root, &arena).map_err(|e| format!("rule: {:#}", e))?;
            let new_root = match out { None => return Ok(FoldOut::NoChange), Some(r) => r };
            let inner = match new_root { LogicalOperator::Project(p) => p.input, _ => return Err("new root is not a projection".into()) };
            Ok(match inner {
                LogicalOperator::Filter(f) => match f.predicate {
                    AExpr::Literal(Literal::Boolean(false)) => FoldOut::False,
                    p => FoldOut::Simp(conv(p, &names)?),
                },
                _ => FoldOut::Removed,
            })
        }));
        match r { Caught::Done(Ok(o)) => o, Caught::Done(Err(m)) => FoldOut::Other(m), Caught::Panicked(m) => FoldOut::Other(format!("panic: {}", m)) }
    }

    /// PredicatePushdownRule applied once to the logical plan of a two-input join query with WHERE
    pub fn observe_push(db: &[Table], q: &Query) -> PushOut {
        let sql = q.to_sql(db);
        let r = catch(std::panic::AssertUnwindSafe(|| -> Result<PushOut, String> {
            let cat = catalog_of(db)?;
            let arena = Default::default();
            let mut parser = Parser::new(&sql, &arena);
            let stmt = parser.parse_statement().map_err(|e| format!("parse: {:#}", e))?;
            let planner = Planner::new(&cat, &arena);
            let plan = planner.create_logical_plan(&stmt).map_err(|e| format!("plan: {:#}", e))?;
            let out = PredicatePushdownRule.apply(plan.root, &arena).map_err(|e| format!("rule: {:#}", e))?;
            let new_root = match out { None => return Ok(PushOut::Stay), Some(r) => r };
            let inner = match new_root { LogicalOperator::Project(p) => p.input, _ => return Err("new root is not a projection".into()) };
            match inner {
                LogicalOperator::Join(j) => {
                    let (lf, rf) = (matches!(j.left, LogicalOperator::Filter(_)), matches!(j.right, LogicalOperator::Filter(_)));
                    match (lf, rf) { (true, false) => Ok(PushOut::Left), (false, true) => Ok(PushOut::Right), _ => Err("join without exactly one filtered input".into()) }
                }
                LogicalOperator::Filter(_) => Err("changed plan still has the filter on top".into()),
                _ => Err("unexpected plan shape".into()),
            }
        }));
        match r { Caught::Done(Ok(o)) => o, Caught::Done(Err(m)) => PushOut::Other(m), Caught::Panicked(m) => PushOut::Other(format!("panic: {}", m)) }
    }
}
use rules::*;

// ------------------------------------------------------------------ cases
/// a metamorphic case: the base query, its rewrites, and whether the TLP partition is taken
#[derive(Clone, Debug)]
struct MetaCase { db: Vec<Table>, q: Query, rws: Vec<Rewrite>, tlp: bool }
#[derive(Clone, Debug)]
enum Case { Meta(MetaCase), Fold(Vec<Table>, Query), Push(Vec<Table>, Query) }

fn db_line(db: &[Table]) -> String { db.iter().map(table_section).collect::<Vec<_>>().join(" | ") }

impl Case {
    /// meta | <n tables> | T.. | F .. | W .. | S .. | Y .. | R .. | R .. | tlp
    fn to_line(&self) -> String {
        match self {
            Case::Meta(m) => {
                let mut s = format!("meta | {} | {} | {}", m.db.len(), db_line(&m.db), m.q.to_line());
                for r in &m.rws { s.push_str(" | R "); s.push_str(&r.to_line()); }
                if m.tlp { s.push_str(" | tlp"); }
                s
            }
            Case::Fold(db, q) => format!("fold | {} | {} | {}", db.len(), db_line(db), q.to_line()),
            Case::Push(db, q) => format!("push | {} | {} | {}", db.len(), db_line(db), q.to_line()),
        }
    }
    fn from_line(l: &str) -> Option<Case> {
        let l = l.split(" #").next().unwrap_or(l).trim();
        let parts: Vec<&str> = l.split(" | ").collect();
        if parts.len() < 7 { return None; }
        let n: usize = parts[1].trim().parse().ok()?;
        if n == 0 || parts.len() < 2 + n + 4 { return None; }
        let mut db = vec![];
        for i in 0..n { db.push(parse_table_section(&format!("t{}", i), parts[2 + i])?); }
        let sec = |k: usize, p: &str| -> Option<&str> { parts.get(2 + n + k)?.strip_prefix(p) };
        let q = parse_query_sections(sec(0, "F ")?, sec(1, "W ")?, sec(2, "S ")?, sec(3, "Y ")?)?;
        // every column reference must exist
        let w = q.from.width(&db);
        let mut ok = true;
        let mut chk = |e: &Expr| e.walk(&mut |x| if let Expr::Col(i) = x { if *i >= w { ok = false; } });
        if let Some(e) = &q.wh { chk(e); }
        for e in &q.items { chk(e); }
        if !ok { return None; }
        match parts[0].trim() {
            "meta" => {
                let mut rws = vec![]; let mut tlp = false;
                for p in &parts[2 + n + 4..] {
                    if p.trim() == "tlp" { tlp = true; } else { rws.push(Rewrite::from_line(p.trim().strip_prefix("R ")?)?); }
                }
                Some(Case::Meta(MetaCase { db, q, rws, tlp }))
            }
            "fold" => Some(Case::Fold(db, q)),
            "push" => Some(Case::Push(db, q)),
            _ => None,
        }
    }
}

fn db_coq(db: &[Table]) -> String {
    format!("[{}]", db.iter().map(|t| format!("({}%nat, {})", t.cols.len(), t.to_coq())).collect::<Vec<_>>().join("; "))
}

/// rows of all results of one case are printed once, in a dictionary
struct Dict { rows: Vec<Vec<Val>>, index: HashMap<String, usize> }
impl Dict {
    fn new() -> Dict { Dict { rows: vec![], index: HashMap::new() } }
    fn id(&mut self, r: &[Val]) -> usize {
        let k = r.iter().map(|v| v.to_tok()).collect::<Vec<_>>().join(",");
        if let Some(i) = self.index.get(&k) { return *i; }
        let i = self.rows.len();
        self.rows.push(r.to_vec());
        self.index.insert(k, i);
        i
    }
    fn res(&mut self, r: &Res) -> String {
        match r {
            Res::Rows(rows) => format!("(RRows [{}]%nat)", rows.iter().map(|x| self.id(x).to_string()).collect::<Vec<_>>().join(";")),
            Res::Err(_) => "RErr".into(),
            Res::Panic(_) => "RPanic".into(),
        }
    }
    fn coq(&self) -> String {
        format!("[{}]", self.rows.iter().map(|r| format!("[{}]", r.iter().map(|v| v.to_coq()).collect::<Vec<_>>().join("; "))).collect::<Vec<_>>().join("; "))
    }
}

fn tlp_queries(q: &Query) -> Option<(Query, Query, Query)> {
    let p = q.wh.as_ref()?;
    Some((Query { wh: Some(Expr::not(p.clone())), ..q.clone() }, Query { wh: Some(Expr::is_null(false, p.clone())), ..q.clone() }, Query { wh: None, ..q.clone() }))
}

/// bag equality of two results up to the column permutation `perm` (new[j] = old[perm[j]])
fn same_bag(base: &Res, other: &Res, perm: &[usize]) -> bool {
    match (base, other) {
        (Res::Rows(a), Res::Rows(b)) => {
            let key = |r: &Vec<Val>| r.iter().map(|v| v.to_tok()).collect::<Vec<_>>().join(",");
            let mut x: Vec<String> = a.iter().map(|r| if perm.is_empty() { key(r) } else { key(&perm.iter().map(|i| r.get(*i).cloned().unwrap_or(Val::Text(b"?missing".to_vec()))).collect()) }).collect();
            let mut y: Vec<String> = b.iter().map(key).collect();
            x.sort(); y.sort();
            x == y
        }
        _ => false,
    }
}
fn tlp_holds(p: &Res, np: &Res, nul: &Res, all: &Res) -> bool {
    match (p, np, nul, all) {
        (Res::Rows(a), Res::Rows(b), Res::Rows(c), Res::Rows(_)) => {
            let mut u = a.clone(); u.extend(b.iter().cloned()); u.extend(c.iter().cloned());
            same_bag(all, &Res::Rows(u), &[])
        }
        _ => false,
    }
}

fn shape_from(q: &Query) -> String {
    let mut ks = vec![]; q.from.kinds(&mut ks);
    if ks.is_empty() { "single".to_string() } else { ks.iter().map(|k| k.tok()).collect::<Vec<_>>().join("+") }
}
fn shape_kind(q: &Query) -> String {
    let mut ks = vec![]; q.from.kinds(&mut ks);
    let j = if ks.is_empty() { "single".to_string() } else { ks.iter().map(|k| k.tok()).collect::<Vec<_>>().join("+") };
    format!("{}:{}:{}", j, if q.wh.is_some() { "where" } else { "nowhere" }, if q.star { "star" } else if q.items.iter().all(|e| matches!(e, Expr::Col(_))) { "cols" } else { "exprs" })
}

/// does the reference semantics see UNKNOWN somewhere / is it defined (statistics and `nontrivial`)
fn meta_stats(m: &MetaCase) -> (bool, bool, usize) {
    let defined = eval_query(&m.q, &m.db).is_some();
    let rows = if from_defined(&m.q.from, &m.db) { eval_from(&m.q.from, &m.db) } else { vec![] };
    let mut unknown = false;
    if let Some(w) = &m.q.wh { for r in &rows { w.walk(&mut |x| { if x.is_boolean_form() && sem3(x, r) == Some(Tv::U) { unknown = true; } }); } }
    (defined, unknown, rows.len())
}

fn emit_meta(w: &mut CaseWriter, sut: &mut Sut, m: &MetaCase, stream: &str) {
    let base = sut.run(&m.db, &m.q.to_sql(&m.db));
    let mut dict = Dict::new();
    let base_s = dict.res(&base);
    let mut forms = vec![];
    let mut all_agree = true;
    for rw in &m.rws {
        if let Some((q2, perm)) = rw.apply(&m.q, &m.db) {
            let r = sut.run(&m.db, &q2.to_sql(&m.db));
            if !same_bag(&base, &r, &perm) { all_agree = false; }
            forms.push(format!("(Form {} {} [{}]%nat {})", rw.to_coq(), q2.to_coq(), perm.iter().map(|x| x.to_string()).collect::<Vec<_>>().join(";"), dict.res(&r)));
            w.count(&format!("rewrite:{}", rw.kind()), 1);
        } else { w.count("rewrite:not_applicable", 1); }
    }
    let tlp_s = if m.tlp {
        if let Some((qn, qu, qa)) = tlp_queries(&m.q) {
            let (rn, ru, ra) = (sut.run(&m.db, &qn.to_sql(&m.db)), sut.run(&m.db, &qu.to_sql(&m.db)), sut.run(&m.db, &qa.to_sql(&m.db)));
            if !tlp_holds(&base, &rn, &ru, &ra) { all_agree = false; }
            w.count("rewrite:tlp", 1);
            format!("(Some ({}, {}, {}))", dict.res(&rn), dict.res(&ru), dict.res(&ra))
        } else { "None".into() }
    } else { "None".into() };
    let term = format!("Meta {} {} {} {} [{}] {}", db_coq(&m.db), m.q.to_coq(), dict.coq(), base_s, forms.join("; "), tlp_s);
    let (defined, unknown, cand) = meta_stats(m);
    let kind = format!("{}:meta:{}", stream, shape_from(&m.q));
    w.count(&format!("select:{}", if m.q.star { "star" } else if m.q.items.iter().all(|e| matches!(e, Expr::Col(_))) { "columns" } else { "expressions" }), 1);
    w.count(if m.q.wh.is_some() { "where:yes" } else { "where:no" }, 1);
    w.count(&format!("class:{}", case_class(m)), 1);
    // non-trivial: the reference semantics is defined, at least two candidate rows, a WHERE clause or a join, and at least one formulation compared
    let nontrivial = defined && cand >= 2 && (m.q.wh.is_some() || m.q.from.n_joins() > 0) && (!forms.is_empty() || m.tlp);
    w.push(term, Case::Meta(m.clone()).to_line(), nontrivial, &kind);
    w.count(match &base { Res::Rows(_) => "out:rows", Res::Err(_) => "out:error", Res::Panic(_) => "out:panic" }, 1);
    w.count(if all_agree { "oracle:formulations_agree" } else { "oracle:formulations_differ" }, 1);
    if !defined { w.count("spec:undefined_somewhere", 1); }
    if unknown { w.count("spec:unknown_reached", 1); }
    w.count(if m.q.from.n_joins() == 0 { "path:single_table(scan+FilterExec)" } else { "path:join(database.rs hand-written join)" }, 1);
}

fn emit_fold(w: &mut CaseWriter, db: &[Table], q: &Query, stream: &str) {
    let out = observe_fold(db, q);
    if let FoldOut::Other(m) = &out { eprintln!("c19: fold observation failed: {} on {}", m, q.to_sql(db)); }
    let e = q.wh.as_ref().expect("fold case has a WHERE clause");
    let term = format!("Fold {} {} {}", db[0].to_coq(), e.to_coq(), out.coq());
    w.push(term, Case::Fold(db.to_vec(), q.clone()).to_line(), !matches!(out, FoldOut::NoChange | FoldOut::Other(_)), &format!("{}:fold", stream));
    w.count(out.bucket(), 1);
}

fn emit_push(w: &mut CaseWriter, db: &[Table], q: &Query, stream: &str) {
    let out = observe_push(db, q);
    if let PushOut::Other(m) = &out { eprintln!("c19: pushdown observation failed: {} on {}", m, q.to_sql(db)); }
    let term = format!("Push {} {} {} {}", db_coq(db), q.from.to_coq(), q.wh.as_ref().expect("push case has a WHERE clause").to_coq(), out.coq());
    w.push(term, Case::Push(db.to_vec(), q.clone()).to_line(), !matches!(out, PushOut::Stay | PushOut::Other(_)), &format!("{}:push:{}", stream, shape_from(q)));
    w.count(out.bucket(), 1);
}

fn emit(w: &mut CaseWriter, sut: &mut Sut, c: &Case, stream: &str) {
    match c {
        Case::Meta(m) => emit_meta(w, sut, m, stream),
        Case::Fold(db, q) => emit_fold(w, db, q, stream),
        Case::Push(db, q) => emit_push(w, db, q, stream),
    }
}

// ------------------------------------------------------------------ generators
#[derive(Clone, Copy, PartialEq, Debug)]
enum Shape { Single, Cross2, Inner2, Outer2, Three }

fn small_cfg(base: &GenCfg, rows: usize, cols: usize) -> GenCfg { GenCfg { max_rows: rows, max_cols: cols, ..base.clone() } }

fn gen_db(rng: &mut Rng, n: usize, cfg: &GenCfg) -> Vec<Table> {
    (0..n).map(|i| gen_table(rng, &format!("t{}", i), cfg)).collect()
}

fn gen_items(rng: &mut Rng, from: &From, db: &[Table], allow_exprs: bool) -> (bool, Vec<Expr>) {
    let w = from.width(db);
    if rng.chance(1, 6) { return (true, vec![]); }
    let n = 1 + rng.below(4.min(w as u64)) as usize;
    let mut items = vec![];
    for _ in 0..n {
        if allow_exprs && rng.chance(1, 6) {
            // an integer expression over integer columns
            let mut l = vec![]; from.leaves(&mut l);
            let mut ints = vec![]; let mut pos = 0;
            for ti in &l { for j in 0..db[*ti].cols.len() { if db[*ti].cols[j] == ColTy::Int { ints.push(pos); } pos += 1; } }
            let a = Expr::Col(*rng.pick(&ints));
            let b = if rng.chance(1, 2) { Expr::Col(*rng.pick(&ints)) } else { Expr::int(rng.range(0, 3)) };
            items.push(Expr::Arith(*rng.pick(&[ArithOp::Add, ArithOp::Sub, ArithOp::Mul]), Box::new(a), Box::new(b)));
        } else { items.push(Expr::Col(rng.below(w as u64) as usize)); }
    }
    (false, items)
}

fn gen_query(rng: &mut Rng, shape: Shape, db: &[Table], cfg: &GenCfg) -> Query {
    let from = match shape {
        Shape::Single => From::Tab(0),
        Shape::Cross2 => From::Join(JKind::Cross, Box::new(From::Tab(0)), Box::new(From::Tab(1)), lit_true()),
        Shape::Inner2 | Shape::Outer2 => {
            let (l, r) = (From::Tab(0), From::Tab(1));
            let on = gen_on(rng, &l, &r, db, cfg);
            let k = if shape == Shape::Inner2 { JKind::Inner } else { *rng.pick(&[JKind::Left, JKind::Left, JKind::Right, JKind::Full]) };
            From::Join(k, Box::new(l), Box::new(r), on)
        }
        Shape::Three => {
            let (a, b, c) = (From::Tab(0), From::Tab(1), From::Tab(2));
            let k1 = *rng.pick(&[JKind::Cross, JKind::Inner, JKind::Inner, JKind::Left]);
            let on1 = if k1 == JKind::Cross { lit_true() } else { gen_on(rng, &a, &b, db, cfg) };
            let ab = From::Join(k1, Box::new(a), Box::new(b), on1);
            let k2 = *rng.pick(&[JKind::Cross, JKind::Inner, JKind::Inner, JKind::Left]);
            let on2 = if k2 == JKind::Cross { lit_true() } else { gen_on(rng, &ab, &c, db, cfg) };
            From::Join(k2, Box::new(ab), Box::new(c), on2)
        }
    };
    let wh = if rng.chance(1, 7) { None } else { let d = 1 + rng.below(3) as usize; Some(gen_pred_over(rng, &from, db, cfg, d)) };
    let (star, items) = gen_items(rng, &from, db, true);
    Query { from, wh, star, items, sty: 0 }
}

fn gen_rewrites(rng: &mut Rng, q: &Query, db: &[Table]) -> Vec<Rewrite> {
    let mut out = vec![];
    let has_andor = |e: &Expr| { let mut f = false; e.walk(&mut |x| if matches!(x, Expr::And(..) | Expr::Or(..)) { f = true; }); f };
    let mut ons = vec![];
    fn collect_ons<'a>(f: &'a From, out: &mut Vec<&'a Expr>) { if let From::Join(_, l, r, on) = f { out.push(on); collect_ons(l, out); collect_ons(r, out); } }
    collect_ons(&q.from, &mut ons);
    if q.wh.as_ref().map(|e| has_andor(e)).unwrap_or(false) || ons.iter().any(|e| has_andor(e)) { out.push(Rewrite::Mirror); }
    {
        let has_eq = |e: &Expr| { let mut f = false; e.walk(&mut |x| if matches!(x, Expr::Cmp(CmpOp::Eq, ..)) { f = true; }); f };
        if (q.wh.as_ref().map(|e| eq_range(e) != *e).unwrap_or(false) || ons.iter().any(|e| eq_range(e) != **e)) && (ons.iter().any(|e| has_eq(e)) || rng.chance(1, 2)) { out.push(Rewrite::EqRange); }
    }
    if let Some(w) = &q.wh {
        if matches!(w, Expr::And(..) | Expr::Or(..)) { out.push(Rewrite::CommTop); }
        if assoc_r(w) != *w { out.push(Rewrite::AssocR); }
        if assoc_l(w) != *w { out.push(Rewrite::AssocL); }
        if de_morgan(w) != *w && rng.chance(1, 2) { out.push(Rewrite::DeMorgan); }
        if rng.chance(1, 4) { out.push(Rewrite::NotNot); }
        if expand(w) != *w { out.push(Rewrite::Expand); }
    }
    out.push(Rewrite::TrueConj(rng.chance(1, 2), gen_true(rng, q, db)));
    if rng.chance(1, 3) { out.push(Rewrite::TrueConj(rng.chance(1, 2), gen_true(rng, q, db))); }
    if !q.star && q.items.len() >= 2 {
        let n = q.items.len();
        let mut p: Vec<usize> = (0..n).collect();
        for i in (1..n).rev() { let j = rng.below(i as u64 + 1) as usize; p.swap(i, j); }
        if p.iter().enumerate().all(|(i, x)| i == *x) { p.reverse(); }
        out.push(Rewrite::Items(p));
    }
    if let From::Join(k, ..) = &q.from {
        out.push(Rewrite::FromSwap);
        match k {
            JKind::Inner => { out.push(Rewrite::OnToWhere); out.push(Rewrite::Style(2)); }
            JKind::Cross => { if q.wh.is_some() { out.push(Rewrite::WhereToOn); } out.push(Rewrite::Style(1)); }
            _ => {}
        }
    } else { out.push(Rewrite::Style(4)); }
    out
}

fn gen_meta(rng: &mut Rng, shape: Shape, cfg: &GenCfg) -> MetaCase {
    let (n, rows, cols) = match shape { Shape::Single => (1, 8, 4), Shape::Three => (3, 3, 2), _ => (2, 4, 3) };
    let c = small_cfg(cfg, rows, cols);
    let db = gen_db(rng, n, &c);
    let q = gen_query(rng, shape, &db, &c);
    let rws = gen_rewrites(rng, &q, &db);
    let tlp = q.wh.is_some();
    MetaCase { db, q, rws, tlp }
}

/// a case outside every recorded finding class: the query is regenerated until it is, and only the
/// rewrites (and the TLP partition) that stay outside are kept
fn gen_meta_clean(rng: &mut Rng, shape: Shape, cfg: &GenCfg) -> MetaCase {
    for _ in 0..60 {
        let m = gen_meta(rng, shape, cfg);
        if query_class(&m.q, &m.db) != 0 { continue; }
        let rws: Vec<Rewrite> = m.rws.iter().filter(|rw| match rw.apply(&m.q, &m.db) { Some((q2, _)) => query_class(&q2, &m.db) == 0, None => false }).cloned().collect();
        let tlp = m.tlp && match tlp_queries(&m.q) { Some((a, b, c)) => [a, b, c].iter().all(|q| query_class(q, &m.db) == 0), None => false };
        if rws.is_empty() && !tlp { continue; }
        return MetaCase { rws, tlp, ..m };
    }
    gen_meta(rng, Shape::Single, cfg)
}

fn stream_cfg(k: u64) -> (&'static str, GenCfg) {
    match k % 6 {
        0 | 1 => ("plain", GenCfg { allow_not: false, allow_neg_forms: false, allow_null_lit: false, allow_bool_lit: false, allow_pred_operand: false, allow_arith: false, null_pct: 20, ..GenCfg::default() }),
        2 | 3 | 4 => ("full", GenCfg::default()),
        _ => ("wide", GenCfg { wide_values: true, ..GenCfg::default() }),
    }
}

fn pick_shape(rng: &mut Rng) -> Shape {
    match rng.below(20) { 0..=6 => Shape::Single, 7..=10 => Shape::Cross2, 11..=14 => Shape::Inner2, 15..=17 => Shape::Outer2, _ => Shape::Three }
}

fn gen(a: &Args) {
    let mut w = CaseWriter::new(&a.out, "C19", "Corr.C19", 40);
    let mut sut = Sut::new();
    if let Some(lines) = a.replay_lines() {
        for l in lines {
            match Case::from_line(&l) {
                Some(c) => emit(&mut w, &mut sut, &c, "replay"),
                None => eprintln!("c19: cannot parse replay line: {}", l),
            }
        }
        sut.cleanup();
        w.finish(&[]);
        return;
    }
    let mut rng = Rng::new(a.seed);
    let n_meta = if a.thorough() { 3600 } else { 240 };
    for k in 0..n_meta {
        let (stream, cfg) = stream_cfg(k);
        let shape = pick_shape(&mut rng);
        // three quarters of the cases stay outside the recorded finding classes
        let m = if k % 4 != 3 { gen_meta_clean(&mut rng, shape, &cfg) } else { gen_meta(&mut rng, shape, &cfg) };
        emit_meta(&mut w, &mut sut, &m, stream);
    }
    // rule-level cases: the real ConstantFoldingRule / PredicatePushdownRule on generated plans
    let n_rule = if a.thorough() { 4000 } else { 300 };
    for k in 0..n_rule {
        let (stream, cfg) = stream_cfg(k);
        if k % 2 == 0 {
            let (db, q) = gen_fold_case(&mut rng, &cfg);
            emit_fold(&mut w, &db, &q, stream);
        } else {
            let (db, q) = gen_push_case(&mut rng, &cfg);
            emit_push(&mut w, &db, &q, stream);
        }
    }
    sut.cleanup();
    w.finish(&[]);
}

/// predicates rich in literal-only sub-expressions (what the folding rule looks at)
fn gen_foldable(rng: &mut Rng, t: &Table, cfg: &GenCfg, depth: usize) -> Expr {
    let lit = |rng: &mut Rng| -> Expr {
        match rng.below(8) {
            0 => Expr::Lit(Val::Bool(true)), 1 => Expr::Lit(Val::Bool(false)), 2 => Expr::null(),
            3 | 4 => Expr::int(rng.range(0, 2)), 5 => Expr::Lit(Val::text(*rng.pick(&["a", "b", ""]))),
            6 => Expr::Lit(Val::float(*rng.pick(&[0.0, 1.0, 1.5]))), _ => Expr::int(rng.range(-1, 1)),
        }
    };
    if depth == 0 || rng.chance(1, 5) {
        return match rng.below(10) {
            0 => Expr::Lit(Val::Bool(true)), 1 => Expr::Lit(Val::Bool(false)),
            2..=5 => { let op = if rng.chance(2, 3) { *rng.pick(&[CmpOp::Eq, CmpOp::Ne]) } else { *rng.pick(&CmpOp::all()) }; Expr::cmp(op, lit(rng), lit(rng)) }
            _ => gen_leaf(rng, t, cfg),
        };
    }
    match rng.below(10) {
        0..=3 => Expr::and(gen_foldable(rng, t, cfg, depth - 1), gen_foldable(rng, t, cfg, depth - 1)),
        4..=7 => Expr::or(gen_foldable(rng, t, cfg, depth - 1), gen_foldable(rng, t, cfg, depth - 1)),
        8 => Expr::not(gen_foldable(rng, t, cfg, depth - 1)),
        _ => gen_pred(rng, t, cfg, depth - 1),
    }
}

fn gen_fold_case(rng: &mut Rng, cfg: &GenCfg) -> (Vec<Table>, Query) {
    let c = small_cfg(cfg, 4, 3);
    let db = gen_db(rng, 1, &c);
    let d = 1 + rng.below(3) as usize;
    let e = if rng.chance(3, 4) { gen_foldable(rng, &db[0], &c, d) } else { gen_pred(rng, &db[0], &c, d) };
    (db, Query { from: From::Tab(0), wh: Some(e), star: true, items: vec![], sty: 0 })
}

fn gen_push_case(rng: &mut Rng, cfg: &GenCfg) -> (Vec<Table>, Query) {
    let c = small_cfg(cfg, 3, 3);
    let db = gen_db(rng, 2, &c);
    let (l, r) = (From::Tab(0), From::Tab(1));
    let k = *rng.pick(&[JKind::Cross, JKind::Inner, JKind::Inner, JKind::Left, JKind::Right, JKind::Full]);
    let on = if k == JKind::Cross { lit_true() } else { gen_on(rng, &l, &r, &db, &c) };
    let from = From::Join(k, Box::new(l.clone()), Box::new(r.clone()), on);
    // WHERE: mostly a predicate over one side only (what the rule pushes), sometimes over both
    let wl = l.width(&db);
    let d = 1 + rng.below(2) as usize;
    let wh = match rng.below(4) {
        0 => gen_pred_over(rng, &l, &db, &c, d),
        1 => { let e = gen_pred_over(rng, &r, &db, &c, d); remap(&e, &|i| i + wl) }
        _ => gen_pred_over(rng, &from, &db, &c, d),
    };
    let items = vec![Expr::Col(0), Expr::Col(wl)];
    (db, Query { from, wh: Some(wh), star: false, items, sty: 0 })
}

// ------------------------------------------------------------------ search: oracle only (formulations must agree)
fn check_meta(sut: &mut Sut, m: &MetaCase) -> Vec<String> {
    let mut bad = vec![];
    let base = sut.run(&m.db, &m.q.to_sql(&m.db));
    for rw in &m.rws {
        if let Some((q2, perm)) = rw.apply(&m.q, &m.db) {
            let r = sut.run(&m.db, &q2.to_sql(&m.db));
            if !same_bag(&base, &r, &perm) { bad.push(rw.to_line()); }
        }
    }
    if m.tlp {
        if let Some((qn, qu, qa)) = tlp_queries(&m.q) {
            let (rn, ru, ra) = (sut.run(&m.db, &qn.to_sql(&m.db)), sut.run(&m.db, &qu.to_sql(&m.db)), sut.run(&m.db, &qa.to_sql(&m.db)));
            if !tlp_holds(&base, &rn, &ru, &ra) { bad.push("tlp".into()); }
        }
    }
    bad
}

fn search(a: &Args) {
    let mut rng = Rng::new(a.seed ^ 0xC19_5EA7);
    let mut sut = Sut::new();
    let mut fails: Vec<String> = vec![];
    let mut tried: u64 = 0;
    let budget = a.budget.min(20_000);
    while tried < budget {
        let (_, cfg) = stream_cfg(rng.below(6));
        let shape = pick_shape(&mut rng);
        let m = if rng.chance(2, 3) { gen_meta_clean(&mut rng, shape, &cfg) } else { gen_meta(&mut rng, shape, &cfg) };
        tried += 1;
        // the oracle speaks only where the reference semantics is defined for every formulation
        if all_queries(&m).iter().any(|q| eval_query(q, &m.db).is_none()) { continue; }
        let bad = check_meta(&mut sut, &m);
        if !bad.is_empty() {
            // keep only the disagreeing formulations in the replay line
            let keep: Vec<Rewrite> = m.rws.iter().filter(|r| bad.contains(&r.to_line())).cloned().collect();
            let m2 = MetaCase { rws: keep, tlp: bad.iter().any(|b| b == "tlp"), ..m.clone() };
            let k = case_class(&m2);
            if fails.len() < 60 && (k == 0 || fails.len() < 30) { fails.push(format!("{} #k={}", Case::Meta(m2).to_line(), k)); }
        }
    }
    sut.cleanup();
    fails.sort_by_key(|f| !f.ends_with("#k=0"));
    let mut out = format!("tried={}\n", tried);
    for f in &fails { out.push_str("FAIL "); out.push_str(f); out.push('\n'); }
    std::fs::write(&a.out, out).expect("write search output");
}

// ------------------------------------------------------------------ debug helpers
fn show_res(r: &Res) -> String {
    match r {
        Res::Rows(rows) => { let mut v: Vec<String> = rows.iter().map(|r| format!("({})", r.iter().map(|v| v.to_sql()).collect::<Vec<_>>().join(","))).collect(); v.sort(); format!("{} rows: {}", v.len(), v.join(" ")) }
        Res::Err(m) => format!("ERR {}", m),
        Res::Panic(m) => format!("PANIC {}", m),
    }
}

/// all queries of a case: base, rewrites, TLP variants
fn all_queries(m: &MetaCase) -> Vec<Query> {
    let mut v = vec![m.q.clone()];
    for rw in &m.rws { if let Some((q2, _)) = rw.apply(&m.q, &m.db) { v.push(q2); } }
    if m.tlp { if let Some((a, b, c)) = tlp_queries(&m.q) { v.push(a); v.push(b); v.push(c); } }
    v
}
/// finding class of a query (rough port of q_class, coq/Model/PlanClass.v; the authoritative classification is Coq's)
fn query_class(q: &Query, db: &[Table]) -> u32 {
    let d = dangers(q, db);
    for (tag, k) in [("three", 9)] {
        if d.contains(&tag) { return k; }
    }
    0
}
fn case_class(m: &MetaCase) -> u32 {
    for q in all_queries(m) { let k = query_class(&q, &m.db); if k != 0 { return k; } }
    0
}
fn case_dangers(m: &MetaCase) -> Vec<&'static str> {
    let mut out: Vec<&'static str> = vec![];
    for q in all_queries(m) { for d in dangers(&q, &m.db) { if !out.contains(&d) { out.push(d); } } }
    out.sort();
    out
}

fn probe(a: &Args) {
    let mut rng = Rng::new(a.seed);
    let mut sut = Sut::new();
    let mut only: Option<String> = None;
    let mut avoid: Vec<String> = vec![];
    let mut show_max = 40;
    for r in &a.rest {
        if let Some(x) = r.strip_prefix("shape=") { only = Some(x.to_string()); }
        if let Some(x) = r.strip_prefix("avoid=") { avoid = x.split(',').map(|s| s.to_string()).collect(); }
        if let Some(x) = r.strip_prefix("show=") { show_max = x.parse().unwrap_or(40); }
    }
    let mut n_bad = 0;
    let mut by_kind: std::collections::BTreeMap<String, (u64, u64)> = Default::default();
    for _ in 0..a.budget.min(20000) {
        let (_, cfg) = stream_cfg(rng.below(6));
        let shape = pick_shape(&mut rng);
        let m = gen_meta(&mut rng, shape, &cfg);
        let sk = format!("{:?}", shape);
        if let Some(o) = &only { if !sk.eq_ignore_ascii_case(o) { continue; } }
        let dg = case_dangers(&m);
        if dg.iter().any(|d| avoid.iter().any(|x| x == d)) { continue; }
        // class-0 queries against the reference semantics
        for q in all_queries(&m) {
            if query_class(&q, &m.db) != 0 { continue; }
            if let Some(sp) = eval_query(&q, &m.db) {
                let r = sut.run(&m.db, &q.to_sql(&m.db));
                let e = by_kind.entry(format!("{} class0-vs-spec", sk)).or_insert((0, 0));
                e.0 += 1;
                if !same_bag(&Res::Rows(sp.clone()), &r, &[]) {
                    e.1 += 1;
                    if e.1 <= 5 { println!("SPECDIFF {}\n   got  {}\n   spec {}\n   {}", q.to_sql(&m.db), show_res(&r), show_res(&Res::Rows(sp)), Case::Meta(MetaCase { q: q.clone(), rws: vec![], tlp: false, db: m.db.clone() }).to_line()); }
                }
            }
        }
        let bad = check_meta(&mut sut, &m);
        let key = format!("{} [{}]", sk, dg.join(","));
        let e = by_kind.entry(key.clone()).or_insert((0, 0));
        e.0 += 1;
        if bad.is_empty() { continue; }
        e.1 += 1;
        for b in &bad { by_kind.entry(format!("{} / {}", key, b.split(' ').next().unwrap_or(""))).or_insert((0, 0)).1 += 1; }
        n_bad += 1;
        if n_bad > show_max { continue; }
        println!("==== [{}] {}", dg.join(","), Case::Meta(m.clone()).to_line());
        for t in &m.db { println!("   {}: {}", t.name, t.to_line()); }
        let base = sut.run(&m.db, &m.q.to_sql(&m.db));
        println!("   BASE {:?} {}\n        => {}", dangers(&m.q, &m.db), m.q.to_sql(&m.db), show_res(&base));
        if let Some(sp) = eval_query(&m.q, &m.db) { println!("        spec {}", show_res(&Res::Rows(sp))); } else { println!("        spec undefined"); }
        for rw in &m.rws {
            if !bad.contains(&rw.to_line()) { continue; }
            if let Some((q2, perm)) = rw.apply(&m.q, &m.db) {
                let r = sut.run(&m.db, &q2.to_sql(&m.db));
                println!("   {} perm={:?} {:?}\n        {}\n        => {}", rw.to_line(), perm, dangers(&q2, &m.db), q2.to_sql(&m.db), show_res(&r));
            }
        }
        if bad.iter().any(|b| b == "tlp") {
            let (qn, qu, qa) = tlp_queries(&m.q).unwrap();
            for (n, q) in [("not", qn), ("isnull", qu), ("all", qa)] { let r = sut.run(&m.db, &q.to_sql(&m.db)); println!("   tlp {} {:?}: {}\n        => {}", n, dangers(&q, &m.db), q.to_sql(&m.db), show_res(&r)); }
        }
    }
    sut.cleanup();
    for (k, (n, b)) in by_kind { println!("{:70} tried {:5} bad {:5}", k, n, b); }
}

/// debug: print the SQL text and the result of every formulation of the replay lines
fn explain(a: &Args) {
    let mut sut = Sut::new();
    for l in a.replay_lines().unwrap_or_default() {
        let c = match Case::from_line(&l) { Some(c) => c, None => { println!("cannot parse: {}", l); continue; } };
        println!("==== {}", l);
        match c {
            Case::Meta(m) => {
                for t in &m.db { println!("   {}: {}", t.name, t.to_line()); }
                let base = sut.run(&m.db, &m.q.to_sql(&m.db));
                println!("   BASE {:?} {}\n        => {}", dangers(&m.q, &m.db), m.q.to_sql(&m.db), show_res(&base));
                match eval_query(&m.q, &m.db) { Some(sp) => println!("        spec {}", show_res(&Res::Rows(sp))), None => println!("        spec undefined") }
                for rw in &m.rws {
                    if let Some((q2, perm)) = rw.apply(&m.q, &m.db) {
                        let r = sut.run(&m.db, &q2.to_sql(&m.db));
                        println!("   {} perm={:?} {:?} agree={}\n        {}\n        => {}", rw.to_line(), perm, dangers(&q2, &m.db), same_bag(&base, &r, &perm), q2.to_sql(&m.db), show_res(&r));
                    } else { println!("   {} does not apply", rw.to_line()); }
                }
                if m.tlp { if let Some((qn, qu, qa)) = tlp_queries(&m.q) {
                    for (n, q) in [("not", qn), ("isnull", qu), ("all", qa)] { let r = sut.run(&m.db, &q.to_sql(&m.db)); println!("   tlp {} {:?}: {}\n        => {}", n, dangers(&q, &m.db), q.to_sql(&m.db), show_res(&r)); }
                } }
            }
            Case::Fold(db, q) => println!("   {}\n        => {:?}", q.to_sql(&db), observe_fold(&db, &q)),
            Case::Push(db, q) => println!("   {}\n        => {:?}", q.to_sql(&db), observe_push(&db, &q)),
        }
    }
    sut.cleanup();
}

fn show(v: &OwnedValue) -> String {
    match v {
        OwnedValue::Null => "NULL".into(),
        OwnedValue::Int(i) => format!("{}", i),
        OwnedValue::Float(f) => format!("{:?}f", f),
        OwnedValue::Text(s) => format!("'{}'", s),
        OwnedValue::Bool(b) => format!("{}", b),
        o => format!("{:?}", o),
    }
}

fn sql_mode(a: &Args) {
    let file = a.rest.get(0).expect("file");
    let dir = scratch_root();
    let _ = std::fs::remove_dir_all(&dir);
    std::fs::create_dir_all(&dir).expect("mkdir");
    let db = Database::create(dir.join("db")).expect("create");
    for l in std::fs::read_to_string(file).unwrap().lines() {
        let l = l.trim();
        if l.is_empty() || l.starts_with('#') { continue; }
        if l.to_uppercase().starts_with("SELECT") {
            let l2 = l.to_string();
            match catch(std::panic::AssertUnwindSafe(|| db.query(&l2))) {
                Caught::Done(Ok(rows)) => {
                    let s: Vec<String> = rows.iter().map(|r| format!("({})", r.values.iter().map(show).collect::<Vec<_>>().join(","))).collect();
                    println!("{}\n   => {}", l, s.join(" "));
                }
                Caught::Done(Err(e)) => println!("{}\n   => ERR {:#}", l, e),
                Caught::Panicked(m) => println!("{}\n   => PANIC {}", l, m),
            }
        } else if let Err(e) = db.execute(l) { println!("{}\n   => ERR {:#}", l, e) }
    }
    drop(db);
    let _ = std::fs::remove_dir_all(&dir);
}
