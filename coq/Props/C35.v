(* C35 - The page cache never evicts pinned pages or mixes contents.  Property theorems only. *)
From Coq Require Import ZArith List Bool Arith.
From TV Require Import Lib.Interleave Gen.CacheConsts Model.Cache Proof.CacheShard.
Import ListNotations.
Open Scope Z_scope.

Theorem evict_sound :
  forall sh r sh', shard_wf sh -> evict sh = (r, sh') ->
  shard_wf sh' /\ map strip (ents sh') = map strip (ents sh) /\ cap sh' = cap sh /\ wl sh' = wl sh /\
  r <> EvPanic /\ r <> EvFuel /\
  (forall k, r = EvSome k -> exists j e, idx_get (idx sh') k = Some j /\ nth_error (ents sh') j = Some e /\ ekey e = k /\ is_pinned e = false).
Proof. exact evict_spec. Qed.

Check evict_sound :
  forall sh r sh', shard_wf sh -> evict sh = (r, sh') ->
  shard_wf sh' /\ map strip (ents sh') = map strip (ents sh) /\ cap sh' = cap sh /\ wl sh' = wl sh /\
  r <> EvPanic /\ r <> EvFuel /\
  (forall k, r = EvSome k -> exists j e, idx_get (idx sh') k = Some j /\ nth_error (ents sh') j = Some e /\ ekey e = k /\ is_pinned e = false).
Print Assumptions evict_sound.
