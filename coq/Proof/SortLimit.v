(* C15 proofs: the LIMIT / OFFSET state machine of DynamicExecutor::Limit is the window. *)
From Coq Require Import ZArith List Bool Arith Lia.
From TV Require Import Model.KnnOrder.
From TV Require Import Model.SqlSpec Model.SortSpec Model.SortQuery Model.SortImpl.
Import ListNotations.

Section LimitMachine.
  Context {A : Type}.

  (* once `skipped` has reached `off`, nothing is skipped any more *)
  Lemma run_limit_taking : forall (xs : list A) lim off skipped returned,
    (off <= skipped)%nat ->
    run_limit lim off skipped returned xs =
    match lim with Some l => firstn (l - returned) xs | None => xs end.
  Proof.
    induction xs as [|x xs IH]; intros lim off skipped returned Hs; cbn [run_limit].
    - destruct lim; [rewrite firstn_nil|]; reflexivity.
    - destruct (skipped <? off)%nat eqn:E; [apply Nat.ltb_lt in E; lia|].
      destruct lim as [l|].
      + destruct (l <=? returned)%nat eqn:El.
        * apply Nat.leb_le in El. replace (l - returned)%nat with O by lia. reflexivity.
        * apply Nat.leb_gt in El. rewrite IH by exact Hs. cbn [option_map].
          replace (l - returned)%nat with (S (l - S returned)) by lia. reflexivity.
      + rewrite IH by exact Hs. reflexivity.
  Qed.

  Lemma run_limit_skipping : forall (xs : list A) lim off skipped,
    (skipped <= off)%nat ->
    run_limit lim off skipped 0 xs = window (off - skipped) lim xs.
  Proof.
    induction xs as [|x xs IH]; intros lim off skipped Hs.
    - cbn [run_limit]. unfold window. destruct lim; rewrite ?skipn_nil, ?firstn_nil; reflexivity.
    - cbn [run_limit]. destruct (skipped <? off)%nat eqn:E.
      + apply Nat.ltb_lt in E. rewrite IH by lia.
        replace (off - skipped)%nat with (S (off - S skipped)) by lia.
        unfold window. destruct lim; reflexivity.
      + apply Nat.ltb_ge in E. assert (off = skipped) by lia. subst off.
        replace (skipped - skipped)%nat with O by lia.
        unfold window. cbn [skipn].
        destruct lim as [l|].
        * destruct (l <=? 0)%nat eqn:El.
          -- apply Nat.leb_le in El. assert (l = O) by lia. subst l. reflexivity.
          -- apply Nat.leb_gt in El. rewrite run_limit_taking by lia.
             destruct l as [|l']; [lia|]. cbn [firstn]. replace (S l' - 1)%nat with l' by lia. reflexivity.
        * rewrite run_limit_taking by lia. reflexivity.
  Qed.

  (* for every offset, every limit (or none) and every input stream *)
  Lemma limit_machine_is_window_l : forall (lim : option nat) (off : nat) (xs : list A),
    limit_exec lim off xs = window off lim xs.
  Proof.
    intros lim off xs. unfold limit_exec. rewrite run_limit_skipping by lia.
    replace (off - 0)%nat with off by lia. reflexivity.
  Qed.
End LimitMachine.
