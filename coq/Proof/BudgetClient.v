(* C39 proofs, part 5: a release saturates only on client misuse.  If no thread ever released
   more of a pool than it had itself successfully allocated and not yet released (every moment
   of its history has a non-negative balance in every pool), then no release saturates - so for
   such clients each pool's usage IS successful allocations minus releases, under every
   schedule. *)
From Coq Require Import ZArith List Bool Arith Lia ZifyBool.
From TV Require Import Lib.Interleave Gen.BudgetConsts Model.Budget Proof.Budget Proof.BudgetInv Proof.BudgetLimit.
Import ListNotations.
Open Scope Z_scope.

Arguments Z.add : simpl never.
Arguments Z.sub : simpl never.
Arguments Z.mul : simpl never.
Arguments Z.max : simpl never.
Arguments Z.leb : simpl never.
Arguments Z.ltb : simpl never.
Arguments Z.eqb : simpl never.

(* logs are newest-first: the tails of a log are the earlier moments of the thread's history *)
Fixpoint balancedb (lg : list event) : bool :=
  match lg with
  | [] => true
  | _ :: r => forallb (fun q => 0 <=? net q lg) all_pools && balancedb r
  end.
Definition disciplined (s : St) : bool := forallb (fun x => balancedb (tlog (snd x))) (thrs s).
Definition nonsat (e : event) : bool := negb (saturating e).

Lemma all_pools_in q : In q all_pools.
Proof. destruct q; cbn; auto 10. Qed.

Lemma balancedb_net lg q : balancedb lg = true -> 0 <= net q lg.
Proof.
  destruct lg as [|e r]; [intros _; cbv; discriminate|]. cbn [balancedb]. intro H.
  apply andb_prop in H as [H _]. rewrite forallb_forall in H. specialize (H q (all_pools_in q)). lia.
Qed.
Lemma balancedb_tail e lg : balancedb (e :: lg) = true -> balancedb lg = true.
Proof. cbn [balancedb]. intro H. apply andb_prop in H as [_ H]. exact H. Qed.

Lemma sum_thr_nonneg f ts : (forall x, In x ts -> 0 <= f (snd x)) -> 0 <= sum_thr f ts.
Proof.
  unfold sum_thr. induction ts as [|x r IH]; cbn [map sumZ fold_right]; [lia|].
  intro H. unfold sumZ in IH. pose proof (H x (or_introl eq_refl)).
  assert (0 <= fold_right Z.add 0 (map (fun x0 => f (snd x0)) r)) by (apply IH; intros y Hy; apply H; right; exact Hy). lia.
Qed.
Lemma sum_thr_ge f ts t th :
  lget ts t = Some th -> (forall x, In x ts -> 0 <= f (snd x)) -> f th <= sum_thr f ts.
Proof.
  induction ts as [|[k w] r IH]; cbn [lget]; [discriminate|].
  intros Hg H. unfold sum_thr; cbn [map sumZ fold_right snd].
  assert (Hr : forall x, In x r -> 0 <= f (snd x)) by (intros y Hy; apply H; right; exact Hy).
  pose proof (sum_thr_nonneg f r Hr) as Hn. unfold sum_thr, sumZ in Hn.
  destruct (Nat.eqb k t).
  - injection Hg as ->. lia.
  - pose proof (IH Hg Hr) as Hi. unfold sum_thr, sumZ in Hi.
    pose proof (H (k, w) (or_introl eq_refl)) as Hw. cbn [snd] in Hw. lia.
Qed.

Lemma forallb_lset (Q : thr -> bool) ts t th' :
  forallb (fun x => Q (snd x)) ts = true -> Q th' = true -> forallb (fun x => Q (snd x)) (lset ts t th') = true.
Proof.
  intros H Hq. induction ts as [|[k w] r IH]; cbn [lset forallb snd] in *; [rewrite Hq; reflexivity|].
  apply andb_prop in H as [H1 H2]. destruct (Nat.eqb k t); cbn [forallb snd].
  - rewrite Hq, H2. reflexivity.
  - rewrite H1, (IH H2). reflexivity.
Qed.

(* the only event that can saturate is a release whose CAS just replaced the value it read *)
Lemma tstep_saturating lk t c l lock th c' lock' th' e :
  tstep lk t c l lock th = Some (c', lock', th') -> tlog th' = e :: tlog th -> saturating e = true ->
  exists p n, e = EvRel p n (get c p) /\ get c p < n.
Proof.
  intros H Hlog Hsat. destruct th as [pr pcv lg].
  destruct pcv; tstep_cases H; cbn [tlog] in Hlog;
    try (exfalso; apply (f_equal (@length event)) in Hlog; cbn [length] in Hlog; lia);
    injection Hlog as <-; cbn [saturating] in Hsat; try discriminate Hsat; try lia.
  exists p, n. split; [f_equal; lia | lia].
Qed.

Definition ClientInv (s : St) : Prop :=
  AccInv s /\ (disciplined s = true -> all_events nonsat s = true).

Lemma ClientInv_step lk t s s' : ClientInv s -> step lk t s = Some s' -> ClientInv s'.
Proof.
  intros [HA HD] Hs. split; [eapply AccInv_step; eauto|].
  destruct (step_inv _ _ _ _ Hs) as (th & c' & lock' & th' & Hget & Ht & ->).
  intro Hd'. unfold disciplined in Hd'; cbn [thrs] in Hd'.
  assert (Hd : disciplined s = true).
  { unfold disciplined. revert Hd'. apply (forallb_lset_inv (fun th => balancedb (tlog th)) _ _ _ _ Hget).
    destruct (tstep_log _ _ _ _ _ _ _ _ _ Ht) as [->|[e ->]]; [auto | apply balancedb_tail]. }
  pose proof (HD Hd) as Hns.
  unfold all_events; cbn [thrs]. apply (forallb_lset (fun th => forallb nonsat (tlog th))); [exact Hns|].
  pose proof (all_events_lget _ _ _ _ Hns Hget) as Hth.
  destruct (tstep_log _ _ _ _ _ _ _ _ _ Ht) as [->|[e He]]; [exact Hth|].
  rewrite He. cbn [forallb]. rewrite Hth, andb_true_r.
  unfold nonsat. destruct (saturating e) eqn:Hsat; [|reflexivity]. exfalso.
  destruct (tstep_saturating _ _ _ _ _ _ _ _ _ _ Ht He Hsat) as (p & n & -> & Hlt).
  (* the counter is the sum of the threads' balances, each non-negative, and this thread's own
     balance covers the release *)
  assert (Hbal' : balancedb (tlog th') = true).
  { assert (Hq : forallb (fun x => balancedb (tlog (snd x))) (lset (thrs s) t th') = true) by exact Hd'.
    rewrite forallb_forall in Hq. apply (Hq (t, th')). apply lget_in. apply lget_lset_same. }
  rewrite He in Hbal'. pose proof (balancedb_net _ p Hbal') as Hown.
  unfold net in Hown; cbn [map sumZ fold_right net1] in Hown. rewrite pool_eqb_refl in Hown. fold sumZ in Hown.
  change (sumZ (map (net1 p) (tlog th))) with (net p (tlog th)) in Hown.
  assert (Hsum : get (sh s) p = sum_thr (fun th0 => net p (tlog th0)) (thrs s)).
  { rewrite (HA p). apply sum_thr_ext. intros x Hx. apply applied_net.
    unfold all_events in Hns. rewrite forallb_forall in Hns. exact (Hns x Hx). }
  assert (Hge : net p (tlog th) <= sum_thr (fun th0 => net p (tlog th0)) (thrs s)).
  { apply (sum_thr_ge (fun th0 => net p (tlog th0)) _ _ _ Hget). intros x Hx. apply balancedb_net.
    unfold disciplined in Hd. rewrite forallb_forall in Hd. exact (Hd x Hx). }
  unfold net, sumZ in *. lia.
Qed.

Lemma ClientInv_spurious t s s' : ClientInv s -> spurious t s = Some s' -> ClientInv s'.
Proof.
  intros [HA HD] Hs. split; [eapply AccInv_spurious; eauto|].
  destruct (spurious_inv _ _ _ Hs) as (pr & lg & [(p & n & cur & snap & Hget & ->)|(p & n & cur & Hget & ->)]);
    unfold disciplined, all_events; cbn [thrs]; intro Hd';
    (apply (forallb_lset (fun th => forallb nonsat (tlog th)));
     [apply HD; unfold disciplined; revert Hd'; apply (forallb_lset_inv (fun th => balancedb (tlog th)) _ _ _ _ Hget); auto
     | cbn [tlog]; apply (all_events_lget nonsat s t _) in Hget;
       [exact Hget | apply HD; unfold disciplined; revert Hd'; apply (forallb_lset_inv (fun th => balancedb (tlog th)) _ _ _ _ Hget); auto]]).
Qed.

Lemma ClientInv_init limreq ps : ClientInv (init limreq ps).
Proof.
  split; [apply AccInv_init|]. intros _. unfold all_events, init; cbn [thrs].
  induction ps as [|x r IH]; cbn [map forallb snd tlog]; [reflexivity | exact IH].
Qed.

Theorem disciplined_never_saturates_l : forall lk limreq ps w,
  let s := run (step_w lk) w (init limreq ps) in
  disciplined s = true -> all_events nonsat s = true.
Proof.
  intros lk limreq ps w s. unfold s.
  apply (invariant_rule _ (step_w lk) ClientInv); [apply ClientInv_init|].
  intros x s0 s1 Hi Hs. unfold step_w in Hs.
  destruct (Nat.even x); [eapply ClientInv_step | eapply ClientInv_spurious]; eauto.
Qed.

(* the property's accounting clause for disciplined clients *)
Theorem disciplined_accounting_exact_l : forall lk limreq ps w,
  let s := run (step_w lk) w (init limreq ps) in
  disciplined s = true ->
  forall q, get (sh s) q = sum_thr (fun th => net q (tlog th)) (thrs s).
Proof.
  intros lk limreq ps w s Hd. apply pool_accounting_exact_l. apply disciplined_never_saturates_l. exact Hd.
Qed.
