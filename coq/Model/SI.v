(* C08 -- REFERENCE semantics: snapshot isolation at statement granularity over several handles of
   one database (the statement of the property), and the visibility helpers of src/mvcc/version.rs
   (which exist in the code but are not called by the scans).  Definitions only.

   Rows are identified by their c0 value (the generators keep c0 unique and never assign it).
     committed   the committed table
     lastw       key -> commit time of the last committed write of that key
     clock       commit counter
     hs          per handle: None = autocommit; Some tx = open transaction with the snapshot taken
                 at BEGIN, the transaction's own view (snapshot + own writes), the keys it wrote and
                 the clock value at BEGIN
   An autocommit statement commits at once.  COMMIT fails (and aborts) when a key written by the
   transaction was committed by someone else after its BEGIN (first committer wins). *)
From Coq Require Import ZArith List Bool.
From TV Require Import Model.SqlSpec Model.UndoLog.
Import ListNotations.
Open Scope Z_scope.

Definition stbl := list trow.
Record htx := mkH { snap : stbl; view : stbl; wkeys : list value; start : Z }.
Record sstate := mkSI { committed : stbl; lastw : list (value * Z); clock : Z; hs : list (option htx) }.
Definition si_init (nh : nat) : sstate := mkSI [] [] 0 (repeat None nh).

Definition kmem_v (k : value) (l : list value) : bool := existsb (fun x => value_eqb x k) l.

(* relational meaning of one DML statement on a table: result, new table, keys written *)
Definition dml_apply (o : op) (t : stbl) : option (res * stbl * list value) :=
  match o with
  | OIns rows => Some (RAff (zlen rows), t ++ rows, map c0 rows)
  | OUpd sc v w =>
      let hit := filter (wmatch w) t in
      Some (RAff (zlen hit), map (fun r => if wmatch w r then setc sc v r else r) t, map c0 hit)
  | ODel w =>
      let hit := filter (wmatch w) t in
      Some (RAff (zlen hit), filter (fun r => negb (wmatch w r)) t, map c0 hit)
  | _ => None
  end.

Definition lastw_of (k : value) (l : list (value * Z)) : Z :=
  match find (fun p => value_eqb (fst p) k) l with Some p => snd p | None => 0 end.
Definition stamp (ks : list value) (ts : Z) (l : list (value * Z)) : list (value * Z) :=
  map (fun k => (k, ts)) ks ++ l.

(* the rows of the keys in ks come from the transaction's view, all others from the committed table *)
Definition merge (ks : list value) (vw cm : stbl) : stbl :=
  filter (fun r => negb (kmem_v (c0 r) ks)) cm ++ filter (fun r => kmem_v (c0 r) ks) vw.

Definition set_h (h : nat) (x : option htx) (l : list (option htx)) : list (option htx) := set_nth h x l.

Definition si_view (h : nat) (s : sstate) : stbl :=
  match nth_error (hs s) h with
  | Some (Some tx) => view tx
  | _ => committed s
  end.

Definition conflict (tx : htx) (s : sstate) : bool :=
  existsb (fun k => start tx <? lastw_of k (lastw s)) (wkeys tx).

Definition si_exec (h : nat) (o : op) (s : sstate) : res * sstate :=
  match nth_error (hs s) h with
  | None => (RBad, s)
  | Some None =>
      match o with
      | OBegin => (ROk, mkSI (committed s) (lastw s) (clock s) (set_h h (Some (mkH (committed s) (committed s) [] (clock s))) (hs s)))
      | OCommit | ORollback | OSave _ | ORollTo _ | ORelease _ => (RErr, s)
      | ODrop | OObs => (ROk, s)
      | _ =>
          match dml_apply o (committed s) with
          | Some (r, t', ks) => (r, mkSI t' (stamp ks (clock s + 1) (lastw s)) (clock s + 1) (hs s))
          | None => (RBad, s)
          end
      end
  | Some (Some tx) =>
      match o with
      | OBegin => (RErr, s)
      | OCommit =>
          if conflict tx s then (RErr, mkSI (committed s) (lastw s) (clock s) (set_h h None (hs s)))
          else (ROk, mkSI (merge (wkeys tx) (view tx) (committed s)) (stamp (wkeys tx) (clock s + 1) (lastw s))
                          (clock s + 1) (set_h h None (hs s)))
      | ORollback | ODrop => (ROk, mkSI (committed s) (lastw s) (clock s) (set_h h None (hs s)))
      | OObs => (ROk, s)
      | OSave _ | ORollTo _ | ORelease _ => (RBad, s)      (* savepoints are not part of this reference *)
      | _ =>
          match dml_apply o (view tx) with
          | Some (r, t', ks) =>
              (r, mkSI (committed s) (lastw s) (clock s) (set_h h (Some (mkH (snap tx) t' (wkeys tx ++ ks) (start tx))) (hs s)))
          | None => (RBad, s)
          end
      end
  end.

Fixpoint si_run (sched : list (nat * op)) (s : sstate) : sstate :=
  match sched with
  | [] => s
  | (h, o) :: rest => si_run rest (snd (si_exec h o s))
  end.

Definition in_txn (h : nat) (s : sstate) : Prop := exists tx, nth_error (hs s) h = Some (Some tx).
Definition si_wf (s : sstate) : Prop :=
  forall h tx, nth_error (hs s) h = Some (Some tx) -> start tx <= clock s.

(* ------------------------------------------------------------------ src/mvcc/version.rs (hand model) *)
Record rheader := mkRH { h_locked : bool; h_deleted : bool; h_txn : Z }.
Inductive vis := Visible | Invisible | Deleted.
Definition is_visible_to (hd : rheader) (read_ts : Z) : vis :=
  if h_locked hd then Invisible
  else if read_ts <? h_txn hd then Invisible
  else if h_deleted hd then Deleted else Visible.
Inductive wcheck := CanWrite | LockedByOther | ConcurrentModification.
Definition can_write (hd : rheader) (writer writer_read_ts : Z) : wcheck :=
  if h_locked hd then (if h_txn hd =? writer then CanWrite else LockedByOther)
  else if writer_read_ts <? h_txn hd then ConcurrentModification else CanWrite.
