(* C42 -- the open-file LRU of src/storage/file_manager.rs (LruFileCache<K, V>), hand-written model.
   Definitions only.  The Rust structure keeps `order : Vec<K>` (least recently used first) and
   `map : HashMap<K, V>`; the model keeps the same two components (the map as an association list
   with at most one binding per key).  Keys and values are Z (the harness instantiates K = V = u64).
   Every function mirrors the Rust method of the same name, including the order in which it
   touches `order` and `map`. *)
From Coq Require Import ZArith List Bool.
Import ListNotations.
Open Scope Z_scope.

Record lru := mkLru { l_cap : Z; l_order : list Z; l_map : list (Z * Z) }.

Definition lru_new (cap : Z) : lru := mkLru cap [] [].

Fixpoint m_get (k : Z) (m : list (Z * Z)) : option Z :=
  match m with
  | [] => None
  | (k', v) :: t => if k =? k' then Some v else m_get k t
  end.
Fixpoint m_del (k : Z) (m : list (Z * Z)) : list (Z * Z) :=
  match m with
  | [] => []
  | (k', v) :: t => if k =? k' then m_del k t else (k', v) :: m_del k t
  end.
Definition m_set (k v : Z) (m : list (Z * Z)) : list (Z * Z) := (k, v) :: m_del k m.
Definition m_has (k : Z) (m : list (Z * Z)) : bool := match m_get k m with Some _ => true | None => false end.

(* Vec::remove(position of the first element equal to k), if any *)
Fixpoint o_del (k : Z) (o : list Z) : list Z :=
  match o with
  | [] => []
  | x :: t => if k =? x then t else x :: o_del k t
  end.
Fixpoint o_has (k : Z) (o : list Z) : bool :=
  match o with [] => false | x :: t => (k =? x) || o_has k t end.

(* fn touch: if the key is in `order`, move it to the back *)
Definition touch (k : Z) (s : lru) : lru :=
  if o_has k (l_order s) then mkLru (l_cap s) (o_del k (l_order s) ++ [k]) (l_map s) else s.

(* fn get / get_mut: a hit touches the key *)
Definition lru_get (k : Z) (s : lru) : lru * option Z :=
  if m_has k (l_map s) then let s' := touch k s in (s', m_get k (l_map s')) else (s, None).

(* fn pop_lru: remove order[0]; `map.remove(&key)?` *)
Definition lru_pop (s : lru) : lru * option (Z * Z) :=
  match l_order s with
  | [] => (s, None)
  | k :: t =>
      match m_get k (l_map s) with
      | Some v => (mkLru (l_cap s) t (m_del k (l_map s)), Some (k, v))
      | None => (mkLru (l_cap s) t (l_map s), None)
      end
  end.

Definition zlen {A} (l : list A) : Z := Z.of_nat (length l).

(* fn insert *)
Definition lru_insert (k v : Z) (s : lru) : lru * option (Z * Z) :=
  if m_has k (l_map s) then
    let s' := touch k s in (mkLru (l_cap s') (l_order s') (m_set k v (l_map s')), None)
  else
    let '(s1, ev) := if zlen (l_order s) >=? l_cap s then lru_pop s else (s, None) in
    (mkLru (l_cap s1) (l_order s1 ++ [k]) (m_set k v (l_map s1)), ev).

(* fn remove *)
Definition lru_remove (k : Z) (s : lru) : lru * option Z :=
  (mkLru (l_cap s) (o_del k (l_order s)) (m_del k (l_map s)), m_get k (l_map s)).

Definition lru_len (s : lru) : Z := zlen (l_map s).

(* ---- operations and outputs, as the harness drives them ---- *)
Inductive lop := LGet (k : Z) | LGetMut (k : Z) | LInsert (k v : Z) | LPop | LRemove (k : Z) | LLen.
Inductive lout := OVal (v : option Z) | OPair (p : option (Z * Z)) | ONum (n : Z).

Definition lru_step (s : lru) (o : lop) : lru * lout :=
  match o with
  | LGet k | LGetMut k => let '(s', r) := lru_get k s in (s', OVal r)
  | LInsert k v => let '(s', r) := lru_insert k v s in (s', OPair r)
  | LPop => let '(s', r) := lru_pop s in (s', OPair r)
  | LRemove k => let '(s', r) := lru_remove k s in (s', OVal r)
  | LLen => (s, ONum (lru_len s))
  end.

Fixpoint lru_run (s : lru) (ops : list lop) : lru * list lout :=
  match ops with
  | [] => (s, [])
  | o :: t => let '(s1, r) := lru_step s o in let '(s2, rs) := lru_run s1 t in (s2, r :: rs)
  end.

(* ---- the way FileManager uses the cache: a handle is looked up, and opened + inserted on a miss.
   `F` stands for the file system: F k is "the file named k" (the value a fresh open returns). ---- *)
Inductive fop := FAccess (k : Z) | FClose (k : Z) | FEvict.

Definition f_step (F : Z -> Z) (s : lru) (o : fop) : lru * option Z :=
  match o with
  | FAccess k =>
      match lru_get k s with
      | (s', Some v) => (s', Some v)
      | (s', None) => (fst (lru_insert k (F k) s'), Some (F k))
      end
  | FClose k => (fst (lru_remove k s), None)
  | FEvict => (fst (lru_pop s), None)
  end.

Fixpoint f_run (F : Z -> Z) (s : lru) (ops : list fop) : lru * list (option Z) :=
  match ops with
  | [] => (s, [])
  | o :: t => let '(s1, r) := f_step F s o in let '(s2, rs) := f_run F s1 t in (s2, r :: rs)
  end.

(* what the same operations return with no cache at all: every access opens the file *)
Definition f_spec (F : Z -> Z) (o : fop) : option Z :=
  match o with FAccess k => Some (F k) | _ => None end.

(* ---- invariant ---- *)
Definition lru_inv (s : lru) : Prop :=
  NoDup (l_order s) /\ NoDup (map fst (l_map s))
  /\ (forall k, In k (l_order s) <-> In k (map fst (l_map s)))
  /\ zlen (l_order s) <= Z.max (l_cap s) 1.
