(* C16: the recorded finding classes of aggregate queries (definitions only).
   q_class q t = 0: the query / table lies outside every recorded class; k > 0: class k.
   The classes are decidable and narrow; each is refuted by a concrete query in Proof/AggRefute.v
   and listed in known_findings.d/C16.json:
     6  a GROUP BY key that is not a plain column   (shown as NULL; NULL keys vanish from the group key)
     5  an aggregate argument that is not a plain column   (column 0 is aggregated instead)
     7  HAVING uses an aggregate that is not in the select list   (it reads as NULL)
     4  MIN / MAX over text   (NULL)
     1  COUNT(e) where e is NULL on some row   (NULLs are counted)
     2  SUM over a group without a non-NULL value   (0 instead of NULL)
     3  an integer SUM / AVG whose running sum leaves the i64 range   (panic) *)
From Coq Require Import ZArith List Bool.
From TV Require Export Model.SqlSpecAgg.
Import ListNotations.
Open Scope Z_scope.

Definition is_plain (e : expr) : bool := match e with ECol _ => true | _ => false end.

(* positions of the environment an expression refers to *)
Fixpoint cols_of (e : expr) : list nat :=
  match e with
  | ECol i => [i]
  | ELit _ => []
  | EArith _ a b | ECmp _ a b | EAnd a b | EOr a b | ELike _ a b => cols_of a ++ cols_of b
  | ENot a | EIsNull _ a => cols_of a
  | EIn _ a l => cols_of a ++ flat_map cols_of l
  | EBetween _ a lo hi => cols_of a ++ cols_of lo ++ cols_of hi
  end.
Definition nat_in (i : nat) (l : list nat) : bool := existsb (Nat.eqb i) l.

(* the rows that reach the aggregation, and their groups as the reference forms them *)
Definition input_rows (q : aquery) (t : table) : list row :=
  match where_rows (q_where q) t with Some rows => rows | None => [] end.
Definition ref_groups (q : aquery) (t : table) : list (list row) :=
  let rows := input_rows q t in
  match q_keys q with
  | [] => [rows]
  | _ => match map_opt (fun r => map_opt (fun k => eval k r) (q_keys q)) rows with
         | Some ks => map snd (groups_of (combine ks rows))
         | None => []
         end
  end.

Definition arg_vals (a : agg) (rows : list row) : list (option value) := map (eval (a_arg a)) rows.

(* running sums of the integer values, in order *)
Fixpoint running_overflow (acc : Z) (vs : list (option value)) : bool :=
  match vs with
  | [] => false
  | Some (VInt z) :: t => negb (i64_ok (acc + z)) || running_overflow (acc + z) t
  | _ :: t => running_overflow acc t
  end.

Definition cls_key_expr (q : aquery) : bool := negb (forallb is_plain (q_keys q)).
Definition cls_arg_expr (q : aquery) : bool :=
  existsb (fun a => match a_fn a with FCountStar => false | _ => negb (is_plain (a_arg a)) end) (q_aggs q).
Definition cls_having_agg (q : aquery) : bool :=
  match q_having q with
  | None => false
  | Some h => existsb (fun i => negb (Nat.ltb i (length (q_keys q))) && negb (nat_in i (q_sel q))) (cols_of h)
  end.
Definition cls_text_ext (q : aquery) (t : table) : bool :=
  existsb (fun a => match a_fn a with
                    | FMin | FMax => existsb (fun o => match o with Some (VText _) | Some (VBool _) => true | _ => false end)
                                             (arg_vals a (input_rows q t))
                    | _ => false
                    end) (q_aggs q).
Definition cls_count_null (q : aquery) (t : table) : bool :=
  existsb (fun a => match a_fn a with
                    | FCount => existsb (fun o => match o with Some VNull => true | _ => false end)
                                        (arg_vals a (input_rows q t))
                    | _ => false
                    end) (q_aggs q).
Definition cls_sum_empty (q : aquery) (t : table) : bool :=
  existsb (fun a => match a_fn a with
                    | FSum => existsb (fun g => forallb (fun o => match o with Some VNull => true | _ => false end)
                                                        (arg_vals a g)) (ref_groups q t)
                    | _ => false
                    end) (q_aggs q).
Definition cls_overflow (q : aquery) (t : table) : bool :=
  existsb (fun a => match a_fn a with
                    | FSum | FAvg => existsb (fun g => running_overflow 0 (arg_vals a g)) (ref_groups q t)
                    | _ => false
                    end) (q_aggs q).

Definition q_class (q : aquery) (t : table) : Z :=
  if cls_key_expr q then 6
  else if cls_arg_expr q then 5
  else if cls_having_agg q then 7
  else if cls_text_ext q t then 4
  else if cls_count_null q t then 1
  else if cls_sum_empty q t then 2
  else if cls_overflow q t then 3
  else 0.

(* ------------------------------------------------------------------ one aggregate over one list of values *)
Definition is_textual (v : value) : bool := match v with VText _ | VBool _ => true | _ => false end.
(* the class of aggregate f over the argument values vs (0 = none) *)
Definition vals_class (f : aggfn) (vs : list value) : Z :=
  match f with
  | FCount => if existsb is_null vs then 1 else 0
  | FSum => match nonnull vs with [] => 2 | _ => 0 end
  | FMin | FMax => if existsb is_textual vs then 4 else 0
  | _ => 0
  end.
(* SUM / AVG over integers (sums of doubles: Proof/AggFloat.v) *)
Definition int_sums (f : aggfn) (vs : list value) : bool :=
  match f with
  | FSum | FAvg => match ints_of (nonnull vs) with Some _ => true | None => false end
  | _ => true
  end.

(* SUM / AVG arguments are integers or NULL on every input row (the proof of query_correct covers
   integer sums; sums of doubles are covered by the correspondence run only) *)
Definition q_int_sums (q : aquery) (t : table) : bool :=
  forallb (fun a => match a_fn a with
                    | FSum | FAvg => forallb (fun o => match o with Some VNull | Some (VInt _) => true | _ => false end)
                                             (arg_vals a (input_rows q t))
                    | _ => true
                    end) (q_aggs q).
