(* C15 REFERENCE semantics: what ORDER BY / LIMIT / OFFSET / DISTINCT demand.
   Definitions only (laws in Proof/SortOrder.v, Proof/SortWindow.v).  Independent of TurDB's code;
   builds on the shared Model/SqlSpec.v (values, rows, eval).

   * The ascending order of sort keys is [sort_cmp]: NULL is the least value ("NULL before every
     non-NULL value ascending, after it descending"), integers by value, floats by value
     (-0.0 = +0.0), text bytewise.  Values of different types are ordered by type rank only to make
     [sort_cmp] a total preorder on ALL values; the property speaks only about key columns that are
     homogeneous ([homog]: NULLs and one type, no NaN), where [sort_cmp] coincides with
     SqlSpec.cmp_values.
   * A sort key list is compared lexicographically, each key with its direction ([lex_cmp]).
   * ORDER BY does not have to be stable: any permutation sorted by the keys is right.  LIMIT l
     OFFSET o return [window o l S] of SOME sorted permutation S; DISTINCT keeps exactly one
     element per distinct output row.
   * [rows_chk] is the decision procedure used on the implementation's output; Proof/SortWindow.v
     proves [rows_chk = true <-> rows_spec]. *)
From Coq Require Import ZArith List Bool Permutation Sorted.
From TV Require Import Model.KnnOrder.
From TV Require Import Model.SqlSpec.
Import ListNotations.
Open Scope Z_scope.

(* ------------------------------------------------------------------ the order of key values *)
Definition vrank (v : value) : Z :=
  match v with VNull => 0 | VInt _ => 1 | VFloat _ => 2 | VText _ => 3 | VBool _ => 4 end.

Definition sort_cmp (a b : value) : comparison :=
  match a, b with
  | VInt x, VInt y => Z.compare x y
  | VFloat x, VFloat y => Z.compare (f_key x) (f_key y)
  | VText x, VText y => bytes_cmp x y
  | VBool x, VBool y => Z.compare (Z.b2z x) (Z.b2z y)
  | _, _ => Z.compare (vrank a) (vrank b)
  end.

(* one key with its direction: DESC is the reversed order (NULL last) *)
Definition dir_cmp (asc : bool) (a b : value) : comparison :=
  if asc then sort_cmp a b else sort_cmp b a.

(* lexicographic comparison of two evaluated key lists under the directions [dirs]
   (a missing key value reads as NULL, so that the comparison is total on all lists) *)
Fixpoint lex_cmp (dirs : list bool) (a b : list value) : comparison :=
  match dirs with
  | [] => Eq
  | asc :: ds =>
      match dir_cmp asc (hd VNull a) (hd VNull b) with
      | Eq => lex_cmp ds (tl a) (tl b)
      | c => c
      end
  end.

(* where the property speaks: a key column holds NULLs and values of one type, floats are
   well-formed and not NaN *)
Definition vclass_ok (v : value) : bool :=
  match v with VFloat b => f_ok b && negb (f_is_nan b) | _ => true end.
Definition same_class (a b : value) : bool :=
  match a, b with
  | VNull, _ | _, VNull => true
  | _, _ => vrank a =? vrank b
  end.
Definition homog (vs : list value) : bool :=
  forallb vclass_ok vs && forallb (fun a => forallb (same_class a) vs) vs.

(* ------------------------------------------------------------------ windows *)
Definition window {A} (o : nat) (l : option nat) (xs : list A) : list A :=
  match l with
  | None => skipn o xs
  | Some n => firstn n (skipn o xs)
  end.

(* ------------------------------------------------------------------ generic statement and checker *)
Section Spec.
  Context {A P : Type}.
  Variable cmp : A -> A -> comparison.      (* the key order on elements *)
  Variable pay : A -> P.                    (* the output row of an element *)
  Variable peqb : P -> P -> bool.           (* decidable equality of output rows *)

  Definition sorted_by (S : list A) : Prop := StronglySorted (fun a b => cmp a b <> Gt) S.

  (* the bag an ORDER BY / LIMIT works on: all of B, or (DISTINCT) one element per output row *)
  Definition picks (distinct : bool) (S B : list A) : Prop :=
    if distinct then
      NoDup (map pay S) /\ (forall e, In e S -> In e B) /\ (forall e, In e B -> In (pay e) (map pay S))
    else Permutation S B.

  (* THE PROPERTY: the output rows are the window of some sorted arrangement *)
  Definition rows_spec (distinct : bool) (B : list A) (o : nat) (l : option nat) (rows : list P) : Prop :=
    exists S, picks distinct S B /\ sorted_by S /\ rows = map pay (window o l S).

  (* -------- decision procedure *)
  Definition key_eqv (a b : A) : bool := match cmp a b with Eq => true | _ => false end.

  (* first element with output row p, removed *)
  Fixpoint take_first (p : P) (B : list A) : option (A * list A) :=
    match B with
    | [] => None
    | e :: B' =>
        if peqb (pay e) p then Some (e, B')
        else match take_first p B' with Some (x, r) => Some (x, e :: r) | None => None end
    end.
  (* the elements of B that carry the rows, one per row *)
  Fixpoint extract (rows : list P) (B : list A) : option (list A) :=
    match rows with
    | [] => Some []
    | p :: rows' =>
        match take_first p B with
        | Some (e, B') => match extract rows' B' with Some es => Some (e :: es) | None => None end
        | None => None
        end
    end.
  Fixpoint forall2b {X Y} (f : X -> Y -> bool) (xs : list X) (ys : list Y) : bool :=
    match xs, ys with
    | [], [] => true
    | x :: xs', y :: ys' => f x y && forall2b f xs' ys'
    | _, _ => false
    end.
  (* first occurrence of every output row *)
  Fixpoint dedupe (seen : list P) (B : list A) : list A :=
    match B with
    | [] => []
    | e :: B' => if existsb (peqb (pay e)) seen then dedupe seen B' else e :: dedupe (pay e :: seen) B'
    end.

  Definition base (distinct : bool) (B : list A) : list A := if distinct then dedupe [] B else B.

  Definition rows_chk (distinct : bool) (B : list A) (o : nat) (l : option nat) (rows : list P) : bool :=
    let B' := base distinct B in
    match extract rows B' with
    | None => false
    | Some picked => forall2b key_eqv picked (window o l (isort (c_less cmp) B'))
    end.

  (* the output row of an element determines its key up to equivalence (always so when the row
     identifies the element, or when all keys are output columns); needed for DISTINCT to be
     meaningful and for [rows_chk] to be complete *)
  Definition pay_fixes_key (B : list A) : bool :=
    forallb (fun a => forallb (fun b => implb (peqb (pay a) (pay b)) (key_eqv a b)) B) B.
End Spec.

(* ------------------------------------------------------------------ instance: evaluated keys + output row *)
Definition elt := (list value * row)%type.
Definition elt_cmp (dirs : list bool) (a b : elt) : comparison := lex_cmp dirs (fst a) (fst b).

Fixpoint row_eqb (a b : row) : bool :=
  match a, b with
  | [], [] => true
  | x :: a', y :: b' => value_eqb x y && row_eqb a' b'
  | _, _ => false
  end.

(* SQL equality of output rows for DISTINCT: NULLs are not distinct from each other, -0.0 is
   not distinct from +0.0 -- rows are compared after this normalisation *)
Definition norm_value (v : value) : value :=
  match v with
  | VFloat b => if b =? 2 ^ 63 then VFloat 0 else v
  | _ => v
  end.
Definition norm_row (r : row) : row := map norm_value r.
Definition norm_elt (e : elt) : elt := (fst e, norm_row (snd e)).

(* every key column (position by position) is homogeneous *)
Definition nth_col (i : nat) (ks : list (list value)) : list value := map (fun k => nth i k VNull) ks.
Definition keys_homog (n : nat) (ks : list (list value)) : bool :=
  forallb (fun i => homog (nth_col i ks)) (seq 0 n).

(* the specification of a whole result: elements B (in any order), directions, DISTINCT flag,
   OFFSET o, LIMIT l, and the rows that came out *)
Definition result_spec (dirs : list bool) (distinct : bool) (B : list elt) (o : nat) (l : option nat)
                       (rows : list row) : Prop :=
  rows_spec (elt_cmp dirs) snd distinct (map norm_elt B) o l (map norm_row rows).
Definition result_chk (dirs : list bool) (distinct : bool) (B : list elt) (o : nat) (l : option nat)
                      (rows : list row) : bool :=
  rows_chk (elt_cmp dirs) snd row_eqb distinct (map norm_elt B) o l (map norm_row rows).
(* where the property makes a demand at all: homogeneous key columns, and the output row
   determines the keys up to equivalence (so for DISTINCT every key is a function of the output
   row, as standard SQL requires; without DISTINCT the generated select lists contain `id`) *)
Definition result_defined (dirs : list bool) (distinct : bool) (B : list elt) : bool :=
  keys_homog (length dirs) (map fst B) &&
  pay_fixes_key (elt_cmp dirs) snd row_eqb (map norm_elt B).
