(* C14: the select-list path (CompiledProjection -> evaluate_to_value -> eval_value).
   Outside the recorded classes a boolean expression in the select list evaluates to the
   same TRUE / FALSE as the reference semantics.  (Whenever a sub-predicate is UNKNOWN on the
   row the case is in class 6: eval_value has no UNKNOWN for predicates.)
   Also: the parser model is the identity on expressions without a bare NOT. *)
From Coq Require Import ZArith List Bool Lia.
From TV Require Import Model.SqlSpec Model.PredImpl Model.PredClass
  Proof.SqlSpecLaws Proof.PredBase Proof.PredLike Proof.PredWhere Proof.PredFold.
Import ListNotations.
Open Scope Z_scope.

Lemma Rv_inj : forall x, x <> VNull -> Rv x (Some (inj x)).
Proof. intros [] H; cbn; congruence. Qed.

Lemma unk_0 : forall e r t, unk e r = 0 -> sem3 e r = Some t -> t <> UU.
Proof. intros e r t H Hs. unfold unk in H. rewrite Hs in H. destruct t; congruence. Qed.

Lemma definite_of_bool : forall t, t <> UU -> t = tv_of_bool (tv_is_true t).
Proof. intros [] H; cbn; congruence. Qed.

Lemma any_spec_cons : forall x r i l,
  any_spec x r (i :: l) =
  match eval i r with Some y => opt_tv_or (cmp3 CEq x y) (any_spec x r l) | None => None end.
Proof. reflexivity. Qed.

Lemma any_spec_null : forall r l tany, any_spec VNull r l = Some tany -> l <> [] -> tany = UU.
Proof.
  intros r. induction l as [|i l IH]; intros tany H Hne; [congruence|].
  rewrite any_spec_cons in H. destruct (eval i r) as [y|]; [|discriminate]. rewrite cmp3_null_l in H.
  destruct (any_spec VNull r l) as [t2|] eqn:E; [|discriminate]. cbn in H. injection H as <-.
  destruct l as [|j l'].
  - cbn in E. injection E as <-. reflexivity.
  - rewrite (IH t2 eq_refl ltac:(discriminate)). reflexivity.
Qed.

Lemma ib_and : forall a b, ib (value_to_bool (ib a) && value_to_bool (ib b)) = ib (a && b).
Proof. intros. now rewrite !value_to_bool_ib. Qed.
Lemma ib_or : forall a b, ib (value_to_bool (ib a) || value_to_bool (ib b)) = ib (a || b).
Proof. intros. now rewrite !value_to_bool_ib. Qed.

Theorem select_row_correct : forall e r t,
  cls_s e r = 0 -> sem3 e r = Some t ->
  t <> UU /\ eval_value e r = Ok (Some (ib (tv_is_true t))).
Proof.
  induction e as [i|lv|op a IHa b IHb|op a IHa b IHb|a IHa b IHb|a IHa b IHb|a IHa|neg a IHa l|neg a IHa lo IHlo hi IHhi|neg a IHa p IHp|neg a IHa];
    intros r t Hc Hs; cbn [cls_s] in Hc; try discriminate.
  - (* literal *)
    destruct lv as [| | | |bv]; try discriminate. unfold sem3 in Hs. cbn in Hs.
    destruct bv; injection Hs as <-; split; try discriminate; reflexivity.
  - (* comparison *)
    split_nz. pose proof (unk_0 _ _ _ H1 Hs) as Hd. split; [exact Hd|].
    unfold sem3 in Hs. cbn [eval] in Hs.
    destruct (eval a r) as [x|] eqn:Ea; [|discriminate].
    destruct (eval b r) as [y|] eqn:Eb; [|discriminate].
    rewrite bind_ret_tv in Hs.
    assert (Hx : x <> VNull) by (intros ->; apply Hd; eapply cmp3_null_l'; eassumption).
    assert (Hy : y <> VNull) by (intros ->; apply Hd; eapply cmp3_null_r'; eassumption).
    destruct (scalar_rel a r x H Ea) as (o1 & V1 & R1).
    destruct (scalar_rel b r y H0 Eb) as (o2 & V2 & R2).
    apply (Rv_nonnull _ _ Hx) in R1. apply (Rv_nonnull _ _ Hy) in R2. subst o1 o2.
    cbn [eval_value]. rewrite V1, V2. cbn [bindo]. do 3 f_equal.
    apply (compare_values_correct op x y t _ _ Hs (Rv_inj x Hx) (Rv_inj y Hy)).
    intros E _. injection E as E. exfalso. now apply (inj_nonnull x Hx).
  - (* AND *)
    split_nz. pose proof (unk_0 _ _ _ H1 Hs) as Hd. split; [exact Hd|].
    apply sem3_and_inv in Hs as (ta & tb & Sa & Sb & ->).
    destruct (IHa r ta H Sa) as (_ & Va). destruct (IHb r tb H0 Sb) as (_ & Vb).
    cbn [eval_value]. rewrite Va, Vb. cbn [bindo]. now rewrite ib_and, tv_is_true_and.
  - (* OR *)
    split_nz. pose proof (unk_0 _ _ _ H1 Hs) as Hd. split; [exact Hd|].
    apply sem3_or_inv in Hs as (ta & tb & Sa & Sb & ->).
    destruct (IHa r ta H Sa) as (_ & Va). destruct (IHb r tb H0 Sb) as (_ & Vb).
    cbn [eval_value]. rewrite Va, Vb. cbn [bindo]. now rewrite ib_or, tv_is_true_or.
  - (* NOT *)
    split_nz. pose proof (unk_0 _ _ _ H0 Hs) as Hd. split; [exact Hd|].
    rewrite sem3_not in Hs. destruct (sem3 a r) as [ta|] eqn:Sa; [|discriminate].
    cbn in Hs. injection Hs as <-.
    destruct (IHa r ta H Sa) as (Da & Va).
    cbn [eval_value]. rewrite Va. cbn [bindo ib]. do 3 f_equal.
    destruct ta; cbn; congruence.
  - (* IN *)
    destruct l as [|i0 l0]; [discriminate|]. set (l := i0 :: l0) in *.
    split_nz. pose proof (unk_0 _ _ _ H1 Hs) as Hd. split; [exact Hd|].
    unfold sem3 in Hs. rewrite eval_in_unfold in Hs.
    destruct (eval a r) as [x|] eqn:Ea; [|discriminate].
    rewrite bind_ret_tv in Hs.
    destruct (any_spec x r l) as [tany|] eqn:Eany; [|discriminate].
    cbn [opt_tv_neg] in Hs. injection Hs as <-.
    assert (Hx : x <> VNull).
    { intros ->. rewrite (any_spec_null r l tany Eany ltac:(subst l; discriminate)) in Hd. now destruct neg. }
    assert (Hda : tany <> UU) by (intros ->; now destruct neg).
    destruct (scalar_rel a r x H Ea) as (o1 & V1 & R1).
    apply (Rv_nonnull _ _ Hx) in R1. subst o1.
    destruct (existsb (fun i => eq_differs (Some x) (eval i r)) l) eqn:Ed; [discriminate|].
    destruct (in_nonnull_probe x r l tany Hx H0 Ed Eany) as (f & Hf & Hf1 & _).
    rewrite eval_value_in_unfold, V1. cbn [bindo]. rewrite Hf. cbn [bindr]. do 3 f_equal.
    subst f. destruct neg, tany; cbn; congruence.
  - (* BETWEEN *)
    split_nz. unfold sem3 in Hs. cbn [eval] in Hs.
    destruct (eval a r) as [x|] eqn:Ea; [|discriminate].
    destruct (eval lo r) as [vl|] eqn:El; [|discriminate].
    destruct (eval hi r) as [vh|] eqn:Eh; [|discriminate].
    rewrite bind_ret_tv in Hs.
    destruct (cmp3 CGe x vl) as [t1|] eqn:E1; [|discriminate].
    destruct (cmp3 CLe x vh) as [t2|] eqn:E2; [|discriminate].
    cbn [opt_tv_and opt_tv_neg] in Hs. injection Hs as <-.
    assert (Hx : x <> VNull) by (intros ->; cbn in H2; discriminate).
    assert (Hl : vl <> VNull) by (intros ->; cbn in H2; rewrite orb_true_r in H2; discriminate).
    assert (Hh : vh <> VNull) by (intros ->; cbn in H2; rewrite !orb_true_r in H2; discriminate).
    destruct (scalar_rel a r x H Ea) as (o1 & V1 & R1).
    destruct (scalar_rel lo r vl H0 El) as (o2 & V2 & R2).
    destruct (scalar_rel hi r vh H1 Eh) as (o3 & V3 & R3).
    apply (Rv_nonnull _ _ Hx) in R1. apply (Rv_nonnull _ _ Hl) in R2. apply (Rv_nonnull _ _ Hh) in R3.
    subst o1 o2 o3.
    destruct (between_side CGe x vl t1 _ _ (or_introl eq_refl) E1 (Rv_inj x Hx) (Rv_inj vl Hl)) as (F1 & D1).
    destruct (between_side CLe x vh t2 _ _ (or_intror eq_refl) E2 (Rv_inj x Hx) (Rv_inj vh Hh)) as (F2 & D2).
    cbn iota in F1, F2. specialize (D1 Hx Hl). specialize (D2 Hx Hh).
    rewrite eval_value_between_unfold, V1, V2, V3. cbn [bindo]. rewrite F1, F2.
    rewrite D1, D2. destruct (tv_is_true t1), (tv_is_true t2), neg; cbn; split; (discriminate || reflexivity).
  - (* LIKE *)
    split_nz. pose proof (unk_0 _ _ _ H1 Hs) as Hd. split; [exact Hd|].
    unfold sem3 in Hs. cbn [eval] in Hs.
    destruct (eval a r) as [x|] eqn:Ea; [|discriminate].
    destruct (eval p r) as [q|] eqn:Ep; [|discriminate].
    rewrite bind_ret_tv in Hs.
    destruct (scalar_rel a r x H Ea) as (o1 & V1 & R1).
    destruct (scalar_rel p r q H0 Ep) as (o2 & V2 & R2).
    destruct x as [|zx|fx|sx|bx]; cbn [like3] in Hs; try discriminate.
    + exfalso. apply Hd. destruct q; congruence.
    + destruct q as [|zq|fq|sq|bq]; try discriminate.
      * exfalso. apply Hd. congruence.
      * cbn [Rv] in R1, R2. subst o1 o2.
        destruct (is_ascii sx && is_ascii sq); [|discriminate]. injection Hs as <-.
        destruct (has_pct sx && has_pct sq) eqn:Epc; [discriminate|].
        cbn [eval_value]. rewrite V1, V2. cbn [bindo inj].
        rewrite (like_impl_correct sx sq Epc). now rewrite tv_is_true_of_bool.
  - (* IS NULL *)
    unfold sem3 in Hs. cbn [eval] in Hs.
    destruct (eval a r) as [x|] eqn:Ea; [|discriminate].
    destruct (scalar_rel a r x Hc Ea) as (o1 & V1 & R1).
    cbn [eval_value]. rewrite V1. cbn [bindr].
    destruct x as [|zx|fx|sx|bx]; cbn [Rv] in R1.
    + destruct R1 as [-> | ->]; destruct neg; cbn in Hs; injection Hs as <-; split; (discriminate || reflexivity).
    + subst o1. destruct neg; cbn in Hs; injection Hs as <-; split; (discriminate || reflexivity).
    + subst o1. destruct neg; cbn in Hs; injection Hs as <-; split; (discriminate || reflexivity).
    + subst o1. destruct neg; cbn in Hs; injection Hs as <-; split; (discriminate || reflexivity).
    + subst o1. destruct neg, bx; cbn in Hs; injection Hs as <-; split; (discriminate || reflexivity).
Qed.

(* ------------------------------------------------------------------ the query *)
Theorem select_query_correct : forall e t,
  cls_select 0 e t = 0 -> defined_on e t = true ->
  model_select e t = MOut (QVals (spec_vals e t)).
Proof.
  intros e t Hc Hd. unfold cls_select in Hc. split_nz. apply first_row_0 in H0.
  unfold model_select.
  assert (G : select_rows e t = Ok (spec_vals e t)).
  { clear H. induction t as [|r t IH]; [reflexivity|].
    inversion H0 as [|? ? Hr Ht]; subst. unfold defined_on in Hd. cbn [forallb] in Hd.
    apply andb_prop in Hd as [Hd1 Hd2].
    destruct (sem3 e r) as [t0|] eqn:Es; [|discriminate].
    destruct (select_row_correct e r t0 Hr Es) as (Hdef & Hv).
    cbn [select_rows spec_vals map]. rewrite Hv. cbn [bindr]. fold (spec_vals e t).
    rewrite (IH Ht Hd2). cbn [bindr]. rewrite Es. now destruct t0. }
  now rewrite G.
Qed.

(* ------------------------------------------------------------------ parser model: no bare NOT, same tree *)
Lemma map_id_forall : forall (f : expr -> expr) (g : expr -> bool) l,
  Forall (fun e => g e = false -> f e = e) l -> existsb g l = false -> map f l = l.
Proof.
  intros f g l H. induction H as [|x l Hx Hl IH]; intros He; [reflexivity|].
  cbn in *. apply orb_false_elim in He as [H1 H2]. now rewrite (Hx H1), (IH H2).
Qed.

Lemma reparse_bare_id : forall e, has_bare e = false -> reparse_bare e = e.
Proof.
  induction e using expr_ind'; intros Hb; cbn [has_bare] in Hb; cbn [reparse_bare];
    repeat match goal with
    | H : _ || _ = false |- _ => apply orb_false_elim in H as [? ?]
    end;
    try reflexivity.
  - now rewrite IHe1, IHe2.
  - now rewrite IHe1, IHe2.
  - now rewrite IHe1, IHe2.
  - now rewrite IHe1, IHe2.
  - rewrite H. now rewrite IHe.
  - rewrite IHe by assumption. now rewrite (map_id_forall reparse_bare has_bare l).
  - now rewrite IHe1, IHe2, IHe3.
  - now rewrite IHe1, IHe2.
  - now rewrite IHe.
Qed.

Lemma parsed_id : forall sty e, ((sty =? 1) && has_bare e = false) -> parsed sty e = e.
Proof.
  intros sty e H. unfold parsed. destruct (sty =? 1); [|reflexivity]. cbn in H. now apply reparse_bare_id.
Qed.

(* the two query shapes, in either printing style *)
Theorem where_correct : forall sty e t,
  cls_where sty e t = 0 -> defined_on e t = true ->
  model_where (parsed sty e) t = MOut (QRows (spec_rows e t)).
Proof.
  intros sty e t Hc Hd.
  assert (Hp : parsed sty e = e).
  { apply parsed_id. unfold cls_where in Hc. apply first_nz_0 in Hc as [Hb _].
    destruct ((sty =? 1) && has_bare e); [discriminate|reflexivity]. }
  rewrite Hp. apply where_query_correct; [|exact Hd].
  unfold cls_where in *. apply first_nz_0 in Hc as [_ Hc]. apply first_nz_0. split; [reflexivity|exact Hc].
Qed.

Theorem select_correct : forall sty e t,
  cls_select sty e t = 0 -> defined_on e t = true ->
  model_select (parsed sty e) t = MOut (QVals (spec_vals e t)).
Proof.
  intros sty e t Hc Hd.
  assert (Hp : parsed sty e = e).
  { apply parsed_id. unfold cls_select in Hc. apply first_nz_0 in Hc as [Hb _].
    destruct ((sty =? 1) && has_bare e); [discriminate|reflexivity]. }
  rewrite Hp. apply select_query_correct; [|exact Hd].
  unfold cls_select in *. apply first_nz_0 in Hc as [_ Hc]. apply first_nz_0. split; [reflexivity|exact Hc].
Qed.
