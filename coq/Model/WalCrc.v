(* C03: the WAL frame checksum.  src/storage/wal.rs:239 compute_checksum digests, with
   CRC-64/ECMA-182 (crc crate: width 64, poly 0x42F0E1EBA9EA3693, init 0, refin/refout false,
   xorout 0), the little-endian header fields file_id, page_no, db_size, salt1, salt2 and
   then the page bytes; validate_checksum compares with the stored checksum field.
   Bitwise (MSB first) Gallina definition; cross-checked against the checksums the real
   writer stores (Corr.C03 CrcCase).  Definitions only. *)
From Coq Require Import ZArith List Bool.
From TV Require Import Lib.MachInt.
Import ListNotations.
Open Scope Z_scope.

Definition crc_poly : Z := 0x42F0E1EBA9EA3693.

Definition B63 : Z := 9223372036854775808.      (* 2^63 *)
Definition B56 : Z := 72057594037927936.        (* 2^56 *)

(* one shift of the 64-bit register: (c << 1) mod 2^64, xor the polynomial if the top bit was set *)
Definition crc_bit (c : Z) : Z :=
  if B63 <=? c then Z.lxor (2 * (c - B63)) crc_poly else 2 * c.

Definition crc_byte (c b : Z) : Z :=
  let c0 := Z.lxor c (b * B56) in
  crc_bit (crc_bit (crc_bit (crc_bit (crc_bit (crc_bit (crc_bit (crc_bit c0))))))).

Definition crc64 (bs : list Z) : Z := fold_left crc_byte bs 0.

Definition PAGE_SIZE : Z := 16384.
Definition PAGE_N : nat := Z.to_nat 16384.

(* the bytes the digest sees *)
Definition frame_digest_input (fid page dbs salt1 salt2 : Z) (data : list Z) : list Z :=
  le_bytes 8 fid ++ le_bytes 4 page ++ le_bytes 4 dbs ++ le_bytes 4 salt1 ++ le_bytes 4 salt2 ++ data.

Definition compute_checksum (fid page dbs salt1 salt2 : Z) (data : list Z) : Z :=
  crc64 (frame_digest_input fid page dbs salt1 salt2 data).

Definition validate_checksum (fid page dbs salt1 salt2 checksum : Z) (data : list Z) : bool :=
  compute_checksum fid page dbs salt1 salt2 data =? checksum.

(* a frame slot of the file that contains only zero bytes: every header field is 0 and the
   page is 16384 zero bytes *)
Definition zero_slot_validates : bool :=
  validate_checksum 0 0 0 0 0 0 (repeat 0 PAGE_N).
