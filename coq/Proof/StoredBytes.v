(* C23 proofs, part 1: facts about slice reads, and the file / page headers:
   every byte string is either accepted (Ok) or rejected (Err) - there is no Panic branch to take -
   and a header is accepted only with the right magic (and version). *)
From Coq Require Import ZArith List Bool Lia ZifyBool.
From TV Require Import Lib.MachInt Lib.MachIntFacts Gen.PageConsts Model.StoredBytes.
Import ListNotations.
Open Scope Z_scope.
Ltac Zify.zify_post_hook ::= Z.to_euclidean_division_equations.
Arguments Z.div : simpl never.
Arguments Z.modulo : simpl never.
Arguments Z.mul : simpl never.
Arguments Z.add : simpl never.
Arguments Z.sub : simpl never.
Arguments Z.pow : simpl never.
Arguments Z.of_nat : simpl never.
Arguments Z.to_nat : simpl never.

(* ------------------------------------------------------------------ slice reads *)
Lemma sub_ok d lo hi : bslice_ok d lo hi = true -> sub d lo hi = Ok (bslice d lo hi).
Proof. intros H. unfold sub. rewrite H. reflexivity. Qed.
Lemma sub_bad d lo hi : bslice_ok d lo hi = false -> sub d lo hi = Panic.
Proof. intros H. unfold sub. rewrite H. reflexivity. Qed.
Lemma sub_panic_iff d lo hi : sub d lo hi = Panic <-> bslice_ok d lo hi = false.
Proof. unfold sub. destruct (bslice_ok d lo hi); split; intros H; congruence. Qed.
Lemma sub_not_err d lo hi : sub d lo hi <> Err.
Proof. unfold sub. destruct (bslice_ok d lo hi); discriminate. Qed.
Lemma sub_not_fuel d lo hi : sub d lo hi <> Fuel.
Proof. unfold sub. destruct (bslice_ok d lo hi); discriminate. Qed.
Lemma idx_ok d i : bidx_ok d i = true -> idx d i = Ok (bidx d i).
Proof. intros H. unfold idx. rewrite H. reflexivity. Qed.
Lemma bslice_ok_true d lo hi : bslice_ok d lo hi = true <-> 0 <= lo /\ lo <= hi /\ hi <= blen d.
Proof. unfold bslice_ok. lia. Qed.
Lemma bslice_ok_false d lo hi : bslice_ok d lo hi = false <-> ~ (0 <= lo /\ lo <= hi /\ hi <= blen d).
Proof. unfold bslice_ok. lia. Qed.

Lemma In_firstn {A} n (l : list A) x : In x (firstn n l) -> In x l.
Proof.
  revert l. induction n as [|n IH]; intros [|h t]; cbn [firstn In]; try tauto.
  intros [->|H]; [left; reflexivity | right; apply IH; exact H].
Qed.
Lemma In_skipn {A} n (l : list A) x : In x (skipn n l) -> In x l.
Proof.
  revert l. induction n as [|n IH]; intros [|h t]; cbn [skipn In]; try tauto.
  intros H. right. apply IH. exact H.
Qed.
Lemma bytes_ok_bslice b lo hi : bytes_ok b = true -> bytes_ok (bslice b lo hi) = true.
Proof.
  unfold bytes_ok, bslice. rewrite !forallb_forall. intros H x Hx.
  apply H. apply In_firstn in Hx. apply In_skipn in Hx. exact Hx.
Qed.
Lemma bytes_ok_skipn b n : bytes_ok b = true -> bytes_ok (skipn n b) = true.
Proof.
  unfold bytes_ok. rewrite !forallb_forall. intros H x Hx. apply H. apply In_skipn in Hx. exact Hx.
Qed.

Lemma from_le_bound : forall bs, bytes_ok bs = true -> 0 <= from_le bs < 256 ^ blen bs.
Proof.
  induction bs as [|b t IH]; intros Hb.
  - cbn [from_le]. rewrite blen_nil. change (256 ^ 0) with 1. lia.
  - apply bytes_ok_cons in Hb. destruct Hb as [Hb Ht]. specialize (IH Ht).
    cbn [from_le]. rewrite blen_cons.
    rewrite Z.pow_add_r by (pose proof (blen_nonneg t); lia).
    change (256 ^ 1) with 256. nia.
Qed.

(* a little-endian field inside a checked slice is below 256^n *)
Lemma le_bound d lo n : bytes_ok d = true -> 0 <= lo -> 0 <= n -> lo + n <= blen d ->
  0 <= le d lo n < 256 ^ n.
Proof.
  intros Hb Hlo Hn Hl. unfold le.
  pose proof (from_le_bound (bslice d lo (lo + n)) (bytes_ok_bslice _ _ _ Hb)) as H.
  rewrite blen_bslice in H by (apply bslice_ok_true; lia).
  replace (lo + n - lo) with n in H by lia. exact H.
Qed.

(* slicing a prefix slice *)
Lemma bslice_prefix d n lo hi : 0 <= lo -> lo <= hi -> hi <= n ->
  bslice (bslice d 0 n) lo hi = bslice d lo hi.
Proof.
  intros Hlo Hh Hn. unfold bslice. replace (n - 0) with n by lia.
  change (Z.to_nat 0) with 0%nat. cbn [skipn].
  rewrite skipn_firstn_comm, firstn_firstn. f_equal. lia.
Qed.
Lemma bidx_prefix d n i : 0 <= i < n -> bidx (bslice d 0 n) i = bidx d i.
Proof.
  intros Hi. unfold bidx, bslice. replace (n - 0) with n by lia.
  change (Z.to_nat 0) with 0%nat. cbn [skipn].
  rewrite <- (firstn_skipn (Z.to_nat n) d) at 2.
  destruct (Nat.lt_ge_cases (Z.to_nat i) (length (firstn (Z.to_nat n) d))) as [L|G].
  - rewrite app_nth1 by exact L. reflexivity.
  - rewrite (nth_overflow (firstn _ _)) by exact G.
    rewrite firstn_length in G.
    assert (length d <= Z.to_nat i)%nat by lia.
    rewrite firstn_skipn. rewrite nth_overflow by lia. reflexivity.
Qed.
Lemma le_prefix d n lo k : 0 <= lo -> 0 <= k -> lo + k <= n -> le (bslice d 0 n) lo k = le d lo k.
Proof. intros. unfold le. rewrite bslice_prefix by lia. reflexivity. Qed.

(* ------------------------------------------------------------------ file headers *)
Lemma file_header_cases magic d :
  (file_header magic d = Err /\ (blen d < FILE_HEADER_SIZE \/ bslice d 0 16 <> magic)) \/
  (file_header magic d = Ok (bslice d 0 FILE_HEADER_SIZE) /\ FILE_HEADER_SIZE <= blen d /\ bslice d 0 16 = magic).
Proof.
  unfold file_header. pose proof (blen_nonneg d) as Hn.
  destruct (Z.ltb_spec (blen d) FILE_HEADER_SIZE) as [L|G]; [left; split; [reflexivity | left; exact L]|].
  rewrite sub_ok by (apply bslice_ok_true; unfold FILE_HEADER_SIZE in *; lia). cbn [bind].
  rewrite bslice_prefix by (unfold FILE_HEADER_SIZE; lia).
  destruct (zlist_eqb (bslice d 0 16) magic) eqn:E.
  - right. apply zlist_eqb_eq in E. auto.
  - left. split; [reflexivity|]. right. intros C. apply zlist_eqb_eq in C. congruence.
Qed.

Lemma file_header_voe magic d : value_or_error (file_header magic d).
Proof. destruct (file_header_cases magic d) as [[-> _]|[-> _]]; exact I. Qed.

Lemma meta_total_l : forall d, value_or_error (meta_from_bytes d).
Proof.
  intros d. unfold meta_from_bytes.
  destruct (file_header_cases META_MAGIC d) as [[-> _]|[-> _]]; cbn [bind]; [exact I|].
  destruct (_ =? _); exact I.
Qed.
Lemma table_total_l : forall d, value_or_error (table_from_bytes d).
Proof.
  intros d. unfold table_from_bytes.
  destruct (file_header_cases TABLE_MAGIC d) as [[-> _]|[-> _]]; cbn [bind]; exact I.
Qed.
Lemma index_total_l : forall d, value_or_error (index_from_bytes d).
Proof.
  intros d. unfold index_from_bytes.
  destruct (file_header_cases INDEX_MAGIC d) as [[-> _]|[-> _]]; cbn [bind]; exact I.
Qed.
Lemma hnsw_file_total_l : forall d, value_or_error (hnsw_file_from_bytes d).
Proof.
  intros d. unfold hnsw_file_from_bytes. pose proof (blen_nonneg d) as Hn.
  destruct (Z.ltb_spec (blen d) FILE_HEADER_SIZE) as [L|G]; [exact I|].
  unfold FILE_HEADER_SIZE in G.
  rewrite sub_ok by (apply bslice_ok_true; lia). cbn [bind].
  destruct (zlist_eqb _ _); [|exact I].
  rewrite sub_ok by (apply bslice_ok_true; lia). cbn [bind]. exact I.
Qed.

(* accepted only with the right magic (and, for turdb.meta, version 1): damaged magic bytes are rejected *)
Lemma meta_accepts_l : forall d v, meta_from_bytes d = Ok v ->
  FILE_HEADER_SIZE <= blen d /\ bslice d 0 16 = META_MAGIC /\ le d 16 4 = CURRENT_VERSION.
Proof.
  intros d v. unfold meta_from_bytes.
  destruct (file_header_cases META_MAGIC d) as [[-> _]|[-> (G & M)]]; cbn [bind]; [discriminate|].
  rewrite !le_prefix by (unfold FILE_HEADER_SIZE; lia).
  destruct (Z.eqb_spec (le d 16 4) CURRENT_VERSION) as [E|E]; [|discriminate]. auto.
Qed.
Lemma table_accepts_l : forall d v, table_from_bytes d = Ok v ->
  FILE_HEADER_SIZE <= blen d /\ bslice d 0 16 = TABLE_MAGIC.
Proof.
  intros d v. unfold table_from_bytes.
  destruct (file_header_cases TABLE_MAGIC d) as [[-> _]|[-> (G & M)]]; cbn [bind]; [discriminate|]. auto.
Qed.
Lemma index_accepts_l : forall d v, index_from_bytes d = Ok v ->
  FILE_HEADER_SIZE <= blen d /\ bslice d 0 16 = INDEX_MAGIC.
Proof.
  intros d v. unfold index_from_bytes.
  destruct (file_header_cases INDEX_MAGIC d) as [[-> _]|[-> (G & M)]]; cbn [bind]; [discriminate|]. auto.
Qed.
Lemma hnsw_file_accepts_l : forall d v, hnsw_file_from_bytes d = Ok v ->
  FILE_HEADER_SIZE <= blen d /\ bslice d 0 16 = HNSW_MAGIC.
Proof.
  intros d v. unfold hnsw_file_from_bytes. pose proof (blen_nonneg d) as Hn.
  destruct (Z.ltb_spec (blen d) FILE_HEADER_SIZE) as [L|G]; [discriminate|].
  unfold FILE_HEADER_SIZE in G.
  rewrite sub_ok by (apply bslice_ok_true; lia). cbn [bind].
  destruct (zlist_eqb _ _) eqn:E; [|discriminate].
  apply zlist_eqb_eq in E. intros _. unfold FILE_HEADER_SIZE. split; [lia | exact E].
Qed.

(* ------------------------------------------------------------------ page header *)
Lemma page_header_total_l : forall d, value_or_error (page_header d).
Proof.
  intros d. unfold page_header. pose proof (blen_nonneg d) as Hn.
  destruct (Z.ltb_spec (blen d) PH_SIZE) as [L|G]; [exact I|]. unfold PH_SIZE in *.
  rewrite sub_ok by (apply bslice_ok_true; lia). cbn [bind]. exact I.
Qed.
Lemma validate_page_total_l : forall d, value_or_error (validate_page d).
Proof.
  intros d. unfold validate_page. pose proof (blen_nonneg d) as Hn.
  destruct (Z.eqb_spec (blen d) PAGE_SIZE) as [E|E]; [|exact I].
  destruct (Z.ltb_spec (blen d) PH_SIZE) as [L|G]; [exact I|]. unfold PH_SIZE in *.
  rewrite sub_ok by (apply bslice_ok_true; lia). cbn [bind]. cbv zeta.
  repeat match goal with |- context [if ?c then _ else _] => destruct c end; exact I.
Qed.

(* the u16 cell count of a page that is long enough *)
Lemma hdr_field_ok d lo n : PH_SIZE <= blen d -> 0 <= lo -> 0 <= n -> lo + n <= PH_SIZE ->
  hdr_field d lo n = Ok (le d lo n).
Proof.
  intros G Hlo Hn Hl. unfold hdr_field. pose proof (blen_nonneg d).
  destruct (Z.ltb_spec (blen d) PH_SIZE) as [L|_]; [lia|]. unfold PH_SIZE in *.
  rewrite sub_ok by (apply bslice_ok_true; lia). cbn [bind].
  rewrite le_prefix by lia. reflexivity.
Qed.
Lemma cell_count_ok d : PH_SIZE <= blen d -> cell_count d = Ok (le d 2 2).
Proof. intros G. unfold cell_count. apply hdr_field_ok; unfold PH_SIZE in *; lia. Qed.
Lemma right_child_ok d : PH_SIZE <= blen d -> right_child d = Ok (le d 12 4).
Proof. intros G. unfold right_child. apply hdr_field_ok; unfold PH_SIZE in *; lia. Qed.
Lemma cell_count_range d : bytes_ok d = true -> PH_SIZE <= blen d -> 0 <= le d 2 2 < 65536.
Proof.
  intros Hb G. unfold PH_SIZE in G.
  pose proof (le_bound d 2 2 Hb) as H. change (256 ^ 2) with 65536 in H. apply H; lia.
Qed.
