(* C22 correspondence: judge what the harness observed on the real code.
   * Lex cases: the real Lexer's token stream (tokens, slices, spans, final line/column) against
     Model/Lexer.v;
   * Lit cases: the literal parsers of src/parsing/literal.rs against Model/Literal.v;
   * Api cases: EXPLORATION ONLY - there is no model of the parser / planner / executor; the case
     only records how a sequence of public-API calls on a fresh database ended (all calls returned,
     panic with its site, watchdog timeout, process abort).  model_agrees is vacuously true there.
   spec_ok is the property itself: the call(s) returned (Ok or Err) - no panic, no abort, no hang.
   Definitions only; evaluated by vm_compute. *)
From Coq Require Import ZArith List Bool Arith.
From TV Require Export Model.Lexer Model.Literal.
Import ListNotations.
Open Scope Z_scope.

Inductive lex_out :=
| LexOk (toks : list ltok) (line col : Z)
| LexPanic
| LexHang.                         (* more than len+2 calls of next_token without reaching Eof *)

(* file: code of the source file of the panic location (harness file_code);
   cls : 1 char boundary, 2 str slice begin > end / out of range, 3 arithmetic overflow,
         4 index / slice out of bounds, 5 unwrap, 6 division by zero, 7 capacity overflow,
         8 RefCell, 9 unreachable / explicit, 0 other *)
Inductive api_out :=
| AOk (n_ok n_err : Z)
| APanic (file cls : Z)
| ATimeout
| AAbort.

Inductive case :=
| Lex (s : list Z) (o : lex_out)
| Lit (f : Z) (s : list Z) (o : lit_out)
| Api (kind : Z) (feat : list Z) (o : api_out).
(* feat = [ f0 max nesting: ( [ brackets, { [ inside string literals (JSON text), count of NOT / CASE / SELECT keywords;
            f1 longest run of consecutive comments;
            f2 non-ASCII character inside a quoted string or a text parameter (0/1);
            f3 number of binary-operator characters and AND/OR/UNION/JOIN keywords (chain length);
            f4 a Decimal parameter with scale >= 39 or < 0 (0/1); f5 an INSERT / UPDATE is present (0/1);
            f6 function mask: 1 LPAD/RPAD/REPEAT/SPACE, 2 DATE_FORMAT/TIME_FORMAT/STRFTIME, 4 FORMAT;
            f7 a string literal whose whole content is one double quote (0/1);
            f8 a LIMIT / OFFSET literal >= 2^63 (0/1) ] *)

(* ---------------------------------------------------------------- comparisons *)
Definition tok_eqb (a b : tok) : bool :=
  match a, b with
  | T k, T k' => k =? k'
  | TS k x y, TS k' x' y' => (k =? k') && (x =? x')%nat && (y =? y')%nat
  | TPos n, TPos n' => n =? n'
  | TErr e, TErr e' => e =? e'
  | _, _ => false
  end.
Definition ltok_eqb (a b : ltok) : bool :=
  match a, b with L t x y, L t' x' y' => tok_eqb t t' && (x =? x')%nat && (y =? y')%nat end.
Fixpoint ltoks_eqb (a b : list ltok) : bool :=
  match a, b with
  | [], [] => true
  | x :: a', y :: b' => ltok_eqb x y && ltoks_eqb a' b'
  | _, _ => false
  end.

Definition model_lex (s : list Z) : lex_out :=
  match lex s with
  | Ok (toks, st, _) => LexOk toks (line st) (col st)
  | Panic => LexPanic
  | OutOfFuel => LexHang
  end.
Definition lex_out_eqb (a b : lex_out) : bool :=
  match a, b with
  | LexOk t l c, LexOk t' l' c' => ltoks_eqb t t' && (l =? l') && (c =? c')
  | LexPanic, LexPanic => true
  | LexHang, LexHang => true
  | _, _ => false
  end.

Definition lclass_eqb (a b : lclass) : bool :=
  match a, b with
  | CNull, CNull => true
  | CBool x, CBool y => Bool.eqb x y
  | CText x, CText y => zl_eqb x y
  | CEmptyVec, CEmptyVec => true
  | COther, COther => true
  | _, _ => false
  end.
Definition lit_out_eqb (a b : lit_out) : bool :=
  match a, b with
  | LitBytes x, LitBytes y => zl_eqb x y
  | LitNum x, LitNum y => x =? y
  | LitClass COther, LitErr => true   (* COther = outcome decided by the unmodelled std float parser: Ok or Err *)
  | LitClass x, LitClass y => lclass_eqb x y
  | LitOther, LitOther => true
  | LitErr, LitErr => true
  | LitPanic, LitPanic => true
  | _, _ => false
  end.

(* does the model (first argument of lit_out_eqb) reproduce the implementation on this case? *)
Definition model_agrees (c : case) : bool :=
  match c with
  | Lex s o => lex_out_eqb (model_lex s) o
  | Lit f s o => match run_lit f s with Some m => lit_out_eqb m o | None => true end
  | Api _ _ _ => true
  end.

(* the property: every call returns (no panic, no abort, no hang); for the lexer the caller's
   loop must also reach Eof within len+2 calls (otherwise the harness reports LexHang) *)
Fixpoint ends_with_eof (l : list ltok) : bool :=
  match l with
  | [] => false
  | [L t _ _] => is_eof_tok t
  | _ :: r => ends_with_eof r
  end.
Definition spec_ok (c : case) : bool :=
  match c with
  | Lex s o => match o with LexOk toks _ _ => ends_with_eof toks | _ => false end
  | Lit f s o => match o with LitPanic => false | _ => true end
  | Api _ _ o => match o with AOk _ _ => true | _ => false end
  end.

(* ---------------------------------------------------------------- recorded findings *)
Definition fnth (l : list Z) (i : nat) : Z := nth i l 0.

(* recorded, still open findings of the exploration part: 6, 8, 11.  The lexer / literal findings
   1..5, 12 and the findings 7, 9, 10, 13, 14 were repaired in /repo; their witnesses run as corpus
   cases and must now satisfy spec_ok. *)
Definition known_class (c : case) : Z :=
  match c with
  | Lex _ _ => 0
  | Lit _ _ _ => 0
  | Api _ feat o =>
      match o with
      | APanic file cls =>
          if (file =? 45) && (cls =? 4) && (fnth feat 5 =? 1) then 6         (* src/records builder, a write statement *)
          else if (cls =? 7) && (Z.land (fnth feat 6) 1 =? 1) then 8         (* LPAD/RPAD/REPEAT/SPACE capacity overflow *)
          else 0
      | AAbort =>
          if (1000 <=? fnth feat 0) || (1000 <=? fnth feat 3) then 11        (* parser / planner / JSON recursion *)
          else if Z.land (fnth feat 6) 1 =? 1 then 8                         (* REPEAT / SPACE / LPAD: memory exhausted *)
          else 0
      | ATimeout => if Z.land (fnth feat 6) 1 =? 1 then 8 else 0             (* RPAD: unbounded loop *)
      | _ => 0
      end
  end.

Fixpoint failures_from (i : Z) (cs : list case) : list (Z * bool * bool * Z) :=
  match cs with
  | [] => []
  | c :: t =>
      let m := model_agrees c in
      let s := spec_ok c in
      if m && s then failures_from (i + 1) t else (i, m, s, known_class c) :: failures_from (i + 1) t
  end.
Definition failures := failures_from 0.
