(* C07 -- transaction level: an invariant that every covered statement of a transaction body keeps
   ("undoing the write entries logged since the mark gives back the state at the mark"), and from it
   rollback_restores (BEGIN .. ROLLBACK), drop_restores (BEGIN .. handle dropped) and
   savepoint_restores (SAVEPOINT n .. ROLLBACK TO n), for every covered body with arbitrarily
   nested inner savepoints. *)
From Coq Require Import ZArith List Bool Lia Sorted.
From TV Require Import Model.SqlSpec Model.UndoLog Model.UndoLogSpec
  Proof.UndoLogBase Proof.UndoLogStep Proof.UndoLogSp.
Import ListNotations.
Open Scope Z_scope.

Lemma inv_core3_mono : forall sch a b, core3 a = core3 b -> nextid b <= nextid a -> inv sch b -> inv sch a.
Proof.
  intros sch a b H Hn (Hs & Hb & Hr & Hc). unfold core3 in H. injection H as He Hr' Hk.
  unfold inv, ids_sorted, ids_below, kidx_complete in *. rewrite He, Hr', Hk.
  repeat split; try assumption. intros e Hin. specialize (Hb e Hin). lia.
Qed.

Lemma inv_undo_transfer : forall sch ws a b,
  core3 a = core3 b -> nextid b <= nextid a -> inv sch (undo_list sch ws b) -> inv sch (undo_list sch ws a).
Proof.
  intros sch ws a b H Hn Hi. apply inv_core3_mono with (b := undo_list sch ws b).
  - apply undo_list_core3. exact H.
  - rewrite !undo_list_nextid. exact Hn.
  - exact Hi.
Qed.

Lemma run_app : forall sch a b s, run sch (a ++ b) s = run sch b (run sch a s).
Proof. intros sch a. induction a as [|o a IH]; intros b s; cbn [app run]; [reflexivity| apply IH]. Qed.

(* wl0 / sp0: the write entries and savepoint markers that existed at the mark; target: the state
   at the mark *)
Definition seg_inv (sch : schema) (target : tstate) (wl0 : list wentry) (sp0 : list (Z * nat))
           (s : tstate * option txn) : Prop :=
  exists st t ext esp,
    s = (st, Some t) /\ wlog t = wl0 ++ ext /\ sps t = sp0 ++ esp /\
    inv sch st /\ nextid target <= nextid st /\
    core3 (undo_list sch ext st) = core3 target /\
    (forall n idx, In (n, idx) esp ->
       (length wl0 <= idx <= length (wlog t))%nat /\ inv sch (undo_list sch (skipn idx (wlog t)) st)) /\
    StronglySorted le (map snd esp).

Lemma seg_inv_dml : forall sch target wl0 sp0 st t st' es,
  seg_inv sch target wl0 sp0 (st, Some t) ->
  inv sch st' -> nextid st <= nextid st' -> core3 (undo_list sch es st') = core3 st ->
  seg_inv sch target wl0 sp0 (st', Some (mkTxn (wlog t ++ es) (sps t))).
Proof.
  intros sch target wl0 sp0 st t st' es (st0 & t0 & ext & esp & Heq & Hw & Hp & Hi & Hn & Hc & Hsp & Hso) Hi' Hn' Hes.
  injection Heq as <- <-.
  exists st', (mkTxn (wlog t ++ es) (sps t)), (ext ++ es), esp. cbn [wlog sps].
  split; [reflexivity|]. split; [rewrite Hw; apply app_assoc_reverse|]. split; [exact Hp|].
  split; [exact Hi'|]. split; [lia|]. split.
  - rewrite undo_list_app. rewrite <- Hc. apply undo_list_core3. exact Hes.
  - split; [|exact Hso]. intros n idx Hin. destruct (Hsp n idx Hin) as [[H1 H2] H3]. split.
    + rewrite app_length. lia.
    + rewrite skipn_app_le by exact H2. rewrite undo_list_app.
      eapply inv_undo_transfer; [exact Hes | rewrite undo_list_nextid; exact Hn' | exact H3].
Qed.

Lemma skipn_map' : forall {A B} (f : A -> B) n l, skipn n (map f l) = map f (skipn n l).
Proof. intros A B f n. induction n as [|n IH]; intro l; [reflexivity|]. destruct l; [reflexivity|]. cbn [map skipn]. apply IH. Qed.

Lemma seg_inv_step : forall sch target wl0 sp0 o s,
  seg_inv sch target wl0 sp0 s -> clean_op sch (names_of sp0) o s = true ->
  seg_inv sch target wl0 sp0 (snd (exec sch o s)).
Proof.
  intros sch target wl0 sp0 o s Hinv Hcl.
  pose proof Hinv as (st & t & ext & esp & -> & Hw & Hp & Hi & Hn & Hc & Hsp & Hso).
  destruct o as [rows|sc v w|w| | | |n|n|n| | ]; cbn [clean_op fst] in Hcl; try discriminate.
  - (* INSERT *)
    cbn [exec]. destruct (do_insert sch st rows) as [[r st'] es] eqn:E. cbn [snd log_dml].
    destruct (do_insert_inv _ _ _ _ _ _ Hi E) as [Hi' Hn'].
    apply (seg_inv_dml _ _ _ _ _ _ _ _ Hinv Hi' Hn').
    eapply undo_insert_inverts_l; eassumption.
  - (* UPDATE *)
    rename Hcl into Hk. apply negb_true_iff in Hk.
    cbn [exec]. destruct (do_update sch st sc v w) as [[r st'] es] eqn:E. cbn [snd log_dml].
    destruct (do_update_inv _ _ _ _ _ _ _ _ Hi Hk E) as [Hi' Hn'].
    apply (seg_inv_dml _ _ _ _ _ _ _ _ Hinv Hi' Hn').
    eapply undo_update_inverts_l; eassumption.
  - (* BEGIN inside a transaction: an error *)
    cbn [exec snd]. exact Hinv.
  - (* SAVEPOINT n *)
    cbn [exec snd].
    exists st, (mkTxn (wlog t) (sps t ++ [(n, length (wlog t))])), ext, (esp ++ [(n, length (wlog t))]). cbn [wlog sps].
    split; [reflexivity|]. split; [exact Hw|]. split; [rewrite Hp; apply app_assoc_reverse|].
    split; [exact Hi|]. split; [exact Hn|]. split; [exact Hc|]. split.
    + intros m idx Hin. apply in_app_or in Hin. destruct Hin as [Hin|[Hin|[]]]; [apply Hsp with m; exact Hin|].
      injection Hin as _ <-. split.
      * rewrite Hw, app_length. lia.
      * rewrite skipn_all. rewrite undo_list_nil. exact Hi.
    + rewrite map_app. cbn [map snd]. apply sorted_le_app_last; [exact Hso|].
      intros y Hy. apply in_map_iff in Hy. destruct Hy as ([m k] & <- & Hmk). cbn [snd].
      destruct (Hsp m k Hmk) as [[_ H2] _]. exact H2.
  - (* ROLLBACK TO n *)
    apply negb_true_iff in Hcl. cbn [exec]. rewrite Hp, (sp_find_app_r _ _ _ Hcl).
    destruct (sp_find n esp) as [i|] eqn:Ef; [|cbn [snd]; exact Hinv].
    destruct (sp_find_nth _ _ _ Ef) as (idx & Hnth).
    rewrite nth_error_app_len, Hnth. cbn [snd].
    destruct (Hsp n idx (nth_error_In _ _ Hnth)) as [[B1 B2] B3].
    exists (undo_list sch (skipn idx (wlog t)) st),
           (mkTxn (firstn idx (wlog t)) (firstn (S (length sp0 + i)) (sp0 ++ esp))),
           (firstn (idx - length wl0) ext), (firstn (S i) esp). cbn [wlog sps].
    split; [reflexivity|]. split.
    { rewrite Hw, firstn_app. rewrite firstn_all2 by exact B1. reflexivity. }
    split.
    { replace (S (length sp0 + i)) with (length sp0 + S i)%nat by lia. apply firstn_app_len. }
    split; [exact B3|]. split; [rewrite undo_list_nextid; exact Hn|]. split.
    { rewrite Hw, skipn_app. rewrite skipn_all2 by exact B1. cbn [app].
      rewrite <- undo_list_app, firstn_skipn. exact Hc. }
    split.
    + intros m idx' Hin.
      assert (Hin' : In (m, idx') esp) by (eapply In_firstn; exact Hin).
      destruct (Hsp m idx' Hin') as [[C1 C2] C3].
      assert (Hle : (idx' <= idx)%nat).
      { apply (sorted_le_nth (map snd esp) i idx idx' Hso).
        - rewrite (map_nth_error snd _ _ Hnth). reflexivity.
        - rewrite firstn_map. apply (in_map snd _ _ Hin). }
      split.
      * rewrite firstn_length_le by exact B2. lia.
      * rewrite <- undo_list_app. rewrite skipn_firstn_app by assumption. exact C3.
    + rewrite <- firstn_map. apply sorted_le_firstn. exact Hso.
  - (* RELEASE n *)
    apply negb_true_iff in Hcl. cbn [exec]. rewrite Hp, (sp_find_app_r _ _ _ Hcl).
    destruct (sp_find n esp) as [i|] eqn:Ef; [|cbn [snd]; exact Hinv]. cbn [snd].
    exists st, (mkTxn (wlog t) (sp_remove (length sp0 + i) (sp0 ++ esp))), ext, (sp_remove i esp). cbn [wlog sps].
    split; [reflexivity|]. split; [exact Hw|]. split; [apply sp_remove_app_len|].
    split; [exact Hi|]. split; [exact Hn|]. split; [exact Hc|]. split.
    + intros m idx Hin. apply Hsp with m. unfold sp_remove in Hin. apply in_app_or in Hin.
      destruct Hin as [Hin|Hin]; [eapply In_firstn | eapply In_skipn]; exact Hin.
    + unfold sp_remove. rewrite map_app, <- firstn_map, <- skipn_map'. apply sorted_le_remove. exact Hso.
  - (* no statement *)
    cbn [exec snd]. exact Hinv.
Qed.

Lemma seg_inv_run : forall sch target wl0 sp0 ops s,
  seg_inv sch target wl0 sp0 s -> clean_run sch (names_of sp0) ops s = true ->
  seg_inv sch target wl0 sp0 (run sch ops s).
Proof.
  intros sch target wl0 sp0 ops. induction ops as [|o ops IH]; intros s Hinv Hcl; cbn [run]; [exact Hinv|].
  cbn [clean_run] in Hcl. apply andb_true_iff in Hcl. destruct Hcl as [H1 H2].
  apply IH; [apply seg_inv_step; assumption | exact H2].
Qed.

Lemma seg_inv_start : forall sch st wl0 sp0, inv sch st -> seg_inv sch st wl0 sp0 (st, Some (mkTxn wl0 sp0)).
Proof.
  intros sch st wl0 sp0 Hi. exists st, (mkTxn wl0 sp0), [], []. cbn [wlog sps].
  split; [reflexivity|]. split; [symmetry; apply app_nil_r|]. split; [symmetry; apply app_nil_r|].
  split; [exact Hi|]. split; [lia|]. split; [reflexivity|]. split; [intros n idx []| constructor].
Qed.

(* ------------------------------------------------------------------ BEGIN .. ROLLBACK / drop *)
Lemma rollback_restores_l : forall sch st body fin,
  inv sch st -> clean_run sch [] body (st, Some (mkTxn [] [])) = true ->
  fin = ORollback \/ fin = ODrop ->
  let s' := run sch (OBegin :: body ++ [fin]) (st, None) in
  core3 (fst s') = core3 st /\ snd s' = None.
Proof.
  intros sch st body fin Hi Hcl Hfin s'. subst s'. cbn [run exec snd]. rewrite run_app.
  pose proof (seg_inv_run sch st [] [] body _ (seg_inv_start sch st [] [] Hi) Hcl) as Hr.
  destruct Hr as (st' & t' & ext & esp & Heq & Hw & _ & _ & _ & Hc & _). rewrite Heq.
  cbn [app] in Hw. destruct Hfin as [-> | ->]; cbn [run exec snd fst]; rewrite Hw; split; (exact Hc || reflexivity).
Qed.

(* ------------------------------------------------------------------ SAVEPOINT n .. ROLLBACK TO n *)
Lemma names_of_app : forall a b, names_of (a ++ b) = names_of a ++ names_of b.
Proof. intros. unfold names_of. apply map_app. Qed.

Lemma savepoint_restores_l : forall sch st t n body,
  inv sch st -> zin n (names_of (sps t)) = false ->
  clean_run sch (names_of (sps t) ++ [n]) body
            (st, Some (mkTxn (wlog t) (sps t ++ [(n, length (wlog t))]))) = true ->
  let s' := run sch (OSave n :: body ++ [ORollTo n]) (st, Some t) in
  core3 (fst s') = core3 st /\
  snd s' = Some (mkTxn (wlog t) (sps t ++ [(n, length (wlog t))])).
Proof.
  intros sch st t n body Hi Hfresh Hcl s'. subst s'. cbn [run exec snd]. rewrite run_app.
  set (sp0 := sps t ++ [(n, length (wlog t))]) in *.
  assert (Hnames : names_of sp0 = names_of (sps t) ++ [n]) by (unfold sp0; rewrite names_of_app; reflexivity).
  rewrite <- Hnames in Hcl.
  pose proof (seg_inv_run sch st (wlog t) sp0 body _ (seg_inv_start sch st (wlog t) sp0 Hi) Hcl) as Hr.
  destruct Hr as (st' & t' & ext & esp & Heq & Hw & Hp & _ & _ & Hc & _). rewrite Heq.
  cbn [run exec]. rewrite Hp.
  assert (Hf : sp_find n (sp0 ++ esp) = Some (length (sps t))).
  { apply sp_find_app_l. unfold sp0. apply sp_find_fresh_end. exact Hfresh. }
  rewrite Hf.
  assert (Hnth : nth_error (sp0 ++ esp) (length (sps t)) = Some (n, length (wlog t))).
  { unfold sp0. rewrite <- app_assoc. replace (length (sps t)) with (length (sps t) + 0)%nat by lia.
    rewrite nth_error_app_len. reflexivity. }
  rewrite Hnth. cbn [snd fst]. rewrite Hw. split.
  - replace (length (wlog t)) with (length (wlog t) + 0)%nat by lia. rewrite skipn_app_len. cbn [skipn]. exact Hc.
  - f_equal. f_equal.
    + replace (length (wlog t)) with (length (wlog t) + 0)%nat by lia. rewrite firstn_app_len. cbn [firstn]. apply app_nil_r.
    + unfold sp0. rewrite <- app_assoc. replace (S (length (sps t))) with (length (sps t) + 1)%nat by lia.
      rewrite firstn_app_len. reflexivity.
Qed.
