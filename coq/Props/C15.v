(* C15 - ORDER BY, LIMIT, OFFSET and DISTINCT are exact.  Property theorems only.
   Reference semantics: Model/SortSpec.v (+ Model/SortQuery.v for the query fragment), on top of
   the shared Model/SqlSpec.v.  Implementation model: Model/SortImpl.v (hand-written; tied to
   /repo by the correspondence run of harness/src/bin/c15.rs against Corr/C15.v). *)
From Coq Require Import ZArith List Bool Permutation Sorted.
From TV Require Import Model.KnnOrder Proof.KnnOrder.
From TV Require Import Model.SqlSpec Model.SortSpec Model.SortQuery Model.SortImpl Model.SortGroup.
From TV Require Import Proof.SortOrder Proof.SortLimit Proof.SortWindow Proof.SortResult
                       Proof.SortKeys Proof.SortModel Proof.SortRefute Proof.SortGroup.
Import ListNotations.
Open Scope Z_scope.

(* ------------------------------------------------------------------ the order *)
(* the reference key order (any list of keys, any directions) is a total preorder *)
Theorem key_order_total_preorder : forall dirs, cmp_total_preorder (elt_cmp dirs).
Proof. exact elt_cmp_preorder_l. Qed.

(* NULL comes before every non-NULL value ascending and after it descending; DESC = reverse *)
Theorem null_first_asc_last_desc : forall v, v <> VNull ->
  dir_cmp true VNull v = Lt /\ dir_cmp false v VNull = Lt /\ dir_cmp true VNull VNull = Eq.
Proof. exact null_first_l. Qed.
Theorem desc_is_reverse : forall a b, dir_cmp false a b = CompOpp (dir_cmp true a b).
Proof. exact desc_is_reverse_l. Qed.

(* on values of one type the reference order is the comparison of the shared SQL semantics *)
Theorem key_order_is_sql_comparison : forall a b,
  a <> VNull -> b <> VNull -> vclass_ok a = true -> vclass_ok b = true -> same_class a b = true ->
  cmp_values a b = Some (Some (sort_cmp a b)).
Proof. exact sort_cmp_is_cmp_values_l. Qed.

(* the implementation's comparators: on NULLs and values of one type (no NaN) each of them IS the
   reference order -- hence a total preorder with NULL first on every same-type key column *)
Theorem compare_for_sort_correct : forall a b, comparable a b -> compare_for_sort a b = sort_cmp a b.
Proof. exact compare_for_sort_agrees_l. Qed.
Theorem compare_owned_values_correct : forall a b, comparable a b -> compare_owned a b = sort_cmp a b.
Proof. exact compare_owned_agrees_l. Qed.
Theorem sort_executor_compare_correct : forall a b, comparable a b -> not_bool a -> not_bool b ->
  sort_exec_compare a b = sort_cmp a b.
Proof. exact sort_exec_compare_agrees_l. Qed.
Theorem cmp_total_preorder_same_type : forall (vcmp : value -> value -> comparison) (S : value -> Prop),
  (forall a b, S a -> S b -> vcmp a b = sort_cmp a b) ->
  (forall a b, S a -> S b -> vcmp b a = CompOpp (vcmp a b)) /\
  (forall a b c, S a -> S b -> S c -> vcmp a b <> Gt -> vcmp b c <> Gt -> vcmp a c <> Gt).
Proof. exact cmp_total_preorder_on_l. Qed.
(* the closure handed to sort_by / the TopK heap = the reference lexicographic order, on the
   elements of any bag whose key columns are homogeneous *)
Theorem sort_closure_correct : forall dirs (B : list elt) x y,
  keys_homog (length dirs) (map fst B) = true -> In x B -> In y B ->
  impl_elt_cmp dirs x y = elt_cmp dirs x y.
Proof. exact impl_elt_cmp_agrees_l. Qed.

(* ... and they are NOT transitive beyond that: `_ => Ordering::Equal` on mixed types
   (compare_owned_values, SortExecutor::compare_values), unwrap_or(Equal) on a NaN key *)
Theorem compare_owned_values_mixed_refuted :
  exists a b c, compare_owned a b <> Gt /\ compare_owned b c <> Gt /\ compare_owned a c = Gt.
Proof. exact compare_owned_mixed_refuted_l. Qed.
Theorem sort_executor_compare_mixed_refuted :
  exists a b c, sort_exec_compare a b <> Gt /\ sort_exec_compare b c <> Gt /\ sort_exec_compare a c = Gt.
Proof. exact sort_exec_compare_mixed_refuted_l. Qed.
Theorem compare_for_sort_nan_refuted :
  exists a b c, compare_for_sort a b <> Gt /\ compare_for_sort b c <> Gt /\ compare_for_sort a c = Gt.
Proof. exact compare_for_sort_nan_refuted_l. Qed.

(* ------------------------------------------------------------------ LIMIT / OFFSET *)
(* the two-counter state machine returns exactly the window, for every offset, limit, stream *)
Theorem limit_machine_is_window :
  forall (A : Type) (lim : option nat) (off : nat) (xs : list A), limit_exec lim off xs = window off lim xs.
Proof. exact (@limit_machine_is_window_l). Qed.

(* ORDER BY .. LIMIT l OFFSET o through the heap of l+o rows (TopK) is a window of a sorted
   arrangement, for every l, o and input *)
Theorem topk_is_window : forall dirs (B out : list elt) o l,
  topk (elt_cmp dirs) (l + o) B = TOk out ->
  rows_spec (elt_cmp dirs) snd false B o (Some l) (map snd (firstn l (skipn o out))).
Proof. exact spec_of_topk. Qed.

(* the heap size limit.saturating_add(offset) of the code (commit 95facdb) versus the exact sum
   of the model: any two sizes beyond the input give the same rows (the heap never fills) *)
Theorem topk_heap_size_irrelevant : forall (A : Type) (cmp : A -> A -> comparison) k k' (rows : list A),
  (length rows < k)%nat -> (length rows < k')%nat -> topk cmp k rows = topk cmp k' rows.
Proof. exact (@topk_size_irrelevant_l). Qed.

(* ------------------------------------------------------------------ DISTINCT *)
(* first occurrences: every distinct row exactly once, nothing invented *)
Theorem distinct_each_row_once : forall (B : list elt),
  NoDup (map snd (dedupe snd row_eqb [] B)) /\
  (forall e, In e (dedupe snd row_eqb [] B) -> In e B) /\
  (forall e, In e B -> In (snd e) (map snd (dedupe snd row_eqb [] B))).
Proof. exact (dedupe_distinct_l snd row_eqb row_eqb_spec). Qed.

(* ------------------------------------------------------------------ the checker used on the real output *)
(* whatever it accepts is the window of a sorted arrangement (no side condition) ... *)
Theorem checker_sound : forall dirs distinct B o l rows,
  result_chk dirs distinct B o l rows = true -> result_spec dirs distinct B o l rows.
Proof. exact result_chk_sound_l. Qed.
(* ... and wherever the property makes a demand it accepts every right answer (ties in any order) *)
Theorem checker_decides_property : forall dirs distinct B o l rows,
  result_defined dirs distinct B = true ->
  (result_chk dirs distinct B o l rows = true <-> result_spec dirs distinct B o l rows).
Proof. exact result_chk_iff_spec_l. Qed.
(* ORDER BY alone: accepted = a permutation of the selected rows sorted by the keys *)
Theorem checker_order_by : forall dirs B rows,
  result_chk dirs false B 0 None rows = true ->
  exists S, Permutation S (map norm_elt B) /\ sorted_by (elt_cmp dirs) S /\ map norm_row rows = map snd S.
Proof. exact order_by_chk_l. Qed.

(* ------------------------------------------------------------------ end to end on the model *)
(* every table, every query of the fragment outside the recorded finding classes (1, 2, 3, 6 -- a
   function of the query alone): the rows the implementation model returns satisfy the property,
   DISTINCT with LIMIT / OFFSET, -0.0 and unary minus included *)
Theorem model_meets_spec : forall ncols q t rows,
  known_class_q ncols q = 0%Z ->
  model_query ncols q t = MRows rows ->
  query_spec ncols q t rows.
Proof. exact model_meets_spec_l. Qed.

(* the same over GROUP BY (keys = output columns covering every grouping column): the rows the
   model returns are the window of a sorted arrangement of the groups *)
Theorem group_model_meets_spec : forall ncols gq t rows,
  model_group ncols gq t = MRows rows ->
  result_defined (g_dirs gq) false (g_elts gq t) = true ->
  result_spec (g_dirs gq) false (g_elts gq t) (g_off gq) (g_lim gq) rows.
Proof. exact group_model_meets_spec_l. Qed.

(* each recorded class contains a query that the faithful model answers wrongly *)
Theorem known_classes_refuted : refuted 1 /\ refuted 2 /\ refuted 3 /\ refuted 6.
Proof. exact known_classes_refuted_l. Qed.

(* HISTORICAL (classes repaired in /repo: unary minus in a key, DISTINCT before LIMIT, column list
   projected once, DISTINCT 0.0 / -0.0): their former witnesses are in class 0 of the model of the
   repaired code and answered correctly *)
Theorem repaired_witnesses_correct :
  now_correct 3 wt (mkQ false (SelList [SI 0 false; SI 1 false]) None [(KExpr (XNeg (XCol 1)), true)] None None) /\
  now_correct 3 wt (mkQ true (SelList [SI 1 false]) None [(KCol 1 false, false)] (Some 2) None) /\
  now_correct 3 wt (mkQ true (SelList [SI 1 false]) None [] None None) /\
  now_correct 2 wz (mkQ true (SelList [SI 1 false]) (Some 0) [] None None).
Proof. exact repaired_witnesses_correct_l. Qed.

(* the reference value of a key expression without a function call is the evaluator of the
   shared SQL semantics *)
Theorem key_expression_is_sql_eval : forall e r, kexpr_has_fn e = false -> spec_kexpr e r = eval (to_expr e) r.
Proof. exact spec_kexpr_is_eval. Qed.

(* non-vacuity: class 0 contains multi-key ORDER BY with DESC, LIMIT / OFFSET, DISTINCT with an
   alias key over NULLs and duplicates; the hypotheses of the comparator theorems are met *)
Example c15_witness :
  known_class_q 3 (mkQ false (SelList [SI 0 false; SI 1 false]) None [(KCol 1 false, false); (KCol 0 false, true)] (Some 3) (Some 1)) = 0%Z /\
  model_query 3 (mkQ false (SelList [SI 0 false; SI 1 false]) None [(KCol 1 false, false); (KCol 0 false, true)] (Some 3) (Some 1)) wt
    = MRows [[VInt 4; VInt 3]; [VInt 5; VInt 2]; [VInt 3; VInt 1]] /\
  comparable VNull (VInt 3) /\ comparable (VText [97]) (VText [98]) /\
  keys_homog 1 [[VInt 3]; [VNull]; [VInt 1]] = true /\
  result_defined [false; true] false [([VInt 3; VInt 1], [VInt 1; VInt 3]); ([VNull; VInt 2], [VInt 2; VNull])] = true /\
  result_chk [true] false [([VInt 3], [VInt 1]); ([VNull], [VInt 2]); ([VInt 3], [VInt 4])] 1 (Some 1%nat) [[VInt 4]] = true /\
  result_chk [true] false [([VInt 3], [VInt 1]); ([VNull], [VInt 2]); ([VInt 3], [VInt 4])] 1 (Some 1%nat) [[VInt 2]] = false.
Proof. vm_compute. repeat split. Qed.

Check key_order_total_preorder : forall dirs, cmp_total_preorder (elt_cmp dirs).
Check null_first_asc_last_desc : forall v, v <> VNull ->
  dir_cmp true VNull v = Lt /\ dir_cmp false v VNull = Lt /\ dir_cmp true VNull VNull = Eq.
Check desc_is_reverse : forall a b, dir_cmp false a b = CompOpp (dir_cmp true a b).
Check key_order_is_sql_comparison : forall a b,
  a <> VNull -> b <> VNull -> vclass_ok a = true -> vclass_ok b = true -> same_class a b = true ->
  cmp_values a b = Some (Some (sort_cmp a b)).
Check compare_for_sort_correct : forall a b, comparable a b -> compare_for_sort a b = sort_cmp a b.
Check compare_owned_values_correct : forall a b, comparable a b -> compare_owned a b = sort_cmp a b.
Check sort_executor_compare_correct : forall a b, comparable a b -> not_bool a -> not_bool b ->
  sort_exec_compare a b = sort_cmp a b.
Check cmp_total_preorder_same_type : forall (vcmp : value -> value -> comparison) (S : value -> Prop),
  (forall a b, S a -> S b -> vcmp a b = sort_cmp a b) ->
  (forall a b, S a -> S b -> vcmp b a = CompOpp (vcmp a b)) /\
  (forall a b c, S a -> S b -> S c -> vcmp a b <> Gt -> vcmp b c <> Gt -> vcmp a c <> Gt).
Check sort_closure_correct : forall dirs (B : list elt) x y,
  keys_homog (length dirs) (map fst B) = true -> In x B -> In y B ->
  impl_elt_cmp dirs x y = elt_cmp dirs x y.
Check compare_owned_values_mixed_refuted :
  exists a b c, compare_owned a b <> Gt /\ compare_owned b c <> Gt /\ compare_owned a c = Gt.
Check sort_executor_compare_mixed_refuted :
  exists a b c, sort_exec_compare a b <> Gt /\ sort_exec_compare b c <> Gt /\ sort_exec_compare a c = Gt.
Check compare_for_sort_nan_refuted :
  exists a b c, compare_for_sort a b <> Gt /\ compare_for_sort b c <> Gt /\ compare_for_sort a c = Gt.
Check limit_machine_is_window :
  forall (A : Type) (lim : option nat) (off : nat) (xs : list A), limit_exec lim off xs = window off lim xs.
Check topk_is_window : forall dirs (B out : list elt) o l,
  topk (elt_cmp dirs) (l + o) B = TOk out ->
  rows_spec (elt_cmp dirs) snd false B o (Some l) (map snd (firstn l (skipn o out))).
Check topk_heap_size_irrelevant : forall (A : Type) (cmp : A -> A -> comparison) k k' (rows : list A),
  (length rows < k)%nat -> (length rows < k')%nat -> topk cmp k rows = topk cmp k' rows.
Check distinct_each_row_once : forall (B : list elt),
  NoDup (map snd (dedupe snd row_eqb [] B)) /\
  (forall e, In e (dedupe snd row_eqb [] B) -> In e B) /\
  (forall e, In e B -> In (snd e) (map snd (dedupe snd row_eqb [] B))).
Check checker_sound : forall dirs distinct B o l rows,
  result_chk dirs distinct B o l rows = true -> result_spec dirs distinct B o l rows.
Check checker_decides_property : forall dirs distinct B o l rows,
  result_defined dirs distinct B = true ->
  (result_chk dirs distinct B o l rows = true <-> result_spec dirs distinct B o l rows).
Check checker_order_by : forall dirs B rows,
  result_chk dirs false B 0 None rows = true ->
  exists S, Permutation S (map norm_elt B) /\ sorted_by (elt_cmp dirs) S /\ map norm_row rows = map snd S.
Check model_meets_spec : forall ncols q t rows,
  known_class_q ncols q = 0%Z ->
  model_query ncols q t = MRows rows ->
  query_spec ncols q t rows.
Check group_model_meets_spec : forall ncols gq t rows,
  model_group ncols gq t = MRows rows ->
  result_defined (g_dirs gq) false (g_elts gq t) = true ->
  result_spec (g_dirs gq) false (g_elts gq t) (g_off gq) (g_lim gq) rows.
Check known_classes_refuted : refuted 1 /\ refuted 2 /\ refuted 3 /\ refuted 6.
Check repaired_witnesses_correct :
  now_correct 3 wt (mkQ false (SelList [SI 0 false; SI 1 false]) None [(KExpr (XNeg (XCol 1)), true)] None None) /\
  now_correct 3 wt (mkQ true (SelList [SI 1 false]) None [(KCol 1 false, false)] (Some 2) None) /\
  now_correct 3 wt (mkQ true (SelList [SI 1 false]) None [] None None) /\
  now_correct 2 wz (mkQ true (SelList [SI 1 false]) (Some 0) [] None None).
Check key_expression_is_sql_eval : forall e r, kexpr_has_fn e = false -> spec_kexpr e r = eval (to_expr e) r.

Print Assumptions key_order_total_preorder.
Print Assumptions null_first_asc_last_desc.
Print Assumptions desc_is_reverse.
Print Assumptions key_order_is_sql_comparison.
Print Assumptions compare_for_sort_correct.
Print Assumptions compare_owned_values_correct.
Print Assumptions sort_executor_compare_correct.
Print Assumptions cmp_total_preorder_same_type.
Print Assumptions sort_closure_correct.
Print Assumptions compare_owned_values_mixed_refuted.
Print Assumptions sort_executor_compare_mixed_refuted.
Print Assumptions compare_for_sort_nan_refuted.
Print Assumptions limit_machine_is_window.
Print Assumptions topk_is_window.
Print Assumptions topk_heap_size_irrelevant.
Print Assumptions distinct_each_row_once.
Print Assumptions checker_sound.
Print Assumptions checker_decides_property.
Print Assumptions checker_order_by.
Print Assumptions model_meets_spec.
Print Assumptions group_model_meets_spec.
Print Assumptions known_classes_refuted.
Print Assumptions repaired_witnesses_correct.
Print Assumptions key_expression_is_sql_eval.
