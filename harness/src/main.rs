//! tvh: correspondence harness.  `tvh <property> gen --seed S --tier T --out DIR`
//! runs the implementation on generated cases and writes them, with the implementation's
//! observed behaviour, as Coq terms for the model side (coq/Corr/<property>.v) to judge.
//! `tvh <property> search --seed S --budget N --out FILE` evaluates the property's own
//! oracle on the implementation only (used to find a failing input when a proof
//! obligation or the correspondence no longer checks).
mod util;
mod c27;

pub struct Args {
    pub mode: String,
    pub seed: u64,
    pub tier: String,
    pub out: std::path::PathBuf,
    pub budget: u64,
    pub lines: Option<std::path::PathBuf>,
    pub rest: Vec<String>,
}

fn main() {
    let argv: Vec<String> = std::env::args().collect();
    if argv.len() < 3 {
        eprintln!("usage: tvh <property> <gen|search|replay> [--seed S] [--tier quick|thorough] [--out PATH] [--budget N]");
        std::process::exit(2);
    }
    let prop = argv[1].to_lowercase();
    let mut a = Args { mode: argv[2].clone(), seed: 1, tier: "quick".into(), out: "out".into(), budget: 100_000, lines: None, rest: vec![] };
    let mut i = 3;
    while i < argv.len() {
        match argv[i].as_str() {
            "--seed" => { a.seed = argv[i + 1].parse().unwrap_or(1); i += 2; }
            "--tier" => { a.tier = argv[i + 1].clone(); i += 2; }
            "--out" => { a.out = argv[i + 1].clone().into(); i += 2; }
            "--lines" => { a.lines = Some(argv[i + 1].clone().into()); i += 2; }
            "--budget" => { a.budget = argv[i + 1].parse().unwrap_or(100_000); i += 2; }
            _ => { a.rest.push(argv[i].clone()); i += 1; }
        }
    }
    util::quiet_panics();
    match prop.as_str() {
        "c27" => c27::run(&a),
        _ => { eprintln!("unknown property {}", prop); std::process::exit(2); }
    }
}
