(* C21 - Schema changes behave as declared and persist.  Property theorems only.
   Model/DdlSpec.v is the relational model (what each statement should do), Model/AlterImpl.v the
   model of what src/database/ddl.rs and the DML paths do to stored rows (as the code is, after
   the repairs 2b262ce c3e8980 e35ce21 6de60fd), tied to the real database by the
   correspondence run (harness/src/bin/c21.rs, Corr/C21.v). *)
From Coq Require Import ZArith List Bool.
From TV Require Import Model.DdlSpec Model.AlterImpl Proof.AlterSim Proof.AlterRefute.
Import ListNotations.
Open Scope Z_scope.

(* Every history of DDL and DML statements (any length, any interleaving, reopen anywhere)
   outside the recorded defect classes: after every statement the implementation model reports
   the status and shows, for every table, exactly the column names and rows the relational
   model predicts. *)
Theorem ddl_histories_correct :
  forall h, hist_class i_empty h = 0 -> i_run i_empty h = s_run s_empty h.
Proof. exact hist_correct_l. Qed.

(* ... from any state, not only the empty database *)
Theorem ddl_histories_simulate :
  forall h s, hist_class s h = 0 -> i_run s h = s_run (abs s) h.
Proof. exact hist_sim. Qed.

(* ADD COLUMN: for every table content, existing rows read the DEFAULT exactly when there is no
   DEFAULT (NULL) or the table shows no row ... *)
Theorem add_column_reads_default :
  forall s t tb c, get t (itabs s) = Some tb -> has_col (cname c) (icols tb) = false ->
    fits (cty c) (cdef c) = true -> (cdef c = VN \/ live (irows tb) = []) ->
    i_obs1 (fst (i_step s (AddCol t c))) t
    = TRows (map cname (icols tb) ++ [cname c]) (map (fun r => r ++ [cdef c]) (live (irows tb))).
Proof. exact add_column_reads_default_l. Qed.
(* ... and as the code is they read NULL whatever the DEFAULT says (class 1, still open) *)
Theorem add_column_reads_null :
  forall s t tb c, get t (itabs s) = Some tb -> has_col (cname c) (icols tb) = false ->
    fits (cty c) (cdef c) = true ->
    i_obs1 (fst (i_step s (AddCol t c))) t
    = TRows (map cname (icols tb) ++ [cname c]) (map (fun r => r ++ [VN]) (live (irows tb))).
Proof. exact add_column_reads_null_l. Qed.
Theorem add_default_refuted : hist_class i_empty w1 = 1 /\ i_run i_empty w1 <> s_run s_empty w1.
Proof. exact add_default_refuted_l. Qed.

(* DROP COLUMN keeps every other column's values of every visible row - whatever deleted rows are
   stored and however the name is spelled (2b262ce, c3e8980) - and deleted rows stay deleted *)
Theorem drop_column_preserves_others :
  forall s t tb c i ex, get t (itabs s) = Some tb -> find_col c (icols tb) = Some i ->
    (1 < length (icols tb))%nat ->
    i_obs1 (fst (i_step s (DropCol t c ex))) t
    = TRows (map cname (remove_nth i (icols tb))) (map (remove_nth i) (live (irows tb))).
Proof. exact drop_column_preserves_others_l. Qed.
Theorem drop_column_keeps_delete_bits :
  forall c ex tb tb', i_drop_col c ex tb = Some tb' -> map fst (irows tb') = map fst (irows tb).
Proof. exact drop_column_keeps_delete_bits_l. Qed.

(* RENAME COLUMN keeps all values *)
Theorem rename_preserves_values :
  forall s t tb c n i, get t (itabs s) = Some tb -> find_col c (icols tb) = Some i ->
    has_col n (icols tb) = false ->
    i_obs1 (fst (i_step s (RenameCol t c n))) t = TRows (map cname (rename_at i n (icols tb))) (live (irows tb)).
Proof. exact rename_preserves_values_l. Qed.
Theorem rename_indexed_refuted : hist_class i_empty w6 = 6 /\ i_run i_empty w6 <> s_run s_empty w6.
Proof. exact rename_indexed_refuted_l. Qed.

(* TRUNCATE empties the table, and a row inserted afterwards is the one row shown *)
Theorem truncate_then_insert_visible :
  forall s t tb b r, get t (itabs s) = Some tb -> fits_row (icols tb) r = true ->
    i_obs1 (fst (i_step s (Truncate t b))) t = TRows (map cname (icols tb)) [] /\
    i_obs1 (fst (i_step (fst (i_step s (Truncate t b))) (Insert t r))) t = TRows (map cname (icols tb)) [r].
Proof. exact truncate_then_insert_visible_l. Qed.

Theorem index_missing_column_refuted : hist_class i_empty w8 = 8 /\ i_run i_empty w8 <> s_run s_empty w8.
Proof. exact index_missing_column_refuted_l. Qed.
Theorem drop_column_index_file_refuted : hist_class i_empty w12 = 12 /\ i_run i_empty w12 <> s_run s_empty w12.
Proof. exact drop_column_index_file_refuted_l. Qed.

(* The classes repaired in /repo: DROP COLUMN, ADD COLUMN without DEFAULT, RENAME of a column
   without index and UPDATE over fully-sized records belong to no class any more, in any state ... *)
Theorem former_classes_repaired :
  forall s t c ex n sc sv wc wv,
    step_class s (DropCol t c ex) = 0 /\
    step_class s (AddCol t (mkCol c 0 VN)) = 0 /\
    (existsb (idx_on t c) (iidx s) = false -> step_class s (RenameCol t c n) = 0) /\
    (ishort (tbl_of s t) = false -> step_class s (UpdateEq t sc sv wc wv) = 0 /\ step_class s (UpdateAll t sc sv) = 0).
Proof. exact former_classes_repaired_l. Qed.
(* ... and the former witnesses of classes 2, 3, 4, 5, 7, 9 now agree with the relational model *)
Theorem drop_resurrects_repaired : hist_class i_empty w2 = 0 /\ i_run i_empty w2 = s_run s_empty w2.
Proof. exact drop_resurrects_repaired_l. Qed.
Theorem drop_other_case_repaired : hist_class i_empty w3 = 0 /\ i_run i_empty w3 = s_run s_empty w3.
Proof. exact drop_other_case_repaired_l. Qed.
Theorem add_duplicate_repaired : hist_class i_empty w4 = 0 /\ i_run i_empty w4 = s_run s_empty w4.
Proof. exact add_duplicate_repaired_l. Qed.
Theorem update_resurrects_repaired : hist_class i_empty w5 = 0 /\ i_run i_empty w5 = s_run s_empty w5.
Proof. exact update_resurrects_repaired_l. Qed.
Theorem rename_duplicate_repaired : hist_class i_empty w7 = 0 /\ i_run i_empty w7 = s_run s_empty w7.
Proof. exact rename_duplicate_repaired_l. Qed.
Theorem drop_only_column_repaired : hist_class i_empty w9 = 0 /\ i_run i_empty w9 = s_run s_empty w9.
Proof. exact drop_only_column_repaired_l. Qed.

(* non-vacuity: a 16-statement history over a populated table through every kind of statement,
   outside all classes, with the rows shown after its DROP COLUMN *)
Example c21_witness :
  hist_class i_empty good = 0 /\
  nth_error (i_run i_empty good) 7 = Some (true, [TRows [4; 2] [[VT 1; VN]; [VT 3; VN]; [VT 0; VI 9]]; TNone; TNone]).
Proof. exact good_in_scope_l. Qed.

Check ddl_histories_correct : forall h, hist_class i_empty h = 0 -> i_run i_empty h = s_run s_empty h.
Check ddl_histories_simulate : forall h s, hist_class s h = 0 -> i_run s h = s_run (abs s) h.
Check add_column_reads_default : forall s t tb c, get t (itabs s) = Some tb -> has_col (cname c) (icols tb) = false ->
    fits (cty c) (cdef c) = true -> (cdef c = VN \/ live (irows tb) = []) ->
    i_obs1 (fst (i_step s (AddCol t c))) t
    = TRows (map cname (icols tb) ++ [cname c]) (map (fun r => r ++ [cdef c]) (live (irows tb))).
Check add_column_reads_null : forall s t tb c, get t (itabs s) = Some tb -> has_col (cname c) (icols tb) = false ->
    fits (cty c) (cdef c) = true ->
    i_obs1 (fst (i_step s (AddCol t c))) t
    = TRows (map cname (icols tb) ++ [cname c]) (map (fun r => r ++ [VN]) (live (irows tb))).
Check drop_column_preserves_others : forall s t tb c i ex, get t (itabs s) = Some tb -> find_col c (icols tb) = Some i ->
    (1 < length (icols tb))%nat ->
    i_obs1 (fst (i_step s (DropCol t c ex))) t
    = TRows (map cname (remove_nth i (icols tb))) (map (remove_nth i) (live (irows tb))).
Check drop_column_keeps_delete_bits : forall c ex tb tb', i_drop_col c ex tb = Some tb' -> map fst (irows tb') = map fst (irows tb).
Check rename_preserves_values : forall s t tb c n i, get t (itabs s) = Some tb -> find_col c (icols tb) = Some i ->
    has_col n (icols tb) = false ->
    i_obs1 (fst (i_step s (RenameCol t c n))) t = TRows (map cname (rename_at i n (icols tb))) (live (irows tb)).
Check truncate_then_insert_visible : forall s t tb b r, get t (itabs s) = Some tb -> fits_row (icols tb) r = true ->
    i_obs1 (fst (i_step s (Truncate t b))) t = TRows (map cname (icols tb)) [] /\
    i_obs1 (fst (i_step (fst (i_step s (Truncate t b))) (Insert t r))) t = TRows (map cname (icols tb)) [r].
Check former_classes_repaired : forall s t c ex n sc sv wc wv,
    step_class s (DropCol t c ex) = 0 /\
    step_class s (AddCol t (mkCol c 0 VN)) = 0 /\
    (existsb (idx_on t c) (iidx s) = false -> step_class s (RenameCol t c n) = 0) /\
    (ishort (tbl_of s t) = false -> step_class s (UpdateEq t sc sv wc wv) = 0 /\ step_class s (UpdateAll t sc sv) = 0).
Check add_default_refuted : hist_class i_empty w1 = 1 /\ i_run i_empty w1 <> s_run s_empty w1.
Check rename_indexed_refuted : hist_class i_empty w6 = 6 /\ i_run i_empty w6 <> s_run s_empty w6.
Check index_missing_column_refuted : hist_class i_empty w8 = 8 /\ i_run i_empty w8 <> s_run s_empty w8.
Check drop_column_index_file_refuted : hist_class i_empty w12 = 12 /\ i_run i_empty w12 <> s_run s_empty w12.
Check drop_resurrects_repaired : hist_class i_empty w2 = 0 /\ i_run i_empty w2 = s_run s_empty w2.
Check drop_other_case_repaired : hist_class i_empty w3 = 0 /\ i_run i_empty w3 = s_run s_empty w3.
Check add_duplicate_repaired : hist_class i_empty w4 = 0 /\ i_run i_empty w4 = s_run s_empty w4.
Check update_resurrects_repaired : hist_class i_empty w5 = 0 /\ i_run i_empty w5 = s_run s_empty w5.
Check rename_duplicate_repaired : hist_class i_empty w7 = 0 /\ i_run i_empty w7 = s_run s_empty w7.
Check drop_only_column_repaired : hist_class i_empty w9 = 0 /\ i_run i_empty w9 = s_run s_empty w9.

Print Assumptions ddl_histories_correct.
Print Assumptions ddl_histories_simulate.
Print Assumptions add_column_reads_default.
Print Assumptions add_column_reads_null.
Print Assumptions drop_column_preserves_others.
Print Assumptions drop_column_keeps_delete_bits.
Print Assumptions rename_preserves_values.
Print Assumptions truncate_then_insert_visible.
Print Assumptions former_classes_repaired.
Print Assumptions add_default_refuted.
Print Assumptions rename_indexed_refuted.
Print Assumptions index_missing_column_refuted.
Print Assumptions drop_column_index_file_refuted.
Print Assumptions drop_resurrects_repaired.
Print Assumptions drop_other_case_repaired.
Print Assumptions add_duplicate_repaired.
Print Assumptions update_resurrects_repaired.
Print Assumptions rename_duplicate_repaired.
Print Assumptions drop_only_column_repaired.
