(* C16: agg_fold_spec -- for every aggregate function and EVERY list of argument values outside the
   recorded classes, folding AggregateState::update over the values and finalizing yields exactly
   the reference aggregate (Model/SqlSpecAgg.v agg_vals).  Sums of doubles are in Proof/AggFloat.v. *)
From Coq Require Import ZArith List Bool Lia ZifyBool.
From TV Require Import Model.SqlSpecAgg Model.AggImpl Model.AggClass Proof.AggFold.
Import ListNotations.
Open Scope Z_scope.

Definition kind_of_fn (f : aggfn) : akind :=
  match f with
  | FCountStar | FCount => KCount
  | FSum => KSum | FAvg => KAvg | FMin => KMin | FMax => KMax
  end.

Lemma zlen_map {A B} (g : A -> B) l : zlen (map g l) = zlen l.
Proof. unfold zlen; now rewrite map_length. Qed.

Lemma nonnull_all : forall vs, existsb is_null vs = false -> nonnull vs = vs.
Proof.
  induction vs as [|v t IH]; intros H; [reflexivity|].
  cbn [existsb] in H. apply orb_false_iff in H as [H1 H2].
  unfold nonnull in *; cbn [filter]. rewrite H1; cbn [negb]. now rewrite IH.
Qed.
Lemma nonnull_in : forall vs v, In v (nonnull vs) -> In v vs.
Proof. unfold nonnull; intros vs v H; apply filter_In in H; tauto. Qed.

Lemma fold_omin_some : forall zs c, exists m, fold_left omin zs (Some c) = Some m.
Proof. induction zs as [|z t IH]; intros c; cbn [fold_left]; [eauto|]. apply IH. Qed.
Lemma fold_omax_some : forall zs c, exists m, fold_left omax zs (Some c) = Some m.
Proof. induction zs as [|z t IH]; intros c; cbn [fold_left]; [eauto|]. apply IH. Qed.
Lemma fold_ofmin_some : forall fs c, exists m, fold_left ofmin fs (Some c) = Some m.
Proof. induction fs as [|z t IH]; intros c; cbn [fold_left]; [eauto|]. apply IH. Qed.
Lemma fold_ofmax_some : forall fs c, exists m, fold_left ofmax fs (Some c) = Some m.
Proof. induction fs as [|z t IH]; intros c; cbn [fold_left]; [eauto|]. apply IH. Qed.

Lemma in64_0 : in64 0. Proof. unfold in64; lia. Qed.

Lemma safe_in64 zs : int_sum_safe zs = true -> in64 (0 + pos_sum zs) /\ in64 (0 + neg_sum zs).
Proof.
  unfold int_sum_safe; intros H. apply andb_true_iff in H as [P N].
  apply i64_ok_iff in P. apply i64_ok_iff in N. unfold in64, pos_sum, neg_sum. lia.
Qed.

(* the kinds a MIN / MAX argument can have once text is excluded *)
Lemma one_kind_cases : forall vs, one_kind vs = true -> existsb is_textual vs = false ->
  (exists zs, ints_of vs = Some zs) \/ (exists fs, floats_of vs = Some fs /\ forallb f_okn fs = true) \/ vs = [].
Proof.
  intros vs K T. unfold one_kind in K.
  destruct (ints_of vs) as [zs|] eqn:I; [left; eauto|].
  destruct (floats_of vs) as [fs|] eqn:F; [right; left; exists fs; split; auto|].
  destruct (texts_of vs) as [ts|] eqn:X; [|discriminate].
  destruct vs as [|v t]; [right; right; reflexivity|].
  cbn [texts_of] in X. destruct v; try discriminate.
Qed.

Lemma textual_nonnull : forall vs, existsb is_textual vs = false -> existsb is_textual (nonnull vs) = false.
Proof.
  intros vs H. destruct (existsb is_textual (nonnull vs)) eqn:E; [|reflexivity].
  apply existsb_exists in E as [v [I T]]. apply nonnull_in in I.
  assert (existsb is_textual vs = true) by (apply existsb_exists; eauto). congruence.
Qed.

Lemma nonnull_idem vs : nonnull (nonnull vs) = nonnull vs.
Proof.
  unfold nonnull. induction vs as [|v t IH]; [reflexivity|]. cbn [filter].
  destruct (negb (is_null v)) eqn:E; cbn [filter]; [rewrite E|]; now rewrite IH.
Qed.

Theorem agg_fold_spec : forall f vs v,
  vals_class f vs = 0 -> int_sums f vs = true ->
  agg_vals f vs = AVal v ->
  exists s, fold_upd (kind_of_fn f) st0 (map Some vs) = SOk s /\ fin (kind_of_fn f) s = v.
Proof.
  intros f vs v C I A. destruct f; cbn [kind_of_fn agg_vals vals_class int_sums] in *.
  - (* COUNT( * ) *)
    destruct (fold_count (map Some vs) st0) as [s [E N]]. exists s; split; [exact E|].
    cbn [fin]. rewrite N, zlen_map. cbn [st0 st_count]. injection A as <-. f_equal; lia.
  - (* COUNT(e), no NULL *)
    destruct (existsb is_null vs) eqn:N; [discriminate|].
    destruct (fold_count (map Some vs) st0) as [s [E K]]. exists s; split; [exact E|].
    cbn [fin]. rewrite K, zlen_map. cbn [st0 st_count]. rewrite (nonnull_all vs N) in A. injection A as <-. f_equal; lia.
  - (* SUM of integers, some value not NULL *)
    unfold sum_spec in A. destruct (nonnull vs) as [|v0 nn] eqn:NN; [discriminate|].
    destruct (ints_of (v0 :: nn)) as [zs|] eqn:Z; [|discriminate].
    unfold int_sum_res in A. destruct (int_sum_safe zs) eqn:S; [|destruct (i64_ok (zsum zs)); discriminate].
    injection A as <-. destruct (safe_in64 zs S) as [P Ng].
    rewrite <- NN in Z.
    destruct (fold_sum_int vs zs st0 Z in64_0 P Ng) as [s [E [Su [Sf Sc]]]].
    exists s; split; [exact E|]. cbn [fin]. rewrite Su, Sf. cbn [st0 st_sum st_sumf].
    destruct (0 + zsum zs =? 0) eqn:Z0; cbn [negb].
    + replace (f_is_zero 0) with true by reflexivity. cbn [negb]. f_equal; lia.
    + f_equal; lia.
  - (* AVG of integers *)
    destruct (ints_of (nonnull vs)) as [zs|] eqn:Z; [|discriminate].
    pose proof (ints_of_map _ _ Z) as NNeq.
    unfold avg_spec in A. destruct (nonnull vs) as [|v0 nn] eqn:NN.
    + (* no value: NULL *)
      injection A as <-. cbn in Z. injection Z as <-.
      assert (Z' : ints_of (nonnull vs) = Some []) by (rewrite NN; reflexivity).
      destruct (fold_avg_int vs [] st0 Z' in64_0) as [s [E [Su [Sf Sc]]]]; [cbn; unfold in64; lia | cbn; unfold in64; lia|].
      exists s; split; [exact E|]. cbn [fin]. rewrite Sc. reflexivity.
    + unfold sum_double in A. rewrite Z in A.
      destruct (int_sum_safe zs && (Z.abs (zsum zs) <=? 2 ^ 53)) eqn:S; [|discriminate].
      apply andb_true_iff in S as [S _]. destruct (safe_in64 zs S) as [P Ng].
      rewrite <- NN in Z.
      destruct (fold_avg_int vs zs st0 Z in64_0 P Ng) as [s [E [Su [Sf Sc]]]].
      exists s; split; [exact E|]. cbn [fin]. rewrite Su, Sf, Sc. cbn [st0 st_sum st_sumf st_count].
      assert (L : zlen (v0 :: nn) = zlen zs) by (rewrite NNeq; apply zlen_map).
      assert (Lp : 0 < zlen zs) by (rewrite <- L, zlen_cons; pose proof (zlen_nonneg nn); lia).
      replace (0 + zlen zs =? 0) with false by lia.
      rewrite L in A. replace (0 + zlen zs) with (zlen zs) by lia.
      destruct (0 + zsum zs =? 0) eqn:Z0; cbn [negb].
      * replace (zsum zs) with 0 in A by lia. change (f_of_int 0) with 0 in A.
        destruct (f_div 0 (f_of_int (zlen zs))); [|discriminate]. injection A as <-. reflexivity.
      * replace (0 + zsum zs) with (zsum zs) by lia.
        destruct (f_div (f_of_int (zsum zs)) (f_of_int (zlen zs))); [|discriminate]. injection A as <-. reflexivity.
  - (* MIN *)
    destruct (existsb is_textual vs) eqn:T; [discriminate|].
    unfold ext_spec in A. destruct (nonnull vs) as [|v0 nn] eqn:NN.
    + injection A as <-.
      assert (Z' : ints_of (nonnull vs) = Some []) by (rewrite NN; reflexivity).
      destruct (fold_min_int vs [] st0 Z') as [s [E [M F]]]. exists s; split; [exact E|].
      cbn [fin]. rewrite M, F. reflexivity.
    + destruct (one_kind (v0 :: nn)) eqn:K; [|discriminate].
      pose proof (textual_nonnull vs T) as T'. rewrite NN in T'.
      destruct (one_kind_cases _ K T') as [[zs Z]|[[fs [F Ok]]|E0]]; [| |discriminate].
      * pose proof (ints_of_map _ _ Z) as Eq. destruct zs as [|z0 zt]; [discriminate|].
        cbn [map] in Eq. injection Eq as -> ->.
        rewrite extremum_min_int in A. destruct (fold_omin_some zt z0) as [m Hm]. rewrite Hm in A.
        cbn [option_map] in A. injection A as <-.
        rewrite <- NN in Z. destruct (fold_min_int vs (z0 :: zt) st0 Z) as [s [E [M Fl]]].
        exists s; split; [exact E|]. cbn [fin]. rewrite M. cbn [st0 st_min_i fold_left].
        change (omin None z0) with (Some z0). rewrite Hm. reflexivity.
      * pose proof (floats_of_map _ _ F) as Eq. destruct fs as [|b0 bt]; [discriminate|].
        cbn [map] in Eq. injection Eq as -> ->.
        cbn [forallb] in Ok. apply andb_true_iff in Ok as [Ok0 Okt].
        rewrite (extremum_min_float bt b0 Ok0 Okt) in A. destruct (fold_ofmin_some bt b0) as [m Hm]. rewrite Hm in A.
        cbn [option_map] in A. injection A as <-.
        rewrite <- NN in F.
        assert (Ok' : forallb f_okn (b0 :: bt) = true) by (cbn [forallb]; now rewrite Ok0, Okt).
        destruct (fold_min_float vs (b0 :: bt) st0 F Ok') as [s [E [M Mi]]].
        exists s; split; [exact E|]. cbn [fin]. rewrite M, Mi. cbn [st0 st_min_i st_min_f fold_left].
        change (ofmin None b0) with (Some b0). rewrite Hm. reflexivity.
  - (* MAX *)
    destruct (existsb is_textual vs) eqn:T; [discriminate|].
    unfold ext_spec in A. destruct (nonnull vs) as [|v0 nn] eqn:NN.
    + injection A as <-.
      assert (Z' : ints_of (nonnull vs) = Some []) by (rewrite NN; reflexivity).
      destruct (fold_max_int vs [] st0 Z') as [s [E [M F]]]. exists s; split; [exact E|].
      cbn [fin]. rewrite M, F. reflexivity.
    + destruct (one_kind (v0 :: nn)) eqn:K; [|discriminate].
      pose proof (textual_nonnull vs T) as T'. rewrite NN in T'.
      destruct (one_kind_cases _ K T') as [[zs Z]|[[fs [F Ok]]|E0]]; [| |discriminate].
      * pose proof (ints_of_map _ _ Z) as Eq. destruct zs as [|z0 zt]; [discriminate|].
        cbn [map] in Eq. injection Eq as -> ->.
        rewrite extremum_max_int in A. destruct (fold_omax_some zt z0) as [m Hm]. rewrite Hm in A.
        cbn [option_map] in A. injection A as <-.
        rewrite <- NN in Z. destruct (fold_max_int vs (z0 :: zt) st0 Z) as [s [E [M Fl]]].
        exists s; split; [exact E|]. cbn [fin]. rewrite M. cbn [st0 st_max_i fold_left].
        change (omax None z0) with (Some z0). rewrite Hm. reflexivity.
      * pose proof (floats_of_map _ _ F) as Eq. destruct fs as [|b0 bt]; [discriminate|].
        cbn [map] in Eq. injection Eq as -> ->.
        cbn [forallb] in Ok. apply andb_true_iff in Ok as [Ok0 Okt].
        rewrite (extremum_max_float bt b0 Ok0 Okt) in A. destruct (fold_ofmax_some bt b0) as [m Hm]. rewrite Hm in A.
        cbn [option_map] in A. injection A as <-.
        rewrite <- NN in F.
        assert (Ok' : forallb f_okn (b0 :: bt) = true) by (cbn [forallb]; now rewrite Ok0, Okt).
        destruct (fold_max_float vs (b0 :: bt) st0 F Ok') as [s [E [M Mi]]].
        exists s; split; [exact E|]. cbn [fin]. rewrite M, Mi. cbn [st0 st_max_i st_max_f fold_left].
        change (ofmax None b0) with (Some b0). rewrite Hm. reflexivity.
Qed.
