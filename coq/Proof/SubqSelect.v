(* C18: the row loop of one SELECT (filter + projection) in the implementation model against the
   reference semantics, for a level whose predicate is in the typed fragment; leaves of set
   operations. *)
From Coq Require Import ZArith List Bool Arith Lia.
From TV Require Import Model.SqlSpec Proof.SqlSpecLaws Model.SubqSpec Model.SubqImpl Model.SubqWf Model.SubqClass.
From TV Require Import Proof.SubqLaws Proof.SetOpsBag Proof.SubqEval.
Import ListNotations.
Open Scope Z_scope.

(* what it means for the model's answer to be the answer the reference defines *)
Definition agree (m : mres) (s : res table) : Prop :=
  match s with
  | RUndef => True
  | ROk b => exists a, m = MRows a /\ bag_eq a b
  | RErr => m = MErr
  end.

(* ------------------------------------------------------------------ generic row loop *)
Lemma sel_rows_filter : forall db env items w (P : row -> option bool) (proj : row -> option row) T t,
  (forall r b, In r T ->
     match w with None => ROk true | Some p => pass_res (rtv (xeval db (r :: env) p)) end = ROk b -> P r = Some b) ->
  (forall r o, In r T -> sel_items db (r :: env) items = ROk o -> proj r = Some o) ->
  sel_rows db env items w T = ROk t ->
  exists rows, filter_opt P T = Some rows /\ map_opt proj rows = Some t.
Proof.
  intros db env items w P proj T. induction T as [|r rest IH]; intros t HP Hproj H.
  - cbn [sel_rows] in H. inversion H. exists []. split; reflexivity.
  - cbn [sel_rows] in H. apply rmap2_ok in H. destruct H as [k [tl [Hk [Htl Hres]]]].
    assert (HP' : forall r0 b, In r0 rest ->
       match w with None => ROk true | Some p => pass_res (rtv (xeval db (r0 :: env) p)) end = ROk b -> P r0 = Some b)
      by (intros r0 b Hin; apply HP; right; exact Hin).
    assert (Hproj' : forall r0 o, In r0 rest -> sel_items db (r0 :: env) items = ROk o -> proj r0 = Some o)
      by (intros r0 o Hin; apply Hproj; right; exact Hin).
    destruct (IH tl HP' Hproj' Htl) as [rows [Hf Hm]].
    pose proof (HP r k (or_introl eq_refl) Hk) as Hpr.
    cbn [filter_opt]. rewrite Hpr, Hf. destruct k.
    + apply rbind_ok in Hres. destruct Hres as [o [Ho Ht]]. inversion Ht; subst t.
      exists (r :: rows). split; [reflexivity|]. cbn [map_opt]. rewrite (Hproj r o (or_introl eq_refl) Ho), Hm. reflexivity.
    + inversion Hres; subst t. exists rows. split; [reflexivity|exact Hm].
Qed.

(* the rows that pass, by a boolean the reference determines *)
Lemma sel_rows_keep : forall db env items w T t,
  sel_rows db env items w T = ROk t ->
  forall r, In r T -> exists b,
    match w with None => ROk true | Some p => pass_res (rtv (xeval db (r :: env) p)) end = ROk b.
Proof.
  intros db env items w T. induction T as [|r0 rest IH]; intros t H r Hin; [destruct Hin|].
  cbn [sel_rows] in H. apply rmap2_ok in H. destruct H as [k [tl [Hk [Htl _]]]].
  destruct Hin as [Hr|Hin]; [subst r0; exists k; exact Hk|]. eapply IH; eauto.
Qed.

(* number of output rows = number of passing rows *)
Lemma sel_rows_length : forall db env items w (keepb : row -> bool) T t,
  (forall r, In r T ->
     match w with None => ROk true | Some p => pass_res (rtv (xeval db (r :: env) p)) end = ROk (keepb r)) ->
  sel_rows db env items w T = ROk t -> length t = length (filter keepb T).
Proof.
  intros db env items w keepb T. induction T as [|r rest IH]; intros t Hk H.
  - cbn [sel_rows] in H. inversion H. reflexivity.
  - cbn [sel_rows] in H. apply rmap2_ok in H. destruct H as [k [tl [Hkr [Htl Hres]]]].
    rewrite (Hk r (or_introl eq_refl)) in Hkr. inversion Hkr; subst k.
    assert (Hk' : forall r0, In r0 rest ->
       match w with None => ROk true | Some p => pass_res (rtv (xeval db (r0 :: env) p)) end = ROk (keepb r0))
      by (intros r0 Hin; apply Hk; right; exact Hin).
    specialize (IH tl Hk' Htl). cbn [filter]. destruct (keepb r).
    + apply rbind_ok in Hres. destruct Hres as [o [_ Ht]]. inversion Ht. cbn [length]. rewrite IH. reflexivity.
    + inversion Hres; subst t. exact IH.
Qed.

(* ------------------------------------------------------------------ plain select items *)
Lemma sel_items_plain : forall db r env items o,
  forallb plain_col_item items = true ->
  sel_items db (r :: env) items = ROk o -> map_opt (plain_item r) items = Some o.
Proof.
  intros db r env items. induction items as [|it items IH]; intros o Hp H.
  - cbn in H. inversion H. reflexivity.
  - cbn [forallb] in Hp. apply andb_true_iff in Hp. destruct Hp as [Hit Hp].
    change (sel_items db (r :: env) (it :: items)) with
      (rmap2 (fun v vs => ROk (v :: vs)) (xeval db (r :: env) it) (sel_items db (r :: env) items)) in H.
    apply rmap2_ok in H. destruct H as [v [vs [Hv [Hvs Ho]]]]. inversion Ho; subst o.
    destruct it as [l i q| | | | | | | | | |]; cbn [plain_col_item] in Hit; try discriminate.
    destruct l; [|discriminate]. rewrite xeval_col in Hv. cbn [nth_error] in Hv. apply of_opt_ok in Hv.
    cbn [map_opt plain_item]. rewrite Hv, (IH vs Hp Hvs). reflexivity.
Qed.

(* ------------------------------------------------------------------ lookups at a level without outer levels *)
Lemma db_wf_row : forall widths db k T w r,
  db_wf widths db = true -> nth_error db k = Some T -> nth_error widths k = Some w -> In r T ->
  row_plain r = true /\ length r = w.
Proof.
  induction widths as [|w0 ws IH]; intros db k T w r Hwf HT Hw Hin; destruct db as [|t0 ts]; cbn [db_wf] in Hwf; try discriminate.
  - destruct k; discriminate.
  - apply andb_true_iff in Hwf. destruct Hwf as [H0 Hwf]. destruct k as [|k].
    + cbn [nth_error] in HT, Hw. inversion HT; inversion Hw; subst. rewrite forallb_forall in H0.
      specialize (H0 r Hin). apply andb_true_iff in H0. destruct H0 as [Hp Hl]. apply Nat.eqb_eq in Hl. split; assumption.
    + cbn [nth_error] in HT, Hw. eapply IH; eauto.
Qed.
Lemma db_wf_width : forall widths db k T,
  db_wf widths db = true -> nth_error db k = Some T -> exists w, nth_error widths k = Some w.
Proof.
  induction widths as [|w0 ws IH]; intros db k T Hwf HT; destruct db as [|t0 ts]; cbn [db_wf] in Hwf; try discriminate.
  - destruct k; discriminate.
  - apply andb_true_iff in Hwf. destruct Hwf as [_ Hwf]. destruct k as [|k]; [eexists; reflexivity|]. cbn [nth_error] in *. eapply IH; eauto.
Qed.

Lemma row_plain_nth : forall r i v, row_plain r = true -> nth_error r i = Some v -> plain_val v = true.
Proof.
  intros r i v Hp Hn. unfold row_plain in Hp. rewrite forallb_forall in Hp. apply Hp. eapply nth_error_In; eauto.
Qed.

Lemma look_own_agrees : forall r l i q, row_plain r = true -> look_agrees [r] (look_own r) l i q.
Proof.
  intros r l i q Hp r' v Hr Hv. destruct l as [|l]; cbn [nth_error] in Hr.
  - inversion Hr; subst r'. cbn [look_own]. split; [exact Hv|]. eapply row_plain_nth; eauto.
  - destruct l; discriminate.
Qed.

Lemma cols_ok_all : forall (P : nat -> nat -> bool -> Prop) e, (forall l i q, P l i q) -> cols_ok P e.
Proof.
  intros P e H. induction e; cbn [cols_ok]; auto.
Qed.

(* ------------------------------------------------------------------ expressions without subqueries *)
Lemma has_sub_no_inex : forall e, has_sub e = false -> no_inex e = true.
Proof.
  induction e; cbn [has_sub no_inex]; intro H; try reflexivity; try discriminate;
    try (apply orb_false_iff in H; destruct H as [H1 H2]; rewrite IHe1, IHe2 by assumption; reflexivity); auto.
Qed.
Lemma has_sub_scalars : forall e, has_sub e = false -> scalars_of e = [].
Proof.
  induction e; cbn [has_sub scalars_of]; intro H; try reflexivity; try discriminate;
    try (apply orb_false_iff in H; destruct H as [H1 H2]; rewrite IHe1, IHe2 by assumption; reflexivity); auto.
Qed.
Lemma decor_has_sub : forall p d, decor p = Some d -> has_sub p = true.
Proof.
  induction p; cbn [decor has_sub]; intros d H; try discriminate; try reflexivity.
  destruct (decor p1) eqn:E1.
  - rewrite (IHp1 _ eq_refl). reflexivity.
  - rewrite (IHp2 _ H). apply orb_true_r.
Qed.
Lemma scal_agrees_nil : forall db env scal e, scalars_of e = [] -> scal_agrees db env scal e.
Proof. intros db env scal e H q Hq. rewrite H in Hq. destruct Hq. Qed.

(* no error without scalar subqueries *)
Lemma xeval_no_err : forall db env e, has_sub e = false -> xeval db env e <> RErr.
Proof.
  intros db env. induction e; cbn [has_sub]; intro H; try discriminate.
  - rewrite xeval_col. destruct (nth_error env lvl); [|discriminate]. destruct (nth_error r i); discriminate.
  - apply orb_false_iff in H. destruct H as [H1 H2]. rewrite xeval_arith.
    specialize (IHe1 H1). specialize (IHe2 H2).
    destruct (xeval db env e1), (xeval db env e2); cbn [rmap2]; try congruence; try discriminate.
    destruct (arith_values op a a0); discriminate.
  - apply orb_false_iff in H. destruct H as [H1 H2]. rewrite xeval_cmp.
    specialize (IHe1 H1). specialize (IHe2 H2).
    destruct (xeval db env e1), (xeval db env e2); cbn [rmap2]; try congruence; try discriminate.
    destruct (ret_tv (cmp3 op a a0)); discriminate.
  - apply orb_false_iff in H. destruct H as [H1 H2]. rewrite xeval_and.
    specialize (IHe1 H1). specialize (IHe2 H2).
    destruct (xeval db env e1) as [v1| |], (xeval db env e2) as [v2| |]; try congruence; unfold rtv; cbn [rbind];
      try (destruct (tv_of_value v1) as [[]|]); try (destruct (tv_of_value v2) as [[]|]); cbn; discriminate.
  - apply orb_false_iff in H. destruct H as [H1 H2]. rewrite xeval_or.
    specialize (IHe1 H1). specialize (IHe2 H2).
    destruct (xeval db env e1) as [v1| |], (xeval db env e2) as [v2| |]; try congruence; unfold rtv; cbn [rbind];
      try (destruct (tv_of_value v1) as [[]|]); try (destruct (tv_of_value v2) as [[]|]); cbn; discriminate.
  - rewrite xeval_not. specialize (IHe H). destruct (xeval db env e) as [v| |]; try congruence; unfold rtv; cbn [rbind];
      try (destruct (tv_of_value v) as [[]|]); cbn; discriminate.
  - rewrite xeval_isnull. specialize (IHe H). destruct (xeval db env e) as [v| |]; try congruence; cbn [rbind]; [destruct v|]; discriminate.
Qed.

Lemma sel_items_no_err : forall db env items, existsb has_sub items = false -> sel_items db env items <> RErr.
Proof.
  intros db env items. induction items as [|it items IH]; intro H; [cbn; discriminate|].
  cbn [existsb] in H. apply orb_false_iff in H. destruct H as [H1 H2].
  change (sel_items db env (it :: items)) with
    (rmap2 (fun v vs => ROk (v :: vs)) (xeval db env it) (sel_items db env items)).
  pose proof (xeval_no_err db env it H1). specialize (IH H2).
  destruct (xeval db env it), (sel_items db env items); cbn [rmap2]; congruence.
Qed.

Lemma sel_rows_no_err : forall db env items w T,
  existsb has_sub items = false -> match w with Some p => has_sub p = false | None => True end ->
  sel_rows db env items w T <> RErr.
Proof.
  intros db env items w T Hi Hw. induction T as [|r rest IH]; [cbn; discriminate|].
  cbn [sel_rows].
  assert (Hk : match w with None => ROk true | Some p => pass_res (rtv (xeval db (r :: env) p)) end <> RErr).
  { destruct w as [p|]; [|discriminate]. pose proof (xeval_no_err db (r :: env) p Hw).
    destruct (xeval db (r :: env) p) as [v| |]; try congruence; unfold rtv, pass_res; cbn [rbind];
      [destruct (tv_of_value v); cbn; discriminate|discriminate]. }
  pose proof (sel_items_no_err db (r :: env) items Hi) as Hs.
  destruct (match w with None => ROk true | Some p => pass_res (rtv (xeval db (r :: env) p)) end) as [k| |];
    destruct (sel_rows db env items w rest) as [tl| |]; cbn [rmap2]; try congruence; try discriminate.
  destruct k; [|discriminate]. destruct (sel_items db (r :: env) items); cbn [rbind]; congruence.
Qed.

(* ------------------------------------------------------------------ a branch of a set operation *)
Definition leaf_simple (widths : list nat) (q : qry) : Prop :=
  select_wf widths q = true /\ leaf_has_sub q = false /\ match q with QSel _ (SBase _) _ => True | _ => False end.

Lemma leaf_correct : forall widths db q,
  db_wf widths db = true -> leaf_simple widths q ->
  match qeval db [] q with
  | ROk t => impl_leaf db q = MRows t
  | RUndef => True
  | RErr => False
  end.
Proof.
  intros widths db q Hwf [Hsw [Hns Hshape]].
  destruct q as [items s w|]; [|destruct Hshape]. destruct s as [k|]; [|destruct Hshape].
  cbn [select_wf] in Hsw. destruct w as [p|]; [|discriminate].
  destruct (nth_error widths k) as [lw|] eqn:Hlw; [|discriminate].
  apply andb_true_iff in Hsw. destruct Hsw as [Hsw _]. apply andb_true_iff in Hsw. destruct Hsw as [Hsw _].
  apply andb_true_iff in Hsw. destruct Hsw as [Hitems Hpf].
  cbn [leaf_has_sub] in Hns. apply orb_false_iff in Hns. destruct Hns as [Hni Hnp].
  rewrite qeval_sel, seval_base. destruct (nth_error db k) as [T|] eqn:HT; cbn [of_opt rbind]; [|exact I].
  destruct (sel_rows db [] items (Some p) T) as [t| |] eqn:Hsel.
  - cbn [impl_leaf]. rewrite HT.
    destruct (decor p) eqn:Hd; [apply decor_has_sub in Hd; congruence|].
    destruct (sel_rows_filter db [] items (Some p)
               (fun r => ipass (look_own r) (fun _ => None) p) (fun r => map_opt (plain_item r) items) T t) as [rows [Hf Hm]].
    + intros r b Hin Hb. destruct (db_wf_row widths db k T lw r Hwf HT Hlw Hin) as [Hpl _].
      apply (ipass_agree db [r]); auto.
      * apply has_sub_no_inex; exact Hnp.
      * apply cols_ok_all. intros. apply look_own_agrees. exact Hpl.
      * apply scal_agrees_nil. apply has_sub_scalars. exact Hnp.
    + intros r o Hin Ho. eapply sel_items_plain; eauto.
    + exact Hsel.
    + rewrite Hf. cbv beta iota. unfold row in *. rewrite Hm. reflexivity.
  - exact I.
  - exfalso. eapply (sel_rows_no_err db [] items (Some p) T); eauto.
Qed.
