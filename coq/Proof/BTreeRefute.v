(* C28: the witness histories of Model/BTreeWitness.v evaluated on the model of the repaired code (vm_compute):
   all nine former witnesses are regular and accepted by the ordered-map specification. *)
From Coq Require Import ZArith List Bool.
From TV Require Import Lib.MachInt Gen.Varint Model.BTree Model.BTreeSpec Model.BTreeWitness.
Import ListNotations.
Open Scope Z_scope.

Lemma former_classes_repaired_l :
  accepted w_fwd /\ accepted w_seek /\ accepted w_bwd /\ accepted w_hint /\ accepted w_upd /\ accepted w_leaffull
  /\ accepted w_sepdup /\ accepted w_intfull /\ accepted w_zsep.
Proof. vm_compute. repeat split. Qed.
