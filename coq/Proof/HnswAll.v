(* Proof/HnswAll.v -- facts about EVERY history (deletes included):
   the vacuum queue only ever holds deleted nodes, which read_node refuses, so vacuum_batch never
   changes the graph (it cannot unlink anything and find_new_entry_point is dead code); the entry point
   is never Some(NodeId::none()), so search never reaches the SAbort outcome; sync + reopen does not
   change the result of any search. *)
From Coq Require Import ZArith List Bool Lia Permutation.
From TV Require Import Model.Hnsw Proof.HnswHeap Proof.HnswSearch Proof.HnswFuel Proof.HnswGraph Proof.HnswInv
  Proof.HnswInv0 Proof.HnswExt Proof.HnswSound.
Import ListNotations.
Open Scope Z_scope.

Record good (s : st) : Prop := {
  g_vq : forall id, In id (vq s) ->
           0 <= id /\ exists nd, nth_error (nodes s) (Z.to_nat id) = Some nd /\ n_active nd = false;
  g_entry : forall e, entry s = Some e -> 0 <= e
}.

Lemma good_empty : good empty_st.
Proof. constructor; cbn; [intros id [] | intros e H; discriminate]. Qed.

Lemma good_transfer : forall s s', good s -> keeps_dead s s' -> incl (vq s') (vq s) ->
  (forall e, entry s' = Some e -> 0 <= e) -> good s'.
Proof.
  intros s s' G K Hv He. constructor; auto.
  intros id Hin. destruct (g_vq _ G id (Hv id Hin)) as (H0 & nd & Hn & Hd).
  split; auto. exists nd. split; auto.
Qed.

Lemma good_insert : forall p getv s row v lvl s', good s ->
  (insert p getv s row v lvl = IOk s' \/ insert p getv s row v lvl = IErr s') -> good s'.
Proof.
  intros p getv s row v lvl s' G H.
  pose proof (insert_keeps_dead p getv s row v lvl s' H) as K.
  pose proof (insert_spec p getv s row v lvl (fun _ => True)) as A. cbn zeta in A.
  assert (T1 : links_in s (fun _ => True)) by (repeat intro; exact I).
  specialize (A T1 I (fun _ _ => I)).
  assert (Hshape : s' = s \/ exists s2, ext (appended s row lvl) s2 /\
                     (s' = s2 \/ s' = set_entry_point s2 (Z.of_nat (length (nodes s))) lvl)).
  { destruct H as [H|H]; rewrite H in A.
    - destruct A as (s2 & E & _ & [[-> _]| ->]); right; exists s2; auto.
    - destruct A as [->|[(s2 & E & _ & ->) _]]; [left; auto | right; exists s2; auto]. }
  destruct Hshape as [->|(s2 & E & Hs')]; auto.
  apply (good_transfer s s' G K).
  - destruct Hs' as [->| ->]; cbn [set_entry_point vq]; rewrite (ext_vq _ _ E); unfold appended; cbn [vq]; apply incl_refl.
  - intros e He. destruct Hs' as [->| ->].
    + rewrite (ext_entry _ _ E) in He. unfold appended in He. cbn [entry] in He. eapply g_entry; eauto.
    + cbn [set_entry_point entry] in He. inversion He. lia.
Qed.

Lemma good_delete : forall s row s', good s ->
  (delete_by_row_id s row = DOk s' \/ delete_by_row_id s row = DErr s') -> good s'.
Proof.
  intros s row s' G H. pose proof (delete_keeps_dead s row s' H) as K.
  unfold delete_by_row_id in H.
  destruct (a_get row (rowmap s)) as [id|].
  - match type of H with context [read_node ?s1 id] => destruct (read_node s1 id) as [nd|] eqn:Er end.
    + destruct H as [H|H]; inversion H; subst s'. clear H.
      apply read_node_Some in Er. cbn [nodes] in Er. destruct Er as (H0 & Hn & Ha).
      assert (Hlt : (Z.to_nat id < length (nodes s))%nat) by (apply nth_error_Some; congruence).
      constructor; cbn [vq nodes entry].
      * intros x Hx. apply in_app_iff in Hx. destruct Hx as [Hx|[<-|[]]].
        -- destruct (g_vq _ G x Hx) as (X0 & n0 & Xn & Xd). split; [exact X0|]. exists n0. split; [|exact Xd].
           apply (K (Z.to_nat x) n0 Xn Xd).
        -- split; [exact H0|]. exists (N (n_row nd) (n_level nd) false (n_nbrs nd)). split; [apply upd_nth_eq; exact Hlt | reflexivity].
      * apply (g_entry _ G).
    + destruct H as [H|H]; inversion H; subst s'. constructor; cbn [vq nodes entry]; [apply (g_vq _ G) | apply (g_entry _ G)].
  - destruct H as [H|H]; inversion H; subst s'. exact G.
Qed.

(* vacuum_batch cannot read any node of its batch: nothing but the queue changes *)
Lemma vacuum_noop : forall s n, good s ->
  fst (vacuum_batch s n) = St (nodes s) (entry s) (maxlvl s) (rowmap s) (skipn (Z.to_nat n) (vq s)).
Proof.
  intros s n G. unfold vacuum_batch. cbn [fst].
  set (s0 := St (nodes s) (entry s) (maxlvl s) (rowmap s) (skipn (Z.to_nat n) (vq s))).
  assert (Hb : forall id, In id (firstn (Z.to_nat n) (vq s)) -> read_node s0 id = None).
  { intros id Hin. apply In_firstn in Hin. destruct (g_vq _ G id Hin) as (H0 & nd & Hn & Hd).
    unfold read_node, s0. cbn [nodes]. destruct (Z.ltb_spec id 0); auto. rewrite Hn, Hd. auto. }
  revert Hb. generalize (firstn (Z.to_nat n) (vq s)) as batch. intros batch.
  induction batch as [|id t IH]; intros Hb; cbn [fold_left]; auto.
  unfold vacuum_one at 2. rewrite (Hb id (or_introl eq_refl)). apply IH. intros x Hx. apply Hb. right; auto.
Qed.

Lemma In_skipn_l : forall (A : Type) n (l : list A) x, In x (skipn n l) -> In x l.
Proof.
  intros A n. induction n as [|n IH]; intros l x H; cbn [skipn] in H; auto.
  destruct l as [|y t]; [destruct H | right; auto].
Qed.

Lemma good_step : forall p w o, good (ix w) -> good (ix (fst (step p w o))).
Proof.
  intros p w o G. destruct o as [row v lvl blind|row|n| |q k ef]; cbn [step].
  - destruct (insert p _ (ix w) row v lvl) as [s|s|] eqn:Ei; cbn [fst ix]; auto; eapply good_insert; eauto.
  - destruct (delete_by_row_id (ix w) row) as [s|s] eqn:Ed; cbn [fst ix]; eapply good_delete; eauto.
  - pose proof (vacuum_noop (ix w) n G) as V. destruct (vacuum_batch (ix w) n) as [s c]. cbn [fst ix] in *. subst s.
    constructor; cbn [vq nodes entry]; [|apply (g_entry _ G)].
    intros id Hin. apply (g_vq _ G). eapply In_skipn_l; eauto.
  - cbn [fst ix]. unfold reopen. constructor; cbn [vq nodes entry]; [intros id []|].
    intros e He. destruct (entry (ix w)) as [e0|]; [|discriminate].
    destruct (Z.ltb_spec e0 0); [discriminate|]. inversion He; subst. lia.
  - exact G.
Qed.

Lemma good_run : forall p ops w, good (ix w) -> good (ix (fst (run p w ops))).
Proof.
  intros p ops. induction ops as [|o t IH]; intros w G; cbn [run]; auto.
  pose proof (good_step p w o G) as G1. destruct (step p w o) as [w1 b]. cbn [fst] in G1.
  specialize (IH w1 G1). destruct (run p w1 t) as [w2 bs]. exact IH.
Qed.

Lemma good_reached : forall p ops, good (ix (run0 p ops)).
Proof. intros. apply good_run. apply good_empty. Qed.

Lemma run_app : forall p ops w o, fst (run p w (ops ++ [o])) = fst (step p (fst (run p w ops)) o).
Proof.
  intros p ops. induction ops as [|a t IH]; intros w o; cbn [app run fst].
  - destruct (step p w o) as [w1 b]. reflexivity.
  - destruct (step p w a) as [w1 b]. specialize (IH w1 o).
    destruct (run p w1 (t ++ [o])) as [w2 bs]. destruct (run p w1 t) as [w3 bs3]. cbn [fst] in *. exact IH.
Qed.

(* ---------------------------------------------------------------- the three facts, for histories *)
Lemma vacuum_never_unlinks_l : forall p ops n,
  let s := ix (run0 p ops) in
  ix (run0 p (ops ++ [Vac n])) = St (nodes s) (entry s) (maxlvl s) (rowmap s) (skipn (Z.to_nat n) (vq s)).
Proof.
  intros p ops n s. unfold run0. rewrite run_app. fold (run0 p ops). cbn [step].
  pose proof (vacuum_noop (ix (run0 p ops)) n (good_reached p ops)) as V.
  destruct (vacuum_batch (ix (run0 p ops)) n) as [s1 c]. cbn [fst ix] in *. exact V.
Qed.

Lemma search_total_l : forall p ops getv q k ef,
  match search p getv (ix (run0 p ops)) q k ef with
  | SOk _ => True
  | SErr => Z.of_nat (length q) <> dims p
  | SAbort | SFuel => False
  end.
Proof.
  intros p ops getv q k ef.
  destruct (search p getv (ix (run0 p ops)) q k ef) eqn:Es; auto.
  - unfold search in Es.
    destruct (Z.eqb_spec (Z.of_nat (length q)) (dims p)) as [Heq|Hne]; cbn [negb] in Es; [|exact Hne].
    destruct (entry _) as [ep|]; [|discriminate]. destruct (ep <? 0); [discriminate|].
    destruct (descend _ _ _ _ _ _) as [cur d]. destruct (beam _ _ _ _ _); discriminate.
  - unfold search in Es.
    destruct (negb (Z.of_nat (length q) =? dims p)); [discriminate|].
    destruct (entry (ix (run0 p ops))) as [ep|] eqn:Ee; [|discriminate].
    pose proof (g_entry _ (good_reached p ops) ep Ee).
    destruct (Z.ltb_spec ep 0); [lia|].
    destruct (descend _ _ _ _ _ _) as [cur d]. destruct (beam _ _ _ _ _); discriminate.
  - exact (search_never_out_of_fuel _ _ _ _ _ _ Es).
Qed.

Lemma reopen_id_l : forall p ops q k ef,
  search p (getv_of (tbl (run0 p (ops ++ [Reopen])))) (ix (run0 p (ops ++ [Reopen]))) q k ef =
  search p (getv_of (tbl (run0 p ops))) (ix (run0 p ops)) q k ef.
Proof.
  intros p ops q k ef. unfold run0 at 1 2. rewrite run_app. fold (run0 p ops). cbn [step fst ix tbl].
  apply reopen_search_l. intros Ha.
  pose proof (search_total_l p ops (getv_of (tbl (run0 p ops))) q k ef) as T. rewrite Ha in T. exact T.
Qed.
