(* C35 proofs, part 3: what each shard operation does to lookups (index, then entries[idx]). *)
From Coq Require Import ZArith List Bool Arith Lia.
From TV Require Import Lib.Interleave Gen.CacheConsts Model.Cache Proof.CacheShard Proof.CacheInv.
Import ListNotations.
Open Scope Z_scope.

Lemma lookup_iff sh k e : idx_ok sh -> (lookup sh k = Some e <-> In e (ents sh) /\ ekey e = k).
Proof.
  intros Hi. unfold lookup. split.
  - destruct (idx_get (idx sh) k) as [j|] eqn:Hj; [|discriminate]. intros He.
    apply Hi in Hj. destruct Hj as (x & Hx & Hk). rewrite He in Hx. inversion Hx; subst x.
    split; [eapply nth_error_In; eauto | assumption].
  - intros (Hin & Hk). apply In_nth_error in Hin. destruct Hin as (j & Hj).
    assert (Q : idx_get (idx sh) k = Some j) by (apply Hi; eauto). rewrite Q. assumption.
Qed.

Lemma lookup_none sh k : idx_ok sh -> (lookup sh k = None <-> forall e, In e (ents sh) -> ekey e <> k).
Proof.
  intros Hi. split.
  - intros Hn e Hin Hk. assert (Q : lookup sh k = Some e) by (apply lookup_iff; auto). congruence.
  - intros H. destruct (lookup sh k) as [e|] eqn:Q; [|reflexivity]. apply lookup_iff in Q; [|assumption].
    destruct Q as (Hin & Hk). exfalso. eapply H; eauto.
Qed.

Lemma lookup_idx_none sh k : idx_ok sh -> (lookup sh k = None <-> idx_get (idx sh) k = None).
Proof.
  intros Hi. unfold lookup. destruct (idx_get (idx sh) k) as [j|] eqn:Hj; [|tauto].
  apply Hi in Hj. destruct Hj as (x & Hx & _). rewrite Hx. split; discriminate.
Qed.

Lemma in_unique sh x y : idx_ok sh -> In x (ents sh) -> In y (ents sh) -> ekey x = ekey y -> x = y.
Proof.
  intros Hi Hx Hy Hk. apply In_nth_error in Hx. apply In_nth_error in Hy. destruct Hx as (i & Hx). destruct Hy as (j & Hy).
  assert (i = j) by (eapply idx_ok_inj; eauto). subst j. congruence.
Qed.

Lemma lookup_key sh k e : idx_ok sh -> lookup sh k = Some e -> ekey e = k.
Proof. intros Hi H. apply lookup_iff in H; tauto. Qed.

(* one entry replaced by an entry with the same key *)
Lemma lookup_set_entry sh k0 j e e' k :
  idx_ok sh -> idx_get (idx sh) k0 = Some j -> nth_error (ents sh) j = Some e -> ekey e' = ekey e ->
  lookup (set_ents sh (set_nth (ents sh) j e')) k = if k =? k0 then Some e' else lookup sh k.
Proof.
  intros Hi Hj He Hk. unfold lookup, set_ents; cbn [idx ents].
  assert (Hlt : (j < length (ents sh))%nat) by (apply nth_error_Some; congruence).
  destruct (k =? k0) eqn:E.
  - apply Z.eqb_eq in E. subst k. rewrite Hj. apply nth_error_set_nth_same. assumption.
  - destruct (idx_get (idx sh) k) as [j'|] eqn:Hj'; [|reflexivity].
    rewrite nth_error_set_nth_other; [reflexivity|]. intros ->.
    apply Hi in Hj. apply Hi in Hj'. destruct Hj as (x & Hx & Hxk). destruct Hj' as (y & Hy & Hyk).
    rewrite Hx in Hy. inversion Hy; subst y. apply Z.eqb_neq in E. congruence.
Qed.

Lemma lookup_hit sh k0 j sh' :
  idx_ok sh -> idx_get (idx sh) k0 = Some j -> hit_entry sh j = Some sh' ->
  exists e, lookup sh k0 = Some e /\
    forall k, lookup sh' k = if k =? k0 then Some (set_vis (set_pin e (epin e + 1)) true) else lookup sh k.
Proof.
  intros Hi Hj Hh. unfold hit_entry in Hh. destruct (nth_error (ents sh) j) as [e|] eqn:He; [|discriminate].
  inversion Hh; subst sh'. exists e. split; [unfold lookup; rewrite Hj; assumption|].
  intros k. eapply lookup_set_entry; eauto.
Qed.

Lemma lookup_insert sh e k :
  idx_ok sh -> lookup (insert sh e) k = if k =? ekey e then Some e else lookup sh k.
Proof.
  intros Hi. unfold lookup, insert; cbn [idx ents]. rewrite idx_get_set. rewrite (Z.eqb_sym (ekey e) k).
  destruct (k =? ekey e) eqn:E.
  - rewrite nth_error_app2 by lia. rewrite Nat.sub_diag. reflexivity.
  - destruct (idx_get (idx sh) k) as [j|] eqn:Hj; [|reflexivity].
    apply Hi in Hj. destruct Hj as (x & Hx & _). rewrite nth_error_app1; [reflexivity|]. apply nth_error_Some. congruence.
Qed.

Lemma lookup_remove sh j sh' v k :
  shard_wf sh -> remove sh j = Some sh' -> nth_error (ents sh) j = Some v ->
  lookup sh' k = if k =? ekey v then None else lookup sh k.
Proof.
  intros Hwf Hr Hv. destruct (remove_wf _ _ _ Hwf Hr) as (Hwf' & _).
  assert (Hent := remove_entries _ _ _ _ (proj1 Hwf) Hr Hv).
  destruct (k =? ekey v) eqn:E.
  - apply Z.eqb_eq in E. subst k. apply lookup_none; [apply Hwf'|]. intros e He. apply Hent in He. tauto.
  - apply Z.eqb_neq in E. destruct (lookup sh k) as [e|] eqn:Q.
    + apply lookup_iff in Q; [|apply Hwf]. apply lookup_iff; [apply Hwf'|]. destruct Q as (Hin & Hk). split; [|assumption].
      apply Hent. split; [assumption | congruence].
    + apply lookup_none; [apply Hwf'|]. intros e He Hk. apply Hent in He. destruct He as (He & _).
      apply (proj1 (lookup_none sh k (proj1 Hwf)) Q e He Hk).
Qed.

Definition same_strip (a b : option entry) : Prop := option_map strip a = option_map strip b.

Lemma same_strip_refl a : same_strip a a.
Proof. reflexivity. Qed.

Lemma lookup_strip sh sh' k :
  idx sh' = idx sh -> map strip (ents sh') = map strip (ents sh) -> same_strip (lookup sh' k) (lookup sh k).
Proof.
  intros Hidx Hm. unfold same_strip, lookup. rewrite Hidx. destruct (idx_get (idx sh) k) as [j|]; [|reflexivity].
  rewrite <- !nth_error_map. rewrite Hm. reflexivity.
Qed.

Lemma nth_error_map_strip es j : option_map strip (nth_error es j) = nth_error (map strip es) j.
Proof. symmetry. apply nth_error_map. Qed.

Lemma lookup_evict sh r sh' k : evict sh = (r, sh') -> shard_wf sh -> same_strip (lookup sh' k) (lookup sh k).
Proof.
  intros He Hwf. destruct (evict_spec _ _ _ Hwf He) as (_ & Hm & _).
  unfold same_strip, lookup. rewrite (evict_idx _ _ _ He). destruct (idx_get (idx sh) k) as [j|]; [|reflexivity].
  rewrite !nth_error_map_strip. rewrite Hm. reflexivity.
Qed.

(* evict + remove: exactly one unpinned entry disappears *)
Lemma lookup_evict_removed sh sh' :
  shard_wf sh -> evict_remove sh = ERemoved sh' ->
  exists v, lookup sh (ekey v) = Some v /\ epin v <= 0 /\
    forall k, same_strip (lookup sh' k) (if k =? ekey v then None else lookup sh k).
Proof.
  intros Hwf Her. unfold evict_remove in Her. destruct (evict sh) as [r sh1] eqn:Hev.
  destruct (evict_spec _ _ _ Hwf Hev) as (Hwf1 & Hm & _ & _ & _ & _ & Hsome).
  destruct r as [vk| | |]; try discriminate.
  destruct (Hsome vk eq_refl) as (j & e & Hj & Hje & Hek & Hep). rewrite Hj in Her.
  destruct (remove sh1 j) as [sh2|] eqn:Hr; [|discriminate]. inversion Her; subst sh2; clear Her.
  assert (Hl1 : lookup sh1 vk = Some e) by (unfold lookup; rewrite Hj; assumption).
  assert (Hs := lookup_evict _ _ _ vk Hev Hwf). unfold same_strip in Hs. rewrite Hl1 in Hs.
  destruct (lookup sh vk) as [v|] eqn:Hv; [|discriminate]. cbn in Hs. inversion Hs as [[A B C]].
  assert (Hvk : ekey v = vk) by (eapply lookup_key; [apply Hwf | eassumption]).
  exists v. rewrite Hvk. split; [assumption|]. split; [unfold is_pinned in Hep; apply Z.ltb_ge in Hep; lia|].
  intros k. rewrite (lookup_remove _ _ _ _ k Hwf1 Hr Hje). rewrite Hek.
  destruct (k =? vk); [reflexivity|]. eapply lookup_evict; eauto.
Qed.

Lemma lookup_evict_nothing sh sh' k :
  shard_wf sh -> evict_remove sh = ENothing sh' -> same_strip (lookup sh' k) (lookup sh k).
Proof.
  intros Hwf Her. unfold evict_remove in Her. destruct (evict sh) as [r sh1] eqn:Hev.
  destruct r as [vk| | |]; try discriminate.
  - destruct (idx_get (idx sh1) vk); [destruct (remove sh1 n)|]; discriminate.
  - inversion Her; subst. eapply lookup_evict; eauto.
Qed.

Lemma lookup_clear sh k : lookup (clear_shard sh) k = None.
Proof. reflexivity. Qed.

Lemma lookup_set_wl sh w k : lookup (set_wl sh w) k = lookup sh k.
Proof. reflexivity. Qed.

(* ------------------------------------------------------------------ across shards *)
Lemma slookup_set_nth ss i sh' k :
  (i < length ss)%nat ->
  slookup (set_nth ss i sh') k = if Nat.eqb i (shard_of k) then lookup sh' k else slookup ss k.
Proof.
  intros Hi. unfold slookup. rewrite nth_error_set_nth. destruct (Nat.eqb i (shard_of k)); [|reflexivity].
  apply Nat.ltb_lt in Hi. rewrite Hi. reflexivity.
Qed.

Lemma slookup_shard ss k sh : nth_error ss (shard_of k) = Some sh -> slookup ss k = lookup sh k.
Proof. intros H. unfold slookup. rewrite H. reflexivity. Qed.

(* a key that is looked up in shard i lives there *)
Lemma slookup_other_shard ss i sh k :
  shards_ok' ss -> nth_error ss i = Some sh -> shard_of k <> i -> lookup sh k = None.
Proof.
  intros (_ & Hs) Hn Hne. destruct (Hs i sh Hn) as (Hwf & Hkeys).
  apply lookup_none; [apply Hwf|]. intros e He Hk. apply Hkeys in He. congruence.
Qed.
