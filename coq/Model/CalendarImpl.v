(* C41: the regenerated converters (Gen/Cal*.v) packaged as one boolean check per date.
   Definitions only. *)
From Coq Require Import ZArith List Bool.
From TV Require Import Lib.MachInt Model.Calendar.
From TV Require Gen.CalLiteral Gen.CalDefault Gen.CalFunc.
Import ListNotations.
Open Scope Z_scope.

Definition epoch_fast (y m d : Z) : Z := rata_fast y m d - 719162.
(* constant offset of sql/functions/datetime.rs::date_to_days: its day 0 is 0000-03-01 - 306 *)
Definition func_offset : Z := 1.

Definition triple_eqb (a b : Z * Z * Z) : bool :=
  let '(a1, a2, a3) := a in let '(b1, b2, b3) := b in (a1 =? b1) && (a2 =? b2) && (a3 =? b3).
Definition six_eqb (a b : Z * Z * Z * Z * Z * Z) : bool :=
  let '(a1, a2, a3, a4, a5, a6) := a in let '(b1, b2, b3, b4, b5, b6) := b in
  (a1 =? b1) && (a2 =? b2) && (a3 =? b3) && (a4 =? b4) && (a5 =? b5) && (a6 =? b6).

(* DEFAULT-clause converter *)
Definition chk_default (y m d : Z) : bool :=
  (CalDefault.days_from_ymd y m d =? epoch_fast y m d) && CalDefault.days_from_ymd_safe y m d.

(* date-function helpers *)
Definition chk_func (y m d : Z) : bool :=
  let n := CalFunc.date_to_days y m d in
  (n =? rata_fast y m d + func_offset) && CalFunc.date_to_days_safe y m d &&
  triple_eqb (CalFunc.days_to_date n) (y, m, d) && CalFunc.days_to_date_safe n &&
  (CalFunc.day_of_week y m d =? (rata_fast y m d + 1) mod 7) && CalFunc.day_of_week_safe y m d &&
  (CalFunc.day_of_year y m d =? dbm_table (is_leap y) m + d) && CalFunc.day_of_year_safe y m d &&
  (CalFunc.days_in_month y m =? dim y m) && Bool.eqb (CalFunc.is_leap_year y) (is_leap y).

(* civil-from-unix-seconds used by NOW()/CURRENT_TIMESTAMP formatting; dates from 1970 on *)
Definition chk_civil (y m d : Z) : bool :=
  if y <? 1970 then true else
  let s0 := 86400 * epoch_fast y m d in
  six_eqb (CalFunc.civil_from_unix s0) (y, m, d, 0, 0, 0) && CalFunc.civil_from_unix_safe s0 &&
  six_eqb (CalFunc.civil_from_unix (s0 + 86399)) (y, m, d, 23, 59, 59) && CalFunc.civil_from_unix_safe (s0 + 86399) &&
  six_eqb (CalFunc.civil_from_unix (s0 + 45296)) (y, m, d, 12, 34, 56).

(* literal-parser helpers except the looping day counter (proved symbolically) *)
Definition chk_literal_tables (y m d : Z) : bool :=
  (CalLiteral.days_in_month y m =? dim y m) && Bool.eqb (CalLiteral.is_leap_year y) (is_leap y) &&
  CalLiteral.days_in_month_safe y m.

Definition check_date (y m d : Z) : bool :=
  chk_default y m d && chk_func y m d && chk_civil y m d && chk_literal_tables y m d.

(* parse_date's field validation (parsing/literal.rs:185-199), hand-transcribed: month in 1..=12,
   then `day < 1 || day > days_in_month(year, month)` rejects *)
Definition lit_accepts (y m d : Z) : bool :=
  (1 <=? m) && (m <=? 12) && negb ((d <? 1) || (d >? CalLiteral.days_in_month y m)).
Definition lit_parse_fields (y m d : Z) : option Z :=
  if lit_accepts y m d then Some (CalLiteral.date_to_days_since_epoch y m d) else None.
(* parse_time's field validation and value (parsing/literal.rs:230-252), micros = 6 fractional digits *)
Definition lit_time_fields (h mi s micros : Z) : option Z :=
  if (h >? 23) || (mi >? 59) || (s >? 59) then None
  else Some ((h * 3600 + mi * 60 + s) * 1000000 + micros).
(* parse_timestamp (parsing/literal.rs:280-284) *)
Definition lit_timestamp_fields (y m d h mi s micros : Z) : option Z :=
  match lit_parse_fields y m d, lit_time_fields h mi s micros with
  | Some days, Some t => Some (days * (86400 * 1000000) + t)
  | _, _ => None
  end.
(* the DEFAULT-clause date parser (constraints/mod.rs parse_date_default): inline month table, then
   `day < 1 || day > days_in_month` rejects; hand-transcribed (rrem = Rust %) *)
Definition default_dim (y m : Z) : Z :=
  if (m =? 1) || (m =? 3) || (m =? 5) || (m =? 7) || (m =? 8) || (m =? 10) || (m =? 12) then 31
  else if (m =? 4) || (m =? 6) || (m =? 9) || (m =? 11) then 30
  else if m =? 2 then
    (if ((rrem y 4 =? 0) && negb (rrem y 100 =? 0)) || (rrem y 400 =? 0) then 29 else 28)
  else 0.
Definition default_parse_fields (y m d : Z) : option Z :=
  if (d <? 1) || (d >? default_dim y m) then None else Some (CalDefault.days_from_ymd y m d).
