(* C34 proofs, part 2: the representation invariant of the freelist and its preservation by
   release / allocate / client writes of a disciplined client.

   A state is described by the trunk chain [ts] (head first; each trunk = its page number and
   its entries, top of stack first) and the list [L] of trunk pages that the chain has already
   moved past (leaked: still "free" for the client, never handed out again).  The client's bag
   of free pages is exactly  pages of the chain + their entries + L,  without repetition. *)
From Coq Require Import ZArith List Bool Lia ZifyBool FMapPositive Permutation.
From TV Require Import Lib.MachInt Gen.FreelistConsts Gen.Freelist Model.Freelist Proof.Freelist.
Import ListNotations.
Open Scope Z_scope.

Notation trunk := (Z * list Z)%type.
Definition zlen {A} (l : list A) : Z := Z.of_nat (length l).

Lemma zlen_nil : forall A, zlen (@nil A) = 0. Proof. reflexivity. Qed.
Lemma zlen_cons : forall A (x : A) l, zlen (x :: l) = zlen l + 1.
Proof. intros. unfold zlen. cbn [length]. lia. Qed.
Lemma zlen_app : forall A (a b : list A), zlen (a ++ b) = zlen a + zlen b.
Proof. intros. unfold zlen. rewrite app_length. lia. Qed.
Lemma zlen_nonneg : forall A (l : list A), 0 <= zlen l.
Proof. intros. unfold zlen. lia. Qed.
Lemma zlen_zero : forall A (l : list A), zlen l = 0 -> l = [].
Proof. intros A [|x l] H; [reflexivity|]. rewrite zlen_cons in H. pose proof (zlen_nonneg _ l). lia. Qed.

Fixpoint ents (m : memT) (t : Z) (s : list Z) : Prop :=
  match s with
  | [] => True
  | x :: s' => mget m t (W_ENT + zlen s') = x /\ ents m t s'
  end.

Fixpoint chain (m : memT) (h : Z) (ts : list trunk) : Prop :=
  match ts with
  | [] => h = 0
  | (t, s) :: rest =>
      h = t /\ mget m t W_COUNT = zlen s /\ zlen s <= TRUNK_MAX_ENTRIES /\ ents m t s /\
      chain m (mget m t W_NEXT) rest
  end.

Fixpoint flat (ts : list trunk) : list Z :=
  match ts with [] => [] | (t, s) :: rest => t :: s ++ flat rest end.
Definition all (ts : list trunk) (L : list Z) : list Z := flat ts ++ L.
Fixpoint etot (ts : list trunk) : Z :=
  match ts with [] => 0 | (_, s) :: rest => zlen s + etot rest end.

Lemma zlen_flat : forall ts, zlen (flat ts) = etot ts + zlen ts.
Proof.
  induction ts as [|[t s] rest IH]; [reflexivity|].
  cbn [flat etot]. rewrite !zlen_cons, zlen_app, IH. lia.
Qed.
Lemma etot_nonneg : forall ts, 0 <= etot ts.
Proof. induction ts as [|[t s] rest IH]; cbn [etot]; [lia|]. pose proof (zlen_nonneg _ s). lia. Qed.

(* ------------------------------------------------------------------ the set side *)
Definition SetOK (np : Z) (b : bagT) (nf : Z) (A : list Z) : Prop :=
  NoDup A /\ (forall x, In x A <-> bmem x b = true) /\ (forall x, In x A -> 1 <= x < np) /\ nf = zlen A.

Lemma bmem_bdel : forall p q b, 0 <= p -> bmem q (bdel p b) = bmem q b && negb (q =? p).
Proof.
  intros p q b Hp. destruct (Z.eqb_spec q p) as [->|Hne].
  - rewrite bmem_bdel_same. symmetry. apply andb_false_r.
  - cbn [negb]. rewrite andb_true_r. destruct (Z_lt_le_dec q 0) as [Hq|Hq].
    + unfold bmem. destruct (Z.leb_spec 0 q); [lia|reflexivity].
    + apply bmem_bdel_other; lia.
Qed.
Lemma bmem_badd : forall p q b, 0 <= p -> bmem q (badd p b) = bmem q b || (q =? p).
Proof.
  intros p q b Hp. destruct (Z.eqb_spec q p) as [->|Hne].
  - rewrite bmem_badd_same by lia. symmetry. apply orb_true_r.
  - rewrite orb_false_r. destruct (Z_lt_le_dec q 0) as [Hq|Hq].
    + unfold bmem. destruct (Z.leb_spec 0 q); [lia|reflexivity].
    + apply bmem_badd_other; lia.
Qed.

Lemma setok_perm : forall np b nf A A', Permutation A A' -> SetOK np b nf A -> SetOK np b nf A'.
Proof.
  intros np b nf A A' HP (Hnd & Hbag & Hrng & Hnf). repeat split.
  - eapply Permutation_NoDup; eauto.
  - intro Hx. apply Hbag. eapply Permutation_in; [apply Permutation_sym|]; eauto.
  - intro Hx. eapply Permutation_in; eauto. apply Hbag. exact Hx.
  - apply Hrng. eapply Permutation_in; [apply Permutation_sym|]; eauto.
  - apply Hrng. eapply Permutation_in; [apply Permutation_sym|]; eauto.
  - subst nf. unfold zlen. rewrite (Permutation_length HP). reflexivity.
Qed.

Lemma setok_del : forall np b nf A x A', Permutation A (x :: A') -> SetOK np b nf A ->
  bmem x b = true /\ 1 <= x < np /\ SetOK np (bdel x b) (nf - 1) A'.
Proof.
  intros np b nf A x A' HP H. apply (setok_perm _ _ _ _ _ HP) in H.
  destruct H as (Hnd & Hbag & Hrng & Hnf).
  assert (Hx : 1 <= x < np) by (apply Hrng; left; reflexivity).
  inversion Hnd as [|? ? Hnotin Hnd']; subst.
  split; [apply Hbag; left; reflexivity|]. split; [exact Hx|]. repeat split.
  - exact Hnd'.
  - intro Hy. rewrite bmem_bdel by lia. apply andb_true_intro. split.
    + apply Hbag. right. exact Hy.
    + destruct (Z.eqb_spec x0 x) as [->|]; [contradiction|reflexivity].
  - intro Hy. rewrite bmem_bdel in Hy by lia. apply andb_prop in Hy. destruct Hy as [Hy1 Hy2].
    apply Hbag in Hy1. destruct Hy1 as [->|Hy1]; [|exact Hy1].
    rewrite Z.eqb_refl in Hy2. discriminate.
  - apply Hrng. right. assumption.
  - apply Hrng. right. assumption.
  - rewrite zlen_cons. lia.
Qed.

Lemma setok_add : forall np b nf A p, SetOK np b nf A -> 1 <= p < np -> bmem p b = false ->
  SetOK np (badd p b) (nf + 1) (p :: A).
Proof.
  intros np b nf A p (Hnd & Hbag & Hrng & Hnf) Hp Hpb. repeat split.
  - constructor; [|exact Hnd]. intro Hin. apply Hbag in Hin. congruence.
  - intros [->|Hx]; rewrite bmem_badd by lia.
    + rewrite Z.eqb_refl. apply orb_true_r.
    + apply Hbag in Hx. rewrite Hx. reflexivity.
  - rewrite bmem_badd by lia. intro Hx. apply orb_prop in Hx. destruct Hx as [Hx|Hx].
    + right. apply Hbag. exact Hx.
    + left. lia.
  - destruct H as [->|Hx]; [lia|apply Hrng; exact Hx].
  - destruct H as [->|Hx]; [lia|apply Hrng; exact Hx].
  - rewrite zlen_cons. lia.
Qed.

(* pigeonhole: a repetition-free list of page numbers of the store is no longer than the store *)
Lemma nodup_range_length : forall np A, NoDup A -> (forall x, In x A -> 1 <= x < np) ->
  (length A <= Z.to_nat (np - 1))%nat.
Proof.
  intros np A Hnd Hrng.
  rewrite <- (seq_length (Z.to_nat (np - 1)) 1), <- (map_length Z.of_nat).
  apply NoDup_incl_length; [exact Hnd|].
  intros x Hx. specialize (Hrng x Hx). apply in_map_iff. exists (Z.to_nat x). split; [lia|].
  apply in_seq. lia.
Qed.

(* ------------------------------------------------------------------ frames *)
Lemma ents_frame : forall m m' t s,
  (forall k, 0 <= k < zlen s -> mget m' t (W_ENT + k) = mget m t (W_ENT + k)) ->
  ents m t s -> ents m' t s.
Proof.
  intros m m' t s. induction s as [|x s' IH]; intros Hf H; [exact I|].
  cbn [ents] in *. destruct H as [H1 H2]. rewrite zlen_cons in Hf. pose proof (zlen_nonneg _ s'). split.
  - rewrite Hf by lia. exact H1.
  - apply IH; [|exact H2]. intros k Hk. apply Hf. lia.
Qed.

Lemma chain_frame : forall m m' ts h,
  (forall t i, In t (map fst ts) -> 0 <= i < WORDS -> mget m' t i = mget m t i) ->
  chain m h ts -> chain m' h ts.
Proof.
  intros m m' ts. induction ts as [|[t s] rest IH]; intros h Hf H; [exact H|].
  cbn [chain] in *. destruct H as (Hh & Hc & Hle & He & Hn).
  assert (Hin : In t (map fst ((t, s) :: rest))) by (left; reflexivity).
  repeat split.
  - exact Hh.
  - rewrite Hf; [exact Hc|exact Hin|geom; lia].
  - exact Hle.
  - eapply ents_frame; [|exact He]. intros k Hk. apply Hf; [exact Hin|]. geom. lia.
  - rewrite Hf; [|exact Hin|geom; lia]. apply IH; [|exact Hn].
    intros t' i Ht' Hi. apply Hf; [right; exact Ht'|exact Hi].
Qed.

Lemma chain_frame_mset : forall m ts h q j v,
  (forall t, In t (map fst ts) -> 0 <= t /\ t <> q) -> 0 <= q -> 0 <= j < WORDS ->
  chain m h ts -> chain (mset m q j v) h ts.
Proof.
  intros m ts h q j v Hne Hq Hj H. eapply chain_frame; [|exact H].
  intros t i Ht Hi. destruct (Hne t Ht). apply mget_mset_other; try lia.
Qed.

Lemma chain_cons_intro : forall m h t s rest,
  h = t -> mget m t W_COUNT = zlen s -> zlen s <= TRUNK_MAX_ENTRIES -> ents m t s ->
  chain m (mget m t W_NEXT) rest -> chain m h ((t, s) :: rest).
Proof. intros. cbn [chain]. tauto. Qed.

Lemma pages_in_flat : forall ts t, In t (map fst ts) -> In t (flat ts).
Proof.
  induction ts as [|[t0 s] rest IH]; intros t H; [exact H|].
  cbn [map fst flat] in *. destruct H as [->|H]; [left; reflexivity|].
  right. apply in_or_app. right. apply IH. exact H.
Qed.

(* ------------------------------------------------------------------ the invariant *)
Record Core (np : Z) (st : state) (b : bagT) (nf a4 a5 : Z) (ts : list trunk) (L : list Z) : Prop := mkCore {
  c_chain : chain (mem st) (head st) ts;
  c_set : SetOK np b nf (all ts L);
  c_fc : zlen (flat ts) <= fc st <= zlen (flat ts) + zlen L;
  c_z4 : mget (mem st) 0 W_NEXT = a4;
  c_z5 : mget (mem st) 0 W_COUNT = a5 }.

Lemma core_new : forall np, Core np st_new (PositiveMap.empty unit) 0 0 0 [] [].
Proof.
  intro np. constructor; cbn.
  - reflexivity.
  - repeat split; try constructor; try contradiction.
    intro H. rewrite bmem_empty in H. discriminate.
  - lia.
  - unfold mget. rewrite PositiveMap.gempty. reflexivity.
  - unfold mget. rewrite PositiveMap.gempty. reflexivity.
Qed.

Lemma core_rng : forall np st b nf a4 a5 ts L x, Core np st b nf a4 a5 ts L -> In x (all ts L) -> 1 <= x < np.
Proof. intros. destruct H as [_ (_ & _ & Hr & _) _ _ _]. auto. Qed.

Lemma core_head_nil : forall np st b nf a4 a5 ts L, Core np st b nf a4 a5 ts L -> head st = 0 -> ts = [].
Proof.
  intros np st b nf a4 a5 ts L H Hh. destruct ts as [|[t s] rest]; [reflexivity|].
  pose proof (core_rng _ _ _ _ _ _ _ _ t H) as Hr. destruct H as [Hc _ _ _ _].
  cbn [chain] in Hc. destruct Hc as (Ht & _).
  assert (1 <= t < np) by (apply Hr; left; reflexivity). lia.
Qed.

Lemma core_fuel : forall np st b nf a4 a5 ts L, Core np st b nf a4 a5 ts L -> (length ts <= fuel_for np)%nat.
Proof.
  intros np st b nf a4 a5 ts L [_ (Hnd & _ & Hr & _) _ _ _].
  pose proof (nodup_range_length np _ Hnd Hr) as Hl. unfold fuel_for.
  assert (Z.of_nat (length ts) <= Z.of_nat (length (all ts L))); [|lia].
  fold (zlen ts). fold (zlen (all ts L)). unfold all. rewrite zlen_app, zlen_flat.
  pose proof (etot_nonneg ts). pose proof (zlen_nonneg _ L). lia.
Qed.

(* ------------------------------------------------------------------ release *)
Lemma release_core : forall np st b nf a4 a5 ts L p,
  np < 2 ^ 32 ->
  Core np st b nf a4 a5 ts L -> 1 <= p < np -> bmem p b = false ->
  exists st', release np st p = (st', OOk) /\
    exists ts' L', Core np st' (badd p b) (nf + 1) a4 a5 ts' L'.
Proof.
  intros np st b nf a4 a5 ts L p Hnp HC Hp Hpb.
  assert (Hnotin : ~ In p (all ts L)).
  { destruct HC as [_ (_ & Hbag & _) _ _ _]. intro Hin. apply Hbag in Hin. congruence. }
  assert (Hfcb : fc st + 1 < 2 ^ 32).
  { destruct HC as [_ (Hnd & _ & Hr & _) Hfc _ _].
    pose proof (nodup_range_length np _ Hnd Hr) as Hl.
    unfold all in Hl. rewrite app_length in Hl. unfold zlen in Hfc. lia. }
  unfold release.
  destruct (Z.eqb_spec (head st) 0) as [Hh|Hh].
  - (* initialize_trunk *)
    pose proof (core_head_nil _ _ _ _ _ _ _ _ HC Hh) as ->.
    assert (Hin : in_store np p = true) by (unfold in_store; lia).
    rewrite Hin. cbn [negb]. eexists. split; [reflexivity|].
    exists [(p, [])], L. destruct HC as [Hc Hs Hfc H4 H5]. constructor; cbn [mem head fc].
    + apply chain_cons_intro.
      * reflexivity.
      * apply mget_mset_same.
      * geom. cbn. lia.
      * exact I.
      * rewrite mget_mset_other by (geom; lia). rewrite mget_mset_same. reflexivity.
    + cbn [all flat app]. apply setok_add; assumption.
    + cbn [flat app]. rewrite zlen_cons, zlen_nil. pose proof (zlen_nonneg _ L). lia.
    + rewrite !mget_mset_other by (geom; lia). exact H4.
    + rewrite !mget_mset_other by (geom; lia). exact H5.
  - destruct ts as [|[h s] rest].
    { destruct HC as [Hc _ _ _ _]. cbn [chain] in Hc. contradiction. }
    pose proof (core_rng _ _ _ _ _ _ _ _ h HC) as Hhr.
    assert (Hh1 : 1 <= h < np) by (apply Hhr; left; reflexivity).
    destruct HC as [Hc Hs Hfc H4 H5]. cbn [chain] in Hc. destruct Hc as (Hhd & Hcnt & Hle & He & Hnx).
    rewrite Hhd in *.
    assert (Hin : in_store np h = true) by (unfold in_store; lia). rewrite Hin. cbn [negb].
    assert (Hinp : in_store np p = true) by (unfold in_store; lia).
    assert (Hfo : fc_inc_ok (fc st) = true) by (unfold fc_inc_ok; lia).
    cbv zeta. rewrite Hcnt. geom. pose proof (zlen_nonneg _ s) as Hs0.
    assert (Hpages : forall t, In t (map fst ((h, s) :: rest)) -> 0 <= t /\ t <> p).
    { intros t Ht. apply pages_in_flat in Ht.
      assert (In t (all ((h, s) :: rest) L)) by (unfold all; apply in_or_app; left; exact Ht).
      destruct Hs as (_ & _ & Hr & _). specialize (Hr t H). split; [lia|].
      intros ->. apply Hnotin. exact H. }
    destruct (Z.geb_spec (zlen s) 4090) as [Hfull|Hnf].
    + (* create_new_trunk *)
      rewrite Hinp, Hfo. cbn [negb]. eexists. split; [reflexivity|].
      exists ((p, []) :: (h, s) :: rest), L. constructor; cbn [mem head fc].
      * apply chain_cons_intro.
        -- reflexivity.
        -- apply mget_mset_same.
        -- geom. cbn. lia.
        -- exact I.
        -- rewrite mget_mset_other by (geom; lia). rewrite mget_mset_same.
           apply chain_frame_mset; [exact Hpages|lia|geom; lia|].
           apply chain_frame_mset; [exact Hpages|lia|geom; lia|].
           apply chain_cons_intro; geom; auto.
      * change (all ((p, []) :: (h, s) :: rest) L) with (p :: all ((h, s) :: rest) L).
        apply setok_add; assumption.
      * change (flat ((p, []) :: (h, s) :: rest)) with (p :: flat ((h, s) :: rest)).
        rewrite zlen_cons. lia.
      * rewrite !mget_mset_other by (geom; lia). exact H4.
      * rewrite !mget_mset_other by (geom; lia). exact H5.
    + (* push onto the head trunk *)
      destruct (Z.gtb_spec (16 + 8 + zlen s * 4 + 4) 16384) as [Hbad|_]; [lia|].
      rewrite Hfo. eexists. split; [reflexivity|].
      exists ((h, p :: s) :: rest), L.
      assert (Hrest : forall t, In t (map fst rest) -> 0 <= t /\ t <> h).
      { intros t Ht. apply pages_in_flat in Ht. destruct Hs as (Hnd & _ & Hr & _).
        assert (Hin2 : In t (all ((h, s) :: rest) L)).
        { unfold all. cbn [flat]. right. apply in_or_app. left. apply in_or_app. right. exact Ht. }
        specialize (Hr t Hin2). split; [lia|]. intros ->.
        unfold all in Hnd. cbn [flat app] in Hnd. inversion Hnd as [|? ? Hni _]; subst.
        apply Hni. apply in_or_app. left. apply in_or_app. right. exact Ht. }
      constructor; cbn [mem head fc].
      * apply chain_cons_intro.
        -- reflexivity.
        -- rewrite mget_mset_same. rewrite zlen_cons. reflexivity.
        -- geom. rewrite zlen_cons. lia.
        -- cbn [ents]. split.
           ++ rewrite mget_mset_other by (geom; lia). apply mget_mset_same.
           ++ eapply ents_frame; [|exact He]. intros k Hk.
              rewrite !mget_mset_other by (geom; lia). reflexivity.
        -- rewrite !mget_mset_other by (geom; lia).
           apply chain_frame_mset; [exact Hrest|lia|geom; lia|].
           apply chain_frame_mset; [exact Hrest|lia|geom; lia|]. exact Hnx.
      * eapply setok_perm; [|apply setok_add; [exact Hs|exact Hp|exact Hpb]].
        unfold all. cbn [flat app]. apply perm_swap.
      * cbn [flat] in *. rewrite !zlen_cons in *. rewrite zlen_app in *. rewrite zlen_cons. lia.
      * rewrite !mget_mset_other by (geom; lia). exact H4.
      * rewrite !mget_mset_other by (geom; lia). exact H5.
Qed.

(* ------------------------------------------------------------------ allocate *)
Lemma chain_zero_nil : forall m rest, chain m 0 rest -> (forall x, In x (flat rest) -> 1 <= x) -> rest = [].
Proof.
  intros m [|[t s] rest] Hc Hr; [reflexivity|].
  cbn [chain] in Hc. destruct Hc as (Ht & _). specialize (Hr t (or_introl eq_refl)). lia.
Qed.

Lemma setok_rest_pages : forall np b nf h s rest L,
  SetOK np b nf (all ((h, s) :: rest) L) -> forall t, In t (map fst rest) -> 0 <= t /\ t <> h.
Proof.
  intros np b nf h s rest L (Hnd & _ & Hr & _) t Ht. apply pages_in_flat in Ht.
  assert (Hin2 : In t (all ((h, s) :: rest) L)).
  { unfold all. cbn [flat]. right. apply in_or_app. left. apply in_or_app. right. exact Ht. }
  specialize (Hr t Hin2). split; [lia|]. intros ->.
  unfold all in Hnd. cbn [flat app] in Hnd. inversion Hnd as [|? ? Hni _]; subst.
  apply Hni. apply in_or_app. left. apply in_or_app. right. exact Ht.
Qed.

Definition alloc_post (np : Z) (b : bagT) (nf a4 a5 : Z) (ts : list trunk) (st' : state) (r : out) : Prop :=
  (r = ONone /\ etot ts = 0 /\ fc st' = 0 /\ exists L', Core np st' b nf a4 a5 [] L')
  \/ (exists x, r = OSome x /\ bmem x b = true /\
        exists ts' L', Core np st' (bdel x b) (nf - 1) a4 a5 ts' L' /\ etot ts' = etot ts - 1).

Lemma alloc_core : forall np ts L st b nf a4 a5 fuel,
  Core np st b nf a4 a5 ts L -> (length ts <= fuel)%nat ->
  ((a4 = 0 /\ a5 = 0) \/ head st <> 0 \/ fc st = 0) ->
  exists st' r, alloc np fuel st = (st', r) /\ alloc_post np b nf a4 a5 ts st' r.
Proof.
  intros np ts. induction ts as [|[h s] rest IH]; intros L st b nf a4 a5 fuel HC Hfuel Hnb.
  - (* no trunk at all: head_page = 0 *)
    pose proof HC as [Hc Hs Hfc H4 H5]. cbn [chain] in Hc. cbn [flat] in Hfc. rewrite zlen_nil in Hfc.
    rewrite alloc_eq. cbv zeta. destruct (Z.eqb_spec (fc st) 0) as [Hz|Hz].
    + eexists _, _. split; [reflexivity|]. left. repeat split; try assumption. exists L. exact HC.
    + (* free_count > 0: the code reads page 0 as a trunk *)
      destruct Hnb as [[-> ->]|[Hnb|Hnb]]; [|contradiction|contradiction].
      assert (Hnp : 1 < np).
      { destruct L as [|x L]; [rewrite zlen_nil in Hfc; lia|].
        destruct Hs as (_ & _ & Hr & _). specialize (Hr x (or_introl eq_refl)). lia. }
      rewrite Hc. assert (Hin : in_store np 0 = true) by (unfold in_store; lia).
      rewrite Hin, H4, H5. cbn [negb]. rewrite Z.eqb_refl.
      eexists _, _. split; [reflexivity|]. left. repeat split; try reflexivity.
      exists L. constructor; cbn [mem head fc]; try assumption.
      * reflexivity.
      * cbn [flat]. rewrite zlen_nil. pose proof (zlen_nonneg _ L). lia.
  - pose proof (core_rng _ _ _ _ _ _ _ _ h HC (or_introl eq_refl)) as Hh1.
    pose proof HC as [Hc Hs Hfc H4 H5]. cbn [chain] in Hc. destruct Hc as (Hhd & Hcnt & Hle & He & Hnx).
    pose proof (setok_rest_pages _ _ _ _ _ _ _ Hs) as Hrest.
    pose proof (zlen_nonneg _ (flat rest)) as Hfr0. pose proof (zlen_nonneg _ L) as HL0.
    rewrite alloc_eq. cbv zeta. rewrite Hhd.
    assert (Hin : in_store np h = true) by (unfold in_store; lia).
    cbn [flat] in Hfc. rewrite zlen_cons, zlen_app in Hfc. pose proof (zlen_nonneg _ s) as Hs0.
    destruct (Z.eqb_spec (fc st) 0) as [Hz|Hz]; [lia|].
    rewrite Hin, Hcnt. cbn [negb]. geom.
    destruct s as [|x s'].
    + (* head trunk is empty *)
      rewrite zlen_nil in *. cbn [Z.eqb].
      destruct (Z.eqb_spec (mget (mem st) h 4) 0) as [Hn|Hn].
      * (* ... and last: the chain is dropped *)
        rewrite Hn in Hnx. apply chain_zero_nil in Hnx.
        2:{ intros y Hy. destruct Hs as (_ & _ & Hr & _). apply Hr. unfold all. cbn [flat app].
            right. apply in_or_app. left. exact Hy. }
        subst rest. eexists _, _. split; [reflexivity|]. left. repeat split; try reflexivity.
        exists (h :: L). constructor; cbn [mem head fc]; try assumption.
        -- reflexivity.
        -- cbn [flat]. rewrite zlen_nil, zlen_cons. lia.
      * (* ... and has a successor: move on (the empty trunk page is never handed out) *)
        destruct rest as [|[n s2] rest'].
        { cbn [chain] in Hnx. contradiction. }
        destruct fuel as [|f]; [cbn [length] in Hfuel; lia|].
        set (st1 := mkState (mem st) (mget (mem st) h 4) (fc st)).
        assert (HC1 : Core np st1 b nf a4 a5 ((n, s2) :: rest') (h :: L)).
        { constructor; subst st1; cbn [mem head fc]; try assumption.
          - eapply setok_perm; [|exact Hs].
            exact (Permutation_middle (flat ((n, s2) :: rest')) L h).
          - rewrite zlen_cons. cbn [app] in Hfc. lia. }
        destruct (IH (h :: L) st1 b nf a4 a5 f HC1) as (st' & r & Ha & Hpost).
        { cbn [length] in *. lia. }
        { right. left. subst st1. cbn [head]. exact Hn. }
        exists st', r. split; [exact Ha|].
        destruct Hpost as [(Hr & He0 & Hf0 & HL')|(y & Hr & Hy & ts' & L' & HC' & He')].
        -- left. cbn [etot]. rewrite zlen_nil. repeat split; try assumption; cbn [etot] in He0; lia.
        -- right. exists y. repeat split; try assumption. exists ts', L'. split; [exact HC'|].
           cbn [etot] in *. rewrite zlen_nil. lia.
    + (* pop the top entry of the head trunk *)
      rewrite zlen_cons in *. pose proof (zlen_nonneg _ s') as Hs'0.
      destruct (Z.eqb_spec (zlen s' + 1) 0) as [Hbad|_]; [lia|].
      destruct (Z.gtb_spec (16 + 8 + (zlen s' + 1 - 1) * 4 + 4) 16384) as [Hbad|_]; [lia|].
      replace (zlen s' + 1 - 1) with (zlen s') by lia.
      cbn [ents] in He. destruct He as [Hx He']. geom. rewrite Hx.
      eexists _, _. split; [reflexivity|]. right. exists x.
      destruct (Z.eqb_spec (zlen s') 0) as [Hz'|Hz'].
      * (* the trunk becomes empty: head moves to the next trunk, this trunk page leaks *)
        apply zlen_zero in Hz'. subst s'.
        destruct (setok_del np b nf (all ((h, [x]) :: rest) L) x (all rest (h :: L))) as (Hxb & Hxr & Hs').
        { eapply perm_trans; [exact (perm_swap x h (flat rest ++ L))|].
          apply perm_skip. exact (Permutation_middle (flat rest) L h). }
        { exact Hs. }
        split; [reflexivity|]. split; [exact Hxb|].
        exists rest, (h :: L). split.
        -- constructor; cbn [mem head fc].
           ++ apply chain_frame_mset; [exact Hrest|lia|geom; lia|exact Hnx].
           ++ exact Hs'.
           ++ rewrite zlen_cons. rewrite zlen_nil in Hfc. lia.
           ++ rewrite mget_mset_other by (geom; lia). exact H4.
           ++ rewrite mget_mset_other by (geom; lia). exact H5.
        -- cbn [etot]. rewrite zlen_cons, zlen_nil. lia.
      * destruct (setok_del np b nf (all ((h, x :: s') :: rest) L) x (all ((h, s') :: rest) L)) as (Hxb & Hxr & Hs').
        { exact (perm_swap x h ((s' ++ flat rest) ++ L)). }
        { exact Hs. }
        split; [reflexivity|]. split; [exact Hxb|].
        exists ((h, s') :: rest), L. split.
        -- constructor; cbn [mem head fc].
           ++ apply chain_cons_intro.
              ** reflexivity.
              ** apply mget_mset_same.
              ** geom. lia.
              ** eapply ents_frame; [|exact He']. intros k Hk.
                 rewrite mget_mset_other by (geom; lia). reflexivity.
              ** rewrite mget_mset_other by (geom; lia).
                 apply chain_frame_mset; [exact Hrest|lia|geom; lia|exact Hnx].
           ++ exact Hs'.
           ++ cbn [flat]. rewrite zlen_cons, zlen_app. lia.
           ++ rewrite mget_mset_other by (geom; lia). exact H4.
           ++ rewrite mget_mset_other by (geom; lia). exact H5.
        -- cbn [etot]. rewrite zlen_cons. lia.
Qed.

(* ------------------------------------------------------------------ the client's own writes *)
Lemma poke_core : forall np st b nf a4 a5 ts L p i v,
  Core np st b nf a4 a5 ts L -> 0 <= p < np -> 0 <= i < WORDS -> bmem p b = false ->
  exists st', poke np st p i v = (st', OOk) /\
    Core np st' b nf (if (p =? 0) && (i =? W_NEXT) then v else a4)
                     (if (p =? 0) && (i =? W_COUNT) then v else a5) ts L /\
    head st' = head st /\ fc st' = fc st.
Proof.
  intros np st b nf a4 a5 ts L p i v HC Hp Hi Hpb. unfold poke.
  assert (Hc : in_store np p && (0 <=? i) && (i <? WORDS) = true) by (unfold in_store; lia).
  rewrite Hc. eexists. split; [reflexivity|]. split; [|split; reflexivity].
  destruct HC as [Hch Hs Hfc H4 H5]. constructor; cbn [mem head fc]; try assumption.
  - apply chain_frame_mset; [|lia|exact Hi|exact Hch].
    intros t Ht. apply pages_in_flat in Ht.
    assert (Hin : In t (all ts L)) by (unfold all; apply in_or_app; left; exact Ht).
    destruct Hs as (_ & Hbag & Hr & _). specialize (Hr t Hin). split; [lia|].
    intros ->. apply Hbag in Hin. congruence.
  - destruct (Z.eqb_spec p 0) as [->|Hp0]; cbn [andb].
    + destruct (Z.eqb_spec i W_NEXT) as [->|Hi4]; [apply mget_mset_same|].
      rewrite mget_mset_other; [exact H4|lia|lia|exact Hi|geom; lia|right; exact Hi4].
    + rewrite mget_mset_other; [exact H4|lia|lia|exact Hi|geom; lia|left; exact Hp0].
  - destruct (Z.eqb_spec p 0) as [->|Hp0]; cbn [andb].
    + destruct (Z.eqb_spec i W_COUNT) as [->|Hi5]; [apply mget_mset_same|].
      rewrite mget_mset_other; [exact H5|lia|lia|exact Hi|geom; lia|right; exact Hi5].
    + rewrite mget_mset_other; [exact H5|lia|lia|exact Hi|geom; lia|left; exact Hp0].
Qed.
