(* C20 model, part 1: the integer side of the SQL scalar evaluator.

   Transcribed from /repo (definitions only, no proofs), as of the repaired tree (fix commits d9dc553, 44ef577):
     src/sql/predicate.rs   CompiledPredicate::eval_value (Literal / UnaryOp / BinaryOp arms),
                            eval_unary_op, eval_binary_op, eval_arithmetic_op
     src/sql/functions/numeric.rs   eval_abs eval_sign eval_mod eval_div eval_ceil eval_floor
                                    eval_round eval_truncate eval_greatest eval_least
     src/sql/functions/system.rs    eval_if eval_ifnull eval_nullif eval_coalesce eval_isnull
     core::num  i64::checked_pow (the loop)

   The code uses checked_add / checked_sub / checked_mul / checked_div / checked_neg / checked_abs /
   checked_pow and wrapping_rem: a step whose exact result is not an i64 yields None, which a SELECT
   shows as NULL ([chk]).  No panic, no wrapped value - but not the ERROR the property asks for.

   Spec side ([exact], [fn_exact]): the exact integer result if it is representable, otherwise
   an error is REQUIRED ([XOver]); x / 0 and x % 0 are NULL (or an error); NULL operands give NULL. *)
From Coq Require Import ZArith List Bool.
From TV Require Import Lib.MachInt.
Import ListNotations.
Open Scope Z_scope.

Definition i64_min : Z := -9223372036854775808.
Definition i64_max : Z := 9223372036854775807.
Definition in_i64 (x : Z) : bool := (i64_min <=? x) && (x <=? i64_max).

(* SQL values as far as this property looks at them.
   VFltI n : a Float whose value is the integer n (what MOD returns); the sign of a zero is not recorded.
   VOther  : a Float that is not an integer, or any other value kind - never produced for judged cases *)
Inductive val := VNull | VInt (n : Z) | VFltI (n : Z) | VText (b : list Z) | VOther.

(* outcome of an evaluation.
   ONone  : the Rust function returned None (`?` on a missing / ill-typed operand); a SELECT shows NULL
   OPanic : the thread panicked        OErr : the statement returned Err
   OFuel  : the model ran out of fuel (never happens for fuel given here; see Proof/Arith.v)
   OUnmod : input outside the part of the function this model covers (never generated) *)
Inductive out := OVal (v : val) | ONone | OPanic | OErr | OFuel | OUnmod.

(* checked_*(..).map(Value::Int) *)
Definition chk (x : Z) : out := if in_i64 x then OVal (VInt x) else ONone.

(* BitwiseXor exists in eval_binary_op but the parser has no token for it: not reachable, not modelled *)
Inductive binop := Add | Sub | Mul | Div | Rem | Pow | Shl | Shr | BAnd | BOr.
Inductive unop := Neg | Pos | BNot.
(* ELit n: the decimal literal n >= 0 (SQL has no negative literals: -5 is Neg (ELit 5)) *)
Inductive expr := ELit (n : Z) | ENull | EUn (o : unop) (e : expr) | EBin (o : binop) (l r : expr).

(* i64::checked_pow(self, exp: u32):
     if exp == 0 { return Some(1) }  let mut base = self; let mut acc = 1;
     loop { if exp & 1 == 1 { acc = acc.checked_mul(base)?; if exp == 1 { return Some(acc) } }
            exp /= 2; base = base.checked_mul(base)? } *)
Fixpoint pow_loop (fuel : nat) (base acc exp : Z) : out :=
  match fuel with
  | O => OFuel
  | S f =>
      if Z.odd exp then
        let acc' := acc * base in
        if in_i64 acc' then
          if exp =? 1 then OVal (VInt acc')
          else let b2 := base * base in
               if in_i64 b2 then pow_loop f b2 acc' (exp / 2) else ONone
        else ONone
      else
        let b2 := base * base in
        if in_i64 b2 then pow_loop f b2 acc (exp / 2) else ONone
  end.
Definition pow_i64 (a e : Z) : out := if e =? 0 then OVal (VInt 1) else pow_loop 33 a 1 e.

Definition eval_un (o : unop) (v : val) : out :=
  match v with
  | VInt n => match o with
              | Neg => chk (- n)                    (* n.checked_neg().map(Value::Int) *)
              | Pos => OVal (VInt n)
              | BNot => OVal (VInt (- n - 1))       (* !n *)
              end
  | _ => ONone
  end.

Definition eval_bin (o : binop) (x y : val) : out :=
  match x, y with
  | VInt a, VInt b =>
      match o with
      | Add => chk (a + b)
      | Sub => chk (a - b)
      | Mul => chk (a * b)
      | Div => if b =? 0 then ONone else chk (Z.quot a b)                     (* if b != 0 => a.checked_div(b) *)
      | Rem => if b =? 0 then ONone else OVal (VInt (Z.rem a b))              (* a.wrapping_rem(b): i64::MIN % -1 = 0 *)
      | Pow => if 0 <=? b then
                 (if b <=? 4294967295 then pow_i64 a b                       (* u32::try_from(b): a.checked_pow(e) *)
                  else if (a =? 0) || (a =? 1) then OVal (VInt a)            (* exponent beyond u32 *)
                  else if a =? -1 then OVal (VInt (if Z.even b then 1 else -1))
                  else ONone)
               else OVal VOther                                              (* (a as f64).powi(b as i32): a Float *)
      | Shl => if (0 <=? b) && (b <? 64) then OVal (VInt (wrap_s 64 (a * 2 ^ b))) else ONone
      | Shr => if (0 <=? b) && (b <? 64) then OVal (VInt (Z.shiftr a b)) else ONone
      | BAnd => OVal (VInt (Z.land a b))
      | BOr => OVal (VInt (Z.lor a b))
      end
  | _, _ => ONone
  end.

(* eval_value: `let l = self.eval_value(left)?; let r = self.eval_value(right)?; eval_binary_op(l, op, r)` *)
Fixpoint eval (e : expr) : out :=
  match e with
  | ELit n => if (0 <=? n) && (n <=? i64_max) then OVal (VInt n) else ONone   (* s.parse::<i64>().ok()? *)
  | ENull => OVal VNull
  | EUn o a =>
      match o, a with
      | Neg, ELit n =>                                  (* format!("-{}", s).parse::<i64>().ok()?: -9223372036854775808 is a literal *)
          if (0 <=? n) && (n <=? 9223372036854775808) then OVal (VInt (- n)) else ONone
      | _, _ => match eval a with OVal v => eval_un o v | r => r end
      end
  | EBin o l r =>
      match eval l with
      | OVal a => match eval r with OVal b => eval_bin o a b | x => x end
      | x => x
      end
  end.

(* what a SELECT of the expression shows: a None from the evaluator becomes NULL in the row *)
Definition to_sql (o : out) : out := match o with ONone => OVal VNull | x => x end.

(* every literal is one the evaluator turns into an i64 (directly under a minus sign: up to 2^63);
   exponents of ^ are literals (so never negative) *)
Fixpoint wf (e : expr) : bool :=
  match e with
  | ELit n => (0 <=? n) && (n <=? i64_max)
  | ENull => true
  | EUn Neg (ELit n) => (0 <=? n) && (n <=? 9223372036854775808)
  | EUn _ a => wf a
  | EBin Pow l r => wf l && match r with ELit n => (0 <=? n) && (n <=? i64_max) | _ => false end
  | EBin _ l r => wf l && wf r
  end.

(* ------------------------------------------------------------------ Spec *)
(* XInt z : the value must be the integer z         XNullP : must be NULL (NULL operand)
   XDivZ  : division / modulo by zero: NULL or an error
   XOver  : some step's exact result is not an i64: an ERROR is required (not a panic, not a wrapped value)
   XAny   : not judged (shift count out of range, NULL mixed with an overflowing operand, ...) *)
Inductive xres := XInt (z : Z) | XNullP | XDivZ | XOver | XAny.

Definition xchk (x : Z) : xres := if in_i64 x then XInt x else XOver.

(* a ^ b for b >= 0 without ever building a huge number *)
Definition exact_pow (a b : Z) : xres :=
  if b =? 0 then XInt 1
  else if a =? 0 then XInt 0
  else if a =? 1 then XInt 1
  else if a =? -1 then XInt (if Z.even b then 1 else -1)
  else if 64 <=? b then XOver
  else xchk (a ^ b).

Definition exact_bin (o : binop) (a b : Z) : xres :=
  match o with
  | Add => xchk (a + b)
  | Sub => xchk (a - b)
  | Mul => xchk (a * b)
  | Div => if b =? 0 then XDivZ else xchk (Z.quot a b)
  | Rem => if b =? 0 then XDivZ else XInt (Z.rem a b)
  | Pow => if 0 <=? b then exact_pow a b else XAny
  | Shl => if (0 <=? b) && (b <? 64) then XInt (wrap_s 64 (a * 2 ^ b)) else XAny
  | Shr => if (0 <=? b) && (b <? 64) then XInt (a / 2 ^ b) else XAny
  | BAnd => XInt (Z.land a b)
  | BOr => XInt (Z.lor a b)
  end.

Definition exact_un (o : unop) (a : Z) : xres :=
  match o with Neg => xchk (- a) | Pos => XInt a | BNot => XInt (- a - 1) end.

Definition x_nullish (x : xres) : bool := match x with XNullP | XDivZ => true | _ => false end.

Fixpoint exact (e : expr) : xres :=
  match e with
  | ELit n => xchk n
  | ENull => XNullP
  | EUn o a =>
      match o, a with
      | Neg, ELit n => xchk (- n)                                   (* a signed numeral *)
      | _, _ => match exact a with XInt x => exact_un o x | r => r end
      end
  | EBin o l r =>
      match exact l, exact r with
      | XInt a, XInt b => exact_bin o a b
      | XAny, _ | _, XAny => XAny
      | XOver, XInt _ | XInt _, XOver | XOver, XOver => XOver
      | XOver, _ | _, XOver => XAny
      | XDivZ, _ | _, XDivZ => XDivZ
      | _, _ => XNullP
      end
  end.

(* does the observed result of a SELECT satisfy the property for expected result x? *)
Definition obs_ok (x : xres) (o : out) : bool :=
  match o with
  | OPanic | OFuel | OUnmod | ONone => false
  | OErr => match x with XDivZ | XOver | XAny => true | _ => false end
  | OVal v =>
      match x, v with
      | XInt z, VInt n => z =? n
      | XNullP, VNull => true
      | XDivZ, VNull => true
      | XAny, _ => true
      | _, _ => false
      end
  end.

(* ---- recorded finding class (an input predicate, independent of [eval])
   1 : the exact evaluation meets a step whose result is not an i64: the property requires an ERROR,
       the evaluator has no error channel (eval_value returns Option) and shows NULL   (F-C20-1, narrowed) *)
Definition arith_class (e : expr) : Z := match exact e with XOver => 1 | _ => 0 end.

(* ------------------------------------------------------------------ numeric / control-flow functions on integers *)
Inductive nfn := FAbs | FSign | FMod | FDivI | FCeil | FFloor | FRound | FTrunc | FGreatest | FLeast
               | FIf | FIfnull | FNullif | FCoalesce | FIsnull.

(* get_float / get_int on Int-or-NULL arguments *)
Definition get_num (v : val) : option Z := match v with VInt n => Some n | _ => None end.

(* GREATEST / LEAST over Int and NULL arguments: (running extreme of the ints, has_null) *)
Fixpoint fold_ext (pick : Z -> Z -> Z) (args : list val) (acc : option Z) (has_null : bool) : option Z * bool :=
  match args with
  | [] => (acc, has_null)
  | VInt n :: t => fold_ext pick t (Some (match acc with Some m => pick m n | None => n end)) has_null
  | VNull :: t => fold_ext pick t acc true
  | _ :: t => fold_ext pick t acc has_null
  end.

Definition eval_ext (pick : Z -> Z -> Z) (args : list val) : out :=
  match args with
  | [] => OVal VNull
  | _ => match fold_ext pick args None false with
         | (Some m, _) => OVal (VInt m)
         | (None, _) => OVal VNull
         end
  end.

Definition truthy (v : val) : bool := match v with VInt n => negb (n =? 0) | _ => false end.

Definition val_eqb (a b : val) : bool :=
  match a, b with
  | VInt x, VInt y => x =? y
  | VNull, VNull => true
  | _, _ => false
  end.

Fixpoint first_non_null (args : list val) : val :=
  match args with
  | [] => VNull
  | VNull :: t => first_non_null t
  | v :: _ => v
  end.

(* arguments are Int or NULL (anything else: OUnmod) *)
Definition args_ok (args : list val) : bool :=
  forallb (fun v => match v with VInt n => in_i64 n | VNull => true | _ => false end) args.

Definition eval_nfn (f : nfn) (args : list val) : out :=
  if negb (args_ok args) then OUnmod else
  match f, args with
  | FAbs, VInt n :: _ => chk (Z.abs n)                              (* n.checked_abs() *)
  | FAbs, VNull :: _ => OVal VNull
  | FSign, VInt n :: _ => OVal (VInt (Z.sgn n))
  | FSign, VNull :: _ => OVal VNull
  | FMod, a :: b :: _ =>                                             (* two Ints: b == 0 -> NULL; Int(a.wrapping_rem(b)) *)
      match get_num a with
      | None => ONone
      | Some x => match get_num b with
                  | None => ONone
                  | Some y => if y =? 0 then OVal VNull else OVal (VInt (Z.rem x y))
                  end
      end
  | FDivI, a :: b :: _ =>                                            (* get_int both; b == 0 -> NULL; a.checked_div(b) *)
      match get_num a with
      | None => ONone
      | Some x => match get_num b with
                  | None => ONone
                  | Some y => if y =? 0 then OVal VNull else chk (Z.quot x y)
                  end
      end
  | FCeil, VInt n :: _ | FFloor, VInt n :: _ => OVal (VInt n)
  | FCeil, VNull :: _ | FFloor, VNull :: _ => OVal VNull
  | FRound, a :: rest | FTrunc, a :: rest =>                         (* an Int with decimals >= 0 (absent / NULL = 0) is returned unchanged *)
      match get_num a with
      | None => ONone
      | Some x =>
          match rest with
          | [] | VNull :: _ => OVal (VInt x)
          | VInt d :: _ => if 0 <=? d then OVal (VInt x) else OUnmod        (* negative decimals: float path, not modelled *)
          | _ => OUnmod
          end
      end
  | FGreatest, _ => eval_ext Z.max args
  | FLeast, _ => eval_ext Z.min args
  | FIf, c :: a :: b :: _ => OVal (if truthy c then a else b)
  | FIfnull, a :: b :: _ => OVal (match a with VNull => b | _ => a end)
  | FNullif, a :: b :: _ => OVal (if val_eqb a b then VNull else a)
  | FCoalesce, _ => OVal (first_non_null args)
  | FIsnull, a :: _ => OVal (VInt (match a with VNull => 1 | _ => 0 end))
  | _, _ => ONone                                                    (* args.first()? / args.get(1)? on a missing argument *)
  end.

(* ---- Spec of the functions (documented definitions, on exact integers) *)
Definition has_null (args : list val) : bool := existsb (fun v => match v with VNull => true | _ => false end) args.

Definition ints_of (args : list val) : list Z :=
  flat_map (fun v => match v with VInt n => [n] | _ => [] end) args.

Definition fn_exact (f : nfn) (args : list val) : xres :=
  match f, args with
  | FAbs, [VInt n] => xchk (Z.abs n)
  | FSign, [VInt n] => XInt (Z.sgn n)
  | FCeil, [VInt n] | FFloor, [VInt n] => XInt n
  | FRound, [VInt n] | FTrunc, [VInt n] => XInt n
  | FRound, [VInt n; VInt d] | FTrunc, [VInt n; VInt d] => if 0 <=? d then XInt n else XAny
  | FAbs, [VNull] | FSign, [VNull] | FCeil, [VNull] | FFloor, [VNull] | FRound, [VNull] | FTrunc, [VNull] => XNullP
  | FMod, [VInt a; VInt b] => if b =? 0 then XDivZ else XInt (Z.rem a b)
  | FDivI, [VInt a; VInt b] => if b =? 0 then XDivZ else xchk (Z.quot a b)
  | FMod, [_; _] | FDivI, [_; _] => XNullP
  | FGreatest, VInt n :: t => if has_null t then XAny else XInt (fold_left Z.max (ints_of t) n)
  | FLeast, VInt n :: t => if has_null t then XAny else XInt (fold_left Z.min (ints_of t) n)
  | FIf, [c; a; b] => match (if truthy c then a else b) with VInt n => XInt n | _ => XNullP end
  | FIfnull, [a; b] => match (match a with VNull => b | _ => a end) with VInt n => XInt n | _ => XNullP end
  | FNullif, [VInt a; VInt b] => if a =? b then XNullP else XInt a
  | FNullif, [VNull; _] => XNullP
  | FNullif, [VInt a; VNull] => XInt a
  | FCoalesce, _ :: _ => match first_non_null args with VInt n => XInt n | _ => XNullP end
  | FIsnull, [a] => XInt (match a with VNull => 1 | _ => 0 end)
  | _, _ => XAny
  end.

(* MOD answers with a Float: the integer it denotes is compared *)
Definition fn_obs_ok (x : xres) (o : out) : bool :=
  match x, o with
  | XInt z, OVal (VFltI n) => z =? n
  | _, _ => obs_ok x o
  end.

(* finding class of function applications:
   1 : the exact result is not an i64 (ABS(i64::MIN), DIV(i64::MIN, -1)): NULL where an error is required *)
Definition nfn_class (f : nfn) (args : list val) : Z :=
  match fn_exact f args with XOver => 1 | _ => 0 end.
