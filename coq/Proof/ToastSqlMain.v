(* C11 proofs, part 5: every history outside the recorded finding classes reads back what it wrote
   (history_readback_l), the classes themselves break it on the model (the ..._refuted witnesses),
   and the lemmas packaged for Props/C11.v. *)
From Coq Require Import ZArith List Bool Lia ZifyBool.
From TV Require Import Lib.MachInt Lib.MachIntFacts Gen.Toast Model.Toast Model.Utf8 Model.ToastSql
  Proof.ToastCodec Proof.ToastStore Proof.ToastSqlBase Proof.ToastSqlStep.
Import ListNotations.
Open Scope Z_scope.

Arguments Z.div : simpl never.
Arguments Z.modulo : simpl never.
Arguments Z.mul : simpl never.
Arguments Z.add : simpl never.
Arguments Z.sub : simpl never.
Arguments Z.pow : simpl never.
Arguments Z.leb : simpl never.
Arguments Z.ltb : simpl never.
Arguments Z.eqb : simpl never.
Arguments Z.of_nat : simpl never.
Arguments Z.to_nat : simpl never.
Arguments wrap_u : simpl never.

Section Main.
Variable ty : colty.
Variable pk : bool.

(* ---------------------------------------------------------------- bookkeeping about run_from *)
Lemma run_from_cons st o t :
  run_from ty pk st (o :: t) =
  (fst (run_from ty pk (fst (step ty pk st o)) t), snd (step ty pk st o) :: snd (run_from ty pk (fst (step ty pk st o)) t)).
Proof.
  cbn [run_from]. destruct (step ty pk st o) as [st1 ob]. cbn [fst snd].
  destruct (run_from ty pk st1 t) as [st2 obs]. reflexivity.
Qed.

Lemma run_from_length : forall ops st, length (snd (run_from ty pk st ops)) = length ops.
Proof. induction ops as [|o t IH]; intros st; [reflexivity|]. rewrite run_from_cons. cbn [snd length]. now rewrite IH. Qed.

(* the class-3 flag never goes down *)
Lemma step_lost_mono st o : lost st = true -> lost (fst (step ty pk st o)) = true.
Proof.
  intros H. unfold step. destruct (dead st); [exact H|].
  destruct o; cbn [fst].
  - unfold step_ins. destruct (snd _); [destruct (_ || _)|]; exact H.
  - unfold step_upd. destruct (find_k k (rows st)); [|exact H].
    destruct (_ && pk); [exact H|]. destruct (snd _); cbn [fst lost]; [exact H | now rewrite H].
  - unfold step_del. destruct (find_k k (rows st)); exact H.
  - exact H.
  - unfold step_query. destruct (all_ok _); [exact H|]. destruct (existsb is_unknown _); [exact H|].
    destruct (existsb is_abort _); [exact H|]. destruct (existsb is_panic _); exact H.
  - exact H.
Qed.
Lemma run_lost_mono : forall ops st, lost st = true -> lost (fst (run_from ty pk st ops)) = true.
Proof.
  induction ops as [|o t IH]; intros st H; [exact H|]. rewrite run_from_cons. cbn [fst]. apply IH. now apply step_lost_mono.
Qed.

(* ---------------------------------------------------------------- clean histories *)
Definition clean_op (o : op) : Prop :=
  match o with OIns _ _ v | OUpd _ _ v => clean_val ty v | _ => True end.

Lemma clean_of_flags o : op_ok ty o = true -> fake_pointer_op o = false -> utf8_blob_op o = false -> clean_op o.
Proof.
  destruct o; cbn [clean_op]; auto; intros Hok Hf Hu; cbn [op_ok fake_pointer_op utf8_blob_op written] in *.
  - split; [exact Hok|]. split.
    + intros b Hb. now rewrite Hb in Hf.
    + intros b -> Hn. rewrite Hn in Hu. exact Hu.
  - split; [exact Hok|]. split.
    + intros b Hb. now rewrite Hb in Hf.
    + intros b -> Hn. rewrite Hn in Hu. exact Hu.
Qed.

Lemma existsb_false_forall {A} (f : A -> bool) l : existsb f l = false -> forall x, In x l -> f x = false.
Proof.
  induction l as [|h t IH]; intros H x Hin; [destruct Hin|]. cbn [existsb] in H. apply orb_false_iff in H as [H1 H2].
  destruct Hin as [<-|Hin]; auto.
Qed.

Lemma nodup_z_NoDup l : nodup_z l = true -> NoDup l.
Proof.
  induction l as [|x t IH]; intros H; [constructor|]. cbn [nodup_z] in H. apply andb_true_iff in H as [H1 H2].
  constructor; [|auto]. intros Hin. apply negb_true_iff in H1.
  pose proof (existsb_false_forall (Z.eqb x) t H1 x Hin) as E. now rewrite Z.eqb_refl in E.
Qed.

(* ---------------------------------------------------------------- the row counter after Database::open *)
Lemma fold_max_ge : forall l a x, In x l \/ x <= a -> x <= fold_left Z.max l a.
Proof.
  induction l as [|h t IH]; intros a x H; cbn [fold_left].
  - destruct H as [ [] | H ]. exact H.
  - apply IH. destruct H as [ [<- | H] | H ]; [right; lia | left; exact H | right; lia].
Qed.
Lemma fold_max_lt : forall l a b, a < b -> (forall x, In x l -> x < b) -> fold_left Z.max l a < b.
Proof.
  induction l as [|h t IH]; intros a b Ha H; cbn [fold_left]; [exact Ha|].
  apply IH; [pose proof (H h (or_introl eq_refl)); lia | intros x Hx; apply H; now right].
Qed.
Lemma max_rid_ge st x : In x (map r_rid (rows st) ++ gone st) -> x <= max_rid st.
Proof. intros H. unfold max_rid. apply fold_max_ge. now left. Qed.
Lemma max_rid_lt st e : Inv ty st e -> 0 <= max_rid st < next_rid st.
Proof.
  intros Hi. pose proof (inv_rid ty st e Hi). split.
  - unfold max_rid. apply fold_max_ge. right. lia.
  - unfold max_rid. apply fold_max_lt; [lia|]. intros x Hx. apply in_app_or in Hx as [Hx|Hx].
    + apply in_map_iff in Hx as (r & <- & Hr). apply (inv_rids ty st e Hi r Hr).
    + apply (inv_gone ty st e Hi x Hx).
Qed.

(* ---------------------------------------------------------------- the induction *)
Lemma run_ok : forall ops st e,
  Inv ty st e -> dead st = false -> Forall clean_op ops -> NoDup (ins_keys ops) ->
  (forall k, In k (ins_keys ops) -> ~ In k (map r_k (rows st))) ->
  next_rid st + Z.of_nat (length ops) < 2 ^ 62 ->
  lost (fst (run_from ty pk st ops)) = false ->
  spec_from e (combine ops (snd (run_from ty pk st ops))) = true.
Proof.
  induction ops as [|o t IH]; intros st e Hi Hd Hc Hn Hfresh Hrid Hlost; [reflexivity|].
  rewrite run_from_cons in Hlost |- *. cbn [fst snd] in Hlost |- *. cbn [combine].
  rewrite spec_from_step.
  inversion Hc as [|? ? Hco Hct]; subst.
  cbn [length] in Hrid. rewrite Nat2Z.inj_succ in Hrid. pose proof (inv_rid ty st e Hi) as Hr1.
  destruct (step ty pk st o) as [st1 ob] eqn:Es. cbn [fst snd] in *.
  assert (lost st1 = false) as Hl1.
  { destruct (lost st1) eqn:E; [|reflexivity]. rewrite (run_lost_mono t st1 E) in Hlost. discriminate. }
  unfold step in Es. rewrite Hd in Es.
  destruct o as [p k v|p k v|k| |s|].
  - (* INSERT *)
    cbn [ins_keys] in Hn, Hfresh. inversion Hn as [|? ? Hk Hnt]; subst.
    destruct (step_ins_ok ty st e p k v st1 ob Hi Hco (Hfresh k (or_introl eq_refl)) ltac:(lia) Es)
      as (e' & Hs & Hi' & Hd' & _ & Hr' & Hkeys).
    rewrite Hs. apply IH; auto; [congruence | | lia].
    intros k' Hk' Hin. destruct (Hkeys k' Hin) as [->|Hold]; [contradiction|].
    eapply Hfresh; [right; exact Hk' | exact Hold].
  - (* UPDATE *)
    cbn [ins_keys] in Hn, Hfresh.
    destruct (step_upd_ok ty pk st e p k v st1 ob Hi Hco Es Hl1) as (e' & Hs & Hi' & Hd' & Hr' & Hkeys).
    rewrite Hs. apply IH; auto; [congruence | rewrite Hkeys; exact Hfresh | lia].
  - (* DELETE *)
    cbn [ins_keys] in Hn, Hfresh.
    destruct (step_del_ok ty st e k st1 ob Hi Es) as (e' & Hs & Hi' & Hd' & _ & Hr' & Hkeys).
    rewrite Hs. apply IH; auto; [congruence | | lia].
    intros k' Hk' Hin. eapply Hfresh; eauto.
  - (* reopen *)
    cbn [ins_keys] in Hn, Hfresh. unfold step_reopen in Es. injection Es as <- <-. cbn [spec_step].
    pose proof (max_rid_lt st e Hi) as Hmax. pose proof (max_rid_ge st) as Hge.
    apply IH; auto; cbn [next_rid rows]; [| lia].
    destruct Hi as [A B C D E F]. constructor; cbn [rows toast next_rid gone]; auto; [lia | |].
    + intros r Hin. specialize (Hge (r_rid r) (in_or_app _ _ _ (or_introl (in_map r_rid _ _ Hin)))).
      pose proof (E r Hin). lia.
    + intros x Hin. specialize (Hge x (in_or_app _ _ _ (or_intror Hin))). pose proof (F x Hin). lia.
  - (* SELECT *)
    cbn [ins_keys] in Hn, Hfresh.
    destruct (step_query_ok ty st e st1 ob Hi Es) as [Hs ->]. cbn [spec_step] in Hs |- *. rewrite Hs.
    apply IH; auto. lia.
  - (* skipped *)
    cbn [ins_keys] in Hn, Hfresh. injection Es as <- <-. cbn [spec_step]. apply IH; auto. lia.
Qed.

Lemma history_readback_pre : forall ops,
  wf_hist ty ops = true -> hist_class ty pk ops = 0 -> spec_hist ops (run ty pk ops) = true.
Proof.
  intros ops Hwf Hcl. unfold wf_hist in Hwf. apply andb_true_iff in Hwf as [Hwf Hlen]. apply andb_true_iff in Hwf as [Hok Hnd].
  unfold hist_class in Hcl.
  destruct (existsb fake_pointer_op ops) eqn:Ef; [discriminate|].
  destruct (lost (final ty pk ops)) eqn:El; [discriminate|].
  destruct (existsb utf8_blob_op ops) eqn:Eu; [discriminate|].
  unfold spec_hist, run. rewrite run_from_length, Nat.eqb_refl. cbn [andb].
  apply run_ok.
  - constructor; cbn; [constructor | constructor | intros ? ? ? [] | lia | intros ? [] | intros ? []].
  - reflexivity.
  - apply Forall_forall. intros o Hin. apply clean_of_flags.
    + rewrite forallb_forall in Hok. now apply Hok.
    + now apply (existsb_false_forall _ _ Ef).
    + now apply (existsb_false_forall _ _ Eu).
  - now apply nodup_z_NoDup.
  - intros k _ [].
  - cbn [next_rid st0]. change (2 ^ 60) with 1152921504606846976 in Hlen. change (2 ^ 62) with 4611686018427387904. lia.
  - exact El.
Qed.
End Main.

(* ================================================================ packaged for Props/C11.v *)
Lemma history_readback_l : forall ty pk ops,
  wf_hist ty ops = true -> hist_class ty pk ops = 0 -> spec_hist ops (run ty pk ops) = true.
Proof. exact history_readback_pre. Qed.

Lemma chunks_concat_shape_l : forall d,
  concat (chunks CHUNK d) = d /\ Z.of_nat (length (chunks CHUNK d)) = chunk_count (blen d) /\
  Forall (fun c => 1 <= blen c <= 4000) (chunks CHUNK d).
Proof. intros d. split; [apply chunks_concat_l | split; [apply chunks_count | apply chunks_sizes]]. Qed.

Lemma toast_frame_l : forall m cid d m' ok cid' d',
  toast_write m cid d = (m', ok) -> stored_at m cid' d' -> stored_at m' cid' d'.
Proof. exact toast_write_keeps. Qed.

Lemma toast_delete_frame_l : forall m total cid cid' d,
  0 <= total < 2 ^ 64 -> 0 <= cid < 2 ^ 64 -> cid' <> cid ->
  stored_at m cid' d -> stored_at (del_pointer m (ptr_encode total cid)) cid' d.
Proof. exact del_pointer_keeps. Qed.

Lemma toast_collision_l : forall m cid d d0,
  stored_at m cid d0 -> d0 <> [] -> d <> [] -> toast_write m cid d = (m, false).
Proof. exact toast_write_blocked. Qed.

(* one stored value: what SELECT shows *)
Lemma readback_value_l : forall ty m cid b,
  0 <= cid < 2 ^ 64 -> blen b < ALLOC_OK -> stored_at m cid b ->
  read_value ty m (SBytes (ptr_encode (blen b) cid)) = ROk (if valid_utf8 b then VText b else VBlob b).
Proof.
  intros ty m cid b Hc Hl Hs. cbn [read_value]. rewrite ptr_encode_is_pointer, detoast_stored by auto. reflexivity.
Qed.

Lemma readback_inline_l : forall ty m b,
  is_toast_pointer b = false ->
  read_value ty m (SBytes b) = ROk (match ty with TBlob => VBlob b | _ => VText b end).
Proof. intros ty m b H. cbn [read_value]. rewrite H. destruct ty; reflexivity. Qed.

(* ---- the finding classes break the property on the model *)
Definition ops_utf8_blob : list op := [OIns PL 1 (VBlob (repeat 97 1001)); OQuery 0].
Definition ops_fake_pointer : list op := [OIns PL 1 (VBlob (254 :: repeat 0 16)); OQuery 0].
Definition ops_lost_update : list op :=
  [OIns PL 1 (VText [97]); OIns PL 2 (VText (repeat 98 1001)); OUpd PL 1 (VText (repeat 99 1001));
   OQuery 0; OUpd PL 2 (VText (repeat 100 1001)); OQuery 0].

Lemma history_refuted_utf8_blob_l :
  wf_hist TBlob ops_utf8_blob = true /\ hist_class TBlob false ops_utf8_blob = 1 /\
  run TBlob false ops_utf8_blob = [SWrote true; SRows [(1, VText (repeat 97 1001))]] /\
  spec_hist ops_utf8_blob (run TBlob false ops_utf8_blob) = false.
Proof. vm_compute. repeat split; reflexivity. Qed.

Lemma history_refuted_fake_pointer_l :
  wf_hist TBlob ops_fake_pointer = true /\ hist_class TBlob false ops_fake_pointer = 2 /\
  run TBlob false ops_fake_pointer = [SWrote true; SRows [(1, VText [])]] /\
  spec_hist ops_fake_pointer (run TBlob false ops_fake_pointer) = false.
Proof. vm_compute. repeat split; reflexivity. Qed.

Lemma history_refuted_lost_update_l :
  wf_hist TText ops_lost_update = true /\ hist_class TText false ops_lost_update = 3 /\
  run TText false ops_lost_update =
    [SWrote true; SWrote true; SWrote true; SRows [(1, VText (repeat 99 1001)); (2, VText (repeat 98 1001))];
     SWrote false; SQueryErr] /\
  spec_hist ops_lost_update (run TText false ops_lost_update) = false.
Proof. vm_compute. repeat split; reflexivity. Qed.

(* non-vacuity: a history with values on both sides of the threshold, UPDATEs, a DELETE and a reopen that
   satisfies the hypotheses of history_readback (and what it shows) *)
Definition ops_example : list op :=
  [OIns PL 1 (VText (repeat 97 (Z.to_nat 5000))); OIns PP 2 (VText [104; 105]); OIns PS 3 (VText (repeat 98 1001));
   OUpd PL 1 (VText (repeat 99 (Z.to_nat 9000))); OUpd PP 2 (VText (repeat 100 1001)); ODel 3; OReopen; OQuery 0].
Lemma history_example_l :
  wf_hist TText ops_example = true /\ hist_class TText true ops_example = 0 /\
  run TText true ops_example =
    [SWrote true; SWrote true; SWrote true; SWrote true; SWrote true; SWrote true; SReopened true;
     SRows [(1, VText (repeat 99 (Z.to_nat 9000))); (2, VText (repeat 100 1001))]].
Proof. vm_compute. repeat split; reflexivity. Qed.
