//! C15 -- ORDER BY, LIMIT, OFFSET and DISTINCT are exact.
//! Runs `SELECT [DISTINCT] <cols|*> FROM t [WHERE id > k] [ORDER BY ..] [LIMIT l] [OFFSET o]` on
//! the real `turdb::Database` for generated NULL-rich tables with duplicates and writes the rows
//! that came back, in order, as Coq terms (coq/Corr/C15.v judges them against the reference
//! semantics Model/SortSpec.v + Model/SortQuery.v and the implementation model Model/SortImpl.v).
//!   c15 gen    --seed S --tier T --out DIR [--lines FILE]
//!   c15 search --seed S --budget N --out FILE        (oracle only: Rust port of the reference check)
//!   c15 sql FILE                                      (debug: run the statements of FILE, print results)
#[path = "sqlgen/mod.rs"]
mod sqlgen;
use sqlgen::*;
use std::cmp::Ordering;
use std::path::PathBuf;
use tvh::*;
use turdb::{Database, OwnedValue};

fn main() {
    let a = Args::parse();
    match a.mode.as_str() {
        "gen" => gen(&a),
        "search" => search(&a),
        "sql" => sql_mode(&a),
        _ => { eprintln!("c15: unknown mode"); std::process::exit(2); }
    }
}

// ------------------------------------------------------------------ the query fragment (Model/SortQuery.v)
#[derive(Clone, Debug, PartialEq)]
enum KExpr { Col(usize), Int(i64), Bin(ArithOp, Box<KExpr>, Box<KExpr>), Neg(Box<KExpr>), Abs(Box<KExpr>) }
#[derive(Clone, Debug, PartialEq)]
enum Key { Col(usize, bool), Alias(usize), Expr(KExpr) }
#[derive(Clone, Debug, PartialEq)]
enum Sel { Star, List(Vec<(usize, bool)>) }
#[derive(Clone, Debug, PartialEq)]
struct Query { distinct: bool, sel: Sel, wher: Option<i64>, keys: Vec<(Key, bool)>, limit: Option<i64>, offset: Option<i64> }

impl KExpr {
    fn sql(&self) -> String {
        match self {
            KExpr::Col(c) => col_name(*c),
            KExpr::Int(i) => format!("{}", i),
            KExpr::Bin(op, a, b) => format!("({} {} {})", a.sql(), op.sql(), b.sql()),
            KExpr::Neg(a) => format!("(-{})", a.sql()),
            KExpr::Abs(a) => format!("ABS({})", a.sql()),
        }
    }
    fn coq(&self) -> String {
        match self {
            KExpr::Col(c) => format!("(XCol {})", c),
            KExpr::Int(i) => format!("(XInt {})", z(*i)),
            KExpr::Bin(op, a, b) => format!("(XBin {} {} {})", op.coq(), a.coq(), b.coq()),
            KExpr::Neg(a) => format!("(XNeg {})", a.coq()),
            KExpr::Abs(a) => format!("(XAbs {})", a.coq()),
        }
    }
    fn line(&self) -> String {
        match self {
            KExpr::Col(c) => format!("c{}", c),
            KExpr::Int(i) => format!("i{}", i),
            KExpr::Bin(op, a, b) => format!("{}({},{})", match op { ArithOp::Add => 'A', ArithOp::Sub => 'S', ArithOp::Mul => 'M' }, a.line(), b.line()),
            KExpr::Neg(a) => format!("N({})", a.line()),
            KExpr::Abs(a) => format!("B({})", a.line()),
        }
    }
    fn parse(s: &[u8], pos: &mut usize) -> Option<KExpr> {
        let ch = *s.get(*pos)?;
        *pos += 1;
        match ch {
            b'c' | b'i' => {
                let st = *pos;
                while *pos < s.len() && (s[*pos].is_ascii_digit() || (s[*pos] == b'-' && *pos == st)) { *pos += 1; }
                let txt = std::str::from_utf8(&s[st..*pos]).ok()?;
                if ch == b'c' { Some(KExpr::Col(txt.parse().ok()?)) } else { Some(KExpr::Int(txt.parse().ok()?)) }
            }
            b'A' | b'S' | b'M' => {
                if *s.get(*pos)? != b'(' { return None; }
                *pos += 1;
                let a = KExpr::parse(s, pos)?;
                if *s.get(*pos)? != b',' { return None; }
                *pos += 1;
                let b = KExpr::parse(s, pos)?;
                if *s.get(*pos)? != b')' { return None; }
                *pos += 1;
                let op = match ch { b'A' => ArithOp::Add, b'S' => ArithOp::Sub, _ => ArithOp::Mul };
                Some(KExpr::Bin(op, Box::new(a), Box::new(b)))
            }
            b'N' | b'B' => {
                if *s.get(*pos)? != b'(' { return None; }
                *pos += 1;
                let a = KExpr::parse(s, pos)?;
                if *s.get(*pos)? != b')' { return None; }
                *pos += 1;
                Some(if ch == b'N' { KExpr::Neg(Box::new(a)) } else { KExpr::Abs(Box::new(a)) })
            }
            _ => None,
        }
    }
    fn cols(&self, out: &mut Vec<usize>) {
        match self { KExpr::Col(c) => out.push(*c), KExpr::Int(_) => {}, KExpr::Bin(_, a, b) => { a.cols(out); b.cols(out); } KExpr::Neg(a) | KExpr::Abs(a) => a.cols(out) }
    }
    fn has_fn(&self) -> bool {
        match self { KExpr::Abs(_) => true, KExpr::Bin(_, a, b) => a.has_fn() || b.has_fn(), KExpr::Neg(a) => a.has_fn(), _ => false }
    }
    /// reference value (SqlSpec.eval of to_expr): None = undefined
    fn eval(&self, r: &[Val]) -> Option<Val> {
        match self {
            KExpr::Col(c) => r.get(*c).cloned(),
            KExpr::Int(i) => Some(Val::Int(*i)),
            KExpr::Bin(op, a, b) => arith(*op, a.eval(r)?, b.eval(r)?),
            KExpr::Neg(a) => arith(ArithOp::Sub, Val::Int(0), a.eval(r)?),
            KExpr::Abs(a) => match a.eval(r)? { Val::Int(x) => x.checked_abs().map(Val::Int), Val::Null => Some(Val::Null), _ => None },
        }
    }
}
fn arith(op: ArithOp, x: Val, y: Val) -> Option<Val> {
    match (x, y) {
        (Val::Int(x), Val::Int(y)) => match op { ArithOp::Add => x.checked_add(y), ArithOp::Sub => x.checked_sub(y), ArithOp::Mul => x.checked_mul(y) }.map(Val::Int),
        (Val::Null, Val::Null) | (Val::Null, Val::Int(_)) | (Val::Int(_), Val::Null) => Some(Val::Null),
        _ => None,
    }
}

impl Key {
    fn sql(&self) -> String {
        match self {
            Key::Col(c, q) => if *q { format!("t.{}", col_name(*c)) } else { col_name(*c) },
            Key::Alias(i) => format!("x{}", i),
            Key::Expr(e) => e.sql(),
        }
    }
    fn coq(&self) -> String {
        match self {
            Key::Col(c, q) => format!("(KCol {} {})", c, cbool(*q)),
            Key::Alias(i) => format!("(KAlias {})", i),
            Key::Expr(e) => format!("(KExpr {})", e.coq()),
        }
    }
    fn line(&self) -> String {
        match self {
            Key::Col(c, q) => format!("c{}{}", c, if *q { "q" } else { "" }),
            Key::Alias(i) => format!("x{}", i),
            Key::Expr(e) => format!("e{}", e.line()),
        }
    }
    fn from_line(s: &str) -> Option<Key> {
        if let Some(r) = s.strip_prefix('e') {
            let b = r.as_bytes();
            let mut pos = 0;
            let e = KExpr::parse(b, &mut pos)?;
            if pos != b.len() { return None; }
            return Some(Key::Expr(e));
        }
        if let Some(r) = s.strip_prefix('x') { return Some(Key::Alias(r.parse().ok()?)); }
        let r = s.strip_prefix('c')?;
        if let Some(n) = r.strip_suffix('q') { Some(Key::Col(n.parse().ok()?, true)) } else { Some(Key::Col(r.parse().ok()?, false)) }
    }
}

fn opt_line(o: &Option<i64>) -> String { match o { Some(i) => i.to_string(), None => "-".into() } }
fn opt_parse(s: &str) -> Option<Option<i64>> { if s == "-" { Some(None) } else { s.parse().ok().map(Some) } }
fn opt_coq(o: &Option<i64>) -> String { match o { Some(i) => format!("(Some {})", z(*i)), None => "None".into() } }

impl Query {
    fn out_cols(&self, ncols: usize) -> Vec<usize> {
        match &self.sel { Sel::Star => (0..ncols).collect(), Sel::List(l) => l.iter().map(|(c, _)| *c).collect() }
    }
    fn sql(&self) -> String {
        let mut s = String::from("SELECT ");
        if self.distinct { s.push_str("DISTINCT "); }
        match &self.sel {
            Sel::Star => s.push('*'),
            Sel::List(l) => {
                let items: Vec<String> = l.iter().enumerate().map(|(i, (c, al))| if *al { format!("{} AS x{}", col_name(*c), i) } else { col_name(*c) }).collect();
                s.push_str(&items.join(", "));
            }
        }
        s.push_str(" FROM t");
        if let Some(k) = self.wher { s.push_str(&format!(" WHERE id > {}", if k < 0 { format!("({})", k) } else { k.to_string() })); }
        if !self.keys.is_empty() {
            let ks: Vec<String> = self.keys.iter().map(|(k, asc)| format!("{}{}", k.sql(), if *asc { "" } else { " DESC" })).collect();
            s.push_str(" ORDER BY ");
            s.push_str(&ks.join(", "));
        }
        if let Some(l) = self.limit { s.push_str(&format!(" LIMIT {}", l)); }
        if let Some(o) = self.offset { s.push_str(&format!(" OFFSET {}", o)); }
        s
    }
    fn coq(&self) -> String {
        let sel = match &self.sel {
            Sel::Star => "SelStar".to_string(),
            Sel::List(l) => format!("(SelList [{}])", l.iter().map(|(c, al)| format!("SI {} {}", c, cbool(*al))).collect::<Vec<_>>().join("; ")),
        };
        let keys: Vec<String> = self.keys.iter().map(|(k, asc)| format!("({}, {})", k.coq(), cbool(*asc))).collect();
        format!("(mkQ {} {} {} [{}] {} {})", cbool(self.distinct), sel, opt_coq(&self.wher), keys.join("; "), opt_coq(&self.limit), opt_coq(&self.offset))
    }
    /// d|sel|where|keys|limit|offset
    fn line(&self) -> String {
        let sel = match &self.sel {
            Sel::Star => "*".to_string(),
            Sel::List(l) => l.iter().map(|(c, al)| format!("{}{}", c, if *al { "a" } else { "" })).collect::<Vec<_>>().join(","),
        };
        let keys = if self.keys.is_empty() { "-".to_string() } else {
            self.keys.iter().map(|(k, asc)| format!("{}:{}", k.line(), if *asc { 'a' } else { 'd' })).collect::<Vec<_>>().join(";")
        };
        format!("{}|{}|{}|{}|{}|{}", if self.distinct { 1 } else { 0 }, sel, opt_line(&self.wher), keys, opt_line(&self.limit), opt_line(&self.offset))
    }
    fn from_line(s: &str) -> Option<Query> {
        let p: Vec<&str> = s.split('|').collect();
        if p.len() != 6 { return None; }
        let distinct = match p[0] { "0" => false, "1" => true, _ => return None };
        let sel = if p[1] == "*" { Sel::Star } else {
            let mut l = vec![];
            for it in p[1].split(',') {
                if let Some(n) = it.strip_suffix('a') { l.push((n.parse().ok()?, true)); } else { l.push((it.parse().ok()?, false)); }
            }
            Sel::List(l)
        };
        let mut keys = vec![];
        if p[3] != "-" {
            for k in p[3].split(';') {
                let (ks, d) = k.rsplit_once(':')?;
                let asc = match d { "a" => true, "d" => false, _ => return None };
                keys.push((Key::from_line(ks)?, asc));
            }
        }
        Some(Query { distinct, sel, wher: opt_parse(p[2])?, keys, limit: opt_parse(p[4])?, offset: opt_parse(p[5])? })
    }
    fn well_formed(&self, ncols: usize) -> bool {
        let mut cols = self.out_cols(ncols);
        for (k, _) in &self.keys { match k { Key::Col(c, _) => cols.push(*c), Key::Expr(e) => e.cols(&mut cols), Key::Alias(_) => {} } }
        cols.iter().all(|c| *c < ncols) && self.limit.map_or(true, |l| l >= 0) && self.offset.map_or(true, |o| o >= 0)
            && !matches!(&self.sel, Sel::List(l) if l.is_empty())
    }
}

// ------------------------------------------------------------------ ORDER BY over GROUP BY (Model/SortGroup.v)
/// SELECT g.., COUNT(*) AS n FROM t [WHERE id > w] GROUP BY g.. ORDER BY <output positions> [LIMIT] [OFFSET]
#[derive(Clone, Debug, PartialEq)]
struct GQuery { cols: Vec<usize>, wher: Option<i64>, keys: Vec<(usize, bool)>, limit: Option<i64>, offset: Option<i64> }

impl GQuery {
    fn key_name(&self, pos: usize) -> String { if pos < self.cols.len() { col_name(self.cols[pos]) } else { "n".into() } }
    fn sql(&self) -> String {
        let g: Vec<String> = self.cols.iter().map(|c| col_name(*c)).collect();
        let mut s = format!("SELECT {}, COUNT(*) AS n FROM t", g.join(", "));
        if let Some(k) = self.wher { s.push_str(&format!(" WHERE id > {}", if k < 0 { format!("({})", k) } else { k.to_string() })); }
        s.push_str(&format!(" GROUP BY {}", g.join(", ")));
        let ks: Vec<String> = self.keys.iter().map(|(p, asc)| format!("{}{}", self.key_name(*p), if *asc { "" } else { " DESC" })).collect();
        s.push_str(&format!(" ORDER BY {}", ks.join(", ")));
        if let Some(l) = self.limit { s.push_str(&format!(" LIMIT {}", l)); }
        if let Some(o) = self.offset { s.push_str(&format!(" OFFSET {}", o)); }
        s
    }
    fn coq(&self) -> String {
        let keys: Vec<String> = self.keys.iter().map(|(p, asc)| format!("({}%nat, {})", p, cbool(*asc))).collect();
        format!("(mkG [{}]%nat {} [{}] {} {})", self.cols.iter().map(|c| c.to_string()).collect::<Vec<_>>().join(";"),
                opt_coq(&self.wher), keys.join("; "), opt_coq(&self.limit), opt_coq(&self.offset))
    }
    /// cols|where|keys|limit|offset     e.g. 1,3|-|0:a;2:d|3|-
    fn line(&self) -> String {
        format!("{}|{}|{}|{}|{}", self.cols.iter().map(|c| c.to_string()).collect::<Vec<_>>().join(","), opt_line(&self.wher),
                self.keys.iter().map(|(p, asc)| format!("{}:{}", p, if *asc { 'a' } else { 'd' })).collect::<Vec<_>>().join(";"),
                opt_line(&self.limit), opt_line(&self.offset))
    }
    fn from_line(s: &str) -> Option<GQuery> {
        let p: Vec<&str> = s.split('|').collect();
        if p.len() != 5 { return None; }
        let cols: Option<Vec<usize>> = p[0].split(',').map(|c| c.parse().ok()).collect();
        let mut keys = vec![];
        for k in p[2].split(';') {
            let (pos, d) = k.split_once(':')?;
            keys.push((pos.parse().ok()?, match d { "a" => true, "d" => false, _ => return None }));
        }
        Some(GQuery { cols: cols?, wher: opt_parse(p[1])?, keys, limit: opt_parse(p[3])?, offset: opt_parse(p[4])? })
    }
    fn well_formed(&self, ncols: usize) -> bool {
        let k = self.cols.len();
        k > 0 && self.cols.iter().all(|c| *c < ncols) && self.keys.iter().all(|(p, _)| *p <= k)
            && (0..k).all(|i| self.keys.iter().any(|(p, _)| *p == i))
            && self.limit.map_or(true, |l| l >= 0) && self.offset.map_or(true, |o| o >= 0)
    }
    /// the groups in order of first occurrence, as output rows [g.., n] (group_rows of Model/SortGroup.v)
    fn group_rows(&self, t: &Table) -> Vec<Vec<Val>> {
        let mut acc: Vec<(Vec<Val>, i64)> = vec![];
        for r in &t.rows {
            if let Some(w) = self.wher { match r.get(0) { Some(Val::Int(i)) if *i > w => {}, _ => continue } }
            let g: Vec<Val> = self.cols.iter().map(|c| r[*c].clone()).collect();
            match acc.iter_mut().find(|(h, _)| *h == g) { Some(e) => e.1 += 1, None => acc.push((g, 1)) }
        }
        acc.into_iter().map(|(mut g, c)| { g.push(Val::Int(c)); g }).collect()
    }
    fn elts(&self, t: &Table) -> Vec<Elt> {
        self.group_rows(t).into_iter().map(|r| (self.keys.iter().map(|(p, _)| r[*p].clone()).collect(), r)).collect()
    }
    /// the same window check through the generic checker: a Query that only carries dirs / window
    fn as_window(&self) -> Query {
        Query { distinct: false, sel: Sel::Star, wher: None, keys: self.keys.iter().map(|(p, asc)| (Key::Col(*p, false), *asc)).collect(), limit: self.limit, offset: self.offset }
    }
}

// ------------------------------------------------------------------ reference check (Rust port of Model/SortSpec.v; search / statistics only)
fn vrank(v: &Val) -> i32 { match v { Val::Null => 0, Val::Int(_) => 1, Val::Float(_) => 2, Val::Text(_) => 3, Val::Bool(_) => 4 } }
fn sort_cmp(a: &Val, b: &Val) -> Ordering {
    match (a, b) {
        (Val::Int(x), Val::Int(y)) => x.cmp(y),
        (Val::Float(x), Val::Float(y)) => f64::from_bits(*x).partial_cmp(&f64::from_bits(*y)).unwrap_or(Ordering::Equal),
        (Val::Text(x), Val::Text(y)) => x.cmp(y),
        (Val::Bool(x), Val::Bool(y)) => x.cmp(y),
        _ => vrank(a).cmp(&vrank(b)),
    }
}
fn lex_cmp(dirs: &[bool], a: &[Val], b: &[Val]) -> Ordering {
    for (i, asc) in dirs.iter().enumerate() {
        let c = if *asc { sort_cmp(&a[i], &b[i]) } else { sort_cmp(&b[i], &a[i]) };
        if c != Ordering::Equal { return c; }
    }
    Ordering::Equal
}
fn norm(v: &Val) -> Val { match v { Val::Float(b) if *b == 1u64 << 63 => Val::Float(0), _ => v.clone() } }
fn norm_row(r: &[Val]) -> Vec<Val> { r.iter().map(norm).collect() }

type Elt = (Vec<Val>, Vec<Val>);

/// what key k denotes: a table column or an expression; None = invalid
enum Den { Col(usize), Expr(KExpr) }
fn key_den(ncols: usize, q: &Query, k: &Key) -> Option<Den> {
    match k {
        Key::Col(c, _) => if *c < ncols { Some(Den::Col(*c)) } else { None },
        Key::Alias(i) => match &q.sel { Sel::List(l) => match l.get(*i) { Some((c, true)) => Some(Den::Col(*c)), _ => None }, Sel::Star => None },
        Key::Expr(KExpr::Int(n)) => {
            let oc = q.out_cols(ncols);
            if *n >= 1 && (*n as usize) <= oc.len() { Some(Den::Col(oc[*n as usize - 1])) } else { None }
        }
        Key::Expr(KExpr::Col(c)) => if *c < ncols { Some(Den::Col(*c)) } else { None },
        Key::Expr(e) => Some(Den::Expr(e.clone())),
    }
}
/// spec_elts: the elements the query works on (in table order); None = the reference does not say
fn spec_elts(t: &Table, q: &Query) -> Option<Vec<Elt>> {
    let ncols = t.cols.len();
    let dens: Option<Vec<Den>> = q.keys.iter().map(|(k, _)| key_den(ncols, q, k)).collect();
    let dens = dens?;
    let oc = q.out_cols(ncols);
    let mut out = vec![];
    for r in &t.rows {
        if let Some(k) = q.wher { match r.get(0) { Some(Val::Int(i)) if *i > k => {}, _ => continue } }
        let mut ks = vec![];
        for d in &dens { ks.push(match d { Den::Col(c) => r.get(*c).cloned()?, Den::Expr(e) => e.eval(r)? }); }
        let mut p = vec![];
        for c in &oc { p.push(r.get(*c).cloned()?); }
        out.push((ks, p));
    }
    Some(out)
}
fn homog(vs: &[&Val]) -> bool {
    let mut rank = 0;
    for v in vs {
        if let Val::Float(b) = v { if f64::from_bits(*b).is_nan() { return false; } }
        let r = vrank(v);
        if r != 0 { if rank != 0 && rank != r { return false; } rank = r; }
    }
    true
}
fn result_defined(q: &Query, b: &[Elt]) -> bool {
    for i in 0..q.keys.len() {
        let col: Vec<&Val> = b.iter().map(|e| &e.0[i]).collect();
        if !homog(&col) { return false; }
    }
    // the output row determines the keys up to equivalence (pay_fixes_key)
    let dirs: Vec<bool> = q.keys.iter().map(|k| k.1).collect();
    for x in b { for y in b { if norm_row(&x.1) == norm_row(&y.1) && lex_cmp(&dirs, &x.0, &y.0) != Ordering::Equal { return false; } } }
    true
}
/// rows_chk of Model/SortSpec.v
fn result_chk(q: &Query, b: &[Elt], rows: &[Vec<Val>]) -> bool {
    let dirs: Vec<bool> = q.keys.iter().map(|k| k.1).collect();
    let mut base: Vec<Elt> = vec![];
    for e in b {
        let ne = (e.0.clone(), norm_row(&e.1));
        if q.distinct && base.iter().any(|x| x.1 == ne.1) { continue; }
        base.push(ne);
    }
    let mut sorted = base.clone();
    sorted.sort_by(|x, y| lex_cmp(&dirs, &x.0, &y.0));
    let o = q.offset.unwrap_or(0).max(0) as usize;
    let start = o.min(sorted.len());
    let end = match q.limit { Some(l) => (o.saturating_add(l.max(0) as usize)).min(sorted.len()), None => sorted.len() };
    let win = &sorted[start..end.max(start)];
    let mut rest = base;
    let mut picked = vec![];
    for r in rows {
        let nr = norm_row(r);
        match rest.iter().position(|e| e.1 == nr) { Some(i) => picked.push(rest.remove(i)), None => return false }
    }
    picked.len() == win.len() && picked.iter().zip(win.iter()).all(|(p, w)| lex_cmp(&dirs, &p.0, &w.0) == Ordering::Equal)
}

/// rough tag of the recorded finding classes (search mode / statistics only; authoritative:
/// known_class_case in Model/SortImpl.v)
fn rough_class(t: &Table, q: &Query) -> u32 { rough_class_q(t.cols.len(), q) }
fn rough_class_q(ncols: usize, q: &Query) -> u32 {
    // a DISTINCT statement is executed without its LIMIT / OFFSET (exec_q)
    let strip = q.distinct && (q.limit.is_some() || q.offset.is_some());
    let limit = if strip { None } else { q.limit };
    let has_order = !q.keys.is_empty();
    let expr_key = q.keys.iter().any(|(k, _)| matches!(k, Key::Expr(_)));
    if let Sel::Star = &q.sel { if has_order && limit.is_none() && expr_key { return 6; } }
    let items: Vec<(usize, bool)> = match &q.sel { Sel::Star => vec![], Sel::List(l) => l.clone() };
    let has_col = |c: usize| items.iter().any(|(x, _)| *x == c);
    let has_plain = |c: usize| items.iter().any(|(x, al)| *x == c && !*al);
    let projected = |k: &Key| match k {
        Key::Col(c, _) => has_col(*c),
        Key::Alias(i) => matches!(items.get(*i), Some((_, true))),
        Key::Expr(e) => { let mut cs = vec![]; e.cols(&mut cs); cs.iter().all(|c| has_col(*c)) }
    };
    let above = if limit.is_some() { q.keys.iter().all(|(k, _)| projected(k)) } else { !expr_key };
    for (k, _) in &q.keys {
        if key_den(ncols, q, k).is_none() { continue; }
        match k {
            Key::Col(c, qual) => { if above && !(has_plain(*c) || (!*qual && has_col(*c))) { return 1; } }
            Key::Alias(_) => { if !above { return 1; } }
            Key::Expr(KExpr::Int(_)) => return 2,
            Key::Expr(e) => {
                if above { let mut cs = vec![]; e.cols(&mut cs); if !cs.iter().all(|c| has_plain(*c)) { return 1; } }
                if e.has_fn() { return 3; }
            }
        }
    }
    0
}

// ------------------------------------------------------------------ the database under test
fn scratch_root() -> PathBuf {
    let shm = PathBuf::from("/dev/shm");
    let base = if shm.is_dir() { shm } else {
        let exe = std::env::current_exe().ok();
        exe.as_ref().and_then(|p| p.parent()).and_then(|p| p.parent()).and_then(|p| p.parent())
            .map(|p| p.join("tmp")).unwrap_or_else(|| PathBuf::from("/verif/build/tmp"))
    };
    base.join(format!("tv-c15-{}", std::process::id()))
}

struct Sut { db: Option<Database>, dir: PathBuf, seq: u64, loaded: Option<Table>, emitted: Option<Table> }

#[derive(Clone, Debug, PartialEq)]
enum QOut { Rows(Vec<Vec<Val>>), Err(String), Panic(String), Bad(String) }

impl QOut {
    fn coq(&self) -> String {
        match self {
            QOut::Rows(rows) => {
                let rs: Vec<String> = rows.iter().map(|r| format!("[{}]", r.iter().map(|v| v.to_coq()).collect::<Vec<_>>().join("; "))).collect();
                format!("(QRows [{}])", rs.join("; "))
            }
            QOut::Err(_) | QOut::Bad(_) => "QErr".into(),
            QOut::Panic(_) => "QPanic".into(),
        }
    }
    fn bucket(&self) -> &'static str {
        match self { QOut::Rows(_) => "out:rows", QOut::Err(_) => "out:error", QOut::Panic(_) => "out:panic", QOut::Bad(_) => "out:bad_value" }
    }
}

fn same_value(v: &Val, o: &OwnedValue) -> bool {
    match (v, o) {
        (Val::Null, OwnedValue::Null) => true,
        (Val::Int(a), OwnedValue::Int(b)) => a == b,
        (Val::Float(a), OwnedValue::Float(b)) => *a == b.to_bits(),
        (Val::Text(a), OwnedValue::Text(b)) => a.as_slice() == b.as_bytes(),
        _ => false,
    }
}
fn val_of(o: &OwnedValue) -> Option<Val> {
    match o {
        OwnedValue::Null => Some(Val::Null),
        OwnedValue::Int(i) => Some(Val::Int(*i)),
        OwnedValue::Float(f) => Some(Val::Float(f.to_bits())),
        OwnedValue::Text(s) => Some(Val::Text(s.as_bytes().to_vec())),
        OwnedValue::Bool(b) => Some(Val::Bool(*b)),
        _ => None,
    }
}

impl Sut {
    fn new() -> Sut { Sut { db: None, dir: scratch_root(), seq: 0, loaded: None, emitted: None } }
    fn close(&mut self) { self.db = None; self.loaded = None; }
    fn cleanup(&mut self) { self.close(); let _ = std::fs::remove_dir_all(&self.dir); }
    /// fresh database holding exactly table `t`; checks that the stored rows read back identically
    fn load(&mut self, t: &Table) -> Result<(), String> {
        self.close();
        self.seq += 1;
        let _ = std::fs::remove_dir_all(&self.dir);
        std::fs::create_dir_all(&self.dir).map_err(|e| format!("mkdir: {}", e))?;
        let path = self.dir.join(format!("db{}", self.seq));
        let t2 = t.clone();
        let res = catch(std::panic::AssertUnwindSafe(move || -> Result<Database, String> {
            let db = Database::create(&path).map_err(|e| format!("create: {:#}", e))?;
            db.execute(&t2.create_sql()).map_err(|e| format!("ddl: {:#}", e))?;
            for r in 0..t2.rows.len() { db.execute(&t2.insert_sql(r)).map_err(|e| format!("insert: {:#}", e))?; }
            let back = db.query(&format!("SELECT * FROM {}", t2.name)).map_err(|e| format!("readback: {:#}", e))?;
            if back.len() != t2.rows.len() { return Err(format!("readback: {} rows, expected {}", back.len(), t2.rows.len())); }
            for (row, got) in t2.rows.iter().zip(back.iter()) {
                if row.len() != got.values.len() || !row.iter().zip(got.values.iter()).all(|(v, o)| same_value(v, o)) {
                    return Err(format!("readback: stored row differs: {:?} vs {:?}", row, got.values));
                }
            }
            Ok(db)
        }));
        match res {
            Caught::Done(Ok(db)) => { self.db = Some(db); self.loaded = Some(t.clone()); Ok(()) }
            Caught::Done(Err(e)) => Err(e),
            Caught::Panicked(m) => Err(format!("panic during setup: {}", m)),
        }
    }
    fn ensure(&mut self, t: &Table) -> Result<(), String> {
        if self.db.is_some() && self.loaded.as_ref() == Some(t) { Ok(()) } else { self.load(t) }
    }
    fn observe(&mut self, t: &Table, q: &Query) -> QOut { self.observe_sql(t, &q.sql()) }
    fn observe_sql(&mut self, t: &Table, sql: &str) -> QOut {
        if let Err(m) = self.ensure(t) { return QOut::Bad(format!("setup: {}", m)); }
        let sql = sql.to_string();
        let db = self.db.as_ref().expect("db");
        let r = catch(std::panic::AssertUnwindSafe(|| db.query(&sql).map_err(|e| format!("{:#}", e))));
        match r {
            Caught::Panicked(m) => { self.close(); QOut::Panic(m) }
            Caught::Done(Err(m)) => QOut::Err(m),
            Caught::Done(Ok(rows)) => {
                let mut out = vec![];
                for r in &rows {
                    let vs: Option<Vec<Val>> = r.values.iter().map(val_of).collect();
                    match vs { Some(v) => out.push(v), None => return QOut::Bad(format!("value {:?}", r.values)) }
                }
                QOut::Rows(out)
            }
        }
    }
}

// ------------------------------------------------------------------ cases
/// one line per case:  single cols=<IFT..> rows=<v,v;v,v|-> q=<d|sel|where|keys|limit|offset>
fn replay_line(t: &Table, q: &Query) -> String { format!("single {} q={}", t.to_line(), q.line()) }
fn replay_line_g(t: &Table, g: &GQuery) -> String { format!("group {} g={}", t.to_line(), g.line()) }
fn parse_replay_g(l: &str) -> Option<(Table, GQuery)> {
    let l = l.split(" #").next().unwrap_or(l).trim();
    let rest = l.strip_prefix("group ")?;
    let rest = rest.strip_prefix("cols=")?;
    let (cols, rest) = rest.split_once(" rows=")?;
    let (rows, g) = rest.split_once(" g=")?;
    Some((Table::from_line("t", cols, rows)?, GQuery::from_line(g.trim())?))
}
fn parse_replay(l: &str) -> Option<(Table, Query)> {
    let l = l.split(" #").next().unwrap_or(l).trim();
    let rest = l.strip_prefix("single ")?;
    let rest = rest.strip_prefix("cols=")?;
    let (cols, rest) = rest.split_once(" rows=")?;
    let (rows, q) = rest.split_once(" q=")?;
    Some((Table::from_line("t", cols, rows)?, Query::from_line(q.trim())?))
}

fn shape_of(q: &Query) -> String {
    let mut s = String::new();
    if q.distinct { s.push_str("distinct+"); }
    if !q.keys.is_empty() { s.push_str(if q.keys.len() > 1 { "orderN+" } else { "order1+" }); }
    if q.limit.is_some() { s.push_str("limit+"); }
    if q.offset.is_some() { s.push_str("offset+"); }
    if q.wher.is_some() { s.push_str("where+"); }
    s.push_str(match q.sel { Sel::Star => "star", Sel::List(_) => "cols" });
    s
}
fn path_of(q: &Query) -> &'static str {
    let has_window = q.limit.is_some() || q.offset.is_some();
    if q.distinct {
        // a DISTINCT statement is executed without its window; the DISTINCT pass applies it
        return if q.keys.is_empty() { if has_window { "path:Project+DISTINCT pass+window" } else { "path:Project+DISTINCT pass" } }
               else if has_window { "path:SortExec+DISTINCT pass+window" } else { "path:SortExec+DISTINCT pass" };
    }
    if q.keys.is_empty() { "path:LimitExec" }
    else if q.limit.is_some() { "path:TopKExec" }
    else if q.offset.is_some() { "path:SortExec+LimitExec" } else { "path:SortExec" }
}

/// the clauses have something to do on this table: >= 2 rows selected, and the keys separate two
/// of them / a duplicate output row exists / the window cuts
fn nontrivial(t: &Table, q: &Query) -> (bool, bool) {
    let b = match spec_elts(t, q) { Some(b) => b, None => return (false, false) };
    if !result_defined(q, &b) { return (false, false); }
    let dirs: Vec<bool> = q.keys.iter().map(|k| k.1).collect();
    let mut work = false;
    if b.len() >= 2 {
        if !q.keys.is_empty() && b.iter().any(|x| lex_cmp(&dirs, &x.0, &b[0].0) != Ordering::Equal) { work = true; }
        if q.distinct && b.iter().enumerate().any(|(i, x)| b[..i].iter().any(|y| norm_row(&y.1) == norm_row(&x.1))) { work = true; }
        let o = q.offset.unwrap_or(0) as usize;
        if (o > 0 && o < b.len()) || q.limit.map_or(false, |l| (l as usize) < b.len()) { work = true; }
    }
    (true, work)
}

const SHARD: usize = 400;

/// rows as 0-based positions of table rows whose projection on the output columns they are
/// (first matching row; the encoding is decoded again and compared before it is used)
fn as_indices(t: &Table, q: &Query, rows: &[Vec<Val>]) -> Option<Vec<usize>> {
    let oc = q.out_cols(t.cols.len());
    let projected: Vec<Vec<Val>> = t.rows.iter().map(|r| oc.iter().map(|c| r[*c].clone()).collect()).collect();
    let mut idx = vec![];
    for r in rows { idx.push(projected.iter().position(|p| p == r)?); }
    let back: Vec<Vec<Val>> = idx.iter().map(|i| projected[*i].clone()).collect();
    if back.as_slice() == rows { Some(idx) } else { None }
}

fn emit(w: &mut CaseWriter, sut: &mut Sut, t: &Table, q: &Query, stream: &str) {
    let ncols = t.cols.len();
    if !q.well_formed(ncols) { eprintln!("c15: skipped ill-formed query {}", q.line()); return; }
    // the table is written once per run of consecutive cases on it (and again at the head of every shard)
    let same = w.total % SHARD != 0 && sut.emitted.as_ref() == Some(t);
    let out = sut.observe(t, q);
    if let QOut::Bad(m) = &out { eprintln!("c15: unexpected result: {} on {}", m, replay_line(t, q)); }
    let out_term = match &out {
        QOut::Rows(rows) => match as_indices(t, q, rows) {
            Some(idx) => format!("(QIdx [{}])", idx.iter().map(|i| i.to_string()).collect::<Vec<_>>().join(";")),
            None => { w.count("out:rows_written_out", 1); out.coq() }
        },
        _ => out.coq(),
    };
    let term = if same { format!("Same {} {}", q.coq(), out_term) } else { format!("Single {} {} {} {}", ncols, t.to_coq(), q.coq(), out_term) };
    sut.emitted = Some(t.clone());
    let (defined, work) = nontrivial(t, q);
    let kind = format!("{}:{}", stream, shape_of(q));
    w.push(term, replay_line(t, q), defined && work, &kind);
    w.count(out.bucket(), 1);
    w.count(path_of(q), 1);
    if !defined { w.count("spec:no_demand", 1); }
    let k = rough_class(t, q);
    if k != 0 { w.count(&format!("class:{}", k), 1); }
    if q.keys.iter().any(|(k, _)| matches!(k, Key::Expr(_))) { w.count("key:expression", 1); }
    if q.keys.iter().any(|(k, _)| matches!(k, Key::Expr(KExpr::Int(_)))) { w.count("key:ordinal", 1); }
    if q.keys.iter().any(|(k, _)| matches!(k, Key::Alias(_))) { w.count("key:alias", 1); }
    if q.keys.iter().any(|(_, asc)| !*asc) { w.count("key:desc", 1); }
    if let QOut::Rows(rows) = &out {
        if defined { if let Some(b) = spec_elts(t, q) { if !result_chk(q, &b, rows) { w.count("oracle:violation(rust port)", 1); } } }
    }
}

fn emit_group(w: &mut CaseWriter, sut: &mut Sut, t: &Table, g: &GQuery, stream: &str) {
    let ncols = t.cols.len();
    if !g.well_formed(ncols) { eprintln!("c15: skipped ill-formed group query {}", g.line()); return; }
    let same = w.total % SHARD != 0 && sut.emitted.as_ref() == Some(t);
    let out = sut.observe_sql(t, &g.sql());
    if let QOut::Bad(m) = &out { eprintln!("c15: unexpected result: {} on {}", m, replay_line_g(t, g)); }
    let term = if same { format!("GSame {} {}", g.coq(), out.coq()) } else { format!("Group {} {} {} {}", ncols, t.to_coq(), g.coq(), out.coq()) };
    sut.emitted = Some(t.clone());
    let b = g.elts(t);
    let wq = g.as_window();
    let defined = result_defined(&wq, &b);
    let o = g.offset.unwrap_or(0) as usize;
    let work = b.len() >= 2;
    let _ = o;
    let kind = format!("{}:group{}{}{}", stream, g.cols.len(), if g.limit.is_some() { "+limit" } else { "" }, if g.offset.is_some() { "+offset" } else { "" });
    w.push(term, replay_line_g(t, g), defined && work, &kind);
    w.count(out.bucket(), 1);
    w.count(if g.limit.is_some() { "path:HashAggregate+TopKExec" } else if g.offset.is_some() { "path:HashAggregate+SortExec+LimitExec" } else { "path:HashAggregate+SortExec" }, 1);
    if !defined { w.count("spec:no_demand", 1); }
    if g.keys.iter().any(|(_, asc)| !*asc) { w.count("key:desc", 1); }
    if g.keys.iter().any(|(p, _)| *p == g.cols.len()) { w.count("key:alias", 1); }
    if let QOut::Rows(rows) = &out { if defined && !result_chk(&wq, &b, rows) { w.count("oracle:violation(rust port)", 1); } }
}

fn gen_gquery(rng: &mut Rng, t: &Table) -> Option<GQuery> {
    let ncols = t.cols.len();
    let cand: Vec<usize> = (1..ncols).filter(|c| t.cols[*c] != ColTy::Float).collect();
    if cand.is_empty() { return None; }
    let mut cols = vec![*rng.pick(&cand)];
    if cand.len() > 1 && rng.chance(1, 3) { let c = *rng.pick(&cand); if c != cols[0] { cols.push(c); } }
    let k = cols.len();
    // every grouping column is a key; the count (position k) before, between or after them, or absent
    let mut keys: Vec<(usize, bool)> = (0..k).map(|i| (i, rng.chance(3, 5))).collect();
    if k == 2 && rng.chance(1, 2) { keys.swap(0, 1); }
    if rng.chance(1, 2) { let at = rng.below(keys.len() as u64 + 1) as usize; keys.insert(at, (k, rng.chance(1, 2))); }
    let n = t.rows.len() as i64;
    let pick_n = |rng: &mut Rng| -> i64 { match rng.below(8) { 0 => 0, 1 => 1, 2 => n + 1, 3 => 1000, _ => rng.range(0, n.max(1)) } };
    let (limit, offset) = match rng.below(10) { 0..=3 => (None, None), 4..=6 => (Some(pick_n(rng)), None), 7..=8 => (Some(pick_n(rng)), Some(pick_n(rng))), _ => (None, Some(pick_n(rng))) };
    Some(GQuery { cols, wher: if rng.chance(1, 5) { Some(rng.range(-1, n)) } else { None }, keys, limit, offset })
}

// ------------------------------------------------------------------ generators
const TINY_INTS: [i64; 4] = [1, 2, 3, -1];
const TINY_FLOATS: [f64; 4] = [0.5, 1.5, 2.5, -1.0];
const TINY_TEXTS: [&str; 4] = ["a", "b", "", "ab"];

/// NULL-rich table with many duplicates (tiny domains) or the sqlgen table (small / wide domains)
fn gen_table_c15(rng: &mut Rng, flavour: u64) -> Table {
    if flavour == 0 {
        let ncols = 1 + rng.below(3) as usize;
        let mut cols = vec![ColTy::Int];
        for _ in 0..ncols { cols.push(*rng.pick(&[ColTy::Int, ColTy::Int, ColTy::Float, ColTy::Text])); }
        let nrows = match rng.below(12) { 0 => rng.below(2) as usize, _ => 2 + rng.below(8) as usize };
        let null_pct = *rng.pick(&[15u64, 30, 45]);
        let mut rows = vec![];
        for r in 0..nrows {
            let mut row = vec![Val::Int(r as i64 + 1)];
            for c in 1..cols.len() {
                if rng.below(100) < null_pct { row.push(Val::Null); continue; }
                row.push(match cols[c] {
                    ColTy::Int => Val::Int(*rng.pick(&TINY_INTS)),
                    ColTy::Float => Val::float(*rng.pick(&TINY_FLOATS)),
                    ColTy::Text => Val::text(*rng.pick(&TINY_TEXTS)),
                });
            }
            rows.push(row);
        }
        Table { name: "t".into(), cols, rows }
    } else {
        let cfg = GenCfg { max_rows: 9, max_cols: 3, null_pct: 25, wide_values: flavour == 2, ..GenCfg::default() };
        gen_table(rng, "t", &cfg)
    }
}

fn gen_kexpr(rng: &mut Rng, int_cols: &[usize], all_cols: usize, depth: usize, allow_neg: bool, any_col: bool) -> KExpr {
    let _ = (all_cols, any_col);
    let pick_col = |rng: &mut Rng| -> usize { if int_cols.is_empty() { 0 } else { *rng.pick(int_cols) } };
    if depth == 0 || rng.chance(1, 3) {
        return if rng.chance(2, 3) { KExpr::Col(pick_col(rng)) } else { KExpr::Int(rng.below(4) as i64) };
    }
    if allow_neg && rng.chance(1, 6) { return KExpr::Neg(Box::new(gen_kexpr(rng, int_cols, all_cols, depth - 1, allow_neg, any_col))); }
    if any_col && rng.chance(1, 8) { return KExpr::Abs(Box::new(gen_kexpr(rng, int_cols, all_cols, depth - 1, allow_neg, any_col))); }
    let op = *rng.pick(&[ArithOp::Add, ArithOp::Sub, ArithOp::Mul]);
    KExpr::Bin(op, Box::new(gen_kexpr(rng, int_cols, all_cols, depth - 1, allow_neg, any_col)), Box::new(gen_kexpr(rng, int_cols, all_cols, depth - 1, allow_neg, any_col)))
}

/// `safe`: stay inside the fragment where TurDB is expected to be right (every key a plain
/// column of the select list or its alias, or an integer expression over plainly selected columns;
/// no ordinals, no function calls, no ORDER BY over `*`)
fn gen_query(rng: &mut Rng, t: &Table, safe: bool) -> Query {
    let ncols = t.cols.len();
    let n = t.rows.len() as i64;
    // columns usable in key expressions: integer columns with small values (no overflow in the
    // products of a depth-2 expression); the full stream also uses text columns (NULL keys in
    // TurDB, no demand in the reference) -- never float columns (float arithmetic is not modelled)
    let small = |c: usize| t.rows.iter().all(|r| match &r[c] { Val::Int(i) => i.abs() <= 1000, _ => true });
    let int_cols: Vec<usize> = (1..ncols).filter(|c| (t.cols[*c] == ColTy::Int && small(*c)) || (!safe && t.cols[*c] == ColTy::Text)).collect();
    let distinct = rng.chance(1, 3);
    // select list
    let sel = if rng.chance(1, 6) { Sel::Star } else {
        let mut l: Vec<(usize, bool)> = vec![];
        if !distinct || rng.chance(1, 4) { l.push((0, !safe && rng.chance(1, 8))); }
        let k = 1 + rng.below(ncols as u64 - 1) as usize;
        for _ in 0..k {
            let c = 1 + rng.below(ncols as u64 - 1) as usize;
            if l.iter().any(|(x, _)| *x == c) && rng.chance(3, 4) { continue; }
            l.push((c, rng.chance(1, 5)));
        }
        if l.is_empty() { l.push((1, false)); }
        if rng.chance(1, 5) { let i = rng.below(l.len() as u64) as usize; let j = rng.below(l.len() as u64) as usize; l.swap(i, j); }
        Sel::List(l)
    };
    let items: Vec<(usize, bool)> = match &sel { Sel::Star => vec![], Sel::List(l) => l.clone() };
    // keys
    let nkeys = match rng.below(10) { 0 | 1 => 0, 2..=5 => 1, 6..=8 => 2, _ => 3 };
    let mut keys = vec![];
    for _ in 0..nkeys {
        let asc = rng.chance(3, 5);
        let key = if safe {
            match &sel {
                Sel::Star => break,                // no ORDER BY over `*` in the safe stream (class 1)
                Sel::List(_) => {
                    let i = rng.below(items.len() as u64) as usize;
                    let (c, al) = items[i];
                    if al && rng.chance(2, 3) { Key::Alias(i) } else { Key::Col(c, false) }
                }
            }
        } else {
            match rng.below(20) {
                0..=7 => Key::Col(1 + rng.below(ncols as u64 - 1) as usize, rng.chance(1, 6)),
                8 => Key::Col(0, false),
                9..=10 => { let al: Vec<usize> = items.iter().enumerate().filter(|(_, it)| it.1).map(|(i, _)| i).collect();
                            if al.is_empty() { Key::Col(1 + rng.below(ncols as u64 - 1) as usize, false) } else { Key::Alias(*rng.pick(&al)) } }
                11..=12 => Key::Expr(KExpr::Int(rng.range(1, ncols as i64 + 1))),
                _ => { let depth = 1 + rng.below(2) as usize; let any = rng.chance(1, 3);
                       let e = gen_kexpr(rng, &int_cols, ncols, depth, true, any);
                       if let KExpr::Col(c) = e { Key::Col(c, false) } else { Key::Expr(e) } }
            }
        };
        keys.push((key, asc));
    }
    if safe {
        // expression keys over integer columns that are all in the select list without alias (any plan resolves them)
        if !keys.is_empty() && !int_cols.is_empty() && rng.chance(1, 5) {
            let plain: Vec<usize> = int_cols.iter().copied().filter(|c| items.iter().any(|(x, al)| x == c && !*al)).collect();
            if !plain.is_empty() {
                let depth = 1 + rng.below(2) as usize;
                let e = gen_kexpr(rng, &plain, ncols, depth, true, false);
                if !matches!(e, KExpr::Col(_) | KExpr::Int(_)) { let i = rng.below(keys.len() as u64) as usize; keys[i].0 = Key::Expr(e); }
            }
        }
    }
    // window
    let pick_n = |rng: &mut Rng| -> i64 {
        match rng.below(12) { 0 => 0, 1 => n, 2 => n + 1 + rng.below(3) as i64, 3 => 1, 4 => (n - 1).max(0), 5 => *rng.pick(&[1000i64, 100000]), _ => rng.range(0, n.max(1)) }
    };
    let (limit, mut offset) = match rng.below(10) { 0..=2 => (None, None), 3..=5 => (Some(pick_n(rng)), None), 6..=8 => (Some(pick_n(rng)), Some(pick_n(rng))), _ => (None, Some(pick_n(rng))) };
    if let (Some(l), Some(o)) = (limit, offset) { if rng.chance(1, 6) { offset = Some((n - l).max(0)); let _ = o; } }
    let wher = if rng.chance(1, 4) { Some(rng.range(-1, n)) } else { None };
    let distinct = if keys.is_empty() && limit.is_none() && offset.is_none() { true } else { distinct };
    Query { distinct, sel, wher, keys, limit, offset }
}

/// the fixed table of the structured stream: NULLs, duplicates and ties in every column
fn structured_table() -> Table {
    let i = |x: i64| Val::Int(x);
    let f = |x: f64| Val::float(x);
    let s = |x: &str| Val::text(x);
    let n = || Val::Null;
    let rows = vec![
        vec![i(1), i(3), f(1.5), s("b")],
        vec![i(2), n(), f(2.5), s("a")],
        vec![i(3), i(1), n(), s("b")],
        vec![i(4), i(3), f(0.5), n()],
        vec![i(5), i(2), f(2.5), s("a")],
        vec![i(6), i(1), f(1.5), s("c")],
        vec![i(7), n(), n(), n()],
        vec![i(8), i(-2), f(-1.0), s("")],
    ];
    Table { name: "t".into(), cols: vec![ColTy::Int, ColTy::Int, ColTy::Float, ColTy::Text], rows }
}

fn structured(w: &mut CaseWriter, sut: &mut Sut, rng: &mut Rng, thorough: bool) {
    let t = structured_table();
    if sut.load(&t).is_err() { w.count("setup_failed", 1); return; }
    let all = Sel::List(vec![(0, false), (1, false), (2, false), (3, false)]);
    let windows: Vec<(Option<i64>, Option<i64>)> = vec![(None, None), (Some(0), None), (Some(1), None), (Some(3), None), (Some(8), None), (Some(9), None),
        (Some(3), Some(2)), (Some(2), Some(6)), (Some(4), Some(7)), (Some(1), Some(8)), (Some(2), Some(20)), (None, Some(3)), (None, Some(8)), (Some(0), Some(2)), (Some(5), Some(0))];
    // every single key and every ordered pair of keys, both directions, over the full select list
    for c1 in 1..4usize { for a1 in [true, false] {
        for (l, o) in &windows {
            if !thorough && !rng.chance(1, 3) { continue; }
            emit(w, sut, &t, &Query { distinct: false, sel: all.clone(), wher: None, keys: vec![(Key::Col(c1, false), a1)], limit: *l, offset: *o }, "structured");
        }
        for c2 in 0..4usize { if c2 == c1 { continue; } for a2 in [true, false] {
            let (l, o) = if thorough { windows[rng.below(windows.len() as u64) as usize] } else { *rng.pick(&[(None, None), (Some(3), Some(2)), (Some(4), None)]) };
            emit(w, sut, &t, &Query { distinct: false, sel: all.clone(), wher: None, keys: vec![(Key::Col(c1, false), a1), (Key::Col(c2, false), a2)], limit: l, offset: o }, "structured");
        } }
    } }
    // windows without ORDER BY
    for (l, o) in &windows {
        if l.is_none() && o.is_none() { continue; }
        if thorough || rng.chance(1, 2) { emit(w, sut, &t, &Query { distinct: false, sel: all.clone(), wher: None, keys: vec![], limit: *l, offset: *o }, "structured"); }
        if thorough || rng.chance(1, 2) { emit(w, sut, &t, &Query { distinct: false, sel: Sel::Star, wher: Some(2), keys: vec![], limit: *l, offset: *o }, "structured"); }
    }
    // DISTINCT over every column subset shape, alone and ordered
    for cols in [vec![1usize], vec![2], vec![3], vec![1, 3], vec![3, 1], vec![1, 2], vec![0, 1], vec![1, 2, 3]] {
        let sel = Sel::List(cols.iter().map(|c| (*c, false)).collect());
        emit(w, sut, &t, &Query { distinct: true, sel: sel.clone(), wher: None, keys: vec![], limit: None, offset: None }, "structured");
        emit(w, sut, &t, &Query { distinct: true, sel: sel.clone(), wher: Some(0), keys: vec![], limit: None, offset: None }, "structured");
        for asc in [true, false] {
            let keys: Vec<(Key, bool)> = cols.iter().map(|c| (Key::Col(*c, false), asc)).collect();
            emit(w, sut, &t, &Query { distinct: true, sel: sel.clone(), wher: None, keys: keys.clone(), limit: None, offset: None }, "structured");
            emit(w, sut, &t, &Query { distinct: true, sel: sel.clone(), wher: None, keys: keys.clone(), limit: Some(2), offset: None }, "structured");
            emit(w, sut, &t, &Query { distinct: true, sel: sel.clone(), wher: None, keys, limit: Some(2), offset: Some(1) }, "structured");
        }
        emit(w, sut, &t, &Query { distinct: true, sel: sel.clone(), wher: None, keys: vec![], limit: Some(2), offset: None }, "structured");
        emit(w, sut, &t, &Query { distinct: true, sel, wher: None, keys: vec![], limit: None, offset: Some(1) }, "structured");
    }
    // ORDER BY / LIMIT / OFFSET over GROUP BY: every grouping column is a key, the count anywhere
    for cols in [vec![1usize], vec![3], vec![3, 1], vec![1, 3]] {
        let k = cols.len();
        let mut keysets: Vec<Vec<(usize, bool)>> = vec![];
        for asc in [true, false] {
            let base: Vec<(usize, bool)> = (0..k).map(|i| (i, asc)).collect();
            keysets.push(base.clone());
            let mut front = vec![(k, !asc)]; front.extend(base.clone()); keysets.push(front);
            let mut back = base.clone(); back.push((k, asc)); keysets.push(back);
        }
        for keys in keysets {
            for (l, o) in [(None, None), (Some(2), None), (Some(2), Some(1)), (None, Some(2)), (Some(0), None), (Some(50), Some(0))] {
                for wher in [None, Some(3)] {
                    if !thorough && (wher.is_some() || !rng.chance(1, 3)) { continue; }
                    emit_group(w, sut, &t, &GQuery { cols: cols.clone(), wher, keys: keys.clone(), limit: l, offset: o }, "structured");
                }
            }
        }
    }
    // key forms: not in the select list, qualified, alias, ordinal, expressions, `*`
    let idc1 = Sel::List(vec![(0, false), (1, false)]);
    let forms: Vec<(Sel, Vec<(Key, bool)>)> = vec![
        (Sel::List(vec![(0, false)]), vec![(Key::Col(1, false), true)]),
        (Sel::List(vec![(0, false)]), vec![(Key::Col(1, false), true), (Key::Col(2, false), false)]),
        (idc1.clone(), vec![(Key::Col(1, true), true)]),
        (Sel::List(vec![(0, false), (1, true)]), vec![(Key::Alias(1), false)]),
        (Sel::List(vec![(0, false), (1, true)]), vec![(Key::Col(1, false), true)]),
        (Sel::List(vec![(0, false), (1, true)]), vec![(Key::Col(1, true), true)]),
        (Sel::List(vec![(0, true), (1, true)]), vec![(Key::Alias(1), false), (Key::Alias(0), false)]),
        (idc1.clone(), vec![(Key::Expr(KExpr::Int(2)), true)]),
        (idc1.clone(), vec![(Key::Expr(KExpr::Int(2)), false), (Key::Expr(KExpr::Int(1)), false)]),
        (idc1.clone(), vec![(Key::Expr(KExpr::Int(7)), true)]),
        (idc1.clone(), vec![(Key::Expr(KExpr::Bin(ArithOp::Add, Box::new(KExpr::Col(1)), Box::new(KExpr::Int(1)))), true)]),
        (idc1.clone(), vec![(Key::Expr(KExpr::Bin(ArithOp::Mul, Box::new(KExpr::Col(1)), Box::new(KExpr::Int(2)))), false)]),
        (idc1.clone(), vec![(Key::Expr(KExpr::Bin(ArithOp::Mul, Box::new(KExpr::Col(1)), Box::new(KExpr::Col(1)))), true), (Key::Col(0, false), false)]),
        (idc1.clone(), vec![(Key::Expr(KExpr::Bin(ArithOp::Sub, Box::new(KExpr::Col(1)), Box::new(KExpr::Col(0)))), true)]),
        (idc1.clone(), vec![(Key::Expr(KExpr::Neg(Box::new(KExpr::Col(1)))), true)]),
        (idc1.clone(), vec![(Key::Expr(KExpr::Abs(Box::new(KExpr::Col(1)))), true)]),
        (idc1.clone(), vec![(Key::Expr(KExpr::Bin(ArithOp::Add, Box::new(KExpr::Abs(Box::new(KExpr::Col(1)))), Box::new(KExpr::Col(0)))), false)]),
        (idc1.clone(), vec![(Key::Expr(KExpr::Neg(Box::new(KExpr::Bin(ArithOp::Mul, Box::new(KExpr::Col(1)), Box::new(KExpr::Col(1)))))), true), (Key::Col(0, false), true)]),
        (idc1.clone(), vec![(Key::Expr(KExpr::Bin(ArithOp::Mul, Box::new(KExpr::Col(1)), Box::new(KExpr::Neg(Box::new(KExpr::Int(1)))))), true)]),
        (idc1.clone(), vec![(Key::Expr(KExpr::Bin(ArithOp::Add, Box::new(KExpr::Col(3)), Box::new(KExpr::Int(1)))), true)]),
        (Sel::List(vec![(0, false)]), vec![(Key::Expr(KExpr::Bin(ArithOp::Add, Box::new(KExpr::Col(1)), Box::new(KExpr::Int(1)))), true)]),
        (Sel::List(vec![(0, false), (1, true)]), vec![(Key::Expr(KExpr::Bin(ArithOp::Add, Box::new(KExpr::Col(1)), Box::new(KExpr::Int(1)))), true)]),
        (Sel::Star, vec![(Key::Col(1, false), true)]),
        (Sel::Star, vec![(Key::Col(2, false), false), (Key::Col(1, false), true)]),
        (Sel::Star, vec![(Key::Expr(KExpr::Int(2)), true)]),
        (Sel::Star, vec![(Key::Expr(KExpr::Bin(ArithOp::Add, Box::new(KExpr::Col(1)), Box::new(KExpr::Int(1)))), true)]),
        (Sel::List(vec![(1, false), (0, false)]), vec![(Key::Col(1, false), true), (Key::Col(0, false), false)]),
        (Sel::List(vec![(3, false), (1, false), (0, false)]), vec![(Key::Col(3, false), false), (Key::Col(1, false), true)]),
    ];
    for (sel, keys) in &forms {
        for (l, o) in [(None, None), (Some(3), None), (Some(3), Some(2)), (None, Some(2)), (Some(0), None), (Some(100), None)] {
            for wher in [None, Some(2)] {
                if !thorough && (wher.is_some() || !(l.is_none() && o.is_none() || rng.chance(2, 5))) { continue; }
                emit(w, sut, &t, &Query { distinct: false, sel: sel.clone(), wher, keys: keys.clone(), limit: l, offset: o }, "structured");
            }
        }
    }
}

fn gen(a: &Args) {
    let mut w = CaseWriter::new(&a.out, "C15", "Corr.C15", SHARD);
    let mut sut = Sut::new();
    if let Some(lines) = a.replay_lines() {
        for l in lines {
            if let Some((t, g)) = parse_replay_g(&l) { emit_group(&mut w, &mut sut, &t, &g, "replay"); continue; }
            match parse_replay(&l) {
                Some((t, q)) => emit(&mut w, &mut sut, &t, &q, "replay"),
                None => eprintln!("c15: cannot parse replay line: {}", l),
            }
        }
        sut.cleanup();
        w.finish(&[]);
        return;
    }
    let mut rng = Rng::new(a.seed);
    structured(&mut w, &mut sut, &mut rng, a.thorough());
    let (ntables, per_table) = if a.thorough() { (700, 30) } else { (45, 12) };
    for k in 0..ntables {
        let flavour = match k % 5 { 0 | 1 | 2 => 0, 3 => 1, _ => 2 };
        let t = gen_table_c15(&mut rng, flavour);
        if let Err(m) = sut.load(&t) {
            eprintln!("c15: table setup failed ({}): {}", m, t.to_line());
            w.count("setup_failed", 1);
            continue;
        }
        for j in 0..per_table {
            let safe = (k + j) % 2 == 0;
            let q = gen_query(&mut rng, &t, safe);
            let stream = format!("{}:{}", if safe { "safe" } else { "full" }, match flavour { 0 => "dup", 1 => "small", _ => "wide" });
            emit(&mut w, &mut sut, &t, &q, &stream);
        }
        // ORDER BY / LIMIT / OFFSET over GROUP BY on the same table
        for _ in 0..(if a.thorough() { 6 } else { 2 }) {
            if let Some(g) = gen_gquery(&mut rng, &t) {
                emit_group(&mut w, &mut sut, &t, &g, match flavour { 0 => "group:dup", 1 => "group:small", _ => "group:wide" });
            }
        }
    }
    sut.cleanup();
    w.finish(&[]);
}

// ------------------------------------------------------------------ search: oracle only
fn search(a: &Args) {
    let mut rng = Rng::new(a.seed ^ 0xC15_5EA7);
    let mut sut = Sut::new();
    let mut fails: Vec<String> = vec![];
    let mut tried: u64 = 0;
    let budget = a.budget.min(60_000);
    'outer: while tried < budget {
        let fl = rng.below(3);
        let t = gen_table_c15(&mut rng, fl);
        if sut.load(&t).is_err() { tried += 1; continue; }
        for j in 0..40 {
            let q = gen_query(&mut rng, &t, j % 2 == 0);
            if !q.well_formed(t.cols.len()) { continue; }
            tried += 1;
            if let Some(b) = spec_elts(&t, &q) {
                if result_defined(&q, &b) {
                    let ok = match sut.observe(&t, &q) { QOut::Rows(rows) => result_chk(&q, &b, &rows), _ => false };
                    if !ok {
                        let k = rough_class(&t, &q);
                        if fails.len() < 60 && (k == 0 || fails.len() < 30) { fails.push(format!("{} #k={}", replay_line(&t, &q), k)); }
                    }
                }
            }
            if tried >= budget { break 'outer; }
        }
        for _ in 0..6 {
            if let Some(g) = gen_gquery(&mut rng, &t) {
                if !g.well_formed(t.cols.len()) { continue; }
                tried += 1;
                let b = g.elts(&t);
                let wq = g.as_window();
                if result_defined(&wq, &b) {
                    let ok = match sut.observe_sql(&t, &g.sql()) { QOut::Rows(rows) => result_chk(&wq, &b, &rows), _ => false };
                    if !ok && fails.len() < 60 { fails.push(format!("{} #k=0", replay_line_g(&t, &g))); }
                }
            }
        }
    }
    sut.cleanup();
    fails.sort_by_key(|f| !f.ends_with("#k=0"));
    let mut out = format!("tried={}\n", tried);
    for f in &fails { out.push_str("FAIL "); out.push_str(f); out.push('\n'); }
    std::fs::write(&a.out, out).expect("write search output");
}

// ------------------------------------------------------------------ debug helper
fn show(v: &OwnedValue) -> String {
    match v {
        OwnedValue::Null => "NULL".into(),
        OwnedValue::Int(i) => format!("{}", i),
        OwnedValue::Float(f) => format!("{:?}f", f),
        OwnedValue::Text(s) => format!("'{}'", s),
        OwnedValue::Bool(b) => format!("{}", b),
        o => format!("{:?}", o),
    }
}

fn sql_mode(a: &Args) {
    let file = a.rest.get(0).expect("file");
    let dir = scratch_root();
    let _ = std::fs::remove_dir_all(&dir);
    std::fs::create_dir_all(&dir).expect("mkdir");
    let db = Database::create(dir.join("db")).expect("create");
    for l in std::fs::read_to_string(file).unwrap().lines() {
        let l = l.trim();
        if l.is_empty() || l.starts_with('#') { continue; }
        if l.to_uppercase().starts_with("SELECT") {
            let l2 = l.to_string();
            match catch(std::panic::AssertUnwindSafe(|| db.query(&l2))) {
                Caught::Done(Ok(rows)) => {
                    let s: Vec<String> = rows.iter().map(|r| format!("({})", r.values.iter().map(show).collect::<Vec<_>>().join(","))).collect();
                    println!("{}\n   => {}", l, s.join(" "));
                }
                Caught::Done(Err(e)) => println!("{}\n   => ERR {:#}", l, e),
                Caught::Panicked(m) => println!("{}\n   => PANIC {}", l, m),
            }
        } else if let Err(e) = db.execute(l) { println!("{}\n   => ERR {:#}", l, e) }
    }
    drop(db);
    let _ = std::fs::remove_dir_all(&dir);
}
