(* C16: query_correct_expression_arguments -- query_correct_plain_columns generalised to aggregates over
   EXPRESSIONS (columns, integer literals, + - * ): for every query with plain-column GROUP BY keys
   whose HAVING mentions only plain aggregates (and, if it mentions COUNT( * ), no COUNT over an
   expression is computed: such a COUNT shares the name `count`) and every table on which the reference
   makes a demand, the faithful model returns exactly the rows the reference demands. *)
From Coq Require Import ZArith List Bool Lia.
From TV Require Import Model.SqlSpecAgg Model.AggImpl Model.AggClass
  Proof.AggFold Proof.AggFoldSpec Proof.AggKeys Proof.AggGroups Proof.AggGroupsMain Proof.AggProgress
  Proof.AggNames Proof.AggQuery1 Proof.AggEvalExt Proof.AggExprArg Proof.AggQueryX2.
Import ListNotations.
Open Scope Z_scope.

(* ------------------------------------------------------------------ small list facts *)
Lemma map_opt_in {A B} (f : A -> option B) : forall l l', map_opt f l = Some l' ->
  forall y, In y l' -> exists x, In x l /\ f x = Some y.
Proof.
  induction l as [|a t IH]; intros l' H y Hy; cbn [map_opt] in H.
  - injection H as <-. destruct Hy.
  - destruct (f a) as [b|] eqn:Fa; [|discriminate]. destruct (map_opt f t) as [l0|] eqn:E; [|discriminate]. injection H as <-.
    destruct Hy as [<-|Hy]; [exists a; split; [now left|exact Fa]|].
    destruct (IH l0 eq_refl y Hy) as [x [Ix Fx]]. exists x; split; [now right|exact Fx].
Qed.
Lemma map_opt_map {A B} (f : A -> option B) : forall l l', map_opt f l = Some l' -> map f l = map Some l'.
Proof.
  induction l as [|a t IH]; intros l' H; cbn [map_opt] in H.
  - injection H as <-. reflexivity.
  - destruct (f a) as [b|] eqn:Fa; [|discriminate]. destruct (map_opt f t) as [l0|] eqn:E; [|discriminate]. injection H as <-.
    cbn [map]. rewrite Fa. f_equal. now apply IH.
Qed.
Lemma map_opt_nth {A B} (f : A -> option B) : forall l l', map_opt f l = Some l' ->
  forall i x, nth_error l i = Some x -> exists y, nth_error l' i = Some y /\ f x = Some y.
Proof.
  induction l as [|a t IH]; intros l' H i x N; [destruct i; discriminate|]. cbn [map_opt] in H.
  destruct (f a) as [b|] eqn:Fa; [|discriminate]. destruct (map_opt f t) as [l0|] eqn:E; [|discriminate]. injection H as <-.
  destruct i as [|i]; cbn [nth_error] in *; [injection N as <-; eauto|]. now apply (IH l0 eq_refl).
Qed.

Lemma Forall2_impl_in {A B} (R S : A -> B -> Prop) : forall l vs, Forall2 R l vs ->
  (forall a v, In a l -> R a v -> S a v) -> Forall2 S l vs.
Proof.
  intros l vs H. induction H as [|a v l vs Hr Ht IH]; intros Himp; constructor.
  - apply Himp; [now left|exact Hr].
  - apply IH. intros a' v' I. apply Himp. now right.
Qed.

Lemma all_plain_iff keys : all_plain keys = forallb is_plain keys.
Proof. unfold all_plain. induction keys as [|k t IH]; [reflexivity|]. cbn [forallb]. rewrite IH. destruct k; reflexivity. Qed.
Lemma sel_plain_keys q : forallb is_plain (q_keys q) = true -> sel_plain q = true.
Proof.
  intros H. unfold sel_plain. apply forallb_forall. intros i _.
  destruct (nth_error (q_keys q) i) as [k|] eqn:N; [|reflexivity].
  rewrite forallb_forall in H. specialize (H k (nth_error_In _ _ N)). destruct k; try discriminate; reflexivity.
Qed.

(* ------------------------------------------------------------------ the groups of the reference *)
Lemma ref_gs_facts : forall keys rows ks g,
  map_opt (fun r => map_opt (fun e => eval e r) keys) rows = Some ks -> In g (ref_gs keys ks rows) ->
  (exists r0, map_opt (fun e => eval e r0) keys = Some (fst g)) /\ incl (snd g) rows.
Proof.
  intros keys rows ks g M I. destruct keys as [|k0 kt].
  - cbn [ref_gs] in I. destruct I as [<-|[]]. cbn [fst snd]. split; [exists []; reflexivity|apply incl_refl].
  - cbn [ref_gs] in I. destruct (map_opt_combine _ rows ks M) as [C1 [C2 C3]]. split.
    + assert (Ik : In (fst g) (map fst (groups_of (combine ks rows)))) by now apply in_map.
      rewrite groups_keys in Ik. apply distinct_in in Ik. apply in_map_iff in Ik as [[k r] [E Hp]].
      rewrite Forall_forall in C3. specialize (C3 _ Hp). cbn [fst snd] in *. subst k. eauto.
    + intros r Hr. apply (group_rows _ g r I) in Hr as [k' [Hp _]]. eapply in_combine_r; eauto.
Qed.

Lemma key_consistent : forall keys r0 kv, map_opt (fun e => eval e r0) keys = Some kv ->
  forall i p c, nth_error keys i = Some (ECol c) -> nth_error keys p = Some (ECol c) -> nth_error kv i = nth_error kv p.
Proof.
  intros keys r0 kv M i p c Ni Np.
  destruct (map_opt_nth _ _ _ M i _ Ni) as [y [Ey Fy]]. destruct (map_opt_nth _ _ _ M p _ Np) as [z [Ez Fz]].
  rewrite Ey, Ez. congruence.
Qed.

Lemma ref_groups_gs : forall q t rows ks,
  where_rows (q_where q) t = Some rows ->
  map_opt (fun r => map_opt (fun e => eval e r) (q_keys q)) rows = Some ks ->
  ref_groups q t = map snd (ref_gs (q_keys q) ks rows).
Proof.
  intros q t rows ks W M. unfold ref_groups, input_rows. rewrite W. destruct (q_keys q) as [|k0 kt]; [reflexivity|].
  cbn [ref_gs]. rewrite M. reflexivity.
Qed.

(* ------------------------------------------------------------------ class 0: the hypotheses of agg_fold_spec hold in every group *)
Lemma nonnull_nil_all : forall vs, nonnull vs = [] -> forall v, In v vs -> v = VNull.
Proof.
  induction vs as [|x t IH]; intros H v Hv; [destruct Hv|destruct Hv as [<-|I]].
  - unfold nonnull in H. cbn [filter] in H. destruct x; cbn in H; try discriminate; reflexivity.
  - apply IH; [|exact I]. unfold nonnull in *. cbn [filter] in H. destruct (negb (is_null x)); [discriminate|exact H].
Qed.
Lemma ints_of_nonnull_ok : forall vs, (forall v, In v vs -> v = VNull \/ exists z, v = VInt z) ->
  exists zs, ints_of (nonnull vs) = Some zs.
Proof.
  induction vs as [|x t IH]; intros H; [exists []; reflexivity|].
  destruct IH as [zs Z]; [intros v I; apply H; now right|].
  unfold nonnull in *. cbn [filter]. destruct (H x (or_introl eq_refl)) as [->|[z ->]]; cbn [is_null negb]; [eauto|].
  cbn [ints_of]. rewrite Z. cbn. eauto.
Qed.

Lemma int_sums_group : forall q t rows a grows,
  where_rows (q_where q) t = Some rows -> q_int_sums q t = true ->
  In a (q_aggs q) -> incl grows rows ->
  forall vs, map_opt (eval (a_arg a)) grows = Some vs -> int_sums (a_fn a) vs = true.
Proof.
  intros q t rows a grows W Ci Ia Inc vs M.
  assert (Hin : input_rows q t = rows) by (unfold input_rows; now rewrite W).
  assert (Hv : forall v, In v vs -> exists r, In r rows /\ eval (a_arg a) r = Some v).
  { intros v Iv. destruct (map_opt_in _ _ _ M v Iv) as [r [Ir Er]]. exists r. split; [now apply Inc|exact Er]. }
  assert (Hav : forall r, In r rows -> In (eval (a_arg a) r) (arg_vals a (input_rows q t))).
  { intros r Ir. rewrite Hin. unfold arg_vals. now apply in_map. }
  assert (Hints : match a_fn a with FSum | FAvg => True | _ => False end -> exists zs, ints_of (nonnull vs) = Some zs).
  { intros Hf. apply ints_of_nonnull_ok. intros v Iv. destruct (Hv v Iv) as [r [Ir Er]].
    unfold q_int_sums in Ci. rewrite forallb_forall in Ci. specialize (Ci a Ia).
    assert (Hall : forallb (fun o => match o with Some VNull | Some (VInt _) => true | _ => false end) (arg_vals a (input_rows q t)) = true)
      by (destruct (a_fn a); try contradiction; exact Ci).
    rewrite forallb_forall in Hall. specialize (Hall _ (Hav r Ir)). rewrite Er in Hall.
    destruct v; try discriminate; eauto. }
  destruct (a_fn a) eqn:Fn; cbn [int_sums]; try reflexivity.
  - destruct (Hints I) as [zs Z]. now rewrite Z.
  - destruct (Hints I) as [zs Z]. now rewrite Z.
Qed.

(* ------------------------------------------------------------------ the pipeline over the groups *)
(* a group against its reference environment *)
Definition GR (q : aquery) (g : list value * list row) (env : row) : Prop :=
  exists vs, env = fst g ++ vs /\ length (fst g) = length (q_keys q) /\
             Forall2 (fun a v => frun (mfn_of a) (snd g) = v) (q_aggs q) vs /\
             (forall i p c, nth_error (q_keys q) i = Some (ECol c) -> nth_error (q_keys q) p = Some (ECol c) ->
                            nth_error (fst g) i = nth_error (fst g) p).

Section Pipeline.
  Variable q : aquery.
  Hypothesis Hkeys : forallb is_plain (q_keys q) = true.
  Hypothesis Haggs : forallb ok_agg (q_aggs q) = true.
  Let engine := engine_aggs q.
  Let fs := map mfn_of engine.

  Lemma project_all_ok : forall gs envs out,
    Forall2 (GR q) gs envs -> map_opt (project (q_sel q)) envs = Some out ->
    project_all q engine (map (garow fs) gs) = SOk out.
  Proof.
    intros gs envs out H. revert out. induction H as [|g env gs envs Hg Ht IH]; intros out M; cbn [map_opt] in M; cbn [map project_all].
    - injection M as <-. reflexivity.
    - destruct (project (q_sel q) env) as [o|] eqn:Po; [|discriminate].
      destruct (map_opt (project (q_sel q)) envs) as [rest|] eqn:Mr; [|discriminate]. injection M as <-.
      rewrite (sel_plain_keys q Hkeys). destruct Hg as [vs [-> [Hl [HV HKC]]]]. unfold project in Po.
      assert (Hhead : project_pos q engine (garow fs g) (q_sel q) O = SOk o).
      { unfold garow, fs, engine.
        exact (project_same q Hkeys Haggs (fst g) (snd g) vs Hl HV HKC (q_sel q) O o (fun i Hi => Hi) Po). }
      rewrite Hhead. cbn [sbind]. rewrite (IH rest eq_refl). reflexivity.
  Qed.

  Lemma having_filter_ok : forall h gs envs,
    (forall i, In i (cols_of h) -> Nat.ltb i (length (q_keys q)) = true \/
       (forall a, nth_error (q_aggs q) (i - length (q_keys q)) = Some a ->
                  plain_agg a = true /\
                  (a_fn a = FCountStar -> forall b, In b engine -> a_fn b = FCount -> plain_agg b = true) /\
                  exists a', In a' engine /\ name_eqb (agg_name a) (agg_name a') = true)) ->
    Forall2 (GR q) gs envs -> defined_on h envs = true ->
    exists gs', having_filter q engine h (map (garow fs) gs) = SOk (map (garow fs) gs') /\
                Forall2 (GR q) gs' (filter_spec h envs).
  Proof.
    intros h gs envs Hall H. induction H as [|g env gs envs Hg Ht IH]; intros D; cbn [map having_filter].
    - exists []. split; [reflexivity|constructor].
    - unfold defined_on in D. cbn [forallb] in D. apply andb_true_iff in D as [D1 D2].
      destruct (IH D2) as [gs' [E R]]. rewrite E.
      destruct Hg as [vs [Ee [Hl [HV HKC]]]].
      assert (Henv : env_row q engine (garow fs g) = SOk (map (ebn q (fst g) (snd g)) (seq O (length (q_keys q) + length (q_aggs q))))).
      { unfold garow, fs, engine. exact (env_row_spec q Hkeys (fst g) (snd g) vs Hl HKC). }
      rewrite Henv. cbn [sbind].
      rewrite (having_same q Hkeys (fst g) (snd g) vs Hl HV HKC h Hall). rewrite <- Ee.
      unfold filter_spec. cbn [filter]. unfold passes at 1.
      destruct (sem3 h env) as [[| |]|]; try discriminate.
      + exists (g :: gs'). split; [reflexivity|]. constructor; [exists vs; auto|exact R].
      + exists gs'. split; [reflexivity|exact R].
      + exists gs'. split; [reflexivity|exact R].
  Qed.
End Pipeline.

(* ------------------------------------------------------------------ the theorem *)
(* HAVING finds its aggregates by name: every aggregate it mentions is over a plain column (or is
   COUNT( * )), and if it mentions COUNT( * ), no COUNT over an expression is among the aggregates *)
Definition having_names_ok (q : aquery) : Prop :=
  forall h i a, q_having q = Some h -> In i (cols_of h) -> Nat.ltb i (length (q_keys q)) = false ->
    nth_error (q_aggs q) (i - length (q_keys q)) = Some a ->
    plain_agg a = true /\ (a_fn a = FCountStar -> forall b, In b (q_aggs q) -> a_fn b = FCount -> plain_agg b = true).

(* outside class 9 (with plain keys) HAVING finds its aggregates *)
Lemma class0_having_names : forall q t, forallb is_plain (q_keys q) = true -> q_class q t = 0 -> having_names_ok q.
Proof.
  intros q t Hk C. unfold q_class in C. destruct (cls_key_expr q); [discriminate|].
  destruct (cls_arg_expr q) eqn:C9; [discriminate|]. clear C.
  unfold cls_arg_expr in C9. apply orb_false_iff in C9 as [C9 _].
  intros h i a Hh Hi L Na. unfold having_cols in C9. rewrite Hh in C9.
  assert (B : forall x, In x (cols_of h) ->
    negb (Nat.ltb x (length (q_keys q))) &&
    match nth_error (q_aggs q) (x - length (q_keys q)) with
    | Some a0 => nonplain_agg a0 || match a_fn a0 with FCountStar => count_expr q | _ => false end
    | None => false
    end = false).
  { intros x Hx. destruct (_ && _) eqn:E; [|reflexivity]. exfalso.
    assert (existsb (fun i0 => negb (Nat.ltb i0 (length (q_keys q))) &&
      match nth_error (q_aggs q) (i0 - length (q_keys q)) with
      | Some a0 => nonplain_agg a0 || match a_fn a0 with FCountStar => count_expr q | _ => false end
      | None => false
      end) (cols_of h) = true) by (apply existsb_exists; eauto). congruence. }
  specialize (B i Hi). rewrite L, Na in B. cbn [negb andb] in B. apply orb_false_iff in B as [B1 B2]. split.
  - unfold nonplain_agg in B1. unfold plain_agg. destruct (a_fn a); auto; now apply negb_false_iff in B1.
  - intros Hs b Ib Fb. rewrite Hs in B2. unfold count_expr in B2. unfold plain_agg. rewrite Fb.
    destruct (is_plain (a_arg b)) eqn:Pb; [reflexivity|]. exfalso.
    assert (existsb (fun a0 => match a_fn a0 with FCount => negb (is_plain (a_arg a0)) | _ => false end) (q_aggs q) = true)
      by (apply existsb_exists; exists b; split; [exact Ib|now rewrite Fb, Pb]). congruence.
Qed.

Theorem query_correct_expression_arguments_names : forall q t rs,
  forallb is_plain (q_keys q) = true -> forallb ok_agg (q_aggs q) = true -> having_names_ok q ->
  q_int_sums q t = true ->
  spec_query q t = SRows rs -> model_query q t = MRows rs.
Proof.
  intros q t rs Hkeys Haggs Hhav Ci S.
  (* the reference *)
  unfold spec_query in S.
  destruct (where_rows (q_where q) t) as [rows|] eqn:W; [|discriminate].
  destruct (map_opt (fun r => map_opt (fun k => eval k r) (q_keys q)) rows) as [ks|] eqn:M; [|discriminate].
  destruct (key_cols_ok (length (q_keys q)) ks) eqn:K; cbn [negb] in S; [|discriminate].
  change (match q_keys q with [] => [([], rows)] | _ :: _ => groups_of (combine ks rows) end) with (ref_gs (q_keys q) ks rows) in S.
  set (gs := ref_gs (q_keys q) ks rows) in *.
  destruct (group_envs (q_aggs q) gs) as [[envs|]|] eqn:G; try discriminate.
  destruct (having_ok (q_having q) envs) eqn:HO; cbn [negb] in S; [|discriminate].
  destruct (map_opt (project (q_sel q)) (having_rows (q_having q) envs)) as [out|] eqn:P; [|discriminate].
  injection S as <-.
  (* every group against its environment *)
  assert (R : Forall2 (GR q) gs envs).
  { pose proof (group_envs_spec _ _ _ G) as F.
    assert (Hg : forall g, In g gs -> (exists r0, map_opt (fun e => eval e r0) (q_keys q) = Some (fst g)) /\ incl (snd g) rows)
      by (intros g Ig; apply (ref_gs_facts _ _ _ _ M Ig)).
    assert (Hr : forall g, In g gs -> In (snd g) (ref_groups q t))
      by (intros g Ig; rewrite (ref_groups_gs q t rows ks W M); now apply in_map).
    clearbody gs. clear G P HO. induction F as [|g env gs envs [vs [Ee Fv]] Ft IH]; [constructor|].
    constructor; [|apply IH; intros g' Ig'; [apply Hg|apply Hr]; now right].
    destruct (Hg g (or_introl eq_refl)) as [[r0 Hk] Inc]. specialize (Hr g (or_introl eq_refl)).
    exists vs. split; [exact Ee|]. split; [now apply map_opt_length in Hk|]. split; [|exact (key_consistent _ _ _ Hk)].
    apply (Forall2_impl_in _ _ _ _ Fv). intros a v Ia Sa.
    assert (Pa : ok_agg a = true) by (rewrite forallb_forall in Haggs; now apply Haggs).
    apply (agg_frun_spec_expr a (snd g) v (ok_agg_or a Pa) Sa). intros vs0 M0.
    apply (int_sums_group q t rows a (snd g) W Ci Ia Inc vs0 M0). }
  (* the folds get through *)
  assert (Hf : forall g, In g gs -> folds_ok (map mfn_of (engine_aggs q)) (snd g)).
  { intros g Ig f Hfm. apply in_map_iff in Hfm as [a [<- Ia]]. apply engine_from in Ia.
    assert (Ig' : In g (ref_gs (q_keys q) ks rows)) by exact Ig.
    pose proof (group_envs_spec _ _ _ G) as F.
    assert (Hex : exists env, exists vs, env = fst g ++ vs /\ Forall2 (fun a v => agg_spec a (snd g) = AVal v) (q_aggs q) vs).
    { clear -F Ig. induction F as [|g0 env gs0 envs0 Hg0 Ft IH]; [destruct Ig|]. destruct Ig as [<-|Ig]; [eauto|now apply IH]. }
    destruct Hex as [env [vs [_ Fv]]].
    destruct (In_nth_error _ _ Ia) as [n Hn]. destruct (Forall2_nth _ _ _ Fv _ _ Hn) as [v [_ Sa]].
    assert (Pa : ok_agg a = true) by (rewrite forallb_forall in Haggs; now apply Haggs).
    destruct (ref_gs_facts _ _ _ _ M Ig') as [_ Inc].
    assert (Hr : In (snd g) (ref_groups q t)) by (rewrite (ref_groups_gs q t rows ks W M); now apply in_map).
    destruct (agg_frun_spec_expr a (snd g) v (ok_agg_or a Pa) Sa) as [Hs _]; [|exact Hs].
    intros vs0 M0. apply (int_sums_group q t rows a (snd g) W Ci Ia Inc vs0 M0). }
  (* the model *)
  unfold model_query, model_steps. rewrite W.
  rewrite (agg_rows_groups (q_keys q) (map mfn_of (engine_aggs q)) rows ks); [|rewrite all_plain_iff; exact Hkeys|exact M|exact K|exact Hf].
  fold gs. cbn [sbind].
  destruct (q_having q) as [h|] eqn:Hh.
  - cbn [having_ok having_rows] in HO, P.
    assert (Hall : forall i, In i (cols_of h) -> Nat.ltb i (length (q_keys q)) = true \/
       (forall a, nth_error (q_aggs q) (i - length (q_keys q)) = Some a ->
                  plain_agg a = true /\
                  (a_fn a = FCountStar -> forall b, In b (engine_aggs q) -> a_fn b = FCount -> plain_agg b = true) /\
                  exists a', In a' (engine_aggs q) /\ name_eqb (agg_name a) (agg_name a') = true)).
    { intros i Hi. destruct (Nat.ltb i (length (q_keys q))) eqn:L; [now left|right]. intros a Na.
      destruct (Hhav h i a Hh Hi L Na) as [Pa Hstar]. split; [exact Pa|]. split.
      - intros Hs b Ib Fb. apply (Hstar Hs b); [now apply engine_from|exact Fb].
      - pose proof (having_aggs_in q h i a Hh Hi L Na) as Ih.
        destruct (add_new_extra (having_aggs q) (sel_aggs q) a Ih) as [a' [Ia' [->|Ea]]].
        + exists a. split; [exact Ia'|now apply name_refl].
        + exists a'. split; [exact Ia'|now apply agg_eqb_name]. }
    destruct (having_filter_ok q Hkeys h gs envs Hall R HO) as [gs' [E R']].
    rewrite E. cbn [sbind]. now rewrite (project_all_ok q Hkeys Haggs gs' _ out R' P).
  - cbn [having_rows] in P. cbn [sbind]. now rewrite (project_all_ok q Hkeys Haggs gs envs out R P).
Qed.

(* ... stated with the class: plain-column keys, aggregates over the expression fragment, outside class 9 *)
Theorem query_correct_expression_arguments : forall q t rs,
  forallb is_plain (q_keys q) = true -> forallb ok_agg (q_aggs q) = true -> q_class q t = 0 ->
  q_int_sums q t = true ->
  spec_query q t = SRows rs -> model_query q t = MRows rs.
Proof.
  intros q t rs Hkeys Haggs C. apply query_correct_expression_arguments_names; auto.
  now apply (class0_having_names q t).
Qed.
