(* C30 proofs, part 5: totality.  For ANY list of keys (sorted or not, any byte values) and any probe the
   model of find_key_simd terminates within its fuel and never takes a Panic branch (no usize underflow,
   no read outside the slot array) - on both CPU paths.  So the Done results asserted by the correctness
   theorems are not an artefact of fuel, and the malformed-page stream of the correspondence run has a
   defined model outcome. *)
From Coq Require Import ZArith List Bool Lia ZifyBool.
From TV Require Import Lib.MachInt Lib.MachIntFacts Model.LeafSearch
  Proof.LeafSearchLex Proof.LeafSearchBase Proof.LeafSearchMask.
Import ListNotations.
Open Scope Z_scope.
Ltac Zify.zify_post_hook ::= Z.to_euclidean_division_equations.
Arguments Z.div : simpl never.
Arguments Z.modulo : simpl never.
Arguments Z.pow : simpl never.
Arguments Z.mul : simpl never.
Arguments Z.add : simpl never.
Arguments Z.sub : simpl never.
Arguments Z.of_nat : simpl never.
Arguments Z.to_nat : simpl never.

Definition in_bounds (n l r : Z) : Prop := 0 <= l /\ l <= r /\ r <= n.

Lemma avx2_loop_total ps t : forall fuel l r, in_bounds (klen ps) l r -> (Z.to_nat (r - l) < fuel)%nat ->
  exists l' r', avx2_loop fuel ps t (klen ps) l r = Done (l', r') /\ in_bounds (klen ps) l' r'.
Proof.
  induction fuel as [|f IH]; intros l r Hb Hf; [lia|].
  pose proof Hb as (Hl & Hlr & Hr).
  cbn [avx2_loop].
  destruct (Z.ltb_spec r l) as [C|_]; [lia|].
  destruct (Z.ltb_spec (r - l) 8) as [C|Hge].
  { exists l, r. split; [reflexivity | exact Hb]. }
  cbv zeta.
  pose proof (batch_start_bounds l r Hl Hge) as Hbs. set (bs := batch_start l r) in *.
  destruct (Z.ltb_spec (klen ps) (bs + 8)) as [C|_]; [lia|].
  destruct (read_lanes_ok 8 ps bs) as (lanes & Hread & Hlen & _); [lia | lia |].
  rewrite Hread.
  set (lt := map (lane_lt t) lanes). set (eq := map (lane_eq t) lanes).
  assert (Hlt : length lt = 8%nat) by (unfold lt; rewrite map_length; exact Hlen).
  assert (Heq : length eq = 8%nat) by (unfold eq; rewrite map_length; exact Hlen).
  destruct (all_true lt) eqn:Eall.
  { apply IH; [unfold in_bounds; lia | lia]. }
  destruct (none_true lt && none_true eq) eqn:Enone.
  { apply IH; [unfold in_bounds; lia | lia]. }
  destruct (leading_trues_spec lt) as (Hf1 & _ & _).
  pose proof (all_true_false_leading lt Eall) as Hf4. rewrite Hlt in *.
  set (fge := leading_trues lt) in *.
  destruct (none_true eq) eqn:Eeq.
  { eexists _, _. split; [reflexivity|]. unfold in_bounds. destruct (Z.ltb_spec 0 fge); lia. }
  eexists _, _. split; [reflexivity|].
  pose proof (first_true_spec eq) as Hfe.
  destruct (last_true_spec eq Eeq) as (Hle & _ & _). rewrite Heq in *.
  unfold in_bounds. destruct (Z.ltb_spec 0 fge); destruct (Z.eqb_spec (last_true eq) 7); lia.
Qed.

Lemma scalar_loop_total ps t : forall fuel l r, in_bounds (klen ps) l r -> (Z.to_nat (r - l) < fuel)%nat ->
  exists l' r' e, scalar_loop fuel ps t l r = Done (l', r', e) /\ in_bounds (klen ps) l' r'.
Proof.
  induction fuel as [|f IH]; intros l r Hb Hf; [lia|].
  pose proof Hb as (Hl & Hlr & Hr).
  cbn [scalar_loop].
  destruct (Z.ltb_spec r l) as [C|_]; [lia|].
  destruct (Z.ltb_spec (r - l) 4) as [C|Hge].
  { exists l, r, 0. split; [reflexivity | exact Hb]. }
  set (m := l + (r - l) / 2). assert (Hm : l <= m < r) by (unfold m; lia).
  rewrite (zth_in ps m 0) by lia.
  destruct (nth (Z.to_nat m) ps 0 ?= t).
  - exists l, r, 1. split; [reflexivity | exact Hb].
  - apply IH; [unfold in_bounds; lia | lia].
  - apply IH; [unfold in_bounds; lia | lia].
Qed.

Lemma final_loop_total keys k t : forall fuel l r, 0 <= l -> r <= klen keys -> (Z.to_nat (r - l) < fuel)%nat ->
  exists s, final_loop fuel keys k t l r = Done s.
Proof.
  induction fuel as [|f IH]; intros l r Hl Hr Hf; [lia|].
  cbn [final_loop].
  destruct (Z.ltb_spec l r) as [Hlr|Hlr]; [|eexists; reflexivity].
  set (m := l + (r - l) / 2). assert (Hm : l <= m < r) by (unfold m; lia).
  rewrite (zth_keys keys m) by lia.
  destruct (prefix_of (kat keys m) ?= t).
  - destruct (lex_cmp (kat keys m) k).
    + eexists; reflexivity.
    + apply IH; lia.
    + apply IH; lia.
  - apply IH; lia.
  - apply IH; lia.
Qed.

Lemma klen_prefixes' keys : klen (prefixes keys) = klen keys.
Proof. unfold prefixes. apply klen_map. Qed.

Lemma find_key_total_l : forall avx2 keys k, exists s, find_key avx2 keys k = Done s.
Proof.
  intros avx2 keys k.
  pose proof (klen_nonneg keys) as Hnn.
  assert (Hfull : in_bounds (klen (prefixes keys)) 0 (klen (prefixes keys))).
  { rewrite klen_prefixes'. unfold in_bounds. lia. }
  assert (Hfuel : (Z.to_nat (klen (prefixes keys) - 0) < S (length (prefixes keys)))%nat).
  { unfold klen. lia. }
  unfold find_key. destruct avx2; unfold find_avx2, find_scalar, find_with, find_with_ps.
  - destruct (Z.eqb_spec (klen keys) 0) as [E|N]; [eexists; reflexivity|].
    unfold avx2_narrow. cbv zeta.
    destruct (Z.eqb_spec (klen (prefixes keys)) 0) as [C|_]; [rewrite klen_prefixes' in C; lia|].
    destruct (avx2_loop_total (prefixes keys) (prefix_of k) _ 0 (klen (prefixes keys)) Hfull Hfuel)
      as (l & r & Hrun & (B1 & B2 & B3)).
    rewrite Hrun. rewrite klen_prefixes' in B3.
    apply final_loop_total; [lia | lia | unfold klen in *; lia].
  - destruct (Z.eqb_spec (klen keys) 0) as [E|N]; [eexists; reflexivity|].
    unfold scalar_narrow2, scalar_narrow. cbv zeta.
    destruct (Z.eqb_spec (klen (prefixes keys)) 0) as [C|_]; [rewrite klen_prefixes' in C; lia|].
    destruct (scalar_loop_total (prefixes keys) (prefix_of k) _ 0 (klen (prefixes keys)) Hfull Hfuel)
      as (l & r & e & Hrun & (B1 & B2 & B3)).
    rewrite Hrun. rewrite klen_prefixes' in B3.
    apply final_loop_total; [lia | lia | unfold klen in *; lia].
Qed.
