//! C30 vectorized leaf search: real leaf pages are built with `LeafNodeMut` (sorted keys appended with
//! `insert_at_end`), probed with `LeafNode::find_key`, and the public scalar narrowing
//! `simd_prefix_search_scalar` is called on the same page (the CPU here has AVX2, so `find_key` never
//! takes the scalar branch on its own).  One case = one page + a list of probes with what was observed.
//!
//! replay line:  page keys=x<hex>,x<hex>,... probes=x<hex>,...      (x = empty key; order as given)
use tvh::*;
use turdb::btree::simd_scan::simd_prefix_search_scalar;
use turdb::btree::{extract_prefix, LeafNode, LeafNodeMut, SearchResult};

const PAGE: usize = 16384;

type Key = Vec<u8>;

#[derive(Clone)]
struct Obs {
    res: String,          // Coq term of the find_key outcome
    found: Option<(bool, usize)>, // (is_found, index) if no panic
    scalar: Option<(usize, usize, u32)>,
}

fn build_page(keys: &[Key]) -> Option<Vec<u8>> {
    let mut page = vec![0u8; PAGE];
    {
        let mut leaf = LeafNodeMut::init(&mut page).ok()?;
        for k in keys {
            leaf.insert_at_end(k, b"").ok()?;
        }
    }
    Some(page)
}

fn probe(page: &[u8], n: usize, k: &[u8]) -> Obs {
    let p = page.to_vec();
    let kk = k.to_vec();
    let r = catch(move || {
        let leaf = LeafNode::from_page(&p).expect("leaf page");
        leaf.find_key(&kk)
    });
    let (res, found) = match r {
        Caught::Done(SearchResult::Found(i)) => (format!("RFound {}", i), Some((true, i))),
        Caught::Done(SearchResult::NotFound(i)) => (format!("RNotFound {}", i), Some((false, i))),
        Caught::Panicked(_) => ("RPanic".to_string(), None),
    };
    let p2 = page.to_vec();
    let t = u32::from_be_bytes(extract_prefix(k));
    let scalar = match catch(move || simd_prefix_search_scalar(&p2, t, n)) {
        Caught::Done(x) => Some(x),
        Caught::Panicked(_) => None,
    };
    Obs { res, found, scalar }
}

/// plain binary search over the (sorted) keys: the property's oracle
fn oracle(keys: &[Key], k: &[u8]) -> (bool, usize) {
    let (mut lo, mut hi) = (0usize, keys.len());
    while lo < hi {
        let mid = lo + (hi - lo) / 2;
        match keys[mid].as_slice().cmp(k) {
            std::cmp::Ordering::Equal => return (true, mid),
            std::cmp::Ordering::Less => lo = mid + 1,
            std::cmp::Ordering::Greater => hi = mid,
        }
    }
    (false, lo)
}

fn strictly_sorted(keys: &[Key]) -> bool { keys.windows(2).all(|w| w[0] < w[1]) }

fn common_prefix(a: &[u8], b: &[u8]) -> usize {
    a.iter().zip(b.iter()).take_while(|(x, y)| x == y).count().min(255)
}
/// `256 * 0x1<suffix> + shared` in decimal (decoded by Corr.C30.unpack)
fn pack(shared: usize, suffix: &[u8]) -> String {
    assert!(shared <= 255);
    let mut digits: Vec<u8> = vec![1];            // little-endian base-10 digits of the number built so far
    for b in suffix.iter().chain(std::iter::once(&(shared as u8))) {
        let mut carry = *b as u32;
        for d in digits.iter_mut() { let v = (*d as u32) * 256 + carry; *d = (v % 10) as u8; carry = v / 10; }
        while carry > 0 { digits.push((carry % 10) as u8); carry /= 10; }
    }
    digits.iter().rev().map(|d| (b'0' + d) as char).collect()
}
/// keys front-coded against the previous key
fn ckeys(keys: &[Key]) -> String {
    let mut v: Vec<String> = vec![];
    let mut prev: &[u8] = &[];
    for k in keys {
        let sh = common_prefix(prev, k);
        v.push(pack(sh, &k[sh..]));
        prev = k;
    }
    clist(&v)
}
/// a probe front-coded against the key next to its position
fn cprobe(keys: &[Key], p: &[u8]) -> String {
    let (_, pos) = oracle_any(keys, p);
    let mut best: (i64, usize) = (-1, 0);
    for j in [pos as i64 - 1, pos as i64] {
        if j >= 0 && (j as usize) < keys.len() {
            let sh = common_prefix(&keys[j as usize], p);
            if sh > best.1 { best = (j, sh); }
        }
    }
    format!("{},{}", z(best.0), pack(best.1, &p[best.1..]))
}
/// position used only to pick a base key for the encoding (keys need not be sorted)
fn oracle_any(keys: &[Key], k: &[u8]) -> (bool, usize) {
    if keys.is_empty() { (false, 0) } else { oracle(keys, k) }
}
fn xkeys(keys: &[Key]) -> String {
    let v: Vec<String> = keys.iter().map(|k| format!("x{}", hex(k))).collect();
    v.join(",")
}
fn parse_xkeys(s: &str) -> Vec<Key> {
    s.split(',').filter(|p| !p.is_empty()).map(|p| unhex(p.trim_start_matches('x'))).collect()
}
fn replay_line(keys: &[Key], probes: &[Key]) -> String {
    format!("page keys={} probes={}", xkeys(keys), xkeys(probes))
}
fn parse_replay(l: &str) -> Option<(Vec<Key>, Vec<Key>)> {
    let r = l.trim().strip_prefix("page keys=")?;
    let mut it = r.splitn(2, " probes=");
    let ks = it.next()?;
    let ps = it.next().unwrap_or("");
    let ps = ps.split_whitespace().next().unwrap_or("");
    Some((parse_xkeys(ks), parse_xkeys(ps)))
}

// ------------------------------------------------------------------ key-set generators
fn be4(p: u32) -> Vec<u8> { p.to_be_bytes().to_vec() }

fn rand_suffix(rng: &mut Rng, small: bool) -> Vec<u8> {
    let len = rng.below(5) as usize;
    (0..len).map(|_| if small { *rng.pick(&[0u8, 0, 1, 2, 255]) } else { rng.next() as u8 }).collect()
}

/// a set of keys with `np` distinct 4-byte prefixes, about `n` keys in total
fn gen_prefix_runs(rng: &mut Rng, n: usize, np: usize, high: bool) -> Vec<Key> {
    let mut prefixes: Vec<u32> = vec![];
    let base: u32 = if high { 0x7fff_fffd } else { (rng.next() as u32) & 0xffff_ff00 };
    for i in 0..np {
        let p = match rng.below(4) {
            0 => base.wrapping_add(i as u32),
            1 => base.wrapping_add((i as u32) << 8),
            2 => rng.next() as u32,
            _ => base.wrapping_add(rng.below(16) as u32),
        };
        prefixes.push(p);
    }
    let mut keys: Vec<Key> = vec![];
    for _ in 0..n {
        let mut k = be4(*rng.pick(&prefixes));
        let style = rng.below(3);
        match style {
            0 => k.extend_from_slice(&((rng.below(1000) as u32).to_be_bytes())),
            1 => k.extend_from_slice(&rand_suffix(rng, true)),
            _ => k.extend_from_slice(&rand_suffix(rng, false)),
        }
        keys.push(k);
    }
    keys.sort();
    keys.dedup();
    keys
}

fn gen_short(rng: &mut Rng, n: usize) -> Vec<Key> {
    let alpha: &[u8] = if rng.chance(1, 2) { &[0, 1, 255] } else { &[0, 0x7f, 0x80, 0x61] };
    let mut keys: Vec<Key> = vec![];
    for _ in 0..n {
        let len = rng.below(7) as usize;
        keys.push((0..len).map(|_| *rng.pick(alpha)).collect());
    }
    keys.sort();
    keys.dedup();
    keys
}

fn gen_distinct(rng: &mut Rng, n: usize) -> Vec<Key> {
    let mut keys: Vec<Key> = vec![];
    for _ in 0..n {
        let len = 4 + rng.below(5) as usize;
        keys.push(rng.bytes(len));
    }
    keys.sort();
    keys.dedup();
    keys
}

fn gen_counter(rng: &mut Rng, n: usize) -> Vec<Key> {
    let step = 1 + rng.below(3);
    let start = if rng.chance(1, 2) { 0 } else { rng.below(1 << 34) };
    (0..n as u64).map(|i| (start + i * step).to_be_bytes().to_vec()).collect()
}

/// runs whose boundaries are placed around multiples of 4/8 and around the middle
fn gen_boundary(rng: &mut Rng, n: usize) -> Vec<Key> {
    let mut cuts: Vec<usize> = vec![];
    let ncuts = 1 + rng.below(3) as usize;
    for _ in 0..ncuts {
        let anchor = match rng.below(4) { 0 => n / 2, 1 => 8 * (rng.below(1 + n as u64 / 8) as usize), 2 => n.saturating_sub(8), _ => rng.below(1 + n as u64) as usize };
        let d = rng.range(-5, 5);
        cuts.push((anchor as i64 + d).clamp(0, n as i64) as usize);
    }
    cuts.sort();
    let mut keys: Vec<Key> = vec![];
    let mut p: u32 = if rng.chance(1, 3) { 0x7fff_fffe } else { 0x6161_6100 + rng.below(200) as u32 };
    let mut ci = 0;
    for i in 0..n {
        while ci < cuts.len() && cuts[ci] == i { p = p.wrapping_add(1 + rng.below(2) as u32); ci += 1; }
        let mut k = be4(p);
        k.extend_from_slice(&(i as u16).to_be_bytes());
        keys.push(k);
    }
    keys.sort();
    keys.dedup();
    keys
}

fn pick_size(rng: &mut Rng) -> usize {
    match rng.below(10) {
        0 => rng.below(8) as usize,
        1 => 8 + rng.below(3) as usize,
        2 => *rng.pick(&[15usize, 16, 17, 23, 24, 25, 31, 32, 33, 63, 64, 65]),
        3 | 4 | 5 => 9 + rng.below(60) as usize,
        6 | 7 => 60 + rng.below(140) as usize,
        _ => 200 + rng.below(220) as usize,
    }
}

fn gen_keys(rng: &mut Rng) -> (Vec<Key>, &'static str) {
    let n = pick_size(rng);
    match rng.below(16) {
        0 | 1 => (gen_prefix_runs(rng, n, 1, false), "same_prefix"),
        2 | 3 | 4 => { let np = 2 + rng.below(4) as usize; (gen_prefix_runs(rng, n, np, false), "few_prefixes") }
        5 => { let np = 2 + rng.below(4) as usize; (gen_prefix_runs(rng, n, np, true), "high_bit_prefixes") }
        6 => { let np = 1 + n / 3; (gen_prefix_runs(rng, n, np, false), "many_prefixes") }
        7 | 8 => (gen_short(rng, n), "short_keys"),
        9 | 10 => (gen_distinct(rng, n), "distinct_prefixes"),
        11 => (gen_counter(rng, n), "u64_counter"),
        _ => (gen_boundary(rng, n), "boundary_runs"),
    }
}

fn mutate_key(rng: &mut Rng, k: &Key) -> Key {
    let mut m = k.clone();
    match rng.below(6) {
        0 => { m.push(0); }
        1 => { m.pop(); }
        2 => { if let Some(l) = m.last_mut() { *l = l.wrapping_add(1); } else { m.push(1); } }
        3 => { if let Some(l) = m.last_mut() { *l = l.wrapping_sub(1); } }
        4 => { m.truncate(4); }
        _ => { m.truncate(4); let s = rand_suffix(rng, true); m.extend_from_slice(&s); }
    }
    m
}

fn gen_probes(rng: &mut Rng, keys: &[Key], want: usize) -> Vec<Key> {
    let mut ps: Vec<Key> = vec![];
    let n = keys.len();
    if n == 0 {
        ps.push(vec![]); ps.push(vec![0]); ps.push(rng.bytes(5));
        return ps;
    }
    if n <= want / 2 {
        for k in keys { ps.push(k.clone()); }
    } else {
        ps.push(keys[0].clone());
        ps.push(keys[n - 1].clone());
        for _ in 0..want / 2 { ps.push(keys[rng.below(n as u64) as usize].clone()); }
    }
    while ps.len() < want {
        let k = &keys[rng.below(n as u64) as usize];
        if rng.chance(1, 8) { let l = rng.below(9) as usize; ps.push(rng.bytes(l)); }
        else { ps.push(mutate_key(rng, k)); }
    }
    ps.push(vec![]);
    ps.push(vec![0xff; 9]);
    ps
}

// ------------------------------------------------------------------ emitting one case
fn emit(w: &mut CaseWriter, bytes_in_shard: &mut usize, avx2: bool, keys: &[Key], probes: &[Key], kind: &str) {
    let page = match build_page(keys) { Some(p) => p, None => { w.count("skipped_page_full", 1); return; } };
    let n = keys.len();
    let mut items: Vec<String> = vec![];
    let mut tie = false;
    for p in probes {
        let o = probe(&page, n, p);
        let sc = match o.scalar { Some((l, r, e)) => format!("SOk {} {} {}", l, r, e), None => "SPanic".to_string() };
        items.push(format!("({},{},{})", cprobe(keys, p), o.res, sc));
        let t = extract_prefix(p);
        if keys.iter().filter(|k| extract_prefix(k) == t).count() >= 2 { tie = true; }
    }
    let term = format!("Pg {} {} {}", cbool(avx2), ckeys(keys), clist(&items));
    *bytes_in_shard += term.len();
    let nontrivial = n >= 8 && tie && strictly_sorted(keys);
    w.push(term, replay_line(keys, probes), nontrivial, kind);
    if *bytes_in_shard > 60_000 { w.flush(); *bytes_in_shard = 0; }
}

fn avx2_here() -> bool {
    #[cfg(target_arch = "x86_64")]
    { return is_x86_feature_detected!("avx2"); }
    #[allow(unreachable_code)]
    false
}

fn small_alphabet_keys() -> Vec<Key> {
    // 3 prefixes x 4 suffixes (suffix "" , 00, 01, ff)
    let mut all: Vec<Key> = vec![];
    for p in [0x6161_6161u32, 0x6161_6162, 0x8000_0000] {
        for s in [&[][..], &[0u8][..], &[1u8][..], &[0xffu8][..]] {
            let mut k = be4(p); k.extend_from_slice(s); all.push(k);
        }
    }
    all.sort();
    all
}

fn gen(a: &Args) {
    let mut rng = Rng::new(a.seed);
    let mut w = CaseWriter::new(&a.out, "C30", "Corr.C30", 400);
    let avx2 = avx2_here();
    let mut sz = 0usize;
    if let Some(lines) = a.replay_lines() {
        for l in lines {
            if let Some((keys, probes)) = parse_replay(&l) { emit(&mut w, &mut sz, avx2, &keys, &probes, "replay"); }
        }
        w.finish(&[("avx2_path".to_string(), cbool(avx2).to_string())]);
        return;
    }
    // ---- fixed boundary pages: one prefix, sizes around the batch width; two prefixes with the run
    //      boundary at every position
    for n in [0usize, 1, 2, 3, 4, 5, 7, 8, 9, 10, 12, 15, 16, 17, 24, 31, 32, 33, 40, 64, 100] {
        let keys: Vec<Key> = (0..n).map(|i| { let mut k = b"aaaa".to_vec(); k.extend_from_slice(format!("{:04}", i).as_bytes()); k }).collect();
        let mut probes: Vec<Key> = keys.clone();
        probes.push(b"aaaa".to_vec()); probes.push(b"aaab".to_vec()); probes.push(b"aaa".to_vec()); probes.push(b"aaaa00005".to_vec());
        emit(&mut w, &mut sz, avx2, &keys, &probes, "fixed_same_prefix");
    }
    let two: &[usize] = if a.thorough() { &[8, 9, 10, 12, 15, 16, 17, 24, 31, 32, 33, 48] } else { &[8, 9, 16, 17] };
    for &n in two {
        for cut in 0..=n {
            let keys: Vec<Key> = (0..n).map(|i| { let mut k = if i < cut { b"aaaa".to_vec() } else { b"aaab".to_vec() }; k.push(i as u8); k }).collect();
            let mut probes: Vec<Key> = keys.clone();
            probes.push(b"aaaa".to_vec()); probes.push(b"aaab".to_vec()); probes.push(b"aaac".to_vec()); probes.push(b"aaa".to_vec());
            emit(&mut w, &mut sz, avx2, &keys, &probes, "fixed_two_prefixes");
        }
    }
    // ---- structured random pages
    let (pages, probes_per) = if a.thorough() { (3000, 40) } else { (170, 20) };
    for _ in 0..pages {
        let (keys, kind) = gen_keys(&mut rng);
        let probes = gen_probes(&mut rng, &keys, probes_per);
        emit(&mut w, &mut sz, avx2, &keys, &probes, kind);
    }
    // ---- exhaustive: every subset of a 12-key small alphabet (thorough), a slice of them (quick)
    let alpha = small_alphabet_keys();
    let mut all_probes = alpha.clone();
    all_probes.push(b"aaa".to_vec()); all_probes.push(vec![0x80, 0, 0, 0, 0, 0]); all_probes.push(vec![0xff]);
    let step = if a.thorough() { 1 } else { 97 };
    let mut m = 0u32;
    while m < (1 << 12) {
        let keys: Vec<Key> = (0..12).filter(|i| m & (1 << i) != 0).map(|i| alpha[i].clone()).collect();
        emit(&mut w, &mut sz, avx2, &keys, &all_probes, "small_alphabet_subsets");
        m += step;
    }
    // ---- not well-formed pages (unsorted / duplicate keys): the property does not speak about them,
    //      the model must still reproduce what the code does
    let bad_pages = if a.thorough() { 1200 } else { 50 };
    for _ in 0..bad_pages {
        let (mut keys, _) = gen_keys(&mut rng);
        if keys.len() > 120 { keys.truncate(120); }
        let n = keys.len();
        if n >= 2 {
            match rng.below(3) {
                0 => { for _ in 0..1 + rng.below(4) { let i = rng.below(n as u64) as usize; let j = rng.below(n as u64) as usize; keys.swap(i, j); } }
                1 => { let i = rng.below(n as u64) as usize; let k = keys[i].clone(); let j = rng.below(n as u64 + 1) as usize; keys.insert(j, k); }
                _ => { keys.reverse(); }
            }
        }
        let probes = gen_probes(&mut rng, &keys, 16);
        emit(&mut w, &mut sz, avx2, &keys, &probes, "malformed_unsorted");
    }
    w.finish(&[("avx2_path".to_string(), cbool(avx2).to_string())]);
}

/// Oracle only: find_key == plain binary search on every sorted page, and the window returned by the
/// scalar narrowing keeps the answer inside it.  A failing line is tagged `tag=eqcut` (diagnostic only) when the
/// real AVX2 narrowing returned a window that leaves out a slot whose prefix equals the probe's - the defect
/// F-C30-1/2 fixed by /repo commit 6f8c0a4; no finding is open, so every FAIL line is a violation.
fn search(a: &Args) {
    let mut rng = Rng::new(a.seed ^ 0xC30_5EA7);
    let mut fails: Vec<String> = vec![];
    let mut tagged = 0usize;
    let mut tried: u64 = 0;
    let mut pages: u64 = 0;
    while tried < a.budget && fails.len() < 60 {
        let (keys, _) = gen_keys(&mut rng);
        let page = match build_page(&keys) { Some(p) => p, None => continue };
        pages += 1;
        let n = keys.len();
        let probes = gen_probes(&mut rng, &keys, 80);
        for p in &probes {
            tried += 1;
            let o = probe(&page, n, p);
            let want = oracle(&keys, p);
            let mut ok = o.found == Some(want);
            // scalar window validity: everything left of it is smaller, everything right of it greater
            let sc_ok = match o.scalar {
                Some((l, r, _)) => l <= r && r <= n && keys[..l].iter().all(|k| k.as_slice() < p.as_slice()) && keys[r..].iter().all(|k| k.as_slice() > p.as_slice()),
                None => false,
            };
            if !sc_ok { ok = false; }
            if !ok && fails.len() < 60 {
                let mut line = replay_line(&keys, std::slice::from_ref(p));
                if sc_ok && eqcut(&page, &keys, p) {
                    // the (formerly recorded) equal-prefix defect: keep a few examples only, go on looking for anything else
                    tagged += 1;
                    if tagged > 8 { continue; }
                    line.push_str(" tag=eqcut");
                }
                fails.push(line);
            }
        }
    }
    let mut out = format!("tried={}\npages={}\n", tried, pages);
    for f in &fails { out.push_str("FAIL "); out.push_str(f); out.push('\n'); }
    std::fs::write(&a.out, out).expect("write search output");
}

fn eqcut(page: &[u8], keys: &[Key], p: &[u8]) -> bool {
    #[cfg(target_arch = "x86_64")]
    {
        if is_x86_feature_detected!("avx2") && keys.len() >= 8 {
            let t = u32::from_be_bytes(extract_prefix(p));
            let (l, r, _) = unsafe { turdb::btree::simd_scan::simd_prefix_search_avx2(page, t, keys.len()) };
            let r = r.min(keys.len());
            return keys.iter().enumerate().any(|(i, k)| (i < l || i >= r) && u32::from_be_bytes(extract_prefix(k)) == t);
        }
    }
    false
}

fn main() {
    let a = Args::parse();
    match a.mode.as_str() {
        "gen" => gen(&a),
        "search" => search(&a),
        _ => { eprintln!("c30: unknown mode"); std::process::exit(2); }
    }
}
