(* C37: the theorems about runs, restated on the comparer's cases (Corr/C37.v): the model's run
   of a case under the deterministic scheduler is a fine-grained run, so every invariant applies,
   and [known_class c = 0] is exactly [stolen = false] in that run. *)
From Coq Require Import ZArith List Bool.
From TV Require Import Lib.Interleave Model.GroupCommit Corr.C37 Proof.GroupCommitSafe.
Import ListNotations.
Open Scope Z_scope.

Lemma case_is_run c : exists fx progs fine, fst (final_and_obs c) = run (step fx) fine (init progs).
Proof.
  destruct c as [fx progs steps lg res fl dr pb]. cbn [final_and_obs].
  rewrite exec_obs_fst. destruct (exec_is_run fx true (sched_of steps) (init (to_progs progs))) as [fine H].
  exists fx, (to_progs progs), fine. exact H.
Qed.

Lemma case_outside_known_class_l :
  forall c, known_class c = 0 ->
    let s := sh (fst (final_and_obs c)) in
    NoDup (log s) /\ forall a, In a (acks s) -> ack_good s a /\ (In (a_id a) (att_fail s) -> a_res a <> ROk).
Proof.
  intros c Hk s. unfold known_class in Hk. fold s in Hk.
  assert (Hs : stolen s = false) by (destruct (stolen s); [discriminate | reflexivity]).
  destruct (case_is_run c) as [fx [progs [fine Hr]]]. unfold s in *. rewrite Hr in *.
  split; [apply written_at_most_once_l|]. intros a Ha. split.
  - apply (written_before_ack_l fx progs fine Hs a Ha).
  - apply (failure_reaches_members_l fx progs fine Hs a Ha).
Qed.
