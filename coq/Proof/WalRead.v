(* C03 proofs, reader side: replay (Wal::recover / recover_for_file) and read_page after
   Wal::open, for ARBITRARY segment file contents (any list of slots). *)
From Coq Require Import ZArith List Bool Lia ZifyBool Arith.
From TV Require Import Model.Wal Model.WalSpec.
Import ListNotations.
Open Scope Z_scope.

Arguments Z.mul : simpl never.
Arguments Z.add : simpl never.
Arguments Z.sub : simpl never.
Arguments Z.leb : simpl never.
Arguments Z.ltb : simpl never.
Arguments Z.eqb : simpl never.
Arguments Z.max : simpl never.
Arguments Z.of_nat : simpl never.
Arguments Z.to_nat : simpl never.

(* ---------------------------------------------------------------- storage *)
Lemma set_page_length : forall pages p v, (p < length pages)%nat -> length (set_page pages p v) = length pages.
Proof.
  intros pages p v Hp. unfold set_page.
  rewrite app_length, firstn_length. cbn [length]. rewrite skipn_length. lia.
Qed.

Lemma set_page_nth : forall pages p v i, (p < length pages)%nat ->
  nth i (set_page pages p v) 0 = if (i =? p)%nat then v else nth i pages 0.
Proof.
  intros pages p v i Hp. unfold set_page.
  destruct (Nat.eqb_spec i p) as [->|Hne].
  - rewrite app_nth2; rewrite firstn_length; [|lia].
    replace (p - Nat.min p (length pages))%nat with O by lia. reflexivity.
  - destruct (Nat.lt_ge_cases i p) as [Hlt|Hge].
    + rewrite app_nth1 by (rewrite firstn_length; lia).
      rewrite <- (firstn_skipn p pages) at 2. rewrite app_nth1 by (rewrite firstn_length; lia). reflexivity.
    + rewrite app_nth2 by (rewrite firstn_length; lia). rewrite firstn_length.
      replace (Nat.min p (length pages)) with p by lia.
      destruct (i - p)%nat as [|k] eqn:Hk; [lia|]. cbn [nth].
      rewrite <- (firstn_skipn (S p) pages) at 2.
      rewrite app_nth2 by (rewrite firstn_length; lia). rewrite firstn_length.
      replace (Nat.min (S p) (length pages)) with (S p) by lia.
      f_equal. lia.
Qed.

Lemma page_expect_app : forall a b p acc, page_expect (a ++ b) p acc = page_expect b p (page_expect a p acc).
Proof. induction a as [|f a IH]; intros b p acc; cbn [app page_expect]; [reflexivity|apply IH]. Qed.

Lemma page_expect_none : forall fs p acc, Forall (fun f => f_page f <> p) fs -> page_expect fs p acc = acc.
Proof.
  induction fs as [|f fs IH]; intros p acc H; cbn [page_expect]; [reflexivity|].
  inversion H as [|? ? Hf Hr]; subst. rewrite IH by exact Hr.
  destruct (Z.eqb_spec (f_page f) p); [contradiction|reflexivity].
Qed.

(* what the storage looks like after replaying the frames `done` into a fresh file *)
Definition replayed (done : list frame) (pages : list Z) : Prop :=
  Forall (fun f => f_page f < Z.of_nat (length pages)) done /\
  (forall i, (i < length pages)%nat -> nth i pages 0 = page_expect done (Z.of_nat i) 0).

Lemma replayed_init : replayed [] [0].
Proof.
  split; [constructor|]. intros i Hi. cbn [length] in Hi. destruct i; [reflexivity|lia].
Qed.

Lemma apply_frame_replayed : forall done pages f,
  frame_ok f = true -> replayed done pages ->
  exists pages', apply_frame pages f = Some pages' /\ replayed (done ++ [f]) pages'.
Proof.
  intros done pages f Hok [Hin Hnth].
  unfold frame_ok in Hok. unfold U32_MAX in *.
  assert (Hp0 : 0 <= f_page f) by lia. assert (Hp1 : f_page f < 4294967295) by lia.
  unfold apply_frame. unfold U32_MAX.
  destruct (Z.ltb_spec (f_page f) (Z.of_nat (length pages))) as [Hlt|Hge].
  - eexists; split; [reflexivity|].
    assert (Hpn : (Z.to_nat (f_page f) < length pages)%nat) by lia.
    split.
    + rewrite set_page_length by exact Hpn. apply Forall_app; split; [exact Hin|]. constructor; [exact Hlt|constructor].
    + intros i Hi. rewrite set_page_length in Hi by exact Hpn.
      rewrite set_page_nth by exact Hpn. rewrite page_expect_app. cbn [page_expect].
      destruct (Nat.eqb_spec i (Z.to_nat (f_page f))) as [->|Hne].
      * rewrite Z2Nat.id by lia. rewrite Z.eqb_refl. reflexivity.
      * destruct (Z.eqb_spec (f_page f) (Z.of_nat i)) as [He|_]; [lia|]. apply Hnth; exact Hi.
  - destruct (Z.leb_spec 4294967295 (f_page f)) as [Hbad|_]; [lia|].
    eexists; split; [reflexivity|].
    set (req := Z.max (f_dbs f) (f_page f + 1)).
    set (grown := pages ++ repeat 0 (Z.to_nat req - length pages)).
    assert (Hreq : f_page f + 1 <= req) by (unfold req; lia).
    assert (Hgl : length grown = Z.to_nat req).
    { unfold grown. rewrite app_length, repeat_length. lia. }
    assert (Hpn : (Z.to_nat (f_page f) < length grown)%nat) by lia.
    split.
    + rewrite set_page_length by exact Hpn. apply Forall_app; split.
      * eapply Forall_impl; [|exact Hin]. cbv beta. intros a Ha. lia.
      * constructor; [lia|constructor].
    + intros i Hi. rewrite set_page_length in Hi by exact Hpn.
      rewrite set_page_nth by exact Hpn. rewrite page_expect_app. cbn [page_expect].
      destruct (Nat.eqb_spec i (Z.to_nat (f_page f))) as [->|Hne].
      * rewrite Z2Nat.id by lia. rewrite Z.eqb_refl. reflexivity.
      * destruct (Z.eqb_spec (f_page f) (Z.of_nat i)) as [He|_]; [lia|].
        unfold grown. destruct (Nat.lt_ge_cases i (length pages)) as [Hil|Hig].
        -- rewrite app_nth1 by exact Hil. apply Hnth; exact Hil.
        -- rewrite app_nth2 by exact Hig.
           rewrite page_expect_none.
           ++ apply nth_repeat.
           ++ eapply Forall_impl; [|exact Hin]. cbv beta. intros a Ha. lia.
Qed.

Lemma apply_all_replayed : forall fs done pages n,
  Forall (fun f => frame_ok f = true) fs -> replayed done pages ->
  exists pages', apply_all pages n fs = RecOk (n + Z.of_nat (length fs)) pages' /\ replayed (done ++ fs) pages'.
Proof.
  induction fs as [|f fs IH]; intros done pages n Hok Hrep.
  - exists pages. cbn [apply_all length]. rewrite app_nil_r. split; [f_equal; lia|exact Hrep].
  - inversion Hok as [|? ? Hf Hr]; subst.
    destruct (apply_frame_replayed done pages f Hf Hrep) as [p1 [Hap Hrep1]].
    destruct (IH (done ++ [f]) p1 (n + 1) Hr Hrep1) as [p2 [Hall Hrep2]].
    exists p2. cbn [apply_all]. rewrite Hap, Hall. rewrite <- app_assoc in Hrep2. cbn [app] in Hrep2.
    split; [f_equal; cbn [length]; lia|exact Hrep2].
Qed.

Lemma check_pages_ok : forall fs pages i,
  (forall k, (k < length pages)%nat -> nth k pages 0 = page_expect fs (i + Z.of_nat k) 0) ->
  check_pages fs i pages = true.
Proof.
  intros fs pages. induction pages as [|v t IH]; intros i H; cbn [check_pages]; [reflexivity|].
  apply andb_true_intro; split.
  - specialize (H O). cbn [length nth] in H. rewrite H by lia. replace (i + Z.of_nat 0) with i by lia. apply Z.eqb_refl.
  - apply IH. intros k Hk. specialize (H (S k)). cbn [length nth] in H. rewrite H by lia. f_equal. lia.
Qed.

Lemma replayed_rec_ok : forall fs pages, replayed fs pages -> rec_ok fs (RecOk (Z.of_nat (length fs)) pages) = true.
Proof.
  intros fs pages [Hin Hnth]. unfold rec_ok. rewrite Z.eqb_refl. cbn [andb].
  apply andb_true_intro; split.
  - apply forallb_forall. intros f Hf. rewrite Forall_forall in Hin. specialize (Hin f Hf). cbv beta in Hin. lia.
  - apply check_pages_ok. intros k Hk. rewrite Hnth by exact Hk. f_equal.
Qed.

(* replay of ANY frame list whose page numbers fit the API: never panics, applies every frame
   in order, each page ends with its last image, untouched pages stay zero *)
Lemma replay_exact : forall fs, Forall (fun f => frame_ok f = true) fs -> rec_ok fs (apply_all [0] 0 fs) = true.
Proof.
  intros fs Hok.
  destruct (apply_all_replayed fs [] [0] 0 Hok replayed_init) as [p [Hall Hrep]].
  rewrite Hall. cbn [app] in Hrep. replace (0 + Z.of_nat (length fs)) with (Z.of_nat (length fs)) by lia.
  apply replayed_rec_ok; exact Hrep.
Qed.

Lemma filter_frames_ok : forall (g : frame -> bool) fs,
  Forall (fun f => frame_ok f = true) fs -> Forall (fun f => frame_ok f = true) (filter g fs).
Proof.
  intros g fs H. rewrite Forall_forall in *. intros f Hf. apply filter_In in Hf. apply H; tauto.
Qed.

(* ---------------------------------------------------------------- valid_frames *)
Lemma valid_frames_ideal : forall l, valid_frames (map SFrame l) = l.
Proof. induction l as [|f l IH]; cbn [map valid_frames slot_frame]; [reflexivity|rewrite IH; reflexivity]. Qed.

Lemma flat_map_valid_ideal : forall log, flat_map valid_frames (map (map SFrame) log) = concat log.
Proof.
  induction log as [|g log IH]; cbn [map flat_map concat]; [reflexivity|].
  rewrite valid_frames_ideal, IH. reflexivity.
Qed.

Lemma valid_frames_nth : forall fl o f, nth_error (valid_frames fl) o = Some f ->
  exists sl, nth_error fl o = Some sl /\ slot_frame sl = Some f.
Proof.
  induction fl as [|s t IH]; intros o f H; cbn [valid_frames] in H.
  - destruct o; discriminate.
  - destruct (slot_frame s) as [g|] eqn:Hs.
    + destruct o as [|o]; cbn [nth_error] in *.
      * injection H as <-. exists s. split; [reflexivity|exact Hs].
      * apply IH; exact H.
    + destruct o; discriminate.
Qed.

(* ---------------------------------------------------------------- read_page after Wal::open *)
Definition look (s : st) (v : option (Z * nat)) : rd :=
  match v with
  | None => RNone
  | Some (seg, o) =>
      match seg_file s seg with
      | None => RNone
      | Some fl =>
          match nth_error fl o with
          | None => RErr
          | Some sl => match slot_frame sl with None => RErr | Some f => RSome (f_fill f) end
          end
      end
  end.

Lemma read_page_look : forall s k, read_page s k = look s (idx_get k (s_idx s)).
Proof. intros s k. unfold read_page, look. destruct (idx_get k (s_idx s)) as [[seg o]|]; reflexivity. Qed.

Lemma scan_look : forall s k fs o ix,
  (forall j f, nth_error fs j = Some f ->
     exists sl, nth_error (s_file s) (o + j) = Some sl /\ slot_frame sl = Some f) ->
  look s (idx_get k (scan_from (seq_no s) o fs ix)) = last_image fs k (look s (idx_get k ix)).
Proof.
  intros s k fs. induction fs as [|f fs IH]; intros o ix H; cbn [scan_from last_image]; [reflexivity|].
  rewrite IH.
  - f_equal. unfold idx_set. cbn [idx_get].
    destruct (key_eqb k (fkey f)); [|reflexivity].
    destruct (H O f eq_refl) as [sl [Hn Hs]]. rewrite Nat.add_0_r in Hn.
    unfold look, seg_file. rewrite Z.eqb_refl. rewrite Hn, Hs. reflexivity.
  - intros j g Hj. specialize (H (S j) g Hj). replace (S o + j)%nat with (o + S j)%nat by lia. exact H.
Qed.

(* after Wal::open, read_page returns the last image of the page among the frames the
   sequential reader accepts in the latest segment -- whatever that file contains *)
Lemma read_after_open : forall lo closed fl k,
  read_page (open_st lo closed fl) k = last_image (valid_frames fl) k RNone.
Proof.
  intros lo closed fl k. rewrite read_page_look.
  set (s := open_st lo closed fl).
  change (s_idx s) with (scan_from (seq_no s) 0 (valid_frames fl) []).
  rewrite scan_look; [reflexivity|].
  intros j f Hj. cbn [Nat.add]. apply valid_frames_nth. exact Hj.
Qed.

Lemma reads_after_open : forall lo closed fl keys,
  map (read_page (open_st lo closed fl)) keys = expect_reads (valid_frames fl) keys.
Proof.
  intros lo closed fl keys. unfold expect_reads. apply map_ext. intro k. apply read_after_open.
Qed.

Lemma rd_eqb_refl : forall a, rd_eqb a a = true.
Proof. destruct a; cbn [rd_eqb]; try reflexivity. apply Z.eqb_refl. Qed.
Lemma rds_eqb_refl : forall l, rds_eqb l l = true.
Proof. induction l as [|a l IH]; cbn [rds_eqb]; [reflexivity|]. rewrite rd_eqb_refl, IH. reflexivity. Qed.
Lemma rd_eqb_eq : forall a b, rd_eqb a b = true -> a = b.
Proof. destruct a, b; cbn [rd_eqb]; intro H; try discriminate; try reflexivity. f_equal. lia. Qed.
Lemma rds_eqb_eq : forall a b, rds_eqb a b = true -> a = b.
Proof.
  induction a as [|x a IH]; destruct b as [|y b]; cbn [rds_eqb]; intro H; try discriminate; [reflexivity|].
  apply andb_prop in H. destruct H as [H1 H2]. f_equal; [apply rd_eqb_eq; exact H1|apply IH; exact H2].
Qed.
