(* C03: executable model of the write-ahead log of src/storage/wal.rs, AS THE CODE IS.
   Hand-modelled (file I/O, BufWriter, HashMap: outside the translator subset).

   Granularity.  Every write the implementation issues is one whole frame (32-byte header +
   16384-byte page = FRAME bytes) at the position of the OS file cursor, which starts at 0
   (WalSegment::create / ::open) and advances by FRAME per frame; so a segment file is a list
   of frame-sized SLOTS: a frame the writer wrote (header fields + page image, its checksum
   correct), a slot of zero bytes (hole left by writing past the end of the file), or a slot
   whose bytes fail validate_checksum (only produced by the fault injection below).
   Page images are described by their fill byte.  Salts are not modelled (recovery never
   looks at them).

   What is modelled (source as of /repo commits 3b478c2, 68f3fa5, 8009d11):
     WalSegment::create / ::open (cursor 0, offset = file length),
     write_frame_with_sync (bytes go to the BufWriter, flushed to the file at the OS cursor
        when sync is requested; offset += FRAME),
     Wal::write_frame_with_file_id, write_frames_batch, write_frames_batch_no_sync,
     set_sync_mode, sync, rotate_segment (the old segment is dropped, so its BufWriter flushes),
     truncate (flush, THEN set_len(0), seek to 0, offset = 0, index cleared, older segment
        files removed),
     drop of the handle (BufWriter flush) and Wal::open (every existing segment is scanned,
        oldest first, and indexed until the first segment whose valid frames do not cover the
        whole file; the current segment is cut to its valid frames (set_len) and the writer's
        cursor and offset are put behind them),
     WalSegment::read_frame, Wal::recover and recover_for_file (segment after segment, stopping
        after the first segment that does not end cleanly), read_page.
   Not modelled: the 8 MiB BufWriter capacity (sequences keep less than that pending), the
   64 MiB automatic rotation, undo frames, I/O errors, MmapStorage::grow failures,
   Wal::replay_segments_to_storage (not exercised). *)
From Coq Require Import ZArith List Bool.
Import ListNotations.
Open Scope Z_scope.

Definition FRAME : Z := 16416.
Definition U32_MAX : Z := 4294967295.

Record frame := Fr { f_fid : Z; f_page : Z; f_dbs : Z; f_fill : Z }.

(* SPart: fewer than FRAME bytes at the end of a file (left by a cut inside a frame) *)
Inductive slot := SFrame (f : frame) | SZero | SBad | SPart.

(* a slot of zero bytes parses as file_id 0, page_no 0, db_size 0, checksum 0, page of zeros;
   its CRC-64/ECMA-182 is 0 = the checksum field (Proof.WalCrc.zero_slot_valid), so the reader accepts it *)
Definition zero_frame : frame := Fr 0 0 0 0.

(* WalSegment::read_frame on one complete slot: Some = header + page with a valid checksum *)
Definition slot_frame (s : slot) : option frame :=
  match s with
  | SFrame f => Some f
  | SZero => Some zero_frame
  | SBad => None
  | SPart => None                    (* read_exact fails *)
  end.

(* `while let Ok((header, page)) = segment.read_frame()` from the start of a segment file *)
Fixpoint valid_frames (fl : list slot) : list frame :=
  match fl with
  | [] => []
  | s :: t => match slot_frame s with
              | Some f => f :: valid_frames t
              | None => []
              end
  end.

(* ---------------------------------------------------------------- page index *)
Definition key := (Z * Z)%type.                 (* (file_id, page_no) *)
Definition key_eqb (a b : key) : bool := (fst a =? fst b) && (snd a =? snd b).
Definition fkey (f : frame) : key := (f_fid f, f_page f).
Definition index := list (key * (Z * nat)).      (* -> (segment number, offset in frames); newest first *)

Fixpoint idx_get (k : key) (ix : index) : option (Z * nat) :=
  match ix with
  | [] => None
  | (k', v) :: t => if key_eqb k k' then Some v else idx_get k t
  end.
Definition idx_set (k : key) (v : Z * nat) (ix : index) : index := (k, v) :: ix.

Fixpoint scan_from (seg : Z) (o : nat) (fs : list frame) (ix : index) : index :=
  match fs with
  | [] => ix
  | f :: t => scan_from seg (S o) t (idx_set (fkey f) (seg, o) ix)
  end.
Definition scan_index (seg : Z) (fl : list slot) : index := scan_from seg 0 (valid_frames fl) [].

(* ---------------------------------------------------------------- writer state *)
Record st := St {
  s_lo : Z;                      (* number of the oldest existing segment file *)
  s_closed : list (list slot);   (* older segment files, in order *)
  s_file : list slot;            (* the current segment file *)
  s_cur : nat;                   (* OS cursor of the handle's descriptor, in frames *)
  s_off : nat;                   (* WalSegment.offset, in frames *)
  s_pend : list frame;           (* frames sitting in the BufWriter *)
  s_idx : index;
  s_sync : bool                  (* SyncMode::Full ? *)
}.

Definition seq_no (s : st) : Z := s_lo s + Z.of_nat (length (s_closed s)).

Definition pad (fl : list slot) (n : nat) : list slot := fl ++ repeat SZero (n - length fl).

(* write xs at frame position c of the file (a write past the end leaves a hole of zeros) *)
Definition write_at (fl : list slot) (c : nat) (xs : list slot) : list slot :=
  match xs with
  | [] => fl
  | _ => firstn c (pad fl c) ++ xs ++ skipn (c + length xs) fl
  end.

Definition flush (s : st) : st :=
  St (s_lo s) (s_closed s) (write_at (s_file s) (s_cur s) (map SFrame (s_pend s)))
     (s_cur s + length (s_pend s)) (s_off s) [] (s_idx s) (s_sync s).

(* write_frame_with_sync(.., false) followed by the page_index insert of the caller *)
Definition push_frame (s : st) (f : frame) : st :=
  St (s_lo s) (s_closed s) (s_file s) (s_cur s) (S (s_off s)) (s_pend s ++ [f])
     (idx_set (fkey f) (seq_no s, s_off s) (s_idx s)) (s_sync s).

(* the index scan of Wal::open: segments seg, seg+1, .. in order; once a segment's valid frames
   do not cover its file (`offset != segment_len`) nothing behind it is indexed *)
Fixpoint scan_all (seg : Z) (files : list (list slot)) (ended : bool) (ix : index) : index :=
  match files with
  | [] => ix
  | fl :: t =>
      let vf := valid_frames fl in
      scan_all (seg + 1) t (ended || negb (length vf =? length fl)%nat)
               (if ended then ix else scan_from seg 0 vf ix)
  end.

(* Wal::open on the segment files `files` (oldest first, numbered lo, lo+1, ..; the last one
   becomes the current segment): its torn tail is cut off, cursor = offset = end of its valid frames *)
Definition open_st (lo : Z) (files : list (list slot)) : st :=
  let fl := last files [] in
  let ve := length (valid_frames fl) in
  St lo (removelast files) (firstn ve fl) ve ve [] (scan_all lo files false []) true.

Definition init_st : st := St 1 [] [] 0 0 [] [] true.      (* Wal::create on a fresh directory *)

Inductive op :=
| OWrite (f : frame)                         (* write_frame_with_file_id *)
| OBatch (fs : list frame) (nosync : bool)   (* write_frames_batch / write_frames_batch_no_sync *)
| OSetSync (full : bool)                     (* set_sync_mode(Full) / set_sync_mode(Off) *)
| OSync                                      (* sync *)
| ORotate                                    (* rotate_segment *)
| OTruncate                                  (* truncate *)
| OReopen.                                   (* drop the handle; Wal::open *)

Definition is_nil {A} (l : list A) : bool := match l with [] => true | _ => false end.

Definition step (s : st) (o : op) : st :=
  match o with
  | OWrite f => let s1 := push_frame s f in if s_sync s1 then flush s1 else s1
  | OBatch fs nosync =>
      let s1 := fold_left push_frame fs s in
      if negb nosync && s_sync s1 && negb (is_nil fs) then flush s1 else s1
  | OSetSync b => St (s_lo s) (s_closed s) (s_file s) (s_cur s) (s_off s) (s_pend s) (s_idx s) b
  | OSync => flush s
  | ORotate =>
      let s1 := flush s in
      St (s_lo s1) (s_closed s1 ++ [s_file s1]) [] 0 0 [] (s_idx s1) (s_sync s1)
  | OTruncate =>
      St (seq_no s) [] [] 0 0 [] [] (s_sync s)
  | OReopen =>
      let s1 := flush s in open_st (s_lo s1) (s_closed s1 ++ [s_file s1])
  end.

Definition run (ops : list op) : st := fold_left step ops init_st.

(* ---------------------------------------------------------------- read_page *)
Inductive rd := RNone | RSome (fill : Z) | RErr | RPanic.

Definition seg_file (s : st) (seg : Z) : option (list slot) :=
  if seg =? seq_no s then Some (s_file s)
  else if (s_lo s <=? seg) && (seg <? seq_no s) then nth_error (s_closed s) (Z.to_nat (seg - s_lo s))
  else None.

Definition read_page (s : st) (k : key) : rd :=
  match idx_get k (s_idx s) with
  | None => RNone
  | Some (seg, o) =>
      match seg_file s seg with
      | None => RNone                      (* segment file does not exist *)
      | Some fl =>
          match nth_error fl o with
          | None => RErr                   (* frame extends beyond the mapped file *)
          | Some sl => match slot_frame sl with
                       | None => RErr      (* invalid checksum *)
                       | Some f => RSome (f_fill f)
                       end
          end
      end
  end.

Definition read_keys : list key := [(0, 0); (0, 1); (0, 2); (1, 0); (1, 1); (1, 2)].

(* ---------------------------------------------------------------- fault injection on one segment file *)
Inductive dmg :=
| DNone
| DCut (seg off : Z)                          (* set_len(off) *)
| DFlip (seg off mask : Z)                    (* byte at off ^= mask *)
| DZero (seg off n : Z) (cfirst clast : Z)    (* bytes [off, off+n) := 0.  cfirst / clast: what became of the
                                                 first / last slot the range touches, as seen on the real file
                                                 (used only where that slot is partly covered): 0 = no byte
                                                 changed, 1 = the slot is now all zero bytes, 2 = bytes changed
                                                 and the real read_frame rejects the slot *)
.

Definition dmg_seg (d : dmg) : option Z :=
  match d with DNone => None | DCut s _ => Some s | DFlip s _ _ => Some s | DZero s _ _ _ _ => Some s end.

(* effect of zeroing bytes [off, e) on slot i:  0 = still what it was, 1 = all zero bytes, else checksum fails *)
Definition zcls (i off e i0 : Z) (vf vl : Z) : Z :=
  let lo := i * FRAME in
  let hi := lo + FRAME in
  if (hi <=? off) || (e <=? lo) then 0
  else if (off <=? lo) && (hi <=? e) then 1
  else if i =? i0 then vf else vl.

Fixpoint zero_slots (i off e i0 : Z) (vf vl : Z) (fl : list slot) : list slot :=
  match fl with
  | [] => []
  | s :: t =>
      let c := zcls i off e i0 vf vl in
      (if c =? 0 then s else if c =? 1 then SZero else SBad) :: zero_slots (i + 1) off e i0 vf vl t
  end.

Fixpoint set_nth {A} (n : nat) (v : A) (l : list A) : list A :=
  match l, n with
  | [], _ => []
  | _ :: t, O => v :: t
  | x :: t, S n' => x :: set_nth n' v t
  end.

Definition file_bytes (fl : list slot) : Z := FRAME * Z.of_nat (length fl).

Definition dmg_file (d : dmg) (fl : list slot) : list slot :=
  match d with
  | DNone => fl
  | DCut _ off =>
      if (0 <=? off) && (off <=? file_bytes fl)
      then firstn (Z.to_nat (off / FRAME)) fl ++ (if off mod FRAME =? 0 then [] else [SPart]) else fl
  | DFlip _ off m =>
      if (0 <=? off) && (off <? file_bytes fl) && negb (m mod 256 =? 0)
      then set_nth (Z.to_nat (off / FRAME)) SBad fl else fl
  | DZero _ off n vf vl =>
      if (0 <=? off) && (off <? file_bytes fl) && (0 <? n)
      then zero_slots 0 off (Z.min (off + n) (file_bytes fl)) (off / FRAME) vf vl fl else fl
  end.

Fixpoint upd_nth {A} (n : nat) (f : A -> A) (l : list A) : list A :=
  match l, n with
  | [], _ => []
  | x :: t, O => f x :: t
  | x :: t, S n' => x :: upd_nth n' f t
  end.

Definition dmg_files (d : dmg) (files : list (list slot)) : list (list slot) :=
  match dmg_seg d with
  | None => files
  | Some s => if 0 <=? s then upd_nth (Z.to_nat s) (dmg_file d) files else files
  end.

(* ---------------------------------------------------------------- recovery into a fresh one-page storage *)
Inductive rec := RecOk (applied : Z) (pages : list Z) | RecErr | RecPanic.

Definition set_page (pages : list Z) (p : nat) (v : Z) : list Z :=
  firstn p pages ++ v :: skipn (S p) pages.

(* one iteration of the replay loop; None = `header.page_no + 1` overflows (panic, overflow checks on) *)
Definition apply_frame (pages : list Z) (f : frame) : option (list Z) :=
  let n := Z.of_nat (length pages) in
  if f_page f <? n then Some (set_page pages (Z.to_nat (f_page f)) (f_fill f))
  else if U32_MAX <=? f_page f then None
  else
    let req := Z.max (f_dbs f) (f_page f + 1) in
    Some (set_page (pages ++ repeat 0 (Z.to_nat req - length pages)) (Z.to_nat (f_page f)) (f_fill f)).

Fixpoint apply_all (pages : list Z) (n : Z) (fs : list frame) : rec :=
  match fs with
  | [] => RecOk n pages
  | f :: t => match apply_frame pages f with
              | None => RecPanic
              | Some p => apply_all p (n + 1) t
              end
  end.

(* for i in 1..=max_segment { while let Ok(..) = read_frame() {..}; if valid_len != segment_len { break } } *)
Fixpoint seg_frames (files : list (list slot)) : list frame :=
  match files with
  | [] => []
  | fl :: t =>
      let vf := valid_frames fl in
      if (length vf =? length fl)%nat then vf ++ seg_frames t else vf
  end.

Definition recover (files : list (list slot)) : rec := apply_all [0] 0 (seg_frames files).
Definition recover_for_file (files : list (list slot)) (fid : Z) : rec :=
  apply_all [0] 0 (filter (fun f => f_fid f =? fid) (seg_frames files)).

(* ---------------------------------------------------------------- one whole case *)
Record obs := Obs {
  o_ok : bool;               (* every API call returned Ok, nothing panicked *)
  o_seglens : list Z;        (* byte lengths of the segment files after the handle was dropped *)
  o_live : list rd;          (* read_page over read_keys on the live handle, before the drop *)
  o_reads : list rd;         (* read_page over read_keys after damage + Wal::open *)
  o_rec : rec;               (* recover into a fresh storage *)
  o_rec0 : rec;              (* recover_for_file(.., 0) *)
  o_rec1 : rec;              (* recover_for_file(.., 1) *)
  o_curlen : Z               (* byte length of the latest segment file after that Wal::open (torn tail cut) *)
}.

Definition final_files (s : st) : list (list slot) :=
  let s1 := flush s in s_closed s1 ++ [s_file s1].

(* drop, fault, Wal::open *)
Definition reopened (s : st) (d : dmg) : st :=
  open_st (s_lo s) (dmg_files d (final_files s)).

(* the segment files a handle sees *)
Definition files_of (s : st) : list (list slot) := s_closed s ++ [s_file s].

Definition model_obs (ops : list op) (d : dmg) : obs :=
  let s := run ops in
  let s' := reopened s d in
  Obs true (map file_bytes (final_files s))
      (map (read_page s) read_keys)
      (map (read_page s') read_keys)
      (recover (files_of s')) (recover_for_file (files_of s') 0) (recover_for_file (files_of s') 1)
      (file_bytes (s_file s')).
