//! C23 "decoders of stored bytes reject corruption without crashing".
//!
//! Four kinds of cases (one replay line each):
//!   dec w=<decoder> a=<args> k=<hex key> d=<len>:<fill>:<off>=<hex>,...   one decoder call on one byte string,
//!        under catch_unwind -> compared with Model/StoredBytes.v, PageAccess.v, ArrayView.v inside Coq
//!        (file headers, page header, leaf / interior / HNSW page accessors, ArrayView getters; w=50: RecordView +
//!        extract_row_from_record, judged by the C31 model, outcome class only)
//!   fk k=<hex key> d=<desc>      EXPLORATION, no model: LeafNode::from_page + find_key on a corrupted leaf page
//!   jb d=<desc>                  EXPLORATION, no model: JsonbView::new + as_value + full walk on corrupted JSONB bytes
//!   db t=<template> f=<file> e=<edits>   EXPLORATION, no model: a copy of a real database directory (template 0:
//!        closed after a checkpoint; template 1: copied while open with WAL frames not yet checkpointed) with one
//!        file corrupted (edits: set:<off>:<hex> fill:<off>:<len>:<byte> trunc:<len> ext:<hex> copy:<from>:<to>:<len>
//!        find:<hex pattern>:<delta>:<hex> (bytes written delta behind the first occurrence of the pattern), joined by ';'), then Database::open + full scans + point lookups + writes + close, in a CHILD process
//!        (`c23 worker`) so that aborts and hangs are observed (5 s watchdog, re-checked alone with 20 s)
//! Modes: gen (with --lines), search (oracle only: any panic / abort / hang), worker (internal),
//! probe (development aid: --budget N corrupted databases, prints the outcome tally; C23_DEBUG=1 makes the
//! worker print failing statements and panic backtraces).
use std::collections::BTreeMap;
use std::io::{BufRead, BufReader, Write};
use std::path::{Path, PathBuf};
use std::process::{Child, Command, Stdio};
use std::sync::mpsc;
use std::time::Duration;
use tvh::*;
use turdb::Database;
use turdb::btree::{InteriorNode, InteriorNodeMut, LeafNode, LeafNodeMut};
use turdb::hnsw::storage::{HnswFileHeader, HnswPage, HnswPageRef};
use turdb::hnsw::{DistanceFunction, NodeId, QuantizationType};
use turdb::parsing::parse_json;
use turdb::records::jsonb::{JsonbValue, JsonbView};
use turdb::records::types::ColumnDef as RCol;
use turdb::records::{ArrayBuilder, ArrayView, DataType, RecordBuilder, RecordView, Schema};
use turdb::schema::ColumnDef as SCol;
use turdb::types::OwnedValue;
use turdb::storage::{validate_page, IndexFileHeader, MetaFileHeader, PageHeader, TableFileHeader};

const PAGE: usize = 16384;

// ====================================================================== byte-string descriptions
/// fill byte + runs of explicit bytes (offset, bytes); what the Coq side rebuilds with `image`
#[derive(Clone)]
struct Desc { len: usize, fill: u8, runs: Vec<(usize, Vec<u8>)> }

fn describe(d: &[u8]) -> Desc {
    let mut cnt = [0usize; 256];
    for b in d { cnt[*b as usize] += 1; }
    let fill = if d.is_empty() { 0 } else { (0..256).max_by_key(|i| (cnt[*i], 255 - *i)).unwrap() as u8 };
    let mut runs: Vec<(usize, Vec<u8>)> = vec![];
    let mut i = 0;
    while i < d.len() {
        if d[i] == fill { i += 1; continue; }
        // a run ends at 4 consecutive fill bytes
        let st = i;
        let mut end = i + 1;
        let mut j = i + 1;
        while j < d.len() && j < end + 4 { if d[j] != fill { end = j + 1; } j += 1; }
        runs.push((st, d[st..end].to_vec()));
        i = end;
    }
    Desc { len: d.len(), fill, runs }
}
fn desc_term(x: &Desc) -> String {
    let rs: Vec<String> = x.runs.iter().map(|(o, b)| format!("({},{})", o, cbytes(b))).collect();
    format!("(B {} {} {}%uint63)", x.len, x.fill, clist(&rs))
}
fn desc_line(x: &Desc) -> String {
    let rs: Vec<String> = x.runs.iter().map(|(o, b)| format!("{}={}", o, hex(b))).collect();
    format!("{}:{}:{}", x.len, x.fill, rs.join(","))
}
fn parse_desc(s: &str) -> Vec<u8> {
    let mut it = s.splitn(3, ':');
    let len: usize = it.next().unwrap_or("0").parse().unwrap_or(0);
    let fill: u8 = it.next().unwrap_or("0").parse().unwrap_or(0);
    let mut d = vec![fill; len.min(1 << 20)];
    for r in it.next().unwrap_or("").split(',') {
        if let Some((o, h)) = r.split_once('=') {
            let o: usize = o.parse().unwrap_or(0);
            for (k, b) in unhex(h).into_iter().enumerate() { if o + k < d.len() { d[o + k] = b; } }
        }
    }
    d
}

// ====================================================================== one decoder call
#[derive(Clone, PartialEq, Debug)]
enum Obs { Ok(Vec<i128>), Err, Panic(String) }

fn digest(b: &[u8]) -> Vec<i128> {
    let mut h: u64 = 7;
    for x in b { h = (h * 31 + *x as u64) & 0xFFFF_FFFF; }
    vec![b.len() as i128, h as i128]
}
fn obs<T, F: FnOnce() -> eyre::Result<T> + std::panic::UnwindSafe>(f: F, conv: impl FnOnce(T) -> Vec<i128>) -> Obs {
    match catch(f) {
        Caught::Done(Ok(v)) => Obs::Ok(conv(v)),
        Caught::Done(Err(_)) => Obs::Err,
        Caught::Panicked(m) => Obs::Panic(m),
    }
}
fn unit(_: ()) -> Vec<i128> { vec![] }

/// the real implementation on (decoder, bytes, args, key)
fn run_real(w: u32, d: &[u8], args: &[u64], key: &[u8]) -> Obs {
    let i = args.first().copied().unwrap_or(0) as usize;
    let d = d.to_vec();
    let key = key.to_vec();
    let args = args.to_vec();
    match w {
        1 => obs(move || MetaFileHeader::from_bytes(&d).map(|h| vec![h.version() as i128, h.page_size() as i128, h.schema_count() as i128,
                 h.default_schema_id() as i128, h.next_table_id() as i128, h.next_index_id() as i128, h.flags() as i128]), |v| v),
        2 => obs(move || TableFileHeader::from_bytes(&d).map(|h| vec![h.table_id() as i128, h.row_count() as i128, h.root_page() as i128,
                 h.column_count() as i128, h.first_free_page() as i128, h.auto_increment() as i128, h.rightmost_hint() as i128]), |v| v),
        3 => obs(move || IndexFileHeader::from_bytes(&d).map(|h| vec![h.index_id() as i128, h.table_id() as i128, h.root_page() as i128,
                 h.key_column_count() as i128, h.is_unique() as i128, h.index_type() as i128]), |v| v),
        4 => obs(move || HnswFileHeader::from_bytes(&d).map(|h| {
                 let ep: Option<NodeId> = h.entry_point();
                 vec![h.index_id() as i128, h.table_id() as i128, h.dimensions() as i128, h.m() as i128, h.m0() as i128,
                      h.ef_construction() as i128, h.ef_search() as i128, h.distance_fn() as u8 as i128, h.quantization() as u8 as i128,
                      ep.is_some() as i128, ep.map(|n| n.page_no()).unwrap_or(0) as i128, ep.map(|n| n.slot_index()).unwrap_or(0) as i128,
                      h.max_level() as i128, h.node_count() as i128, h.vector_count() as i128, h.first_free_page() as i128] }), |v| v),
        5 => obs(move || PageHeader::from_bytes(&d).map(|h| vec![h.page_type() as u8 as i128, h.flags() as i128, h.cell_count() as i128,
                 h.free_start() as i128, h.free_end() as i128, h.frag_bytes() as i128, h.right_child() as i128, h.free_space() as i128]), |v| v),
        6 => obs(move || validate_page(&d), unit),
        10 => obs(move || LeafNode::from_page(&d).map(|_| ()), unit),
        11 => obs(move || LeafNode::from_page(&d).map(|n| vec![n.cell_count() as i128]), |v| v),
        12 => obs(move || LeafNode::from_page(&d).and_then(|n| n.slot_at(i).map(|s| vec![s.prefix_as_u32() as i128, s.offset() as i128, s.key_len() as i128])), |v| v),
        13 => obs(move || LeafNode::from_page(&d).and_then(|n| n.key_at(i).map(digest)), |v| v),
        14 => obs(move || LeafNode::from_page(&d).and_then(|n| n.value_at(i).map(digest)), |v| v),
        15 => obs(move || LeafNode::from_page(&d).and_then(|n| n.value_len_at(i).map(|v| vec![v as i128])), |v| v),
        20 => obs(move || InteriorNode::from_page(&d).map(|_| ()), unit),
        21 => obs(move || InteriorNode::from_page(&d).and_then(|n| n.slot_at(i).map(|s| vec![s.prefix_as_u32() as i128, s.child_page() as i128, s.offset() as i128, s.key_len() as i128])), |v| v),
        22 => obs(move || InteriorNode::from_page(&d).and_then(|n| n.key_at(i).map(digest)), |v| v),
        23 => obs(move || InteriorNode::from_page(&d).and_then(|n| n.find_child(&key).map(|(c, ix)| vec![c as i128, ix.map(|x| x as i128).unwrap_or(-1)])), |v| v),
        24 => obs(move || InteriorNode::from_page(&d).map(|n| vec![n.right_child() as i128]), |v| v),
        30 => obs(move || HnswPageRef::from_bytes(&d).map(|_| ()), unit),
        31 => obs(move || HnswPageRef::from_bytes(&d).map(|p| vec![p.slot_count() as i128]), |v| v),
        32 => obs(move || HnswPageRef::from_bytes(&d).map(|p| match p.get_slot(i as u16) {
                 None => vec![0], Some(s) => vec![1, s.offset as i128, s.status as u8 as i128, s.size as i128] }), |v| v),
        33 => obs(move || HnswPageRef::from_bytes(&d).and_then(|p| p.read_node_data(i as u16).map(digest)), |v| v),
        34 => obs(move || HnswPageRef::from_bytes(&d).map(|p| vec![p.free_space() as i128]), |v| v),
        40 => obs(move || ArrayView::new(&d).map(|_| ()), unit),
        41 => obs(move || ArrayView::new(&d).map(|a| vec![a.elem_type() as u8 as i128]), |v| v),
        42 => obs(move || ArrayView::new(&d).map(|a| vec![a.is_null(i) as i128]), |v| v),
        43 => {
            let idx = args.get(1).copied().unwrap_or(0) as usize;
            let fl = args.get(2).copied().unwrap_or(0) == 1;
            obs(move || ArrayView::new(&d).and_then(|a| match (i, fl) {
                (2, _) => a.get_int2(idx).map(|v| v as u16 as i128),
                (4, false) => a.get_int4(idx).map(|v| v as u32 as i128),
                (4, true) => a.get_float4(idx).map(|v| v.to_bits() as i128),
                (8, false) => a.get_int8(idx).map(|v| v as u64 as i128),
                (8, true) => a.get_float8(idx).map(|v| v.to_bits() as i128),
                _ => Err(eyre::eyre!("no such getter")),
            }.map(|v| vec![v])), |v| v)
        }
        44 => obs(move || ArrayView::new(&d).and_then(|a| a.get_bool(i).map(|b| vec![b as i128])), |v| v),
        45 => obs(move || ArrayView::new(&d).and_then(|a| a.get_blob(i).map(digest)), |v| v),
        46 => obs(move || ArrayView::new(&d).and_then(|a| a.get_text(i).map(|s| digest(s.as_bytes()))), |v| v),
        47 => obs(move || ArrayView::new(&d).map(|a| vec![a.len() as i128]), |v| v),
        48 => obs(move || ArrayView::new(&d).and_then(|a| {
                 // sql/decoder.rs format_array, one element
                 if a.is_null(i) { return Ok(vec![0]); }
                 Ok(match a.elem_type() {
                     DataType::Int2 => vec![1, a.get_int2(i)? as u16 as i128],
                     DataType::Int4 => vec![1, a.get_int4(i)? as u32 as i128],
                     DataType::Int8 => vec![1, a.get_int8(i)? as u64 as i128],
                     DataType::Float4 => vec![1, a.get_float4(i)?.to_bits() as i128],
                     DataType::Float8 => vec![1, a.get_float8(i)?.to_bits() as i128],
                     DataType::Bool => vec![1, a.get_bool(i)? as i128],
                     DataType::Text | DataType::Varchar | DataType::Char => { let mut v = vec![2]; v.extend(digest(a.get_text(i)?.as_bytes())); v }
                     DataType::Blob => { let mut v = vec![2]; v.extend(digest(a.get_blob(i)?)); v }
                     _ => vec![3],
                 }) }), |v| v),
        50 => {
            let types: Vec<DataType> = args.iter().map(|c| DataType::try_from(*c as u8).unwrap_or(DataType::Int8)).collect();
            let schema = Schema::new(types.iter().enumerate().map(|(i, t)| RCol::new(format!("c{}", i), *t)).collect());
            let cols: Vec<SCol> = types.iter().enumerate().map(|(i, t)| SCol::new(format!("c{}", i), *t)).collect();
            obs(std::panic::AssertUnwindSafe(move || { let view = RecordView::new(&d, &schema)?; OwnedValue::extract_row_from_record(&view, &cols).map(|_| ()) }), unit)
        }
        _ => Obs::Err,
    }
}
/// did the constructor in front of an accessor accept the bytes (the accessor really looked at them)?
fn constructor_ok(w: u32, d: &[u8]) -> bool {
    match w {
        1..=4 => d.len() >= 128,
        5 => d.len() >= 16,
        6 | 10 | 20 | 30 => d.len() == PAGE,
        11..=15 => matches!(run_real(10, d, &[], &[]), Obs::Ok(_)),
        21..=24 => matches!(run_real(20, d, &[], &[]), Obs::Ok(_)),
        31..=34 => matches!(run_real(30, d, &[], &[]), Obs::Ok(_)),
        40 => true,
        41..=48 => matches!(run_real(40, d, &[], &[]), Obs::Ok(_)),
        50 => d.len() >= 2,
        _ => false,
    }
}

fn u16at(d: &[u8], o: usize) -> usize { if o + 1 < d.len() { d[o] as usize | (d[o + 1] as usize) << 8 } else { 0 } }
/// harness-side classification of a panicking decoder case (for `search` lines; the authoritative
/// class is Corr/C23.v dec_class, evaluated inside Coq)
fn dec_class(w: u32, d: &[u8], args: &[u64]) -> u32 {
    let _ = (d, args);
    if w == 50 { 14 } else { 0 }
}

struct DecCase { w: u32, d: Vec<u8>, args: Vec<u64>, key: Vec<u8>, kind: &'static str }

fn dec_replay(c: &DecCase, ds: &Desc) -> String {
    let a: Vec<String> = c.args.iter().map(|x| x.to_string()).collect();
    format!("dec w={} a={} k={} d={}", c.w, a.join("."), hex(&c.key), desc_line(ds))
}
fn parse_dec(l: &str) -> Option<DecCase> {
    let r = l.strip_prefix("dec ")?;
    let mut m: BTreeMap<&str, &str> = BTreeMap::new();
    for tok in r.split(' ') { if let Some((k, v)) = tok.split_once('=') { m.insert(k, v); } }
    Some(DecCase {
        w: m.get("w")?.parse().ok()?,
        args: m.get("a").map(|a| a.split('.').filter(|x| !x.is_empty()).filter_map(|x| x.parse().ok()).collect()).unwrap_or_default(),
        key: unhex(m.get("k").copied().unwrap_or("")),
        d: parse_desc(m.get("d").copied().unwrap_or("0:0:")),
        kind: "replay",
    })
}
fn obs_term(o: &Obs) -> String {
    match o {
        Obs::Ok(v) => { let xs: Vec<String> = v.iter().map(|x| z(*x)).collect(); format!("(OOk {})", clist(&xs)) }
        Obs::Err => "OErr".into(),
        Obs::Panic(_) => "OPanic".into(),
    }
}
fn push_dec(w: &mut CaseWriter, c: &DecCase) -> Obs {
    let ds = describe(&c.d);
    let o = run_real(c.w, &c.d, &c.args, &c.key);
    let args: Vec<String> = c.args.iter().map(|x| x.to_string()).collect();
    let term = format!("Dec {} {} {} {} {}", c.w, desc_term(&ds), clist(&args), cbytes(&c.key), obs_term(&o));
    let nontrivial = constructor_ok(c.w, &c.d);
    w.push(term, dec_replay(c, &ds), nontrivial, c.kind);
    o
}

// ====================================================================== generators: file headers
fn le(v: u64, n: usize) -> Vec<u8> { v.to_le_bytes()[..n].to_vec() }
fn put(d: &mut [u8], o: usize, b: &[u8]) { for (k, x) in b.iter().enumerate() { if o + k < d.len() { d[o + k] = *x; } } }
fn odd_u64(rng: &mut Rng) -> u64 {
    match rng.below(8) { 0 => 0, 1 => 1, 2 => u64::MAX, 3 => u32::MAX as u64, 4 => 1 << 63, 5 => rng.below(1000), _ => rng.next() >> rng.below(64) }
}
/// a well-formed 128-byte header of kind k (1 meta, 2 table, 3 index, 4 hnsw) with random field values.
/// Magic bytes are the implementation's public constants; HNSW goes through HnswFileHeader::new/write_to.
fn valid_header(rng: &mut Rng, k: u32) -> Vec<u8> {
    let mut h = vec![0u8; 128];
    match k {
        1 => { put(&mut h, 0, turdb::storage::META_MAGIC); put(&mut h, 16, &le(1, 4)); put(&mut h, 20, &le(16384, 4));
               for o in [24, 32, 40, 48, 56] { let v = odd_u64(rng); put(&mut h, o, &le(v, 8)); } }
        2 => { put(&mut h, 0, turdb::storage::TABLE_MAGIC);
               for (o, n) in [(16, 8), (24, 8), (32, 4), (36, 4), (40, 8), (48, 8), (56, 4)] { let v = odd_u64(rng); put(&mut h, o, &le(v, n)); } }
        3 => { put(&mut h, 0, turdb::storage::INDEX_MAGIC);
               for (o, n) in [(16, 8), (24, 8), (32, 4), (36, 4), (40, 1), (41, 1)] { let v = odd_u64(rng); put(&mut h, o, &le(v, n)); } }
        _ => {
            let df = *rng.pick(&[DistanceFunction::L2, DistanceFunction::Cosine, DistanceFunction::InnerProduct]);
            let q = *rng.pick(&[QuantizationType::None, QuantizationType::SQ8, QuantizationType::PQ]);
            let mut hd = HnswFileHeader::new(odd_u64(rng), odd_u64(rng), rng.next() as u16, (rng.next() as u16) / 2, rng.next() as u16, rng.next() as u16, df, q);
            if rng.chance(1, 2) { hd.set_entry_point(Some(NodeId::new(rng.next() as u32, rng.next() as u16))); }
            hd.set_max_level(rng.next() as u8); hd.set_node_count(odd_u64(rng)); hd.set_vector_count(odd_u64(rng)); hd.set_first_free_page(rng.next() as u32);
            let _ = hd.write_to(&mut h);
        }
    }
    h
}
fn mutate_small(rng: &mut Rng, d: &mut Vec<u8>, hot: usize) {
    let n = d.len();
    match rng.below(9) {
        0 => { if n > 0 { let k = rng.below(n.min(hot) as u64) as usize; d[k] ^= 1 << rng.below(8); } }
        1 => { if n > 0 { let k = rng.below(n as u64) as usize; d[k] ^= 1 << rng.below(8); } }
        2 => { if n > 0 { let k = rng.below(n.min(hot) as u64) as usize; d[k] = *rng.pick(&[0u8, 1, 2, 255, 128, 127]); } }
        3 => { let k = rng.below(n as u64 + 1) as usize; d.truncate(k); }
        4 => { let k = *rng.pick(&[0usize, 1, 15, 16, 17, 127]); d.truncate(k.min(n)); }
        5 => { let e = 1 + rng.below(40) as usize; let t = rng.bytes(e); d.extend_from_slice(&t); }
        6 => { if n >= 4 { let k = rng.below(n as u64 - 3) as usize; let t = rng.bytes(4); put(d, k, &t); } }
        7 => { for x in d.iter_mut().take(hot.min(n)) { if rng.chance(1, 8) { *x = rng.next() as u8; } } }
        _ => {}
    }
}
fn header_cases(rng: &mut Rng, n: usize, out: &mut Vec<DecCase>) {
    for k in 1..=4u32 {
        for j in 0..n {
            let (d, kind) = match j % 8 {
                0 => (valid_header(rng, k), "header_valid"),
                1 | 2 | 3 => { let mut h = valid_header(rng, k); mutate_small(rng, &mut h, 24); (h, "header_mutated") }
                4 => { let mut h = valid_header(rng, k); let kk = 1 + rng.below(4) as u32; let o = valid_header(rng, kk); put(&mut h, 0, &o[..16]); (h, "header_other_magic") }
                5 => { let mut h = valid_header(rng, k); if k == 1 { let v = *rng.pick(&[0u64, 2, 256, 1 << 24, u32::MAX as u64]); put(&mut h, 16, &le(v, 4)); } else { h.resize(PAGE, 0); } (h, "header_version_or_page0") }
                6 => { let l = *rng.pick(&[0usize, 1, 16, 127, 128, 129, 200]); (rng.bytes(l), "header_random") }
                _ => { let mut h = rng.bytes(128); let v = valid_header(rng, k); put(&mut h, 0, &v[..16]); (h, "header_random_with_magic") }
            };
            out.push(DecCase { w: k, d, args: vec![], key: vec![], kind });
        }
    }
}

// ====================================================================== generators: pages
fn rand_key(rng: &mut Rng) -> Vec<u8> {
    let l = match rng.below(6) { 0 => 0, 1 => 1 + rng.below(3) as usize, 2 => 4, _ => 4 + rng.below(5) as usize };
    let mut k = rng.bytes(l);
    if rng.chance(1, 2) { for (i, x) in k.iter_mut().enumerate().take(3) { *x = b"abc"[i]; } }   // shared prefixes
    k
}
/// a leaf page built by the implementation; returns (page, keys in slot order)
fn valid_leaf(rng: &mut Rng) -> (Vec<u8>, Vec<Vec<u8>>) {
    let mut p = vec![0u8; PAGE];
    let n = match rng.below(8) { 0 => 0, 1 => 1, 7 => 6 + rng.below(10) as usize, _ => 2 + rng.below(4) as usize };
    {
        let mut leaf = LeafNodeMut::init(&mut p).expect("init leaf");
        for _ in 0..n {
            let k = rand_key(rng);
            let vl = match rng.below(12) { 0 => 0, 1 => 241 + rng.below(60) as usize, 2 => 2288 + rng.below(50) as usize, _ => rng.below(9) as usize };
            // long values are runs of the page's fill byte: they cost nothing in the case description
            let v: Vec<u8> = if vl > 100 { vec![0u8; vl] } else { rng.bytes(vl) };
            let _ = leaf.insert_cell(&k, &v);
        }
        let _ = leaf.set_next_leaf(rng.next() as u32 >> rng.below(32));
    }
    let keys = { let l = LeafNode::from_page(&p).expect("leaf"); (0..l.cell_count() as usize).map(|i| l.key_at(i).expect("key").to_vec()).collect() };
    (p, keys)
}
fn valid_interior(rng: &mut Rng) -> (Vec<u8>, Vec<Vec<u8>>) {
    let mut p = vec![0u8; PAGE];
    let n = match rng.below(8) { 0 => 0, 1 => 1, 7 => 6 + rng.below(14) as usize, _ => 2 + rng.below(5) as usize };
    {
        let mut node = InteriorNodeMut::init(&mut p, rng.next() as u32 >> rng.below(32)).expect("init interior");
        for _ in 0..n { let k = rand_key(rng); let _ = node.insert_separator(&k, rng.next() as u32 >> rng.below(32)); }
    }
    let keys = { let l = InteriorNode::from_page(&p).expect("interior"); (0..l.cell_count() as usize).map(|i| l.key_at(i).expect("key").to_vec()).collect() };
    (p, keys)
}
fn valid_hnsw(rng: &mut Rng) -> Vec<u8> {
    let mut p = vec![0u8; PAGE];
    let n = rng.below(6) as usize;
    {
        let mut pg = HnswPage::init(&mut p).expect("init hnsw");
        for _ in 0..n {
            let sz = 1 + rng.below(12) as u16;
            if let Ok(s) = pg.allocate_slot(sz) { let b = rng.bytes(sz as usize); let _ = pg.write_node_data(s, &b); if rng.chance(1, 5) { let _ = pg.mark_deleted(s); } }
        }
    }
    p
}
const COUNTS: [u16; 22] = [0, 1, 2, 7, 8, 9, 100, 1363, 1364, 1365, 1366, 2044, 2045, 2046, 2047, 4079, 4080, 4081, 8191, 32768, 65534, 65535];
/// page-level mutations: stored counts, slot entries, cell contents, type byte, bit flips
fn mutate_page(rng: &mut Rng, p: &mut [u8], slot0: usize, slot_sz: usize, count_off: usize) -> &'static str {
    let cc = u16at(p, count_off);
    match rng.below(11) {
        0 => "page_valid",
        1 | 2 => { let c = if rng.chance(3, 4) { *rng.pick(&COUNTS) } else { rng.next() as u16 }; put(p, count_off, &le(c as u64, 2)); "page_count_edit" }
        3 | 4 => {
            // edit the offset / length fields (the last 4 bytes) of one slot
            let j = if cc > 0 && rng.chance(3, 4) { rng.below(cc.min(2000) as u64) as usize } else { rng.below(24) as usize };
            let o = slot0 + j * slot_sz + slot_sz - 4;
            let off = *rng.pick(&[0u64, 15, 16, 24, 8191, 8192, 16000, 16374, 16375, 16383, 16384, 16385, 32768, 65535]);
            let len = *rng.pick(&[0u64, 1, 4, 9, 10, 16, 383, 384, 385, 8192, 16384, 65535]);
            if rng.chance(1, 2) { put(p, o, &le(off, 2)); }
            if rng.chance(2, 3) { put(p, o + 2, &le(len, 2)); }
            if rng.chance(1, 3) { let off2 = rng.below(PAGE as u64 + 10); put(p, o, &le(off2, 2)); }
            "page_slot_edit"
        }
        5 => {
            // overwrite the bytes behind a key (where a leaf keeps the value-length varint) with a hostile varint
            let j = if cc > 0 { rng.below(cc.min(2000) as u64) as usize } else { 0 };
            let o = slot0 + j * slot_sz + slot_sz - 4;
            let vs = u16at(p, o) + u16at(p, o + 2);
            let v: Vec<u8> = match rng.below(8) {
                0 => vec![255; 9],
                1 => { let mut v = vec![255u8]; v.extend_from_slice(&(u64::MAX - rng.below(20000)).to_be_bytes()); v }
                2 => { let mut v = vec![255u8]; v.extend_from_slice(&rng.next().to_be_bytes()); v }
                3 => vec![251, 255, 255, 255, 255],
                4 => vec![250, 0, 64, (rng.next() % 3) as u8],
                5 => vec![249, rng.next() as u8, rng.next() as u8],
                6 => vec![241 + (rng.next() % 8) as u8, rng.next() as u8],
                _ => vec![rng.next() as u8],
            };
            if vs < PAGE { put(p, vs, &v); }
            "page_varint_edit"
        }
        6 => { p[0] = *rng.pick(&[0u8, 1, 2, 3, 16, 17, 32, 48, 64, 255]); "page_type_edit" }
        7 => { for _ in 0..1 + rng.below(4) { let k = rng.below((slot0 + 40 * slot_sz) as u64) as usize; p[k] ^= 1 << rng.below(8); } "page_bitflip_head" }
        8 => { for _ in 0..1 + rng.below(4) { let k = rng.below(PAGE as u64) as usize; p[k] ^= 1 << rng.below(8); } "page_bitflip_any" }
        9 => {
            // random header and first slots over a uniform fill
            let f = *rng.pick(&[0u8, 255, 0x55, 16]);
            for x in p.iter_mut() { *x = f; }
            let t = rng.bytes(16); put(p, 0, &t);
            let k = rng.below(6) as usize; let t = rng.bytes(k * slot_sz); put(p, slot0, &t);
            if rng.chance(3, 4) { p[0] = *rng.pick(&[1u8, 2, 16]); }
            "page_random"
        }
        _ => { let c = cc.saturating_add(1 + rng.below(3) as usize).min(65535); put(p, count_off, &le(c as u64, 2)); "page_count_plus" }
    }
}
fn pick_index(rng: &mut Rng, p: &[u8], count_off: usize) -> u64 {
    let cc = u16at(p, count_off) as u64;
    match rng.below(10) {
        0 => 0,
        1 => cc.saturating_sub(1),
        2 => cc,
        3 => *rng.pick(&COUNTS) as u64,
        4 => (*rng.pick(&COUNTS) as u64).saturating_sub(1),
        5 => rng.below(cc.max(1)),
        6 => if rng.chance(1, 2) { u64::MAX } else { 65536 },
        _ => rng.below(cc.clamp(1, 20)),
    }
}
fn page_cases(rng: &mut Rng, n: usize, out: &mut Vec<DecCase>) {
    for _ in 0..n {
        // leaf
        let (mut p, keys) = valid_leaf(rng);
        let kind = mutate_page(rng, &mut p, 24, 8, 2);
        let w = *rng.pick(&[10u32, 11, 12, 13, 13, 14, 14, 14, 15, 5, 6]);
        let i = pick_index(rng, &p, 2);
        out.push(DecCase { w, d: p, args: if w >= 12 && w <= 15 { vec![i] } else { vec![] }, key: vec![], kind });
        let _ = keys;
        // interior
        let (mut p, keys) = valid_interior(rng);
        let kind = mutate_page(rng, &mut p, 16, 12, 2);
        let w = *rng.pick(&[20u32, 21, 22, 22, 23, 23, 23, 23, 24]);
        let i = pick_index(rng, &p, 2);
        let key = if w == 23 {
            match rng.below(4) { 0 if !keys.is_empty() => rng.pick(&keys).clone(),
                                 1 if !keys.is_empty() => { let mut k = rng.pick(&keys).clone(); if let Some(x) = k.last_mut() { *x = x.wrapping_add(1); } else { k.push(0); } k }
                                 _ => rand_key(rng) }
        } else { vec![] };
        out.push(DecCase { w, d: p, args: if w == 21 || w == 22 { vec![i] } else { vec![] }, key, kind });
        // hnsw
        let mut p = valid_hnsw(rng);
        let kind = mutate_page(rng, &mut p, 64, 4, 16);
        let w = *rng.pick(&[30u32, 31, 32, 32, 33, 33, 33, 34]);
        let i = pick_index(rng, &p, 16).min(65535);
        out.push(DecCase { w, d: p, args: if w == 32 || w == 33 { vec![i] } else { vec![] }, key: vec![], kind });
    }
}

// ====================================================================== generators: arrays
fn valid_array(rng: &mut Rng) -> (Vec<u8>, u32) {
    let t = *rng.pick(&[DataType::Int2, DataType::Int4, DataType::Int8, DataType::Float4, DataType::Float8, DataType::Bool, DataType::Text, DataType::Blob]);
    let mut b = ArrayBuilder::new(t);
    let n = match rng.below(6) { 0 => 0, 1 => 1, 5 => 9 + rng.below(9) as usize, _ => 2 + rng.below(6) as usize };
    for _ in 0..n {
        if rng.chance(1, 6) { b.push_null(); continue; }
        match t {
            DataType::Int2 => b.push_int2(rng.next() as i16),
            DataType::Int4 => b.push_int4(rng.next() as i32),
            DataType::Int8 => b.push_int8(rng.next() as i64),
            DataType::Float4 => b.push_float4(f32::from_bits(rng.next() as u32)),
            DataType::Float8 => b.push_float8(f64::from_bits(rng.next())),
            DataType::Bool => b.push_bool(rng.chance(1, 2)),
            DataType::Text => { let s: String = (0..rng.below(8)).map(|_| *rng.pick(&['a', 'z', 'é', '€', '0', ' '])).collect(); b.push_text(&s) }
            _ => { let l = rng.below(10) as usize; let v = rng.bytes(l); b.push_blob(&v) }
        }
    }
    let w = match t { DataType::Int2 => 2, DataType::Int4 | DataType::Float4 => 4, DataType::Int8 | DataType::Float8 => 8, DataType::Bool => 1, _ => 0 };
    (b.build(), w)
}
fn array_cases(rng: &mut Rng, n: usize, out: &mut Vec<DecCase>) {
    for _ in 0..n {
        let (mut d, w) = valid_array(rng);
        let kind = match rng.below(10) {
            0 | 1 => "array_valid",
            2 => { let v = *rng.pick(&[0u64, 1, 7, 8, 9, 255, 256, 4096, 65535]); put(&mut d, 6, &le(v, 2)); "array_len_edit" }
            3 => { let v = if rng.chance(1, 2) { rng.below(40) } else { odd_u64(rng) }; put(&mut d, 0, &le(v, 4)); "array_total_edit" }
            4 => { if d.len() > 4 { d[4] = *rng.pick(&[14u8, 19, 26, 32, 44, 63, 72, 200, 255, 71, 0]); } "array_type_edit" }
            5 => { let k = rng.below(d.len() as u64 + 1) as usize; d.truncate(k); "array_truncated" }
            6 => { let n = d.len(); if n > 8 { let k = 8 + rng.below((n - 8) as u64) as usize; let t = rng.bytes(4); put(&mut d, k, &t); } "array_offset_edit" }
            7 => { let l = rng.below(40) as usize; d = rng.bytes(l); if l >= 8 && rng.chance(1, 2) { d[7] = 0; d[6] = rng.below(12) as u8; } "array_random" }
            8 => { for _ in 0..1 + rng.below(3) { let n = d.len(); if n > 0 { let k = rng.below(n as u64) as usize; d[k] ^= 1 << rng.below(8); } } "array_bitflip" }
            _ => { let v = u16at(&d, 6) as u64 + 1 + rng.below(9); put(&mut d, 6, &le(v, 2)); "array_len_plus" }
        };
        let len = u16at(&d, 6) as u64;
        let i = match rng.below(6) { 0 => 0, 1 => len.saturating_sub(1), 2 => len, 3 => rng.below(len.max(1)), 4 => rng.below(70000), _ => rng.below(len.clamp(1, 8)) };
        // after new(): the type byte, the bitmap, and the element through the getter its type selects (format_array)
        let _ = w;
        let (wh, args) = match rng.below(12) {
            0 => (40, vec![]), 1 => (41, vec![]), 2 => (47, vec![]), 3 | 4 => (42, vec![i]),
            _ => (48, vec![i]),
        };
        out.push(DecCase { w: wh, d, args, key: vec![], kind });
    }
}
// ====================================================================== generators: row records
const REC_TYPES: [u8; 8] = [0, 1, 2, 3, 5, 20, 21, 24];
fn rec_value(rng: &mut Rng, code: u8) -> OwnedValue {
    if rng.chance(1, 6) { return OwnedValue::Null; }
    match code {
        0 => OwnedValue::Bool(rng.chance(1, 2)),
        1 => OwnedValue::Int(rng.next() as i16 as i64),
        2 => OwnedValue::Int(rng.next() as i32 as i64),
        3 => OwnedValue::Int(rng.next() as i64),
        5 => OwnedValue::Float(rng.below(1000) as f64 / 8.0),
        21 => { let l = rng.below(7) as usize; OwnedValue::Blob(rng.bytes(l)) }
        _ => OwnedValue::Text((0..rng.below(7)).map(|_| *rng.pick(&['a', 'z', 'é', '0'])).collect()),
    }
}
fn record_cases(rng: &mut Rng, n: usize, out: &mut Vec<DecCase>) {
    for _ in 0..n {
        let ncols = 1 + rng.below(5) as usize;
        let types: Vec<u8> = (0..ncols).map(|_| *rng.pick(&REC_TYPES)).collect();
        let schema = Schema::new(types.iter().enumerate().map(|(i, t)| RCol::new(format!("c{}", i), DataType::try_from(*t).unwrap_or(DataType::Int8))).collect());
        let row: Vec<OwnedValue> = types.iter().map(|t| rec_value(rng, *t)).collect();
        let mut buf: Vec<u8> = vec![];
        let built = catch(std::panic::AssertUnwindSafe(|| { let mut b = RecordBuilder::new(&schema); OwnedValue::build_record_into_buffer(&row, &mut b, &mut buf).is_ok() }));
        let mut d = if matches!(built, Caught::Done(true)) { buf } else { vec![2, 0] };
        let kind = match rng.below(9) {
            0 | 1 => "record_valid",
            2 => { let k = rng.below(d.len() as u64 + 1) as usize; d.truncate(k); "record_truncated" }
            3 => { let v = *rng.pick(&[0u64, 1, 2, 3, 9, 255, 256, 65535]); put(&mut d, 0, &le(v, 2)); "record_header_len_edit" }
            4 => { let hl = u16at(&d, 0).min(d.len()); if hl > 2 { let k = 2 + rng.below((hl - 2) as u64) as usize; d[k] = *rng.pick(&[0u8, 255, 200, 1]); } "record_header_edit" }
            5 => { let n = d.len(); if n > 0 { let k = rng.below(n as u64) as usize; d[k] ^= 1 << rng.below(8); } "record_bitflip" }
            6 => { let l = rng.below(24) as usize; d = rng.bytes(l); "record_random" }
            7 => { let e = 1 + rng.below(6) as usize; let t = rng.bytes(e); d.extend_from_slice(&t); "record_extended" }
            _ => { let k = *rng.pick(&[0usize, 1, 2, 3, 4]); d.truncate(k.min(d.len())); "record_short" }
        };
        out.push(DecCase { w: 50, d, args: types.iter().map(|t| *t as u64).collect(), key: vec![], kind });
    }
}

/// fixed boundary cases (every run): the witnesses of the refutation theorems of Props/C23.v and their neighbours
fn boundary_cases(out: &mut Vec<DecCase>) {
    let mut page = |t: u8, cc: u16| { let mut p = vec![0u8; PAGE]; p[0] = t; put(&mut p, 2, &le(cc as u64, 2)); p };
    for (cc, i) in [(2045u16, 2044u64), (2046, 2045), (65535, 65534), (65535, 2045), (65535, 2044), (2046, 2046)] {
        for w in 12..=15 { out.push(DecCase { w, d: page(2, cc), args: vec![i], key: vec![], kind: "boundary" }); }
    }
    for (cc, i) in [(1364u16, 1363u64), (1365, 1364), (65535, 65534), (65535, 1364), (65535, 1363)] {
        for w in 21..=22 { out.push(DecCase { w, d: page(1, cc), args: vec![i], key: vec![], kind: "boundary" }); }
    }
    for cc in [1364u16, 1365, 2728, 2729, 2730, 65535] {
        for key in [vec![], vec![0u8], vec![255u8, 255, 255, 255, 255]] { out.push(DecCase { w: 23, d: page(1, cc), args: vec![], key, kind: "boundary" }); }
    }
    // the fullest slot arrays check_slot_geometry accepts (free_start = free_end = PAGE_SIZE), and one slot more
    let mut full = |t: u8, cc: u16| { let mut p = vec![0u8; PAGE]; p[0] = t; put(&mut p, 2, &le(cc as u64, 2)); put(&mut p, 4, &le(16384, 2)); put(&mut p, 6, &le(16384, 2)); p };
    for (cc, i) in [(2045u16, 2044u64), (2045, 2045), (2046, 2045)] { for w in 10..=15 { out.push(DecCase { w, d: full(2, cc), args: vec![i], key: vec![], kind: "boundary" }); } }
    for (cc, i) in [(1364u16, 1363u64), (1364, 1364), (1365, 1364)] { for w in 20..=23 { out.push(DecCase { w, d: full(1, cc), args: vec![i], key: vec![0u8], kind: "boundary" }); } }
    // leaf value length that overflows usize: slot 0 -> cell at 16000, key_len 4, varint 0xFF + 8 x 0xFF
    let mut p = page(2, 1);
    put(&mut p, 4, &le(32, 2)); put(&mut p, 6, &le(16000, 2));
    put(&mut p, 24, &[1, 2, 3, 4]); put(&mut p, 28, &le(16000, 2)); put(&mut p, 30, &le(4, 2));
    put(&mut p, 16000, &[1, 2, 3, 4]); put(&mut p, 16004, &[255; 9]);
    for w in 13..=15 { out.push(DecCase { w, d: p.clone(), args: vec![0], key: vec![], kind: "boundary" }); }
    let mut q = p.clone(); put(&mut q, 16004, &[255, 255, 255, 255, 255, 255, 255, 0xC1, 0x62]);   // 2^64 - 16030: vds + vlen = 2^64 - 17... just below
    out.push(DecCase { w: 14, d: q, args: vec![0], key: vec![], kind: "boundary" });
    // hnsw
    let hp = |sc: u16| { let mut p = vec![0u8; PAGE]; p[0] = 16; put(&mut p, 16, &le(sc as u64, 2)); p };
    for (sc, i) in [(4080u16, 4079u64), (4081, 4080), (65535, 65534), (65535, 4080)] {
        for w in 32..=33 { out.push(DecCase { w, d: hp(sc), args: vec![i], key: vec![], kind: "boundary" }); }
    }
    for (off, sz) in [(8191u64, 8193u64), (8191, 8194), (0, 16384), (1, 16384), (8000, 65535)] {
        let mut p = hp(1); put(&mut p, 64, &le(off | (1 << 13), 2)); put(&mut p, 66, &le(sz, 2));
        out.push(DecCase { w: 33, d: p, args: vec![0], key: vec![], kind: "boundary" });
    }
    // arrays
    out.push(DecCase { w: 41, d: vec![8, 0, 0, 0, 99, 1, 0, 0], args: vec![], key: vec![], kind: "boundary" });
    out.push(DecCase { w: 43, d: vec![8, 0, 0, 0, 2, 1, 1, 0], args: vec![4, 0, 0], key: vec![], kind: "boundary" });
    out.push(DecCase { w: 42, d: vec![8, 0, 0, 0, 2, 1, 1, 0], args: vec![0], key: vec![], kind: "boundary" });
    out.push(DecCase { w: 45, d: vec![9, 0, 0, 0, 21, 1, 1, 0, 0], args: vec![0], key: vec![], kind: "boundary" });
    out.push(DecCase { w: 45, d: vec![0, 0, 0, 0, 21, 1, 1, 0, 0, 0, 0, 0, 0], args: vec![0], key: vec![], kind: "boundary" });
    out.push(DecCase { w: 48, d: vec![12, 0, 0, 0, 2, 1, 1, 0, 0, 5, 0, 0, 0], args: vec![0], key: vec![], kind: "boundary" });
    out.push(DecCase { w: 48, d: vec![15, 0, 0, 0, 21, 1, 1, 0, 0, 0, 0, 0, 0, 104, 105], args: vec![0], key: vec![], kind: "boundary" });
    out.push(DecCase { w: 48, d: vec![11, 0, 0, 0, 1, 1, 1, 0, 0, 5, 0], args: vec![0], key: vec![], kind: "boundary" });
    out.push(DecCase { w: 48, d: vec![13, 0, 0, 0, 21, 1, 1, 0, 0, 9, 0, 0, 0], args: vec![0], key: vec![], kind: "boundary" });
    // records: a TEXT column and a 2-byte record (no room for the null bitmap); an end offset beyond the data
    out.push(DecCase { w: 50, d: vec![2, 0], args: vec![20], key: vec![], kind: "boundary" });
    out.push(DecCase { w: 50, d: vec![5, 0, 0, 9, 0, 1, 2, 3, 4], args: vec![2, 20], key: vec![], kind: "boundary" });
    out.push(DecCase { w: 50, d: vec![5, 0, 0, 0, 0, 1, 2, 3, 4], args: vec![2, 20], key: vec![], kind: "boundary" });
}

fn dec_cases(rng: &mut Rng, thorough: bool) -> Vec<DecCase> {
    let mut out = vec![];
    boundary_cases(&mut out);
    // quick: ~1500 cases (4 shards); thorough: ~50000
    let (h, p, a, r) = if thorough { (1900, 8400, 10800, 6000) } else { (40, 270, 300, 160) };
    header_cases(rng, h, &mut out);
    page_cases(rng, p, &mut out);
    array_cases(rng, a, &mut out);
    record_cases(rng, r, &mut out);
    out
}

// ====================================================================== exploration 1: find_key on corrupted leaves
#[derive(Clone, Debug, PartialEq)]
enum XOut { Ok(u32, u32), Panic(String), Timeout, Abort }

static PANIC_AT: std::sync::Mutex<Option<String>> = std::sync::Mutex::new(None);
fn install_site_hook() {
    std::panic::set_hook(Box::new(|info| {
        let loc = info.location().map(|l| format!("{}:{}:{}", l.file(), l.line(), l.column())).unwrap_or_else(|| "?".into());
        let p = info.payload();
        let msg = if let Some(s) = p.downcast_ref::<&str>() { s.to_string() } else if let Some(s) = p.downcast_ref::<String>() { s.clone() } else { "panic".into() };
        if std::env::var("C23_DEBUG").is_ok() { eprintln!("panic at {} : {}\n{}", loc, msg, std::backtrace::Backtrace::force_capture()); }
        let mut g = PANIC_AT.lock().unwrap_or_else(|e| e.into_inner());
        if g.is_none() { *g = Some(format!("{} | {}", loc, msg.replace('\n', " "))); }
    }));
}
fn take_site() -> String { PANIC_AT.lock().unwrap_or_else(|e| e.into_inner()).take().unwrap_or_else(|| "? | panic".into()) }

/// source file of a panic location -> small code (0 = outside src)
fn file_code(loc: &str) -> u32 {
    let f = loc.split(':').next().unwrap_or("");
    let f = f.trim_start_matches("/repo/");
    const FILES: [&str; 14] = ["src/btree/leaf.rs", "src/btree/interior.rs", "src/btree/simd_scan.rs", "src/storage/mmap.rs", "src/storage/file_manager.rs",
        "src/storage/wal.rs", "src/storage/freelist.rs", "src/storage/toast.rs", "src/records/view.rs", "src/records/jsonb.rs", "src/records/array.rs",
        "src/schema/persistence.rs", "src/types/owned_value.rs", "src/sql/decoder.rs"];
    if let Some(i) = FILES.iter().position(|x| *x == f) { return i as u32 + 1; }
    if f.starts_with("src/btree") { return 20; }
    if f.starts_with("src/storage") { return 21; }
    if f.starts_with("src/records") { return 22; }
    if f.starts_with("src/encoding") { return 23; }
    if f.starts_with("src/hnsw") { return 24; }
    if f.starts_with("src/schema") { return 25; }
    if f.starts_with("src/database") { return 26; }
    if f.starts_with("src/sql") { return 27; }
    if f.starts_with("src/types") { return 28; }
    if f.starts_with("src/") { return 29; }
    0
}
/// panic message -> class: 3 arithmetic overflow, 4 index / slice out of bounds, 5 unwrap / expect, 6 division by zero,
/// 7 capacity / allocation, 9 explicit (unreachable, assert), 0 other
fn msg_class(m: &str) -> u32 {
    if m.contains("with overflow") { 3 }
    else if m.contains("index out of bounds") || m.contains("out of range for slice") || m.contains("slice index starts at") || m.contains("out of bounds") || m.contains("mid > len") { 4 }
    else if m.contains("called `Option::unwrap()`") || m.contains("called `Result::unwrap()`") || m.contains("corrupted") || m.contains("expect") { 5 }
    else if m.contains("divide by zero") || m.contains("divisor of zero") { 6 }
    else if m.contains("capacity overflow") || m.contains("allocation") { 7 }
    else if m.contains("unreachable") || m.contains("assertion") || m.contains("not implemented") { 9 }
    else { 0 }
}
fn xout_term(o: &XOut) -> String {
    match o {
        XOut::Ok(a, b) => format!("(XOk {} {})", a, b),
        XOut::Panic(m) => { let mut it = m.splitn(2, " | "); let loc = it.next().unwrap_or(""); let msg = it.next().unwrap_or(""); format!("(XPanic {} {})", file_code(loc), msg_class(msg)) }
        XOut::Timeout => "XTimeout".into(),
        XOut::Abort => "XAbort".into(),
    }
}

struct FkCase { d: Vec<u8>, key: Vec<u8>, kind: &'static str }
fn run_fk(c: &FkCase) -> XOut {
    let d = c.d.clone(); let key = c.key.clone();
    let _ = take_site();
    match catch(move || LeafNode::from_page(&d).map(|n| { let _ = n.find_key(&key); })) {
        Caught::Done(Ok(())) => XOut::Ok(1, 0),
        Caught::Done(Err(_)) => XOut::Ok(0, 1),
        Caught::Panicked(_) => XOut::Panic(take_site()),
    }
}
fn fk_cases(rng: &mut Rng, n: usize, out: &mut Vec<FkCase>) {
    for cc in [2045u16, 2046, 2053, 2054, 2061, 4090, 4091, 4100, 8191, 32768, 65535] {
        let mut p = vec![0u8; PAGE]; p[0] = 2; put(&mut p, 2, &le(cc as u64, 2));
        for key in [vec![], vec![0u8, 0, 0, 0], vec![0u8, 0, 0, 1], vec![255u8; 5]] { out.push(FkCase { d: p.clone(), key, kind: "fk_boundary" }); }
    }
    for _ in 0..n {
        let (mut p, keys) = valid_leaf(rng);
        let kind = match mutate_page(rng, &mut p, 24, 8, 2) { "page_valid" => "fk_valid", "page_count_edit" | "page_count_plus" => "fk_count_edit", "page_slot_edit" => "fk_slot_edit", _ => "fk_other_edit" };
        let key = match rng.below(4) { 0 if !keys.is_empty() => rng.pick(&keys).clone(), 1 => vec![0, 0, 0, rng.next() as u8], _ => rand_key(rng) };
        out.push(FkCase { d: p, key, kind });
    }
}
fn fk_replay(c: &FkCase, ds: &Desc) -> String { format!("fk k={} d={}", hex(&c.key), desc_line(ds)) }
fn parse_fk(l: &str) -> Option<FkCase> {
    let r = l.strip_prefix("fk ")?;
    let mut m: BTreeMap<&str, &str> = BTreeMap::new();
    for tok in r.split(' ') { if let Some((k, v)) = tok.split_once('=') { m.insert(k, v); } }
    Some(FkCase { key: unhex(m.get("k").copied().unwrap_or("")), d: parse_desc(m.get("d").copied().unwrap_or("0:0:")), kind: "replay" })
}
fn fk_class(c: &FkCase, o: &XOut) -> u32 { let _ = (c, o); 0 }
fn push_fk(w: &mut CaseWriter, c: &FkCase) -> XOut {
    let ds = describe(&c.d);
    let o = run_fk(c);
    let cc = u16at(&c.d, 2);
    let term = format!("Xp 1 [{}] {}", cc, xout_term(&o));
    w.push(term, fk_replay(c, &ds), c.d.len() == PAGE && c.d[0] == 2, c.kind);
    o
}

// ====================================================================== exploration 3: JsonbView on corrupted documents
fn walk_value(v: JsonbValue<'_>, budget: &mut u32) -> eyre::Result<()> {
    if *budget == 0 { return Ok(()); }
    *budget -= 1;
    match v {
        JsonbValue::Array(view) => { for item in view.iter_array()? { walk_value(item?, budget)?; } }
        JsonbValue::Object(view) => { for item in view.iter_object()? { let (_k, e) = item?; walk_value(e, budget)?; } let _ = view.get("a")?; }
        _ => {}
    }
    Ok(())
}
struct JbCase { d: Vec<u8>, kind: &'static str }
fn run_jb(c: &JbCase) -> XOut {
    let d = c.d.clone();
    let _ = take_site();
    match catch(move || -> eyre::Result<()> { let view = JsonbView::new(&d)?; let mut budget = 100_000u32; walk_value(view.as_value()?, &mut budget) }) {
        Caught::Done(Ok(())) => XOut::Ok(1, 0),
        Caught::Done(Err(_)) => XOut::Ok(0, 1),
        Caught::Panicked(_) => XOut::Panic(take_site()),
    }
}
const JSON_DOCS: [&str; 10] = ["null", "true", "12.5", "\"hi\"", "[]", "{}", "[1, \"a\", null, [2, 3]]", "{\"a\": 1, \"b\": \"x\"}",
    "{\"a\": [1, 2, {\"b\": null}], \"c\": \"x\"}", "[[[[1]]], {\"k\": {\"k\": {\"k\": false}}}]"];
fn jb_cases(rng: &mut Rng, n: usize, out: &mut Vec<JbCase>) {
    for _ in 0..n {
        let text = *rng.pick(&JSON_DOCS);
        let mut d = match parse_json(text) { Ok(r) => r.value.to_jsonb_bytes(), Err(_) => vec![] };
        let kind = match rng.below(7) {
            0 => "jb_valid",
            1 => { let k = rng.below(d.len() as u64 + 1) as usize; d.truncate(k); "jb_truncated" }
            2 => { let v = rng.next() as u32; if d.len() >= 4 { let hi = (d[3] as u64 & 0xF0) << 24; put(&mut d, 0, &le((v & 0x0FFF_FFFF) as u64 | hi, 4)); } "jb_count_edit" }
            3 => { let n = d.len(); if n > 4 { let k = 4 + rng.below(((n - 4) / 4).max(1) as u64) as usize * 4; let t = rng.bytes(4); put(&mut d, k, &t); } "jb_entry_edit" }
            4 => { let n = d.len(); if n > 0 { let k = rng.below(n as u64) as usize; d[k] ^= 1 << rng.below(8); } "jb_bitflip" }
            5 => { let l = rng.below(24) as usize; d = rng.bytes(l); "jb_random" }
            _ => { let n = d.len(); if n > 0 { let k = rng.below(n as u64) as usize; d[k] = *rng.pick(&[0u8, 255, 127, 128]); } "jb_byte_edit" }
        };
        out.push(JbCase { d, kind });
    }
}
fn jb_replay(ds: &Desc) -> String { format!("jb d={}", desc_line(ds)) }
fn parse_jb(l: &str) -> Option<JbCase> { let r = l.strip_prefix("jb d=")?; Some(JbCase { d: parse_desc(r.split(' ').next().unwrap_or("0:0:")), kind: "replay" }) }
fn jb_class(o: &XOut) -> u32 { match o { XOut::Panic(m) if file_code(m) == 10 => 13, _ => 0 } }
fn push_jb(w: &mut CaseWriter, c: &JbCase) -> XOut {
    let ds = describe(&c.d);
    let o = run_jb(c);
    let term = format!("Xp 3 [{}] {}", c.d.len(), xout_term(&o));
    w.push(term, jb_replay(&ds), c.d.len() >= 4, c.kind);
    o
}

// ====================================================================== exploration 2: corrupted database directories
const SETUP: [&str; 9] = [
    "CREATE TABLE t1 (id INT PRIMARY KEY, a INT, b TEXT, c FLOAT, d BLOB, bo BOOLEAN, j JSONB)",
    "CREATE TABLE t2 (id INT PRIMARY KEY, x INT, y TEXT)",
    "CREATE TABLE t3 (k TEXT PRIMARY KEY, v VECTOR(3), n BIGINT)",
    "CREATE INDEX i1a ON t1 (a)",
    "CREATE INDEX i2y ON t2 (y)",
    "INSERT INTO t1 (id, a, b, c, bo) VALUES (1, 10, 'one', 1.5, TRUE), (2, 20, 'two', -2.25, FALSE), (3, NULL, NULL, NULL, NULL), (4, -5, 'héllo wörld', 0.0, TRUE)",
    "INSERT INTO t1 (id, a, j) VALUES (6, 60, '{\"a\": [1, 2, {\"b\": null}], \"c\": \"x\"}')",
    "INSERT INTO t3 (k, v, n) VALUES ('p', '[1.0, 2.0, 3.0]', 4000000000), ('q', '[0.0, 0.0, 0.0]', -4000000000)",
    "INSERT INTO t1 (id, a, d) VALUES (7, 70, x'00ff10')",
];
const SCRIPT: [&str; 14] = [
    "Q SELECT * FROM t1", "Q SELECT * FROM t2", "Q SELECT * FROM t3", "Q SELECT COUNT(*) FROM t2",
    "Q SELECT * FROM t2 WHERE id = 1500", "Q SELECT * FROM t1 WHERE a = 20", "Q SELECT * FROM t2 WHERE y = 'y77'",
    "Q SELECT id, b FROM t1 WHERE id = 5", "Q SELECT * FROM t2 ORDER BY x LIMIT 5",
    "E INSERT INTO t2 (id, x, y) VALUES (900001, 1, 'new')", "E UPDATE t1 SET a = 11 WHERE id = 1", "E DELETE FROM t2 WHERE id = 7",
    "E INSERT INTO t1 (id, a, b) VALUES (900002, 5, 'fresh')", "Q SELECT COUNT(*) FROM t1",
];
fn fill_template(db: &Database) {
    for s in SETUP { db.execute(s).unwrap_or_else(|e| panic!("setup statement failed: {} : {}", s, e)); }
    // a value big enough to be moved to the TOAST table
    let big: String = (0..3000).map(|i| (b'a' + (i % 26) as u8) as char).collect();
    db.execute(&format!("INSERT INTO t1 (id, a, b) VALUES (5, 50, '{}')", big)).expect("toast row");
    // enough rows for several leaf pages below an interior root
    for chunk in 0..15 {
        let vals: Vec<String> = (0..200).map(|i| { let id = chunk * 200 + i + 1; format!("({}, {}, 'y{}')", id, (id * 7919) % 1000, id % 100) }).collect();
        db.execute(&format!("INSERT INTO t2 (id, x, y) VALUES {}", vals.join(", "))).expect("bulk rows");
    }
}
fn copy_dir(src: &Path, dst: &Path) -> std::io::Result<()> {
    std::fs::create_dir_all(dst)?;
    for e in std::fs::read_dir(src)? {
        let e = e?;
        let to = dst.join(e.file_name());
        if e.file_type()?.is_dir() { copy_dir(&e.path(), &to)?; } else { std::fs::copy(e.path(), &to)?; }
    }
    Ok(())
}
fn list_files(root: &Path, rel: &Path, out: &mut Vec<(String, u64)>) {
    if let Ok(rd) = std::fs::read_dir(root.join(rel)) {
        let mut es: Vec<_> = rd.filter_map(|e| e.ok()).collect();
        es.sort_by_key(|e| e.file_name());
        for e in es {
            let r = rel.join(e.file_name());
            if e.path().is_dir() { list_files(root, &r, out); } else { out.push((r.to_string_lossy().into_owned(), e.metadata().map(|m| m.len()).unwrap_or(0))); }
        }
    }
}
/// template 0: closed after checkpoint; template 1: copied while the database is open with WAL frames pending
fn build_templates(base: &Path) {
    let t0 = base.join("tmpl0");
    let _ = std::fs::remove_dir_all(&t0);
    { let db = Database::create(&t0).expect("template 0"); fill_template(&db); let _ = db.checkpoint(); let _ = db.close(); }
    let t1 = base.join("tmpl1");
    let live = base.join("tmpl1-live");
    let _ = std::fs::remove_dir_all(&t1); let _ = std::fs::remove_dir_all(&live);
    {
        let db = Database::create(&live).expect("template 1");
        let _ = db.execute("PRAGMA wal=ON");
        fill_template(&db);
        copy_dir(&live, &t1).expect("copy live template");
        let _ = db.close();
    }
    let _ = std::fs::remove_dir_all(&live);
}

#[derive(Clone, Debug)]
enum Edit { Set(u64, Vec<u8>), Fill(u64, u64, u8), Trunc(u64), Ext(Vec<u8>), Copy(u64, u64, u64), Find(Vec<u8>, u64, Vec<u8>) }
fn edits_line(es: &[Edit]) -> String {
    es.iter().map(|e| match e {
        Edit::Set(o, b) => format!("set:{}:{}", o, hex(b)), Edit::Fill(o, n, b) => format!("fill:{}:{}:{}", o, n, b),
        Edit::Trunc(n) => format!("trunc:{}", n), Edit::Ext(b) => format!("ext:{}", hex(b)), Edit::Copy(a, b, n) => format!("copy:{}:{}:{}", a, b, n),
        Edit::Find(p, d, b) => format!("find:{}:{}:{}", hex(p), d, hex(b)),
    }).collect::<Vec<_>>().join(";")
}
fn parse_edits(s: &str) -> Vec<Edit> {
    s.split(';').filter_map(|e| {
        let p: Vec<&str> = e.split(':').collect();
        let n = |i: usize| p.get(i).and_then(|x| x.parse::<u64>().ok()).unwrap_or(0);
        match p.first().copied() {
            Some("set") => Some(Edit::Set(n(1), unhex(p.get(2).copied().unwrap_or("")))),
            Some("fill") => Some(Edit::Fill(n(1), n(2).min(1 << 22), n(3) as u8)),
            Some("trunc") => Some(Edit::Trunc(n(1))),
            Some("ext") => Some(Edit::Ext(unhex(p.get(1).copied().unwrap_or("")))),
            Some("copy") => Some(Edit::Copy(n(1), n(2), n(3).min(1 << 22))),
            Some("find") => Some(Edit::Find(unhex(p.get(1).copied().unwrap_or("")), n(2), unhex(p.get(3).copied().unwrap_or("")))),
            _ => None,
        }
    }).collect()
}
fn apply_edits(path: &Path, es: &[Edit]) {
    let mut d = std::fs::read(path).unwrap_or_default();
    for e in es {
        match e {
            Edit::Set(o, b) => { for (k, x) in b.iter().enumerate() { let i = *o as usize + k; if i < d.len() { d[i] = *x; } } }
            Edit::Fill(o, n, b) => { for k in 0..*n as usize { let i = *o as usize + k; if i < d.len() { d[i] = *b; } } }
            Edit::Trunc(n) => d.truncate(*n as usize),
            Edit::Ext(b) => d.extend_from_slice(b),
            Edit::Copy(a, b, n) => { for k in 0..*n as usize { let (i, j) = (*a as usize + k, *b as usize + k); if i < d.len() && j < d.len() { d[j] = d[i]; } } }
            // the first occurrence of a byte pattern, then bytes written `delta` behind its start
            Edit::Find(p, delta, b) => {
                if !p.is_empty() { if let Some(at) = d.windows(p.len()).position(|w| w == &p[..]) {
                    for (k, x) in b.iter().enumerate() { let i = at + *delta as usize + k; if i < d.len() { d[i] = *x; } }
                } }
            }
        }
    }
    let _ = std::fs::write(path, d);
}
/// open + scans + lookups + writes + close; (calls that returned Ok, calls that returned Err)
fn run_script(dir: &Path, wal: bool) -> (u32, u32) {
    let (mut ok, mut er) = (0u32, 0u32);
    let mut tally = |r: bool| { if r { ok += 1 } else { er += 1 } };
    let db = match Database::open(dir) { Ok(d) => { tally(true); d } Err(_) => { tally(false); return (ok, er); } };
    if wal { tally(db.execute("PRAGMA wal=ON").is_ok()); }
    for op in SCRIPT {
        let (code, sql) = op.split_at(2);
        if std::env::var("C23_DEBUG").is_ok() { eprintln!("op: {}", op); }
        let r = if code.starts_with('Q') { db.query(sql).map(|_| ()) } else { db.execute(sql).map(|_| ()) };
        if let Err(e) = &r { if std::env::var("C23_DEBUG").is_ok() { eprintln!("script op failed: {} : {:#}", op, e); } }
        tally(r.is_ok());
    }
    tally(db.checkpoint().is_ok());
    tally(db.close().is_ok());
    (ok, er)
}
fn worker_main(a: &Args) {
    install_site_hook();
    let base = a.out.clone();
    // templates: built by the parent once (--tmpl DIR), or here when run by hand
    let tmpl: PathBuf = match a.rest.iter().position(|x| x == "--tmpl").and_then(|i| a.rest.get(i + 1)) {
        Some(p) => PathBuf::from(p),
        None => { build_templates(&base); base.clone() }
    };
    let stdin = std::io::stdin();
    let stdout = std::io::stdout();
    println!("READY");
    let _ = stdout.lock().flush();
    let mut n = 0u64;
    for line in stdin.lock().lines() {
        let line = match line { Ok(l) => l, Err(_) => break };
        // <template> <relative file> <edits>
        let mut it = line.splitn(3, ' ');
        let t: u32 = it.next().and_then(|x| x.parse().ok()).unwrap_or(0);
        let f = it.next().unwrap_or("").to_string();
        let es = parse_edits(it.next().unwrap_or(""));
        n += 1;
        let dir = base.join(format!("db{}", n));
        let _ = std::fs::remove_dir_all(&dir);
        copy_dir(&tmpl.join(format!("tmpl{}", t.min(1))), &dir).expect("copy template");
        if !f.is_empty() && !f.contains("..") { apply_edits(&dir.join(&f), &es); }
        let d2 = dir.clone();
        let r = std::panic::catch_unwind(std::panic::AssertUnwindSafe(|| run_script(&d2, t == 1)));
        let _ = std::fs::remove_dir_all(&dir);
        match r {
            Ok((ok, er)) => { println!("R ok {} {}", ok, er); let _ = stdout.lock().flush(); }
            Err(_) => { println!("R panic {}", take_site()); let _ = stdout.lock().flush(); return; }
        }
    }
}

// ---------------------------------------------------------------- parent side
struct Worker { child: Child, rx: mpsc::Receiver<String>, dir: PathBuf }
fn tmp_base() -> PathBuf { let shm = Path::new("/dev/shm"); if shm.is_dir() { shm.to_path_buf() } else { PathBuf::from("/verif/build/tmp") } }
impl Worker {
    fn spawn(tag: &str, tmpl: &Path) -> Worker {
        let dir = tmp_base().join(format!("c23-{}-{}", std::process::id(), tag));
        let _ = std::fs::remove_dir_all(&dir);
        std::fs::create_dir_all(&dir).expect("worker dir");
        let exe = std::env::current_exe().expect("exe");
        // address-space limit: a runaway allocation must end as an abort of the child, not as memory pressure on the machine
        let mut child = Command::new("sh").arg("-c").arg("ulimit -v 4000000; exec \"$0\" worker --out \"$1\" --tmpl \"$2\"").arg(exe).arg(&dir).arg(tmpl)
            .stdin(Stdio::piped()).stdout(Stdio::piped()).stderr(Stdio::null()).spawn().expect("spawn worker");
        let out = child.stdout.take().unwrap();
        let (tx, rx) = mpsc::channel();
        std::thread::spawn(move || { for l in BufReader::new(out).lines() { match l { Ok(l) => { if tx.send(l).is_err() { break; } } Err(_) => break } } });
        let w = Worker { child, rx, dir };
        match w.rx.recv_timeout(Duration::from_secs(300)) { Ok(l) if l == "READY" => {}, other => panic!("worker did not start: {:?}", other) }
        w
    }
    fn run(&mut self, line: &str, timeout: Duration) -> XOut {
        let sin = self.child.stdin.as_mut().unwrap();
        if writeln!(sin, "{}", line).and_then(|_| sin.flush()).is_err() { return XOut::Abort; }
        match self.rx.recv_timeout(timeout) {
            Ok(l) => {
                if let Some(r) = l.strip_prefix("R ok ") {
                    let mut it = r.split(' ');
                    XOut::Ok(it.next().and_then(|x| x.parse().ok()).unwrap_or(0), it.next().and_then(|x| x.parse().ok()).unwrap_or(0))
                } else if let Some(r) = l.strip_prefix("R panic ") { XOut::Panic(r.to_string()) } else { XOut::Abort }
            }
            Err(mpsc::RecvTimeoutError::Timeout) => XOut::Timeout,
            Err(mpsc::RecvTimeoutError::Disconnected) => XOut::Abort,
        }
    }
    fn kill(mut self) { let _ = self.child.kill(); let _ = self.child.wait(); let _ = std::fs::remove_dir_all(&self.dir); }
}
#[derive(Clone)]
struct DbCase { t: u32, f: String, es: Vec<Edit>, kind: &'static str }
fn db_line(c: &DbCase) -> String { format!("{} {} {}", c.t, c.f, edits_line(&c.es)) }
fn db_replay(c: &DbCase) -> String { format!("db t={} f={} e={}", c.t, c.f, edits_line(&c.es)) }
fn parse_db(l: &str) -> Option<DbCase> {
    let r = l.strip_prefix("db ")?;
    let mut m: BTreeMap<&str, &str> = BTreeMap::new();
    for tok in r.split(' ') { if let Some((k, v)) = tok.split_once('=') { m.insert(k, v); } }
    Some(DbCase { t: m.get("t")?.parse().ok()?, f: m.get("f")?.to_string(), es: parse_edits(m.get("e").copied().unwrap_or("")), kind: "replay" })
}
fn run_db_cases(cases: &[DbCase], nw: usize, tmpl: &Path) -> Vec<XOut> {
    let n = cases.len();
    let mut results: Vec<Option<XOut>> = vec![None; n];
    let chunks: Vec<Vec<usize>> = (0..nw).map(|k| (0..n).filter(|i| i % nw == k).collect()).collect();
    let outs: Vec<Vec<(usize, XOut)>> = std::thread::scope(|sc| {
        let hs: Vec<_> = chunks.iter().enumerate().map(|(k, idxs)| {
            sc.spawn(move || {
                let mut res = vec![];
                if idxs.is_empty() { return res; }
                let mut gen = 0;
                let mut w = Worker::spawn(&format!("{}-{}", k, gen), tmpl);
                for &i in idxs {
                    let line = db_line(&cases[i]);
                    let mut o = w.run(&line, Duration::from_secs(5));
                    if o == XOut::Timeout {
                        // re-check alone with a generous limit: machine load must not look like a hang
                        w.kill(); gen += 1; w = Worker::spawn(&format!("{}-{}", k, gen), tmpl);
                        o = w.run(&line, Duration::from_secs(20));
                    }
                    if !matches!(o, XOut::Ok(..)) { w.kill(); gen += 1; w = Worker::spawn(&format!("{}-{}", k, gen), tmpl); }
                    res.push((i, o));
                }
                w.kill();
                res
            })
        }).collect();
        hs.into_iter().map(|h| h.join().expect("worker thread")).collect()
    });
    for v in outs { for (i, o) in v { results[i] = Some(o); } }
    results.into_iter().map(|o| o.unwrap_or(XOut::Abort)).collect()
}
/// kind of the corrupted file: 1 turdb.meta, 2 turdb.catalog, 3 table .tbd, 4 toast .tbd, 5 .idx, 6 wal segment, 7 system table, 8 other
fn file_kind(f: &str) -> u32 {
    if f == "turdb.meta" { 1 } else if f == "turdb.catalog" { 2 } else if f.starts_with("wal/") || f.starts_with("wal\\") { 6 }
    else if f.starts_with("turdb_catalog/") { 7 } else if f.ends_with("_toast.tbd") { 4 } else if f.ends_with(".tbd") { 3 } else if f.ends_with(".idx") { 5 } else { 8 }
}
/// where the (first) edit lands: 1 file header (first 128 bytes), 2 page header (first 16 bytes of a page), 3 slot area (first 1 KiB
/// of a page), 4 elsewhere in a page, 5 truncation, 6 extension, 7 page copy
fn region(e: &Edit) -> u32 {
    let at = |o: u64| if o < 128 { 1 } else if o % 16384 < 16 { 2 } else if o % 16384 < 1024 { 3 } else { 4 };
    match e { Edit::Set(o, _) => at(*o), Edit::Fill(o, _, _) => at(*o), Edit::Trunc(_) => 5, Edit::Ext(_) => 6, Edit::Copy(..) => 7, Edit::Find(..) => 8 }
}
fn db_feat(c: &DbCase) -> Vec<u64> {
    let e = c.es.first();
    // a pattern edit lands somewhere in the body of the file: reported as offset 128 (behind the file header)
    let off = match e { Some(Edit::Set(o, _)) | Some(Edit::Fill(o, _, _)) => *o, Some(Edit::Trunc(n)) => *n, Some(Edit::Find(..)) => 128, _ => 0 };
    vec![file_kind(&c.f) as u64, e.map(region).unwrap_or(0) as u64, c.t as u64, off / 16384, off % 16384]
}
const ODD16: [u64; 14] = [0, 1, 15, 16, 24, 2045, 2046, 4096, 8191, 16383, 16384, 16385, 32768, 65535];
/// the byte range of the value of a random cell of a leaf page of the template file, if the page is a leaf with cells
fn cell_value_range(base: &Path, t: u32, f: &str, pg: u64, rng: &mut Rng) -> Option<(u64, u64)> {
    use std::io::{Read, Seek, SeekFrom};
    let mut file = std::fs::File::open(base.join(format!("tmpl{}", t)).join(f)).ok()?;
    file.seek(SeekFrom::Start(pg * 16384)).ok()?;
    let mut page = vec![0u8; PAGE];
    file.read_exact(&mut page).ok()?;
    let leaf = LeafNode::from_page(&page).ok()?;
    let n = leaf.cell_count() as u64;
    if n == 0 || n > 2000 { return None; }
    let i = rng.below(n) as usize;
    let v = leaf.value_at(i).ok()?;
    let start = v.as_ptr() as usize - page.as_ptr() as usize;
    Some((pg * 16384 + start as u64, v.len() as u64))
}
fn gen_db_case(rng: &mut Rng, files: &[Vec<(String, u64)>], base: &Path) -> DbCase {
    let t = if rng.chance(1, 4) { 1 } else { 0 };
    let fs = &files[t as usize];
    // weight small control files up, they are few among many page files
    let f = if rng.chance(1, 6) { fs.iter().find(|x| x.0 == "turdb.catalog").unwrap_or(&fs[0]) }
            else if rng.chance(1, 12) { fs.iter().find(|x| x.0 == "turdb.meta").unwrap_or(&fs[0]) }
            else if t == 1 && rng.chance(1, 2) { let ws: Vec<&(String, u64)> = fs.iter().filter(|x| x.0.starts_with("wal/")).collect(); if ws.is_empty() { rng.pick(fs) } else { *rng.pick(&ws) } }
            else { rng.pick(fs) };
    let len = f.1;
    let pages = (len / 16384).max(1);
    // page 0 carries the file header; the tree pages follow
    let pg = if pages > 1 && rng.chance(4, 5) { 1 + rng.below(pages - 1) } else { rng.below(pages) };
    let off_in = |rng: &mut Rng| -> u64 { match rng.below(5) { 0 => rng.below(128.min(len.max(1))), 1 => pg * 16384 + rng.below(16), 2 => pg * 16384 + 16 + rng.below(200), _ => rng.below(len.max(1)) } };
    let (es, kind): (Vec<Edit>, &'static str) = match *rng.pick(&[0u64, 1, 2, 3, 4, 5, 5, 5, 6, 6, 6, 7, 8, 9, 10, 11, 12, 13, 13, 13]) {
        13 => {
            // the stored record (or index payload) of one cell: header length, null bitmap, offset table, first bytes
            match cell_value_range(base, t, &f.0, pg, rng) {
                Some((st, ln)) if ln > 0 => {
                    let k = rng.below(ln.min(12));
                    let v: Vec<u8> = match rng.below(4) { 0 => vec![255], 1 => vec![rng.next() as u8, rng.next() as u8], 2 => vec![0, 0, 0, 0], _ => vec![200] };
                    (vec![Edit::Set(st + k, v)], "db_record_edit")
                }
                _ => { let o = off_in(rng); (vec![Edit::Set(o, vec![255, 255])], "db_random_bytes") }
            }
        }
        0 | 1 => { let o = off_in(rng); (vec![Edit::Set(o, vec![0]), Edit::Copy(o, o, 0)], "db_bitflip") }   // placeholder, replaced below
        2 => { let o = off_in(rng); let n = 1 + rng.below(8) as usize; (vec![Edit::Set(o, rng.bytes(n))], "db_random_bytes") }
        3 => { let n = *rng.pick(&[16u64, 128, 4096, 16384]); let o = if rng.chance(1, 2) { pg * 16384 } else { rng.below(len.max(1)) }; (vec![Edit::Fill(o, n, 0)], "db_zero_run") }
        4 => { let n = *rng.pick(&[16u64, 128, 4096, 16384]); let o = if rng.chance(1, 2) { pg * 16384 } else { rng.below(len.max(1)) }; (vec![Edit::Fill(o, n, 255)], "db_ff_run") }
        5 => { let fo = *rng.pick(&[2u64, 4, 6, 12]); let v = *rng.pick(&ODD16); (vec![Edit::Set(pg * 16384 + fo, le(v, 2))], "db_page_header_field") }
        6 => { let j = rng.below(40); let ss = *rng.pick(&[8u64, 12]); let base = if ss == 8 { 24 } else { 16 }; let v = *rng.pick(&ODD16);
               (vec![Edit::Set(pg * 16384 + base + j * ss + ss - 4 + 2 * rng.below(2), le(v, 2))], "db_slot_field") }
        7 => { let fo = *rng.pick(&[16u64, 20, 24, 32, 36, 40, 48, 56, 64, 72]); let v = odd_u64(rng); let n = *rng.pick(&[4usize, 8]); (vec![Edit::Set(fo, le(v, n))], "db_file_header_field") }
        8 => { let n = match rng.below(8) { 0 => 0, 1 => 1, 2 => 127, 3 => 128, 4 => 16383, 5 => len.saturating_sub(1), 6 => pg * 16384, _ => rng.below(len.max(1)) }; (vec![Edit::Trunc(n)], "db_truncate") }
        9 => { let n = if rng.chance(1, 3) { 16384 } else { 1 + rng.below(100) as usize }; (vec![Edit::Ext(if n == 16384 { vec![rng.next() as u8; 64] } else { rng.bytes(n) })], "db_extend") }
        10 => { let o = off_in(rng); let n = 16 + rng.below(48) as usize; (vec![Edit::Set(o, rng.bytes(n))], "db_random_run") }
        11 => { let a = rng.below(pages); (vec![Edit::Copy(a * 16384, pg * 16384, 16384)], "db_page_copy") }
        _ => { let o = pg * 16384 + 16 + rng.below(16368); let v: Vec<u8> = match rng.below(4) { 0 => vec![255; 9], 1 => vec![251, 255, 255, 255, 255], 2 => vec![249, 255, 255], _ => vec![250, 255, 255, 255] }; (vec![Edit::Set(o, v)], "db_varint") }
    };
    let (es, kind) = if f.0 == "turdb.catalog" && rng.chance(1, 3) {
        // the type byte behind a column name (u16 length + name): another valid DataType
        let name = *rng.pick(&["id", "a", "b", "c", "d", "bo", "j", "x", "y", "k", "v", "n"]);
        let mut pat = le(name.len() as u64, 2); pat.extend_from_slice(name.as_bytes());
        let ty = *rng.pick(&[0u8, 1, 2, 3, 5, 10, 13, 20, 21, 22, 23, 31, 71]);
        (vec![Edit::Find(pat, 2 + name.len() as u64, vec![ty])], "db_catalog_column_type")
    } else { (es, kind) };
    let mut c = DbCase { t, f: f.0.clone(), es, kind };
    if kind == "db_bitflip" {
        // a bit flip needs the current byte: expressed as xor through the template's bytes at generation time
        let o = match &c.es[0] { Edit::Set(o, _) => *o, _ => 0 };
        c.es = vec![Edit::Set(o, vec![0]), Edit::Fill(0, 0, (1u8) << rng.below(8))];
    }
    c
}
/// bit flips are resolved against the template bytes so that the replay line carries the final byte
fn resolve_bitflips(cases: &mut [DbCase], base: &Path) {
    for c in cases.iter_mut() {
        if c.kind != "db_bitflip" { continue; }
        let (o, mask) = match (&c.es[0], &c.es[1]) { (Edit::Set(o, _), Edit::Fill(_, _, m)) => (*o, *m), _ => continue };
        let d = std::fs::read(base.join(format!("tmpl{}", c.t)).join(&c.f)).unwrap_or_default();
        let cur = d.get(o as usize).copied().unwrap_or(0);
        c.es = vec![Edit::Set(o, vec![cur ^ mask])];
    }
}
/// harness-side classification of an exploration outcome (for `search` lines; authoritative: Corr/C23.v xp_class)
fn db_class(feat: &[u64], o: &XOut) -> u32 {
    let fk = feat.first().copied().unwrap_or(0);
    let off = feat.get(3).copied().unwrap_or(0) * 16384 + feat.get(4).copied().unwrap_or(0);
    let page_file = matches!(fk, 3 | 4 | 5 | 7);
    let (site, cls) = match o { XOut::Panic(m) => { let mut it = m.splitn(2, " | "); let loc = it.next().unwrap_or(""); (file_code(loc), msg_class(it.next().unwrap_or(""))) } _ => (0, 0) };
    match o {
        XOut::Panic(_) if page_file && matches!(site, 9 | 14 | 22) && cls == 4 => 14,
        XOut::Panic(_) if fk == 2 && off >= 128 && matches!(site, 9 | 10 | 11 | 22) && cls == 4 => 15,
        _ => 0,
    }
}
fn push_db(w: &mut CaseWriter, c: &DbCase, o: &XOut) {
    let f: Vec<String> = db_feat(c).iter().map(|x| x.to_string()).collect();
    let term = format!("Xp 2 {} {}", clist(&f), xout_term(o));
    w.push(term, db_replay(c), true, c.kind);
}
/// the file lists of the two templates (built once in a scratch directory by this process)
fn template_files() -> (PathBuf, Vec<Vec<(String, u64)>>) {
    let base = tmp_base().join(format!("c23-{}-parent", std::process::id()));
    let _ = std::fs::remove_dir_all(&base);
    std::fs::create_dir_all(&base).expect("parent dir");
    build_templates(&base);
    let mut files = vec![];
    for t in 0..2 { let mut v = vec![]; list_files(&base.join(format!("tmpl{}", t)), Path::new(""), &mut v); files.push(v); }
    (base, files)
}
fn probe(a: &Args) {
    let (base, files) = template_files();
    for (t, fs) in files.iter().enumerate() { for (f, l) in fs { println!("tmpl{} {} {}", t, f, l); } }
    let mut rng = Rng::new(a.seed);
    let mut cases: Vec<DbCase> = (0..a.budget.min(100_000) as usize).map(|_| gen_db_case(&mut rng, &files, &base)).collect();
    resolve_bitflips(&mut cases, &base);
    let outs = run_db_cases(&cases, 6, &base);
    let mut tally: BTreeMap<String, u32> = BTreeMap::new();
    for (c, o) in cases.iter().zip(outs.iter()) {
        let key = match o { XOut::Ok(a, b) => format!("ok {} {}", a, b), XOut::Panic(m) => format!("PANIC {}", m), XOut::Timeout => "TIMEOUT".into(), XOut::Abort => "ABORT".into() };
        let e = tally.entry(key.clone()).or_insert(0);
        *e += 1;
        if *e <= 3 && !matches!(o, XOut::Ok(..)) { println!("{} <= {}", key, db_replay(c)); }
    }
    for (k, v) in &tally { println!("{:6} {}", v, k); }
    let _ = std::fs::remove_dir_all(&base);
}

// ====================================================================== main
fn main() {
    let a = Args::parse();
    match a.mode.as_str() {
        "gen" => gen(&a),
        "search" => search(&a),
        "worker" => worker_main(&a),
        "probe" => probe(&a),
        _ => { eprintln!("c23: unknown mode"); std::process::exit(2); }
    }
}

fn site_key(o: &XOut) -> String {
    match o {
        XOut::Ok(..) => "returned".into(),
        XOut::Panic(m) => { let loc = m.split(" | ").next().unwrap_or("?"); let mut it = loc.rsplitn(2, ':'); let _col = it.next(); format!("panic {}", it.next().unwrap_or(loc).trim_start_matches("/repo/")) }
        XOut::Timeout => "timeout".into(),
        XOut::Abort => "abort".into(),
    }
}
struct Plan { decs: Vec<DecCase>, fks: Vec<FkCase>, jbs: Vec<JbCase>, dbs: Vec<DbCase>, n_db: usize }

fn gen(a: &Args) {
    install_site_hook();
    let mut rng = Rng::new(a.seed);
    let mut w = CaseWriter::new(&a.out, "C23", "Corr.C23", 400);
    let mut plan = Plan { decs: vec![], fks: vec![], jbs: vec![], dbs: vec![], n_db: 0 };
    match a.replay_lines() {
        Some(ls) => {
            for l in &ls {
                let l = l.split(" class=").next().unwrap_or(l);
                if let Some(c) = parse_dec(l) { plan.decs.push(c); }
                else if let Some(c) = parse_fk(l) { plan.fks.push(c); }
                else if let Some(c) = parse_jb(l) { plan.jbs.push(c); }
                else if let Some(c) = parse_db(l) { plan.dbs.push(c); }
            }
        }
        None => {
            plan.decs = dec_cases(&mut rng, a.thorough());
            fk_cases(&mut rng, if a.thorough() { 3000 } else { 80 }, &mut plan.fks);
            jb_cases(&mut rng, if a.thorough() { 5000 } else { 120 }, &mut plan.jbs);
            plan.n_db = if a.thorough() { 4000 } else { 36 };
        }
    }
    let mut panics: BTreeMap<u32, u64> = BTreeMap::new();
    for c in &plan.decs {
        if let Obs::Panic(_) = push_dec(&mut w, c) { *panics.entry(dec_class(c.w, &c.d, &c.args)).or_insert(0) += 1; }
    }
    let mut sites: BTreeMap<String, u64> = BTreeMap::new();
    for c in &plan.fks { let o = push_fk(&mut w, c); *sites.entry(format!("find_key: {}", site_key(&o))).or_insert(0) += 1; }
    for c in &plan.jbs { let o = push_jb(&mut w, c); *sites.entry(format!("jsonb: {}", site_key(&o))).or_insert(0) += 1; }
    if plan.n_db > 0 || !plan.dbs.is_empty() {
        let (base, files) = template_files();
        for _ in 0..plan.n_db { plan.dbs.push(gen_db_case(&mut rng, &files, &base)); }
        resolve_bitflips(&mut plan.dbs, &base);
        let nw = if plan.dbs.len() < 8 { 1 } else { 6 };
        let outs = run_db_cases(&plan.dbs, nw, &base);
        for (c, o) in plan.dbs.iter().zip(outs.iter()) { push_db(&mut w, c, o); *sites.entry(format!("database: {}", site_key(o))).or_insert(0) += 1; }
        let _ = std::fs::remove_dir_all(&base);
    }
    let pj: Vec<String> = panics.iter().map(|(k, v)| format!("\"{}\": {}", k, v)).collect();
    let sj: Vec<String> = sites.iter().map(|(k, v)| format!("{}: {}", jstr(k), v)).collect();
    w.finish(&[("decoder_panics_by_class".to_string(), format!("{{{}}}", pj.join(", "))),
               ("exploration_outcomes".to_string(), format!("{{{}}}", sj.join(", ")))]);
}

/// Oracle only (no model): no decoder call may panic; no exploration case may panic, abort or hang.
fn search(a: &Args) {
    install_site_hook();
    let mut rng = Rng::new(a.seed ^ 0xC23);
    let mut fails: Vec<String> = vec![];
    let mut tried: u64 = 0;
    let mut seen: BTreeMap<String, u32> = BTreeMap::new();
    let mut note = |key: String, line: String, fails: &mut Vec<String>| { let e = seen.entry(key).or_insert(0); *e += 1; if *e <= 2 && fails.len() < 80 { fails.push(line); } };
    let budget = a.budget.min(400_000);
    while tried < budget {
        for c in dec_cases(&mut rng, false) {
            tried += 1;
            if let Obs::Panic(_) = run_real(c.w, &c.d, &c.args, &c.key) {
                let cl = dec_class(c.w, &c.d, &c.args);
                note(format!("dec {} {}", c.w, cl), format!("{} class={}", dec_replay(&c, &describe(&c.d)), cl), &mut fails);
            }
        }
        let mut fks = vec![]; fk_cases(&mut rng, 500, &mut fks);
        for c in &fks { tried += 1; let o = run_fk(c); if !matches!(o, XOut::Ok(..)) { let cl = fk_class(c, &o); note(format!("fk {}", cl), format!("{} class={}", fk_replay(c, &describe(&c.d)), cl), &mut fails); } }
        let mut jbs = vec![]; jb_cases(&mut rng, 500, &mut jbs);
        for c in &jbs { tried += 1; let o = run_jb(c); if !matches!(o, XOut::Ok(..)) { let cl = jb_class(&o); note(format!("jb {}", cl), format!("{} class={}", jb_replay(&describe(&c.d)), cl), &mut fails); } }
    }
    // corrupted database directories: a tenth of the budget, at most 3000
    let n_db = (budget / 10).clamp(50, 3000) as usize;
    let (base, files) = template_files();
    let mut dbs: Vec<DbCase> = (0..n_db).map(|_| gen_db_case(&mut rng, &files, &base)).collect();
    resolve_bitflips(&mut dbs, &base);
    let outs = run_db_cases(&dbs, 6, &base);
    for (c, o) in dbs.iter().zip(outs.iter()) {
        tried += 1;
        if !matches!(o, XOut::Ok(..)) { let cl = db_class(&db_feat(c), o); note(format!("db {} {}", cl, site_key(o)), format!("{} class={}", db_replay(c), cl), &mut fails); }
    }
    let _ = std::fs::remove_dir_all(&base);
    let mut out = format!("tried={}\n", tried);
    for f in &fails { out.push_str("FAIL "); out.push_str(f); out.push('\n'); }
    std::fs::write(&a.out, out).expect("write search output");
}
