(* C41 correspondence: calendar converters of the implementation vs the regenerated models
   (Gen/Cal*.v) and vs the calendar Spec.  Evaluated by vm_compute; definitions only. *)
From Coq Require Import ZArith List Bool.
From TV Require Import Lib.MachInt Model.Calendar Model.CalendarImpl.
From TV Require Gen.CalLiteral Gen.CalDefault Gen.CalFunc.
Import ListNotations.
Open Scope Z_scope.

(* None = the call panicked *)
Inductive pres := PErr | POk (v : Z).     (* result of a text parser: error / value *)
Inductive case :=
| DateFns (y m d : Z) (lit def fn : option Z) (back : option (Z * Z * Z)) (dow doy : option Z)
| DateText (y m d : Z) (parse_lit parse_def : pres)           (* canonical text YYYY-MM-DD, any field values *)
| TimeText (h mi s us : Z) (parse_lit : pres)
| TsText (y m d h mi s us : Z) (parse_lit : pres)
| Civil (secs : Z) (out : option (Z * Z * Z * Z * Z * Z)).

Definition oz_eqb (a b : option Z) : bool :=
  match a, b with Some x, Some y => x =? y | None, None => true | _, _ => false end.
Definition ot_eqb (a b : option (Z * Z * Z)) : bool :=
  match a, b with Some x, Some y => triple_eqb x y | None, None => true | _, _ => false end.
Definition o6_eqb (a b : option (Z * Z * Z * Z * Z * Z)) : bool :=
  match a, b with Some x, Some y => six_eqb x y | None, None => true | _, _ => false end.
Definition pres_eqb (a b : pres) : bool :=
  match a, b with PErr, PErr => true | POk x, POk y => x =? y | _, _ => false end.
Definition guard (safe : bool) (v : Z) : option Z := if safe then Some v else None.
Definition of_opt (o : option Z) : pres := match o with Some v => POk v | None => PErr end.

Definition model_agrees (c : case) : bool :=
  match c with
  | DateFns y m d lit def fn back dow doy =>
      oz_eqb lit (guard (CalLiteral.date_to_days_since_epoch_safe y m d) (CalLiteral.date_to_days_since_epoch y m d)) &&
      oz_eqb def (guard (CalDefault.days_from_ymd_safe y m d) (CalDefault.days_from_ymd y m d)) &&
      oz_eqb fn (guard (CalFunc.date_to_days_safe y m d) (CalFunc.date_to_days y m d)) &&
      ot_eqb back (let n := CalFunc.date_to_days y m d in
                   if CalFunc.days_to_date_safe n then Some (CalFunc.days_to_date n) else None) &&
      oz_eqb dow (guard (CalFunc.day_of_week_safe y m d) (CalFunc.day_of_week y m d)) &&
      oz_eqb doy (guard (CalFunc.day_of_year_safe y m d) (CalFunc.day_of_year y m d))
  | DateText y m d pl pd =>
      pres_eqb pl (of_opt (lit_parse_fields y m d)) && pres_eqb pd (of_opt (default_parse_fields y m d))
  | TimeText h mi s us pl => pres_eqb pl (of_opt (lit_time_fields h mi s us))
  | TsText y m d h mi s us pl => pres_eqb pl (of_opt (lit_timestamp_fields y m d h mi s us))
  | Civil secs out =>
      o6_eqb out (if CalFunc.civil_from_unix_safe secs then Some (CalFunc.civil_from_unix secs) else None)
  end.

(* the property itself, on what the implementation returned; years 1..9999 *)
Definition valid_time (h mi s : Z) : bool :=
  (0 <=? h) && (h <=? 23) && (0 <=? mi) && (mi <=? 59) && (0 <=? s) && (s <=? 59).

Definition spec_ok (c : case) : bool :=
  match c with
  | DateFns y m d lit def fn back dow doy =>
      if valid_date y m d then
        let e := epoch_fast y m d in
        oz_eqb lit (Some e) && oz_eqb def (Some e) && oz_eqb fn (Some (e + 719163)) &&
        ot_eqb back (Some (y, m, d)) && oz_eqb dow (Some ((rata_fast y m d + 1) mod 7)) &&
        oz_eqb doy (Some (dbm_table (is_leap y) m + d))
      else true                               (* the helper functions promise nothing on impossible dates *)
  | DateText y m d pl pd =>
      if valid_date y m d then pres_eqb pl (POk (epoch_fast y m d)) && pres_eqb pd (POk (epoch_fast y m d))
      else pres_eqb pl PErr && pres_eqb pd PErr     (* invalid dates must be rejected *)
  | TimeText h mi s us pl =>
      if valid_time h mi s then pres_eqb pl (POk ((h * 3600 + mi * 60 + s) * 1000000 + us)) else pres_eqb pl PErr
  | TsText y m d h mi s us pl =>
      if valid_date y m d && valid_time h mi s
      then pres_eqb pl (POk (epoch_fast y m d * 86400000000 + ((h * 3600 + mi * 60 + s) * 1000000 + us)))
      else pres_eqb pl PErr
  | Civil secs out =>
      match out with
      | Some (y, m, d, h, mi, s) =>
          valid_date y m d && valid_time h mi s && (86400 * epoch_fast y m d + (3600 * h + 60 * mi + s) =? secs)
      | None => false
      end
  end.

(* no open finding: F-C41-1 and F-C41-2 are repaired by fix: commits (known_findings.d/C41.json) *)
Definition known_class (c : case) : Z := 0.

Fixpoint failures_from (i : Z) (cs : list case) : list (Z * bool * bool * Z) :=
  match cs with
  | [] => []
  | c :: t =>
      let m := model_agrees c in
      let s := spec_ok c in
      if m && s then failures_from (i + 1) t else (i, m, s, known_class c) :: failures_from (i + 1) t
  end.
Definition failures := failures_from 0.
