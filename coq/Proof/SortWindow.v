(* C15 proofs: the decision procedure [rows_chk] of Model/SortSpec.v decides the property
   [rows_spec] (the output is the window of SOME sorted arrangement; DISTINCT: of one element per
   output row).  Generic in the element type, for any total preorder given by a comparison. *)
From Coq Require Import ZArith List Bool Arith Lia Permutation Sorted.
From TV Require Import Model.KnnOrder Proof.KnnOrder.
From TV Require Import Model.SqlSpec Model.SortSpec.
Import ListNotations.
Open Scope nat_scope.

(* ------------------------------------------------------------------ list facts *)
Section ListFacts.
  Context {X : Type}.

  Lemma skipn_app_exact : forall o (S1 R : list X),
    length S1 = Nat.min o (length S1 + length R) -> skipn o (S1 ++ R) = R.
  Proof.
    intros o S1 R H. rewrite skipn_app.
    destruct (Nat.le_gt_cases o (length S1 + length R)) as [Hle|Hgt].
    - rewrite Nat.min_l in H by exact Hle. subst o.
      rewrite skipn_all, Nat.sub_diag. reflexivity.
    - rewrite Nat.min_r in H by lia. assert (length R = 0) by lia.
      destruct R; [|cbn in *; lia]. rewrite skipn_all2 by lia. rewrite skipn_nil. reflexivity.
  Qed.

  Lemma firstn_app_exact : forall k (S2 Z : list X),
    length S2 = Nat.min k (length S2 + length Z) -> firstn k (S2 ++ Z) = S2.
  Proof.
    intros k S2 Z H. rewrite firstn_app.
    destruct (Nat.le_gt_cases k (length S2 + length Z)) as [Hle|Hgt].
    - rewrite Nat.min_l in H by exact Hle. subst k.
      rewrite firstn_all, Nat.sub_diag. cbn [firstn]. apply app_nil_r.
    - rewrite Nat.min_r in H by lia. assert (length Z = 0) by lia.
      destruct Z; [|cbn in *; lia]. rewrite firstn_nil, app_nil_r. apply firstn_all2. lia.
  Qed.

  (* a list is its prefix, its window and what follows the window *)
  Definition after_window (o : nat) (l : option nat) (xs : list X) : list X :=
    match l with None => [] | Some k => skipn k (skipn o xs) end.
  Lemma window_split : forall o l (xs : list X),
    xs = firstn o xs ++ window o l xs ++ after_window o l xs.
  Proof.
    intros o l xs. unfold window, after_window. destruct l as [k|].
    - rewrite firstn_skipn, firstn_skipn. reflexivity.
    - rewrite app_nil_r, firstn_skipn. reflexivity.
  Qed.

  Lemma In_window : forall o l (xs : list X) y, In y (window o l xs) -> In y xs.
  Proof.
    intros o l xs y H. rewrite (window_split o l xs). apply in_or_app. right. apply in_or_app. left. exact H.
  Qed.

  (* three pieces of the lengths of prefix / window / rest: the window is the middle piece *)
  Lemma window_of_shape : forall o l (xs S1 S2 S3 : list X),
    length S1 = length (firstn o xs) -> length S2 = length (window o l xs) ->
    length S3 = length (after_window o l xs) ->
    window o l (S1 ++ S2 ++ S3) = S2.
  Proof.
    intros o l xs S1 S2 S3 H1 H2 H3.
    assert (Hx : length xs = length S1 + (length S2 + length S3)).
    { rewrite (window_split o l xs) at 1. rewrite !app_length. lia. }
    rewrite firstn_length in H1.
    assert (Hs : skipn o (S1 ++ S2 ++ S3) = S2 ++ S3).
    { apply skipn_app_exact. rewrite app_length. lia. }
    unfold window. rewrite Hs. destruct l as [k|].
    - apply firstn_app_exact. unfold window in H2. rewrite firstn_length, skipn_length in H2. lia.
    - unfold after_window in H3. cbn [length] in H3. destruct S3; [|discriminate]. apply app_nil_r.
  Qed.

  Lemma Forall2_firstn : forall (R : X -> X -> Prop) n l l', Forall2 R l l' -> Forall2 R (firstn n l) (firstn n l').
  Proof.
    intros R n l l' H. revert n. induction H; intros [|n]; cbn [firstn]; constructor; auto.
  Qed.
  Lemma Forall2_skipn : forall (R : X -> X -> Prop) n l l', Forall2 R l l' -> Forall2 R (skipn n l) (skipn n l').
  Proof.
    intros R n l l' H. revert n. induction H; intros [|n]; cbn [skipn]; try constructor; auto.
  Qed.
  Lemma Forall2_window : forall (R : X -> X -> Prop) o l xs ys,
    Forall2 R xs ys -> Forall2 R (window o l xs) (window o l ys).
  Proof.
    intros R o l xs ys H. unfold window. destruct l; [apply Forall2_firstn|]; apply Forall2_skipn; exact H.
  Qed.
  Lemma Forall2_app_split : forall (R : X -> X -> Prop) T Xs Ys, Forall2 R T (Xs ++ Ys) ->
    Forall2 R (firstn (length Xs) T) Xs /\ Forall2 R (skipn (length Xs) T) Ys.
  Proof.
    intros R T Xs. revert T. induction Xs as [|x Xs IH]; intros T Ys H; cbn [app length firstn skipn] in *.
    - split; [constructor|exact H].
    - inversion H as [|t ? T' ? Ht HT]; subst. cbn [firstn skipn]. destruct (IH _ _ HT) as [H1 H2].
      split; [constructor; assumption|exact H2].
  Qed.
  Lemma Forall2_len : forall (R : X -> X -> Prop) l l', Forall2 R l l' -> length l = length l'.
  Proof. intros R l l' H. induction H; cbn [length]; congruence. Qed.
End ListFacts.

Section Decide.
  Context {A P : Type}.
  Variable cmp : A -> A -> comparison.
  Hypothesis Hcmp : cmp_total_preorder cmp.
  Variable pay : A -> P.
  Variable peqb : P -> P -> bool.
  Hypothesis peqb_spec : forall x y, peqb x y = true <-> x = y.

  Local Notation le := (cle cmp).
  Local Notation eqv := (fun a b => cmp a b = Eq).
  Local Notation sorted := (sorted_by cmp).

  (* ---------------- the equivalence induced by the comparison *)
  Lemma cmp_refl : forall a, cmp a a = Eq.
  Proof.
    intros a. destruct Hcmp as [Ha _]. specialize (Ha a a). destruct (cmp a a); cbn in Ha; congruence.
  Qed.
  Lemma cmp_eq_sym : forall a b, cmp a b = Eq -> cmp b a = Eq.
  Proof. intros a b H. destruct Hcmp as [Ha _]. rewrite (Ha a b), H. reflexivity. Qed.
  Lemma le_of_eq : forall a b, cmp a b = Eq -> le a b.
  Proof. intros a b H. unfold cle. congruence. Qed.
  Lemma eq_of_le : forall a b, le a b -> le b a -> cmp a b = Eq.
  Proof.
    intros a b H1 H2. unfold cle in *. destruct Hcmp as [Ha _]. rewrite (Ha a b) in H2.
    destruct (cmp a b); cbn in H2; congruence.
  Qed.
  Lemma cmp_eq_trans : forall a b c, cmp a b = Eq -> cmp b c = Eq -> cmp a c = Eq.
  Proof.
    intros a b c H1 H2. apply eq_of_le.
    - eapply (cle_trans cmp Hcmp); apply le_of_eq; eauto.
    - eapply (cle_trans cmp Hcmp); apply le_of_eq; apply cmp_eq_sym; eauto.
  Qed.
  Lemma key_eqv_iff : forall a b, key_eqv cmp a b = true <-> cmp a b = Eq.
  Proof. intros a b. unfold key_eqv. destruct (cmp a b); split; congruence. Qed.
  (* equivalent elements are in the same class as seen from any x *)
  Lemma key_eqv_congr : forall x a b, cmp a b = Eq -> key_eqv cmp x a = key_eqv cmp x b.
  Proof.
    intros x a b H. destruct (key_eqv cmp x a) eqn:E1, (key_eqv cmp x b) eqn:E2; try reflexivity.
    - apply key_eqv_iff in E1. rewrite (proj2 (key_eqv_iff x b)) in E2; [discriminate|].
      eapply cmp_eq_trans; eauto.
    - apply key_eqv_iff in E2. rewrite (proj2 (key_eqv_iff x a)) in E1; [discriminate|].
      eapply cmp_eq_trans; eauto. apply cmp_eq_sym. exact H.
  Qed.

  (* ---------------- counting the elements of a key class *)
  Fixpoint cnt (x : A) (l : list A) : nat :=
    match l with [] => O | y :: l' => (if key_eqv cmp x y then 1 else 0) + cnt x l' end.

  Lemma cnt_app : forall x l1 l2, cnt x (l1 ++ l2) = cnt x l1 + cnt x l2.
  Proof. intros x l1 l2. induction l1 as [|y l1 IH]; cbn [app cnt]; [reflexivity|]. rewrite IH. lia. Qed.
  Lemma cnt_perm : forall x l l', Permutation l l' -> cnt x l = cnt x l'.
  Proof. intros x l l' H. induction H; cbn [cnt]; lia. Qed.
  Lemma cnt_eqv : forall x l l', Forall2 eqv l l' -> cnt x l = cnt x l'.
  Proof.
    intros x l l' H. induction H as [|a b l l' Hab _ IH]; cbn [cnt]; [reflexivity|].
    rewrite (key_eqv_congr x a b Hab), IH. reflexivity.
  Qed.
  Lemma cnt_pos_in : forall x l, (0 < cnt x l)%nat -> exists y, In y l /\ cmp x y = Eq.
  Proof.
    intros x l. induction l as [|y l IH]; cbn [cnt]; intros H; [lia|].
    destruct (key_eqv cmp x y) eqn:E.
    - exists y. split; [left; reflexivity|apply key_eqv_iff; exact E].
    - destruct IH as [z [Hz Ez]]; [lia|]. exists z. split; [right; exact Hz|exact Ez].
  Qed.
  Lemma cnt_self : forall a l, (0 < cnt a (a :: l))%nat.
  Proof. intros a l. cbn [cnt]. rewrite (proj2 (key_eqv_iff a a) (cmp_refl a)). lia. Qed.

  (* ---------------- sorted lists *)
  Lemma sorted_head_le : forall a l y, sorted (a :: l) -> In y (a :: l) -> le a y.
  Proof.
    intros a l y Hs [<-|Hy].
    - apply le_of_eq, cmp_refl.
    - inversion Hs as [|? ? _ Hall]; subst. rewrite Forall_forall in Hall. apply Hall. exact Hy.
  Qed.

  (* two sorted lists with the same number of elements in every key class agree position by
     position up to key equivalence *)
  Lemma sorted_same_counts : forall X Y, sorted X -> sorted Y ->
    (forall x, cnt x X = cnt x Y) -> Forall2 eqv X Y.
  Proof.
    induction X as [|a X IH]; intros Y HX HY Hc.
    - destruct Y as [|b Y]; [constructor|]. specialize (Hc b). pose proof (cnt_self b Y). cbn [cnt] in *. lia.
    - destruct Y as [|b Y]; [specialize (Hc a); pose proof (cnt_self a X); cbn [cnt] in *; lia|].
      assert (Hab : cmp a b = Eq).
      { apply eq_of_le.
        - destruct (cnt_pos_in b (a :: X)) as [y [Hy Ey]]; [rewrite Hc; apply cnt_self|].
          eapply (cle_trans cmp Hcmp); [eapply sorted_head_le; eauto|]. apply le_of_eq, cmp_eq_sym, Ey.
        - destruct (cnt_pos_in a (b :: Y)) as [y [Hy Ey]]; [rewrite <- Hc; apply cnt_self|].
          eapply (cle_trans cmp Hcmp); [eapply sorted_head_le; eauto|]. apply le_of_eq, cmp_eq_sym, Ey. }
      constructor; [exact Hab|].
      inversion HX; inversion HY; subst. apply IH; auto.
      intros x. specialize (Hc x). cbn [cnt] in Hc. rewrite (key_eqv_congr x a b Hab) in Hc. lia.
  Qed.

  Lemma sorted_perm_pointwise : forall S I, sorted S -> sorted I -> Permutation S I -> Forall2 eqv S I.
  Proof. intros S I HS HI Hp. apply sorted_same_counts; auto. intros x. apply cnt_perm. exact Hp. Qed.

  Lemma Forall2_eqv_sym : forall l l', Forall2 eqv l l' -> Forall2 eqv l' l.
  Proof. intros l l' H. induction H; constructor; auto. apply cmp_eq_sym. assumption. Qed.
  Lemma Forall2_eqv_trans : forall l1 l2 l3, Forall2 eqv l1 l2 -> Forall2 eqv l2 l3 -> Forall2 eqv l1 l3.
  Proof.
    intros l1 l2 l3 H. revert l3. induction H; intros l3 H3; inversion H3; subst; constructor.
    - eapply cmp_eq_trans; eauto.
    - auto.
  Qed.
  Lemma Forall2_eqv_refl : forall l, Forall2 eqv l l.
  Proof. induction l; constructor; auto. apply cmp_refl. Qed.

  Lemma le_all_transfer : forall a b X Y, cmp a b = Eq -> Forall2 eqv X Y ->
    Forall (fun y => cmp a y <> Gt) X -> Forall (fun y => cmp b y <> Gt) Y.
  Proof.
    intros a b X Y Hab H. induction H as [|x y X Y Hxy _ IH]; intros HX; constructor; inversion HX; subst.
    - eapply (cle_trans cmp Hcmp); [apply le_of_eq, cmp_eq_sym, Hab|].
      eapply (cle_trans cmp Hcmp); [eassumption|apply le_of_eq, Hxy].
    - apply IH. assumption.
  Qed.
  Lemma sorted_transfer : forall X Y, Forall2 eqv X Y -> sorted X -> sorted Y.
  Proof.
    intros X Y H. induction H as [|a b X Y Hab HXY IH]; intros HS; [constructor|].
    inversion HS as [|? ? HsX Hall]; subst. constructor; [apply IH; exact HsX|].
    eapply le_all_transfer; eauto.
  Qed.

  Lemma sorted_app_iff : forall l1 l2, sorted (l1 ++ l2) <->
    sorted l1 /\ sorted l2 /\ (forall x y, In x l1 -> In y l2 -> le x y).
  Proof.
    induction l1 as [|a l1 IH]; intros l2; cbn [app].
    - split; [intros H; repeat split; [constructor|exact H|intros ? ? []]|intros (_ & H & _); exact H].
    - split.
      + intros H. inversion H as [|? ? Hs Hall]; subst. apply IH in Hs. destruct Hs as (H1 & H2 & H3).
        rewrite Forall_forall in Hall. repeat split; auto.
        * constructor; [exact H1|]. rewrite Forall_forall. intros y Hy. apply Hall. apply in_or_app. left. exact Hy.
        * intros x y [<-|Hx] Hy; [apply Hall; apply in_or_app; right; exact Hy|apply H3; assumption].
      + intros (H1 & H2 & H3). inversion H1 as [|? ? Hs Hall]; subst. constructor.
        * apply IH. repeat split; auto. intros x y Hx Hy. apply H3; [right; exact Hx|exact Hy].
        * rewrite Forall_forall in *. intros y Hy. apply in_app_or in Hy. destruct Hy as [Hy|Hy];
            [apply Hall; exact Hy|apply H3; [left; reflexivity|exact Hy]].
  Qed.
  (* cutting a segment out of a sorted list leaves a sorted list *)
  Lemma sorted_cut : forall l1 l2 l3, sorted (l1 ++ l2 ++ l3) -> sorted (l1 ++ l3).
  Proof.
    intros l1 l2 l3 H. apply sorted_app_iff in H. destruct H as (H1 & H23 & H4).
    apply sorted_app_iff in H23. destruct H23 as (_ & H3 & _).
    apply sorted_app_iff. repeat split; auto. intros x y Hx Hy. apply H4; [exact Hx|].
    apply in_or_app. right. exact Hy.
  Qed.

  Lemma isort_sorted_by : forall l, sorted (isort (c_less cmp) l).
  Proof. intros l. exact (isort_sorted cmp Hcmp l). Qed.

  (* ---------------- extract *)
  Lemma take_first_spec : forall p B e B', take_first pay peqb p B = Some (e, B') ->
    pay e = p /\ Permutation B (e :: B').
  Proof.
    intros p B. induction B as [|x B IH]; intros e B' H; cbn [take_first] in H; [discriminate|].
    destruct (peqb (pay x) p) eqn:E.
    - inversion H; subst. split; [apply peqb_spec; exact E|reflexivity].
    - destruct (take_first pay peqb p B) as [[y r]|] eqn:Et; [|discriminate]. inversion H; subst.
      destruct (IH _ _ eq_refl) as [Hp Hperm]. split; [exact Hp|].
      rewrite Hperm. apply perm_swap.
  Qed.

  Lemma extract_spec : forall rows B picked, extract pay peqb rows B = Some picked ->
    map pay picked = rows /\ exists rest, Permutation (picked ++ rest) B.
  Proof.
    induction rows as [|p rows IH]; intros B picked H; cbn [extract] in H.
    - inversion H; subst. split; [reflexivity|]. exists B. reflexivity.
    - destruct (take_first pay peqb p B) as [[e B']|] eqn:Et; [|discriminate].
      destruct (extract pay peqb rows B') as [es|] eqn:Ee; [|discriminate]. inversion H; subst.
      destruct (take_first_spec _ _ _ _ Et) as [Hp Hperm].
      destruct (IH _ _ Ee) as [Hm [rest Hr]]. split; [cbn [map]; congruence|].
      exists rest. cbn [app]. rewrite Hperm. constructor. exact Hr.
  Qed.

  (* counting output rows *)
  Fixpoint cntp (p : P) (l : list P) : nat :=
    match l with [] => O | q :: l' => (if peqb q p then 1 else 0) + cntp p l' end.
  Lemma cntp_app : forall p l1 l2, cntp p (l1 ++ l2) = cntp p l1 + cntp p l2.
  Proof. intros p l1 l2. induction l1 as [|q l1 IH]; cbn [app cntp]; [reflexivity|]. rewrite IH. lia. Qed.
  Lemma cntp_perm : forall p l l', Permutation l l' -> cntp p l = cntp p l'.
  Proof. intros p l l' H. induction H; cbn [cntp]; lia. Qed.
  Lemma peqb_refl : forall p, peqb p p = true.
  Proof. intros p. apply peqb_spec. reflexivity. Qed.

  Lemma take_first_some : forall p B, (0 < cntp p (map pay B))%nat ->
    exists e B', take_first pay peqb p B = Some (e, B').
  Proof.
    intros p B. induction B as [|x B IH]; cbn [map cntp take_first]; intros H; [lia|].
    destruct (peqb (pay x) p) eqn:E; [eauto|].
    destruct IH as [e [B' Ht]]; [lia|]. rewrite Ht. eauto.
  Qed.

  Lemma extract_some : forall rows B, (forall p, cntp p rows <= cntp p (map pay B))%nat ->
    exists picked, extract pay peqb rows B = Some picked.
  Proof.
    induction rows as [|p rows IH]; intros B H; cbn [extract]; [eauto|].
    destruct (take_first_some p B) as [e [B' Ht]].
    { specialize (H p). cbn [cntp] in H. rewrite peqb_refl in H. lia. }
    rewrite Ht. destruct (take_first_spec _ _ _ _ Ht) as [Hp Hperm].
    destruct (IH B') as [es He].
    { intros q. specialize (H q). cbn [cntp] in H.
      rewrite (cntp_perm q _ _ (Permutation_map pay Hperm)) in H. cbn [map cntp] in H. rewrite Hp in H. lia. }
    rewrite He. eauto.
  Qed.

  Lemma cntp_firstn_le : forall p n l, (cntp p (firstn n l) <= cntp p l)%nat.
  Proof. intros p n l. rewrite <- (firstn_skipn n l) at 2. rewrite cntp_app. lia. Qed.
  Lemma cntp_skipn_le : forall p n l, (cntp p (skipn n l) <= cntp p l)%nat.
  Proof. intros p n l. rewrite <- (firstn_skipn n l) at 2. rewrite cntp_app. lia. Qed.
  Lemma cntp_window_le : forall p o l xs, (cntp p (window o l xs) <= cntp p xs)%nat.
  Proof.
    intros p o l xs. unfold window. destruct l as [k|].
    - etransitivity; [apply cntp_firstn_le|apply cntp_skipn_le].
    - apply cntp_skipn_le.
  Qed.
  Lemma map_window : forall o l (xs : list A), map pay (window o l xs) = window o l (map pay xs).
  Proof.
    intros o l xs. unfold window. destruct l; rewrite ?skipn_map, ?firstn_map; reflexivity.
  Qed.

  Lemma forall2b_iff : forall (f : A -> A -> bool) xs ys,
    forall2b f xs ys = true <-> Forall2 (fun a b => f a b = true) xs ys.
  Proof.
    intros f xs. induction xs as [|x xs IH]; intros [|y ys]; cbn [forall2b]; split; intros H;
      try discriminate; try constructor; try (inversion H; fail).
    - apply andb_prop in H. tauto.
    - apply IH. apply andb_prop in H. tauto.
    - inversion H; subst. apply andb_true_intro. split; [assumption|apply IH; assumption].
  Qed.
  Lemma Forall2_key_eqv : forall xs ys,
    Forall2 (fun a b => key_eqv cmp a b = true) xs ys <-> Forall2 eqv xs ys.
  Proof.
    intros xs ys. split; intros H; induction H; constructor; auto; apply key_eqv_iff; assumption.
  Qed.

  (* ---------------- soundness: an accepted answer is the window of a sorted arrangement *)
  Lemma chk_sound_base : forall D o l rows picked,
    extract pay peqb rows D = Some picked ->
    Forall2 eqv picked (window o l (isort (c_less cmp) D)) ->
    exists S, Permutation S D /\ sorted S /\ rows = map pay (window o l S).
  Proof.
    intros D o l rows picked He Hw.
    destruct (extract_spec _ _ _ He) as [Hm [rest Hr]].
    set (I := isort (c_less cmp) D) in *.
    set (Pre := firstn o I). set (W := window o l I) in *. set (Post := after_window o l I).
    assert (HI : I = Pre ++ W ++ Post) by apply window_split.
    assert (HsI : sorted I) by apply isort_sorted_by.
    set (T := isort (c_less cmp) rest).
    assert (HsT : sorted T) by apply isort_sorted_by.
    assert (HT : Forall2 eqv T (Pre ++ Post)).
    { apply sorted_same_counts; [exact HsT|rewrite HI in HsI; eapply sorted_cut; exact HsI|].
      intros x. unfold T. rewrite (cnt_perm x _ _ (isort_perm (c_less cmp) rest)).
      pose proof (cnt_perm x _ _ Hr) as H1. rewrite cnt_app in H1.
      pose proof (cnt_perm x _ _ (isort_perm (c_less cmp) D)) as H2. fold I in H2.
      rewrite HI in H2. rewrite !cnt_app in H2. rewrite (cnt_eqv x _ _ Hw) in H1. rewrite cnt_app. lia. }
    destruct (Forall2_app_split _ _ _ _ HT) as [H1 H3].
    set (p := length Pre) in *.
    exists (firstn p T ++ picked ++ skipn p T). split; [|split].
    - rewrite Permutation_app_swap_app. rewrite firstn_skipn.
      rewrite <- Hr. apply Permutation_app_head. apply isort_perm.
    - apply (sorted_transfer I); [|exact HsI]. rewrite HI. apply Forall2_eqv_sym.
      apply Forall2_app; [exact H1|apply Forall2_app; [exact Hw|exact H3]].
    - rewrite (window_of_shape o l I).
      + symmetry. exact Hm.
      + apply (Forall2_len _ _ _ H1).
      + apply (Forall2_len _ _ _ Hw).
      + apply (Forall2_len _ _ _ H3).
  Qed.

  (* ---------------- completeness: the window of a sorted arrangement is accepted *)
  Lemma same_pay_eqv : forall B xs ys, pay_fixes_key cmp pay peqb B = true ->
    map pay xs = map pay ys -> (forall x, In x xs -> In x B) -> (forall y, In y ys -> In y B) ->
    Forall2 eqv xs ys.
  Proof.
    intros B xs ys Hg. revert ys. induction xs as [|x xs IH]; intros [|y ys] Hm Hx Hy; cbn [map] in Hm;
      try discriminate; constructor; injection Hm as Hp Hm'.
    - unfold pay_fixes_key in Hg. rewrite forallb_forall in Hg.
      specialize (Hg x (Hx x (or_introl eq_refl))). rewrite forallb_forall in Hg.
      specialize (Hg y (Hy y (or_introl eq_refl))).
      rewrite Hp in Hg. rewrite peqb_refl in Hg. cbn [implb] in Hg. apply key_eqv_iff. exact Hg.
    - apply IH; [exact Hm'|intros; apply Hx; right; assumption|intros; apply Hy; right; assumption].
  Qed.

  Lemma chk_complete_base : forall B D S o l,
    pay_fixes_key cmp pay peqb B = true ->
    (forall e, In e D -> In e B) -> (forall e, In e S -> In e B) ->
    sorted S -> (forall x, cnt x S = cnt x D) ->
    (forall p, cntp p (map pay S) <= cntp p (map pay D))%nat ->
    exists picked, extract pay peqb (map pay (window o l S)) D = Some picked /\
                   Forall2 eqv picked (window o l (isort (c_less cmp) D)).
  Proof.
    intros B D S o l Hg HD HS Hs Hc Hp.
    destruct (extract_some (map pay (window o l S)) D) as [picked He].
    { intros q. rewrite map_window. etransitivity; [apply cntp_window_le|apply Hp]. }
    exists picked. split; [exact He|].
    destruct (extract_spec _ _ _ He) as [Hm [rest Hr]].
    apply (Forall2_eqv_trans _ (window o l S)).
    - apply (same_pay_eqv B); [exact Hg|exact Hm| |].
      + intros x Hx. apply HD. apply (Permutation_in _ Hr). apply in_or_app. left. exact Hx.
      + intros y Hy. apply HS. eapply In_window; eauto.
    - apply Forall2_window. apply sorted_same_counts; [exact Hs|apply isort_sorted_by|].
      intros x. rewrite Hc. symmetry. apply cnt_perm. apply isort_perm.
  Qed.

  (* ---------------- DISTINCT: first occurrences *)
  Lemma existsb_peqb : forall p seen, existsb (peqb p) seen = true <-> In p seen.
  Proof.
    intros p seen. rewrite existsb_exists. split.
    - intros [q [Hq E]]. apply peqb_spec in E. subst. exact Hq.
    - intros H. exists p. split; [exact H|apply peqb_refl].
  Qed.

  Lemma dedupe_spec : forall B seen,
    NoDup (map pay (dedupe pay peqb seen B)) /\
    (forall e, In e (dedupe pay peqb seen B) -> In e B /\ ~ In (pay e) seen) /\
    (forall e, In e B -> In (pay e) seen \/ In (pay e) (map pay (dedupe pay peqb seen B))).
  Proof.
    induction B as [|x B IH]; intros seen; cbn [dedupe map].
    - split; [constructor|split; intros e []].
    - destruct (existsb (peqb (pay x)) seen) eqn:E.
      + apply existsb_peqb in E. destruct (IH seen) as (H1 & H2 & H3). split; [exact H1|split].
        * intros e He. destruct (H2 e He) as [Ha Hb]. split; [right; exact Ha|exact Hb].
        * intros e [<-|He]; [left; exact E|apply H3; exact He].
      + assert (Hn : ~ In (pay x) seen) by (rewrite <- existsb_peqb; congruence).
        destruct (IH (pay x :: seen)) as (H1 & H2 & H3). cbn [map]. split; [|split].
        * constructor; [|exact H1]. intros Hin. apply in_map_iff in Hin. destruct Hin as [e [Epe He]].
          apply H2 in He. destruct He as [_ He]. apply He. left. congruence.
        * intros e [<-|He]; [split; [left; reflexivity|exact Hn]|].
          destruct (H2 e He) as [Ha Hb]. split; [right; exact Ha|]. intros Hc. apply Hb. right. exact Hc.
        * intros e [<-|He]; [right; left; reflexivity|].
          destruct (H3 e He) as [[Hc|Hc]|Hc]; [right; left; congruence|left; exact Hc|right; right; exact Hc].
  Qed.

  (* DISTINCT returns each distinct row exactly once: the base of a DISTINCT query *)
  Lemma dedupe_distinct_l : forall B,
    NoDup (map pay (dedupe pay peqb [] B)) /\
    (forall e, In e (dedupe pay peqb [] B) -> In e B) /\
    (forall e, In e B -> In (pay e) (map pay (dedupe pay peqb [] B))).
  Proof.
    intros B. destruct (dedupe_spec B []) as (H1 & H2 & H3). repeat split; auto.
    - intros e He. apply H2. exact He.
    - intros e He. destruct (H3 e He) as [[]|H]. exact H.
  Qed.

  (* ---------------- the two directions for a whole result *)
  Theorem rows_chk_sound_l : forall distinct B o l rows,
    rows_chk cmp pay peqb distinct B o l rows = true -> rows_spec cmp pay distinct B o l rows.
  Proof.
    intros distinct B o l rows H. unfold rows_chk in H.
    destruct (extract pay peqb rows (base pay peqb distinct B)) as [picked|] eqn:He; [|discriminate].
    apply forall2b_iff, Forall2_key_eqv in H.
    destruct (chk_sound_base _ _ _ _ _ He H) as [S (Hperm & Hs & Hrows)].
    exists S. split; [|split; [exact Hs|exact Hrows]].
    unfold picks, base in *. destruct distinct; [|exact Hperm].
    destruct (dedupe_distinct_l B) as (H1 & H2 & H3). repeat split.
    - eapply Permutation_NoDup; [|exact H1]. apply Permutation_map. symmetry. exact Hperm.
    - intros e He'. apply H2. eapply Permutation_in; eauto.
    - intros e He'. eapply Permutation_in; [apply Permutation_map; symmetry; exact Hperm|]. apply H3. exact He'.
  Qed.

  Theorem rows_chk_complete_l : forall distinct B o l rows,
    pay_fixes_key cmp pay peqb B = true ->
    rows_spec cmp pay distinct B o l rows -> rows_chk cmp pay peqb distinct B o l rows = true.
  Proof.
    intros distinct B o l rows Hg [S (Hpick & Hs & Hrows)]. unfold rows_chk. subst rows.
    assert (Hbase : exists picked,
      extract pay peqb (map pay (window o l S)) (base pay peqb distinct B) = Some picked /\
      Forall2 eqv picked (window o l (isort (c_less cmp) (base pay peqb distinct B)))).
    { unfold picks, base in *. destruct distinct.
      - destruct Hpick as (N1 & I1 & C1). destruct (dedupe_distinct_l B) as (N2 & I2 & C2).
        set (D := dedupe pay peqb [] B) in *.
        assert (Hpp : Permutation (map pay S) (map pay D)).
        { apply NoDup_Permutation; auto. intros p. split; intros Hp; apply in_map_iff in Hp;
            destruct Hp as [e [<- He]]; [apply C2, I1, He|apply C1, I2, He]. }
        destruct (Permutation_map_inv _ _ Hpp) as [D' [Hm HD']].
        apply (chk_complete_base B); auto.
        + intros x. rewrite (cnt_perm x _ _ HD'). apply cnt_eqv.
          apply (same_pay_eqv B); auto. intros y Hy. apply I2. eapply Permutation_in; [symmetry; exact HD'|exact Hy].
        + intros p. rewrite (cntp_perm p _ _ Hpp). lia.
      - apply (chk_complete_base B); auto.
        + intros e He. eapply Permutation_in; eauto.
        + intros x. apply cnt_perm. exact Hpick.
        + intros p. rewrite (cntp_perm p _ _ (Permutation_map pay Hpick)). lia. }
    destruct Hbase as [picked [He Hw]]. rewrite He. apply forall2b_iff, Forall2_key_eqv. exact Hw.
  Qed.

  (* without LIMIT / OFFSET and without DISTINCT: accepted = a sorted permutation *)
  Corollary full_sort_chk_l : forall B rows,
    rows_chk cmp pay peqb false B 0 None rows = true ->
    exists S, Permutation S B /\ sorted S /\ rows = map pay S.
  Proof.
    intros B rows H. apply rows_chk_sound_l in H. destruct H as [S (Hp & Hs & Hr)].
    exists S. repeat split; auto.
  Qed.
End Decide.
