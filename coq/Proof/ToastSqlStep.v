(* C11 proofs, part 4: every step of Model/ToastSql.v keeps the invariant "each row shows the value of the
   last successful write to its key - inline, or through a pointer under the chunk id of its own row id
   whose chunks are all in the toast table - and every chunk in the toast table belongs to such a row";
   under it no toast write can meet an occupied key.  (A re-executed prepared INSERT stores inline, but since
   cc39952 only values that neither need TOAST nor look like a pointer reach it.) *)
From Coq Require Import ZArith List Bool Lia ZifyBool.
From TV Require Import Lib.MachInt Lib.MachIntFacts Gen.Toast Model.Toast Model.Utf8 Model.ToastSql
  Proof.ToastCodec Proof.ToastStore Proof.ToastSqlBase.
Import ListNotations.
Open Scope Z_scope.

Arguments Z.div : simpl never.
Arguments Z.modulo : simpl never.
Arguments Z.mul : simpl never.
Arguments Z.add : simpl never.
Arguments Z.sub : simpl never.
Arguments Z.pow : simpl never.
Arguments Z.leb : simpl never.
Arguments Z.ltb : simpl never.
Arguments Z.geb : simpl never.
Arguments Z.gtb : simpl never.
Arguments Z.eqb : simpl never.
Arguments Z.of_nat : simpl never.
Arguments Z.to_nat : simpl never.
Arguments wrap_u : simpl never.

(* a 17-byte 0xFE-led string is not UTF-8: text never looks like a TOAST pointer *)
Lemma utf8_not_pointer b : valid_utf8 b = true -> is_toast_pointer b = false.
Proof.
  intros Hu. destruct (is_toast_pointer b) eqn:Ep; [|reflexivity]. exfalso.
  unfold is_toast_pointer in Ep. apply andb_true_iff in Ep as [_ E]. apply Z.eqb_eq in E.
  destruct b as [|b0 t]; [discriminate E|]. unfold bidx in E. change (nth (Z.to_nat 0) (b0 :: t) 0) with b0 in E. subst b0.
  unfold valid_utf8 in Hu. destruct t as [|b1 [|b2 [|b3 t3]]]; discriminate Hu.
Qed.

Lemma pointer_nonempty b : is_toast_pointer b = true -> b <> [].
Proof. intros H ->. discriminate H. Qed.

Lemma nodup_map_inj {A} (f : A -> Z) (l : list A) x y : NoDup (map f l) -> In x l -> In y l -> f x = f y -> x = y.
Proof.
  induction l as [|h t IH]; intros Hn Hx Hy E; [destruct Hx|].
  cbn [map] in Hn. inversion Hn as [|? ? Hh Ht]; subst.
  destruct Hx as [<-|Hx]; destruct Hy as [<-|Hy]; auto.
  - exfalso. apply Hh. rewrite E. now apply in_map.
  - exfalso. apply Hh. rewrite <- E. now apply in_map.
Qed.

(* row lists: the same facts for any projection *)
Lemma ins_row_map_in (f : row -> Z) x rs y : In y (map f (ins_row x rs)) <-> y = f x \/ In y (map f rs).
Proof.
  rewrite !in_map_iff. split.
  - intros (r & E & H). apply ins_row_in in H as [->|H]; [left; auto | right; eauto].
  - intros [->|(r & E & H)]; [exists x | exists r]; (split; [auto | apply ins_row_in; auto]).
Qed.
Lemma ins_row_nodup_f (f : row -> Z) x rs : NoDup (map f rs) -> ~ In (f x) (map f rs) -> NoDup (map f (ins_row x rs)).
Proof.
  induction rs as [|h t IH]; cbn [ins_row map]; intros Hn Hx.
  - constructor; [intros [] | constructor].
  - destruct (r_k x <=? r_k h).
    + cbn [map]. constructor; [exact Hx | exact Hn].
    + cbn [map]. inversion Hn as [|? ? Hh Ht]; subst. constructor.
      * intros H. apply ins_row_map_in in H as [E|H]; [apply Hx; left; auto | contradiction].
      * apply IH; [exact Ht | intros H; apply Hx; now right].
Qed.
Lemma set_row_rids k s rs : map r_rid (set_row k s rs) = map r_rid rs.
Proof.
  induction rs as [|h t IH]; cbn [set_row map]; [reflexivity|].
  destruct (r_k h =? k); cbn [map r_rid]; [reflexivity | now rewrite IH].
Qed.
Lemma set_row_keeps k s rs r : In r rs -> r_k r <> k -> In r (set_row k s rs).
Proof.
  induction rs as [|h t IH]; cbn [set_row]; intros Hin Hk; [destruct Hin|].
  destruct (Z.eqb_spec (r_k h) k) as [E|E].
  - destruct Hin as [<-|Hin]; [contradiction | now right].
  - destruct Hin as [<-|Hin]; [now left | right; auto].
Qed.
Lemma set_row_has k s rs r : In r rs -> r_k r = k -> NoDup (map r_k rs) -> In (mkrow (r_rid r) k s) (set_row k s rs).
Proof.
  induction rs as [|h t IH]; cbn [set_row map]; intros Hin Hk Hn; [destruct Hin|].
  inversion Hn as [|? ? Hh Ht]; subst.
  destruct (Z.eqb_spec (r_k h) (r_k r)) as [E|E].
  - destruct Hin as [<-|Hin]; [now left|]. exfalso. apply Hh. rewrite E. now apply in_map.
  - destruct Hin as [<-|Hin]; [contradiction | right; auto].
Qed.
Lemma del_row_keeps k rs r : In r rs -> r_k r <> k -> In r (del_row k rs).
Proof.
  induction rs as [|h t IH]; cbn [del_row]; intros Hin Hk; [destruct Hin|].
  destruct (Z.eqb_spec (r_k h) k) as [E|E].
  - destruct Hin as [<-|Hin]; [contradiction | exact Hin].
  - destruct Hin as [<-|Hin]; [now left | right; auto].
Qed.
Lemma del_row_map_incl (f : row -> Z) k rs y : In y (map f (del_row k rs)) -> In y (map f rs).
Proof.
  induction rs as [|h t IH]; cbn [del_row map]; [auto|].
  destruct (r_k h =? k); [now right|]. cbn [map]. intros [H|H]; [now left | right; auto].
Qed.
Lemma del_row_nodup_f (f : row -> Z) k rs : NoDup (map f rs) -> NoDup (map f (del_row k rs)).
Proof.
  induction rs as [|h t IH]; cbn [del_row map]; intros Hn; [constructor|].
  inversion Hn as [|? ? Hh Ht]; subst.
  destruct (r_k h =? k); [exact Ht|]. cbn [map]. constructor; [|auto].
  intros H. apply Hh. eapply del_row_map_incl. exact H.
Qed.

Section Step.
Variable ty : colty.
Variable pk : bool.

Definition R (m : tmap) (r : row) (e : Z * value) : Prop := r_k r = fst e /\ repr ty m (r_rid r) (r_st r) (snd e).
Lemma R_key m r e : R m r e -> r_k r = fst e.
Proof. intros [H _]. exact H. Qed.

(* every chunk in the toast table is one of the chunks some row's pointer refers to *)
Definition owned (m : tmap) (rs : list row) : Prop :=
  forall k x, m k = Some x -> exists r n, In r rs /\ span (r_st r) = Some (fst k, n) /\ 0 <= snd k < n.

Record Inv (st : state) (e : list (Z * value)) : Prop := mkInv {
  inv_rows : Forall2 (R (toast st)) (rows st) e;
  inv_keys : NoDup (map r_k (rows st));
  inv_ridnd : NoDup (map r_rid (rows st));
  inv_rid : 1 <= next_rid st;
  inv_rids : forall r, In r (rows st) -> 0 <= r_rid r < next_rid st;     (* row keys come from the counter *)
  inv_gone : forall x, In x (gone st) -> 0 <= x < next_rid st;
  inv_owned : owned (toast st) (rows st)
}.

Lemma Forall2_in_l {A B} (P : A -> B -> Prop) l l' a : Forall2 P l l' -> In a l -> exists b, In b l' /\ P a b.
Proof.
  induction 1 as [|x y l l' H _ IH]; intros Hin; [destruct Hin|].
  destruct Hin as [<-|Hin]; [exists y; split; [now left | exact H]|].
  destruct (IH Hin) as (b & Hb & Hp). exists b. split; [now right | exact Hp].
Qed.

Lemma inv_row_repr st e r : Inv st e -> In r (rows st) -> exists x, In x e /\ R (toast st) r x.
Proof. intros Hi Hin. eapply Forall2_in_l; [exact (inv_rows st e Hi) | exact Hin]. Qed.

Lemma inv_rid48 st e r : Inv st e -> next_rid st <= 2 ^ 48 -> In r (rows st) -> 0 <= r_rid r < 2 ^ 48.
Proof. intros Hi Hb Hin. pose proof (inv_rids st e Hi r Hin). lia. Qed.

(* a row's pointer is the only thing that can own keys of the row's chunk id *)
Lemma owner_is st e r k x : Inv st e -> next_rid st <= 2 ^ 48 -> In r (rows st) ->
  toast st k = Some x -> fst k = cid_row (r_rid r) ->
  exists n, span (r_st r) = Some (cid_row (r_rid r), n) /\ 0 <= snd k < n.
Proof.
  intros Hi Hb Hin Hk Hc. destruct (inv_owned st e Hi k x Hk) as (r' & n & Hin' & Hsp & Hi').
  destruct (inv_row_repr st e r' Hi Hin') as (x' & _ & _ & Hr').
  destruct (repr_span _ _ _ _ _ _ _ (inv_rid48 st e r' Hi Hb Hin') Hr' Hsp) as (Ec & _).
  rewrite Hc in Ec. apply cid_row_inj in Ec; [|eapply inv_rid48; eauto|eapply inv_rid48; eauto].
  assert (r = r') as <- by (eapply (nodup_map_inj r_rid); [exact (inv_ridnd st e Hi) | | |]; auto).
  exists n. rewrite <- Hc. auto.
Qed.

(* no key under the chunk id of a row id that no row has *)
Lemma key_free st e rid : Inv st e -> next_rid st <= 2 ^ 48 -> 0 <= rid < 2 ^ 48 ->
  (forall r, In r (rows st) -> r_rid r <> rid) -> forall i, toast st (cid_row rid, i) = None.
Proof.
  intros Hi Hb Hrid Hno i. destruct (toast st (cid_row rid, i)) as [x|] eqn:Hk; [exfalso|reflexivity].
  destruct (inv_owned st e Hi _ x Hk) as (r' & n & Hin' & Hsp & _). cbn [fst] in Hsp.
  destruct (inv_row_repr st e r' Hi Hin') as (x' & _ & _ & Hr').
  destruct (repr_span _ _ _ _ _ _ _ (inv_rid48 st e r' Hi Hb Hin') Hr' Hsp) as (Ec & _).
  apply cid_row_inj in Ec; [|exact Hrid|eapply inv_rid48; eauto]. apply (Hno r' Hin'). auto.
Qed.

(* ---------------------------------------------------------------- how a value enters the record *)
Lemma val_ok_len v b : val_ok ty v = true -> var_bytes v = Some b -> blen b < ALLOC_OK.
Proof.
  intros Hok Ev. destruct v; cbn [var_bytes] in Ev; try discriminate; injection Ev as ->;
    destruct ty; cbn [val_ok] in Hok; try discriminate; [apply andb_true_iff in Hok as [_ Hok]|]; lia.
Qed.

Lemma repr_inline m rid v b : val_ok ty v = true -> var_bytes v = Some b -> is_toast_pointer b = false ->
  repr ty m rid (SBytes b) v.
Proof.
  intros Hok Hv Hp. destruct v; cbn [var_bytes] in Hv; try discriminate; injection Hv as ->.
  - destruct ty; cbn [val_ok] in Hok; try discriminate. apply andb_true_iff in Hok as [H1 H2].
    cbn [repr]. repeat split; auto; [lia|]. left. auto.
  - destruct ty; cbn [val_ok] in Hok; try discriminate.
    cbn [repr]. repeat split; auto; [lia|]. left. auto.
Qed.

Lemma repr_toasted m rid v b : val_ok ty v = true -> var_bytes v = Some b -> b <> [] ->
  stored_at m (cid_row rid) b -> repr ty m rid (SBytes (ptr_encode (blen b) (cid_row rid))) v.
Proof.
  intros Hok Hv Hn Hs. destruct v; cbn [var_bytes] in Hv; try discriminate; injection Hv as ->.
  - destruct ty; cbn [val_ok] in Hok; try discriminate. apply andb_true_iff in Hok as [H1 H2].
    cbn [repr]. repeat split; auto; [lia|]. right. auto.
  - destruct ty; cbn [val_ok] in Hok; try discriminate.
    cbn [repr]. repeat split; auto; [lia|]. right. auto.
Qed.

Lemma repr_scalar m rid v : val_ok ty v = true -> var_bytes v = None -> repr ty m rid (store_scalar v) v.
Proof.
  intros Hok Hv.
  destruct v; cbn [var_bytes] in Hv; try discriminate; cbn [store_scalar repr];
    destruct ty; cbn [val_ok] in Hok; try discriminate; auto.
Qed.

Lemma span_scalar v : span (store_scalar v) = None.
Proof. destruct v; reflexivity. Qed.

(* toast_value as INSERT / UPDATE use it, when no key of the row's chunk id is in the table: it cannot fail *)
Lemma put_value_ok upd m rid v :
  val_ok ty v = true -> 0 <= rid < 2 ^ 48 -> (forall i, m (cid_row rid, i) = None) ->
  exists m' s, put_value upd m rid v = (m', Some s) /\ extends m m' /\ repr ty m' rid s v /\
    (forall k x, m' k = Some x -> m k = Some x \/ (exists n, span s = Some (cid_row rid, n) /\ fst k = cid_row rid /\ 0 <= snd k < n)).
Proof.
  intros Hok Hrid Hfree. unfold put_value. fold (cid_row rid).
  destruct (var_bytes v) as [b|] eqn:Ev.
  - pose proof (val_ok_len v b Hok Ev) as Hl.
    destruct (needs_toast b || ptr_like upd v b) eqn:En.
    + destruct (toast_write_fresh m (cid_row rid) b Hl Hfree) as [m' Hw]. rewrite Hw.
      assert (b <> []) as Hne.
      { apply orb_true_iff in En as [En|En].
        - apply needs_toast_iff in En. intros ->. rewrite blen_nil in En. lia.
        - apply pointer_nonempty. unfold ptr_like in En. destruct v; try exact En. destruct upd; [discriminate | exact En]. }
      assert (blen b < 2 ^ 40) as Hl40 by (unfold ALLOC_OK in Hl; change (2 ^ 31) with 2147483648 in Hl; change (2 ^ 40) with 1099511627776; lia).
      exists m', (SBytes (ptr_encode (blen b) (cid_row rid))). split; [reflexivity|].
      split; [eapply write_extends; exact Hw|]. split.
      * apply repr_toasted; auto. eapply toast_write_stored; eauto.
      * intros k x Hk. destruct (toast_write_keys m (cid_row rid) b m' true Hl40 Hw k x Hk) as [A|[A B]]; [now left|right].
        exists (chunk_count (blen b)). rewrite span_encode by (auto using blen_u64, cid_row_bound). auto.
    + apply orb_false_iff in En as [_ Ep].
      assert (is_toast_pointer b = false) as Hnp.
      { destruct v; cbn [var_bytes] in Ev; try discriminate; injection Ev as ->; unfold ptr_like in Ep.
        - destruct ty; cbn [val_ok] in Hok; try discriminate. apply andb_true_iff in Hok as [Hu _]. now apply utf8_not_pointer.
        - exact Ep. }
      exists m, (SBytes b). split; [reflexivity|]. split; [apply extends_refl|]. split; [now apply repr_inline|].
      intros k x Hk. now left.
  - exists m, (store_scalar v). split; [reflexivity|]. split; [apply extends_refl|]. split; [now apply repr_scalar|].
    intros k x Hk. now left.
Qed.

Lemma put_value_cached_spec m v m' sv :
  val_ok ty v = true -> (forall b, var_bytes v = Some b -> is_toast_pointer b = false) ->
  put_value_cached m v = (m', sv) ->
  m' = m /\ match sv with Some s => (forall rid, repr ty m rid s v) /\ span s = None | None => True end.
Proof.
  intros Hok Hnp H. unfold put_value_cached in H.
  destruct (var_bytes v) as [b|] eqn:Ev.
  - destruct (blen b <=? INLINE_MAX); injection H as <- <-; split; auto.
    split; [intros rid; apply repr_inline; auto|]. unfold span. now rewrite (Hnp b eq_refl).
  - injection H as <- <-. split; auto. split; [intros rid; now apply repr_scalar | apply span_scalar].
Qed.

(* the row insert cannot meet an existing row key *)
Lemma rid_unused st e : Inv st e -> has_rid (next_rid st) (rows st) || existsb (Z.eqb (next_rid st)) (gone st) = false.
Proof.
  intros Hi. apply orb_false_iff. split.
  - pose proof (inv_rids st e Hi) as H. induction (rows st) as [|h t IH]; [reflexivity|].
    cbn [has_rid]. apply orb_false_iff. split.
    + pose proof (H h (or_introl eq_refl)). lia.
    + apply IH. intros r Hr. apply H. now right.
  - pose proof (inv_gone st e Hi) as H. induction (gone st) as [|h t IH]; [reflexivity|].
    cbn [existsb]. apply orb_false_iff. split.
    + pose proof (H h (or_introl eq_refl)). lia.
    + apply IH. intros r Hr. apply H. now right.
Qed.

(* ---------------------------------------------------------------- delete_toast_chunks for the old value of a row *)
Lemma drop_old_spec st e r :
  Inv st e -> next_rid st <= 2 ^ 48 -> In r (rows st) ->
  let m1 := drop_old (toast st) (r_st r) in
  (forall i, m1 (cid_row (r_rid r), i) = None) /\
  (forall r' x, In r' (rows st) -> r_k r' <> r_k r -> R (toast st) r' x -> R m1 r' x) /\
  (forall k x, m1 k = Some x -> toast st k = Some x /\ fst k <> cid_row (r_rid r)).
Proof.
  intros Hi Hb Hin m1. pose proof (inv_rid48 st e r Hi Hb Hin) as Hrid.
  assert (forall r', In r' (rows st) -> r_k r' <> r_k r -> cid_row (r_rid r') <> cid_row (r_rid r)) as Hother.
  { intros r' Hin' Hk E. apply cid_row_inj in E; [|eapply inv_rid48; eauto|exact Hrid].
    apply Hk. f_equal. eapply (nodup_map_inj r_rid); [exact (inv_ridnd st e Hi) | | |]; auto. }
  destruct (span (r_st r)) as [[c n]|] eqn:Hsp.
  - (* the old value is a pointer: its chunks go *)
    destruct (inv_row_repr st e r Hi Hin) as (x0 & _ & _ & Hr0).
    destruct (repr_span _ _ _ _ _ _ _ Hrid Hr0 Hsp) as (-> & b & -> & Es & Hs & Hne & Hl).
    assert (m1 = del_chunks (toast st) (cid_row (r_rid r)) (chunk_count (blen b))) as Em.
    { unfold m1, drop_old. rewrite Es, ptr_encode_is_pointer. apply del_pointer_encode; auto using blen_u64, cid_row_bound. }
    rewrite Em. split; [|split].
    + intros i. destruct (toast st (cid_row (r_rid r), i)) as [x|] eqn:Hk.
      * destruct (owner_is st e r _ x Hi Hb Hin Hk eq_refl) as (n' & Hsp' & Hi'). rewrite Hsp in Hsp'. injection Hsp' as <-.
        cbn [snd] in Hi'. now apply del_chunks_gone.
      * unfold del_chunks. destruct (_ && _); [reflexivity | exact Hk].
    + intros r' x Hin' Hk [A B]. split; [exact A|]. apply repr_del; [now apply Hother | exact B].
    + intros k x Hk. apply del_chunks_sub in Hk as [Hk Hno]. split; [exact Hk|]. intros Hc.
      destruct (owner_is st e r k x Hi Hb Hin Hk Hc) as (n' & Hsp' & Hi'). rewrite Hsp in Hsp'. injection Hsp' as <-.
      apply Hno. split; [exact Hc | lia].
  - (* inline or scalar: nothing is deleted, and no chunk belongs to this row *)
    assert (m1 = toast st) as Em.
    { unfold m1, drop_old. unfold span in Hsp. destruct (r_st r) as [|b0|]; auto.
      destruct (is_toast_pointer b0) eqn:Ep; auto. destruct (is_pointer_decodes b0 Ep) as (t0 & c0 & Ed). rewrite Ed in Hsp. discriminate. }
    rewrite Em. split; [|split].
    + intros i. destruct (toast st (cid_row (r_rid r), i)) as [x|] eqn:Hk; [exfalso|reflexivity].
      destruct (owner_is st e r _ x Hi Hb Hin Hk eq_refl) as (n' & Hsp' & _). rewrite Hsp in Hsp'. discriminate.
    + auto.
    + intros k x Hk. split; [exact Hk|]. intros Hc.
      destruct (owner_is st e r k x Hi Hb Hin Hk Hc) as (n' & Hsp' & _). rewrite Hsp in Hsp'. discriminate.
Qed.

(* ---------------------------------------------------------------- the oracle, one step at a time *)
Definition spec_step (e : list (Z * value)) (o : op) (ob : sobs) : option (list (Z * value)) :=
  match o, ob with
  | OIns _ k v, SWrote true => Some (exp_ins k v e)
  | OUpd _ k v, SWrote true => Some (exp_set k v e)
  | ODel k, SWrote true => Some (exp_del k e)
  | OIns _ _ _, SWrote false | OUpd _ _ _, SWrote false | ODel _, SWrote false => Some e
  | OReopen, SReopened true => Some e
  | OSkip, SSkipped => Some e
  | OQuery _, SRows r => if rows_eqb r e then Some e else None
  | _, _ => None
  end.

Lemma spec_from_step e o ob t :
  spec_from e ((o, ob) :: t) = match spec_step e o ob with Some e' => spec_from e' t | None => false end.
Proof.
  destruct o; destruct ob; cbn [spec_from spec_step]; try reflexivity;
    try (destruct ok; reflexivity).
  destruct (rows_eqb rows e); reflexivity.
Qed.

Ltac fin_same Hsame :=
  split; [reflexivity|]; split; [apply Hsame; reflexivity|];
  cbn [dead next_rid rows toast]; repeat split; auto.

(* ---------------------------------------------------------------- INSERT *)
Lemma step_ins_ok st e p k v st' ob :
  Inv st e -> val_ok ty v = true -> ~ In k (map r_k (rows st)) -> next_rid st < 2 ^ 48 ->
  step_ins st p k v = (st', ob) ->
  exists e', spec_step e (OIns p k v) ob = Some e' /\ Inv st' e' /\
             dead st' = dead st /\ next_rid st' = next_rid st + 1 /\
             (forall y, In y (map r_k (rows st')) -> y = k \/ In y (map r_k (rows st))).
Proof.
  intros Hi Hok Hfresh Hrid H. pose proof (inv_rid st e Hi) as Hr1.
  unfold step_ins in H. rewrite (rid_unused st e Hi) in H.
  set (cached := (match p with PS => ins_cached st | _ => false end) && negb (wants_toast v)) in H.
  set (ic := match p with PS => true | _ => ins_cached st end) in H.
  assert (forall stx, rows stx = rows st -> toast stx = toast st -> next_rid stx = next_rid st + 1 -> gone stx = gone st -> Inv stx e) as Hsame.
  { intros stx E1 E2 E3 E4. constructor; rewrite ?E1, ?E2, ?E3, ?E4; auto;
      [exact (inv_rows st e Hi) | exact (inv_keys st e Hi) | exact (inv_ridnd st e Hi) | lia
      | intros r Hin; pose proof (inv_rids st e Hi r Hin); lia
      | intros x Hin; pose proof (inv_gone st e Hi x Hin); lia
      | exact (inv_owned st e Hi)]. }
  (* the value write: never fails on the ordinary path; leaves a row that shows v *)
  assert (exists m' sv, (if cached then put_value_cached (toast st) v else put_value false (toast st) (next_rid st) v) = (m', sv) /\
          extends (toast st) m' /\
          match sv with
          | Some s => repr ty m' (next_rid st) s v /\
                      (forall k0 x, m' k0 = Some x -> toast st k0 = Some x \/
                         (exists n, span s = Some (cid_row (next_rid st), n) /\ fst k0 = cid_row (next_rid st) /\ 0 <= snd k0 < n))
          | None => m' = toast st
          end) as (m' & sv & Ems & Hext & Hsv).
  { destruct cached eqn:Ec.
    - destruct (put_value_cached (toast st) v) as [m' sv] eqn:Ep. exists m', sv. split; [reflexivity|].
      assert (forall b, var_bytes v = Some b -> is_toast_pointer b = false) as Hnp.
      { intros b Eb. unfold cached in Ec. apply andb_true_iff in Ec as [_ Ew]. apply negb_true_iff in Ew.
        destruct v; cbn [var_bytes] in Eb; try discriminate; injection Eb as ->; cbn [wants_toast] in Ew.
        - destruct ty; cbn [val_ok] in Hok; try discriminate. apply andb_true_iff in Hok as [Hu _]. now apply utf8_not_pointer.
        - apply orb_false_iff in Ew as [_ Ew]. exact Ew. }
      destruct (put_value_cached_spec (toast st) v m' sv Hok Hnp Ep) as [-> Hs].
      split; [apply extends_refl|]. destruct sv as [s|]; [|reflexivity]. destruct Hs as [Hs1 Hs2].
      split; [apply Hs1|]. intros k0 x Hk0. now left.
    - destruct (put_value_ok false (toast st) (next_rid st) v Hok ltac:(lia)) as (m' & s & Ep & Hex & Hrp & Hks).
      + apply (key_free st e (next_rid st) Hi); [lia | lia |]. intros r Hin. pose proof (inv_rids st e Hi r Hin). lia.
      + exists m', (Some s). auto. }
  rewrite Ems in H. cbn [fst snd] in H.
  destruct sv as [s|].
  - destruct Hsv as [Hrepr Hks]. injection H as <- <-. exists (exp_ins k v e).
    split; [reflexivity|].
    split; [|cbn [dead next_rid rows]; repeat split; auto; intros y Hy; apply ins_row_keys_in in Hy; exact Hy].
    constructor; cbn [rows toast next_rid gone].
    + apply (F2_ins (R m') (R_key m')).
      * eapply (F2_impl (R (toast st)) (R m')); [exact (inv_rows st e Hi)|].
        intros r x _ [A B]. split; [exact A | eapply repr_extends; eauto].
      * split; [reflexivity | exact Hrepr].
    + apply ins_row_nodup; [exact (inv_keys st e Hi) | exact Hfresh].
    + apply ins_row_nodup_f; [exact (inv_ridnd st e Hi)|]. cbn [r_rid]. intros Hin. apply in_map_iff in Hin as (r & E & Hr).
      pose proof (inv_rids st e Hi r Hr). lia.
    + lia.
    + intros r Hin. apply ins_row_in in Hin as [->|Hin]; [cbn [r_rid]; lia|]. pose proof (inv_rids st e Hi r Hin). lia.
    + intros x Hin. pose proof (inv_gone st e Hi x Hin). lia.
    + intros k0 x Hk0. destruct (Hks k0 x Hk0) as [Hold|(n & Hsp & Hc & Hn)].
      * destruct (inv_owned st e Hi k0 x Hold) as (r & n & Hin & Hsp & Hn). exists r, n. split; [apply ins_row_in; now right | auto].
      * exists (mkrow (next_rid st) k s), n. split; [apply ins_row_in; now left|]. cbn [r_st]. rewrite Hc. auto.
  - subst m'. injection H as <- <-. exists e. fin_same Hsame.
Qed.

(* ---------------------------------------------------------------- UPDATE *)
Lemma step_upd_ok st e p k v st' ob :
  Inv st e -> val_ok ty v = true -> next_rid st <= 2 ^ 48 ->
  step_upd pk st p k v = (st', ob) ->
  exists e', spec_step e (OUpd p k v) ob = Some e' /\ Inv st' e' /\
             dead st' = dead st /\ next_rid st' = next_rid st /\
             map r_k (rows st') = map r_k (rows st).
Proof.
  intros Hi Hok Hb H. pose proof (inv_rid st e Hi) as Hr1.
  unfold step_upd in H.
  set (uc := match p with PS => true | _ => upd_cached st end) in H.
  assert (forall stx, rows stx = rows st -> toast stx = toast st -> next_rid stx = next_rid st -> gone stx = gone st -> Inv stx e) as Hsame.
  { intros stx E1 E2 E3 E4. constructor; rewrite ?E1, ?E2, ?E3, ?E4; destruct Hi; auto. }
  destruct (find_k k (rows st)) as [r|] eqn:Ef.
  - destruct (find_k_some k (rows st) r Ef) as [Hin Hk].
    destruct ((match p with PS => upd_cached st | _ => false end) && pk).
    + injection H as <- <-. exists e. fin_same Hsame.
    + destruct (drop_old_spec st e r Hi Hb Hin) as (Hfree & Hothers & Hsub).
      pose proof (inv_rid48 st e r Hi Hb Hin) as Hrid.
      destruct (put_value_ok true (drop_old (toast st) (r_st r)) (r_rid r) v Hok Hrid Hfree) as (m2 & s & Ep & Hext & Hrepr & Hks).
      rewrite Ep in H. cbn [fst snd] in H. injection H as <- <-.
      exists (exp_set k v e).
      split; [reflexivity|].
      split; [|cbn [dead next_rid rows]; repeat split; auto; apply set_row_keys].
      assert (forall r', In r' (rows st) -> r_k r' = k -> r' = r) as Huniq.
      { intros r' Hin' Hk'. eapply (nodup_map_inj r_k); [exact (inv_keys st e Hi) | | |]; auto. congruence. }
      constructor; cbn [rows toast next_rid gone].
      * apply (F2_set (R (toast st)) (R m2) (R_key (toast st))); [exact (inv_rows st e Hi) | exact (inv_keys st e Hi) | |].
        -- intros r' x Hin' HR Hk'. rewrite <- Hk in Hk'.
           destruct (Hothers r' x Hin' Hk' HR) as [A B]. split; [exact A | eapply repr_extends; eauto].
        -- intros r' x Hin' _ Hk'. rewrite (Huniq r' Hin' Hk'). split; [reflexivity | exact Hrepr].
      * rewrite set_row_keys. exact (inv_keys st e Hi).
      * rewrite set_row_rids. exact (inv_ridnd st e Hi).
      * exact Hr1.
      * intros r0 Hin0. destruct (set_row_in k s (rows st) r0 (inv_keys st e Hi) Hin0) as [(ra & Hra & _ & ->)|[Hra _]];
          [cbn [r_rid]; exact (inv_rids st e Hi ra Hra) | exact (inv_rids st e Hi r0 Hra)].
      * exact (inv_gone st e Hi).
      * intros k0 x Hk0. destruct (Hks k0 x Hk0) as [Hold|(n & Hsp & Hc & Hn)].
        -- destruct (Hsub k0 x Hold) as [Hold' Hne].
           destruct (inv_owned st e Hi k0 x Hold') as (r' & n & Hin' & Hsp & Hn). exists r', n. split; [|auto].
           apply set_row_keeps; [exact Hin'|]. intros Hk'. rewrite (Huniq r' Hin' Hk') in Hsp.
           destruct (inv_row_repr st e r Hi Hin) as (x0 & _ & _ & Hr0).
           destruct (repr_span _ _ _ _ _ _ _ Hrid Hr0 Hsp) as (Ec & _). contradiction.
        -- exists (mkrow (r_rid r) k s), n. split; [apply set_row_has; auto; exact (inv_keys st e Hi)|]. cbn [r_st]. rewrite Hc. auto.
  - injection H as <- <-. exists (exp_set k v e).
    split; [reflexivity|].
    split; [|cbn [dead next_rid rows]; repeat split; auto].
    rewrite (exp_set_absent (R (toast st)) (R_key (toast st)) k v (rows st) e (inv_rows st e Hi) (find_k_none _ _ Ef)).
    apply Hsame; reflexivity.
Qed.

(* ---------------------------------------------------------------- DELETE *)
Lemma step_del_ok st e k st' ob :
  Inv st e -> next_rid st <= 2 ^ 48 -> step_del st k = (st', ob) ->
  exists e', spec_step e (ODel k) ob = Some e' /\ Inv st' e' /\
             dead st' = dead st /\ next_rid st' = next_rid st /\
             (forall y, In y (map r_k (rows st')) -> In y (map r_k (rows st))).
Proof.
  intros Hi Hb H. unfold step_del in H.
  destruct (find_k k (rows st)) as [r|] eqn:Ef.
  - destruct (find_k_some k (rows st) r Ef) as [Hin Hk]. injection H as <- <-.
    destruct (drop_old_spec st e r Hi Hb Hin) as (_ & Hothers & Hsub).
    pose proof (inv_rid48 st e r Hi Hb Hin) as Hrid.
    exists (exp_del k e).
    split; [reflexivity|].
    split; [|cbn [dead next_rid rows]; repeat split; auto; intros y; apply del_row_keys_incl].
    constructor; cbn [rows toast next_rid gone].
    + apply (F2_del (R (toast st)) (R (drop_old (toast st) (r_st r))) (R_key (toast st))); [exact (inv_rows st e Hi) | exact (inv_keys st e Hi) |].
      intros r' x Hin' HR Hk'. rewrite <- Hk in Hk'. now apply Hothers.
    + apply del_row_nodup; exact (inv_keys st e Hi).
    + apply del_row_nodup_f; exact (inv_ridnd st e Hi).
    + exact (inv_rid st e Hi).
    + intros r0 Hin0. destruct (del_row_in k (rows st) r0 (inv_keys st e Hi) Hin0) as [Hr0 _]. exact (inv_rids st e Hi r0 Hr0).
    + intros x [<-|Hx]; [exact (inv_rids st e Hi r Hin) | exact (inv_gone st e Hi x Hx)].
    + intros k0 x Hk0. destruct (Hsub k0 x Hk0) as [Hold Hne].
      destruct (inv_owned st e Hi k0 x Hold) as (r' & n & Hin' & Hsp & Hn). exists r', n. split; [|auto].
      apply del_row_keeps; [exact Hin'|]. intros Hk'.
      assert (r' = r) as -> by (eapply (nodup_map_inj r_k); [exact (inv_keys st e Hi) | | |]; auto; congruence).
      destruct (inv_row_repr st e r Hi Hin) as (x0 & _ & _ & Hr0).
      destruct (repr_span _ _ _ _ _ _ _ Hrid Hr0 Hsp) as (Ec & _). contradiction.
  - injection H as <- <-. exists (exp_del k e).
    split; [reflexivity|].
    split; [|repeat split; auto].
    rewrite (exp_del_absent (R (toast st)) (R_key (toast st)) k (rows st) e (inv_rows st e Hi) (find_k_none _ _ Ef)).
    exact Hi.
Qed.

(* ---------------------------------------------------------------- SELECT *)
Lemma read_rows_ok m : forall rs e, Forall2 (R m) rs e -> (forall r, In r rs -> 0 <= r_rid r < 2 ^ 48) ->
  all_ok (read_rows ty m rs) = Some e.
Proof.
  induction 1 as [|r [k v] rs e [Hk Hr] _ IH]; intros Hb; [reflexivity|].
  cbn [read_rows all_ok]. cbn [fst snd] in Hk, Hr.
  rewrite (repr_read _ _ _ _ _ (Hb r (or_introl eq_refl)) Hr), IH, Hk; [reflexivity|]. intros r0 H0. apply Hb. now right.
Qed.

Lemma rows_eqb_refl_inv m : forall rs e, Forall2 (R m) rs e -> rows_eqb e e = true.
Proof.
  induction 1 as [|r [k v] rs e [Hk Hr] _ IH]; [reflexivity|].
  cbn [rows_eqb]. cbn [snd] in Hr. rewrite Z.eqb_refl, (value_eqb_refl v (repr_not_other _ _ _ _ _ Hr)), IH. reflexivity.
Qed.

Lemma step_query_ok st e st' ob :
  Inv st e -> next_rid st <= 2 ^ 48 -> step_query ty st = (st', ob) ->
  spec_step e (OQuery 0) ob = Some e /\ st' = st.
Proof.
  intros Hi Hb H. unfold step_query in H.
  rewrite (read_rows_ok (toast st) (rows st) e (inv_rows st e Hi)) in H by (intros r Hr; eapply inv_rid48; eauto).
  injection H as <- <-.
  cbn [spec_step]. rewrite (rows_eqb_refl_inv (toast st) (rows st) e (inv_rows st e Hi)). auto.
Qed.

End Step.
