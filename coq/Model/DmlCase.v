(* C05 / C06 -- what the harness (harness/src/bin/c05.rs, c06.rs) prints for one history and how
   it is compared with the implementation model Model/Tombstone.v.  Definitions only.
   One case = one history on a fresh table of the real database: after every statement the
   harness records the statement's result, the rows of `SELECT * FROM t` and the value of
   `SELECT COUNT( * ) FROM t`.  Row order is never compared (bags). *)
From Coq Require Import ZArith List Bool.
From TV Require Export Model.SqlSpec Model.DmlSpec Model.Tombstone.
Import ListNotations.
Open Scope Z_scope.

(* To keep the case files small the harness interns rows: `dict` lists the distinct rows it
   saw (in RETURNING and SELECT results) and observations name rows by their index in it.
   rows / cnt are None when the observing SELECT itself failed. *)
Inductive hres := HAff (n : Z) (ret : option (list Z)) | HErr | HPanic | HBad.
Inductive hobs := HObs (r : hres) (rows : option (list Z)) (cnt : option Z).
Inductive case := Hist (sch : schema) (dict : list row) (steps : list (stmt * hobs)).

Definition dget (dict : list row) (i : Z) : row := if i <? 0 then [] else nth (Z.to_nat i) dict [].
Definition drows (dict : list row) (l : list Z) : table := map (dget dict) l.

Fixpoint row_eqb (a b : row) : bool :=
  match a, b with
  | [], [] => true
  | x :: a', y :: b' => value_eqb x y && row_eqb a' b'
  | _, _ => false
  end.
Fixpoint remove_one (r : row) (t : table) : option table :=
  match t with
  | [] => None
  | x :: t' => if row_eqb r x then Some t' else option_map (cons x) (remove_one r t')
  end.
Fixpoint bag_eqb (a b : table) : bool :=
  match a with
  | [] => match b with [] => true | _ => false end
  | r :: a' => match remove_one r b with Some b' => bag_eqb a' b' | None => false end
  end.

Definition res_eqb (dict : list row) (a : result) (b : hres) : bool :=
  match a, b with
  | RAff n None, HAff m None => n =? m
  | RAff n (Some x), HAff m (Some y) => (n =? m) && bag_eqb x (drows dict y)
  | RErr, HErr | RPanic, HPanic => true
  | _, _ => false
  end.
(* an observation against a prediction *)
Definition obs_matches (dict : list row) (p : obs) (o : hobs) : bool :=
  match o with
  | HObs r (Some rows) (Some cnt) =>
      res_eqb dict (o_res p) r && bag_eqb (o_rows p) (drows dict rows) && (o_cnt p =? cnt)
  | _ => false
  end.
Fixpoint trace_matches (dict : list row) (tr : list obs) (os : list hobs) : bool :=
  match tr, os with
  | [], [] => true
  | p :: tr', o :: os' => obs_matches dict p o && trace_matches dict tr' os'
  | _, _ => false
  end.

(* does the model of the code as it is reproduce the implementation on this history? *)
Definition model_agrees (c : case) : bool :=
  match c with
  | Hist sch dict steps => trace_matches dict (trace false sch t_empty (map fst steps)) (map snd steps)
  end.

Definition case_class (c : case) : Z :=
  match c with Hist sch _ steps => hist_class sch t_empty (map fst steps) end.
