//! C41 calendar: every converter of calendar dates, the literal / DEFAULT text parsers and
//! the civil-from-unix-seconds renderer, on boundary years, sampled years and invalid fields.
use tvh::*;
use turdb::constraints::ConstraintValidator;
use turdb::parsing::verif_calendar as lit;
use turdb::sql::functions::datetime::verif_calendar as func;
use turdb::types::OwnedValue;

fn is_leap(y: i64) -> bool { (y % 4 == 0 && y % 100 != 0) || y % 400 == 0 }
fn dim(y: i64, m: i64) -> i64 {
    match m { 1 | 3 | 5 | 7 | 8 | 10 | 12 => 31, 4 | 6 | 9 | 11 => 30, 2 => if is_leap(y) { 29 } else { 28 }, _ => 0 }
}
/// independent oracle: count days by walking the calendar (used by `search` only)
fn epoch_days_table() -> Vec<i64> {
    // index y (1..=10000) -> days from 1970-01-01 to y-01-01
    let mut t = vec![0i64; 10002];
    let mut acc: i64 = 0;
    for y in 1970..=10000 { t[y] = acc; acc += if is_leap(y as i64) { 366 } else { 365 }; }
    acc = 0;
    for y in (1..1970).rev() { acc -= if is_leap(y as i64) { 366 } else { 365 }; t[y] = acc; }
    t
}

fn oz(c: Caught<i64>) -> String { match c { Caught::Done(v) => format!("(Some {})", z(v)), Caught::Panicked(_) => "None".into() } }

fn date_fns_term(y: i64, m: i64, d: i64) -> String {
    let (yi, mu, du) = (y as i32, m as u32, d as u32);
    let l = catch(move || lit::date_to_days_since_epoch(yi, mu, du) as i64);
    let df = catch(move || ConstraintValidator::verif_days_from_ymd(yi, mu, du) as i64);
    let f = catch(move || func::date_to_days(y, mu, du));
    let back = match &f {
        Caught::Done(n) => { let n = *n; match catch(move || func::days_to_date(n)) {
            Caught::Done((a, b, c)) => format!("(Some ({}, {}, {}))", z(a), b, c), Caught::Panicked(_) => "None".into() } }
        Caught::Panicked(_) => "None".into(),
    };
    let dow = catch(move || func::day_of_week(y, mu, du) as i64);
    let doy = catch(move || func::day_of_year(y, mu, du) as i64);
    format!("DateFns {} {} {} {} {} {} {} {} {}", y, m, d, oz(l), oz(df), oz(f), back, oz(dow), oz(doy))
}

fn pres_date(v: Caught<Option<OwnedValue>>) -> String {
    match v {
        Caught::Done(Some(OwnedValue::Date(d))) => format!("(POk {})", z(d)),
        Caught::Done(Some(OwnedValue::Time(t))) => format!("(POk {})", z(t)),
        Caught::Done(Some(OwnedValue::Timestamp(t))) => format!("(POk {})", z(t)),
        Caught::Done(_) => "PErr".into(),
        Caught::Panicked(_) => "PErr".into(),
    }
}

fn date_text_term(y: i64, m: i64, d: i64) -> String {
    let s = format!("{:04}-{:02}-{:02}", y, m, d);
    let s1 = s.clone();
    let pl = pres_date(catch(move || turdb::parsing::parse_date(&s1).ok()));
    let s2 = s.clone();
    let pd = pres_date(catch(move || Some(ConstraintValidator::verif_parse_date_default(&s2))));
    format!("DateText {} {} {} {} {}", y, m, d, pl, pd)
}
fn time_string(h: i64, mi: i64, s: i64, us: i64, frac: bool) -> String {
    if frac { format!("{:02}:{:02}:{:02}.{:06}", h, mi, s, us) } else { format!("{:02}:{:02}:{:02}", h, mi, s) }
}
fn time_text_term(h: i64, mi: i64, s: i64, us: i64, frac: bool) -> String {
    let t = time_string(h, mi, s, us, frac);
    let pl = pres_date(catch(move || turdb::parsing::parse_time(&t).ok()));
    format!("TimeText {} {} {} {} {}", h, mi, s, if frac { us } else { 0 }, pl)
}
fn ts_text_term(y: i64, m: i64, d: i64, h: i64, mi: i64, s: i64, us: i64, frac: bool, sep: char) -> String {
    let t = format!("{:04}-{:02}-{:02}{}{}", y, m, d, sep, time_string(h, mi, s, us, frac));
    let pl = pres_date(catch(move || turdb::parsing::parse_timestamp(&t).ok()));
    format!("TsText {} {} {} {} {} {} {} {}", y, m, d, h, mi, s, if frac { us } else { 0 }, pl)
}
fn civil_term(secs: i64) -> String {
    let out = match catch(move || func::format_unix_timestamp(secs)) {
        Caught::Done(s) => {
            // "YYYY-MM-DD HH:MM:SS" (fields may be wider / negative when the code is wrong)
            let fields: Vec<i64> = s.split(|c| c == '-' || c == ' ' || c == ':').filter(|x| !x.is_empty()).filter_map(|x| x.parse::<i64>().ok()).collect();
            if fields.len() == 6 && !s.starts_with('-') { format!("(Some ({}, {}, {}, {}, {}, {}))", fields[0], fields[1], fields[2], fields[3], fields[4], fields[5]) }
            else { "(Some (0, 0, 0, 0, 0, 0))".to_string() }
        }
        Caught::Panicked(_) => "None".into(),
    };
    format!("Civil {} {}", secs, out)
}

fn main() {
    let a = Args::parse();
    match a.mode.as_str() {
        "gen" => gen(&a),
        "search" => search(&a),
        _ => { eprintln!("c41: unknown mode"); std::process::exit(2); }
    }
}

fn push_line(w: &mut CaseWriter, line: &str, kind: &str) {
    let p: Vec<&str> = line.split_whitespace().collect();
    let n = |i: usize| -> i64 { p.get(i).and_then(|x| x.parse().ok()).unwrap_or(0) };
    match p.first().copied() {
        Some("fns") => { let (y, m, d) = (n(1), n(2), n(3)); w.push(date_fns_term(y, m, d), line.to_string(), m == 2 || d >= 28 || y % 100 == 0, kind); }
        Some("text") => { let (y, m, d) = (n(1), n(2), n(3)); w.push(date_text_term(y, m, d), line.to_string(), true, kind); }
        Some("time") => { w.push(time_text_term(n(1), n(2), n(3), n(4), n(5) != 0), line.to_string(), true, kind); }
        Some("ts") => { let sep = if n(9) != 0 { 'T' } else { ' ' }; w.push(ts_text_term(n(1), n(2), n(3), n(4), n(5), n(6), n(7), n(8) != 0, sep), line.to_string(), true, kind); }
        Some("civil") => { let secs: i64 = p.get(1).and_then(|x| x.strip_prefix("secs=")).and_then(|x| x.parse().ok()).unwrap_or(0); w.push(civil_term(secs), line.to_string(), true, kind); }
        _ => {}
    }
}

fn gen(a: &Args) {
    let mut rng = Rng::new(a.seed);
    let mut w = CaseWriter::new(&a.out, "C41", "Corr.C41", 400);
    if let Some(lines) = a.replay_lines() {
        for l in lines { push_line(&mut w, &l, "replay"); }
        w.finish(&[]);
        return;
    }
    let table = epoch_days_table();
    // ---- years: calendar boundaries + random
    let mut years: Vec<i64> = vec![1, 2, 4, 100, 400, 1582, 1600, 1700, 1900, 1969, 1970, 1971, 1972, 2000, 2024, 2038, 2100, 2400, 9996, 9999];
    let extra = if a.thorough() { 60 } else { 8 };
    for _ in 0..extra { years.push(rng.range(1, 9999)); }
    for &y in &years {
        let full = a.thorough() || [1970i64, 2000, 2024, 1900].contains(&y);
        for m in 1..=12 { for d in 1..=dim(y, m) {
            if full { push_line(&mut w, &format!("fns {} {} {}", y, m, d), "date_fns_all_days_of_year"); }
            else if d == 1 || d >= 28 { push_line(&mut w, &format!("fns {} {} {}", y, m, d), "date_fns_month_ends"); }
        } }
        // text parsers: first/last day of each month plus invalid neighbours
        for m in 0..=13 { for d in [0i64, 1, 15, 28, 29, 30, 31, 32] {
            push_line(&mut w, &format!("text {} {} {}", y, m, d), if m >= 1 && m <= 12 && d >= 1 && d <= dim(y, m) { "date_text_valid" } else { "date_text_invalid" });
        } }
    }
    // ---- helper functions on impossible dates (model must still agree; no promise in the Spec)
    for _ in 0..(if a.thorough() { 3000 } else { 300 }) {
        let (y, m, d) = (rng.range(1, 9999), rng.range(0, 14), rng.range(0, 33));
        push_line(&mut w, &format!("fns {} {} {}", y, m, d), "date_fns_random_fields");
    }
    // ---- times
    for h in [0i64, 1, 11, 12, 23, 24, 25] { for mi in [0i64, 1, 30, 59, 60, 61] { for s in [0i64, 1, 59, 60] {
        push_line(&mut w, &format!("time {} {} {} {} {}", h, mi, s, 0, 0), "time_boundary");
        push_line(&mut w, &format!("time {} {} {} {} {}", h, mi, s, *rng.pick(&[0i64, 1, 999999, 500000, 123456]), 1), "time_boundary_frac");
    } } }
    for _ in 0..(if a.thorough() { 86400 / 8 } else { 600 }) {
        let (h, mi, s) = (rng.range(0, 23), rng.range(0, 59), rng.range(0, 59));
        push_line(&mut w, &format!("time {} {} {} {} {}", h, mi, s, rng.range(0, 999999), rng.below(2)), "time_random");
    }
    // ---- timestamps
    for _ in 0..(if a.thorough() { 20000 } else { 1200 }) {
        let y = if rng.chance(1, 3) { *rng.pick(&years) } else { rng.range(1, 9999) };
        let m = if rng.chance(1, 10) { rng.range(0, 13) } else { rng.range(1, 12) };
        let d = if rng.chance(1, 4) { rng.range(27, 32) } else { rng.range(1, 28) };
        let (h, mi, s) = (if rng.chance(1, 12) { 24 } else { rng.range(0, 23) }, rng.range(0, 59), if rng.chance(1, 12) { 60 } else { rng.range(0, 59) });
        push_line(&mut w, &format!("ts {} {} {} {} {} {} {} {} {}", y, m, d, h, mi, s, rng.range(0, 999999), rng.below(2), rng.below(2)), "timestamp");
    }
    // ---- civil from unix seconds: every Feb 28/29, Mar 1, Dec 31, Jan 1 of sampled years >= 1970, plus random instants
    for &y in years.iter().filter(|y| **y >= 1970) {
        let base = table[y as usize];
        for (m, d) in [(1i64, 1i64), (2, 28), (2, 29), (3, 1), (12, 31)] {
            if d > dim(y, m) { continue; }
            let mut n = base; for mm in 1..m { n += dim(y, mm); } n += d - 1;
            for t in [0i64, 1, 43200, 86399] { push_line(&mut w, &format!("civil secs={}", n * 86400 + t), "civil_boundary"); }
        }
    }
    for _ in 0..(if a.thorough() { 40000 } else { 1500 }) {
        let secs = if rng.chance(1, 2) { rng.range(0, 4_102_444_800) } else { rng.range(0, 253_402_300_799) };
        push_line(&mut w, &format!("civil secs={}", secs), "civil_random");
    }
    w.finish(&[]);
}

/// Oracle on the implementation only: EVERY date of years 1..=9999 through every converter,
/// against day numbers obtained by walking the calendar; all leap days through the renderer.
fn search(a: &Args) {
    let table = epoch_days_table();
    let mut fails: Vec<String> = vec![];
    let mut tried: u64 = 0;
    for y in 1..=9999i64 {
        let mut n = table[y as usize];
        let jan1 = n;
        for m in 1..=12i64 { for d in 1..=dim(y, m) {
            let (yi, mu, du) = (y as i32, m as u32, d as u32);
            let ok = matches!(catch(move || lit::date_to_days_since_epoch(yi, mu, du) as i64), Caught::Done(v) if v == n)
                && matches!(catch(move || ConstraintValidator::verif_days_from_ymd(yi, mu, du) as i64), Caught::Done(v) if v == n)
                && matches!(catch(move || func::date_to_days(y, mu, du)), Caught::Done(v) if v == n + 719163)
                && matches!(catch(move || func::days_to_date(n + 719163)), Caught::Done(v) if v == (y, mu, du))
                && matches!(catch(move || func::day_of_week(y, mu, du) as i64), Caught::Done(v) if v == (n + 4).rem_euclid(7))
                && matches!(catch(move || func::day_of_year(y, mu, du) as i64), Caught::Done(v) if v == n - jan1 + 1);
            if !ok && fails.len() < 30 { fails.push(format!("fns {} {} {}", y, m, d)); }
            if y >= 1970 && (d == dim(y, m) || d == 1) {
                let secs = n * 86400 + 86399;
                let want = format!("{:04}-{:02}-{:02} 23:59:59", y, m, d);
                let good = matches!(catch(move || func::format_unix_timestamp(secs)), Caught::Done(s) if s == want);
                if !good && fails.len() < 30 { fails.push(format!("civil secs={}", secs)); }
            }
            tried += 1; n += 1;
        } }
        // invalid dates must be rejected by the literal parser
        for (m, d) in [(2i64, dim(y, 2) + 1), (4, 31), (13, 1), (0, 1), (1, 0), (12, 32)] {
            let s = format!("{:04}-{:02}-{:02}", y, m, d);
            if turdb::parsing::parse_date(&s).is_ok() && fails.len() < 30 { fails.push(format!("text {} {} {}", y, m, d)); }
            tried += 1;
        }
    }
    let mut out = format!("tried={}\n", tried);
    for f in &fails { out.push_str("FAIL "); out.push_str(f); out.push('\n'); }
    std::fs::write(&a.out, out).expect("write search output");
}
