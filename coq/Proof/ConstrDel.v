(* C09 proofs, part 7: DELETE.  What tombstoning the selected rows and removing their key values
   from the unique indexes does to the visible table and to the exactness of the indexes; then the
   statement itself: outside the recorded classes the implementation model refuses a DELETE on the
   parent iff a RESTRICT / NO ACTION child would lose its parent, cascades exactly the reference's
   child rows, and keeps the invariant. *)
From Coq Require Import ZArith List Bool Lia ZifyBool Arith.
From TV Require Import Model.SqlSpec Model.CheckStr Model.ConstrSpec Model.ConstrImpl Model.ConstrClass
                       Proof.ConstrBase Proof.ConstrIns Proof.ConstrSel.
Import ListNotations.
Open Scope Z_scope.

(* ---------------------------------------------------------------- membership in the selection *)
Lemma in_sel_char ts w x :
  NoDup (map e_id (ents ts)) -> In x (ents ts) ->
  in_sel (live_sel ts w) x = live x && wpass w (e_row x).
Proof.
  intros Hnd Hx. unfold in_sel, live_sel.
  destruct (live x && wpass w (e_row x)) eqn:P.
  - apply existsb_exists. exists x. split; [apply filter_In; split; assumption|apply Z.eqb_refl].
  - destruct (existsb (fun s => e_id s =? e_id x) (filter (fun e => live e && wpass w (e_row e)) (ents ts))) eqn:E; [|reflexivity].
    apply existsb_exists in E. destruct E as [s [Hs Hid]]. apply filter_In in Hs. destruct Hs as [Hs Ps].
    apply Z.eqb_eq in Hid. pose proof (NoDup_id_eq _ _ _ Hnd Hs Hx Hid) as ->. congruence.
Qed.

Lemma existsb_ext_in {A} (f g : A -> bool) l : (forall x, In x l -> f x = g x) -> existsb f l = existsb g l.
Proof.
  induction l as [|x l IH]; intros H; [reflexivity|]. cbn [existsb].
  rewrite (H x (or_introl eq_refl)), IH; [reflexivity|]. intros y Hy. apply H. right. exact Hy.
Qed.

Lemma existsb_map' {A B} (f : B -> bool) (g : A -> B) l : existsb f (map g l) = existsb (fun x => f (g x)) l.
Proof. induction l as [|x l IH]; [reflexivity|]. cbn [map existsb]. rewrite IH. reflexivity. Qed.

(* ---------------------------------------------------------------- the visible table after tombstoning *)
Lemma visible_tomb_gen ts w :
  NoDup (map e_id (ents ts)) ->
  forall l, (forall x, In x l -> In x (ents ts)) ->
    map e_row (filter live (tombstone (live_sel ts w) l)) =
    filter (fun r => negb (wpass w r)) (map e_row (filter live l)).
Proof.
  intros Hnd. induction l as [|x l IH]; intros Hsub; [reflexivity|].
  cbn [tombstone map]. rewrite (in_sel_char ts w x Hnd (Hsub x (or_introl eq_refl))).
  assert (IHl := IH (fun y Hy => Hsub y (or_intror Hy))). unfold tombstone in IHl.
  destruct (live x) eqn:L; cbn [andb].
  - destruct (wpass w (e_row x)) eqn:P.
    + cbn [filter live e_del negb]. rewrite L. cbn [map filter]. rewrite P. cbn [negb]. exact IHl.
    + cbn [filter]. rewrite L. cbn [map filter]. rewrite P. cbn [negb]. f_equal. exact IHl.
  - cbn [filter]. rewrite L. exact IHl.
Qed.

Lemma visible_tomb ts w ixs :
  NoDup (map e_id (ents ts)) ->
  visible (mkT (tombstone (live_sel ts w) (ents ts)) ixs) = filter (fun r => negb (wpass w r)) (visible ts).
Proof. intros Hnd. unfold visible. cbn [ents]. apply visible_tomb_gen; [exact Hnd|auto]. Qed.

Lemma rows_of_sel ts w : map e_row (live_sel ts w) = filter (wpass w) (visible ts).
Proof.
  unfold live_sel, visible. induction (ents ts) as [|x l IH]; [reflexivity|]. cbn [filter].
  destruct (live x) eqn:L; cbn [andb map filter].
  - destruct (wpass w (e_row x)); cbn [map]; rewrite IH; reflexivity.
  - exact IH.
Qed.

(* ---------------------------------------------------------------- the indexes after removal by value *)
Lemma idx_mem_del v w ix : idx_mem v (idx_del w ix) = idx_mem v ix && negb (value_eqb w v).
Proof.
  unfold idx_mem, idx_find, idx_del. induction ix as [|p ix IH]; [reflexivity|]. cbn [filter find].
  destruct (value_eqb (fst p) w) eqn:Ew; cbn [negb].
  - apply value_eqb_eq in Ew. destruct (value_eqb (fst p) v) eqn:Ev.
    + apply value_eqb_eq in Ev. rewrite <- Ew, Ev, value_eqb_refl. cbn [negb]. rewrite andb_false_r.
      rewrite Ew, <- Ev in *. clear Ev.
      rewrite IH. rewrite value_eqb_refl. cbn [negb]. apply andb_false_r.
    + exact IH.
  - cbn [find]. destruct (value_eqb (fst p) v) eqn:Ev.
    + apply value_eqb_eq in Ev. rewrite <- Ev. rewrite value_eqb_sym, Ew. reflexivity.
    + exact IH.
Qed.

Definition del_fold (i : nat) (sel : list entry) (ix : index) : index :=
  fold_left (fun a e => let v := col_val i (e_row e) in if is_null v then a else idx_del v a) sel ix.

Lemma is_null_eq v : is_null v = true -> v = VNull.
Proof. destruct v; try discriminate. reflexivity. Qed.

Lemma idx_mem_del_fold v i : is_null v = false -> forall sel ix,
  idx_mem v (del_fold i sel ix) = idx_mem v ix && negb (existsb (fun e => value_eqb (col_val i (e_row e)) v) sel).
Proof.
  intros Nv. unfold del_fold. induction sel as [|e sel IH]; intros ix.
  - cbn [fold_left existsb negb]. rewrite andb_true_r. reflexivity.
  - cbn [fold_left existsb]. rewrite IH. destruct (is_null (col_val i (e_row e))) eqn:N.
    + apply is_null_eq in N. rewrite N. destruct v; try discriminate; reflexivity.
    + rewrite idx_mem_del. rewrite negb_orb, andb_assoc. reflexivity.
Qed.

Lemma idx_del_length : forall ixs ds i sel, length (idx_del_from ixs ds i sel) = length ixs.
Proof.
  induction ixs as [|ix ixs IH]; intros ds i sel; [reflexivity|]. destruct ds as [|d ds]; [reflexivity|].
  cbn [idx_del_from length]. rewrite IH. reflexivity.
Qed.
Lemma idx_del_nth : forall ixs ds i0 sel i d,
  nth_error ds i = Some d -> (i < length ixs)%nat ->
  nth i (idx_del_from ixs ds i0 sel) [] =
  if is_key d then del_fold (i0 + i) sel (nth i ixs []) else nth i ixs [].
Proof.
  induction ixs as [|ix ixs IH]; intros ds i0 sel i d Hd Hi; [cbn [length] in Hi; lia|].
  destruct ds as [|d0 ds]; [destruct i; discriminate|]. cbn [idx_del_from]. destruct i as [|i].
  - cbn [nth_error] in Hd. injection Hd as ->. cbn [nth]. rewrite Nat.add_0_r. reflexivity.
  - cbn [nth_error] in Hd. cbn [nth]. rewrite (IH ds (S i0) sel i d Hd) by (cbn [length] in Hi; lia).
    replace (S i0 + i)%nat with (i0 + S i)%nat by lia. reflexivity.
Qed.
Lemma idx_del_sub : forall ixs ds i0 sel ix v k,
  In ix (idx_del_from ixs ds i0 sel) -> In (v, k) ix -> exists ix', In ix' ixs /\ In (v, k) ix'.
Proof.
  induction ixs as [|ix0 ixs IH]; intros ds i0 sel ix v k Hin Hp; [destruct Hin|].
  destruct ds as [|d ds]; [exists ix; split; assumption|]. cbn [idx_del_from] in Hin. destruct Hin as [<-|Hin].
  - exists ix0. split; [left; reflexivity|]. destruct (is_key d); [|exact Hp].
    revert Hp. generalize ix0. induction sel as [|e sel IHs]; intros ixa Hp; [exact Hp|].
    cbn [fold_left] in Hp. specialize (IHs _ Hp). destruct (is_null (col_val i0 (e_row e))); [exact IHs|].
    unfold idx_del in IHs. apply filter_In in IHs. tauto.
  - destruct (IH ds (S i0) sel ix v k Hin Hp) as [ix' [H1 H2]]. exists ix'. split; [right; exact H1|exact H2].
Qed.

(* the live rows after tombstoning: a deleted value is gone (it was unique), every other stays *)
Lemma live_has_tomb ts w ixs i v :
  NoDup (map e_id (ents ts)) -> nodupv (colvals i (visible ts)) = true -> is_null v = false ->
  live_has (mkT (tombstone (live_sel ts w) (ents ts)) ixs) i v =
  live_has ts i v && negb (existsb (fun e => value_eqb (col_val i (e_row e)) v) (live_sel ts w)).
Proof.
  intros Hnd Hu Nv. unfold live_has. cbn [ents]. unfold tombstone. rewrite existsb_map'.
  rewrite (existsb_ext_in _ (fun e => live e && negb (in_sel (live_sel ts w) e) && value_eqb (col_val i (e_row e)) v)).
  - destruct (existsb (fun e => value_eqb (col_val i (e_row e)) v) (live_sel ts w)) eqn:E; cbn [negb].
    + rewrite andb_false_r. apply existsb_exists in E. destruct E as [s [Hs Vs]].
      unfold live_sel in Hs. apply filter_In in Hs. destruct Hs as [Hs Ps]. apply andb_true_iff in Ps. destruct Ps as [Ls Ws].
      pose proof (live_filter_unique (ents ts) i v s Hu Hnd Hs Ls Vs Nv) as HF.
      destruct (existsb _ (ents ts)) eqn:X; [|reflexivity]. exfalso.
      apply existsb_exists in X. destruct X as [x [Hx Px]].
      apply andb_true_iff in Px. destruct Px as [Px Vx]. apply andb_true_iff in Px. destruct Px as [Lx Nx].
      assert (Hxf : In x (filter (fun y => live y && value_eqb (col_val i (e_row y)) v) (ents ts))).
      { apply filter_In. split; [exact Hx|]. rewrite Lx, Vx. reflexivity. }
      rewrite HF in Hxf. destruct Hxf as [<-|[]].
      rewrite (in_sel_char ts w s Hnd Hs), Ls, Ws in Nx. discriminate.
    + rewrite andb_true_r. apply existsb_ext_in. intros x Hx.
      destruct (live x && value_eqb (col_val i (e_row x)) v) eqn:P.
      * apply andb_true_iff in P. destruct P as [Lx Vx]. rewrite Lx, Vx.
        rewrite (in_sel_char ts w x Hnd Hx), Lx. cbn [andb].
        destruct (wpass w (e_row x)) eqn:W; [|reflexivity]. exfalso.
        assert (Hc : existsb (fun e => value_eqb (col_val i (e_row e)) v) (live_sel ts w) = true).
        { apply existsb_exists. exists x. split; [|exact Vx]. unfold live_sel. apply filter_In. split; [exact Hx|]. rewrite Lx, W. reflexivity. }
        congruence.
      * destruct (live x); cbn [andb] in *; [rewrite P, andb_false_r; reflexivity|reflexivity].
  - intros x _. destruct (in_sel (live_sel ts w) x); cbn [live e_del e_row negb andb]; [rewrite andb_false_r; reflexivity|].
    rewrite andb_true_r. reflexivity.
Qed.

(* ---------------------------------------------------------------- the table after DELETE *)
Lemma tomb_ids sel es : map e_id (tombstone sel es) = map e_id es.
Proof.
  unfold tombstone. rewrite map_map. apply map_ext. intros e. destruct (in_sel sel e); reflexivity.
Qed.
Lemma tomb_in sel es e : In e (tombstone sel es) -> exists x, In x es /\ e_id x = e_id e /\ e_row x = e_row e.
Proof.
  unfold tombstone. intros H. apply in_map_iff in H. destruct H as [x [Hx Hin]]. exists x. split; [exact Hin|].
  destruct (in_sel sel x); subst e; split; reflexivity.
Qed.

Lemma tinv_del ds ts next w :
  tinv ds ts next -> uniq_ok ds (visible ts) = true ->
  tinv ds (mkT (tombstone (live_sel ts w) (ents ts)) (idx_del_from (idxs ts) ds 0 (live_sel ts w))) next.
Proof.
  intros [Hex Hnn [Hnd Hid] [Hrf Hli]] Hu. constructor.
  - intros i d Hd K v Nv.
    assert (Hi : (i < length ds)%nat) by (apply nth_error_Some; rewrite Hd; discriminate).
    unfold get_idx. cbn [idxs]. rewrite (idx_del_nth _ _ 0 _ i d Hd) by lia. rewrite K. cbn [Nat.add].
    rewrite (idx_mem_del_fold v i Nv). fold (get_idx ts i). rewrite (Hex i d Hd K v Nv).
    symmetry. apply live_has_tomb; [exact Hnd| |exact Nv].
    unfold uniq_ok in Hu. exact (uniq_from_nth ds 0 (visible ts) i d Hu Hd K).
  - intros ix v k Hin Hp. cbn [idxs] in Hin. destruct (idx_del_sub _ _ _ _ _ _ _ Hin Hp) as [ix' [H1 H2]].
    exact (Hnn ix' v k H1 H2).
  - unfold ids_ok. cbn [ents]. rewrite tomb_ids. split; [exact Hnd|].
    intros e He. destruct (tomb_in _ _ _ He) as [x [Hx [Hi _]]]. rewrite <- Hi. exact (Hid x Hx).
  - unfold rows_ok. cbn [ents idxs]. split.
    + intros e He. destruct (tomb_in _ _ _ He) as [x [Hx [_ Hr]]]. rewrite <- Hr. exact (Hrf x Hx).
    + rewrite idx_del_length. exact Hli.
Qed.

(* ---------------------------------------------------------------- validity of a filtered table *)
Lemma forallb_filter {A} (p q : A -> bool) l : forallb p l = true -> forallb p (filter q l) = true.
Proof.
  rewrite !forallb_forall. intros H x Hx. apply filter_In in Hx. apply H. tauto.
Qed.
Lemma vmem_filter v i (q : row -> bool) (t : table) :
  vmem v (colvals i (filter q t)) = true -> vmem v (colvals i t) = true.
Proof.
  unfold vmem, colvals. rewrite !existsb_exists. intros [x [Hx E]]. exists x. split; [|exact E].
  apply in_map_iff in Hx. destruct Hx as [r [Hr Hin]]. apply filter_In in Hin. apply in_map_iff. exists r. tauto.
Qed.
Lemma nodupv_filter i (q : row -> bool) (t : table) :
  nodupv (colvals i t) = true -> nodupv (colvals i (filter q t)) = true.
Proof.
  pose proof (vmem_filter) as VF. unfold colvals in *.
  induction t as [|r t IH]; [reflexivity|]. cbn [map nodupv filter]. intros H.
  apply andb_true_iff in H. destruct H as [H1 H2]. destruct (q r); [|exact (IH H2)].
  cbn [map nodupv]. rewrite (IH H2), andb_true_r.
  destruct (is_null (col_val i r)); [reflexivity|]. cbn [orb] in *.
  destruct (vmem (col_val i r) (map (col_val i) (filter q t))) eqn:E; [|reflexivity].
  apply (VF _ i q t) in E. rewrite E in H1. discriminate.
Qed.
Lemma uniq_from_filter ds (q : row -> bool) : forall i (t : table),
  uniq_from ds i t = true -> uniq_from ds i (filter q t) = true.
Proof.
  induction ds as [|d ds IH]; intros i t H; [reflexivity|]. cbn [uniq_from] in *.
  apply andb_true_iff in H. destruct H as [H1 H2]. rewrite (IH _ _ H2), andb_true_r.
  destruct (is_key d); [|reflexivity]. cbn [negb orb] in *. exact (nodupv_filter i q t H1).
Qed.

(* a unique column: a value is held by the kept rows iff it is held at all and not by the removed ones *)
Lemma vmem_kept i (q : row -> bool) (t : table) v :
  nodupv (colvals i t) = true -> is_null v = false ->
  vmem v (colvals i (filter (fun r => negb (q r)) t)) =
  vmem v (colvals i t) && negb (vmem v (colvals i (filter q t))).
Proof.
  pose proof (vmem_filter) as VF. unfold colvals in *. unfold vmem in *.
  intros Hu Nv. induction t as [|r t IH]; [reflexivity|].
  cbn [map nodupv] in Hu. apply andb_true_iff in Hu. destruct Hu as [H1 H2].
  specialize (IH H2). cbn [filter]. destruct (q r) eqn:Q; cbn [negb map existsb].
  - rewrite IH. destruct (value_eqb v (col_val i r)) eqn:E; cbn [orb negb]; [|reflexivity].
    rewrite andb_false_r. apply value_eqb_eq in E. rewrite <- E in H1. rewrite Nv in H1. cbn [orb] in H1.
    apply negb_true_iff in H1. unfold vmem in H1. rewrite H1. reflexivity.
  - rewrite IH. destruct (value_eqb v (col_val i r)) eqn:E; cbn [orb]; [|reflexivity].
    apply value_eqb_eq in E. rewrite <- E in H1. rewrite Nv in H1. cbn [orb] in H1. apply negb_true_iff in H1.
    unfold vmem in H1. destruct (existsb (value_eqb v) (map (col_val i) (filter q t))) eqn:X; [|rewrite andb_true_r; reflexivity].
    apply (VF v i q t) in X. congruence.
Qed.

(* ---------------------------------------------------------------- one foreign-key column *)
Lemma fk_cols_none ds : forall i, fk_cols_from ds i = [] -> forall d, In d ds -> c_fk d = None.
Proof.
  induction ds as [|d0 ds IH]; intros i H d Hd; [destruct Hd|]. cbn [fk_cols_from] in H.
  destruct (c_fk d0) eqn:E; [discriminate|]. destruct Hd as [<-|Hd]; [exact E|exact (IH (S i) H d Hd)].
Qed.
Lemma fk_row_nofk ds : (forall d, In d ds -> c_fk d = None) -> forall vs (P : table), fk_row_from ds vs P = true.
Proof.
  induction ds as [|d ds IH]; intros H vs P; [reflexivity|]. destruct vs as [|v vs]; [reflexivity|].
  cbn [fk_row_from]. rewrite (H d (or_introl eq_refl)), IH; [reflexivity|]. intros x Hx. apply H. right. exact Hx.
Qed.
Lemma casc_row_nofk ds : (forall d, In d ds -> c_fk d = None) -> forall vs (g : table), casc_row_from ds vs g = false.
Proof.
  induction ds as [|d ds IH]; intros H vs g; [reflexivity|]. destruct vs as [|v vs]; [reflexivity|].
  cbn [casc_row_from]. rewrite (H d (or_introl eq_refl)), IH; [reflexivity|]. intros x Hx. apply H. right. exact Hx.
Qed.

(* exactly one foreign-key column, at position j: what the row-level tests compute *)
Lemma fk_single ds : forall i j rc act,
  fk_cols_from ds i = [(j, rc, act)] ->
  (i <= j)%nat /\
  (forall vs (P : table), length vs = length ds ->
     fk_row_from ds vs P = (is_null (nth (j - i) vs VNull) || vmem (nth (j - i) vs VNull) (colvals rc P))) /\
  (forall vs (g : table), length vs = length ds ->
     casc_row_from ds vs g = ((act =? 2) && negb (is_null (nth (j - i) vs VNull)) && vmem (nth (j - i) vs VNull) (colvals rc g))).
Proof.
  induction ds as [|d ds IH]; intros i j rc act H; [discriminate|]. cbn [fk_cols_from] in H.
  destruct (c_fk d) as [f|] eqn:E.
  - injection H as <- <- <- H. pose proof (fk_cols_none ds (S i) H) as Hn. split; [lia|]. rewrite Nat.sub_diag. split.
    + intros vs P Hl. destruct vs as [|v vs]; [discriminate|]. cbn [fk_row_from nth]. rewrite E, (fk_row_nofk ds Hn), andb_true_r. reflexivity.
    + intros vs g Hl. destruct vs as [|v vs]; [discriminate|]. cbn [casc_row_from nth]. rewrite E, (casc_row_nofk ds Hn), orb_false_r. reflexivity.
  - destruct (IH (S i) j rc act H) as [Hle [H1 H2]]. split; [lia|]. split.
    + intros vs P Hl. destruct vs as [|v vs]; [discriminate|]. cbn [fk_row_from]. rewrite E. cbn [andb].
      rewrite (H1 vs P) by (cbn [length] in Hl; lia). replace (j - i)%nat with (S (j - S i)) by lia. reflexivity.
    + intros vs g Hl. destruct vs as [|v vs]; [discriminate|]. cbn [casc_row_from]. rewrite E. cbn [orb].
      rewrite (H2 vs g) by (cbn [length] in Hl; lia). replace (j - i)%nat with (S (j - S i)) by lia. reflexivity.
Qed.

(* ---------------------------------------------------------------- the scan of the child entries *)
Definition hit (vals : list value) (j : nat) (e : entry) : bool := chit vals j e.

Lemma child_scan_block j act vals es :
  (act =? 2) = false -> child_scan j act vals es = if existsb (hit vals j) es then None else Some [].
Proof.
  intros Ha. induction es as [|e es IH]; [reflexivity|]. cbn [child_scan existsb]. fold (hit vals j e).
  rewrite Ha. cbn [negb]. destruct (hit vals j e); cbn [andb orb]; [reflexivity|]. rewrite IH.
  destruct (existsb (hit vals j) es); reflexivity.
Qed.
Lemma child_scan_casc j vals es : child_scan j 2 vals es = Some (map e_id (filter (hit vals j) es)).
Proof.
  induction es as [|e es IH]; [reflexivity|]. cbn [child_scan filter]. fold (hit vals j e).
  change (2 =? 2) with true. cbn [negb]. rewrite andb_false_r, IH. destruct (hit vals j e); reflexivity.
Qed.

Lemma idx_del_noop : forall ixs ds i sel,
  (forall e d j, In e sel -> nth_error ds j = Some d -> is_key d = true -> is_null (col_val (i + j) (e_row e)) = true) ->
  idx_del_from ixs ds i sel = ixs.
Proof.
  induction ixs as [|ix ixs IH]; intros ds i sel H; [reflexivity|]. destruct ds as [|d ds]; [reflexivity|].
  cbn [idx_del_from]. rewrite IH by (intros e d' j He Hd K; replace (S i + j)%nat with (i + S j)%nat by lia; exact (H e d' (S j) He Hd K)).
  f_equal. destruct (is_key d) eqn:K; [|reflexivity].
  assert (G : forall l a, (forall e, In e l -> In e sel) ->
              fold_left (fun a e => let v := col_val i (e_row e) in if is_null v then a else idx_del v a) l a = a).
  { induction l as [|e l IHl]; intros a Hs; [reflexivity|]. cbn [fold_left].
    pose proof (H e d 0%nat (Hs e (or_introl eq_refl)) eq_refl K) as N. rewrite Nat.add_0_r in N. cbn zeta. rewrite N.
    apply IHl. intros x Hx. apply Hs. right. exact Hx. }
  apply G. auto.
Qed.

Lemma ids_filter (p : entry -> bool) (es : list entry) :
  NoDup (map e_id es) ->
  filter (fun e => existsb (Z.eqb (e_id e)) (map e_id (filter p es))) es = filter p es.
Proof.
  intros Hnd. apply filter_ext_in. intros e He. destruct (p e) eqn:P.
  - apply existsb_exists. exists (e_id e). split; [|apply Z.eqb_refl]. apply in_map. apply filter_In. split; assumption.
  - destruct (existsb (Z.eqb (e_id e)) (map e_id (filter p es))) eqn:X; [|reflexivity].
    apply existsb_exists in X. destruct X as [k [Hk Ek]]. apply Z.eqb_eq in Ek. subst k.
    apply in_map_iff in Hk. destruct Hk as [x [Hid Hx]]. apply filter_In in Hx. destruct Hx as [Hx Px].
    pose proof (NoDup_id_eq _ _ _ Hnd Hx He Hid) as ->. congruence.
Qed.

Lemma drop_ids_filter (p : entry -> bool) (es : list entry) :
  NoDup (map e_id es) -> drop_ids (map e_id (filter p es)) es = filter (fun e => negb (p e)) es.
Proof.
  intros Hnd. unfold drop_ids. apply filter_ext_in. intros e He. f_equal.
  destruct (p e) eqn:P.
  - apply existsb_exists. exists (e_id e). split; [|apply Z.eqb_refl]. apply in_map. apply filter_In. split; assumption.
  - destruct (existsb (Z.eqb (e_id e)) (map e_id (filter p es))) eqn:X; [|reflexivity].
    apply existsb_exists in X. destruct X as [k [Hk Ek]]. apply Z.eqb_eq in Ek. subst k.
    apply in_map_iff in Hk. destruct Hk as [x [Hid Hx]]. apply filter_In in Hx. destruct Hx as [Hx Px].
    pose proof (NoDup_id_eq _ _ _ Hnd Hx He Hid) as ->. congruence.
Qed.

Lemma visible_filter_rows (p : entry -> bool) (q : row -> bool) (es : list entry) :
  (forall e, In e es -> live e = true -> p e = q (e_row e)) ->
  map e_row (filter live (filter (fun e => negb (p e)) es)) = filter (fun r => negb (q r)) (map e_row (filter live es)).
Proof.
  induction es as [|e es IH]; intros H; [reflexivity|].
  assert (IHl := IH (fun x Hx => H x (or_intror Hx))). cbn [filter].
  destruct (live e) eqn:L.
  - rewrite (H e (or_introl eq_refl) L). cbn [map filter]. destruct (q (e_row e)) eqn:Q; cbn [negb].
    + exact IHl.
    + cbn [filter]. rewrite L. cbn [map]. f_equal. exact IHl.
  - destruct (negb (p e)); cbn [filter]; rewrite ?L; exact IHl.
Qed.

(* ---------------------------------------------------------------- the DELETE statement: child table *)
Lemma valid_split sch (P C : table) :
  valid_db sch (P, C) = true <->
  forallb (row_ok (s_p sch)) P = true /\ uniq_ok (s_p sch) P = true /\
  forallb (row_ok (s_c sch)) C = true /\ uniq_ok (s_c sch) C = true /\ fk_ok (s_c sch) P C = true.
Proof. unfold valid_db. cbn [fst snd]. rewrite !andb_true_iff. tauto. Qed.

Lemma fk_ok_filter cs (P C : table) (g : row -> bool) : fk_ok cs P C = true -> fk_ok cs P (filter g C) = true.
Proof. unfold fk_ok. apply forallb_filter. Qed.

Lemma delete_c_exact sch st w :
  wf_schema sch -> Inv sch st -> has_dead (select_rows (s_c sch) (d_c st) w) = false ->
  exists st', do_delete sch TC st w = (true, st') /\
              exec_write sch (abs_db st) (SDel TC w) = (true, abs_db st') /\ Inv sch st'.
Proof.
  intros W I Hd. pose proof (inv_valid _ _ I) as Hv. unfold abs_db in Hv.
  apply valid_split in Hv. destruct Hv as [V1 [V2 [V3 [V4 V5]]]].
  pose proof (inv_c _ _ I) as Tc.
  pose proof (select_rows_live _ _ _ w Tc V4 Hd) as Hsel.
  unfold do_delete. cbn [cols_of ts_of set_ts]. rewrite Hsel.
  eexists. split; [reflexivity|].
  assert (Habs : abs_db (mkD (d_p st) (mkT (tombstone (live_sel (d_c st) w) (ents (d_c st)))
                                           (idx_del_from (idxs (d_c st)) (s_c sch) 0 (live_sel (d_c st) w))) (d_next st))
                 = (visible (d_p st), filter (fun r => negb (wpass w r)) (visible (d_c st)))).
  { unfold abs_db. cbn [d_p d_c]. rewrite visible_tomb; [reflexivity|]. destruct Tc as [_ _ [Hnd _] _]. exact Hnd. }
  assert (Hval : valid_db sch (visible (d_p st), filter (fun r => negb (wpass w r)) (visible (d_c st))) = true).
  { apply valid_split. repeat split; try assumption.
    - apply forallb_filter. exact V3.
    - unfold uniq_ok in *. apply uniq_from_filter. exact V4.
    - apply fk_ok_filter. exact V5. }
  split.
  - unfold exec_write. cbn [apply_stmt abs_db fst snd]. rewrite Habs.
    unfold abs_db in Hval. cbn [fst snd] in *. rewrite Hval. reflexivity.
  - constructor; cbn [d_p d_c d_next].
    + rewrite Habs. exact Hval.
    + exact (inv_p _ _ I).
    + apply tinv_del; assumption.
    + exact (inv_next _ _ I).
Qed.

(* ---------------------------------------------------------------- the DELETE statement: parent table *)
Lemma filter_true {A} (l : list A) (f : A -> bool) : (forall x, In x l -> f x = true) -> filter f l = l.
Proof.
  induction l as [|x l IH]; intros H; [reflexivity|]. cbn [filter]. rewrite (H x (or_introl eq_refl)).
  f_equal. apply IH. intros y Hy. apply H. right. exact Hy.
Qed.

Lemma drop_ids_nil es : drop_ids [] es = es.
Proof. unfold drop_ids. apply filter_true. intros x _. reflexivity. Qed.

Lemma child_scan_novals j act es : child_scan j act [] es = Some [].
Proof.
  induction es as [|e es IHe]; [reflexivity|]. cbn [child_scan]. rewrite IHe.
  assert (H : chit [] j e = false) by (unfold chit, vmem; cbn [existsb]; apply andb_false_r).
  rewrite H. reflexivity.
Qed.
Lemma child_scans_novals fks es : child_scans fks [] es = Some [].
Proof.
  induction fks as [|[[j rc] act] fks IH]; [reflexivity|]. cbn [child_scans].
  rewrite child_scan_novals, IH. reflexivity.
Qed.

Lemma tinv_ext ds a b n : ents a = ents b -> idxs a = idxs b -> tinv ds a n -> tinv ds b n.
Proof. destruct a as [ea ia], b as [eb ib]. cbn [ents idxs]. intros -> ->. exact (fun H => H). Qed.

Lemma has_keyval_nth ds : forall vs i d,
  has_keyval ds vs = false -> nth_error ds i = Some d -> is_key d = true -> (i < length vs)%nat ->
  is_null (nth i vs VNull) = true.
Proof.
  induction ds as [|d0 ds IH]; intros vs i d H Hd K Hi; [destruct i; discriminate|].
  destruct vs as [|v vs]; [cbn [length] in Hi; lia|]. cbn [has_keyval] in H. apply orb_false_iff in H. destruct H as [H0 H1].
  destruct i as [|i].
  - cbn [nth_error] in Hd. injection Hd as ->. rewrite K in H0. cbn [andb] in H0. apply negb_false_iff in H0. exact H0.
  - cbn [nth_error] in Hd. cbn [nth]. apply (IH vs i d H1 Hd K). cbn [length] in Hi. lia.
Qed.

Lemma existsb_filter_same {A} (f g : A -> bool) l :
  (forall x, In x l -> g x = false -> f x = false) -> existsb f (filter g l) = existsb f l.
Proof.
  induction l as [|x l IH]; intros H; [reflexivity|]. cbn [filter existsb].
  assert (IHl := IH (fun y Hy => H y (or_intror Hy))).
  destruct (g x) eqn:G; cbn [existsb]; [rewrite IHl; reflexivity|].
  rewrite (H x (or_introl eq_refl) G). exact IHl.
Qed.

Lemma flat_map_map_nil {A B C} (f : A -> C -> B) (l : list A) : flat_map (fun e => map (f e) []) l = [].
Proof. induction l as [|x l IH]; [reflexivity|]. cbn [flat_map map app]. exact IH. Qed.
Lemma flat_map_map_one {A B C} (f : A -> C -> B) (c : C) (l : list A) :
  flat_map (fun e => map (f e) [c]) l = map (fun e => f e c) l.
Proof. induction l as [|x l IH]; [reflexivity|]. cbn [flat_map map app]. now f_equal. Qed.

Lemma NoDup_map_filter (p : entry -> bool) (es : list entry) :
  NoDup (map e_id es) -> NoDup (map e_id (filter p es)).
Proof.
  induction es as [|e es IH]; intros H; [constructor|]. cbn [map] in H. inversion H as [|? ? Hx Hn]; subst.
  cbn [filter]. destruct (p e); [|exact (IH Hn)]. cbn [map]. constructor; [|exact (IH Hn)].
  intros Hin. apply Hx. apply in_map_iff in Hin. destruct Hin as [x [E Hxf]]. apply filter_In in Hxf.
  apply in_map_iff. exists x. tauto.
Qed.

Lemma delete_p_exact sch st w :
  wf_schema sch -> Inv sch st -> stmt_class sch st (SDel TP w) = 0 ->
  exists ok st', do_delete sch TP st w = (ok, st') /\
                 exec_write sch (abs_db st) (SDel TP w) = (ok, abs_db st') /\ Inv sch st'.
Proof.
  intros W I Hcls. pose proof (inv_valid _ _ I) as Hv. unfold abs_db in Hv.
  apply valid_split in Hv. destruct Hv as [V1 [V2 [V3 [V4 V5]]]].
  pose proof (inv_p _ _ I) as Tp. pose proof (inv_c _ _ I) as Tc.
  cbn [stmt_class cols_of ts_of] in Hcls.
  destruct (has_dead (select_rows (s_p sch) (d_p st) w)) eqn:Hd; [discriminate|].
  pose proof (select_rows_live _ _ _ w Tp V2 Hd) as Hsel. rewrite Hsel in Hcls.
  set (sel := live_sel (d_p st) w) in *.
  destruct (del_casc_keys sch st (del_vals sch sel)) eqn:C19; [discriminate|]. clear Hcls.
  set (P := visible (d_p st)) in *. set (C := visible (d_c st)) in *.
  set (P' := filter (fun r => negb (wpass w r)) P).
  set (gone := filter (wpass w) P).
  set (g := fun r : row => negb (casc_row_from (s_c sch) r gone)).
  assert (Hgone : map e_row sel = gone) by (apply rows_of_sel).
  assert (HndP : NoDup (map e_id (ents (d_p st)))) by (destruct Tp as [_ _ [H _] _]; exact H).
  assert (HndC : NoDup (map e_id (ents (d_c st)))) by (destruct Tc as [_ _ [H _] _]; exact H).
  (* what is left to show once the child side is settled: ids = the child entries removed *)
  assert (Hmain : forall ids,
            visible (mkT (drop_ids ids (ents (d_c st))) (idx_del_from (idxs (d_c st)) (s_c sch) 0 (filter (fun e => existsb (Z.eqb (e_id e)) ids) (ents (d_c st))))) = filter g C ->
            tinv (s_c sch) (mkT (drop_ids ids (ents (d_c st))) (idx_del_from (idxs (d_c st)) (s_c sch) 0 (filter (fun e => existsb (Z.eqb (e_id e)) ids) (ents (d_c st))))) (d_next st) ->
            fk_ok (s_c sch) P' (filter g C) = true ->
            let st' := mkD (mkT (tombstone sel (ents (d_p st))) (idx_del_from (idxs (d_p st)) (s_p sch) 0 sel))
                           (mkT (drop_ids ids (ents (d_c st))) (idx_del_from (idxs (d_c st)) (s_c sch) 0 (filter (fun e => existsb (Z.eqb (e_id e)) ids) (ents (d_c st))))) (d_next st) in
            exec_write sch (visible (d_p st), visible (d_c st)) (SDel TP w) = (true, abs_db st') /\ Inv sch st').
  { intros ids Hvis Htc Hfk st'.
    assert (Habs : abs_db st' = (P', filter g C)).
    { unfold abs_db, st'. cbn [d_p d_c]. rewrite Hvis. unfold sel. rewrite visible_tomb by exact HndP. reflexivity. }
    assert (Hval : valid_db sch (P', filter g C) = true).
    { apply valid_split. repeat split.
      - apply forallb_filter. exact V1.
      - unfold uniq_ok in *. apply uniq_from_filter. exact V2.
      - apply forallb_filter. exact V3.
      - unfold uniq_ok in *. apply uniq_from_filter. exact V4.
      - exact Hfk. }
    split.
    - unfold exec_write.
      change (apply_stmt sch (visible (d_p st), visible (d_c st)) (SDel TP w)) with (P', filter g C).
      match goal with |- (if ?b then _ else _) = _ => assert (Hb : b = true) by exact Hval; rewrite Hb end.
      rewrite Habs. reflexivity.
    - constructor.
      + rewrite Habs. exact Hval.
      + unfold st'. cbn [d_p d_next]. unfold sel. apply tinv_del; assumption.
      + unfold st'. cbn [d_c d_next]. exact Htc.
      + exact (inv_next _ _ I). }
  unfold do_delete. cbn [cols_of ts_of set_ts d_p d_c d_next]. rewrite Hsel. fold sel.
  (* the child rows of the reference all have the width of the child table *)
  assert (HlenC : forall r, In r C -> length r = length (s_c sch)).
  { intros r Hr. unfold C, visible in Hr. apply in_map_iff in Hr. destruct Hr as [e [<- He]]. apply filter_In in He.
    destruct Tc as [_ _ _ [Hrf _]]. apply row_fits_len. apply Hrf. tauto. }
  destruct (fk_cols sch) as [|[[j rc] act] fks] eqn:FK.
  - (* no foreign key at all *)
    pose proof (fk_cols_none (s_c sch) 0 FK) as Hn.
    assert (Hdv : del_vals sch sel = []).
    { unfold del_vals. rewrite FK. apply (flat_map_map_nil (fun e f => col_val (snd (fst f)) (e_row e))). }
    rewrite Hdv. cbn [child_scans]. exists true. eexists. split; [reflexivity|].
    unfold abs_db at 1. apply Hmain.
    + rewrite drop_ids_nil. symmetry. apply filter_true. intros r _. unfold g. rewrite (casc_row_nofk _ Hn). reflexivity.
    + apply (tinv_ext _ (d_c st)); [cbn [ents]; rewrite drop_ids_nil; reflexivity|cbn [idxs]; symmetry; apply idx_del_noop; intros e0 d0 j0 He; apply filter_In in He; destruct He as [_ He]; discriminate|exact Tc].
    + unfold fk_ok. apply forallb_forall. intros r _. apply fk_row_nofk. exact Hn.
  - (* one foreign key: column j of c references column rc of p *)
    assert (Hfks : fks = []).
    { pose proof (wf_fk1 _ W) as H1. unfold fk_count in H1. unfold fk_cols in FK. rewrite FK in H1. cbn [length] in H1.
      destruct fks; [reflexivity|cbn [length] in H1; lia]. }
    subst fks. unfold fk_cols in FK.
    destruct (fk_single (s_c sch) 0 j rc act FK) as [_ [Hrow Hcasc]]. rewrite Nat.sub_0_r in Hrow, Hcasc.
    (* the referenced column is a declared key of p: its values are unique *)
    assert (Hrc : nodupv (colvals rc P) = true).
    { assert (Hdx : exists d, In d (s_c sch) /\ c_fk d = Some (mkFk rc act)).
      { clear -FK. revert FK. generalize 0%nat. induction (s_c sch) as [|d ds IH]; intros i H; [discriminate|].
        cbn [fk_cols_from] in H. destruct (c_fk d) as [f|] eqn:E.
        - injection H as _ H1 H2 _. exists d. split; [left; reflexivity|]. rewrite E. destruct f as [fc fa]. cbn [fk_col fk_act] in *. subst. reflexivity.
        - destruct (IH _ H) as [d' [H1 H2]]. exists d'. split; [right; exact H1|exact H2]. }
      destruct Hdx as [d [Hin Hf]]. destruct (wf_fk_decl _ W d _ Hin Hf) as [pd [Hpd K]]. cbn [fk_col] in Hpd.
      unfold uniq_ok in V2. exact (uniq_from_nth (s_p sch) 0 P rc pd V2 Hpd K). }
    set (vals := map (fun e => col_val rc (e_row e)) sel).
    assert (Hdv : del_vals sch sel = vals).
    { unfold del_vals, fk_cols. rewrite FK. unfold vals.
      apply (flat_map_map_one (fun e (f : nat * nat * Z) => col_val (snd (fst f)) (e_row e)) (j, rc, act)). }
    assert (Hvg : colvals rc gone = vals).
    { rewrite <- Hgone. unfold colvals, vals. rewrite map_map. reflexivity. }
    rewrite Hdv in *.
    assert (Hcs : (if match vals with [] => true | _ => false end then Some []
                   else child_scans [(j, rc, act)] vals (ents (d_c st))) = child_scans [(j, rc, act)] vals (ents (d_c st))).
    { destruct vals; [rewrite child_scans_novals; reflexivity|reflexivity]. }
    rewrite Hcs. cbn [child_scans].
    (* on live child entries the scan test is the reference's test on the row *)
    assert (Hhit : forall e, In e (ents (d_c st)) -> live e = true ->
              hit vals j e = negb (is_null (col_val j (e_row e))) && vmem (col_val j (e_row e)) vals).
    { intros e He Le. unfold hit, chit. rewrite Le. reflexivity. }
    (* a kept parent value: held before and not removed *)
    assert (Hkept : forall v, is_null v = false ->
              vmem v (colvals rc P') = vmem v (colvals rc P) && negb (vmem v vals)).
    { intros v Nv. unfold P'. rewrite (vmem_kept rc (wpass w) P v Hrc Nv). fold gone. rewrite Hvg. reflexivity. }
    destruct (act =? 2) eqn:A.
    + (* CASCADE *)
      apply Z.eqb_eq in A. subst act. rewrite child_scan_casc. exists true. eexists. split; [reflexivity|].
      rewrite app_nil_r.
      unfold abs_db at 1. apply Hmain.
      * rewrite (drop_ids_filter _ _ HndC). unfold visible. cbn [ents]. fold (visible (d_c st)). fold C.
        rewrite (visible_filter_rows (hit vals j) (fun r => casc_row_from (s_c sch) r gone)); [reflexivity|].
        intros e He Le. rewrite (Hhit e He Le).
        rewrite Hcasc by (destruct Tc as [_ _ _ [Hrf _]]; apply row_fits_len; apply Hrf; exact He).
        rewrite Hvg. reflexivity.
      * (* the child table without the cascaded entries *)
        assert (Hk19 : forall x, In x (ents (d_c st)) -> live x = true -> hit vals j x = true ->
                       has_keyval (s_c sch) (e_row x) = false).
        { intros x Hx Lx Gx.
          unfold del_casc_keys, fk_cols in C19. rewrite FK in C19. cbn [child_scans] in C19. rewrite child_scan_casc in C19.
          rewrite app_nil_r in C19.
          destruct (has_keyval (s_c sch) (e_row x)) eqn:HK; [|reflexivity]. exfalso.
          assert (X : existsb (fun e => live e && existsb (Z.eqb (e_id e)) (map e_id (filter (hit vals j) (ents (d_c st)))) &&
                                        has_keyval (s_c sch) (e_row e)) (ents (d_c st)) = true).
          { apply existsb_exists. exists x. split; [exact Hx|]. rewrite Lx, HK. cbn [andb]. rewrite andb_true_r.
            apply existsb_exists. exists (e_id x). split; [|apply Z.eqb_refl]. apply in_map. apply filter_In. split; assumption. }
          congruence. }
        destruct Tc as [Hex Hnn [_ Hid] [Hrf Hli]].
        apply (tinv_ext _ (mkT (filter (fun e => negb (hit vals j e)) (ents (d_c st))) (idxs (d_c st)))).
        { cbn [ents]. symmetry. apply drop_ids_filter. exact HndC. }
        { cbn [idxs]. symmetry. apply idx_del_noop. intros e d jj He Hdj K.
          rewrite (ids_filter _ _ HndC) in He. apply filter_In in He. destruct He as [He Ge].
          assert (Le : live e = true) by (unfold hit, chit in Ge; apply andb_true_iff in Ge; destruct Ge as [Ge _]; apply andb_true_iff in Ge; tauto).
          assert (Hi : (jj < length (e_row e))%nat).
          { rewrite (row_fits_len _ _ (Hrf e He)). apply nth_error_Some. rewrite Hdj. discriminate. }
          exact (has_keyval_nth _ _ jj d (Hk19 e He Le Ge) Hdj K Hi). }
        constructor.
        -- intros i d Hdi K v Nv. unfold get_idx. cbn [idxs]. fold (get_idx (d_c st) i). rewrite (Hex i d Hdi K v Nv).
           unfold live_has. cbn [ents]. symmetry. apply existsb_filter_same.
           intros x Hx Gx. apply negb_false_iff in Gx. destruct (live x) eqn:Lx; [|reflexivity]. cbn [andb].
           pose proof (Hk19 x Hx Lx Gx) as Hk.
           assert (Hi : (i < length (e_row x))%nat).
           { rewrite (row_fits_len _ _ (Hrf x Hx)). apply nth_error_Some. rewrite Hdi. discriminate. }
           pose proof (has_keyval_nth _ _ i d Hk Hdi K Hi) as Hn. fold (col_val i (e_row x)) in Hn.
           apply is_null_eq in Hn. rewrite Hn. destruct v; try discriminate; reflexivity.
        -- exact Hnn.
        -- unfold ids_ok. cbn [ents]. split.
           ++ apply NoDup_map_filter. exact HndC.
           ++ intros e He. apply filter_In in He. apply Hid. tauto.
        -- unfold rows_ok. cbn [ents idxs]. split; [|exact Hli]. intros e He. apply filter_In in He. apply Hrf. tauto.
      * (* every remaining child still has its parent *)
        unfold fk_ok. apply forallb_forall. intros r Hr. apply filter_In in Hr. destruct Hr as [Hr Gr].
        unfold g in Gr. apply negb_true_iff in Gr. rewrite (Hcasc r gone (HlenC r Hr)) in Gr. cbn [Z.eqb andb] in Gr.
        change (2 =? 2) with true in Gr. cbn [andb] in Gr. rewrite Hvg in Gr.
        unfold fk_ok in V5. rewrite forallb_forall in V5. specialize (V5 r Hr). rewrite (Hrow r P (HlenC r Hr)) in V5.
        rewrite (Hrow r P' (HlenC r Hr)). fold (col_val j r) in *.
        destruct (is_null (col_val j r)) eqn:N; [reflexivity|]. cbn [negb andb orb] in *.
        rewrite (Hkept _ N), V5, Gr. reflexivity.
    + (* RESTRICT / NO ACTION *)
      rewrite (child_scan_block j act vals _ A).
      assert (Hlive : forall e, In e (ents (d_c st)) -> hit vals j e = true -> live e = true).
      { intros e He Hh. unfold hit, chit in Hh. apply andb_true_iff in Hh. destruct Hh as [Hh _]. apply andb_true_iff in Hh. tauto. }
      assert (Hg : forall r, In r C -> g r = true).
      { intros r Hr. unfold g. rewrite (Hcasc r gone (HlenC r Hr)). reflexivity. }
      destruct (existsb (hit vals j) (ents (d_c st))) eqn:B.
      * (* blocked: some child would lose its parent *)
        exists false, st. split; [reflexivity|]. split; [|exact I].
        apply existsb_exists in B. destruct B as [e [He Hh]]. pose proof (Hlive e He Hh) as Le.
        rewrite (Hhit e He Le) in Hh. apply andb_true_iff in Hh. destruct Hh as [N Hm]. apply negb_true_iff in N.
        assert (Hr : In (e_row e) C). { unfold C, visible. apply in_map. apply filter_In. split; assumption. }
        unfold exec_write, abs_db.
        change (apply_stmt sch (visible (d_p st), visible (d_c st)) (SDel TP w)) with (P', filter g C).
        rewrite (filter_true C g Hg).
        assert (Hbad : valid_db sch (P', C) = false).
        { destruct (valid_db sch (P', C)) eqn:Vd; [|reflexivity]. exfalso.
          apply valid_split in Vd. destruct Vd as [_ [_ [_ [_ F]]]]. unfold fk_ok in F. rewrite forallb_forall in F.
          specialize (F _ Hr). rewrite (Hrow _ P' (HlenC _ Hr)) in F. fold (col_val j (e_row e)) in F.
          rewrite N in F. cbn [orb] in F. rewrite (Hkept _ N), Hm in F. rewrite andb_false_r in F. discriminate. }
        match goal with |- (if ?b then _ else _) = _ => assert (Hb : b = false) by exact Hbad; rewrite Hb end.
        reflexivity.
      * (* nothing references the deleted rows *)
        exists true. eexists. split; [reflexivity|]. unfold abs_db at 1. apply Hmain.
        -- rewrite drop_ids_nil. fold (visible (d_c st)). fold C. symmetry. exact (filter_true C g Hg).
        -- apply (tinv_ext _ (d_c st)); [cbn [ents]; rewrite drop_ids_nil; reflexivity|cbn [idxs]; symmetry; apply idx_del_noop; intros e0 d0 j0 He; apply filter_In in He; destruct He as [_ He]; discriminate|exact Tc].
        -- rewrite (filter_true C g Hg). unfold fk_ok. apply forallb_forall. intros r Hr.
           unfold fk_ok in V5. rewrite forallb_forall in V5. specialize (V5 r Hr). rewrite (Hrow r P (HlenC r Hr)) in V5.
           rewrite (Hrow r P' (HlenC r Hr)). fold (col_val j r) in *.
           destruct (is_null (col_val j r)) eqn:N; [reflexivity|]. cbn [orb] in *. rewrite (Hkept _ N), V5. cbn [andb].
           unfold C, visible in Hr. apply in_map_iff in Hr. destruct Hr as [e [Er He]]. apply filter_In in He. destruct He as [He Le].
           assert (Hn : hit vals j e = false).
           { destruct (hit vals j e) eqn:X; [|reflexivity]. exfalso.
             assert (Y : existsb (hit vals j) (ents (d_c st)) = true) by (apply existsb_exists; exists e; split; assumption). congruence. }
           rewrite (Hhit e He Le), Er, N in Hn. cbn [negb andb] in Hn. rewrite Hn. reflexivity.
Qed.

Theorem delete_exact_l sch st t w :
  wf_schema sch -> Inv sch st -> stmt_class sch st (SDel t w) = 0 ->
  exists ok st', impl_step sch st (SDel t w) = (Some ok, st') /\
                 exec_write sch (abs_db st) (SDel t w) = (ok, abs_db st') /\ Inv sch st'.
Proof.
  intros W I Hc. cbn [impl_step]. destruct t.
  - destruct (delete_p_exact sch st w W I Hc) as [ok [st' [H1 [H2 H3]]]]. exists ok, st'. rewrite H1. split; [reflexivity|]. split; [exact H2|exact H3].
  - assert (Hd : has_dead (select_rows (s_c sch) (d_c st) w) = false).
    { cbn [stmt_class cols_of ts_of] in Hc. destruct (has_dead _); [discriminate|reflexivity]. }
    destruct (delete_c_exact sch st w W I Hd) as [st' [H1 [H2 H3]]]. exists true, st'. rewrite H1. split; [reflexivity|]. split; [exact H2|exact H3].
Qed.
