(* C31 proofs, part 5: every column of a built record reads back as the value that was
   set, hence the round-trip theorem. *)
From Coq Require Import ZArith List Bool Lia ZifyBool.
From TV Require Import Lib.MachInt Lib.MachIntFacts Model.Record
  Proof.RecordBase Proof.RecordBuild Proof.RecordReset Proof.RecordRefute Proof.RecordView.
Import ListNotations.
Open Scope Z_scope.

Ltac Zify.zify_post_hook ::= Z.to_euclidean_division_equations.

(* ------------------------------------------------------------------ rows split at a column *)
Lemma fits_cols_app a : forall ra b rb, length a = length ra ->
  fits_cols (a ++ b) (ra ++ rb) = fits_cols a ra && fits_cols b rb.
Proof.
  induction a as [|t a IH]; intros [|v ra] b rb H; cbn [length] in H; try discriminate; cbn [fits_cols app].
  - reflexivity.
  - rewrite IH by lia. apply andb_assoc.
Qed.
Lemma has_toast_blob_app a : forall ra b rb, length a = length ra ->
  has_toast_blob (a ++ b) (ra ++ rb) = has_toast_blob a ra || has_toast_blob b rb.
Proof.
  induction a as [|t a IH]; intros [|v ra] b rb H; cbn [length] in H; try discriminate; cbn [has_toast_blob app].
  - reflexivity.
  - rewrite IH by lia. apply orb_assoc.
Qed.
Lemma total_var_app a : forall ra b rb, length a = length ra ->
  total_var (a ++ b) (ra ++ rb) = total_var a ra + total_var b rb.
Proof.
  induction a as [|t a IH]; intros [|v ra] b rb H; cbn [length] in H; try discriminate; cbn [total_var app].
  - lia.
  - rewrite IH by lia. lia.
Qed.
Lemma var_len_nonneg v : 0 <= var_len v.
Proof. destruct v; cbn [var_len]; try lia; try apply blen_nonneg. pose proof (blen_nonneg f32s). lia. Qed.
Lemma total_var_nonneg s : forall row, 0 <= total_var s row.
Proof.
  induction s as [|t s IH]; intros [|v r]; cbn [total_var]; try lia.
  specialize (IH r). pose proof (var_len_nonneg v). destruct (is_var t); lia.
Qed.
Lemma is_vnull_eq v : is_vnull v = true -> v = VNull.
Proof. destruct v; try discriminate; reflexivity. Qed.

Lemma nth_cums_at A p B :
  nth (length A) (cums 0 (A ++ p :: B)) 0 = blen (concat A) + blen p.
Proof.
  rewrite cums_app. rewrite app_nth2 by (rewrite cums_length; lia).
  rewrite cums_length, Nat.sub_diag. cbn [cums nth]. lia.
Qed.
Lemma nth_cums_before A p B :
  A <> [] -> nth (length A - 1) (cums 0 (A ++ p :: B)) 0 = blen (concat A).
Proof.
  intros H. rewrite cums_app.
  assert (0 < length A)%nat by (destruct A; [congruence | cbn [length]; lia]).
  rewrite app_nth1 by (rewrite cums_length; lia).
  rewrite cums_last by exact H. lia.
Qed.

(* ------------------------------------------------------------------ one column *)
Lemma from_record_column_ok done t todo rdone v rtodo bm :
  let s := done ++ t :: todo in
  let row := rdone ++ v :: rtodo in
  length done = length rdone ->
  schema_ok s = true -> fits_cols s row = true -> total_var s row < 65536 ->
  has_toast_blob s row = false ->
  blen bm = bitmap_size (ncols s) ->
  bit bm (Z.of_nat (length done)) = is_vnull v ->
  from_record_column s (record_bytes s bm row) (Z.of_nat (length done)) t = Ok v.
Proof.
  intros s row Hlen Hs Hfc Htv Htb Hbm Hbit.
  set (idx := Z.of_nat (length done)) in *.
  (* per-column facts *)
  pose proof Hfc as Hfc'. unfold s, row in Hfc'. rewrite fits_cols_app in Hfc' by exact Hlen.
  apply andb_true_iff in Hfc'. destruct Hfc' as [Hfd Hfr]. cbn [fits_cols] in Hfr.
  apply andb_true_iff in Hfr. destruct Hfr as [Hfv Hft].
  pose proof Htb as Htb'. unfold s, row in Htb'. rewrite has_toast_blob_app in Htb' by exact Hlen.
  apply orb_false_iff in Htb'. destruct Htb' as [_ Htbr]. cbn [has_toast_blob] in Htbr.
  apply orb_false_iff in Htbr. destruct Htbr as [Htbv _].
  assert (Hvl : is_var t = true -> var_len v < 65536).
  { intros Hv. unfold s, row in Htv. rewrite total_var_app in Htv by exact Hlen. cbn [total_var] in Htv.
    rewrite Hv in Htv. pose proof (total_var_nonneg done rdone). pose proof (total_var_nonneg todo rtodo). lia. }
  (* the record, piece by piece *)
  set (hl := header_of s).
  assert (Hhl : 0 <= hl < 65536).
  { unfold hl, header_of. unfold schema_ok in Hs. pose proof (ncols_nonneg s). rewrite nvar_nvars in *.
    unfold bitmap_size in *. lia. }
  set (OT := flat_map (le_bytes 2) (cums 0 (vsegs s row))).
  set (F := fsegs s row). set (V := concat (vsegs s row)).
  assert (Hdata : record_bytes s bm row = le_bytes 2 hl ++ bm ++ OT ++ F ++ V) by reflexivity.
  assert (Hrowlen : length s = length row) by (apply fits_cols_length; exact Hfc).
  assert (HOT : blen OT = 2 * nvar s).
  { unfold OT. rewrite blen_flat_le2, cums_length, vsegs_length, nvar_nvars by exact Hrowlen. reflexivity. }
  assert (HF : blen F = total_fixed s) by (apply fsegs_len; assumption).
  assert (HV : blen V = total_var s row) by (apply concat_vsegs_len; assumption).
  assert (Hhead : blen (le_bytes 2 hl ++ bm ++ OT) = hl).
  { rewrite !blen_app, blen_le_bytes, Hbm, HOT. unfold hl, header_of. lia. }
  assert (Hlen_data : blen (record_bytes s bm row) = hl + total_fixed s + total_var s row).
  { rewrite Hdata. rewrite !blen_app in *. lia. }
  assert (Hhdr : header_len (record_bytes s bm row) = Ok hl) by (rewrite Hdata; apply header_len_ok; exact Hhl).
  assert (Hidx : 0 <= idx < ncols s).
  { unfold idx, ncols, s. rewrite app_length. cbn [length]. lia. }
  pose proof (total_fixed_nonneg s) as Htf0. pose proof (total_var_nonneg s row) as Htv0.
  unfold from_record_column, is_null_or_missing, record_column_count.
  rewrite Hhdr. cbn [bind]. rewrite Hlen_data.
  replace (hl + total_fixed s + total_var s row <? hl) with false by lia.
  - cbn [bind]. rewrite rcc_all by lia. fold (ncols s). fold idx.
    replace (idx >=? 0 + ncols s) with false by lia.
    (* is_null *)
    unfold is_null. rewrite Hdata.
    rewrite (rd_at (le_bytes 2 hl) bm (OT ++ F ++ V)) by (rewrite ?blen_le_bytes; lia).
    cbn [bind]. pose proof (bitmap_idx _ _ Hidx) as Hj.
    unfold bidx_ok. replace ((0 <=? idx / 8) && (idx / 8 <? blen bm)) with true by lia.
    rewrite land_pow2_test by lia. fold (bit bm idx). rewrite Hbit. cbn [bind].
    destruct (is_vnull v) eqn:Hn; [rewrite (is_vnull_eq v Hn); reflexivity|].
    destruct (is_var t) eqn:Hv.
    + (* variable width *)
      destruct (var_roundtrip t v Hfv Hn Hv Htbv (Hvl eq_refl)) as [Hg Hdec].
      rewrite Hg. unfold get_blob, get_var_bounds. unfold idx, s at 1.
      rewrite var_column_index_split by exact Hv. fold s.
      rewrite <- Hdata.
      (* the table *)
      assert (Htab : rd (record_bytes s bm row) (2 + bitmap_size (ncols s)) (2 + bitmap_size (ncols s) + nvar s * 2) = Ok OT).
      { rewrite Hdata. rewrite (app_assoc (le_bytes 2 hl) bm).
        apply rd_at; rewrite ?blen_app, ?blen_le_bytes; lia. }
      rewrite Htab, Hhdr. cbn [bind].
      (* the segments *)
      set (A := vsegs done rdone). set (B := vsegs todo rtodo). set (p := payload t v).
      assert (Hsegs : vsegs s row = A ++ p :: B).
      { unfold s, row. rewrite vsegs_app by exact Hlen. cbn [vsegs]. unfold vseg. rewrite Hv, Hn. reflexivity. }
      assert (HA : length A = nvars done) by (apply vsegs_length; exact Hlen).
      assert (Hrange : forall x, In x (cums 0 (vsegs s row)) -> 0 <= x < 65536).
      { intros x Hx. apply cums_bound in Hx. fold V in Hx. lia. }
      assert (Hk : (nvars done < length (cums 0 (vsegs s row)))%nat).
      { rewrite cums_length, Hsegs, app_length. cbn [length]. lia. }
      unfold OT at 1. rewrite u16_at_flat by (try exact Hk; exact Hrange).
      cbn [bind].
      assert (Hstart : (if Z.of_nat (nvars done) =? 0 then Ok 0
                        else u16_at OT ((Z.of_nat (nvars done) - 1) * 2)) = Ok (blen (concat A))).
      { destruct (Z.eqb_spec (Z.of_nat (nvars done)) 0) as [E|E].
        - assert (A = []) by (destruct A; [reflexivity | cbn [length] in HA; lia]). subst A.
          replace (vsegs done rdone) with (@nil (list Z)) by auto. reflexivity.
        - replace (Z.of_nat (nvars done) - 1) with (Z.of_nat (nvars done - 1)) by lia.
          unfold OT. rewrite u16_at_flat by (try lia; exact Hrange).
          rewrite Hsegs, <- HA. rewrite nth_cums_before; [reflexivity|].
          intros C. rewrite C in HA. cbn [length] in HA. lia. }
      rewrite Hstart. cbn [bind fst snd].
      rewrite Hsegs at 1. rewrite <- HA, nth_cums_at.
      (* the bytes *)
      assert (HVsplit : V = concat A ++ p ++ concat B).
      { unfold V. rewrite Hsegs, concat_app. cbn [concat]. reflexivity. }
      rewrite Hdata, HVsplit.
      replace (le_bytes 2 hl ++ bm ++ OT ++ F ++ concat A ++ p ++ concat B)
        with ((le_bytes 2 hl ++ bm ++ OT ++ F ++ concat A) ++ p ++ concat B)
        by (rewrite <- !app_assoc; reflexivity).
      rewrite rd_at; [cbn [bind]; exact Hdec | | lia].
      rewrite !blen_app in *. lia.
    + (* fixed width *)
      destruct (fixed_roundtrip t v Hfv Hn Hv) as [dec [Hg Hdec]].
      rewrite Hg. unfold get_fixed. rewrite <- Hdata, Hhdr. cbn [bind].
      unfold idx, s at 1. rewrite fixed_offset_split. fold s. cbn [bind].
      set (A := fsegs done rdone). set (B := fsegs todo rtodo). set (p := payload t v).
      assert (HFsplit : F = A ++ p ++ B).
      { unfold F, s, row. rewrite fsegs_app by exact Hlen. cbn [fsegs]. unfold fseg. rewrite Hv, Hn. reflexivity. }
      assert (HA : blen A = total_fixed done) by (apply fsegs_len; assumption).
      assert (Hp : blen p = fsz t) by (apply payload_fixed_len; assumption).
      rewrite Hdata, HFsplit.
      replace (le_bytes 2 hl ++ bm ++ OT ++ (A ++ p ++ B) ++ V)
        with ((le_bytes 2 hl ++ bm ++ OT ++ A) ++ p ++ (B ++ V))
        by (rewrite <- !app_assoc; reflexivity).
      rewrite rd_at; [cbn [bind]; unfold p; rewrite Hdec; reflexivity | | lia].
      rewrite !blen_app in *. lia.
Qed.

(* ------------------------------------------------------------------ all columns *)
Lemma extract_from_ok s row bm :
  schema_ok s = true -> fits_cols s row = true -> total_var s row < 65536 ->
  has_toast_blob s row = false ->
  blen bm = bitmap_size (ncols s) ->
  (forall j, (j < length s)%nat -> bit bm (Z.of_nat j) = is_vnull (nth j row VNull)) ->
  forall todo rtodo done rdone,
    s = done ++ todo -> row = rdone ++ rtodo -> length done = length rdone ->
    extract_from s (record_bytes s bm row) (Z.of_nat (length done)) todo = Ok rtodo.
Proof.
  intros Hs Hfc Htv Htb Hbm Hbits.
  pose proof (fits_cols_length _ _ Hfc) as Hrl.
  induction todo as [|t todo IH]; intros rtodo done rdone Es Er Hlen.
  - assert (rtodo = []).
    { subst s row. rewrite !app_length in Hrl. cbn [length] in Hrl. destruct rtodo; [reflexivity | cbn [length] in Hrl; lia]. }
    subst rtodo. reflexivity.
  - destruct rtodo as [|v rtodo].
    { subst s row. rewrite !app_length in Hrl. cbn [length] in Hrl. lia. }
    cbn [extract_from].
    assert (Hcol : from_record_column s (record_bytes s bm row) (Z.of_nat (length done)) t = Ok v).
    { subst s row. apply from_record_column_ok; try assumption.
      rewrite Hbits by (rewrite app_length; cbn [length]; lia).
        rewrite app_nth2 by lia. rewrite Hlen, Nat.sub_diag. reflexivity. }
    rewrite Hcol. cbn [bind].
    replace (Z.of_nat (length done) + 1) with (Z.of_nat (length (done ++ [t])))
      by (rewrite app_length; cbn [length]; lia).
    rewrite (IH rtodo (done ++ [t]) (rdone ++ [v])).
    + reflexivity.
    + rewrite <- app_assoc. exact Es.
    + rewrite <- app_assoc. exact Er.
    + rewrite !app_length. cbn [length]. lia.
Qed.

(* ------------------------------------------------------------------ the property *)
Lemma known_class_0 s row : known_class s row = 0 -> has_toast_blob s row = false.
Proof. unfold known_class. destruct (has_toast_blob s row); [discriminate | reflexivity]. Qed.

(* For every schema and every row that fits it and lies outside the recorded defect class: a new builder produces a record, no step panics, and reading the record back
   returns exactly the row, NULLs included. *)
Lemma record_roundtrip_l :
  forall s row, schema_ok s = true -> fits_row s row = true -> known_class s row = 0 ->
    roundtrip_ok s row.
Proof.
  intros s row Hs Hfr Hk.
  pose proof (known_class_0 s row Hk) as Htb.
  destruct (build_fresh_closed s row Hs Hfr) as [bm [Hb [Hbm Hbits]]].
  unfold fits_row in Hfr. apply andb_true_iff in Hfr. destruct Hfr as [Hfc Htv].
  exists (record_bytes s bm row). split; [exact Hb|].
  unfold extract, view_new.
  assert (2 <= blen (record_bytes s bm row)).
  { unfold record_bytes. rewrite blen_app, blen_le_bytes.
    pose proof (blen_nonneg (bm ++ flat_map (le_bytes 2) (cums 0 (vsegs s row)) ++ fsegs s row ++ concat (vsegs s row))). lia. }
  replace (blen (record_bytes s bm row) <? 2) with false by lia. cbn [bind].
  apply (extract_from_ok s row bm Hs Hfc ltac:(lia) Htb Hbm Hbits s row [] []); reflexivity.
Qed.

(* the all-NULL row of any schema round-trips (it is not in the defect class) *)
Lemma all_null_facts s :
  fits_cols s (repeat VNull (length s)) = true /\ total_var s (repeat VNull (length s)) = 0 /\
  has_toast_blob s (repeat VNull (length s)) = false.
Proof.
  induction s as [|t s [A [B C]]]; cbn [length repeat fits_cols total_var has_toast_blob].
  - repeat split; reflexivity.
  - rewrite A, B, C. cbn [fits var_len andb].
    repeat split; try reflexivity.
    + destruct (is_var t); reflexivity.
    + destruct t; reflexivity.
Qed.

Lemma record_null_roundtrip_l :
  forall s, schema_ok s = true -> roundtrip_ok s (repeat VNull (length s)).
Proof.
  intros s Hs. destruct (all_null_facts s) as [A [B C]].
  apply record_roundtrip_l; [exact Hs | |].
  - unfold fits_row. rewrite A, B. reflexivity.
  - unfold known_class. rewrite C. reflexivity.
Qed.

(* the property's schemas (1..64 columns) all satisfy schema_ok *)
Lemma nvars_le s : (nvars s <= length s)%nat.
Proof.
  unfold nvars. induction s as [|t s IH]; cbn [filter length]; [lia|].
  destruct (is_var t); cbn [length]; lia.
Qed.
Lemma schema_ok_upto_64_l : forall s, (length s <= 64)%nat -> schema_ok s = true.
Proof.
  intros s H. unfold schema_ok. rewrite nvar_nvars. pose proof (nvars_le s).
  unfold bitmap_size, ncols. apply Z.ltb_lt. lia.
Qed.
