(* C12 model: the AUTO_INCREMENT counter of a table, as src/database/dml/insert.rs
   (execute_insert_internal) handles it.  Hand-written (the code is ~40 lines inside a 1000-line
   function over Vec<OwnedValue>, outside the tools/rs2v.py subset); tied to the compiled code by
   the correspondence run only.  Definitions only, no proofs.

   The mechanism (line numbers of insert.rs):
     389-402  cur := header.auto_increment(); max := cur          (header = page 0 of the table file)
     538-562  for each row:  id NULL/absent -> cur := cur.checked_add(1)? ; id := cur as i64 ;
                                               if cur > max { max := cur }
                             id = Int(v)    -> v < 0 ? bail : if (v as u64) > max { max := v as u64 }
     564-1102 the row is validated, checked against the unique indexes and written; any error
              returns from the function at once (rows written before stay in the table)
     1104-1120 after the loop only:  if max > 0 && max > header.auto_increment() { header := max }
   DELETE, BEGIN/COMMIT/ROLLBACK (transaction.rs undo_write_entry deletes the rows, nothing else)
   and close + Database::open never write the counter; open reads it back from page 0.

   Two more ways of inserting rows never look at the counter at all (src/database/batch.rs):
     insert_cached   what a PreparedStatement runs from its SECOND execution on
                     (database.rs execute_with_cached_plan: the first execution goes through
                     execute_insert_internal and caches a plan); needs one parameter per column
     insert_batch    the bulk-load API
   Both write the id values as given - NULL stays NULL, nothing is generated - and leave the
   header counter alone ([Bulk] below).  Only insert_cached is exercised by the correspondence
   run (rows loaded by insert_batch are not reliably visible to SELECT, so what the column holds
   cannot be observed there); for insert_batch [Bulk] is a reading of the code only. *)
From Coq Require Import ZArith List Bool.
From TV Require Import Lib.MachInt.
Import ListNotations.
Open Scope Z_scope.

(* the id column of one row of an INSERT statement *)
Inductive row := RNull | RInt (v : Z).        (* NULL / column absent,  or an explicit i64 *)

Inductive assigned :=
| AGen (cur' max' id : Z)    (* id generated: new cur, new max, the i64 written into the row *)
| AExp (max' id : Z)         (* explicit non-negative id kept *)
| AErr.                      (* checked_add overflow / negative explicit id: the statement returns Err *)

Definition assign (cur max : Z) (r : row) : assigned :=
  match r with
  | RNull =>
      let c := cur + 1 in
      if in_u 64 c                                   (* u64::checked_add *)
      then AGen c (if c >? max then c else max) (wrap_s 64 c)    (* `cur as i64` *)
      else AErr
  | RInt v =>
      if v <? 0 then AErr else AExp (if v >? max then v else max) v
  end.

Inductive stmt_end := Done (max : Z) | Failed.

(* The row loop.  [ext] = Some k: the k-th remaining row fails for a reason outside this model
   (constraint on another column, unique index hit, B-tree error ...) after its id was assigned
   and before it is written; None: no such failure.  Result: the rows written, in order, as
   (id, generated?) and how the loop ended. *)
Fixpoint stmt_loop (rows : list row) (ext : option nat) (cur max : Z) : list (Z * bool) * stmt_end :=
  match rows with
  | [] => ([], Done max)
  | r :: t =>
      match assign cur max r with
      | AErr => ([], Failed)
      | AGen c m id =>
          match ext with
          | Some O => ([], Failed)
          | _ => let '(w, e) := stmt_loop t (option_map Nat.pred ext) c m in ((id, true) :: w, e)
          end
      | AExp m id =>
          match ext with
          | Some O => ([], Failed)
          | _ => let '(w, e) := stmt_loop t (option_map Nat.pred ext) cur m in ((id, false) :: w, e)
          end
      end
  end.

(* one INSERT statement on a table whose header counter is ai:
   (new header counter, rows written, statement returned Ok?) *)
Definition insert_stmt (ai : Z) (rows : list row) (ext : option nat) : Z * list (Z * bool) * bool :=
  let '(w, e) := stmt_loop rows ext ai ai in
  match e with
  | Done m => (if (m >? 0) && (m >? ai) then m else ai, w, true)
  | Failed => (ai, w, false)
  end.

(* insert_cached / insert_batch: the integer ids written, as given; rows from the [ext]-th on are
   not written (the call failed there) *)
Fixpoint bulk_written (rows : list row) (ext : option nat) : list (Z * bool) :=
  match rows with
  | [] => []
  | r :: t =>
      match ext with
      | Some O => []
      | _ =>
          match r with
          | RNull => bulk_written t (option_map Nat.pred ext)
          | RInt v => (v, false) :: bulk_written t (option_map Nat.pred ext)
          end
      end
  end.

(* histories *)
Inductive op :=
| Insert (rows : list row) (ext : option nat)
| Bulk (rows : list row) (ext : option nat)
| Delete | TxBegin | TxCommit | TxRollback | Reopen.

Definition step (ai : Z) (o : op) : Z * list (Z * bool) :=
  match o with
  | Insert rows ext => let '(ai', w, _) := insert_stmt ai rows ext in (ai', w)
  | Bulk rows ext => (ai, bulk_written rows ext)
  | _ => (ai, [])
  end.

(* final counter and the trace = every (id, generated?) written to the column, in time order *)
Fixpoint run (ai : Z) (h : list op) : Z * list (Z * bool) :=
  match h with
  | [] => (ai, [])
  | o :: t => let '(ai', w) := step ai o in let '(aif, tr) := run ai' t in (aif, w ++ tr)
  end.

Definition counter (h : list op) : Z := fst (run 0 h).     (* a new table has counter 0 *)
Definition trace (h : list op) : list (Z * bool) := snd (run 0 h).

(* ------------------------------------------------------------------ the property (C12)
   every generated value differs from every value the column held before (explicit or generated,
   whether or not the row was deleted / rolled back since) and exceeds every earlier generated one *)
Definition fresh_increasing (tr : list (Z * bool)) : Prop :=
  forall pre g post, tr = pre ++ (g, true) :: post ->
    ~ In g (map fst pre) /\ (forall g', In (g', true) pre -> g' < g).

(* the same, as a checker (used on the values the implementation showed) *)
Fixpoint fi_chk (pre tr : list (Z * bool)) : bool :=
  match tr with
  | [] => true
  | (g, b) :: t =>
      (negb b || (negb (existsb (fun x => fst x =? g) pre) &&
                  forallb (fun x => negb (snd x) || (fst x <? g)) pre))
      && fi_chk (pre ++ [(g, b)]) t
  end.
Definition fresh_increasing_chk (tr : list (Z * bool)) : bool := fi_chk [] tr.

(* ------------------------------------------------------------------ recorded defect classes
   (known findings; each is a regime of the code above in which the property fails)
     3  an id is generated when cur + 1 > i64::MAX: `cur as i64` wraps to a negative value
        (checked_add only guards u64::MAX)
     1  an id is generated while max > cur, i.e. after an explicit id above the running counter
        earlier in the SAME statement: cur keeps counting from the old value and can reach it
     2  a statement fails after writing a row whose id is above the header counter: the rows stay
        (no statement atomicity) but the counter is only written after the loop, so the ids come
        again
     4  insert_cached / insert_batch writes an explicit id above the header counter: the counter
        does not learn about it and generates it later *)
Fixpoint gen_class (rows : list row) (ext : option nat) (cur max : Z) : Z :=
  match rows with
  | [] => 0
  | r :: t =>
      match ext with
      | Some O => 0
      | _ =>
          let here := match r with
                      | RNull => if 2 ^ 63 <=? cur + 1 then 3 else if max >? cur then 1 else 0
                      | RInt _ => 0
                      end in
          if here =? 0 then
            match assign cur max r with
            | AErr => 0
            | AGen c m _ => gen_class t (option_map Nat.pred ext) c m
            | AExp m _ => gen_class t (option_map Nat.pred ext) cur m
            end
          else here
      end
  end.

Definition stmt_class (ai : Z) (rows : list row) (ext : option nat) : Z :=
  let g := gen_class rows ext ai ai in
  if g =? 0 then
    match stmt_loop rows ext ai ai with
    | (w, Failed) => if existsb (fun x => fst x >? ai) w then 2 else 0
    | (_, Done _) => 0
    end
  else g.

Fixpoint known_class_from (ai : Z) (h : list op) : Z :=
  match h with
  | [] => 0
  | Insert rows ext :: t =>
      let c := stmt_class ai rows ext in
      if c =? 0 then known_class_from (fst (step ai (Insert rows ext))) t else c
  | Bulk rows ext :: t =>
      if existsb (fun x => fst x >? ai) (bulk_written rows ext) then 4 else known_class_from ai t
  | _ :: t => known_class_from ai t
  end.
Definition known_class (h : list op) : Z := known_class_from 0 h.

(* ------------------------------------------------------------------ column width
   The counter and the ids above are u64 / i64.  The id column may be narrower (SMALLINT 16,
   INTEGER 32, BIGINT 64 bits): RecordBuilder::set_int_auto stores `value as i16` / `value as i32`
   without a range check, so what the column holds (and SELECT shows) is the wrapped value, while
   RETURNING shows the id above. *)
Definition stored (w id : Z) : Z := wrap_s w id.
Definition trace_w (w : Z) (h : list op) : list (Z * bool) :=
  map (fun x => (stored w (fst x), snd x)) (trace h).
(*   5  an id outside the range of the id column's integer type is written: it is stored wrapped *)
Definition known_class_w (w : Z) (h : list op) : Z :=
  let c := known_class h in
  if c =? 0 then (if forallb (fun x => in_s w (fst x)) (trace h) then 0 else 5) else c.

Definition is_insert (o : op) : bool := match o with Insert _ _ | Bulk _ _ => true | _ => false end.
Definition single_row (h : list op) : Prop :=
  forall rows ext, In (Insert rows ext) h -> (length rows <= 1)%nat.
