(* C32 proofs, part 7: JsonbBuilder::try_build (the SQL conversion path): it succeeds exactly on the
   documents within the format limits, returns what `build` returns, and what it returns reads back
   as the canonical form -- refusal instead of corruption. *)
From Coq Require Import ZArith List Bool Lia ZifyBool.
From TV Require Import Lib.MachInt Lib.MachIntFacts Gen.JsonbBits Model.Jsonb Proof.Jsonb Proof.JsonbTop.
Import ListNotations.
Open Scope Z_scope.

Lemma wf_split : forall v n, wf_json n v = true <-> (typed v = true /\ limits_ok n v = true).
Proof.
  induction v as [| bb | x | s | els IH | kvs IH] using json_ind2; intros n; cbn [wf_json typed limits_ok].
  - tauto.
  - tauto.
  - tauto.
  - rewrite andb_true_iff. change (2 ^ 16) with 65536. change (2 ^ 28) with 268435456.
    destruct n; split; intros [H1 H2]; split; try assumption; lia.
  - rewrite !forallb_forall. rewrite Forall_forall in IH. split.
    + intros H. split; intros e He; apply (IH e He true); apply H; exact He.
    + intros [H1 H2] e He. apply (IH e He true). split; [apply H1|apply H2]; exact He.
  - rewrite !forallb_forall. rewrite Forall_forall in IH. split.
    + intros H. split; intros [k e] He; specialize (H _ He); cbn beta iota in H;
        apply andb_true_iff in H; destruct H as [H Hw]; apply andb_true_iff in H; destruct H as [Hu Hk];
        apply (IH (k, e) He true) in Hw; cbn [snd] in Hw; destruct Hw as [Ht Hl]; apply andb_true_iff; split; try assumption.
      change (2 ^ 16) with 65536 in Hk. lia.
    + intros [H1 H2] [k e] He. specialize (H1 _ He). specialize (H2 _ He). cbn beta iota in *.
      apply andb_true_iff in H1. destruct H1 as [Hu Ht]. apply andb_true_iff in H2. destruct H2 as [Hk Hl].
      apply andb_true_iff. split; [apply andb_true_iff; split; [exact Hu|change (2 ^ 16) with 65536; lia]|].
      apply (IH (k, e) He true). cbn [snd]. split; assumption.
Qed.

Lemma try_build_fits_l : forall j, fits j = true -> try_build j = Ok (encode_value j).
Proof.
  intros j H. unfold fits in H. apply andb_true_iff in H. destruct H as [Hwf Hlen].
  apply wf_split in Hwf. destruct Hwf as [_ Hl]. unfold try_build. rewrite Hl.
  change (OFFSET_MASK + 1) with (2 ^ 24). rewrite Hlen. reflexivity.
Qed.

Lemma try_build_ok_l : forall j b, typed j = true -> try_build j = Ok b -> b = encode_value j /\ fits j = true.
Proof.
  intros j b Ht H. unfold try_build in H. destruct (limits_ok false j) eqn:Hl; [|discriminate].
  destruct (is_str j || (blen (encode_value j) <=? OFFSET_MASK + 1)) eqn:Hs; [|discriminate].
  inversion H. split; [reflexivity|]. unfold fits. apply andb_true_iff. split.
  - apply wf_split. split; assumption.
  - exact Hs.
Qed.

Lemma try_build_refuses_l : forall j, typed j = true -> fits j = false -> try_build j = Err.
Proof.
  intros j Ht Hf. destruct (try_build j) as [b| | |] eqn:E; try reflexivity.
  - destruct (try_build_ok_l j b Ht E) as [_ H]. congruence.
  - unfold try_build in E. destruct (limits_ok false j); [destruct (is_str j || _)|]; discriminate.
  - unfold try_build in E. destruct (limits_ok false j); [destruct (is_str j || _)|]; discriminate.
Qed.

Lemma try_build_roundtrip_l : forall j b, typed j = true -> try_build j = Ok b ->
  tree_of_view (S (depth j)) b = Ok (canon j).
Proof.
  intros j b Ht H. destruct (try_build_ok_l j b Ht H) as [-> Hf]. apply roundtrip_l. exact Hf.
Qed.

(* the raw `build` API keeps truncating beyond the limits; try_build refuses that document *)
Lemma raw_build_long_string_l :
  exists j, typed j = true /\ fits j = false /\ blen (encode_value j) <= 2 ^ 24 /\
            tree_of_view (S (depth j)) (encode_value j) = Ok (JArr [JStr []]) /\ canon j <> JArr [JStr []] /\
            try_build j = Err.
Proof.
  exists (JArr [JStr (repeat 97 (Z.to_nat 65536))]).
  split; [vm_compute; reflexivity|]. split; [vm_compute; reflexivity|].
  split; [vm_compute; intros H; discriminate H|]. split; [vm_compute; reflexivity|].
  split; [cbn [canon map]; intros H; inversion H|vm_compute; reflexivity].
Qed.
