(* C36 proofs, part 3: structural facts about one atomic step (page map, which (page, entry)
   pairs a thread mentions, the ghost flag). *)
From Coq Require Import ZArith List Bool Arith Lia.
From TV Require Import Lib.Interleave Model.PageLocks Proof.PageLocksBase Proof.PageLocksStep.
Import ListNotations.
Open Scope Z_scope.

Definition pc_key (p : pc) : option (Z * nat) :=
  match p with
  | PGot _ k e | PProbe _ k e | PLock _ k e _ | PWaitR k e _ | PLocked _ k e _ | PUnl k e | PClean k e => Some (k, e)
  | _ => None
  end.
(* references that are going to be / are locked: from get_or_create to force_unlock *)
Definition pc_coh (p : pc) : option (Z * nat) :=
  match p with
  | PGot _ k e | PProbe _ k e | PLock _ k e _ | PWaitR k e _ | PLocked _ k e _ => Some (k, e)
  | _ => None
  end.
Definition has_guard (th : thread) (k : Z) (e : nat) : Prop := exists g, In g (th_pg th) /\ g_k g = k /\ g_e g = e.
Definition mentions (th : thread) (k : Z) (e : nat) : Prop := pc_key (th_pc th) = Some (k, e) \/ has_guard th k e.
Definition cohref (th : thread) (k : Z) (e : nat) : Prop := pc_coh (th_pc th) = Some (k, e) \/ has_guard th k e.

Lemma cohref_mentions th k e : cohref th k e -> mentions th k e.
Proof. intros [H|H]; [left|right]; auto. destruct (th_pc th); cbn in *; try discriminate; auto. Qed.

Lemma cohref_ref th k e : cohref th k e -> (0 < th_ref e th)%nat.
Proof.
  unfold th_ref. intros [H|[g (Hi & _ & He)]].
  - destruct (th_pc th); cbn [pc_coh] in H; try discriminate; inversion H; subst; cbn [pc_ref on];
      rewrite Nat.eqb_refl; lia.
  - assert (0 < gcount (gref e) (th_pg th))%nat; [|lia]. eapply In_gcount_pos; eauto.
    unfold gref. rewrite He. apply Nat.eqb_refl.
Qed.

(* what a step does to the page map *)
Inductive map_effect (fx : bool) (s : shared) (th : thread) (s' : shared) (th' : thread) : Prop :=
| MSame : s_map s' = s_map s -> s_bad s' = s_bad s ->
          (forall k e, th_pc th = PClean k e ->
                       e_ref (eget (s_ents s) e) <> 0 \/ (fx = true /\ mget k (s_map s) <> Some e)) ->
          map_effect fx s th s' th'
| MNew w k : mget k (s_map s) = None -> s_map s' = (k, length (s_ents s)) :: s_map s -> s_bad s' = s_bad s ->
          s_ents s' = s_ents s ++ [mkE 1 0 false] ->
          th_pc th' = PGot w k (length (s_ents s)) -> th_pg th' = th_pg th -> pc_key (th_pc th) = None ->
          map_effect fx s th s' th'
| MRem k e : th_pc th = PClean k e -> e_ref (eget (s_ents s) e) = 0 -> s_map s' = mrem k (s_map s) ->
          (fx = true -> mget k (s_map s) = Some e) ->
          (s_bad s' = false -> s_bad s = false /\ forall e1, mget k (s_map s) = Some e1 -> e_ref (eget (s_ents s) e1) = 0) ->
          map_effect fx s th s' th'.

Lemma step_map_effect fx s th s' th' : tstep fx s th = Some (s', th') -> map_effect fx s th s' th'.
Proof.
  intros Hstep. unfold tstep in Hstep.
  destruct th as [prog p pg tg]. cbn [th_pc] in *.
  assert (Hstart : forall o r, (p = PIdle \/ exists n, p = PPark n) ->
            start_op s (mkTh prog p pg tg) o r = Some (s', th') -> map_effect fx s (mkTh prog p pg tg) s' th').
  { intros o r Hp Hs. unfold start_op in Hs. cbn [th_pg th_tg] in Hs.
    assert (Hk : pc_key p = None) by (destruct Hp as [->|[n ->]]; auto).
    assert (Hnc : forall k e, p <> PClean k e) by (destruct Hp as [->|[n ->]]; congruence).
    destruct o as [w k|j|x tb|j].
    - destruct (mget k (s_map s)) as [e|] eqn:Hm; inversion Hs; subst.
      + apply MSame; auto. intros k0 e1 H; exfalso; eapply Hnc; eauto.
      + eapply MNew; cbn [th_pc th_pg s_map s_ents s_bad]; eauto.
    - destruct (nth_error pg j); inversion Hs; subst; apply MSame; auto; intros k0 e1 H; exfalso; eapply Hnc; eauto.
    - destruct (t_excl _); inversion Hs; subst; apply MSame; auto; intros k0 e1 H; exfalso; eapply Hnc; eauto.
    - destruct (nth_error tg j) as [[tb x]|]; inversion Hs; subst; apply MSame; auto; intros k0 e1 H; exfalso; eapply Hnc; eauto. }
  destruct p as [|site|w k e|w k e|w k e c|k e c|w k e c|k e|k e].
  - destruct (next_op _) as [[o r]|]; [|discriminate]. eapply Hstart; eauto.
  - destruct (next_op _) as [[o r]|]; [eapply Hstart; eauto|].
    inversion Hstep; subst. apply MSame; auto. cbn [th_pc]. congruence.
  - destruct (try_ok _ _); inversion Hstep; subst; apply MSame; auto; cbn [th_pc]; congruence.
  - inversion Hstep; subst; apply MSame; auto; cbn [th_pc]; congruence.
  - destruct (e_w _); [discriminate|]. destruct w; inversion Hstep; subst; apply MSame; auto; cbn [th_pc]; congruence.
  - destruct (_ =? 0); [|discriminate]. inversion Hstep; subst; apply MSame; auto; cbn [th_pc]; congruence.
  - inversion Hstep; subst; apply MSame; auto; cbn [th_pc]; congruence.
  - inversion Hstep; subst; apply MSame; auto; cbn [th_pc]; congruence.
  - inversion Hstep; subst. clear Hstep Hstart. unfold cleanup. cbn [th_pc].
    destruct (e_ref (eget (s_ents s) e) =? 0) eqn:E0.
    + apply Z.eqb_eq in E0. destruct fx.
      * destruct (mget k (s_map s)) as [e1|] eqn:Hm.
        -- destruct (Nat.eqb_spec e1 e).
           ++ subst e1. eapply MRem; eauto; cbn [s_map s_bad]; auto.
              intros Hb; split; auto. intros e1 H1. rewrite Hm in H1. inversion H1; subst; auto.
           ++ apply MSame; auto. intros k0 e2 H. inversion H; subst. right; split; auto. congruence.
        -- apply MSame; auto. intros k0 e2 H. inversion H; subst. right; split; auto. congruence.
      * apply (MRem false _ _ _ _ k e); cbn [s_map s_bad th_pc]; auto; [discriminate|].
        intros Hb. apply orb_false_iff in Hb. destruct Hb as [Hb1 Hb2]. split; auto.
        intros e1 H1. rewrite H1 in Hb2. apply negb_false_iff, Z.eqb_eq in Hb2. exact Hb2.
    + apply Z.eqb_neq in E0. apply MSame; auto. intros k0 e2 H. inversion H; subst. left; auto.
Qed.

(* the (page, entry) pairs of a thread after a step: the old ones, or the result of get_or_create *)
Lemma step_mentions fx s th s' th' : tstep fx s th = Some (s', th') ->
  forall k e, mentions th' k e ->
    mentions th k e \/ (exists w, th_pc th' = PGot w k e /\ pc_key (th_pc th) = None /\ mget k (s_map s') = Some e).
Proof.
  intros Hstep k0 e0. unfold tstep in Hstep.
  destruct th as [prog p pg tg]. cbn [th_pc] in *.
  assert (Hstart : forall o r, (p = PIdle \/ exists n, p = PPark n) ->
            start_op s (mkTh prog p pg tg) o r = Some (s', th') -> mentions th' k0 e0 ->
            mentions (mkTh prog p pg tg) k0 e0 \/
            (exists w, th_pc th' = PGot w k0 e0 /\ pc_key p = None /\ mget k0 (s_map s') = Some e0)).
  { intros o r Hp Hs. unfold start_op in Hs. cbn [th_pg th_tg] in Hs.
    assert (Hk : pc_key p = None) by (destruct Hp as [->|[n ->]]; auto).
    destruct o as [w k|j|x tb|j].
    - destruct (mget k (s_map s)) as [e|] eqn:Hm; inversion Hs; subst; clear Hs;
        (intros [H|H]; [|left; right; exact H]); cbn [th_pc pc_key] in H; inversion H; subst;
        right; exists w; cbn [th_pc s_map with_sh_ents mget]; rewrite ?Z.eqb_refl; auto.
    - destruct (nth_error pg j) as [g|] eqn:Hg; inversion Hs; subst; clear Hs.
      + intros [H|[g' (Hi & Hk' & He')]]; left; right.
        * cbn [th_pc pc_key] in H. inversion H; subst. exists g. split; [eapply nth_error_In; eauto | auto].
        * exists g'. cbn [th_pg] in *. split; [eapply In_remove_nth; eauto | auto].
      + intros [H|H]; [cbn in H; discriminate | left; right; exact H].
    - destruct (t_excl _); inversion Hs; subst; clear Hs; auto.
      intros [H|H]; [cbn in H; discriminate | left; right; exact H].
    - destruct (nth_error tg j) as [[tb x]|]; inversion Hs; subst; clear Hs;
        (intros [H|H]; [cbn in H; discriminate | left; right; exact H]). }
  destruct p as [|site|w k e|w k e|w k e c|k e c|w k e c|k e|k e].
  - destruct (next_op _) as [[o r]|]; [|discriminate]. eapply Hstart; eauto.
  - destruct (next_op _) as [[o r]|]; [eapply Hstart; eauto|].
    inversion Hstep; subst. intros [H|H]; [cbn in H; discriminate | left; right; exact H].
  - destruct (try_ok _ _); inversion Hstep; subst; (intros [H|H]; left; [left; exact H | right; exact H]).
  - inversion Hstep; subst; (intros [H|H]; left; [left; exact H | right; exact H]).
  - destruct (e_w _); [discriminate|]. destruct w; inversion Hstep; subst; (intros [H|H]; left; [left; exact H | right; exact H]).
  - destruct (_ =? 0); [|discriminate]. inversion Hstep; subst; (intros [H|H]; left; [left; exact H | right; exact H]).
  - inversion Hstep; subst. intros [H|[g (Hi & Hk & He)]]; [cbn in H; discriminate|]. left.
    cbn [th_pg] in Hi. apply in_app_or in Hi. destruct Hi as [Hi|[<-|[]]].
    + right. exists g. auto.
    + left. cbn in *. subst. reflexivity.
  - inversion Hstep; subst. intros [H|H]; [|left; right; exact H]. left; left.
    cbn [set_pc th_pc] in *. destruct (_ =? 1); cbn in H; [exact H | discriminate].
  - inversion Hstep; subst. intros [H|H]; [cbn in H; discriminate | left; right; exact H].
Qed.

Lemma step_cohref fx s th s' th' : tstep fx s th = Some (s', th') ->
  forall k e, cohref th' k e ->
    cohref th k e \/ (exists w, th_pc th' = PGot w k e /\ pc_key (th_pc th) = None /\ mget k (s_map s') = Some e).
Proof.
  intros Hstep k e Hc.
  destruct (step_mentions _ _ _ _ _ Hstep k e (cohref_mentions _ _ _ Hc)) as [Hm|Hn]; [|right; exact Hn].
  (* an old mention that is a locking reference now was one before *)
  left. destruct Hc as [Hc|Hc].
  2:{ (* a guard of th': either an old guard or pushed from PLocked *)
      unfold tstep in Hstep. destruct Hc as [g (Hi & Hk & He)].
      destruct th as [prog p pg tg]. cbn [th_pc] in *.
      assert (Hstart : forall o r, start_op s (mkTh prog p pg tg) o r = Some (s', th') -> has_guard (mkTh prog p pg tg) k e).
      { intros o r Hs. unfold start_op in Hs. cbn [th_pg th_tg] in Hs.
        destruct o as [w k1|j|x tb|j].
        - destruct (mget k1 (s_map s)); inversion Hs; subst; exists g; auto.
        - destruct (nth_error pg j); inversion Hs; subst; exists g; cbn [th_pg] in *; split; auto.
          eapply In_remove_nth; eauto.
        - destruct (t_excl _); inversion Hs; subst; exists g; auto.
        - destruct (nth_error tg j) as [[tb x]|]; inversion Hs; subst; exists g; auto. }
      destruct p as [|site|w k1 e1|w k1 e1|w k1 e1 c|k1 e1 c|w k1 e1 c|k1 e1|k1 e1].
      - destruct (next_op _) as [[o r]|]; [|discriminate]. right. eapply Hstart; eauto.
      - destruct (next_op _) as [[o r]|]; [right; eapply Hstart; eauto|]. inversion Hstep; subst. right; exists g; auto.
      - destruct (try_ok _ _); inversion Hstep; subst; right; exists g; auto.
      - inversion Hstep; subst; right; exists g; auto.
      - destruct (e_w _); [discriminate|]. destruct w; inversion Hstep; subst; right; exists g; auto.
      - destruct (_ =? 0); [|discriminate]. inversion Hstep; subst; right; exists g; auto.
      - inversion Hstep; subst. cbn [th_pg] in Hi. apply in_app_or in Hi. destruct Hi as [Hi|[<-|[]]].
        + right; exists g; auto.
        + left. cbn in *. subst. reflexivity.
      - inversion Hstep; subst; right; exists g; auto.
      - inversion Hstep; subst; right; exists g; auto. }
  (* pc reference of th' *)
  unfold tstep in Hstep. destruct th as [prog p pg tg]. cbn [th_pc] in *.
  destruct p as [|site|w k1 e1|w k1 e1|w k1 e1 c|k1 e1 c|w k1 e1 c|k1 e1|k1 e1].
  - destruct (next_op _) as [[o r]|]; [|discriminate]. unfold start_op in Hstep. cbn [th_pg th_tg] in Hstep.
    destruct o as [w k1|j|x tb|j].
    + destruct Hm as [Hm|Hm]; [cbn in Hm; discriminate | right; exact Hm].
    + destruct (nth_error pg j); inversion Hstep; subst; cbn in Hc; discriminate.
    + destruct (t_excl _); inversion Hstep; subst; cbn in Hc; discriminate.
    + destruct (nth_error tg j) as [[tb x]|]; inversion Hstep; subst; cbn in Hc; discriminate.
  - destruct (next_op _) as [[o r]|]; [|inversion Hstep; subst; cbn in Hc; discriminate].
    unfold start_op in Hstep. cbn [th_pg th_tg] in Hstep.
    destruct o as [w k1|j|x tb|j].
    + destruct Hm as [Hm|Hm]; [cbn in Hm; discriminate | right; exact Hm].
    + destruct (nth_error pg j); inversion Hstep; subst; cbn in Hc; discriminate.
    + destruct (t_excl _); inversion Hstep; subst; cbn in Hc; discriminate.
    + destruct (nth_error tg j) as [[tb x]|]; inversion Hstep; subst; cbn in Hc; discriminate.
  - destruct (try_ok _ _); inversion Hstep; subst; left; exact Hc.
  - inversion Hstep; subst; left; exact Hc.
  - destruct (e_w _); [discriminate|]. destruct w; inversion Hstep; subst; left; exact Hc.
  - destruct (_ =? 0); [|discriminate]. inversion Hstep; subst; left; exact Hc.
  - inversion Hstep; subst; cbn in Hc; discriminate.
  - inversion Hstep; subst. cbn [set_pc th_pc] in Hc. destruct (_ =? 1); cbn in Hc; discriminate.
  - inversion Hstep; subst; cbn in Hc; discriminate.
Qed.

Lemma start_op_not_clean s th s' th' o r k e :
  (th_pc th = PIdle \/ exists n, th_pc th = PPark n) ->
  start_op s th o r = Some (s', th') -> th_pc th' <> PClean k e.
Proof.
  intros Hp Hs. unfold start_op in Hs.
  destruct o as [w k1|j|x tb|j].
  - destruct (mget k1 (s_map s)); inversion Hs; subst; cbn; discriminate.
  - destruct (nth_error (th_pg th) j); inversion Hs; subst; cbn; discriminate.
  - destruct (t_excl _); inversion Hs; subst; cbn; try discriminate.
    destruct Hp as [->|[n ->]]; discriminate.
  - destruct (nth_error (th_tg th) j) as [[tb x]|]; inversion Hs; subst; cbn; discriminate.
Qed.

Lemma step_clean fx s th s' th' : tstep fx s th = Some (s', th') ->
  forall k e, th_pc th' = PClean k e -> th_pc th = PUnl k e /\ e_ref (eget (s_ents s) e) = 1.
Proof.
  intros Hstep k0 e0 Hc. unfold tstep in Hstep.
  destruct (th_pc th) as [|site|w k e|w k e|w k e c|k e c|w k e c|k e|k e] eqn:Hpc.
  - destruct (next_op _) as [[o r]|]; [|discriminate]. exfalso. eapply start_op_not_clean; eauto.
  - destruct (next_op _) as [[o r]|]; [exfalso; eapply start_op_not_clean; eauto|].
    inversion Hstep; subst; cbn in Hc; discriminate.
  - destruct (try_ok _ _); inversion Hstep; subst; cbn in Hc; discriminate.
  - inversion Hstep; subst; cbn in Hc; discriminate.
  - destruct (e_w _); [discriminate|]. destruct w; inversion Hstep; subst; cbn in Hc; discriminate.
  - destruct (_ =? 0); [|discriminate]. inversion Hstep; subst; cbn in Hc; discriminate.
  - inversion Hstep; subst; cbn in Hc; discriminate.
  - inversion Hstep; subst. cbn [set_pc th_pc] in Hc.
    destruct (e_ref (eget (s_ents s) e) =? 1) eqn:E; [|discriminate].
    inversion Hc; subst. apply Z.eqb_eq in E. auto.
  - inversion Hstep; subst; cbn in Hc; discriminate.
Qed.

(* ref_count only ever drops in entry.release() *)
Lemma step_ref_drop fx s th s' th' i : tstep fx s th = Some (s', th') ->
  e_ref (eget (s_ents s') i) < e_ref (eget (s_ents s) i) ->
  exists k, th_pc th = PUnl k i /\ (e_ref (eget (s_ents s) i) = 1 -> th_pc th' = PClean k i) /\
            e_ref (eget (s_ents s') i) >= e_ref (eget (s_ents s) i) - 1.
Proof.
  intros Hstep Hlt. unfold tstep in Hstep.
  assert (Hupd : forall j f, (forall x, e_ref (f x) >= e_ref x) ->
            e_ref (eget (eupd (s_ents s) j f) i) < e_ref (eget (s_ents s) i) -> False).
  { intros j f Hf H. destruct (Nat.eq_dec i j) as [->|Hne].
    - destruct (Nat.lt_ge_cases j (length (s_ents s))) as [Hl|Hg].
      + rewrite (eget_eupd_same _ _ _ Hl) in H. specialize (Hf (eget (s_ents s) j)). lia.
      + rewrite (eget_eupd_out _ _ _ _ Hg) in H. lia.
    - rewrite (eget_eupd_other _ _ _ _ Hne) in H. lia. }
  assert (Hstart : forall o r, start_op s th o r = Some (s', th') -> False).
  { intros o r Hs. unfold start_op in Hs.
    destruct o as [w k1|j|x tb|j].
    - destruct (mget k1 (s_map s)); inversion Hs; subst; cbn [s_ents with_sh_ents] in Hlt.
      + eapply Hupd; [|exact Hlt]. intros x; cbn; lia.
      + destruct (lt_eq_lt_dec i (length (s_ents s))) as [[Hl | ->] | Hg].
        * rewrite (eget_app_old _ _ _ Hl) in Hlt. lia.
        * rewrite eget_app_new, eget_out in Hlt by lia. cbn in Hlt. lia.
        * rewrite (eget_app_out _ _ _ Hg), eget_out in Hlt by lia. lia.
    - destruct (nth_error (th_pg th) j) as [g|]; inversion Hs; subst; cbn [s_ents with_sh_ents] in Hlt; [|lia].
      eapply Hupd; [|exact Hlt]. intros x; destruct (g_w g); cbn; lia.
    - destruct (t_excl _); inversion Hs; subst; cbn [s_ents] in Hlt; lia.
    - destruct (nth_error (th_tg th) j) as [[tb x]|]; inversion Hs; subst; cbn [s_ents] in Hlt; lia. }
  destruct (th_pc th) as [|site|w k e|w k e|w k e c|k e c|w k e c|k e|k e] eqn:Hpc.
  - destruct (next_op _) as [[o r]|]; [|discriminate]. exfalso; eauto.
  - destruct (next_op _) as [[o r]|]; [exfalso; eauto|]. inversion Hstep; subst; lia.
  - destruct (try_ok _ _); inversion Hstep; subst; cbn [s_ents with_sh_ents] in Hlt; [|lia].
    exfalso. eapply Hupd; [|exact Hlt]. intros x; destruct w; cbn; lia.
  - inversion Hstep; subst; cbn [s_ents with_sh_ents] in Hlt.
    exfalso. eapply Hupd; [|exact Hlt]. intros x; destruct w; cbn; lia.
  - destruct (e_w _); [discriminate|]. destruct w; inversion Hstep; subst; cbn [s_ents with_sh_ents] in Hlt;
      exfalso; (eapply Hupd; [|exact Hlt]); intros x; cbn; lia.
  - destruct (_ =? 0); [|discriminate]. inversion Hstep; subst; lia.
  - inversion Hstep; subst; cbn [s_ents] in Hlt; lia.
  - inversion Hstep; subst; cbn [s_ents with_sh_ents set_pc th_pc] in *.
    destruct (Nat.eq_dec i e) as [->|Hne].
    + exists k. split; auto. split; [intros ->; reflexivity|].
      destruct (Nat.lt_ge_cases e (length (s_ents s))) as [Hl|Hg].
      * rewrite (eget_eupd_same _ _ _ Hl). cbn [sub_ref e_ref]. destruct (_ =? 0) eqn:E; [apply Z.eqb_eq in E|]; lia.
      * rewrite (eget_eupd_out _ _ _ _ Hg). lia.
    + rewrite (eget_eupd_other _ _ _ _ Hne) in Hlt. lia.
  - inversion Hstep; subst. exfalso. revert Hlt. unfold cleanup.
    destruct (_ =? 0); [|lia]. destruct fx; cbn [s_ents]; [|lia].
    destruct (mget k (s_map s)); [|lia]. destruct (Nat.eqb n e); cbn [s_ents]; lia.
Qed.

Lemma step_len fx s th s' th' : tstep fx s th = Some (s', th') -> (length (s_ents s) <= length (s_ents s'))%nat.
Proof.
  intros Hstep. unfold tstep in Hstep.
  assert (Hstart : forall o r, start_op s th o r = Some (s', th') -> (length (s_ents s) <= length (s_ents s'))%nat).
  { intros o r Hs. unfold start_op in Hs.
    destruct o as [w k1|j|x tb|j].
    - destruct (mget k1 (s_map s)); inversion Hs; subst; cbn [s_ents with_sh_ents];
        rewrite ?eupd_length, ?app_length; cbn [length]; lia.
    - destruct (nth_error (th_pg th) j) as [g|]; inversion Hs; subst; cbn [s_ents with_sh_ents]; rewrite ?eupd_length; lia.
    - destruct (t_excl _); inversion Hs; subst; cbn [s_ents]; lia.
    - destruct (nth_error (th_tg th) j) as [[tb x]|]; inversion Hs; subst; cbn [s_ents]; lia. }
  destruct (th_pc th) as [|site|w k e|w k e|w k e c|k e c|w k e c|k e|k e] eqn:Hpc.
  - destruct (next_op _) as [[o r]|]; [|discriminate]. eauto.
  - destruct (next_op _) as [[o r]|]; [eauto|]. inversion Hstep; subst; lia.
  - destruct (try_ok _ _); inversion Hstep; subst; cbn [s_ents with_sh_ents]; rewrite ?eupd_length; lia.
  - inversion Hstep; subst; cbn [s_ents with_sh_ents]; rewrite ?eupd_length; lia.
  - destruct (e_w _); [discriminate|]. destruct w; inversion Hstep; subst; cbn [s_ents with_sh_ents]; rewrite ?eupd_length; lia.
  - destruct (_ =? 0); [|discriminate]. inversion Hstep; subst; lia.
  - inversion Hstep; subst; cbn [s_ents]; lia.
  - inversion Hstep; subst; cbn [s_ents with_sh_ents]; rewrite ?eupd_length; lia.
  - inversion Hstep; subst. unfold cleanup.
    destruct (_ =? 0); [|lia]. destruct fx; cbn [s_ents]; [|lia].
    destruct (mget k (s_map s)); [|lia]. destruct (Nat.eqb n e); cbn [s_ents]; lia.
Qed.
