(* C36 proofs, part 2: effect of one atomic step of one thread on its ownership counts and on
   the entry table ("delta" lemma), by case analysis over the step function. *)
From Coq Require Import ZArith List Bool Arith Lia.
From TV Require Import Lib.Interleave Model.PageLocks Proof.PageLocksBase.
Import ListNotations.
Open Scope Z_scope.

Definition C4 (es es' : list entry) (th th' : thread) (i : nat) : Prop :=
  e_rd (eget es' i) = 0 \/
  ((th_wh i th' <= th_wh i th)%nat /\
   (e_rd (eget es' i) = e_rd (eget es i) \/ e_w (eget es i) = false \/ (0 < th_r i th)%nat)).

Definition Delta (es es' : list entry) (th th' : thread) (i : nat) : Prop :=
  (th_w i th' + b2n (e_w (eget es i)) = th_w i th + b2n (e_w (eget es' i)))%nat /\
  Z.of_nat (th_r i th') + e_rd (eget es i) = Z.of_nat (th_r i th) + e_rd (eget es' i) /\
  Z.of_nat (th_ref i th') + e_ref (eget es i) = Z.of_nat (th_ref i th) + e_ref (eget es' i) /\
  C4 es es' th th' i.

Definition Local (s : shared) (th : thread) : Prop :=
  (forall i, (th_w i th <= b2n (e_w (eget (s_ents s) i)))%nat) /\
  (forall i, Z.of_nat (th_r i th) <= e_rd (eget (s_ents s) i)) /\
  (forall i, Z.of_nat (th_ref i th) <= e_ref (eget (s_ents s) i)) /\
  (forall k e, mget k (s_map s) = Some e -> (e < length (s_ents s))%nat).

Lemma ref_in_range s th j : Local s th -> (0 < th_ref j th)%nat -> (j < length (s_ents s))%nat.
Proof.
  intros (_ & _ & Lref & _) H. destruct (Nat.lt_ge_cases j (length (s_ents s))) as [|Hge]; auto.
  specialize (Lref j). rewrite (eget_out _ _ Hge) in Lref. cbn [e_ref e0] in Lref. lia.
Qed.

Lemma delta_refl es th i : Delta es es th th i.
Proof. unfold Delta, C4. repeat split; try lia. Qed.

Ltac eqb_cases :=
  repeat match goal with
  | |- context [Nat.eqb ?a ?b] => destruct (Nat.eqb_spec a b); subst
  | H : context [Nat.eqb ?a ?b] |- _ => destruct (Nat.eqb_spec a b); subst
  end.

Ltac unf :=
  unfold Delta, C4, th_w, th_wh, th_r, th_ref, set_pc, with_sh_ents in *;
  cbn [th_pc th_pg th_prog th_tg pc_w pc_wh pc_r pc_ref on s_ents s_map] in *.

Ltac entry_cases i e Hlt :=
  destruct (Nat.eq_dec i e) as [->|Hne];
  [ rewrite ?(eget_eupd_same _ _ _ Hlt), ?Nat.eqb_refl in *
  | rewrite ?(eget_eupd_other _ _ _ _ Hne) in *;
    repeat match goal with
    | |- context [Nat.eqb e i] => destruct (Nat.eqb_spec e i); [congruence|]
    | H : context [Nat.eqb e i] |- _ => destruct (Nat.eqb_spec e i); [congruence|]
    end ].

Ltac boolprops :=
  repeat match goal with
  | H : _ && _ = true |- _ => apply andb_prop in H; destruct H
  | H : (_ =? _) = true |- _ => apply Z.eqb_eq in H
  | H : (_ =? _) = false |- _ => apply Z.eqb_neq in H
  | H : negb _ = true |- _ => apply negb_true_iff in H
  | H : negb _ = false |- _ => apply negb_false_iff in H
  end.
Ltac fin :=
  cbn [on b2n] in *; rewrite ?Nat.eqb_refl in *; boolprops;
  repeat match goal with
  | |- context [Nat.eqb ?a ?b] => destruct (Nat.eqb_spec a b)
  | H : context [Nat.eqb ?a ?b] |- _ => destruct (Nat.eqb_spec a b)
  end; subst;
  repeat match goal with
  | |- context [e_w ?x] => let b := fresh "b" in set (b := e_w x) in *; clearbody b; destruct b
  | H : context [e_w ?x] |- _ => let b := fresh "b" in set (b := e_w x) in *; clearbody b; destruct b
  end;
  cbn [b2n] in *; try discriminate; try lia.

Lemma delta_pc fx s s' th th' i :
  th_pc th <> PIdle -> (forall n, th_pc th <> PPark n) ->
  tstep fx s th = Some (s', th') -> Local s th -> Delta (s_ents s) (s_ents s') th th' i.
Proof.
  intros Hn1 Hn2 Hstep HL.
  assert (Hrng := fun j => ref_in_range s th j HL).
  destruct HL as (Lw & Lr & Lref & Mwf).
  destruct th as [prog p pg tg].
  unfold tstep in Hstep. cbn [th_pc] in *.
  specialize (Lw i); specialize (Lr i); specialize (Lref i).
  destruct p as [|site|w k e|w k e|w k e c|k e c|w k e c|k e|k e]; [congruence | exfalso; eapply Hn2; eauto | ..].
  - (* PGot *)
    assert (Hlt : (e < length (s_ents s))%nat) by (apply Hrng; unf; rewrite Nat.eqb_refl; lia).
    clear Hrng.
    destruct (try_ok w (eget (s_ents s) e)) eqn:Htry; inversion Hstep; subst; clear Hstep; unf.
    + entry_cases i e Hlt; destruct w; cbn [try_ok lock_now set_w add_rd e_w e_rd e_ref] in *; fin.
    + destruct w; fin.
  - (* PProbe *)
    assert (Hlt : (e < length (s_ents s))%nat) by (apply Hrng; unf; rewrite Nat.eqb_refl; lia).
    clear Hrng. inversion Hstep; subst; clear Hstep; unf.
    entry_cases i e Hlt; destruct w; cbn [unlock set_w add_rd e_w e_rd e_ref pc_w pc_wh pc_r on] in *; fin.
  - (* PLock *)
    assert (Hlt : (e < length (s_ents s))%nat) by (apply Hrng; unf; rewrite Nat.eqb_refl; lia).
    clear Hrng. destruct (e_w (eget (s_ents s) e)) eqn:Hw; [discriminate|].
    destruct w; inversion Hstep; subst; clear Hstep; unf;
    entry_cases i e Hlt; cbn [set_w add_rd e_w e_rd e_ref] in *; fin.
  - (* PWaitR *)
    destruct (e_rd (eget (s_ents s) e) =? 0) eqn:Hrd; [|discriminate].
    inversion Hstep; subst; clear Hstep; unf.
    fin.
  - (* PLocked *)
    inversion Hstep; subst; clear Hstep; unf.
    rewrite !gcount_app. unfold gw, gr, gref. cbn [g_w g_e].
    destruct w; cbn [andb negb pc_w pc_wh pc_r on] in *; destruct (Nat.eqb e i); fin.
  - (* PUnl *)
    assert (Hlt : (e < length (s_ents s))%nat) by (apply Hrng; unf; rewrite Nat.eqb_refl; lia).
    clear Hrng. inversion Hstep; subst; clear Hstep; unf.
    assert (Hpc : forall b : bool, pc_ref (if b then PClean k e else PIdle) = None /\ pc_w (if b then PClean k e else PIdle) = None
              /\ pc_wh (if b then PClean k e else PIdle) = None /\ pc_r (if b then PClean k e else PIdle) = None)
      by (intros []; auto).
    destruct (Hpc (e_ref (eget (s_ents s) e) =? 1)) as (-> & -> & -> & ->). cbn [on].
    entry_cases i e Hlt; cbn [sub_ref e_w e_rd e_ref] in *; [|fin].
    destruct (e_ref (eget (s_ents s) e) =? 0) eqn:E0; fin.
  - (* PClean *)
    inversion Hstep; subst; clear Hstep.
    assert (He : s_ents (cleanup fx s k e) = s_ents s).
    { unfold cleanup. destruct (e_ref (eget (s_ents s) e) =? 0); auto.
      destruct fx; auto. destruct (mget k (s_map s)); auto. destruct (Nat.eqb n e); auto. }
    rewrite He. unf. fin.
Qed.

Lemma delta_start s s' th th' o r i :
  (th_pc th = PIdle \/ exists n, th_pc th = PPark n) ->
  start_op s th o r = Some (s', th') -> Local s th -> Delta (s_ents s) (s_ents s') th th' i.
Proof.
  intros Hpc Hstep HL.
  assert (Hrng := fun j => ref_in_range s th j HL).
  destruct HL as (Lw & Lr & Lref & Mwf).
  destruct th as [prog p pg tg]. cbn [th_pc] in Hpc.
  assert (Hp : pc_w p = None /\ pc_wh p = None /\ pc_r p = None /\ pc_ref p = None)
    by (destruct Hpc as [->|[n ->]]; auto).
  destruct Hp as (Hp1 & Hp2 & Hp3 & Hp4). clear Hpc.
  specialize (Lw i); specialize (Lr i); specialize (Lref i).
  unfold start_op in Hstep. cbn [th_pg th_tg] in Hstep.
  destruct o as [w k|j|x tb|j].
  - (* get_or_create *)
    destruct (mget k (s_map s)) as [e|] eqn:Hm; inversion Hstep; subst; clear Hstep; unf;
      rewrite ?Hp1, ?Hp2, ?Hp3, ?Hp4 in *.
    + assert (Hlt := Mwf _ _ Hm). entry_cases i e Hlt; cbn [add_ref e_w e_rd e_ref] in *; fin.
    + destruct (lt_eq_lt_dec i (length (s_ents s))) as [[Hlt | ->] | Hgt].
      * rewrite (eget_app_old _ _ _ Hlt). fin.
      * rewrite eget_app_new. rewrite (eget_out (s_ents s) (length (s_ents s))) in * by lia.
        cbn [e_w e_rd e_ref e0] in *. fin.
      * rewrite (eget_app_out _ _ _ Hgt). rewrite (eget_out (s_ents s) i) in * by lia.
        cbn [e_w e_rd e_ref e0] in *. fin.
  - (* drop of a page guard *)
    destruct (nth_error pg j) as [g|] eqn:Hg; inversion Hstep; subst; clear Hstep.
    + assert (Hin : In g pg) by (eapply nth_error_In; eauto).
      assert (Hlt : (g_e g < length (s_ents s))%nat).
      { apply Hrng. unf. assert (0 < gcount (gref (g_e g)) pg)%nat; [|lia].
        eapply In_gcount_pos; eauto. unfold gref. apply Nat.eqb_refl. }
      unf. rewrite ?Hp1, ?Hp2, ?Hp3, ?Hp4 in *.
      rewrite (gcount_remove_nth (gw i) _ _ _ Hg), (gcount_remove_nth (gr i) _ _ _ Hg),
        (gcount_remove_nth (gref i) _ _ _ Hg) in *.
      destruct g as [gk ge gwr]. unfold gw, gr, gref in *. cbn [g_k g_e g_w] in *.
      entry_cases i ge Hlt; destruct gwr; cbn [unlock set_w add_rd e_w e_rd e_ref andb negb] in *; fin.
    + unf. rewrite ?Hp1, ?Hp2, ?Hp3, ?Hp4 in *. fin.
  - (* table intent lock *)
    destruct (t_excl match tget tb (s_tbl s) with Some v => v | None => mkT 0 0 false end);
      inversion Hstep; subst; clear Hstep; unf; rewrite ?Hp1, ?Hp2, ?Hp3, ?Hp4 in *; fin.
  - destruct (nth_error tg j) as [[tb x]|]; inversion Hstep; subst; clear Hstep; unf;
      rewrite ?Hp1, ?Hp2, ?Hp3, ?Hp4 in *; fin.
Qed.

Lemma delta fx s s' th th' i :
  tstep fx s th = Some (s', th') -> Local s th -> Delta (s_ents s) (s_ents s') th th' i.
Proof.
  intros Hstep HL.
  destruct (th_pc th) eqn:Hpc.
  1,2: unfold tstep in Hstep; rewrite Hpc in Hstep; destruct (next_op th) as [[o r]|];
       [ eapply delta_start; eauto | try discriminate ].
  1: { inversion Hstep; subst. unf. rewrite Hpc. cbn [pc_w pc_wh pc_r pc_ref]. fin. }
  all: apply (delta_pc fx s s' th th' i); auto; rewrite Hpc; congruence.
Qed.
