(* C01 / C02 - invariants of the disk model and their preservation by single events.
     InvK : every page's last frame in the log files holds the page's live image, unless the page
            is still in the dirty tracker or in the BufWriter   (process-kill images)
     InvP : the power-loss image of every page that was not written behind the tracker's back
            equals the ghost view (pages as of the last completed sync)            (power-loss images)
   Each event preserves them under a side condition (scK / scP) that Proof/CrashRun.v
   discharges for the event lists of well-formed operations. *)
From Coq Require Import ZArith List Bool Lia.
From TV Require Import Model.Crash Proof.CrashBase.
Import ListNotations.
Open Scope Z_scope.

Definition wfl (s : st) : list frame := closed_fl s ++ cur_fl s.
Definition wdu (s : st) : list frame := closed_du s ++ cur_du s.
Definition dfl (s : st) : pmap := fun k => if mem (fst k) (dfiles s) then dur s k else None.
Definition recK (s : st) : pmap := r_pages (recover Kill s).
Definition recP (s : st) : pmap := r_pages (recover Power s).
Definition pendf (s : st) : list frame := skipn (length (cur_du s)) (cur_fl s).

Lemma recK_eq : forall s k, recK s k = redo (files s) (wfl s) (vol s) k.
Proof. reflexivity. Qed.
Lemma recP_eq : forall s k, recP s k = redo (dfiles s) (wdu s) (dfl s) k.
Proof. reflexivity. Qed.

Record InvK (s : st) : Prop := mkK {
  k1 : forall k o, lastk (wfl s) k = Some o -> In k (dirty s) \/ lastk (buf s) k <> None \/ vol s k = o;
  k2 : forall k o, lastk (buf s) k = Some o -> vol s k = o
}.

Record InvP (s : st) (g : ghost) : Prop := mkP {
  p_w1 : closed_fl s = closed_du s;
  p_w2 : cur_fl s = cur_du s ++ pendf s;
  p1 : forall k, ~ In k (g_unl g) -> recP s k = g_view g k;
  p2 : forall k, ~ In k (g_unl g) -> ~ In k (dirty s) -> lastk (pendf s) k = None -> lastk (buf s) k = None ->
                 g_view g k = vol s k;
  p5 : forall k, In k (dirty s) \/ In k (map fst (wfl s ++ buf s)) -> mem (fst k) (dfiles s) = true;
  p6 : forall f, mem f (dfiles s) = true -> mem f (files s) = true
}.

(* ------------------------------------------------------------------ side conditions *)
Definition scK (s : st) (e : ev) : Prop :=
  match e with
  | EStore f p _ => (In (f, p) (dirty s) \/ lastk (wfl s) (f, p) = None) /\ lastk (buf s) (f, p) = None
  | EApply _ => cur_fl s = [] /\ buf s = [] /\ dirty s = []
  | EReset => dirty s = []
  | _ => True
  end.

Definition scP (s : st) (g : ghost) (e : ev) : Prop :=
  match e with
  | EMark k => mem (fst k) (dfiles s) = true
  | EBuf k => mem (fst k) (dfiles s) = true
  | ESync => dirty s = [] /\ buf s = []
  | EMsync f => buf s = [] /\ pendf s = [] /\ (forall k, In k (dirty s) -> fst k <> f)
  | ERotate => buf s = [] /\ pendf s = []
  | ERemove => cur_fl s = [] /\ (forall k, ~ In k (g_unl g) -> lastk (closed_du s) k <> None -> dfl s k = g_view g k)
  | ETrunc => False
  | _ => True
  end.

Ltac sproj := cbn [vol dur files dfiles closed_fl closed_du cur_fl cur_du buf dirty ever_dirty in_txn seq tabs cat_v cat_d cat_t cat_td
                    set_vol set_files set_dur set_wal set_dirty set_txn set_cat g_view g_unl] in *.

(* ------------------------------------------------------------------ small facts *)
Lemma lastk_app_none : forall a b k, lastk (a ++ b) k = None <-> lastk a k = None /\ lastk b k = None.
Proof.
  intros. rewrite lastk_app. destruct (lastk b k); split; intros; try discriminate; intuition congruence.
Qed.

Lemma pendf_app : forall (d p : list frame), skipn (length d) (d ++ p) = p.
Proof. induction d; intros; cbn; auto. Qed.

Lemma in_map_fst_app : forall (a b : list frame) k, In k (map fst (a ++ b)) <-> In k (map fst a) \/ In k (map fst b).
Proof. intros. rewrite map_app, in_app_iff. reflexivity. Qed.

(* EApply is the identity on the live pages when the log is clean *)
Lemma apply_noop : forall s t, InvK s -> cur_fl s = [] -> buf s = [] -> dirty s = [] ->
  forall k, redo (files s) (only_table t (closed_fl s)) (vol s) k = vol s k.
Proof.
  intros s t HK Hc Hb Hd k. rewrite redo_spec, lastk_only_table.
  destruct (mem (fst k) (files s)); [| reflexivity].
  destruct (fst k =? t); [| reflexivity].
  destruct (lastk (closed_fl s) k) eqn:E; [| reflexivity].
  destruct (k1 s HK k o) as [H | [H | H]].
  - unfold wfl. rewrite Hc, app_nil_r. exact E.
  - rewrite Hd in H. destruct H.
  - rewrite Hb in H. cbn in H. congruence.
  - symmetry. exact H.
Qed.

(* ------------------------------------------------------------------ kill invariant *)
Lemma stepK : forall s e, InvK s -> scK s e -> InvK (apply_ev s e).
Proof.
  intros s e HK SC. destruct HK as [K1 K2].
  destruct e; cbn [apply_ev scK] in *; unfold wfl in *;
    try (constructor; [exact K1 | exact K2]).
  - (* EStore *)
    destruct SC as [SC1 SC2]. constructor; unfold wfl; sproj.
    + intros k o H. destruct (key_eqb k (f, p)) eqn:E.
      * apply key_eqb_eq in E. subst k. destruct SC1 as [S | S]; [left; exact S | congruence].
      * apply key_eqb_neq in E. destruct (K1 k o H) as [A | [A | A]]; [left; exact A | right; left; exact A |].
        right. right. rewrite pupd_other; assumption.
    + intros k o H. destruct (key_eqb k (f, p)) eqn:E.
      * apply key_eqb_eq in E. subst k. congruence.
      * apply key_eqb_neq in E. rewrite pupd_other; [apply K2; exact H | exact E].
  - (* EMsync *)
    destruct (mem f (files s)); constructor; assumption.
  - (* EMark *)
    constructor; unfold wfl; sproj.
    + intros k' o H. destruct (K1 k' o H) as [A | [A | A]]; [left; apply In_add_key; auto | auto | auto].
    + exact K2.
  - (* EBuf *)
    constructor; unfold wfl; sproj.
    + intros k' o H. rewrite lastk_snoc. destruct (key_eqb k k') eqn:E.
      * right. left. discriminate.
      * apply key_eqb_neq in E. destruct (K1 k' o H) as [A | [A | A]]; [| auto | auto].
        left. apply In_del_key. split; [exact A | congruence].
    + intros k' o. rewrite lastk_snoc. destruct (key_eqb k k') eqn:E.
      * apply key_eqb_eq in E. subst k'. intros H. inversion H. reflexivity.
      * apply K2.
  - (* EFlush *)
    constructor; unfold wfl; sproj.
    + intros k o. rewrite app_assoc, lastk_app.
      destruct (lastk (buf s) k) eqn:E.
      * intros H. inversion H. subst. right. right. apply K2. exact E.
      * intros H. destruct (K1 k o H) as [A | [A | A]]; [auto | congruence | auto].
    + cbn. discriminate.
  - (* ETrunc *)
    constructor; unfold wfl; sproj; cbn; discriminate.
  - (* ERotate *)
    constructor; unfold wfl; sproj.
    + intros k o. rewrite app_nil_r, app_assoc, lastk_app.
      destruct (lastk (buf s) k) eqn:E.
      * intros H. inversion H. subst. right. right. apply K2. exact E.
      * intros H. destruct (K1 k o H) as [A | [A | A]]; [auto | congruence | auto].
    + cbn. discriminate.
  - (* EApply *)
    destruct SC as [Hc [Hb Hd]].
    assert (N : forall k, redo (files s) (only_table t (closed_fl s)) (vol s) k = vol s k)
      by (apply apply_noop; [constructor; assumption | assumption | assumption | assumption]).
    constructor; unfold wfl; sproj.
    + intros k o H. rewrite N. apply K1. exact H.
    + intros k o H. rewrite N. apply K2. exact H.
  - (* ERemove *)
    constructor; unfold wfl; sproj.
    + intros k o H. apply K1. cbn [app] in H. rewrite lastk_app, H. reflexivity.
    + exact K2.
  - (* EReset *)
    constructor; unfold wfl; sproj.
    + intros k o H. destruct (K1 k o H) as [A | [A | A]]; [rewrite SC in A; destruct A | auto | auto].
    + exact K2.
Qed.

(* ------------------------------------------------------------------ power invariant *)
Lemma recP_unfold : forall s k,
  recP s k = if mem (fst k) (dfiles s)
             then match lastk (closed_du s ++ cur_du s) k with Some o => o | None => dur s k end
             else None.
Proof.
  intros. rewrite recP_eq, redo_spec. unfold dfl, wdu. destruct (mem (fst k) (dfiles s)); reflexivity.
Qed.

Lemma stepP : forall s g e, InvK s -> InvP s g -> scK s e -> scP s g e ->
  InvP (apply_ev s e) (ghost_ev s g e).
Proof.
  intros s g e HK HP SK SP. pose proof HK as HK0. destruct HK as [K1 K2].
  destruct HP as [W1 W2 P1 P2 P5 P6].
  assert (RU := recP_unfold).
  destruct e; cbn [apply_ev ghost_ev scK scP] in *; unfold wfl, pendf in *;
    try (constructor; assumption).
  - (* EStore *)
    destruct SK as [SC1 SC2].
    assert (SUB : forall k, ~ In k (g_unl (if kmem (f, p) (dirty s) then g else mkg (g_view g) (add_key (f, p) (g_unl g)))) -> ~ In k (g_unl g)).
    { intros k H. destruct (kmem (f, p) (dirty s)); [exact H |]. cbn in H. intros A. apply H, In_add_key. auto. }
    assert (VW : g_view (if kmem (f, p) (dirty s) then g else mkg (g_view g) (add_key (f, p) (g_unl g))) = g_view g)
      by (destruct (kmem (f, p) (dirty s)); reflexivity).
    constructor; unfold wfl, pendf; try assumption.
    + intros k H. rewrite VW. rewrite <- (P1 k (SUB k H)), !RU. reflexivity.
    + intros k H Hd Hp Hb. rewrite VW. sproj.
      destruct (key_eqb k (f, p)) eqn:E.
      * apply key_eqb_eq in E. subst k. exfalso.
        destruct (kmem (f, p) (dirty s)) eqn:M.
        -- apply kmem_In in M. contradiction.
        -- cbn in H. apply H, In_add_key. auto.
      * apply key_eqb_neq in E. rewrite pupd_other by exact E. apply P2; [apply SUB; exact H | exact Hd | exact Hp | exact Hb].
  - (* ECreate *)
    constructor; unfold wfl, pendf; try assumption.
    sproj. intros f0 H. rewrite mem_add_z. rewrite (P6 f0 H). apply orb_true_r.
  - (* EMsync *)
    destruct (mem f (files s)) eqn:MF; [| constructor; assumption].
    destruct SP as [Hb [Hp Hd]].
    assert (CF : cur_fl s = cur_du s) by (rewrite W2, Hp, app_nil_r; reflexivity).
    constructor; unfold wfl, pendf; sproj; try assumption.
    + intros k H. rewrite RU. sproj. rewrite mem_add_z.
      destruct (fst k =? f) eqn:E.
      * cbn [orb]. rewrite <- W1, <- CF. destruct (lastk (closed_fl s ++ cur_fl s) k) eqn:L; [| reflexivity].
        destruct (K1 k o L) as [A | [A | A]].
        -- exfalso. apply Z.eqb_eq in E. exact (Hd k A E).
        -- rewrite Hb in A. cbn in A. congruence.
        -- symmetry. exact A.
      * cbn [orb]. rewrite <- (P1 k).
        -- rewrite RU. reflexivity.
        -- intros A. apply H. apply filter_In. split; [exact A | rewrite E; reflexivity].
    + intros k H Hdk Hpk Hbk. destruct (fst k =? f) eqn:E; [reflexivity |].
      apply P2; [| exact Hdk | exact Hpk | exact Hbk].
      intros A. apply H. apply filter_In. split; [exact A | rewrite E; reflexivity].
    + intros k H. rewrite mem_add_z. rewrite (P5 k H). apply orb_true_r.
    + intros f0. rewrite mem_add_z. intros H. apply orb_true_iff in H. destruct H as [H | H]; [apply Z.eqb_eq in H; subst; exact MF | apply P6; exact H].
  - (* EMark *)
    constructor; unfold wfl, pendf; sproj; try assumption.
    + intros k' H Hd. apply P2; [exact H |]. intros A. apply Hd, In_add_key. auto.
    + intros k' [H | H]; [| apply P5; auto]. apply In_add_key in H. destruct H as [-> | H]; [exact SP | apply P5; auto].
  - (* EBuf *)
    constructor; unfold wfl, pendf; sproj; try assumption.
    + intros k' H Hd Hp. rewrite lastk_snoc. destruct (key_eqb k k') eqn:E; [discriminate |].
      intros Hb. apply key_eqb_neq in E. apply P2; [exact H | | exact Hp | exact Hb].
      intros A. apply Hd, In_del_key. split; [exact A | congruence].
    + intros k' [H | H].
      * apply In_del_key in H. apply P5. left. tauto.
      * rewrite app_assoc in H. apply in_map_fst_app in H. destruct H as [H | H]; [apply P5; auto |].
        cbn in H. destruct H as [<- | []]. exact SP.
  - (* EFlush *)
    assert (PE : skipn (length (cur_du s)) (cur_fl s ++ buf s) = skipn (length (cur_du s)) (cur_fl s) ++ buf s).
    { rewrite W2 at 1. rewrite <- app_assoc. rewrite pendf_app. reflexivity. }
    constructor; unfold wfl, pendf; sproj; try assumption.
    + rewrite PE, app_assoc, <- W2. reflexivity.
    + rewrite PE. intros k H Hd Hp _. apply lastk_app_none in Hp. destruct Hp. apply P2; assumption.
    + intros k [H | H]; [apply P5; auto |]. apply P5. right. rewrite app_nil_r in H. rewrite app_assoc in H. exact H.
  - (* ESync *)
    destruct SP as [Hd Hb].
    constructor; unfold wfl, pendf; sproj; try assumption.
    + rewrite skipn_all. symmetry. apply app_nil_r.
    + intros k H. rewrite RU. sproj. rewrite <- W1.
      destruct (mem (fst k) (dfiles s)) eqn:M.
      * destruct (lastk (closed_fl s ++ cur_fl s) k) eqn:L.
        -- destruct (K1 k o L) as [A | [A | A]]; [rewrite Hd in A; destruct A | rewrite Hb in A; cbn in A; congruence | symmetry; exact A].
        -- assert (L2 : lastk (closed_du s ++ cur_du s) k = None /\ lastk (skipn (length (cur_du s)) (cur_fl s)) k = None).
           { rewrite W2, app_assoc in L. apply lastk_app_none in L. destruct L as [L L']. split; [rewrite <- W1; exact L | exact L']. }
           destruct L2 as [La Lb]. rewrite <- (P2 k H); [| rewrite Hd; intros [] | exact Lb | rewrite Hb; reflexivity].
           rewrite <- (P1 k H), RU, M, La. reflexivity.
      * rewrite <- (P2 k H); [| rewrite Hd; intros [] | | rewrite Hb; reflexivity].
        -- rewrite <- (P1 k H), RU, M. reflexivity.
        -- destruct (lastk (skipn (length (cur_du s)) (cur_fl s)) k) eqn:L; [| reflexivity]. exfalso.
           apply lastk_some_in in L. assert (In k (map fst ((closed_fl s ++ cur_fl s) ++ buf s))).
           { apply in_map_fst_app. left. apply in_map_fst_app. right. rewrite W2. apply in_map_fst_app. right. exact L. }
           rewrite (P5 k (or_intror H0)) in M. discriminate.
    + rewrite skipn_all. intros. reflexivity.
  - (* ETrunc *)
    destruct SP.
  - (* ERotate *)
    destruct SP as [Hb Hp].
    assert (CF : cur_fl s = cur_du s) by (rewrite W2, Hp, app_nil_r; reflexivity).
    constructor; unfold wfl, pendf; sproj; try assumption.
    + rewrite Hb, app_nil_r, W1, CF. reflexivity.
    + reflexivity.
    + intros k H. rewrite <- (P1 k H), !RU. sproj. rewrite app_nil_r. reflexivity.
    + intros k H Hd _ Hbk. apply P2; [exact H | exact Hd | rewrite Hp; reflexivity | rewrite Hb; reflexivity].
    + intros k [H | H]; [apply P5; auto |]. apply P5. right. rewrite Hb, !app_nil_r in H. rewrite Hb, app_nil_r. exact H.
  - (* EApply *)
    destruct SK as [Hc [Hb Hd]].
    assert (N : forall k, redo (files s) (only_table t (closed_fl s)) (vol s) k = vol s k)
      by (apply apply_noop; assumption).
    constructor; unfold wfl, pendf; sproj; try assumption.
    + intros k H Hdk Hp Hbk. rewrite N. apply P2; assumption.
  - (* ERemove *)
    destruct SP as [Hc Hcl].
    assert (CD : cur_du s = []) by (rewrite Hc in W2; destruct (cur_du s); [reflexivity | discriminate]).
    constructor; unfold wfl, pendf; sproj; try assumption.
    + reflexivity.
    + intros k H. rewrite RU. sproj. rewrite CD. cbn [app lastk].
      destruct (lastk (closed_du s) k) eqn:L.
      * assert (L' : lastk (closed_du s) k <> None) by congruence.
        rewrite <- (Hcl k H L'). unfold dfl. reflexivity.
      * rewrite <- (P1 k H), RU. rewrite CD, app_nil_r, L. reflexivity.
    + intros k [H | H]; [apply P5; auto |]. apply P5. right. cbn [app] in H. rewrite <- app_assoc. apply in_map_fst_app. right. exact H.
  - (* EReset *)
    constructor; unfold wfl, pendf; sproj; try assumption.
    + intros k H _. apply P2; [exact H | rewrite SK; intros []].
    + intros k [[] | H]. apply P5. auto.
Qed.

(* ------------------------------------------------------------------ what the invariants give at a crash point *)
Lemma kill_exact : forall s, InvK s -> dirty s = [] -> buf s = [] -> forall k, recK s k = vol s k.
Proof.
  intros s [K1 K2] Hd Hb k. rewrite recK_eq, redo_spec.
  destruct (mem (fst k) (files s)); [| reflexivity].
  destruct (lastk (wfl s) k) eqn:L; [| reflexivity].
  destruct (K1 k o L) as [A | [A | A]]; [rewrite Hd in A; destruct A | rewrite Hb in A; cbn in A; congruence | symmetry; exact A].
Qed.

Lemma power_view_eq : forall s g, InvP s g -> forall k, ~ In k (g_unl g) -> recP s k = g_view g k.
Proof. intros s g HP. exact (p1 s g HP). Qed.

Lemma power_exact : forall s g, InvP s g -> dirty s = [] -> buf s = [] -> cur_du s = cur_fl s ->
  forall k, ~ In k (g_unl g) -> recP s k = vol s k.
Proof.
  intros s g HP Hd Hb Hc k H. rewrite (p1 s g HP k H). apply (p2 s g HP k H).
  - rewrite Hd. intros [].
  - unfold pendf. rewrite Hc, skipn_all. reflexivity.
  - rewrite Hb. reflexivity.
Qed.
