(* C15 proofs: every recorded finding class is inhabited by a concrete table and query on which
   the faithful implementation model returns rows that do NOT satisfy the property.  The same
   queries are the witnesses of known_findings.d/C15.json and are run on the real Database on
   every check. *)
From Coq Require Import ZArith List Bool.
From TV Require Import Model.KnnOrder.
From TV Require Import Model.SqlSpec Model.SortSpec Model.SortQuery Model.SortImpl.
From TV Require Import Proof.SortResult.
Import ListNotations.
Open Scope Z_scope.

Lemma not_spec_of_chk : forall ncols q t B rows,
  spec_elts ncols q t = Some B ->
  result_defined (q_dirs q) (q_distinct q) B = true ->
  result_chk (q_dirs q) (q_distinct q) B (q_off q) (q_lim q) rows = false ->
  ~ query_spec ncols q t rows.
Proof.
  intros ncols q t B rows Hs Hd Hc Hq. unfold query_spec in Hq. rewrite Hs in Hq.
  specialize (Hq Hd). apply (result_chk_iff_spec_l _ _ _ _ _ _ Hd) in Hq. congruence.
Qed.

Definition refuted (k : Z) : Prop :=
  exists ncols t q rows,
    known_class_q ncols q = k /\ model_query ncols q t = MRows rows /\ ~ query_spec ncols q t rows.

(* t(id, c1 BIGINT, c2 TEXT) = (1,3,'b') (2,NULL,'a') (3,1,'b') (4,3,NULL) (5,2,'a') *)
Definition wt : table :=
  [[VInt 1; VInt 3; VText [98]]; [VInt 2; VNull; VText [97]]; [VInt 3; VInt 1; VText [98]];
   [VInt 4; VInt 3; VNull]; [VInt 5; VInt 2; VText [97]]].
(* t(id, c1 DOUBLE) = (1, 0.0) (2, -0.0) (3, 1.5) *)
Definition wz : table :=
  [[VInt 1; VFloat 0]; [VInt 2; VFloat 9223372036854775808]; [VInt 3; VFloat 4609434218613702656]].

Ltac refute nc t q :=
  exists nc, t, q;
  let r := eval vm_compute in (model_query nc q t) in
  match r with
  | MRows ?rows =>
      exists rows; split; [vm_compute; reflexivity|split; [vm_compute; reflexivity|]];
      let b := eval vm_compute in (spec_elts nc q t) in
      match b with
      | Some ?B => apply (not_spec_of_chk nc q t B rows); vm_compute; reflexivity
      end
  end.

(* 1: SELECT id FROM t ORDER BY c1 *)
Lemma class1_refuted : refuted 1.
Proof. refute 3%nat wt (mkQ false (SelList [SI 0 false]) None [(KCol 1 false, true)] None None). Qed.
(* 2: SELECT id, c1 FROM t ORDER BY 2 *)
Lemma class2_refuted : refuted 2.
Proof. refute 3%nat wt (mkQ false (SelList [SI 0 false; SI 1 false]) None [(KExpr (XInt 2), true)] None None). Qed.
(* 3: SELECT id, c1 FROM t ORDER BY ABS(c1) *)
Lemma class3_refuted : refuted 3.
Proof. refute 3%nat wt (mkQ false (SelList [SI 0 false; SI 1 false]) None [(KExpr (XAbs (XCol 1)), true)] None None). Qed.
(* 6: SELECT * FROM t ORDER BY (c1 + 1) *)
Lemma class6_refuted : refuted 6.
Proof. refute 3%nat wt (mkQ false SelStar None [(KExpr (XBin AAdd (XCol 1) (XInt 1)), true)] None None). Qed.

Lemma known_classes_refuted_l : refuted 1 /\ refuted 2 /\ refuted 3 /\ refuted 6.
Proof. repeat split; [apply class1_refuted|apply class2_refuted|apply class3_refuted|apply class6_refuted]. Qed.

(* HISTORICAL: the witnesses of the classes repaired in /repo (unary minus in a key 64df99f,
   DISTINCT before LIMIT d679a09, column list projected once 84a97fb, DISTINCT 0.0 / -0.0 2ad4719).
   On the model of the repaired code they are in class 0 and answered correctly. *)
Definition now_correct (ncols : nat) (t : table) (q : query) : Prop :=
  known_class_q ncols q = 0 /\
  exists rows B, model_query ncols q t = MRows rows /\ spec_elts ncols q t = Some B /\
                 result_defined (q_dirs q) (q_distinct q) B = true /\
                 result_chk (q_dirs q) (q_distinct q) B (q_off q) (q_lim q) rows = true.
Ltac correct nc t q :=
  split; [vm_compute; reflexivity|];
  let r := eval vm_compute in (model_query nc q t) in
  let b := eval vm_compute in (spec_elts nc q t) in
  match r with MRows ?rows => match b with Some ?B =>
    exists rows, B; repeat split; vm_compute; reflexivity end end.

Lemma repaired_witnesses_correct_l :
  (* ORDER BY (-c1) *)
  now_correct 3 wt (mkQ false (SelList [SI 0 false; SI 1 false]) None [(KExpr (XNeg (XCol 1)), true)] None None) /\
  (* SELECT DISTINCT c1 FROM t ORDER BY c1 DESC LIMIT 2 *)
  now_correct 3 wt (mkQ true (SelList [SI 1 false]) None [(KCol 1 false, false)] (Some 2) None) /\
  (* SELECT DISTINCT c1 FROM t *)
  now_correct 3 wt (mkQ true (SelList [SI 1 false]) None [] None None) /\
  (* SELECT DISTINCT c1 FROM t WHERE id > 0 over 0.0, -0.0, 1.5 *)
  now_correct 2 wz (mkQ true (SelList [SI 1 false]) (Some 0) [] None None).
Proof.
  split; [|split; [|split]].
  - correct 3%nat wt (mkQ false (SelList [SI 0 false; SI 1 false]) None [(KExpr (XNeg (XCol 1)), true)] None None).
  - correct 3%nat wt (mkQ true (SelList [SI 1 false]) None [(KCol 1 false, false)] (Some 2) None).
  - correct 3%nat wt (mkQ true (SelList [SI 1 false]) None [] None None).
  - correct 2%nat wz (mkQ true (SelList [SI 1 false]) (Some 0) [] None None).
Qed.

(* non-vacuity of the end-to-end theorem: queries in class 0 on which something has to be done *)
Example class0_examples :
  known_class_q 3 (mkQ false (SelList [SI 0 false; SI 1 false]) None [(KCol 1 false, false); (KCol 0 false, true)] (Some 3) (Some 1)) = 0 /\
  model_query 3 (mkQ false (SelList [SI 0 false; SI 1 false]) None [(KCol 1 false, false); (KCol 0 false, true)] (Some 3) (Some 1)) wt
    = MRows [[VInt 4; VInt 3]; [VInt 5; VInt 2]; [VInt 3; VInt 1]] /\
  known_class_q 3 (mkQ true (SelList [SI 2 false; SI 1 true]) None [(KCol 2 false, true); (KAlias 1, true)] (Some 3) (Some 1)) = 0 /\
  model_query 3 (mkQ true (SelList [SI 2 false; SI 1 true]) None [(KCol 2 false, true); (KAlias 1, true)] (Some 3) (Some 1)) wt
    = MRows [[VText [97]; VNull]; [VText [97]; VInt 2]; [VText [98]; VInt 1]].
Proof. vm_compute. repeat split. Qed.
