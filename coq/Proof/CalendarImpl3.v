(* C41 continued: weekday, ordinal day. *)
From Coq Require Import ZArith List Bool Lia ZifyBool.
From TV Require Import Lib.MachInt Lib.MachIntFacts Model.Calendar Model.CalendarImpl Proof.CalendarBase Proof.CalendarImpl.
From TV Require Gen.CalLiteral Gen.CalDefault Gen.CalFunc.
Import ListNotations.
Open Scope Z_scope.

Ltac Zify.zify_post_hook ::= Z.to_euclidean_division_equations.

(* ---- weekday *)
Lemma dow_400 y m d : 1 <= y -> 1 <= m <= 12 -> 1 <= d <= 31 ->
  CalFunc.day_of_week (y + 400) m d = CalFunc.day_of_week y m d.
Proof.
  intros Hy Hm Hd. unfold CalFunc.day_of_week, rdiv, rrem. cbv zeta.
  destruct (m <? 3) eqn:E.
  - replace (y + 400 - 1) with ((y - 1) + 400) by lia. set (w := y - 1). assert (Hw : 0 <= w) by lia. clearbody w.
    replace (Z.rem (w + 400) 100) with (Z.rem w 100) by lia.
    replace ((w + 400) ÷ 100) with (w ÷ 100 + 4) by lia.
    set (k := Z.rem w 100). set (j := w ÷ 100). assert (Hj : 0 <= j) by lia. clearbody j.
    clearbody k. f_equal. lia.
  - set (w := y). assert (Hw : 0 <= w) by lia. clearbody w.
    replace (Z.rem (w + 400) 100) with (Z.rem w 100) by lia.
    replace ((w + 400) ÷ 100) with (w ÷ 100 + 4) by lia.
    set (k := Z.rem w 100). set (j := w ÷ 100). assert (Hj : 0 <= j) by lia. clearbody j.
    clearbody k. f_equal. lia.
Qed.

Definition v_dow (y m d : Z) : bool := CalFunc.day_of_week y m d =? (rata_fast y m d + 1) mod 7.
Lemma sweep_dow : all_dates v_dow 1 400 = true.
Proof. vm_compute. reflexivity. Qed.

Lemma dow_fast y : 1 <= y -> forall m d, valid_date y m d = true ->
  CalFunc.day_of_week y m d = (rata_fast y m d + 1) mod 7.
Proof.
  revert y. apply (lift_400 (fun y => forall m d, valid_date y m d = true ->
     CalFunc.day_of_week y m d = (rata_fast y m d + 1) mod 7)).
  - intros y Hy m d Hv. pose proof (all_dates_lift _ _ _ sweep_dow y m d Hy Hv) as H. unfold v_dow in H. lia.
  - intros y Hy IH m d Hv. rewrite valid_date_400 in Hv.
    destruct (valid_ranges _ _ _ Hv) as [Hm Hd].
    rewrite dow_400 by lia. rewrite (IH m d Hv). rewrite rata_fast_400. lia.
Qed.

Lemma day_of_week_correct_l y m d : 1 <= y <= 9999 -> valid_date y m d = true ->
  CalFunc.day_of_week y m d = weekday y m d.
Proof.
  intros Hy Hv. destruct (valid_ranges _ _ _ Hv) as [Hm Hd].
  rewrite dow_fast by (lia || assumption). unfold weekday. rewrite rata_fast_ok by lia. reflexivity.
Qed.

Lemma day_of_year_correct_l y m d : 1 <= y <= 9999 -> valid_date y m d = true ->
  CalFunc.day_of_year y m d = ordinal_day y m d.
Proof.
  intros Hy Hv. destruct (valid_ranges _ _ _ Hv) as [Hm Hd].
  unfold CalFunc.day_of_year. cbv zeta.
  assert (Hv1 : valid_date y 1 1 = true) by (unfold valid_date, dim; reflexivity).
  rewrite (func_fast y) by (lia || assumption). rewrite (func_fast y ltac:(lia) 1 1 Hv1).
  unfold ordinal_day. rewrite dbm_table_ok by lia.
  unfold rata_fast.
  change (dbm_table (is_leap y) 1) with 0.
  assert (Hb : 0 <= dbm_table (is_leap y) m <= 335).
  { unfold dbm_table. destruct (is_leap y);
    repeat match goal with |- context [if ?c then _ else _] => destruct c end; lia. }
  rewrite wrap_u32_small by lia. lia.
Qed.
