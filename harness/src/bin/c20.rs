//! C20 -- scalar functions and arithmetic match their definitions.
//! Drives the REAL implementation on generated arguments and writes what it observed as Coq terms
//! (coq/Corr/C20.v judges them against Model/Arith.v, StrFun.v, DateFun.v, Cast.v and the property's oracle):
//!   * integer expressions through `SELECT <expr>` and `SELECT <expr> FROM one` on a turdb::Database
//!     (scratch database under /dev/shm, recreated after every panic, removed at the end);
//!   * numeric / control-flow / string / date functions through the public
//!     `turdb::sql::functions::eval_function(name, args)` AND through `SELECT f(args)`;
//!   * CAST through SQL only; float functions through direct calls, judged by libm-independent identities.
//! Arguments that make the implementation allocate or loop without bound (RPAD with a negative length,
//! REPEAT / SPACE / LPAD beyond a few hundred) are never run: they would kill or hang the process, not panic.
//!   c20 gen    --seed S --tier T --out DIR [--lines FILE]
//!   c20 search --seed S --budget N --out FILE       (oracle only: Rust ports of the exact semantics; FAIL lines end in #class=k)
//!   c20 sql FILE                                     (debug: run the statements of FILE, print results)
//! Replay lines:  arith <s-expr> | num NAME <int|NULL>.. | str NAME <tHEX|iINT|n>.. | date NAME <dYYYY-MM-DD|iINT|n>..
//!                | cast <INT|TEXT|BOOL|INT_OF_TEXT> <tHEX|iINT|n> | flt <id> <int>        (a trailing ` #...` is ignored)
use std::borrow::Cow;
use std::path::PathBuf;
use tvh::*;
use turdb::types::Value;
use turdb::{Database, OwnedValue};

fn main() {
    let a = Args::parse();
    if std::env::var("C20_DEBUG").is_ok() {
        std::panic::set_hook(Box::new(|i| { if let Some(l) = i.location() { if true { eprintln!("panic at {}:{}", l.file(), l.line()); } } }));
    }
    match a.mode.as_str() {
        "gen" => { if let Caught::Panicked(m) = catch(std::panic::AssertUnwindSafe(|| gen(&a))) { eprintln!("c20 gen: harness panic: {}", m); std::process::exit(3); } }
        "search" => search(&a),
        "sql" => sql_mode(&a),
        _ => { eprintln!("c20: unknown mode"); std::process::exit(2); }
    }
}

// ------------------------------------------------------------------ observed outcomes
#[derive(Clone, Debug, PartialEq)]
enum V { Null, Int(i64), FltI(i128), Text(Vec<u8>), Other }
#[derive(Clone, Debug, PartialEq)]
enum Out { Val(V), None, Panic, Err }

fn zi(v: i128) -> String { if v < 0 { format!("({})", v) } else { format!("{}", v) } }
impl V {
    fn coq(&self) -> String {
        match self {
            V::Null => "VNull".into(),
            V::Int(n) => format!("(VInt {})", zi(*n as i128)),
            V::FltI(n) => format!("(VFltI {})", zi(*n)),
            V::Text(b) => format!("(VText {})", cbytes(b)),
            V::Other => "VOther".into(),
        }
    }
}
impl Out {
    fn coq(&self) -> String {
        match self {
            Out::Val(v) => format!("(OVal {})", v.coq()),
            Out::None => "ONone".into(),
            Out::Panic => "OPanic".into(),
            Out::Err => "OErr".into(),
        }
    }
    fn bucket(&self) -> &'static str {
        match self { Out::Val(V::Null) => "null", Out::Val(_) => "value", Out::None => "none", Out::Panic => "panic", Out::Err => "error" }
    }
}
fn flt(f: f64) -> V {
    if f.is_finite() && f == f.trunc() && f.abs() < 1e30 { V::FltI(f as i128) } else { V::Other }
}
fn from_owned(v: &OwnedValue) -> V {
    match v {
        OwnedValue::Null => V::Null,
        OwnedValue::Int(i) => V::Int(*i),
        OwnedValue::Float(f) => flt(*f),
        OwnedValue::Text(s) => V::Text(s.as_bytes().to_vec()),
        _ => V::Other,
    }
}
fn from_value(v: &Value<'_>) -> V {
    match v {
        Value::Null => V::Null,
        Value::Int(i) => V::Int(*i),
        Value::Float(f) => flt(*f),
        Value::Text(s) => V::Text(s.as_bytes().to_vec()),
        _ => V::Other,
    }
}

// ------------------------------------------------------------------ the database under test
fn scratch_root() -> PathBuf {
    // memory-backed when available (a fresh database is created after every panic), else <verif>/build/tmp
    let shm = PathBuf::from("/dev/shm");
    let base = if shm.is_dir() { shm } else {
        let exe = std::env::current_exe().ok();
        exe.as_ref().and_then(|p| p.parent()).and_then(|p| p.parent()).and_then(|p| p.parent())
            .map(|p| p.join("tmp")).unwrap_or_else(|| PathBuf::from("/verif/build/tmp"))
    };
    base.join(format!("tv-c20-{}", std::process::id()))
}
struct Sut { db: Option<Database>, dir: PathBuf, seq: u64, pub created: u64 }
impl Sut {
    fn new() -> Sut { Sut { db: None, dir: scratch_root(), seq: 0, created: 0 } }
    fn cleanup(&mut self) { self.db = None; let _ = std::fs::remove_dir_all(&self.dir); }
    fn fresh(&mut self) {
        self.db = None;
        let _ = std::fs::remove_dir_all(&self.dir);
        std::fs::create_dir_all(&self.dir).expect("mkdir scratch");
        self.seq += 1;
        let db = Database::create(self.dir.join(format!("db{}", self.seq))).expect("create database");
        db.execute("CREATE TABLE one (id INT)").expect("create table");
        db.execute("INSERT INTO one VALUES (1)").expect("insert");
        self.created += 1;
        self.db = Some(db);
    }
    /// first column of the single row of `sql`
    fn select1(&mut self, sql: &str) -> Out {
        if self.db.is_none() { self.fresh(); }
        let db = self.db.as_ref().unwrap();
        let r = catch(std::panic::AssertUnwindSafe(|| db.query(sql).map_err(|e| format!("{:#}", e))));
        match r {
            Caught::Panicked(_) => { self.db = None; Out::Panic }          // do not reuse a database that panicked
            Caught::Done(Err(_)) => Out::Err,
            Caught::Done(Ok(rows)) => {
                if rows.len() == 1 && rows[0].values.len() == 1 { Out::Val(from_owned(&rows[0].values[0])) } else { Out::Val(V::Other) }
            }
        }
    }
}

fn call_direct(name: &str, args: &[Option<Value<'static>>]) -> Out {
    let name = name.to_string();
    let args = args.to_vec();
    match catch(std::panic::AssertUnwindSafe(move || turdb::sql::functions::eval_function(&name, &args).map(|v| from_value(&v)))) {
        Caught::Panicked(_) => Out::Panic,
        Caught::Done(None) => Out::None,
        Caught::Done(Some(v)) => Out::Val(v),
    }
}

// ------------------------------------------------------------------ integer expressions
#[derive(Clone, Copy, Debug, PartialEq)]
enum Bop { Add, Sub, Mul, Div, Rem, Pow, Shl, Shr, BAnd, BOr }
#[derive(Clone, Copy, Debug, PartialEq)]
enum Uop { Neg, Pos, BNot }
#[derive(Clone, Debug, PartialEq)]
enum E { Lit(u64), Null, Un(Uop, Box<E>), Bin(Bop, Box<E>, Box<E>) }

const BOPS: [(Bop, &str, &str); 10] = [
    (Bop::Add, "+", "Add"), (Bop::Sub, "-", "Sub"), (Bop::Mul, "*", "Mul"), (Bop::Div, "/", "Div"), (Bop::Rem, "%", "Rem"),
    (Bop::Pow, "^", "Pow"), (Bop::Shl, "<<", "Shl"), (Bop::Shr, ">>", "Shr"), (Bop::BAnd, "&", "BAnd"), (Bop::BOr, "|", "BOr")];
const UOPS: [(Uop, &str, &str, &str); 3] = [(Uop::Neg, "-", "Neg", "neg"), (Uop::Pos, "+", "Pos", "pos"), (Uop::BNot, "~", "BNot", "not")];
fn bsym(o: Bop) -> &'static str { BOPS.iter().find(|x| x.0 == o).unwrap().1 }
fn bcoq(o: Bop) -> &'static str { BOPS.iter().find(|x| x.0 == o).unwrap().2 }

impl E {
    /// the expression whose value is the integer v (SQL has no negative literals)
    fn of_int(v: i64) -> E {
        if v >= 0 { E::Lit(v as u64) }
        else { E::Un(Uop::Neg, Box::new(E::Lit(v.unsigned_abs()))) }      // -9223372036854775808 is read as one signed numeral
    }
    fn sql(&self) -> String {
        match self {
            E::Lit(n) => format!("{}", n),
            E::Null => "NULL".into(),
            E::Un(o, a) => format!("({}({}))", UOPS.iter().find(|x| x.0 == *o).unwrap().1, a.sql()),
            E::Bin(o, l, r) => format!("(({}) {} ({}))", l.sql(), bsym(*o), r.sql()),
        }
    }
    fn coq(&self) -> String {
        match self {
            E::Lit(n) => format!("(ELit {})", n),
            E::Null => "ENull".into(),
            E::Un(o, a) => format!("(EUn {} {})", UOPS.iter().find(|x| x.0 == *o).unwrap().2, a.coq()),
            E::Bin(o, l, r) => format!("(EBin {} {} {})", bcoq(*o), l.coq(), r.coq()),
        }
    }
    fn sexp(&self) -> String {
        match self {
            E::Lit(n) => format!("{}", n),
            E::Null => "NULL".into(),
            E::Un(o, a) => format!("({} {})", UOPS.iter().find(|x| x.0 == *o).unwrap().3, a.sexp()),
            E::Bin(o, l, r) => format!("({} {} {})", bsym(*o), l.sexp(), r.sexp()),
        }
    }
    fn parse(s: &str) -> Option<E> {
        let toks: Vec<String> = s.replace('(', " ( ").replace(')', " ) ").split_whitespace().map(|x| x.to_string()).collect();
        let mut pos = 0;
        let e = E::parse_toks(&toks, &mut pos)?;
        if pos == toks.len() { Some(e) } else { None }
    }
    fn parse_toks(t: &[String], pos: &mut usize) -> Option<E> {
        let tok = t.get(*pos)?.clone();
        *pos += 1;
        if tok == "(" {
            let head = t.get(*pos)?.clone();
            *pos += 1;
            let e = if let Some(u) = UOPS.iter().find(|x| x.3 == head) {
                let a = E::parse_toks(t, pos)?;
                E::Un(u.0, Box::new(a))
            } else {
                let b = BOPS.iter().find(|x| x.1 == head)?;
                let l = E::parse_toks(t, pos)?;
                let r = E::parse_toks(t, pos)?;
                E::Bin(b.0, Box::new(l), Box::new(r))
            };
            if t.get(*pos)? != ")" { return None; }
            *pos += 1;
            Some(e)
        } else if tok == "NULL" { Some(E::Null) } else { tok.parse::<u64>().ok().map(E::Lit) }
    }
}

/// Rust port of Model/Arith.v `exact` (the property's oracle), used by `search` and for the statistics
#[derive(Clone, Copy, Debug, PartialEq)]
enum X { Int(i64), NullP, DivZ, Over, Any }
fn in64(x: i128) -> X { if x >= i64::MIN as i128 && x <= i64::MAX as i128 { X::Int(x as i64) } else { X::Over } }
fn exact_pow(a: i64, b: i64) -> X {
    if b == 0 { X::Int(1) } else if a == 0 { X::Int(0) } else if a == 1 { X::Int(1) }
    else if a == -1 { X::Int(if b % 2 == 0 { 1 } else { -1 }) }
    else if b >= 64 { X::Over }
    else {
        let mut acc: i128 = 1;
        for _ in 0..b { acc = match acc.checked_mul(a as i128) { Some(v) if v.unsigned_abs() <= (1u128 << 100) => v, _ => return X::Over }; }
        in64(acc)
    }
}
fn exact_bin(o: Bop, a: i64, b: i64) -> X {
    let (x, y) = (a as i128, b as i128);
    match o {
        Bop::Add => in64(x + y), Bop::Sub => in64(x - y), Bop::Mul => in64(x * y),
        Bop::Div => if b == 0 { X::DivZ } else { in64(x / y) },
        Bop::Rem => if b == 0 { X::DivZ } else { X::Int((x % y) as i64) },
        Bop::Pow => if b >= 0 { exact_pow(a, b) } else { X::Any },
        Bop::Shl => if (0..64).contains(&b) { X::Int(((a as u64) << b) as i64) } else { X::Any },
        Bop::Shr => if (0..64).contains(&b) { X::Int(a >> b) } else { X::Any },
        Bop::BAnd => X::Int(a & b), Bop::BOr => X::Int(a | b),
    }
}
/// the exact result (Model/Arith.v `exact`)
fn exact(e: &E) -> X {
    match e {
        E::Lit(n) => if *n <= i64::MAX as u64 { X::Int(*n as i64) } else { X::Over },
        E::Null => X::NullP,
        E::Un(Uop::Neg, a) if matches!(**a, E::Lit(_)) => { if let E::Lit(n) = **a { in64(-(n as i128)) } else { X::Any } }
        E::Un(o, a) => match exact(a) {
            X::Int(v) => match o { Uop::Neg => in64(-(v as i128)), Uop::Pos => X::Int(v), Uop::BNot => X::Int(!v) },
            r => r,
        },
        E::Bin(o, l, r) => {
            let (xl, xr) = (exact(l), exact(r));
            match (xl, xr) {
                (X::Int(a), X::Int(b)) => exact_bin(*o, a, b),
                (X::Any, _) | (_, X::Any) => X::Any,
                (X::Over, X::Int(_)) | (X::Int(_), X::Over) | (X::Over, X::Over) => X::Over,
                (X::Over, _) | (_, X::Over) => X::Any,
                (X::DivZ, _) | (_, X::DivZ) => X::DivZ,
                _ => X::NullP,
            }
        }
    }
}
fn obs_ok(x: X, o: &Out) -> bool {
    match o {
        Out::Panic | Out::None => false,
        Out::Err => matches!(x, X::DivZ | X::Over | X::Any),
        Out::Val(v) => match (x, v) {
            (X::Int(z), V::Int(n)) => z == *n,
            (X::NullP, V::Null) | (X::DivZ, V::Null) => true,
            (X::Any, _) => true,
            _ => false,
        },
    }
}
fn wf(e: &E) -> bool {
    match e {
        E::Lit(n) => *n <= i64::MAX as u64,
        E::Null => true,
        E::Un(Uop::Neg, a) if matches!(**a, E::Lit(_)) => matches!(**a, E::Lit(n) if n <= 1u64 << 63),
        E::Un(_, a) => wf(a),
        E::Bin(Bop::Pow, l, r) => wf(l) && matches!(**r, E::Lit(n) if n <= i64::MAX as u64),
        E::Bin(_, l, r) => wf(l) && wf(r),
    }
}
/// 1: some step is not an i64, an error is required (the evaluator shows NULL: F-C20-1)
fn arith_class(e: &E) -> u32 { if exact(e) == X::Over { 1 } else { 0 } }

const BOUNDARY: [i64; 44] = [0, 1, -1, 2, -2, 3, -3, 5, 7, -7, 10, 31, 32, 62, 63, 64, 65, 100, 255, 256, -256, 65535,
    2147483647, 2147483648, -2147483648, 4294967295, 4294967296, -4294967296, 3037000499, 3037000500, -3037000500,
    9007199254740992, 9007199254740993, -9007199254740993, 4611686018427387904, -4611686018427387904,
    i64::MAX, i64::MAX - 1, i64::MIN, i64::MIN + 1, 1 << 62, (1 << 62) - 1, 6074001000, -3];

fn rand_int(rng: &mut Rng) -> i64 {
    match rng.below(10) {
        0..=3 => *rng.pick(&BOUNDARY),
        4..=6 => rng.range(-20, 20),
        7 => { let bits = 1 + rng.below(64) as u32; let v = rng.next() >> (64 - bits); if rng.chance(1, 2) { v as i64 } else { (v as i64).wrapping_neg() } }
        8 => { let b = *rng.pick(&BOUNDARY); b.wrapping_add(rng.range(-2, 2)) }
        _ => rng.range(-1000, 1000),
    }
}
fn rand_expr(rng: &mut Rng, depth: u32) -> E {
    if depth == 0 || rng.chance(1, 4) {
        if rng.chance(1, 12) { return E::Null; }
        return E::of_int(rand_int(rng));
    }
    if rng.chance(1, 7) {
        let u = rng.pick(&UOPS).0;
        return E::Un(u, Box::new(rand_expr(rng, depth - 1)));
    }
    let o = rng.pick(&BOPS).0;
    let l = rand_expr(rng, depth - 1);
    let r = match o {
        Bop::Pow => E::Lit(match rng.below(8) { 0 => 0, 1 => 1, 2 => 2, 3 => 63, 4 => 64, 5 => rng.below(70), 6 => (1u64 << 32) + rng.below(3), _ => rng.below(8) }),
        Bop::Shl | Bop::Shr if rng.chance(3, 4) => E::of_int(rng.range(-2, 66)),
        _ => rand_expr(rng, depth - 1),
    };
    E::Bin(o, Box::new(l), Box::new(r))
}

fn arith_case(w: &mut CaseWriter, sut: &mut Sut, e: &E, kind: &str) {
    let sql = e.sql();
    let o1 = sut.select1(&format!("SELECT {}", sql));
    let o2 = sut.select1(&format!("SELECT {} FROM one", sql));
    let x = exact(e);
    let cls = arith_class(e);
    w.count(&format!("arith:out:{}", o1.bucket()), 1);
    w.count(&format!("arith:class{}", cls), 1);
    // non-trivial: an operator is applied to integers, or NULL / zero-divisor propagation is exercised
    let nontrivial = !matches!(e, E::Lit(_) | E::Null) && x != X::Any;
    w.push(format!("CArith {} {} {}", e.coq(), o1.coq(), o2.coq()), format!("arith {}", e.sexp()), nontrivial, kind);
}

// ------------------------------------------------------------------ numeric / control-flow functions
const NFNS: [(&str, &str, usize, usize); 15] = [
    ("ABS", "FAbs", 1, 1), ("SIGN", "FSign", 1, 1), ("MOD", "FMod", 2, 2), ("DIV", "FDivI", 2, 2), ("CEIL", "FCeil", 1, 1),
    ("FLOOR", "FFloor", 1, 1), ("ROUND", "FRound", 1, 2), ("TRUNCATE", "FTrunc", 1, 2), ("GREATEST", "FGreatest", 1, 4),
    ("LEAST", "FLeast", 1, 4), ("IF", "FIf", 3, 3), ("IFNULL", "FIfnull", 2, 2), ("NULLIF", "FNullif", 2, 2),
    ("COALESCE", "FCoalesce", 1, 4), ("ISNULL", "FIsnull", 1, 1)];

fn arg_sql(a: &Option<i64>) -> String { match a { None => "NULL".into(), Some(v) => E::of_int(*v).sql() } }
fn arg_coq(a: &Option<i64>) -> String { match a { None => "VNull".into(), Some(v) => format!("(VInt {})", zi(*v as i128)) } }
fn arg_val(a: &Option<i64>) -> Option<Value<'static>> { Some(match a { None => Value::Null, Some(v) => Value::Int(*v) }) }

fn num_case(w: &mut CaseWriter, sut: &mut Sut, name: &str, args: &[Option<i64>], kind: &str) {
    let f = match NFNS.iter().find(|x| x.0 == name) { Some(f) => f, None => return };
    let vals: Vec<Option<Value<'static>>> = args.iter().map(arg_val).collect();
    let d = call_direct(name, &vals);
    let sql = format!("SELECT {}({})", name, args.iter().map(arg_sql).collect::<Vec<_>>().join(", "));
    let s = sut.select1(&sql);
    w.count(&format!("num:out:{}", d.bucket()), 1);
    let nontrivial = args.iter().any(|a| a.is_some());
    let rl = format!("num {} {}", name, args.iter().map(|a| match a { None => "NULL".to_string(), Some(v) => v.to_string() }).collect::<Vec<_>>().join(" "));
    w.push(format!("CNum {} {} {} {}", f.1, clist(&args.iter().map(arg_coq).collect::<Vec<_>>()), d.coq(), s.coq()), rl, nontrivial, kind);
}
fn rand_num_args(rng: &mut Rng, name: &str) -> Vec<Option<i64>> {
    let f = NFNS.iter().find(|x| x.0 == name).unwrap();
    let n = f.2 + rng.below((f.3 - f.2 + 1) as u64) as usize;
    let mut v: Vec<Option<i64>> = (0..n).map(|_| if rng.chance(1, 8) { None } else { Some(rand_int(rng)) }).collect();
    if name == "ROUND" || name == "TRUNCATE" { if n == 2 { v[1] = if rng.chance(1, 5) { None } else { Some(rng.range(0, 4)) }; } }
    if name == "MOD" || name == "DIV" { if rng.chance(1, 6) { v[1] = Some(0); } if rng.chance(1, 8) { v[1] = Some(-1); } }
    v
}

// ------------------------------------------------------------------ string functions
#[derive(Clone, Debug, PartialEq)]
enum SA { T(String), I(i64), N }
impl SA {
    fn val(&self) -> Option<Value<'static>> {
        Some(match self { SA::T(s) => Value::Text(Cow::Owned(s.clone())), SA::I(n) => Value::Int(*n), SA::N => Value::Null })
    }
    fn coq(&self) -> String {
        match self { SA::T(s) => format!("(VText {})", cbytes(s.as_bytes())), SA::I(n) => format!("(VInt {})", zi(*n as i128)), SA::N => "VNull".into() }
    }
    fn tok(&self) -> String {
        match self { SA::T(s) => format!("t{}", hex(s.as_bytes())), SA::I(n) => format!("i{}", n), SA::N => "n".into() }
    }
    fn from_tok(t: &str) -> Option<SA> {
        if t == "n" { Some(SA::N) }
        else if let Some(h) = t.strip_prefix('t') { String::from_utf8(unhex(h)).ok().map(SA::T) }
        else if let Some(i) = t.strip_prefix('i') { i.parse::<i64>().ok().map(SA::I) }
        else { None }
    }
    /// SQL text of the argument; None if it cannot be written as a literal the lexer is known to take verbatim
    fn sql(&self) -> Option<String> {
        match self {
            SA::T(s) => if s.chars().any(|c| (c as u32) < 0x20 || c == '\\' || c == '\u{7f}') { None } else { Some(format!("'{}'", s.replace('\'', "''"))) },
            SA::I(n) => Some(E::of_int(*n).sql()),
            SA::N => Some("NULL".into()),
        }
    }
}
/// (SQL name, Coq constructor, min args, max args)
const SFNS: [(&str, &str, usize, usize); 21] = [
    ("LENGTH", "SLength", 1, 1), ("CHAR_LENGTH", "SCharLength", 1, 1), ("ASCII", "SAscii", 1, 1), ("UPPER", "SUpper", 1, 1),
    ("LOWER", "SLower", 1, 1), ("LEFT", "SLeft", 2, 2), ("RIGHT", "SRight", 2, 2), ("SUBSTR", "SSubstr", 2, 3), ("REVERSE", "SReverse", 1, 1),
    ("LPAD", "SLpad", 3, 3), ("RPAD", "SRpad", 3, 3), ("INSTR", "SInstr", 2, 2), ("LOCATE", "SLocate", 2, 3), ("REPEAT", "SRepeat", 2, 2),
    ("SPACE", "SSpace", 1, 1), ("TRIM", "STrim", 1, 1), ("LTRIM", "SLtrim", 1, 1), ("RTRIM", "SRtrim", 1, 1), ("CONCAT", "SConcat", 0, 4),
    ("STRCMP", "SStrcmp", 2, 2), ("INSERT", "SInsert", 4, 4)];

/// what the SQL path showed, relative to the direct call
fn sql_obs(d: &Out, s: Option<Out>) -> String {
    match s {
        None => "NoSql".into(),
        Some(o) => { let dn = if *d == Out::None { Out::Val(V::Null) } else { d.clone() }; if o == dn { "Same".into() } else { format!("(Obs {})", o.coq()) } }
    }
}

/// arguments that would make the implementation allocate without bound or loop (not a panic: the process dies or hangs)
fn str_args_runnable(name: &str, args: &[SA]) -> bool {
    let int = |i: usize| match args.get(i) { Some(SA::I(n)) => Some(*n), _ => None };
    let text_empty = |i: usize| matches!(args.get(i), Some(SA::T(s)) if s.is_empty());
    let null = |i: usize| matches!(args.get(i), Some(SA::N) | None);
    match name {
        "REPEAT" => int(1).map_or(true, |n| n <= 64) || null(0) || text_empty(0),
        "SPACE" => int(0).map_or(true, |n| n <= 256),
        // a negative length returns NULL (fix c7e0f53); a huge positive one still allocates / loops that much
        "LPAD" => int(1).map_or(true, |n| n <= 256) || null(0) || null(2),
        "RPAD" => int(1).map_or(true, |n| n <= 256) || null(0) || null(2) || text_empty(2),
        _ => true,
    }
}

fn str_case(w: &mut CaseWriter, sut: &mut Sut, name: &str, args: &[SA], kind: &str) {
    let f = match SFNS.iter().find(|x| x.0 == name) { Some(f) => f, None => return };
    if !str_args_runnable(name, args) { w.count("str:skipped_unrunnable", 1); return; }
    let vals: Vec<Option<Value<'static>>> = args.iter().map(|a| a.val()).collect();
    let d = call_direct(name, &vals);
    let sqls: Option<Vec<String>> = args.iter().map(|a| a.sql()).collect();
    let s = sqls.map(|xs| sut.select1(&format!("SELECT {}({})", name, xs.join(", "))));
    w.count(&format!("str:out:{}", d.bucket()), 1);
    if s.is_none() { w.count("str:direct_only", 1); }
    let multibyte = args.iter().any(|a| matches!(a, SA::T(t) if !t.is_ascii()));
    if multibyte { w.count("str:multibyte_argument", 1); }
    let nontrivial = args.iter().any(|a| matches!(a, SA::T(t) if !t.is_empty()));
    let rl = format!("str {} {}", name, args.iter().map(|a| a.tok()).collect::<Vec<_>>().join(" "));
    let so = sql_obs(&d, s);
    w.push(format!("CStr {} {} {} {}", f.1, clist(&args.iter().map(|a| a.coq()).collect::<Vec<_>>()), d.coq(), so), rl, nontrivial, kind);
}

const CP_POOL: [u32; 40] = [0x61, 0x62, 0x63, 0x41, 0x5A, 0x7A, 0x30, 0x20, 0x20, 0x2C, 0x27, 0x7E, 0x7F, 0x09, 0x0A,
    0x80, 0xA0, 0xE9, 0xDF, 0x301, 0x3A3, 0x7FF, 0x800, 0x1680, 0x2003, 0x2028, 0x3000, 0x65E5, 0x672C, 0xD7FF, 0xE000, 0xFEFF, 0xFFFD, 0xFFFF,
    0x10000, 0x1D11E, 0x1F600, 0x10FFFF, 0x61, 0x20];
fn rand_cp(rng: &mut Rng) -> char {
    loop {
        let c = match rng.below(10) {
            0..=5 => *rng.pick(&CP_POOL),
            6 => 0x20 + rng.below(0x5F) as u32,
            7 => 0x80 + rng.below(0x780) as u32,
            8 => 0x800 + rng.below(0xF800) as u32,
            _ => 0x10000 + rng.below(0x100000) as u32,
        };
        if let Some(ch) = char::from_u32(c) { if c != 0 { return ch; } }
    }
}
fn rand_string(rng: &mut Rng) -> String {
    let n = match rng.below(8) { 0 => 0, 1 => 1, _ => rng.below(9) as usize };
    let ascii_only = rng.chance(1, 4);
    (0..n).map(|_| if ascii_only { (0x20 + rng.below(0x5F) as u8) as char } else { rand_cp(rng) }).collect()
}
fn rand_small_int(rng: &mut Rng) -> i64 {
    match rng.below(12) {
        0 => i64::MIN, 1 => i64::MAX, 2 => -1, 3 => 0, 4 => i64::MIN + 1, 5 => rng.range(-12, -1),
        _ => rng.range(0, 12),
    }
}
fn rand_substring(rng: &mut Rng, s: &str) -> String {
    let cs: Vec<char> = s.chars().collect();
    if cs.is_empty() { return String::new(); }
    let a = rng.below(cs.len() as u64) as usize;
    let l = 1 + rng.below((cs.len() - a).min(3) as u64) as usize;
    cs[a..a + l].iter().collect()
}
fn rand_str_args(rng: &mut Rng, name: &str) -> Vec<SA> {
    let f = SFNS.iter().find(|x| x.0 == name).unwrap();
    let n = f.2 + rng.below((f.3 - f.2 + 1) as u64) as usize;
    let t = |rng: &mut Rng| SA::T(rand_string(rng));
    let mut v: Vec<SA> = match name {
        "LEFT" | "RIGHT" => vec![t(rng), SA::I(rand_small_int(rng))],
        "SUBSTR" => { let mut v = vec![t(rng), SA::I(rand_small_int(rng))]; if n == 3 { v.push(SA::I(rand_small_int(rng))); } v }
        "LPAD" | "RPAD" => vec![t(rng), SA::I(match rng.below(10) { 0 => -1, 1 => i64::MIN, 2 => 0, 3 => rng.range(-9, -1), _ => rng.range(0, 14) }), if rng.chance(1, 6) { SA::T(String::new()) } else { t(rng) }],
        "INSTR" => { let h = rand_string(rng); let nd = if rng.chance(2, 3) { rand_substring(rng, &h) } else { rand_string(rng) }; vec![SA::T(h), SA::T(nd)] }
        "LOCATE" => { let h = rand_string(rng); let nd = if rng.chance(2, 3) { rand_substring(rng, &h) } else { rand_string(rng) };
                      let mut v = vec![SA::T(nd), SA::T(h)]; if n == 3 { v.push(SA::I(match rng.below(8) { 0 => 0, 1 => -1, 2 => i64::MAX, _ => rng.range(1, 9) })); } v }
        "REPEAT" => vec![t(rng), SA::I(match rng.below(8) { 0 => -1, 1 => 0, 2 => i64::MIN, _ => rng.range(1, 6) })],
        "SPACE" => vec![SA::I(match rng.below(8) { 0 => -1, 1 => 0, 2 => i64::MIN, _ => rng.range(1, 20) })],
        "STRCMP" => { let a = rand_string(rng); let b = if rng.chance(1, 3) { a.clone() } else if rng.chance(1, 2) { let mut b = a.clone(); b.push(rand_cp(rng)); b } else { rand_string(rng) }; vec![SA::T(a), SA::T(b)] }
        "INSERT" => vec![t(rng), SA::I(rand_small_int(rng)), SA::I(rand_small_int(rng)), t(rng)],
        "UPPER" | "LOWER" => vec![SA::T((0..rng.below(9)).map(|_| (0x20 + rng.below(0x5F) as u8) as char).collect())],
        "TRIM" | "LTRIM" | "RTRIM" => { let mut s = String::new(); for _ in 0..rng.below(3) { s.push(*rng.pick(&[' ', ' ', '\t', '\u{a0}', '\u{3000}', '\n'])); }
                                        s.push_str(&rand_string(rng)); for _ in 0..rng.below(3) { s.push(*rng.pick(&[' ', ' ', '\t', '\u{2003}', '\u{85}'])); } vec![SA::T(s)] }
        _ => (0..n).map(|_| t(rng)).collect(),
    };
    // NULL in some position
    if !v.is_empty() && rng.chance(1, 12) { let i = rng.below(v.len() as u64) as usize; v[i] = SA::N; }
    v
}

// ------------------------------------------------------------------ date functions
#[derive(Clone, Debug, PartialEq)]
enum DA { D(i64, i64, i64), I(i64), N }
impl DA {
    fn text(&self) -> Option<String> { if let DA::D(y, m, d) = self { Some(format!("{:04}-{:02}-{:02}", y, m, d)) } else { None } }
    fn val(&self) -> Option<Value<'static>> {
        Some(match self { DA::D(..) => Value::Text(Cow::Owned(self.text().unwrap())), DA::I(n) => Value::Int(*n), DA::N => Value::Null })
    }
    fn coq(&self) -> String {
        match self { DA::D(y, m, d) => format!("(DDate {} {} {})", y, m, d), DA::I(n) => format!("(DNum {})", zi(*n as i128)), DA::N => "DNullA".into() }
    }
    fn tok(&self) -> String { match self { DA::D(..) => format!("d{}", self.text().unwrap()), DA::I(n) => format!("i{}", n), DA::N => "n".into() } }
    fn from_tok(t: &str) -> Option<DA> {
        if t == "n" { return Some(DA::N); }
        if let Some(i) = t.strip_prefix('i') { return i.parse::<i64>().ok().map(DA::I); }
        let d = t.strip_prefix('d')?;
        let p: Vec<&str> = d.split('-').collect();
        if p.len() != 3 { return None; }
        let (y, m, dd) = (p[0].parse::<i64>().ok()?, p[1].parse::<i64>().ok()?, p[2].parse::<i64>().ok()?);
        if (0..=9999).contains(&y) && (0..=99).contains(&m) && (0..=99).contains(&dd) { Some(DA::D(y, m, dd)) } else { None }
    }
    fn sql(&self) -> String { match self { DA::D(..) => format!("'{}'", self.text().unwrap()), DA::I(n) => E::of_int(*n).sql(), DA::N => "NULL".into() } }
}
const DFNS: [(&str, &str, usize); 11] = [("YEAR", "DYear", 1), ("MONTH", "DMonth", 1), ("DAY", "DDay", 1), ("DAYOFWEEK", "DDayOfWeek", 1),
    ("DAYOFYEAR", "DDayOfYear", 1), ("TO_DAYS", "DToDays", 1), ("FROM_DAYS", "DFromDays", 1), ("LAST_DAY", "DLastDay", 1),
    ("DATEDIFF", "DDateDiff", 2), ("DATE_ADD", "DDateAdd", 2), ("DATE_SUB", "DDateSub", 2)];

fn date_case(w: &mut CaseWriter, sut: &mut Sut, name: &str, args: &[DA], kind: &str) {
    let f = match DFNS.iter().find(|x| x.0 == name) { Some(f) => f, None => return };
    let vals: Vec<Option<Value<'static>>> = args.iter().map(|a| a.val()).collect();
    let d = call_direct(name, &vals);
    let s = sut.select1(&format!("SELECT {}({})", name, args.iter().map(|a| a.sql()).collect::<Vec<_>>().join(", ")));
    w.count(&format!("date:out:{}", d.bucket()), 1);
    let valid = args.iter().all(|a| match a { DA::D(y, m, dd) => *y >= 1 && is_valid_date(*y, *m, *dd), _ => true });
    w.count(if valid { "date:valid_dates" } else { "date:invalid_date" }, 1);
    let rl = format!("date {} {}", name, args.iter().map(|a| a.tok()).collect::<Vec<_>>().join(" "));
    let so = sql_obs(&d, Some(s));
    w.push(format!("CDate {} {} {} {}", f.1, clist(&args.iter().map(|a| a.coq()).collect::<Vec<_>>()), d.coq(), so), rl, valid, kind);
}
fn is_leap(y: i64) -> bool { (y % 4 == 0 && y % 100 != 0) || y % 400 == 0 }
fn dim(y: i64, m: i64) -> i64 { match m { 1 | 3 | 5 | 7 | 8 | 10 | 12 => 31, 4 | 6 | 9 | 11 => 30, 2 => if is_leap(y) { 29 } else { 28 }, _ => 0 } }
fn is_valid_date(y: i64, m: i64, d: i64) -> bool { (1..=12).contains(&m) && d >= 1 && d <= dim(y, m) }
fn rand_date(rng: &mut Rng) -> DA {
    let y = match rng.below(8) { 0 => *rng.pick(&[1i64, 2, 4, 100, 400, 1582, 1600, 1900, 1970, 2000, 2024, 2100, 9999, 9996]), 1 => rng.range(1, 9999), 2 => rng.range(1900, 2100), _ => rng.range(1, 9999) };
    let m = rng.range(1, 12);
    match rng.below(10) {
        0 => DA::D(y, m, 1),
        1 | 2 => DA::D(y, m, dim(y, m)),
        3 => DA::D(y, 2, dim(y, 2) - rng.range(0, 1)),
        4 => DA::D(y, 3, 1),
        5 => DA::D(y, 12, 31),
        6 => DA::D(y, 1, 1),
        7 => DA::D(if rng.chance(1, 3) { 0 } else { y }, rng.range(0, 13), rng.range(0, 32)),      // often not a date
        _ => DA::D(y, m, rng.range(1, dim(y, m))),
    }
}
fn rand_days(rng: &mut Rng) -> i64 {
    match rng.below(12) {
        0 => 0, 1 => 1, 2 => -1, 3 => rng.range(-40, 40), 4 => 365, 5 => 366, 6 => rng.range(-800, 800), 7 => rng.range(-3_700_000, 3_700_000),
        8 => *rng.pick(&[i64::MAX, i64::MIN, 1 << 62, 92233720368547757, 92233720368547758, -92233720368547760, 92233720368547000]),
        _ => rng.range(-100_000, 100_000),
    }
}
fn rand_date_args(rng: &mut Rng, name: &str) -> Vec<DA> {
    let mut v = match name {
        "FROM_DAYS" => vec![DA::I(match rng.below(6) { 0 => rng.range(-400, 800), 1 => *rng.pick(&[0i64, 1, 366, 3652059, 3652060, i64::MAX, i64::MIN, 92233720368547757, 92233720368547452, 92233720368547453]), _ => rng.range(1, 3_652_059) })],
        "DATEDIFF" => vec![rand_date(rng), rand_date(rng)],
        "DATE_ADD" | "DATE_SUB" => vec![rand_date(rng), DA::I(rand_days(rng))],
        _ => vec![rand_date(rng)],
    };
    if rng.chance(1, 15) { let i = rng.below(v.len() as u64) as usize; v[i] = DA::N; }
    v
}

// ------------------------------------------------------------------ CAST (through SQL only: eval_cast is not public)
const CASTS: [(&str, &str); 4] = [("INT", "KInt"), ("TEXT", "KText"), ("BOOL", "KBool"), ("INT_OF_TEXT", "KIntOfText")];
fn cast_case(w: &mut CaseWriter, sut: &mut Sut, kind_name: &str, arg: &SA, kind: &str) {
    let k = match CASTS.iter().find(|x| x.0 == kind_name) { Some(k) => k, None => return };
    let a = match arg.sql() { Some(a) => a, None => return };
    let sql = match kind_name {
        "INT" => format!("SELECT CAST({} AS INTEGER)", a),
        "TEXT" => format!("SELECT CAST({} AS TEXT)", a),
        "BOOL" => format!("SELECT CAST({} AS BOOLEAN)", a),
        _ => format!("SELECT CAST(CAST({} AS TEXT) AS INTEGER)", a),
    };
    let o = sut.select1(&sql);
    w.count(&format!("cast:out:{}", o.bucket()), 1);
    let nontrivial = !matches!(arg, SA::N);
    w.push(format!("CCast {} {} {}", k.1, arg.coq(), o.coq()), format!("cast {} {}", kind_name, arg.tok()), nontrivial, kind);
}
fn rand_numeral(rng: &mut Rng) -> String {
    let n = rand_int(rng);
    match rng.below(10) {
        0 => format!("+{}", n.unsigned_abs()),
        1 => format!(" {}", n),
        2 => format!("{} ", n),
        3 => format!("00{}", n.unsigned_abs()),
        4 => format!("{}x", n),
        5 => format!("{}{}", n, rng.below(100)),                  // often beyond i64
        6 => "-".to_string(),
        7 => String::new(),
        _ => n.to_string(),
    }
}
fn cast_cases(w: &mut CaseWriter, sut: &mut Sut, rng: &mut Rng, thorough: bool) {
    for (i, x) in BOUNDARY.iter().enumerate() {
        if !thorough && i % 4 != 0 && *x != i64::MIN && *x != i64::MAX { continue; }
        for k in ["INT", "TEXT", "BOOL", "INT_OF_TEXT"] { cast_case(w, sut, k, &SA::I(*x), "cast:boundary"); }
        cast_case(w, sut, "INT", &SA::T(x.to_string()), "cast:boundary");
    }
    for k in CASTS { cast_case(w, sut, k.0, &SA::N, "cast:null"); }
    let n = if thorough { 3_000 } else { 90 };
    for _ in 0..n {
        match rng.below(4) {
            0 => { let k = *rng.pick(&["INT", "TEXT", "BOOL", "INT_OF_TEXT"]); cast_case(w, sut, k, &SA::I(rand_int(rng)), "cast:random_int"); }
            1 => cast_case(w, sut, "INT", &SA::T(rand_numeral(rng)), "cast:numeral_text"),
            2 => cast_case(w, sut, "TEXT", &SA::T(rand_string(rng)), "cast:random_text"),
            _ => cast_case(w, sut, *rng.pick(&["INT", "INT_OF_TEXT"]), &SA::T(if rng.chance(1, 2) { rand_numeral(rng) } else { rand_string(rng) }), "cast:random_text"),
        }
    }
}

// ------------------------------------------------------------------ float functions: identities that hold for any libm (sampled only)
fn flt_case(w: &mut CaseWriter, id: u32, n: i64, kind: &str) {
    let x = n as f64;
    let f = |v: f64| Some(Value::Float(v));
    let (name, args): (&str, Vec<Option<Value<'static>>>) = match id {
        0 => ("POWER", vec![f(x), f(1.0)]), 1 => ("SQRT", vec![f(x * x)]), 2 => ("ABS", vec![f(x)]), 3 => ("CEIL", vec![f(x)]),
        4 => ("FLOOR", vec![f(x)]), 5 => ("ROUND", vec![f(x)]), 6 => ("EXP", vec![f(0.0)]), 7 => ("LN", vec![f(1.0)]), 8 => ("SIN", vec![f(0.0)]),
        9 => ("COS", vec![f(0.0)]), 10 => ("SQRT", vec![f(-x)]), 11 => ("LN", vec![f(-x)]), 12 => ("MOD", vec![f(x), f(0.0)]),
        13 => ("POWER", vec![f(x), f(2.0)]), 14 => ("SIGN", vec![f(x)]), _ => return,
    };
    let d = call_direct(name, &args);
    w.count(&format!("flt:out:{}", d.bucket()), 1);
    w.push(format!("CFlt {} {} {}", id, zi(n as i128), d.coq()), format!("flt {} {}", id, n), true, kind);
}
fn flt_cases(w: &mut CaseWriter, rng: &mut Rng, thorough: bool) {
    let n = if thorough { 4_000 } else { 60 };
    let bs: &[i64] = if thorough { &[0, 1, -1, 2, 3, 1 << 26, -(1 << 26), 12345] } else { &[0, -1, 1 << 26] };
    for id in 0..15u32 { for x in bs.iter().copied() { flt_case(w, id, x, "flt:boundary"); } }
    for _ in 0..n { let id = rng.below(15) as u32; let x = match rng.below(3) { 0 => rng.range(-20, 20), 1 => rng.range(-67108864, 67108864), _ => rng.range(-100000, 100000) }; flt_case(w, id, x, "flt:random"); }
}

// ------------------------------------------------------------------ gen
fn gen(a: &Args) {
    let mut rng = Rng::new(a.seed);
    let mut w = CaseWriter::new(&a.out, "C20", "Corr.C20", 700);
    let mut sut = Sut::new();
    if let Some(lines) = a.replay_lines() {
        for l in lines { replay_line(&mut w, &mut sut, &l); }
        sut.cleanup();
        w.finish(&[]);
        return;
    }
    let thorough = a.thorough();
    // ---- arithmetic: every operator on boundary x boundary (sampled in the quick tier), then random trees
    for (o, _, _) in BOPS {
        for (i, x) in BOUNDARY.iter().enumerate() {
            for (j, y) in BOUNDARY.iter().enumerate() {
                if !thorough && (i * 7 + j * 3 + o as usize) % 61 != 0 { continue; }
                if o == Bop::Pow && *y < 0 { continue; }
                let r = if o == Bop::Pow { E::Lit(*y as u64) } else { E::of_int(*y) };
                let e = E::Bin(o, Box::new(E::of_int(*x)), Box::new(r));
                arith_case(&mut w, &mut sut, &e, "arith:boundary_pair");
            }
        }
    }
    for (u, _, _, _) in UOPS { for x in BOUNDARY { arith_case(&mut w, &mut sut, &E::Un(u, Box::new(E::of_int(x))), "arith:unary"); } }
    let n_tree = if thorough { 30_000 } else { 450 };
    for _ in 0..n_tree {
        let d = 1 + rng.below(3) as u32;
        let e = rand_expr(&mut rng, d);
        arith_case(&mut w, &mut sut, &e, "arith:random_tree");
    }
    // ---- numeric functions
    for f in NFNS {
        if f.2 == 1 { for (i, x) in BOUNDARY.iter().enumerate() { if thorough || i % 3 == 0 || *x == i64::MIN { num_case(&mut w, &mut sut, f.0, &[Some(*x)], "num:boundary"); } } num_case(&mut w, &mut sut, f.0, &[None], "num:null"); }
        let n = if thorough { 1_500 } else { 25 };
        for _ in 0..n { let args = rand_num_args(&mut rng, f.0); num_case(&mut w, &mut sut, f.0, &args, "num:random"); }
    }
    // ---- string functions: Unicode strings from all planes
    for f in SFNS {
        let n = if thorough { 2_000 } else { 36 };
        for _ in 0..n { let args = rand_str_args(&mut rng, f.0); str_case(&mut w, &mut sut, f.0, &args, "str:random"); }
    }
    let fixed: &[&str] = if thorough { &["", "a", "héllo", "e\u{301}\u{301}", "日本語", "𝄞x", "a\u{10FFFF}b", "  x  ", "\u{3000}x\u{a0}", "it's", "ÀB", "ß"] } else { &["", "héllo", "e\u{301}𝄞x", "\u{3000}x\u{a0}", "it's"] };
    for s0 in fixed.iter().copied() {
        for f in SFNS {
            if f.2 != 1 || f.3 != 1 || f.0 == "SPACE" { continue; }
            if (f.0 == "UPPER" || f.0 == "LOWER") && !s0.is_ascii() { continue; }       // Unicode case mapping is not modelled
            str_case(&mut w, &mut sut, f.0, &[SA::T(s0.to_string())], "str:fixed");
        }
        let ks: &[i64] = if thorough { &[-1, 0, 1, 2, 3, 100, i64::MAX, i64::MIN] } else { &[-1, 0, 2, i64::MAX, i64::MIN] };
        for k in ks.iter().copied() {
            for nm in ["LEFT", "RIGHT", "SUBSTR"] { str_case(&mut w, &mut sut, nm, &[SA::T(s0.to_string()), SA::I(k)], "str:fixed"); }
        }
    }
    // ---- CAST
    cast_cases(&mut w, &mut sut, &mut rng, thorough);
    // ---- float functions (identities only)
    flt_cases(&mut w, &mut rng, thorough);
    // ---- date functions
    for f in DFNS {
        let n = if thorough { 2_500 } else { 36 };
        for _ in 0..n { let args = rand_date_args(&mut rng, f.0); date_case(&mut w, &mut sut, f.0, &args, "date:random"); }
    }
    // every month boundary of a block of years (every 23rd year in the thorough tier), and both ends of the range
    let years: Vec<i64> = if thorough { (1..=9999).step_by(23).chain([4, 100, 400, 1900, 2000, 2024, 9999]).collect() } else { vec![1, 1900, 2024, 9999] };
    for y in years {
        for m in 1..=12 {
            let last = dim(y, m);
            date_case(&mut w, &mut sut, "LAST_DAY", &[DA::D(y, m, 1)], "date:month_boundary");
            date_case(&mut w, &mut sut, "DATE_ADD", &[DA::D(y, m, last), DA::I(1)], "date:month_boundary");
            date_case(&mut w, &mut sut, "DATE_SUB", &[DA::D(y, m, 1), DA::I(1)], "date:month_boundary");
            date_case(&mut w, &mut sut, "DAYOFYEAR", &[DA::D(y, m, last)], "date:month_boundary");
            date_case(&mut w, &mut sut, "DAYOFWEEK", &[DA::D(y, m, 1)], "date:month_boundary");
        }
    }
    let created = sut.created;
    sut.cleanup();
    w.finish(&[("databases_created".to_string(), created.to_string())]);
}

fn strip_tag(l: &str) -> &str { match l.find(" #") { Some(i) => &l[..i], None => l } }

fn replay_line(w: &mut CaseWriter, sut: &mut Sut, l: &str) {
    let l = strip_tag(l).trim();
    if let Some(r) = l.strip_prefix("arith ") {
        if let Some(e) = E::parse(r) { if wf(&e) { arith_case(w, sut, &e, "replay"); } }
    } else if let Some(r) = l.strip_prefix("num ") {
        let mut it = r.split_whitespace();
        let name = it.next().unwrap_or("").to_string();
        let args: Vec<Option<i64>> = it.map(|t| if t == "NULL" { None } else { t.parse::<i64>().ok() }).collect();
        num_case(w, sut, &name, &args, "replay");
    } else if let Some(r) = l.strip_prefix("str ") {
        let mut it = r.split_whitespace();
        let name = it.next().unwrap_or("").to_string();
        let args: Option<Vec<SA>> = it.map(SA::from_tok).collect();
        if let Some(args) = args { str_case(w, sut, &name, &args, "replay"); }
    } else if let Some(r) = l.strip_prefix("cast ") {
        let mut it = r.split_whitespace();
        let k = it.next().unwrap_or("").to_string();
        if let Some(arg) = it.next().and_then(SA::from_tok) { cast_case(w, sut, &k, &arg, "replay"); }
    } else if let Some(r) = l.strip_prefix("flt ") {
        let mut it = r.split_whitespace();
        if let (Some(id), Some(n)) = (it.next().and_then(|t| t.parse::<u32>().ok()), it.next().and_then(|t| t.parse::<i64>().ok())) { flt_case(w, id, n, "replay"); }
    } else if let Some(r) = l.strip_prefix("date ") {
        let mut it = r.split_whitespace();
        let name = it.next().unwrap_or("").to_string();
        let args: Option<Vec<DA>> = it.map(DA::from_tok).collect();
        if let Some(args) = args { date_case(w, sut, &name, &args, "replay"); }
    }
}

// ------------------------------------------------------------------ search: the property's oracle on the implementation only
/// expected result of the property's oracle (Rust ports of fn_exact / str_exact / date_exact of the Coq Spec)
#[derive(Clone, Debug, PartialEq)]
enum Exp { Int(i128), Text(String), Null, DivZ, Over, Any }
fn exp_ok(x: &Exp, o: &Out) -> bool {
    match o {
        Out::Panic => false,
        Out::Err => matches!(x, Exp::DivZ | Exp::Over | Exp::Any),
        Out::None | Out::Val(V::Null) => matches!(x, Exp::Null | Exp::DivZ | Exp::Any),
        Out::Val(v) => match (x, v) {
            (Exp::Int(z), V::Int(n)) => *z == *n as i128,
            (Exp::Int(z), V::FltI(n)) => z == n,
            (Exp::Text(t), V::Text(b)) => t.as_bytes() == b.as_slice(),
            (Exp::Any, _) => true,
            _ => false,
        },
    }
}
fn num_exact(name: &str, a: &[Option<i64>]) -> (Exp, u32) {
    let ints: Vec<i64> = a.iter().flatten().cloned().collect();
    let any_null = a.iter().any(|x| x.is_none());
    let in64 = |x: i128| if x >= i64::MIN as i128 && x <= i64::MAX as i128 { Exp::Int(x) } else { Exp::Over };
    match (name, a) {
        ("ABS", [Some(n)]) => { let e = in64((*n as i128).abs()); let c = if e == Exp::Over { 1 } else { 0 }; (e, c) }
        ("SIGN", [Some(n)]) => (Exp::Int(n.signum() as i128), 0),
        ("CEIL", [Some(n)]) | ("FLOOR", [Some(n)]) => (Exp::Int(*n as i128), 0),
        ("ROUND", [Some(n)]) | ("TRUNCATE", [Some(n)]) => (Exp::Int(*n as i128), 0),
        ("ROUND", [Some(n), Some(d)]) | ("TRUNCATE", [Some(n), Some(d)]) => (if *d >= 0 { Exp::Int(*n as i128) } else { Exp::Any }, 0),
        ("ABS", [None]) | ("SIGN", [None]) | ("CEIL", [None]) | ("FLOOR", [None]) | ("ROUND", [None]) | ("TRUNCATE", [None]) => (Exp::Null, 0),
        ("MOD", [Some(x), Some(y)]) => (if *y == 0 { Exp::DivZ } else { Exp::Int((*x as i128) % (*y as i128)) }, 0),
        ("DIV", [Some(x), Some(y)]) => { let e = if *y == 0 { Exp::DivZ } else { in64((*x as i128) / (*y as i128)) }; let c = if e == Exp::Over { 1 } else { 0 }; (e, c) }
        ("MOD", [_, _]) | ("DIV", [_, _]) => (Exp::Null, 0),
        ("GREATEST", [Some(_), ..]) => (if any_null { Exp::Any } else { Exp::Int(*ints.iter().max().unwrap() as i128) }, 0),
        ("LEAST", [Some(_), ..]) => (if any_null { Exp::Any } else { Exp::Int(*ints.iter().min().unwrap() as i128) }, 0),
        ("IF", [c, x, y]) => { let v = if matches!(c, Some(n) if *n != 0) { x } else { y }; (v.map_or(Exp::Null, |n| Exp::Int(n as i128)), 0) }
        ("IFNULL", [x, y]) => (x.or(*y).map_or(Exp::Null, |n| Exp::Int(n as i128)), 0),
        ("NULLIF", [Some(x), Some(y)]) => (if x == y { Exp::Null } else { Exp::Int(*x as i128) }, 0),
        ("NULLIF", [None, _]) => (Exp::Null, 0),
        ("NULLIF", [Some(x), None]) => (Exp::Int(*x as i128), 0),
        ("COALESCE", [_, ..]) => (ints.first().map_or(Exp::Null, |n| Exp::Int(*n as i128)), 0),
        ("ISNULL", [x]) => (Exp::Int(if x.is_none() { 1 } else { 0 }), 0),
        _ => (Exp::Any, 0),
    }
}
fn find_chars(h: &[char], n: &[char]) -> Option<usize> {
    if n.len() > h.len() { return None; }
    (0..=h.len() - n.len()).find(|i| &h[*i..*i + n.len()] == n)
}
fn cycle(p: &[char], k: usize) -> Vec<char> { (0..k).map(|i| p[i % p.len()]).collect() }
/// character-level reference for the string functions (the documented meaning), and the finding class of the input
fn str_exact(name: &str, a: &[SA]) -> (Exp, u32) {
    let cs = |i: usize| -> Option<Vec<char>> { match a.get(i) { Some(SA::T(s)) => Some(s.chars().collect()), _ => None } };
    let int = |i: usize| -> Option<i64> { match a.get(i) { Some(SA::I(n)) => Some(*n), _ => None } };
    let txt = |v: Vec<char>| Exp::Text(v.into_iter().collect());
    let class = 0;          // no recorded class is left for the string functions
    if a.iter().any(|x| *x == SA::N) { return (Exp::Null, class); }
    let e = match (name, a.len()) {
        ("LENGTH", 1) => match &a[0] { SA::T(s) => Exp::Int(s.len() as i128), _ => Exp::Any },
        ("CHAR_LENGTH", 1) => cs(0).map_or(Exp::Any, |c| Exp::Int(c.len() as i128)),
        ("ASCII", 1) => cs(0).map_or(Exp::Any, |c| match c.first() { None => Exp::Int(0), Some(ch) if ch.is_ascii() => Exp::Int(*ch as i128), _ => Exp::Any }),
        ("UPPER", 1) => cs(0).map_or(Exp::Any, |c| if c.iter().all(|x| x.is_ascii()) { txt(c.iter().map(|x| x.to_ascii_uppercase()).collect()) } else { Exp::Any }),
        ("LOWER", 1) => cs(0).map_or(Exp::Any, |c| if c.iter().all(|x| x.is_ascii()) { txt(c.iter().map(|x| x.to_ascii_lowercase()).collect()) } else { Exp::Any }),
        ("LEFT", 2) => match (cs(0), int(1)) { (Some(c), Some(n)) => txt(if n < 0 { vec![] } else { c.iter().take(n.min(c.len() as i64) as usize).cloned().collect() }), _ => Exp::Any },
        ("RIGHT", 2) => match (cs(0), int(1)) { (Some(c), Some(n)) => txt(if n < 0 { vec![] } else { let k = (n.min(c.len() as i64)) as usize; c[c.len() - k..].to_vec() }), _ => Exp::Any },
        ("SUBSTR", 2) | ("SUBSTR", 3) => match (cs(0), int(1)) {
            (Some(c), Some(pos)) => {
                let len = c.len() as i128;
                if pos == 0 { txt(vec![]) } else if (pos as i128) < -len { Exp::Any } else {
                    let start = (if pos > 0 { pos as i128 - 1 } else { len + pos as i128 }).min(len) as usize;
                    if a.len() == 2 { txt(c[start..].to_vec()) } else { match int(2) { Some(l) => txt(if l < 1 { vec![] } else { c[start..].iter().take(l.min(c.len() as i64) as usize).cloned().collect() }), None => Exp::Any } }
                }
            }
            _ => Exp::Any },
        ("REVERSE", 1) => cs(0).map_or(Exp::Any, |c| txt(c.into_iter().rev().collect())),
        ("LPAD", 3) | ("RPAD", 3) => match (cs(0), int(1), cs(2)) {
            (Some(c), Some(n), Some(p)) => if n < 0 { Exp::Any } else if n as usize <= c.len() { txt(c[..n as usize].to_vec()) } else if p.is_empty() || n > 65536 { Exp::Any }
                else { let pad = cycle(&p, n as usize - c.len()); txt(if name == "LPAD" { [pad, c].concat() } else { [c, pad].concat() }) },
            _ => Exp::Any },
        ("INSTR", 2) => match (cs(0), cs(1)) { (Some(h), Some(n)) => Exp::Int(find_chars(&h, &n).map_or(0, |k| k as i128 + 1)), _ => Exp::Any },
        ("LOCATE", 2) | ("LOCATE", 3) => match (cs(0), cs(1)) {
            (Some(n), Some(h)) => if n.is_empty() { Exp::Any } else if a.len() == 2 { Exp::Int(find_chars(&h, &n).map_or(0, |k| k as i128 + 1)) } else { match int(2) {
                Some(st) if st >= 1 => { let s0 = ((st - 1) as u64).min(h.len() as u64) as usize; Exp::Int(find_chars(&h[s0..], &n).map_or(0, |k| k as i128 + st as i128)) }
                _ => Exp::Any } },
            _ => Exp::Any },
        ("REPEAT", 2) => match (cs(0), int(1)) { (Some(c), Some(n)) => if n <= 0 { txt(vec![]) } else if n * c.len() as i64 <= 65536 { txt((0..n).flat_map(|_| c.clone()).collect()) } else { Exp::Any }, _ => Exp::Any },
        ("SPACE", 1) => match int(0) { Some(n) => if n <= 0 { txt(vec![]) } else if n <= 65536 { txt(vec![' '; n as usize]) } else { Exp::Any }, None => Exp::Any },
        ("TRIM", 1) | ("LTRIM", 1) | ("RTRIM", 1) => match &a[0] { SA::T(s) => {
            let (sp, ws) = match name { "TRIM" => (s.trim_matches(' '), s.trim()), "LTRIM" => (s.trim_start_matches(' '), s.trim_start()), _ => (s.trim_end_matches(' '), s.trim_end()) };
            if sp == ws { Exp::Text(sp.to_string()) } else { Exp::Any } }, _ => Exp::Any },
        ("CONCAT", _) => { let mut r = String::new(); let mut ok = true; for x in a { if let SA::T(s) = x { r.push_str(s) } else { ok = false } } if ok { Exp::Text(r) } else { Exp::Any } }
        ("STRCMP", 2) => match (cs(0), cs(1)) { (Some(x), Some(y)) => Exp::Int(match x.cmp(&y) { std::cmp::Ordering::Less => -1, std::cmp::Ordering::Equal => 0, _ => 1 }), _ => Exp::Any },
        ("INSERT", 4) => match (cs(0), int(1), int(2), cs(3)) {
            (Some(c), Some(pos), Some(len), Some(n)) => { let l = c.len() as i128; let p = pos as i128;
                if p < 1 || p > l + 1 { txt(c) } else if p == l + 1 || len < 0 { Exp::Any }
                else { let st = (p - 1) as usize; let e = ((p - 1 + len as i128).min(l)) as usize; txt([c[..st].to_vec(), n, c[e..].to_vec()].concat()) } }
            _ => Exp::Any },
        _ => Exp::Any,
    };
    (e, class)
}
/// calendar reference that shares nothing with the implementation's formulas: day number by summing year and month lengths
fn rata(y: i64, m: i64, d: i64) -> i64 {
    let mut n = 0i64;
    let y1 = y - 1;
    n += 365 * y1 + y1 / 4 - y1 / 100 + y1 / 400;          // days before the year (1 <= y), closed form of the sum of year lengths
    for j in 1..m { n += dim(y, j); }
    n + d - 1
}
fn date_of_rata(n: i64) -> (i64, i64, i64) {
    let mut y = n / 366 + 1;
    while rata(y + 1, 1, 1) <= n { y += 1; }
    let mut rest = n - rata(y, 1, 1);
    let mut m = 1;
    while m < 12 && rest >= dim(y, m) { rest -= dim(y, m); m += 1; }
    (y, m, rest + 1)
}
fn date_exact(name: &str, a: &[DA]) -> (Exp, u32) {
    let real = |x: &DA| matches!(x, DA::D(y, m, d) if *y >= 1 && *y <= 9999 && is_valid_date(*y, *m, *d));
    let fmt = |(y, m, d): (i64, i64, i64)| Exp::Text(format!("{:04}-{:02}-{:02}", y, m, d));
    let class = 0;          // no recorded class is left for the date functions
    if matches!(a.first(), Some(DA::N)) || (a.len() == 2 && a[1] == DA::N) { return (Exp::Null, class); }
    let e = match (name, a) {
        (_, [x @ DA::D(y, m, d)]) if real(x) => match name {
            "YEAR" => Exp::Int(*y as i128), "MONTH" => Exp::Int(*m as i128), "DAY" => Exp::Int(*d as i128),
            "DAYOFWEEK" => Exp::Int(((rata(*y, *m, *d) + 1) % 7 + 1) as i128),
            "DAYOFYEAR" => Exp::Int((rata(*y, *m, *d) - rata(*y, 1, 1) + 1) as i128),
            "LAST_DAY" => fmt((*y, *m, dim(*y, *m))),
            _ => Exp::Any,
        },
        ("DATEDIFF", [x @ DA::D(y1, m1, d1), z @ DA::D(y2, m2, d2)]) if real(x) && real(z) => Exp::Int((rata(*y1, *m1, *d1) - rata(*y2, *m2, *d2)) as i128),
        ("DATE_ADD", [x @ DA::D(y, m, d), DA::I(k)]) | ("DATE_SUB", [x @ DA::D(y, m, d), DA::I(k)]) if real(x) => {
            let n = if name == "DATE_ADD" { rata(*y, *m, *d) as i128 + *k as i128 } else { rata(*y, *m, *d) as i128 - *k as i128 };
            if n >= 0 && n <= rata(9999, 12, 31) as i128 { fmt(date_of_rata(n as i64)) } else { Exp::Any }
        }
        _ => Exp::Any,
    };
    (e, class)
}

fn search(a: &Args) {
    let mut rng = Rng::new(a.seed ^ 0xC20C20);
    let mut sut = Sut::new();
    let mut fails: Vec<String> = vec![];
    let mut per_class: std::collections::BTreeMap<String, u32> = Default::default();
    let mut tried: u64 = 0;
    let budget = a.budget.min(600_000);
    let mut note = |fails: &mut Vec<String>, line: String, class: u32| {
        let k = format!("{}:{}", line.split_whitespace().take(2).collect::<Vec<_>>().join(" "), class);
        let c = per_class.entry(k).or_insert(0);
        *c += 1;
        // keep a few per (function, class) so that a new failure is not crowded out by the recorded ones
        if *c <= 3 && fails.len() < 400 { fails.push(format!("{} #class={}", line, class)); }
    };
    while tried < budget {
        match rng.below(10) {
            0..=3 => {
                let d = 1 + rng.below(3) as u32;
                let e = rand_expr(&mut rng, d);
                let o = sut.select1(&format!("SELECT {}", e.sql()));
                let x = exact(&e);
                if !obs_ok(x, &o) { note(&mut fails, format!("arith {}", e.sexp()), arith_class(&e)); }
            }
            4 | 5 => {
                let f = rng.pick(&NFNS).0;
                let args = rand_num_args(&mut rng, f);
                let vals: Vec<Option<Value<'static>>> = args.iter().map(arg_val).collect();
                let d = call_direct(f, &vals);
                let (x, c) = num_exact(f, &args);
                if !exp_ok(&x, &d) { note(&mut fails, format!("num {} {}", f, args.iter().map(|a| match a { None => "NULL".to_string(), Some(v) => v.to_string() }).collect::<Vec<_>>().join(" ")), c); }
            }
            6 if rng.chance(1, 3) => {
                let n = rand_int(&mut rng);
                let k = *rng.pick(&["INT", "TEXT", "INT_OF_TEXT"]);
                let a = E::of_int(n).sql();
                let sql = match k { "INT" => format!("SELECT CAST({} AS INTEGER)", a), "TEXT" => format!("SELECT CAST({} AS TEXT)", a), _ => format!("SELECT CAST(CAST({} AS TEXT) AS INTEGER)", a) };
                let o = sut.select1(&sql);
                let x = if k == "TEXT" { Exp::Text(n.to_string()) } else { Exp::Int(n as i128) };
                if !exp_ok(&x, &o) { note(&mut fails, format!("cast {} i{}", k, n), 0); }
            }
            6 | 7 | 8 => {
                let f = rng.pick(&SFNS).0;
                let args = rand_str_args(&mut rng, f);
                if !str_args_runnable(f, &args) { continue; }
                let vals: Vec<Option<Value<'static>>> = args.iter().map(|a| a.val()).collect();
                let d = call_direct(f, &vals);
                let (x, c) = str_exact(f, &args);
                if !exp_ok(&x, &d) { note(&mut fails, format!("str {} {}", f, args.iter().map(|a| a.tok()).collect::<Vec<_>>().join(" ")), c); }
            }
            _ => {
                let f = rng.pick(&DFNS).0;
                let args = rand_date_args(&mut rng, f);
                let vals: Vec<Option<Value<'static>>> = args.iter().map(|a| a.val()).collect();
                let d = call_direct(f, &vals);
                let (x, c) = date_exact(f, &args);
                if !exp_ok(&x, &d) { note(&mut fails, format!("date {} {}", f, args.iter().map(|a| a.tok()).collect::<Vec<_>>().join(" ")), c); }
            }
        }
        tried += 1;
    }
    sut.cleanup();
    // failures outside every recorded class first
    fails.sort_by_key(|l| if l.ends_with("#class=0") { 0 } else { 1 });
    let mut out = format!("tried={}\n", tried);
    for f in &fails { out.push_str("FAIL "); out.push_str(f); out.push('\n'); }
    std::fs::write(&a.out, out).expect("write search output");
}

// ------------------------------------------------------------------ debug helper
fn sql_mode(a: &Args) {
    let file = a.rest.get(0).expect("file");
    let mut sut = Sut::new();
    sut.fresh();
    for l in std::fs::read_to_string(file).unwrap().lines() {
        let l = l.trim();
        if l.is_empty() || l.starts_with('#') { continue; }
        if sut.db.is_none() { sut.fresh(); }
        let db = sut.db.as_ref().unwrap();
        if l.to_uppercase().starts_with("SELECT") {
            let l2 = l.to_string();
            match catch(std::panic::AssertUnwindSafe(|| db.query(&l2))) {
                Caught::Done(Ok(rows)) => {
                    let s: Vec<String> = rows.iter().map(|r| format!("({})", r.values.iter().map(|v| format!("{:?}", v)).collect::<Vec<_>>().join(","))).collect();
                    println!("{}\n   => {}", l, s.join(" "));
                }
                Caught::Done(Err(e)) => println!("{}\n   => ERR {:#}", l, e),
                Caught::Panicked(m) => { println!("{}\n   => PANIC {}", l, m); sut.db = None; }
            }
        } else if let Err(e) = db.execute(l) { println!("{}\n   => ERR {:#}", l, e) }
    }
    sut.cleanup();
    let _ = Cow::Borrowed("");
}
